import argparse
import os
import sys

from . import runner


def main():
    ap = argparse.ArgumentParser()
    ap.add_argument('pid')
    ap.add_argument('--tier', default=os.environ.get('VERIF_TIER', 'quick'))
    ap.add_argument('--replay', default=None)
    ap.add_argument('--seed', default=None)
    a = ap.parse_args()
    sys.exit(runner.main(a.pid.upper(), a.tier, a.seed, a.replay))


main()
