"""Generic check runner: build proofs, generate cases, run dit on /repo's working tree, evaluate the
Coq model and the property predicate on the same cases with coqc, triage, write evidence."""
import importlib
import json
import multiprocessing as mp
import os
import random
import shutil
import signal
import sys
import time
import traceback

from . import lib

CASE_TIMEOUT = 120


class CaseTimeout(Exception):
    pass


def _alarm(signum, frame):
    raise CaseTimeout()


_MOD = None


def _init_worker(modname):
    global _MOD
    _MOD = importlib.import_module(modname)
    signal.signal(signal.SIGALRM, _alarm)


def _observe(case):
    import numpy as np
    np.seterr(all='ignore')
    signal.alarm(getattr(_MOD, 'CASE_TIMEOUT', CASE_TIMEOUT))
    try:
        return _MOD.observe(case)
    except CaseTimeout:
        return {'harness_error': 'timeout'}
    except Exception as e:  # a failure of the harness itself or an unexpected dit exception
        return {'harness_error': '%s: %s' % (type(e).__name__, traceback.format_exc()[-1500:])}
    finally:
        signal.alarm(0)


def observe_all(modname, cases, procs=lib.NCPU):
    if not cases:
        return []
    procs = min(procs, max(1, len(cases)))
    ctx = mp.get_context('fork')
    with ctx.Pool(procs, initializer=_init_worker, initargs=(modname,)) as pool:
        return pool.map(_observe, cases, chunksize=max(1, len(cases) // (procs * 4)))


def violation(pid, replay, suffix=''):
    line = 'VIOLATION property=%s replay=%s' % (pid, replay)
    if suffix:
        line += ' ' + suffix
    print(line)
    sys.stdout.flush()


def main(pid, tier='quick', seed=None, replay=None):
    t0 = time.time()
    seed = int(seed if seed is not None else os.environ.get('VERIF_SEED', lib.DEFAULT_SEED))
    modname = 'harness.props.' + pid.lower()
    mod = importlib.import_module(modname)
    workdir = os.path.join(lib.WORK, '%s-%s' % (pid, tier))
    shutil.rmtree(workdir, ignore_errors=True)
    os.makedirs(workdir)
    if not replay:
        shutil.rmtree(os.path.join(lib.REPLAYS, pid), ignore_errors=True)
    known = lib.load_known()
    known_here = [f for f in known.get('findings', []) if f['property'] == pid]
    nviol = 0
    assumptions = list(getattr(mod, 'ASSUMPTIONS', []))
    trusted = list(getattr(mod, 'TRUSTED', []))

    # 1. proofs -----------------------------------------------------------------------------
    rc, out = lib.build_theories(pid)
    props = {'theorems': [], 'ok': False, 'axioms': [], 'closed': 0, 'log': ''}
    coq_imports, verdict_fn = mod.COQ_IMPORTS, getattr(mod, 'VERDICT', None)
    proof_broken = None          # reported after the search for a failing input (step 3)
    model_ok = rc == 0
    if rc != 0:
        proof_broken = {'kind': 'proof-build-failed', 'log': out[-6000:],
                        'obligation': 'make theories/Props/%s.vo in /verif/coq' % pid}
        if hasattr(mod, 'FALLBACK'):
            # the theorems no longer check: keep the hand-written model running to search for a failing input
            fb = mod.FALLBACK
            rcm, outm = lib.build_targets(fb['targets'])
            if rcm == 0:
                model_ok = True
                coq_imports, verdict_fn = fb['imports'], fb['verdict']
    else:
        props = lib.check_props_file(pid, workdir)
        if not props['ok']:
            proof_broken = {'kind': 'property-theorems-do-not-check', 'file': 'coq/theories/Props/%s.v' % pid,
                            'theorems': props['theorems'], 'log': props['log']}

    # 2. cases ------------------------------------------------------------------------------
    rng = random.Random(seed)
    if replay:
        payload = json.load(open(replay))
        cases = payload['cases'] if 'cases' in payload else [payload['case']]
    else:
        cases = []
        cdir = os.path.join(lib.ROOT, 'corpus', pid)
        if os.path.isdir(cdir):
            for fn in sorted(os.listdir(cdir)):
                if fn.endswith('.json'):
                    payload = json.load(open(os.path.join(cdir, fn)))
                    cases.extend(payload['cases'] if 'cases' in payload else [payload['case']])
        cases.extend(mod.generate(rng, tier))
    try:
        importlib.import_module('dit')
        import_error = None
    except Exception:
        import_error = traceback.format_exc()
    coverage = {}
    verdicts = []
    obs = []
    extra = {}
    goal_items = {}
    if import_error is not None:
        path = lib.write_replay(pid, seed, 'import', {'kind': 'import dit failed', 'log': import_error[-4000:]})
        violation(pid, path)
        nviol += 1
        cases = []
    elif model_ok:
        obs = observe_all(modname, cases)
        terms = []
        idx = []
        herr = []
        for i, (c, o) in enumerate(zip(cases, obs)):
            if o.get('harness_error') == 'timeout' and hasattr(mod, 'timeout_ok') and mod.timeout_ok(c):
                # a numerical optimisation that did not finish within the per-case limit: nothing observed, nothing claimed
                o['skipped'] = 'timeout'
                extra['timeouts_skipped'] = extra.get('timeouts_skipped', 0) + 1
                continue
            if 'harness_error' in o:
                herr.append(i)
                continue
            terms.append(mod.to_coq(c, o))
            idx.append(i)
            if isinstance(terms[-1], dict):
                goal_items[i] = terms[-1]
        try:
            if getattr(mod, 'MODE', 'eval') == 'goals':
                vs = []
                gres = lib.run_coq_goals(pid, workdir, coq_imports, terms, shard=getattr(mod, 'SHARD', 40),
                                         preamble=getattr(mod, 'PREAMBLE', ''))
                for item, r in zip(terms, gres):
                    extra['goals'] = extra.get('goals', 0) + len(r)
                    extra['goals_inconclusive'] = extra.get('goals_inconclusive', 0) + sum(1 for x in r if x == 'INCONCLUSIVE')
                    if item.get('hint_dropped'):
                        extra['hints_dropped'] = extra.get('hints_dropped', 0) + 1
                    if item.get('pyviolation'):
                        vs.append((90, 90))
                    elif 'FAIL' in r:
                        k = r.index('FAIL')
                        vs.append((k + 1, k + 1))
                    else:
                        vs.append((0, 0))
                    item['verdicts'] = r
            else:
                vs = lib.run_coq_cases(pid, workdir, coq_imports, verdict_fn, terms,
                                       shard=getattr(mod, 'SHARD', 200),
                                       preamble=getattr(mod, 'PREAMBLE', ''))
        except RuntimeError as e:
            path = lib.write_replay(pid, seed, 'coqc', {'kind': 'model-evaluation-failed', 'log': str(e)[-6000:]})
            violation(pid, path, 'no-failing-input-found')
            nviol += 1
            vs = [(0, 0)] * len(terms)
        verdicts = [None] * len(cases)
        for i, v in zip(idx, vs):
            verdicts[i] = v

        for i, item in goal_items.items():
            obs[i]['_goal_labels'] = item.get('labels')
            obs[i]['_goal_verdicts'] = item.get('verdicts')
            obs[i]['_pyviolation'] = item.get('pyviolation')
        # 3. triage -------------------------------------------------------------------------
        reported_known = set()
        nrep = 0
        for i, c in enumerate(cases):
            o = obs[i]
            v = verdicts[i]
            if v == (0, 0) or o.get('skipped'):
                continue
            kfs = None
            if hasattr(mod, 'covering_findings'):
                kfs = mod.covering_findings(known_here, c, o, v)      # several findings may jointly explain a case
            else:
                for f in known_here:
                    if mod.matches_finding(f, c, o, v):
                        kfs = [f]
                        break
            if kfs:
                for kf in kfs:
                    if kf['id'] not in reported_known:
                        print('KNOWN-FINDING: property=%s %s' % (pid, kf['what']))
                        reported_known.add(kf['id'])
                continue
            nviol += 1
            if nrep >= 5:
                continue
            nrep += 1
            if v is None:
                path = lib.write_replay(pid, seed, i, {'kind': 'dit raised / harness could not observe', 'case': c, 'observation': o})
                violation(pid, path)
            else:
                corr, prop = v
                payload = {'case': c, 'observation': o, 'corr_code': corr, 'prop_code': prop,
                           'meaning': getattr(mod, 'CODES', {})}
                if i in goal_items:
                    payload['goal_labels'] = goal_items[i].get('labels')
                    payload['goal_verdicts'] = goal_items[i].get('verdicts')
                    payload['pyviolation'] = goal_items[i].get('pyviolation')
                if prop != 0:
                    payload['kind'] = 'property predicate false on dit output'
                    path = lib.write_replay(pid, seed, i, payload)
                    violation(pid, path)
                else:
                    # correspondence broken but the property predicate holds on this output:
                    # look for a failing input among the neighbours
                    found = None
                    if hasattr(mod, 'neighbours'):
                        ns = mod.neighbours(c, random.Random(seed + i))
                        nobs = observe_all(modname, ns)
                        nterms = [mod.to_coq(a, b) for a, b in zip(ns, nobs) if 'harness_error' not in b]
                        nkeep = [(a, b) for a, b in zip(ns, nobs) if 'harness_error' not in b]
                        try:
                            nvs = lib.run_coq_cases(pid, os.path.join(workdir, 'nb%d' % i), coq_imports,
                                                    verdict_fn, nterms, preamble=getattr(mod, 'PREAMBLE', ''))
                        except RuntimeError:
                            nvs = []
                        for (a, b), nv in zip(nkeep, nvs):
                            if nv[1] != 0:
                                found = (a, b, nv)
                                break
                    if found:
                        payload = {'kind': 'property predicate false on dit output (neighbour of a correspondence failure)',
                                   'case': found[0], 'observation': found[1], 'corr_code': found[2][0],
                                   'prop_code': found[2][1], 'origin': c}
                        path = lib.write_replay(pid, seed, i, payload)
                        violation(pid, path)
                    else:
                        payload['kind'] = 'correspondence broken'
                        payload['obligation'] = '%s.corr: dit observation = model (coq/theories/Model)' % pid
                        path = lib.write_replay(pid, seed, i, payload)
                        violation(pid, path, 'no-failing-input-found')

    if proof_broken is not None:
        # a proof obligation no longer checks.  If the search above exhibited a concrete failing input, its
        # VIOLATION lines carry the replay; otherwise the property is no longer shown to hold: report that.
        found = any(v is not None and v[1] != 0 for v in verdicts)
        proof_broken['failing_input_found_by_correspondence'] = found
        path = lib.write_replay(pid, seed, 'proof', proof_broken)
        if not found:
            violation(pid, path, 'no-failing-input-found')
        else:
            print('proof obligation broken as well: %s' % path)
        nviol += 1

    # 4. evidence ---------------------------------------------------------------------------
    keys = set()
    nontrivial = 0
    hist = {}
    for c, o in zip(cases, obs):
        k = lib.canon(c)
        d = mod.describe(c, o)
        for kk, vv in d.items():
            hist.setdefault(kk, {})
            hist[kk][str(vv)] = hist[kk].get(str(vv), 0) + 1
        if k in keys:
            continue
        keys.add(k)
        if 'harness_error' not in o and mod.nontrivial(c, o):
            nontrivial += 1
    nob = len(props['theorems'])
    coverage = {
        'obligations': max(nob, 1),
        'discharged': nob if props['ok'] else 0,
        'theorems': props['theorems'],
        'axioms_reported_by_Print_Assumptions': props['axioms'],
        'closed_under_global_context': props.get('closed', 0),
        'checker_cmd': 'make -C /verif/coq (coqc 8.16.1, full .vo build) && coqc Props/%s.v; correspondence: coqc work/%s-%s/cases_*.v (Eval vm_compute)' % (pid, pid, tier),
        'trusted_base': trusted,
        'evaluations': len(cases),
        'distinct_nontrivial': nontrivial,
        'rule': getattr(mod, 'RULE', ''),
        'samples': [{'case': c, 'observation': o} for c, o in list(zip(cases, obs))[:2]],
        'input_distribution': hist,
        'harness_errors': sum(1 for o in obs if 'harness_error' in o),
        'correspondence_disagreements': sum(1 for v in verdicts if v is not None and v[0] != 0),
        'property_predicate_failures': sum(1 for v in verdicts if v is not None and v[1] != 0),
    }
    coverage.update(extra)
    lib.write_evidence(pid, tier, seed, coverage, assumptions, time.time() - t0, nviol)
    print('%s %s: %d cases, %d violations, %d theorems (%s), %.1fs' % (
        pid, tier, len(cases), nviol, nob, 'ok' if props['ok'] else 'FAILED', time.time() - t0))
    return 1 if nviol else 0
