"""Structured generation of joint distributions in rank space, their presentation as Python
values for dit, and the encoding/decoding between the two (DESIGN 2.1, 3)."""
import itertools
import math
from fractions import Fraction

import numpy as np

from . import lib

BASES = ['linear', 2, 'e', 10, 3.5, 0.5]
NAMES = ['A', 'B', 'C', 'D', 'E', 'F']

# monotone symbol tables (rank -> python symbol), one per outcome class
SYMS = {
    'str': list('0123456789'),
    'int': [-3, 0, 1, 2, 5, 7, 11, 12, 40, 100],
    'strtuple': ['a', 'ab', 'b', 'ba', 'c', 'd', 'da', 'e', 'x', 'z'],
}


def pyo(spec, ranks):
    """rank outcome -> python outcome of the spec's class"""
    k = spec['klass']
    syms = SYMS[k]
    if k == 'str':
        return ''.join(syms[r] for r in ranks)
    return tuple(syms[r] for r in ranks)


def rko(spec, o):
    """python outcome -> rank outcome (raises ValueError for foreign symbols)"""
    syms = SYMS[spec['klass']]
    return [syms.index(x) for x in o]


def base_num(b):
    return math.e if b == 'e' else float(b)


# ------------------------------------------------------------------------------------------
# probability vectors


def gen_probs(rng, n, kind=None):
    """n floats summing to one (as floats: within dit's tolerance); several regimes"""
    if n == 0:
        return []
    kind = kind or rng.choice(['dyadic', 'dyadic', 'kn', 'decimal', 'random', 'neardeg', 'tiny'])
    if n == 1:
        return [1.0]
    if kind == 'dyadic':
        m = rng.choice([3, 4, 6])
        tot = 2 ** m
        cuts = sorted(rng.sample(range(1, tot), min(n - 1, tot - 1)))
        while len(cuts) < n - 1:
            cuts.append(cuts[-1])
        cuts = sorted(cuts)
        parts = [b - a for a, b in zip([0] + cuts, cuts + [tot])]
        return [p / tot for p in parts]
    if kind == 'kn':
        ws = [rng.randint(1, 6) for _ in range(n)]
        s = sum(ws)
        return [w / s for w in ws]
    if kind == 'decimal':
        ws = [rng.randint(1, 9) for _ in range(n)]
        s = sum(ws)
        ps = [round(w / s, 2) for w in ws]
        ps[-1] = round(1 - sum(ps[:-1]), 2)
        if min(ps) <= 0:
            return gen_probs(rng, n, 'kn')
        return ps
    if kind == 'random':
        ws = [rng.random() + 0.01 for _ in range(n)]
        s = sum(ws)
        return [w / s for w in ws]
    if kind == 'neardeg':
        eps = 1e-6
        ps = [eps] * n
        ps[rng.randrange(n)] = 1 - eps * (n - 1)
        return ps
    if kind == 'tiny':
        # one value well inside the null tolerance (1e-9), mass still within 1e-8+1e-5 of one
        ps = gen_probs(rng, n - 1, 'dyadic') + [1e-9]
        rng.shuffle(ps)
        return ps
    raise ValueError(kind)


# ------------------------------------------------------------------------------------------
# joint specs


def gen_spec(rng, nmin=1, nmax=3, amax=3, allow_log=True, allow_expl=True, allow_names=True,
             klasses=('str', 'int', 'strtuple'), max_ss=64, prob_kinds=None):
    n = rng.randint(nmin, nmax)
    klass = rng.choice(list(klasses))
    # heterogeneous alphabets: each variable draws a subset of the ranks
    while True:
        alph = []
        for _ in range(n):
            size = rng.randint(1, amax)
            alph.append(sorted(rng.sample(range(6), size)))
        if np.prod([len(a) for a in alph]) <= max_ss:
            break
    full = [list(o) for o in itertools.product(*alph)]
    pattern = rng.choice(['full', 'sparse', 'sparse', 'functional', 'block', 'single', 'dupcol'])
    if pattern == 'full' or len(full) == 1:
        support = full
    elif pattern == 'sparse':
        k = rng.randint(1, len(full))
        support = sorted(rng.sample(full, k))
    elif pattern == 'single':
        support = [rng.choice(full)]
    elif pattern == 'functional' and n >= 2:
        # last variable is a function of the others
        f = {}
        support = []
        for o in itertools.product(*alph[:-1]):
            y = f.setdefault(o, rng.choice(alph[-1]))
            support.append(list(o) + [y])
        if rng.random() < 0.5 and len(support) > 1:
            support = sorted(rng.sample(support, rng.randint(1, len(support))))
    elif pattern == 'dupcol' and n >= 2:
        common = sorted(set(alph[0]) & set(alph[1]))
        support = [o for o in full if o[0] == o[1]] if common else full
        if not support:
            support = full
    elif pattern == 'block' and n >= 2:
        support = [o for o in full if (alph[0].index(o[0]) * 2 < len(alph[0])) == (alph[1].index(o[1]) * 2 < len(alph[1]))]
        if not support:
            support = full
    else:
        support = full
    # explicit zeros
    zeros = []
    if rng.random() < 0.3:
        rest = [o for o in full if o not in support]
        if rest:
            zeros = rng.sample(rest, rng.randint(1, min(2, len(rest))))
    probs = gen_probs(rng, len(support), rng.choice(prob_kinds) if prob_kinds else None)
    outcomes = support + zeros
    pmf = probs + [0.0] * len(zeros)
    order = list(range(len(outcomes)))
    rng.shuffle(order)
    outcomes = [outcomes[i] for i in order]
    pmf = [pmf[i] for i in order]
    ss_kind = rng.choice(['default', 'default', 'cart', 'expl'] if allow_expl else ['default', 'default', 'cart'])
    ss = None
    if ss_kind == 'cart':
        # enlarged Cartesian sample space given as CartesianProduct
        big = []
        for a in alph:
            extra = [r for r in range(6) if r not in a]
            add = rng.sample(extra, min(len(extra), rng.randint(0, 1)))
            big.append(sorted(a + add))
        if np.prod([len(a) for a in big]) > max_ss:
            big = alph
        ss = big
    elif ss_kind == 'expl':
        rest = [o for o in full if o not in outcomes]
        extra = rng.sample(rest, rng.randint(0, min(3, len(rest)))) if rest else []
        ss = outcomes + extra
        if rng.random() < 0.5:
            rng.shuffle(ss)
        else:
            ss = sorted(ss)
    base = rng.choice(BASES) if (allow_log and rng.random() < 0.35) else 'linear'
    names = None
    if allow_names and rng.random() < 0.4:
        names = rng.sample(NAMES, n)
    spec = {'n': n, 'klass': klass, 'alph': alph, 'outcomes': outcomes, 'pmf': pmf,
            'ss_kind': ss_kind, 'ss': ss, 'base': base, 'sparse': rng.random() < 0.65,
            'trim': rng.random() < 0.7, 'names': names}
    return spec


def make_dist(spec):
    """Build the dit Distribution of a spec (linear constructor, then set_base for log bases)."""
    import dit
    from dit.samplespace import CartesianProduct
    outs = [pyo(spec, o) for o in spec['outcomes']]
    kw = {}
    if spec['ss_kind'] == 'cart':
        alphs = [[lib_sym(spec, r) for r in a] for a in spec['ss']]
        kw['sample_space'] = CartesianProduct(alphs) if spec['klass'] == 'str' else CartesianProduct(alphs, product=itertools.product)
    elif spec['ss_kind'] == 'expl':
        kw['sample_space'] = [pyo(spec, o) for o in spec['ss']]
    d = dit.Distribution(outs, list(spec['pmf']), sparse=spec['sparse'], trim=spec['trim'], **kw)
    if spec['names'] is not None:
        d.set_rv_names(spec['names'])
    if spec['base'] != 'linear':
        d.set_base(spec['base'])
    if spec.get('via_copy'):
        d = d.copy()
    return d


def lib_sym(spec, r):
    return SYMS[spec['klass']][r]


def name_id(nm):
    return NAMES.index(nm)


# ------------------------------------------------------------------------------------------
# observation of a dit distribution in rank space


def linearise(d, v):
    """dit value (linear or log) -> linear float, done the way any user would: base ** v"""
    if not d.is_log():
        return float(v)
    b = d.get_base(numerical=True)
    v = float(v)
    if v == -math.inf:
        return 0.0 if b > 1 else math.inf
    if v == math.inf:
        return 0.0 if b < 1 else math.inf
    return float(b) ** v


def flatten(o):
    """flatten one level of nesting (coalesced outcomes are tuples of inner outcomes)"""
    out = []
    for x in o:
        out.extend(x)
    return out


def base_tag(d):
    b = d.get_base()
    if b == 'linear':
        return 'linear'
    if b == 'e':
        return 'e'
    return float(b)


def snapshot(d):
    """bit-level snapshot of everything observable about a distribution"""
    return (tuple(d.outcomes), d.pmf.tobytes(), str(d.pmf.dtype), d.get_base(), d.is_sparse(),
            tuple(map(tuple, d.alphabet)) if d.is_joint() else tuple(d.alphabet),
            tuple(d.sample_space()), d.get_rv_names() if d.is_joint() else None,
            tuple(d._mask) if d.is_joint() else None)


def model_dist_term(spec, d):
    """Coq `dist` term describing the *actual* state of the dit object d built from spec.
    Linear base: the stored floats exactly.  Log base: the spec's linear floats, in stored order
    (stored outcomes that the spec does not list have value 0)."""
    from dit.samplespace import CartesianProduct
    ss = d._sample_space
    if isinstance(ss, CartesianProduct):
        sst = '(Cart %s)' % lib.natlistlist([[SYMS[spec['klass']].index(x) for x in a] for a in ss.alphabets])
    else:
        sst = '(Expl %s)' % lib.natlistlist([rko(spec, o) for o in ss])
    if spec['base'] == 'linear':
        pairs = [(rko(spec, o), float(p)) for o, p in zip(d.outcomes, d.pmf)]
    else:
        given = {tuple(o): p for o, p in zip(spec['outcomes'], spec['pmf'])}
        pairs = [(rko(spec, o), float(given.get(tuple(rko(spec, o)), 0.0))) for o in d.outcomes]
    names = d.get_rv_names()
    nm = lib.optc(names, lambda ns: lib.natlist([name_id(x) for x in ns]))
    return '(mkDist %s %s %s %s %s)' % (sst, lib.pdc(pairs), lib.boolc(d.is_sparse()),
                                         lib.basec(spec['base']), nm)
