"""C20 — simplex utilities stay on the simplex and invert each other."""
import math
from fractions import Fraction

import numpy as np

from .. import lib

MODE = 'goals'
COQ_IMPORTS = ['Check', 'C20_Model']
SHARD = 20
RULE = ('compositions of dimension 2..8 with entries spanning up to 12 orders of magnitude (dyadic, random, near-degenerate): clr / alr / ilr '
        'component values (interval goals), their inverses (relative 1e-9 round trip), Aitchison distance vs model and the ilr isometry, closure / '
        'perturbation / power; perturb_support, replace_zeros (deterministic and random), jittered, convex_combination, downsample for subdivisions '
        '1..12 incl. pmfs with zeros; simplex_grid for all (length, subdivisions) up to (6,6) in thorough and a random subset in quick. '
        'Non-trivial: dimension >= 3; distinct by canonical JSON.')
TRUSTED = ['Coq 8.16.1 kernel incl. vm_compute; Coq-Interval (log2, sqrt)', 'Python driver: exact float->Q', 'model C20_Model.v hand-written; randomised utilities are checked against their output conditions only']
ASSUMPTIONS = ['float rounding within 1e-9 (relative for round trips)', 'perturb_support / jittered / replace_zeros(rand=True) have no deterministic model: only sum, sign, support and range are checked']
CODES = {'corr': 'k = index+1 of first false goal (see goal_labels); 90 = python-side violation', 'prop': 'same'}
TOL = Fraction(1, 10 ** 9)


def gen_comp(rng, positive=True):
    n = rng.randint(2, 8)
    kind = rng.choice(['dyadic', 'random', 'wide', 'wide', 'neardeg', 'huge', 'thirds'])
    if kind == 'dyadic':
        v = [rng.randint(1, 16) / 16.0 for _ in range(n)]
    elif kind == 'random':
        v = [rng.random() + 1e-3 for _ in range(n)]
    elif kind == 'wide':
        v = [10.0 ** rng.uniform(-12, 0) for _ in range(n)]
    elif kind == 'huge':
        # entries whose plain product underflows a double
        n = rng.randint(6, 8)
        v = [10.0 ** rng.uniform(-60, -40) for _ in range(n)]
        v[rng.randrange(n)] = 1.0
    elif kind == 'thirds':
        ws = [rng.randint(1, 5) for _ in range(n)]
        v = [w / sum(ws) for w in ws]
    else:
        v = [1e-9] * n
        v[rng.randrange(n)] = 1.0
    s = sum(v)
    v = [x / s for x in v]
    n = len(v)
    if not positive:
        if rng.random() < 0.5:
            # trailing zeros
            for i in range(n - rng.randint(1, max(1, n - 2)), n):
                v[i] = 0.0
        else:
            for _ in range(rng.randint(1, max(1, n - 2))):
                v[rng.randrange(n)] = 0.0
        s = sum(v)
        if s == 0:
            v[0] = 1.0
            s = 1.0
        v = [x / s for x in v]
    return v


def gen_case(rng):
    kind = rng.choice(['transforms', 'transforms', 'roundtrip', 'roundtrip', 'dist', 'algebra', 'perturb_support', 'replace_zeros',
                       'jittered', 'convex', 'downsample', 'downsample', 'downsample', 'grid'])
    c = {'kind': kind}
    if kind in ('transforms', 'roundtrip'):
        c['x'] = gen_comp(rng)
    elif kind == 'dist':
        c['x'] = gen_comp(rng)
        c['y'] = gen_comp(rng)
        while len(c['y']) != len(c['x']):
            c['y'] = gen_comp(rng)
    elif kind == 'algebra':
        c['x'] = gen_comp(rng)
        c['dx'] = [rng.random() + 0.1 for _ in c['x']]
        c['a'] = rng.choice([0.5, 2.0, -1.0, 3.0])
    elif kind == 'perturb_support':
        c['x'] = gen_comp(rng, positive=rng.random() < 0.4)
        while sum(1 for v in c['x'] if v > 0) < 2:
            c['x'] = gen_comp(rng)
        c['eps'] = rng.choice([0.1, 0.01, 0.5])
        c['shape'] = rng.choice(['ball', 'square'])
        c['seed'] = rng.randint(0, 10 ** 6)
    elif kind == 'replace_zeros':
        c['x'] = gen_comp(rng, positive=False)
        c['delta'] = rng.choice([0.01, 0.001, 1e-5])
        c['rand'] = rng.random() < 0.5
        c['seed'] = rng.randint(0, 10 ** 6)
    elif kind == 'jittered':
        c['x'] = gen_comp(rng, positive=False)
        while sum(1 for v in c['x'] if v > 0) < 1 or len(c['x']) < 2:
            c['x'] = gen_comp(rng, positive=False)
        c['seed'] = rng.randint(0, 10 ** 6)
    elif kind == 'convex':
        n = rng.randint(2, 5)
        m = rng.randint(1, 4)
        c['ps'] = []
        while len(c['ps']) < m:
            v = gen_comp(rng, positive=rng.random() < 0.5)
            if len(v) == n:
                c['ps'].append(v)
        c['w'] = None if rng.random() < 0.3 else [rng.randint(1, 5) * 1.0 for _ in range(m)]
    elif kind == 'downsample':
        c['x'] = gen_comp(rng, positive=rng.random() < 0.5)
        c['s'] = rng.randint(1, 12)
        if rng.random() < 0.45:
            # ratios of small integers followed by zero-probability outcomes, on a grid that is not a power of two
            m = rng.randint(2, 4)
            ws = [rng.randint(1, 4) for _ in range(m)]
            c['x'] = [w / sum(ws) for w in ws] + [0.0] * rng.randint(1, 3)
            c['s'] = rng.choice([3, 5, 6, 7, 9, 10, 11, 12])
    elif kind == 'grid':
        c['length'] = rng.randint(1, 5)
        c['sub'] = rng.randint(1, 5)
    return c


def generate(rng, tier):
    n = 200 if tier == 'quick' else 2000
    cases = [gen_case(rng) for _ in range(n)]
    if tier == 'thorough':
        for length in range(1, 7):
            for sub in range(1, 7):
                cases.append({'kind': 'grid', 'length': length, 'sub': sub})
        for s in range(1, 9):
            for _ in range(10):
                cases.append({'kind': 'downsample', 'x': gen_comp(rng, positive=False), 's': s})
    return cases


def fl(a):
    return [float(v) for v in np.asarray(a).ravel()]


def observe(case):
    import dit
    from dit.math import aitchison as A
    from dit.math import pmfops as P
    k = case['kind']
    if k == 'transforms':
        x = np.array(case['x'])
        return {'clr': fl(A.clr(x)), 'alr': fl(A.alr(x)), 'ilr': fl(A.ilr(x))}
    if k == 'roundtrip':
        x = np.array(case['x'])
        return {'clr': fl(A.clr_inv(A.clr(x))), 'alr': fl(A.alr_inv(A.alr(x))), 'ilr': fl(A.ilr_inv(A.ilr(x)))}
    if k == 'dist':
        x, y = np.array(case['x']), np.array(case['y'])
        return {'d': float(A.dist(x, y)), 'ix': fl(A.ilr(x)), 'iy': fl(A.ilr(y))}
    if k == 'algebra':
        x, dx = np.array(case['x']), np.array(case['dx'])
        return {'pert': fl(A.perturbation(x, dx)), 'pow': fl(A.power(x, case['a'])), 'clo': fl(A.closure(x * 3.7))}
    if k == 'perturb_support':
        prng = np.random.RandomState(case['seed'])
        return {'out': fl(P.perturb_support(np.array(case['x']), case['eps'], shape=case['shape'], prng=prng))}
    if k == 'replace_zeros':
        prng = np.random.RandomState(case['seed'])
        x = np.array(case['x'])
        x0 = x.copy()
        out = P.replace_zeros(x, case['delta'], rand=case['rand'], prng=prng)
        return {'out': fl(out), 'pure': bool(np.array_equal(x, x0))}
    if k == 'jittered':
        prng = np.random.RandomState(case['seed'])
        return {'out': fl(P.jittered(np.array(case['x']), prng=prng))}
    if k == 'convex':
        ps = np.array(case['ps'])
        w = None if case['w'] is None else list(case['w'])
        return {'out': fl(P.convex_combination(ps, w))}
    if k == 'downsample':
        x = np.array(case['x'])
        x0 = x.copy()
        out = P.downsample(x, case['s'])
        return {'out': fl(out), 'pure': bool(np.array_equal(x, x0))}
    if k == 'grid':
        pts = list(dit.simplex_grid(case['length'], case['sub'], using=tuple))
        return {'pts': [[int(round(v * case['sub'])) for v in p] for p in pts],
                'exact': all(abs(v * case['sub'] - round(v * case['sub'])) < 1e-9 for p in pts for v in p)}
    raise ValueError(k)


def bg(e):
    return ('bgoal (stage (%s))' % e, 'nbgoal (stage (%s))' % e)


def ql(v):
    return lib.qlist(v)


def finite(v):
    return all(math.isfinite(x) for x in v)


def to_coq(case, o):
    item = {'defs': '', 'goals': [], 'labels': []}
    k = case['kind']
    tol = lib.qz(TOL)

    def val_goal(model, v, label, t=tol):
        args = '(Some (stage (%s))) false %s %s' % (model, lib.qf(v), t)
        item['goals'].append(('okgoal ' + args, 'fargoal ' + args))
        item['labels'].append(label)
    for key, v in o.items():
        if isinstance(v, list) and v and isinstance(v[0], float) and not finite(v):
            item['pyviolation'] = 'non-finite output of %s: %s' % (key, v)
            return item
    if k == 'transforms':
        x = ql(case['x'])
        n = len(case['x'])
        tl = lib.qz(Fraction(1, 10 ** 8))
        for i, v in enumerate(o['clr']):
            val_goal('clr_i %s %d%%nat' % (x, i), v, 'clr component %d' % i, tl)
        for i, v in enumerate(o['alr']):
            val_goal('alr_i %s %d%%nat' % (x, i), v, 'alr component %d' % i, tl)
        for i, v in enumerate(o['ilr']):
            val_goal('ilr_k %s %d%%nat' % (x, i + 1), v, 'ilr component %d' % i, tl)
    elif k == 'roundtrip':
        x = ql(case['x'])
        for name in ('clr', 'alr', 'ilr'):
            item['goals'].append(bg('roundtrip_ok %s %s' % (x, ql(o[name]))))
            item['labels'].append('%s_inv(%s(x)) = x' % (name, name))
    elif k == 'dist':
        if not math.isfinite(o['d']):
            item['pyviolation'] = 'non-finite distance'
            return item
        val_goal('adist %s %s' % (ql(case['x']), ql(case['y'])), o['d'], 'Aitchison distance', lib.qz(Fraction(1, 10 ** 7)))
        item['goals'].append(bg('isometry_ok %s %s %s' % (ql(o['ix']), ql(o['iy']), lib.qf(o['d']))))
        item['labels'].append('ilr isometry')
    elif k == 'algebra':
        item['goals'].append(bg('perturbation_ok %s %s %s' % (ql(case['x']), ql(case['dx']), ql(o['pert']))))
        item['labels'].append('perturbation')
        item['goals'].append(bg('simplex_ok %s' % ql(o['pow'])))
        item['labels'].append('power')
        item['goals'].append(bg('roundtrip_ok %s %s' % (ql(case['x']), ql(o['clo']))))
        item['labels'].append('closure')
    elif k == 'perturb_support':
        item['goals'].append(bg('perturb_support_ok %s %s' % (ql(case['x']), ql(o['out']))))
        item['labels'].append('perturb_support')
    elif k == 'replace_zeros':
        if not o['pure']:
            item['pyviolation'] = 'replace_zeros modified its argument'
        if case['rand']:
            item['goals'].append(bg('replace_zeros_rand_ok %s %s %s' % (ql(case['x']), lib.qf(case['delta']), ql(o['out']))))
        else:
            item['goals'].append(bg('vec_close (replace_zeros_det %s %s) %s' % (ql(case['x']), lib.qf(case['delta']), ql(o['out']))))
        item['labels'].append('replace_zeros rand=%s' % case['rand'])
    elif k == 'jittered':
        item['goals'].append(bg('simplex_ok %s && all_positive %s' % (ql(o['out']), ql(o['out']))))
        item['labels'].append('jittered')
    elif k == 'convex':
        w = case['w'] if case['w'] is not None else [1.0] * len(case['ps'])
        item['goals'].append(bg('vec_close (convex_combination [%s] %s) %s' % (';'.join(ql(p) for p in case['ps']), ql(w), ql(o['out']))))
        item['labels'].append('convex_combination')
        item['goals'].append(bg('simplex_ok %s' % ql(o['out'])))
        item['labels'].append('convex_combination on the simplex')
    elif k == 'downsample':
        if not o['pure']:
            item['pyviolation'] = 'downsample modified its argument'
        item['goals'].append(bg('downsample_ok %d%%nat %s %s' % (case['s'], ql(case['x']), ql(o['out']))))
        item['labels'].append('downsample to %d subdivisions -> %s' % (case['s'], o['out']))
    elif k == 'grid':
        if not o['exact']:
            item['pyviolation'] = 'grid point off the grid'
        pts = '[' + ';'.join(lib.natlist(p) for p in o['pts']) + ']'
        item['goals'].append(bg('grid_ok %d%%nat %d%%nat %s' % (case['length'], case['sub'], pts)))
        item['labels'].append('simplex_grid(%d, %d): every point exactly once' % (case['length'], case['sub']))
        item['goals'].append(bg('grid_order_ok %d%%nat %d%%nat %s' % (case['length'], case['sub'], pts)))
        item['labels'].append('simplex_grid order')
    return item


def nontrivial(case, o):
    x = case.get('x') or (case.get('ps') or [[0, 0, 0]])[0]
    return len(x) >= 3 or case['kind'] == 'grid'


def describe(case, o):
    d = {'kind': case['kind']}
    if 'x' in case:
        d['dim'] = len(case['x'])
    return d


def matches_finding(f, case, o, v):
    return False
