"""C16 — meet, join, sufficient statistics and common informations are correct."""
import itertools
import math
from fractions import Fraction

from .. import lib

MODE = 'goals'
COQ_IMPORTS = ['Check', 'C16_Model']
SHARD = 12
CASE_TIMEOUT = 300
RULE = ('joint distributions of 2-3 variables over digit symbols with structured supports (block-diagonal, deterministic relations, full, random), '
        'Cartesian or pruned (support-only) sample spaces, string or tuple outcomes: insert_join / insert_meet for 1-3 groups at every position '
        'idx in {0..n, -1} (exact table incl. labels, joint law of the old variables preserved, new variable a function of each group / '
        'determined by and determining the groups), mss() atoms, gk_common_information and mss_common_information (interval goals against '
        'partition-entropy models), and the chain K <= J <= B <= F <= M <= H on dit\'s own values (F only on supports <= 4: it is a slow search). '
        'Non-trivial: support >= 2.')
TRUSTED = ['Coq 8.16.1 kernel incl. vm_compute; Coq-Interval', 'Python driver: digit symbols encoded by value; labels of inserted variables read as digits / ints',
           'model C16_Model.v hand-written (sigma-algebras as partitions)']
ASSUMPTIONS = ['generated conditional rows are either equal or clearly different (no near-ties for is_approx_equal)', 'float rounding within 1e-9',
               'the inequality chain and functional common information are checked on dit values only (tests, not proofs)']
CODES = {'corr': 'k = index+1 of first false goal (see goal_labels); 90 = python-side violation', 'prop': 'same'}
TOL = Fraction(1, 10 ** 9)


def gen_dist(rng):
    n = rng.randint(2, 3)
    klass = rng.choice(['str', 'int'])
    while True:
        sizes = [rng.randint(2, 3) for _ in range(n)]
        if math.prod(sizes) <= 12:      # dit builds whole sigma-algebras over the sample space: 2^atoms sets
            break
    alph = [list(range(s)) for s in sizes]
    full = [list(o) for o in itertools.product(*alph)]
    pattern = rng.choice(['block', 'block', 'functional', 'full', 'random', 'copy', 'classes', 'classes'])
    if pattern == 'classes':
        # rows p(.|x0) drawn from one or two decimal templates and scaled by decimal row weights: rows of one class are equal in
        # exact arithmetic (up to ~1e-16) but their float conditionals p(x,y) * (1/p(x)) are rounded differently
        rest = [list(o) for o in itertools.product(*alph[1:])]
        tmpl = []
        for _ in range(2):
            w = [rng.choice([1, 2, 3, 7, 9]) for _ in rest]
            tmpl.append([x / 10.0 / (sum(w) / 10.0) for x in w])
        if max(abs(a - b) for a, b in zip(*tmpl)) < 0.05:
            tmpl[1] = list(reversed(tmpl[0])) if max(abs(a - b) for a, b in zip(tmpl[0], reversed(tmpl[0]))) > 0.05 else tmpl[0]
        rw = rng.choice([[0.2, 0.8], [0.3, 0.7], [0.1, 0.9], [0.2, 0.3, 0.5], [0.1, 0.3, 0.6], [0.5, 0.2, 0.3]])
        rw = (rw * 2)[:sizes[0]]
        rw = [x / sum(rw) for x in rw]
        cls = [rng.randint(0, 1) for _ in range(sizes[0])] if rng.random() < 0.6 else [0] * sizes[0]
        sup = [[x] + r for x in range(sizes[0]) for r in rest]
        ps = [rw[x] * tmpl[cls[x]][j] for x in range(sizes[0]) for j in range(len(rest))]
        rep = rng.choice(['sparse', 'sparse', 'dense'])
        return {'n': n, 'klass': klass, 'alph': alph, 'outs': sup, 'ps': ps, 'pruned': False, 'pattern': pattern, 'rep': rep}
    if pattern == 'block':
        sup = [o for o in full if (o[0] * 2 < sizes[0]) == (o[1] * 2 < sizes[1])]
    elif pattern == 'functional':
        f = {}
        sup = []
        for o in itertools.product(*alph[:-1]):
            sup.append(list(o) + [f.setdefault(o, rng.choice(alph[-1]))])
    elif pattern == 'copy':
        sup = [o for o in full if o[0] == o[1] % sizes[0]]
    elif pattern == 'random':
        sup = rng.sample(full, rng.randint(2, len(full)))
    else:
        sup = full
    if len(sup) < 2:
        sup = full
    kind = rng.choice(['dyadic', 'kn', 'uniform', 'uniform'])
    if kind == 'uniform':
        ps = [1.0 / len(sup)] * len(sup)
    elif kind == 'kn':
        ws = [rng.randint(1, 4) for _ in sup]
        ps = [w / sum(ws) for w in ws]
    else:
        ws = [rng.choice([1, 2, 4]) for _ in sup]
        ps = [w / sum(ws) for w in ws]
    rep = rng.choice(['sparse', 'sparse', 'dense', 'untrimmed'])
    return {'n': n, 'klass': klass, 'alph': alph, 'outs': sup, 'ps': ps, 'pruned': rng.random() < 0.6 and rep == 'sparse', 'pattern': pattern, 'rep': rep}


def gen_groups(rng, n):
    k = rng.randint(1, 3)
    return [sorted(rng.sample(range(n), rng.randint(1, max(1, n - 1)))) for _ in range(k)]


def gen_case(rng):
    d = gen_dist(rng)
    kind = rng.choice(['join', 'meet', 'meet', 'gk', 'mss', 'mssci', 'chain'])
    c = {'kind': kind, 'd': d}
    n = d['n']
    if kind in ('join', 'meet'):
        c['groups'] = gen_groups(rng, n)
        c['idx'] = rng.choice([-1] + list(range(n + 1)))
    elif kind in ('gk', 'mssci', 'chain'):
        c['groups'] = [[i] for i in range(n)] if rng.random() < 0.6 else [[0], list(range(1, n))]
    else:
        X = rng.sample(range(n), rng.randint(1, n - 1))     # not necessarily sorted
        c['X'] = X
        c['Y'] = [i for i in range(n) if i not in X]
    return c


def generate(rng, tier):
    n = 150 if tier == 'quick' else 1500
    return [gen_case(rng) for _ in range(n)]


def pyo(d, o):
    return ''.join(str(v) for v in o) if d['klass'] == 'str' else tuple(int(v) for v in o)


LAB = '0123456789abcdefghijklmnopqrstuvwxyzABCDEFGHIJKLMNOPQRSTUVWXYZ'


def rk(o):
    return [LAB.index(x) if isinstance(x, str) else int(x) for x in o]


def mk(d):
    import dit
    outs = [pyo(d, o) for o in d['outs']]
    if d['pruned']:
        return dit.Distribution(outs, list(d['ps']), sample_space=outs)
    rep = d.get('rep', 'sparse')
    if rep == 'dense':
        return dit.Distribution(outs, list(d['ps']), sparse=False)
    if rep == 'untrimmed':
        import itertools
        full = [pyo(d, list(o)) for o in itertools.product(*d['alph'])]
        rest = [o for o in full if o not in outs]
        return dit.Distribution(outs + rest[:2], list(d['ps']) + [0.0] * len(rest[:2]), trim=False)
    return dit.Distribution(outs, list(d['ps']))


def observe(case):
    import dit
    import dit.multivariate as mv
    from dit.algorithms import insert_join, insert_meet, mss
    d0 = case['d']
    d = mk(d0)
    res = {'ss': [rk(o) for o in d.sample_space()], 'stored': [[rk(o), float(p)] for o, p in zip(d.outcomes, d.pmf)]}
    case = dict(case)
    k = case['kind']
    if k in ('join', 'meet'):
        fn = insert_join if k == 'join' else insert_meet
        r = fn(d, case['idx'], case['groups'])
        res['table'] = [[rk(o), float(p)] for o, p in zip(r.outcomes, r.pmf)]
        res['olen'] = r.outcome_length()
    elif k == 'gk':
        res['v'] = float(mv.gk_common_information(d, case['groups']))
    elif k == 'mssci':
        res['v'] = float(mv.mss_common_information(d, case['groups']))
    elif k == 'mss':
        r = mss(d, case['X'], case['Y'])
        res['pmf'] = [float(p) for p in r.pmf]
        res['outs'] = [int(o) for o in r.outcomes]
    else:
        g = case['groups']
        vals = {'K': float(mv.gk_common_information(d, g)), 'J': float(mv.caekl_mutual_information(d, g)) if len(g) > 1 else None,
                'B': float(mv.dual_total_correlation(d, g)), 'M': float(mv.mss_common_information(d, g)), 'H': float(mv.entropy(d, g))}
        if len(d.outcomes) <= 4:
            vals['F'] = float(mv.functional_common_information(d, g))
        res['chain'] = vals
    return res


def pdt(pairs):
    return lib.pdc([(o, p) for o, p in pairs])


def bg(e):
    return ('bgoal (stage (%s))' % e, 'nbgoal (stage (%s))' % e)


def to_coq(case, o):
    item = {'defs': '', 'goals': [], 'labels': []}
    k = case['kind']
    t = pdt(o['stored'])
    ss = lib.natlistlist(o['ss'])
    n = case['d']['n']
    if k in ('join', 'meet'):
        idx = 'None' if case['idx'] in (-1, n) else '(Some %d%%nat)' % case['idx']
        gs = lib.natlistlist(case['groups'])
        obs = pdt(o['table'])
        if o['olen'] != n + 1:
            item['pyviolation'] = 'outcome length %d' % o['olen']
        item['goals'].append(bg('table_check (insert_%s %s %s %s %s) %s' % (k, ss, idx, gs, t, obs)))
        item['labels'].append('insert_%s idx=%s groups=%s -> %s' % (k, case['idx'], case['groups'], str(o['table'])[:200]))
        item['goals'].append(bg('insertion_preserves_joint %s %s %s' % (idx, t, obs)))
        item['labels'].append('joint law of the old variables preserved')
        if k == 'meet':
            for g in case['groups']:
                item['goals'].append(bg('is_function_of %s %s %s' % (idx, lib.natlist(g), obs)))
                item['labels'].append('meet variable is a function of group %s' % g)
        else:
            union = sorted(set(v for g in case['groups'] for v in g))
            item['goals'].append(bg('is_function_of %s %s %s && determines %s %s %s' % (idx, lib.natlist(union), obs, idx, lib.natlist(union), obs)))
            item['labels'].append('join variable determines and is determined by the groups')
    elif k in ('gk', 'mssci'):
        if not math.isfinite(o['v']):
            item['pyviolation'] = 'non-finite value'
            return item
        model = ('gk_data %s %s' if k == 'gk' else 'mss_ci_data %s %s') % (t, lib.natlistlist(case['groups']))
        args = '(Some (stage (%s))) false %s %s' % (model, lib.qf(o['v']), lib.qz(TOL))
        item['goals'].append(('okgoal ' + args, 'fargoal ' + args))
        item['labels'].append('%s groups=%s -> %r' % (k, case['groups'], o['v']))
    elif k == 'mss':
        if o['outs'] != list(range(len(o['outs']))):
            item['pyviolation'] = 'mss outcomes are not 0..k-1'
        item['goals'].append(bg('class_masses_close (atoms_dist (mss_blocks %s %s %s) %s) %s' % (t, lib.natlist(case['X']), lib.natlist(case['Y']), t, lib.qlist(o['pmf']))))
        item['labels'].append('mss of %s about %s -> %s' % (case['X'], case['Y'], o['pmf']))
    else:
        v = o['chain']
        order = [x for x in ('K', 'J', 'B', 'F', 'M', 'H') if v.get(x) is not None]
        for a, b in zip(order, order[1:]):
            if v[a] > v[b] + 1e-7:
                item['pyviolation'] = 'chain violated: %s=%r > %s=%r (%r)' % (a, v[a], b, v[b], v)
        # K and M also against their models
        for key, model in (('K', 'gk_data'), ('M', 'mss_ci_data')):
            args = '(Some (stage (%s %s %s))) false %s %s' % (model, t, lib.natlistlist(case['groups']), lib.qf(v[key]), lib.qz(TOL))
            item['goals'].append(('okgoal ' + args, 'fargoal ' + args))
            item['labels'].append('%s = %r' % (key, v[key]))
    return item


def nontrivial(case, o):
    return len(case['d']['outs']) >= 2


def describe(case, o):
    return {'kind': case['kind'], 'pattern': case['d']['pattern'], 'pruned': case['d']['pruned'], 'klass': case['d']['klass'], 'n': case['d']['n']}


def matches_finding(f, case, o, v):
    return False
