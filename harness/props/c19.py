"""C19 — distributions and entropies inferred from data are the empirical frequencies."""
import math
from fractions import Fraction

import numpy as np

from .. import lib
from .. import distgen as G

MODE = 'goals'
COQ_IMPORTS = ['Check', 'C19_Model']
SHARD = 20
RULE = ('random symbol sequences (scalar int / str symbols, or 2-3 vector-valued series), lengths 1..40 incl. lengths around multiples of L, '
        'word lengths L in 1..4, bases in {linear, 2, e, 10}: distribution_from_data, dist_from_timeseries (history 0..3), counts_from_data '
        '(h, f), entropy_0/1/2 (interval goals; digamma at integers as harmonic numbers), binned() uniform / maxent with 2..7 bins on integer, '
        'dyadic and random data. Non-trivial: >= 2 distinct words; distinct by canonical JSON.')
TRUSTED = ['Coq 8.16.1 kernel incl. vm_compute; Coq-Interval for the three estimators', 'Python driver: rank encoding, flattening of words, base**x linearisation',
           'model C19_Model.v hand-written; mathematical fact used, not proved: digamma(n) = H_{n-1} - gamma for positive integers n']
ASSUMPTIONS = ['float rounding within 1e-9', 'at a bin edge (within 1e-9) either neighbouring label is accepted']
CODES = {'corr': 'k = index+1 of the first goal provably false (see goal_labels); 90 = python-side violation', 'prop': 'same'}
TOL = Fraction(1, 10 ** 9)


def gen_seq(rng):
    k = rng.choice([1, 1, 1, 2, 3])
    n = rng.choice([1, 2, 3, 4, 5, 7, 8, 9, 12, 16, 17, 25, 40])
    asz = rng.randint(1, 3)
    kind = rng.choice(['iid', 'iid', 'periodic', 'markov', 'constant'])
    data = []
    prev = [0] * k
    for t in range(n):
        if kind == 'iid':
            ob = [rng.randrange(asz) for _ in range(k)]
        elif kind == 'periodic':
            ob = [(t + i) % asz for i in range(k)]
        elif kind == 'markov':
            ob = [(p if rng.random() < 0.7 else rng.randrange(asz)) for p in prev]
        else:
            ob = [0] * k
        prev = ob
        data.append(ob)
    return k, data


def gen_case(rng):
    kind = rng.choice(['dfd', 'dfd', 'ts', 'ts', 'counts', 'entropy', 'entropy', 'binning', 'binning'])
    if kind == 'binning':
        n = rng.randint(2, 60)
        style = rng.choice(['uniform', 'maxent'])
        dk = rng.choice(['int', 'dyadic', 'random', 'ties'])
        if dk == 'int':
            xs = [float(rng.randint(-5, 20)) for _ in range(n)]
        elif dk == 'dyadic':
            xs = [rng.randint(0, 64) / 8.0 for _ in range(n)]
        elif dk == 'ties':
            xs = [float(rng.choice([0, 1, 1, 2, 5])) for _ in range(n)]
        else:
            xs = [rng.random() * 10 for _ in range(n)]
        if max(xs) == min(xs):
            xs[0] += 1.0
        return {'kind': kind, 'style': style, 'bins': rng.randint(2, 7), 'xs': xs, 'cols': rng.choice([1, 1, 2])}
    k, data = gen_seq(rng)
    sym = rng.choice(['int', 'str']) if k == 1 else 'int'
    L = rng.randint(1, 4)
    case = {'kind': kind, 'k': k, 'data': data, 'sym': sym, 'L': L, 'base': rng.choice(['linear', 'linear', 2, 'e', 10])}
    if kind == 'ts':
        case['h'] = rng.randint(0, 3)
        if k > 1 and len(data) == 1:
            # a single row is read by dist_from_timeseries as ONE series (documented 1-d convenience): not a k-series input
            case['data'] = data + data
    if kind == 'counts':
        case['f'] = rng.randint(0, 1)
    return case


def generate(rng, tier):
    n = 300 if tier == 'quick' else 3000
    cases = [gen_case(rng) for _ in range(n)]
    if tier == 'thorough':
        import itertools
        for L in range(1, 9):
            for bits in itertools.product([0, 1], repeat=L):
                cases.append({'kind': 'dfd', 'k': 1, 'data': [[b] for b in bits], 'sym': 'int', 'L': 1 + (L % 3), 'base': 'linear'})
    return cases


SYM = {'int': [0, 1, 2, 3], 'str': ['a', 'b', 'c', 'd']}


def pydata(case):
    if case['k'] == 1:
        return [SYM[case['sym']][ob[0]] for ob in case['data']]
    return [tuple(ob) for ob in case['data']]


def leaves(x):
    """flatten nested tuples / strings down to symbols"""
    if isinstance(x, str):
        if len(x) == 1:
            return [x]
        return [c for c in x]
    if isinstance(x, (tuple, list)):
        out = []
        for y in x:
            out.extend(leaves(y))
        return out
    return [x]


def flat_word(case, w):
    """a word as dit returns it -> flattened ranks"""
    syms = SYM[case['sym']] if case['k'] == 1 else SYM['int']
    return [syms.index(int(x) if not isinstance(x, str) else x) for x in leaves(w)]


def observe(case):
    import dit
    from dit.inference import distribution_from_data, dist_from_timeseries, entropy_0, entropy_1, entropy_2, binned
    from dit.inference.counts import counts_from_data
    kind = case['kind']
    if kind == 'binning':
        xs = np.array(case['xs'])
        if case['cols'] == 2:
            arr = np.column_stack([xs, xs[::-1]])
            lab = binned(arr, bins=case['bins'], style=case['style'])
            return {'labels': [[int(v) for v in lab[:, 0]], [int(v) for v in lab[:, 1]]], 'cols': [list(map(float, xs)), list(map(float, xs[::-1]))]}
        lab = binned(xs, bins=case['bins'], style=case['style'])
        return {'labels': [[int(v) for v in lab]], 'cols': [list(map(float, xs))]}
    data = pydata(case)
    L = case['L']
    if len(data) < (case.get('h', 0) + 1 if kind == 'ts' else L):
        return {'skip': True}
    if kind == 'dfd':
        d = distribution_from_data(data, L, base=case['base'])
        return {'outs': [flat_word(case, o) for o in d.outcomes], 'vals': [G.linearise(d, p) for p in d.pmf], 'base': G.base_tag(d)}
    if kind == 'ts':
        obs = np.array(case['data']) if case['k'] > 1 else np.array([ob[0] for ob in case['data']])
        d = dist_from_timeseries(obs, history_length=case['h'], base=case['base'])
        outs = []
        for o in d.outcomes:
            flat = []
            for part in o:
                if isinstance(part, tuple):
                    flat.extend(int(x) for x in part)
                else:
                    flat.append(int(part))
            outs.append(flat)
        return {'outs': outs, 'vals': [G.linearise(d, p) for p in d.pmf], 'base': G.base_tag(d)}
    if kind == 'counts':
        hists, cc, hc, alph = counts_from_data(data, L, case['f'])
        flat = [flat_word(case, h) for h in hists]
        return {'hists': flat, 'hcounts': [float(x) for x in hc], 'rowsums': [float(x) for x in cc.sum(axis=1)]}
    if kind == 'entropy':
        return {'e0': float(entropy_0(data, L)), 'e1': float(entropy_1(data, L)), 'e2': float(entropy_2(data, L))}
    raise ValueError(kind)


def datat(case):
    return '[' + ';'.join(lib.natlist(ob) for ob in case['data']) + ']'


def bgoal(expr):
    return ('bgoal (stage (%s))' % expr, 'nbgoal (stage (%s))' % expr)


def to_coq(case, o):
    item = {'defs': '', 'goals': [], 'labels': []}
    kind = case['kind']
    if o.get('skip'):
        return item
    if kind == 'binning':
        for xs, lab in zip(o['cols'], o['labels']):
            item['goals'].append(bgoal('binning_check %s %d%%nat %s [%s]' % (lib.boolc(case['style'] == 'uniform'), case['bins'], lib.qlist(xs),
                                                                            ';'.join('(%d)%%Z' % v for v in lab))))
            item['labels'].append('binned %s bins=%d -> %s' % (case['style'], case['bins'], lab[:10]))
        return item
    if kind in ('dfd', 'ts'):
        if any(not math.isfinite(v) for v in o['vals']):
            item['pyviolation'] = 'non-finite probability'
            return item
        if o['base'] != (case['base'] if case['base'] in ('linear', 'e') else float(case['base'])):
            item['pyviolation'] = 'wrong base %r' % (o['base'],)
        obs = lib.pdc(list(zip(o['outs'], o['vals'])))
        if kind == 'dfd':
            item['goals'].append(bgoal('dfd_check %d%%nat %s %s' % (case['L'], datat(case), obs)))
        else:
            item['goals'].append(bgoal('dfts_check %d%%nat %d%%nat %s %s' % (case['k'], case['h'], datat(case), obs)))
        item['labels'].append('%s -> %s' % (kind, list(zip(o['outs'], o['vals']))[:6]))
        return item
    if kind == 'counts':
        item['goals'].append(bgoal('counts_check %d%%nat %d%%nat %s %s %s %s' % (case['L'] + case['f'], case['f'], datat(case), lib.natlistlist(o['hists']),
                                                                               lib.qlist(o['hcounts']), lib.qlist(o['rowsums']))))
        item['labels'].append('counts_from_data h=%d f=%d' % (case['L'], case['f']))
        return item
    for name, model in (('e0', 'entropy0_model'), ('e1', 'entropy1_model'), ('e2', 'entropy2_model')):
        v = o[name]
        if not math.isfinite(v):
            item['pyviolation'] = 'non-finite %s' % name
            continue
        args = '(Some (stage (%s %d%%nat %s))) false %s %s' % (model, case['L'], datat(case), lib.qf(v), lib.qz(TOL))
        item['goals'].append(('okgoal ' + args, 'fargoal ' + args))
        item['labels'].append('%s L=%d -> %r' % (name, case['L'], v))
    return item


def nontrivial(case, o):
    if case['kind'] == 'binning':
        return len(set(case['xs'])) >= 2
    return len(case['data']) >= 3


def describe(case, o):
    d = {'kind': case['kind']}
    if case['kind'] == 'binning':
        d.update(style=case['style'], bins=case['bins'])
    else:
        d.update(k=case['k'], L=case['L'], n=min(len(case['data']), 40), base=case['base'], skipped=bool(o.get('skip')))
    return d


def matches_finding(f, case, o, v):
    return False
