"""C02 — marginal / marginalize / coalesce are exact pushforwards."""
import math

from .. import lib
from .. import distgen as G

COQ_IMPORTS = ['C02_Model']
VERDICT = 'verdict'
SHARD = 150
RULE = ('random structured joint distributions (1-4 variables, heterogeneous alphabets, support patterns '
        'full/sparse/functional/block/single/duplicated column, explicit zeros, dyadic/rational/decimal/'
        'near-degenerate/sub-tolerance probabilities, linear and log bases, sparse/dense, default/enlarged '
        'Cartesian/explicit sample spaces, str/int-tuple/str-tuple outcomes, named or not) x one of marginal, '
        'marginalize, coalesce (by index or name, repeated/overlapping groups, invalid selections). '
        'Non-trivial: source support has >= 2 outcomes and the selection is valid; distinct: by canonical JSON of the case.')
TRUSTED = ['Coq 8.16.1 kernel incl. vm_compute', 'Python driver: rank encoding of symbols, flattening of nested outcomes, '
           'linearisation base**x of observed log-probabilities', 'model C02_Model.v is hand-written; tie = sampled correspondence']
ASSUMPTIONS = ['float rounding of numpy sums stays below 1e-9', 'construction of the source distribution is covered by C01']
CODES = {'corr': '1 model rejects but dit accepted; 2 dit rejected; 3 sample space; 4 outcomes/order; 5 pmf; 6 lookups; 7 names; 8 base; 9 sparse flag; 10 outcome length; 11 source changed',
         'prop': '20 fibre sums; 21 lengths; 22 stored table vs lookups; 23 mass; 24/25 sample space is not the projection; 26 order; 27 dense incomplete; 28 names; 29 base; 30 sparsity; 31 length; 32 source changed'}


def gen_op(rng, spec):
    n = spec['n']
    byname = spec['names'] is not None and rng.random() < 0.5
    kind = rng.choice(['marginal', 'marginalize', 'coalesce', 'coalesce'])

    def pick_subset():
        k = rng.randint(0, n)
        s = rng.sample(range(n), k)
        if rng.random() < 0.5:
            s.sort()
        return s
    bad = rng.random() < 0.08
    if kind in ('marginal', 'marginalize'):
        sel = pick_subset()
        if bad:
            sel = sel + [rng.choice(sel)] if sel and rng.random() < 0.5 else sel + [n + rng.randint(0, 2)]
        return {'kind': kind, 'byname': byname, 'sel': sel}
    ng = rng.randint(1, 3)
    groups = []
    for _ in range(ng):
        k = rng.randint(1, min(3, n + 1))
        groups.append([rng.randrange(n) for _ in range(k)])
    if bad:
        groups[-1].append(n + 1)
    extract = (ng == 1 and rng.random() < 0.5)
    return {'kind': 'coalesce', 'byname': byname, 'groups': groups, 'extract': extract}


def generate(rng, tier):
    ncases = 300 if tier == 'quick' else 3000
    nmax = 3 if tier == 'quick' else 4
    cases = []
    for _ in range(ncases):
        spec = G.gen_spec(rng, nmin=1, nmax=nmax)
        cases.append({'spec': spec, 'op': gen_op(rng, spec)})
    if tier == 'thorough':
        # every subset and every list of two groups for small n, on a few fixed tables
        import itertools
        for _ in range(6):
            spec = G.gen_spec(rng, nmin=3, nmax=3)
            for r in range(4):
                for sub in itertools.permutations(range(3), r):
                    cases.append({'spec': spec, 'op': {'kind': 'marginal', 'byname': False, 'sel': list(sub)}})
                    cases.append({'spec': spec, 'op': {'kind': 'marginalize', 'byname': False, 'sel': list(sub)}})
            subs = [list(s) for r in range(1, 3) for s in itertools.product(range(3), repeat=r)]
            for g1 in subs:
                for g2 in subs:
                    cases.append({'spec': spec, 'op': {'kind': 'coalesce', 'byname': False, 'groups': [g1, g2], 'extract': False}})
    return cases


def sel_py(spec, byname, sel):
    if byname:
        # positions beyond the names denote invalid names
        return [spec['names'][i] if i < spec['n'] else 'Q%d' % i for i in sel]
    return list(sel)


def observe(case):
    import dit
    from dit.exceptions import ditException
    spec, op = case['spec'], case['op']
    d = G.make_dist(spec)
    before = G.snapshot(d)
    term = G.model_dist_term(spec, d)
    mode = 'names' if op['byname'] else 'indices'
    nested = False
    try:
        if op['kind'] == 'marginal':
            m = d.marginal(sel_py(spec, op['byname'], op['sel']), rv_mode=mode)
        elif op['kind'] == 'marginalize':
            m = d.marginalize(sel_py(spec, op['byname'], op['sel']), rv_mode=mode)
        else:
            groups = [sel_py(spec, op['byname'], g) for g in op['groups']]
            m = d.coalesce(groups, rv_mode=mode, extract=op['extract'])
            nested = not op['extract']
    except ditException as e:
        if type(e) is not ditException:
            raise
        return {'dist_term': term, 'ok': False, 'src_same': G.snapshot(d) == before}
    after = G.snapshot(d)

    def dec(o):
        if nested:
            # shape check: one inner outcome per group, each as long as its group
            assert len(o) == len(op['groups']) and all(len(x) == len(g) for x, g in zip(o, op['groups'])), o
            o = G.flatten(o)
        return G.rko(spec, o)
    ss = [dec(o) for o in m.sample_space()]
    outs = [dec(o) for o in m.outcomes]
    vals = [G.linearise(m, p) for p in m.pmf]
    look = [G.linearise(m, m[o]) for o in m.sample_space()]
    names = m.get_rv_names()
    if nested:
        olen = len(ss[0]) if ss else 0
        assert m.outcome_length() == len(op['groups'])
    else:
        olen = m.outcome_length()
    return {'dist_term': term, 'ok': True, 'ss': ss, 'outs': outs, 'vals': vals, 'look': look,
            'names': None if names is None else [G.name_id(x) for x in names],
            'base': G.base_tag(m), 'sparse': bool(m.is_sparse()), 'olen': olen,
            'src_same': before == after}


def op_term(op):
    if op['kind'] in ('marginal', 'marginalize'):
        ctor = 'OMarginal' if op['kind'] == 'marginal' else 'OMarginalize'
        sel = '(%s %s)' % ('ByName' if op['byname'] else 'ByIdx', lib.natlist(name_sel(op, op['sel'])))
        return '(%s %s)' % (ctor, sel)
    return '(OCoalesce %s %s)' % (lib.boolc(op['byname']), lib.natlistlist([name_sel(op, g) for g in op['groups']]))


_spec_names = {}


def name_sel(op, sel):
    # by-name selections are sent to Coq as name ids; the ids are resolved in to_coq
    return sel


def to_coq(case, o):
    spec, op = case['spec'], case['op']
    if op['byname']:
        ids = [G.name_id(x) for x in spec['names']]

        def tr(sel):
            return [ids[i] if i < spec['n'] else 50 + i for i in sel]
        op2 = dict(op)
        if 'sel' in op:
            op2['sel'] = tr(op['sel'])
        else:
            op2['groups'] = [tr(g) for g in op['groups']]
        opt = op_term(op2)
    else:
        opt = op_term(op)
    if not o['ok']:
        ob = '(mkObs false [] [] [] None Linear false 0%%nat %s)' % lib.boolc(o['src_same'])
    else:
        vals = [v if math.isfinite(v) else 1e300 for v in o['vals']]
        look = [v if math.isfinite(v) else 1e300 for v in o['look']]
        ob = '(mkObs true %s %s %s %s %s %s %s %s)' % (
            lib.natlistlist(o['ss']), lib.pdc(list(zip(o['outs'], vals))), lib.qlist(look),
            lib.optc(o['names'], lib.natlist), lib.basec(o['base']), lib.boolc(o['sparse']),
            lib.nat(o['olen']), lib.boolc(o['src_same']))
    return '(%s, %s, %s)' % (o['dist_term'], opt, ob)


def nontrivial(case, o):
    spec = case['spec']
    support = sum(1 for p in spec['pmf'] if p > 0)
    return support >= 2 and o.get('ok', False)


def describe(case, o):
    spec, op = case['spec'], case['op']
    return {'nvars': spec['n'], 'base': spec['base'], 'sparse': spec['sparse'], 'klass': spec['klass'],
            'ss_kind': spec['ss_kind'], 'op': op['kind'] + ('/names' if op['byname'] else ''),
            'named': spec['names'] is not None, 'support': min(sum(1 for p in spec['pmf'] if p > 0), 9),
            'result': 'harness_error' if 'harness_error' in o else ('ok' if o.get('ok') else 'rejected')}


def matches_finding(f, case, o, v):
    return False


def neighbours(case, rng):
    out = []
    for _ in range(20):
        out.append({'spec': case['spec'], 'op': gen_op(rng, case['spec'])})
    return out
