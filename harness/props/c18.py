"""C18 — information profiles and partitions account for all of the information."""
import itertools
import math
from fractions import Fraction

from .. import lib
from .. import distgen as G

MODE = 'goals'
COQ_IMPORTS = ['Check', 'C18_Model']
SHARD = 6
CASE_TIMEOUT = 300
RULE = ('random linear joint distributions of 2-4 variables (zeros, named or not, sparse/dense): every ShannonPartition atom, ExtropyPartition atom, a '
        'sample of partition queries sp[(rvs, crvs)] (all queries for n <= 3 in thorough), every ComplexityProfile scale, both entropy triangles '
        '(each coordinate), and the connected informations (non-negative, summing from order 2 to the total correlation). Values are interval goals '
        'against the formal Moebius-inversion model; the connected informations come from an optimiser and use 1e-5. Non-trivial: support >= 2.')
TRUSTED = ['Coq 8.16.1 kernel incl. vm_compute; Coq-Interval', 'the stand-in for the absent `lattices` package (pystubs/lattices) that dit.profiles imports',
           'model C18_Model.v hand-written']
ASSUMPTIONS = ['float rounding within 1e-9 (1e-5 for the maximum-entropy based connected informations)', 'stdlib Reals axioms']
CODES = {'corr': 'k = index+1 of first false goal (see goal_labels); 90 = python-side violation', 'prop': 'same'}
TOL = Fraction(1, 10 ** 9)
KINDS = ['dyadic', 'dyadic', 'kn', 'decimal', 'random']


def generate(rng, tier):
    n = 40 if tier == 'quick' else 400
    cases = []
    for _ in range(n):
        spec = G.gen_spec(rng, nmin=2, nmax=3 if rng.random() < 0.8 else 4, amax=2 if rng.random() < 0.7 else 3, allow_log=False,
                          prob_kinds=KINDS, max_ss=36)
        nv = spec['n']
        queries = []
        for _ in range(4):
            ng = rng.randint(1, 2)
            gs = [sorted(rng.sample(range(nv), rng.randint(1, nv))) for _ in range(ng)]
            used = set(v for g in gs for v in g)
            rest = [v for v in range(nv) if v not in used]
            queries.append({'gs': gs, 'cr': rng.sample(rest, rng.randint(0, len(rest)))})
        cases.append({'spec': spec, 'queries': queries, 'schneidman': rng.random() < 0.3})
    if tier == 'thorough':
        for _ in range(3):
            spec = G.gen_spec(rng, nmin=3, nmax=3, amax=2, allow_log=False, prob_kinds=KINDS)
            subs = [list(s) for r in range(1, 4) for s in itertools.combinations(range(3), r)]
            qs = []
            for g1 in subs:
                for cr in [[]] + subs:
                    if set(cr) & set(g1):
                        continue
                    qs.append({'gs': [g1], 'cr': cr})
                    for g2 in subs:
                        if not set(cr) & set(g2):
                            qs.append({'gs': [g1, g2], 'cr': cr})
            for i in range(0, len(qs), 20):
                cases.append({'spec': spec, 'queries': qs[i:i + 20], 'schneidman': False})
    return cases


def observe(case):
    import dit
    from dit.profiles import ShannonPartition, ExtropyPartition, ComplexityProfile, SchneidmanProfile, EntropyTriangle, EntropyTriangle2
    spec = case['spec']
    d = G.make_dist(spec)
    before = G.snapshot(d)
    term = G.model_dist_term(spec, d)
    names = d.get_rv_names()
    idx = (lambda x: names.index(x)) if names else (lambda x: x)
    sp = ShannonPartition(d)
    xp = ExtropyPartition(d)

    def atoms_of(p):
        out = []
        for (rvs, crvs), v in p.atoms.items():
            out.append([sorted(idx(r[0]) for r in rvs), float(v)])
        return out
    res = {'dist_term': term, 'shannon': atoms_of(sp), 'extropy': atoms_of(xp)}
    qv = []
    for q in case['queries']:
        key = (tuple(tuple((names[i] if names else i) for i in g) for g in q['gs']), tuple((names[i] if names else i) for i in q['cr']))
        qv.append(float(sp[key]))
    res['queries'] = qv
    res['profile'] = sorted((int(k), float(v)) for k, v in ComplexityProfile(d).profile.items())
    res['tri1'] = [float(x) for x in EntropyTriangle(d).points[0]]
    res['tri2'] = [float(x) for x in EntropyTriangle2(d).points[0]]
    if case['schneidman']:
        try:
            res['connected'] = sorted((int(k), float(v)) for k, v in SchneidmanProfile(d).profile.items())
        except Exception as e:
            res['connected_err'] = type(e).__name__ + ': ' + str(e)[:200]
    res['src_same'] = G.snapshot(d) == before
    return res


_counter = [0]


def to_coq(case, o):
    spec = case['spec']
    n = spec['n']
    _counter[0] += 1
    name = 'dp_%d' % _counter[0]
    item = {'defs': 'Definition %s : Dist.dist := %s.' % (name, o['dist_term']), 'goals': [], 'labels': []}
    if not o['src_same']:
        item['pyviolation'] = 'source distribution changed'

    def goal(model, v, label, tol=TOL):
        if not math.isfinite(v):
            item['pyviolation'] = 'non-finite value: ' + label
            return
        args = '(Some (stage (%s))) false %s %s' % (model, lib.qf(v), lib.qz(tol))
        item['goals'].append(('okgoal ' + args, 'fargoal ' + args))
        item['labels'].append(label)
    if len(o['shannon']) != 2 ** n - 1:
        item['pyviolation'] = 'wrong number of atoms'
    for A, v in o['shannon']:
        goal('ent_value %s (atom_of %d%%nat %s)' % (name, n, lib.natlist(A)), v, 'Shannon atom %s = %r' % (A, v))
    for A, v in o['extropy']:
        goal('ext_value %s (atom_of %d%%nat %s)' % (name, n, lib.natlist(A)), v, 'extropy atom %s = %r' % (A, v))
    for q, v in zip(case['queries'], o['queries']):
        goal('ent_value %s (cover_terms %d%%nat %s %s)' % (name, n, lib.natlistlist(q['gs']), lib.natlist(q['cr'])), v, 'sp[%s] = %r' % (q, v))
    for k, v in o['profile']:
        goal('ent_value %s (profile_terms %d%%nat %d%%nat)' % (name, n, k), v, 'complexity profile scale %d = %r' % (k, v))
    degenerate = all(len(a) == 1 for a in spec['alph']) or sum(1 for p in spec['pmf'] if p > 0) < 2
    for i, v in enumerate(o['tri1']):
        if math.isnan(v) and degenerate:
            continue
        goal('triangle1 %s %d%%nat' % (name, i), v, 'entropy triangle coordinate %d = %r' % (i, v))
    for i, v in enumerate(o['tri2']):
        if math.isnan(v) and degenerate:
            continue
        goal('triangle2 %s %d%%nat' % (name, i), v, 'entropy triangle 2 coordinate %d = %r' % (i, v))
    if 'connected' in o:
        c = dict(o['connected'])
        if any(v < -1e-6 for k, v in c.items()):
            item['pyviolation'] = 'negative connected information %r' % c
        total = sum(v for k, v in c.items() if k >= 2)
        goal('tc_value %s' % name, total, 'connected informations from order 2 sum to the total correlation: %r' % c, Fraction(1, 10 ** 5))
    return item


def nontrivial(case, o):
    return sum(1 for p in case['spec']['pmf'] if p > 0) >= 2


def describe(case, o):
    return {'nvars': case['spec']['n'], 'schneidman': case['schneidman'], 'named': case['spec']['names'] is not None}


def matches_finding(f, case, o, v):
    return False
