"""C09 — any history of mutations tracks a plain probability-table model."""
import math

import numpy as np

from .. import lib
from .. import distgen as G
from .c01 import lin, raw

COQ_IMPORTS = ['C09_Model']
VERDICT = 'verdict'
SHARD = 40
RULE = ('random initial distribution (scalar or joint, sparse/dense, trimmed or not, six bases, default / Cartesian / explicit sample '
        'space) and a random history over {d[o]=v, del d[o], make_dense, make_sparse(trim), normalize, set_base, copy(base), rand(k)} on up '
        'to 3 live objects, outcomes inside and outside the sample space, values incl. 0, sub-tolerance and the null log-probability; '
        'after every step every live object is observed completely. Non-trivial: history of >= 3 executed operations on a support of >= 2; '
        'distinct by canonical JSON. thorough adds all histories of length <= 3 over a 2x2 space from a reduced alphabet.')
TRUSTED = ['Coq 8.16.1 kernel incl. vm_compute', 'Python driver: rank encoding, base**x linearisation, shadow RandomState used to tell whether an object\'s generator is where the model says',
           'models C09_Model.v (concrete and abstract) are hand-written; tie = sampled correspondence after every step']
ASSUMPTIONS = ['float rounding of normalize / base changes stays within 1e-9 relative', 'normalize and rand are only exercised when the mass is in a sane range (decided at run time from dit\'s own pmf)']
CODES = {'corr': '100*(step+1)+code: 1 InvalidOutcome raised/not raised; 4 outcomes; 5 pmf; 6 lookups; 7 membership; 9 len; 12 sparse flag; 13 base; 14 validate verdict; 15 static data changed (sample space/alphabet/length/names); 16 generator state; 17 number of objects',
         'prop': 'same codes + 20, against the abstract table specification'}
VALS = [0.0, 0.25, 0.5, 0.125, 1e-9, 1.0, 0.3, 0.0625]


def gen_initial(rng):
    if rng.random() < 0.25:
        # scalar distribution
        klass = rng.choice(['int', 'strtuple', 'str'])
        k = rng.randint(1, 5)
        ranks = sorted(rng.sample(range(8), k))
        ps = G.gen_probs(rng, k)
        zeros = rng.random() < 0.3
        extra = [r for r in range(8) if r not in ranks]
        ss = None
        if rng.random() < 0.5 and extra:
            ss = sorted(ranks + rng.sample(extra, rng.randint(1, min(2, len(extra)))))
        outs = [[r] for r in ranks]
        if zeros and extra:
            outs.append([extra[-1]])
            ps.append(0.0)
            if ss is not None and extra[-1] not in ss:
                ss = sorted(ss + [extra[-1]])
        return {'scalar': True, 'klass': klass, 'outcomes': outs, 'pmf': ps, 'ss': ss,
                'base': rng.choice(G.BASES) if rng.random() < 0.35 else 'linear',
                'sparse': rng.random() < 0.6, 'trim': rng.random() < 0.6, 'names': None, 'n': 1}
    spec = G.gen_spec(rng, nmin=1, nmax=2, amax=3, max_ss=12)
    spec['scalar'] = False
    return spec


def make_initial(spec):
    import dit
    if not spec['scalar']:
        return G.make_dist(spec)
    syms = G.SYMS[spec['klass']]
    kw = {}
    if spec['ss'] is not None:
        kw['sample_space'] = [syms[r] for r in spec['ss']]
    d = dit.ScalarDistribution([syms[o[0]] for o in spec['outcomes']], list(spec['pmf']),
                               sparse=spec['sparse'], trim=spec['trim'], **kw)
    if spec['base'] != 'linear':
        d.set_base(spec['base'])
    return d


def pyo(spec, o):
    if spec['scalar']:
        return G.SYMS[spec['klass']][o[0]]
    return G.pyo(spec, o)


def rko(spec, o):
    if spec['scalar']:
        return [G.SYMS[spec['klass']].index(o)]
    return G.rko(spec, o)


def ss_ranks(spec):
    """members of the sample space in rank space (as the generator knows them)"""
    import itertools
    if spec['scalar']:
        return [[r] for r in (spec['ss'] if spec['ss'] is not None else sorted(o[0] for o in spec['outcomes']))]
    if spec['ss_kind'] == 'expl':
        return [list(o) for o in spec['ss']]
    alph = spec['ss'] if spec['ss_kind'] == 'cart' else [sorted(set(o[i] for o in spec['outcomes'])) for i in range(spec['n'])]
    return [list(o) for o in itertools.product(*alph)]


def gen_history(rng, spec, maxlen):
    inside = ss_ranks(spec)
    n = len(inside[0])
    bases = [spec['base']]
    ops = []
    L = rng.randint(1, maxlen)
    for _ in range(L):
        l = rng.randrange(len(bases))
        kind = rng.choice(['set', 'set', 'set', 'del', 'del', 'dense', 'sparse', 'sparse', 'normalize', 'setbase', 'copy', 'rand'])
        if kind in ('set', 'del'):
            if rng.random() < 0.12:
                o = [9] * n if rng.random() < 0.5 else inside[0] + [inside[0][0]]
                if spec['scalar']:
                    o = [9]
            else:
                o = rng.choice(inside)
            if kind == 'set':
                ops.append({'op': 'set', 'l': l, 'o': o, 'p': rng.choice(VALS), 'base': bases[l]})
            else:
                ops.append({'op': 'del', 'l': l, 'o': o})
        elif kind == 'dense':
            ops.append({'op': 'dense', 'l': l})
        elif kind == 'sparse':
            ops.append({'op': 'sparse', 'l': l, 'trim': rng.random() < 0.6})
        elif kind == 'normalize':
            ops.append({'op': 'normalize', 'l': l})
        elif kind == 'setbase':
            b = rng.choice(G.BASES)
            ops.append({'op': 'setbase', 'l': l, 'b': b})
            bases[l] = b
        elif kind == 'copy':
            if len(bases) >= 3:
                continue
            b = rng.choice(G.BASES) if rng.random() < 0.4 else None
            ops.append({'op': 'copy', 'l': l, 'b': b})
            bases.append(b if b is not None else bases[l])
        elif kind == 'rand':
            ops.append({'op': 'rand', 'l': l, 'k': rng.randint(1, 4)})
    return ops


def generate(rng, tier):
    n, maxlen = (300, 12) if tier == 'quick' else (3000, 40)
    cases = []
    for _ in range(n):
        spec = gen_initial(rng)
        cases.append({'spec': spec, 'ops': gen_history(rng, spec, maxlen)})
    if tier == 'thorough':
        import itertools
        spec = {'n': 2, 'klass': 'str', 'alph': [[0, 1], [0, 1]], 'outcomes': [[0, 0], [1, 1]], 'pmf': [0.5, 0.5],
                'ss_kind': 'default', 'ss': None, 'base': 'linear', 'sparse': True, 'trim': True, 'names': None, 'scalar': False}
        alphabet = [{'op': 'set', 'l': 0, 'o': [0, 1], 'p': 0.0, 'base': 'linear'},
                    {'op': 'set', 'l': 0, 'o': [0, 0], 'p': 0.25, 'base': 'linear'},
                    {'op': 'set', 'l': 0, 'o': [9, 9], 'p': 0.25, 'base': 'linear'},
                    {'op': 'del', 'l': 0, 'o': [0, 0]}, {'op': 'del', 'l': 0, 'o': [1, 0]},
                    {'op': 'dense', 'l': 0}, {'op': 'sparse', 'l': 0, 'trim': True}, {'op': 'sparse', 'l': 0, 'trim': False},
                    {'op': 'normalize', 'l': 0}]
        for r in range(1, 4):
            for h in itertools.product(alphabet, repeat=r):
                cases.append({'spec': spec, 'ops': [dict(x) for x in h]})
    return cases


def static_snapshot(d):
    return (tuple(d.sample_space()), tuple(map(tuple, d.alphabet)) if d.is_joint() else tuple(d.alphabet),
            d.outcome_length() if d.is_joint() else 1, d.get_rv_names() if d.is_joint() else None)


def observe_obj(spec, d, root_static, prng_ok):
    from dit.exceptions import InvalidOutcome, InvalidNormalization, InvalidProbability
    b = G.base_tag(d)
    ssl = list(d.sample_space())
    try:
        d.validate()
        v = 'VOk'
    except InvalidOutcome:
        v = 'VOutcome'
    except InvalidNormalization:
        v = 'VNorm'
    except InvalidProbability:
        v = 'VProb'
    return {'outs': [rko(spec, o) for o in d.outcomes], 'vals': [lin(b, p) for p in d.pmf],
            'look': [lin(b, d[o]) for o in ssl], 'contains': [bool(o in d) for o in ssl], 'len': len(d),
            'sparse': bool(d.is_sparse()), 'base': b, 'valid': v,
            'static_same': static_snapshot(d) == root_static, 'prng_ok': prng_ok}


def observe(case):
    import dit
    import dit.math
    from dit.exceptions import InvalidOutcome
    spec = case['spec']
    dit.math.prng.seed(12345)
    d0 = make_initial(spec)
    term = G.model_dist_term(spec, d0) if not spec['scalar'] else scalar_term(spec, d0)
    root_static = static_snapshot(d0)
    objs = [d0]
    sh = np.random.RandomState()
    sh.set_state(d0.prng.get_state())
    shadows = [sh]
    executed = []
    steps = []
    for op in case['ops']:
        d = objs[op['l']]
        invalid = False
        prng_flags = [True] * len(objs)
        k = op['op']
        if k in ('normalize', 'rand'):
            tot = sum(lin(G.base_tag(d), p) for p in d.pmf)
            if k == 'normalize' and not (1e-3 <= tot <= 1e3):
                continue
            if k == 'rand' and (abs(tot - 1) > 1e-9 or any(lin(G.base_tag(d), p) < 0 for p in d.pmf)):
                continue
        try:
            if k == 'set':
                d[pyo(spec, op['o'])] = raw(op['base'], op['p'])
            elif k == 'del':
                del d[pyo(spec, op['o'])]
            elif k == 'dense':
                d.make_dense()
            elif k == 'sparse':
                d.make_sparse(trim=op['trim'])
            elif k == 'normalize':
                d.normalize()
            elif k == 'setbase':
                d.set_base(op['b'])
            elif k == 'copy':
                c = d.copy(base=op['b']) if op['b'] is not None else d.copy()
                objs.append(c)
                s2 = np.random.RandomState()
                s2.set_state(shadows[op['l']].get_state())
                shadows.append(s2)
                prng_flags.append(True)
            elif k == 'rand':
                u = shadows[op['l']].rand(op['k'])
                expected = d.rand(op['k'], rand=u)
                actual = d.rand(op['k'])
                prng_flags[op['l']] = list(expected) == list(actual)
        except InvalidOutcome as e:
            invalid = True
            str(e)
        executed.append(op)
        steps.append({'invalid': invalid,
                      'objs': [observe_obj(spec, x, root_static, f) for x, f in zip(objs, prng_flags)]})
    return {'dist_term': term, 'executed': executed, 'steps': steps}


def scalar_term(spec, d):
    ss = [rko(spec, o) for o in d.sample_space()]
    if spec['base'] == 'linear':
        pairs = [(rko(spec, o), float(p)) for o, p in zip(d.outcomes, d.pmf)]
    else:
        given = {tuple(o): p for o, p in zip(spec['outcomes'], spec['pmf'])}
        pairs = [(rko(spec, o), float(given.get(tuple(rko(spec, o)), 0.0))) for o in d.outcomes]
    return '(mkDist (Expl %s) %s %s %s None)' % (lib.natlistlist(ss), lib.pdc(pairs), lib.boolc(d.is_sparse()), lib.basec(spec['base']))


def op_term(op):
    k = op['op']
    l = lib.nat(op['l'])
    if k == 'set':
        v = lin(op['base'], raw(op['base'], op['p']))
        return '(SetItem %s %s %s)' % (l, lib.natlist(op['o']), lib.qf(v))
    if k == 'del':
        return '(DelItem %s %s)' % (l, lib.natlist(op['o']))
    if k == 'dense':
        return '(MakeDense %s)' % l
    if k == 'sparse':
        return '(MakeSparse %s %s)' % (l, lib.boolc(op['trim']))
    if k == 'normalize':
        return '(Normalize %s)' % l
    if k == 'setbase':
        return '(SetBase %s %s)' % (l, lib.basec(op['b']))
    if k == 'copy':
        return '(Copy %s %s)' % (l, lib.optc(op['b'], lib.basec))
    if k == 'rand':
        return '(Rand %s %s)' % (l, lib.nat(op['k']))
    raise ValueError(k)


def fin(l):
    return [v if math.isfinite(v) else 1e300 for v in l]


def to_coq(case, o):
    ops = '[' + ';'.join(op_term(x) for x in o['executed']) + ']'
    steps = []
    for s in o['steps']:
        objs = []
        for x in s['objs']:
            objs.append('(mkOO %s %s %s %s %s %s %s %s %s)' % (
                lib.pdc(list(zip(x['outs'], fin(x['vals'])))), lib.qlist(fin(x['look'])),
                '[' + ';'.join(lib.boolc(b) for b in x['contains']) + ']', lib.nat(x['len']),
                lib.boolc(x['sparse']), lib.basec(x['base']), x['valid'], lib.boolc(x['static_same']),
                lib.boolc(x['prng_ok'])))
        steps.append('(mkSO %s [%s])' % (lib.boolc(s['invalid']), ';'.join(objs)))
    return '(%s, %s, [%s])' % (o['dist_term'], ops, ';'.join(steps))


def nontrivial(case, o):
    return len(o.get('executed', [])) >= 3 and sum(1 for p in case['spec']['pmf'] if p > 0) >= 2


def describe(case, o):
    spec = case['spec']
    d = {'scalar': spec['scalar'], 'base': spec['base'], 'sparse': spec['sparse'], 'trim': spec['trim'],
         'history_len': min(len(case['ops']), 40) // 4 * 4,
         'objects': 1 + sum(1 for x in case['ops'] if x['op'] == 'copy')}
    for x in case['ops']:
        d.setdefault('ops', None)
    return d


def matches_finding(f, case, o, v):
    return False
