"""C13 — Blahut-Arimoto results (capacity, rate-distortion, IB) are certified optima."""
import math
from fractions import Fraction

from .. import lib

MODE = 'goals'
COQ_IMPORTS = ['Check', 'C13_Model']
SHARD = 6
PREAMBLE = 'Definition bgoal (b : bool) : Prop := b = true.\nDefinition nbgoal (b : bool) : Prop := b = false.\n'
CASE_TIMEOUT = 300
RULE = ('channels: random / with zeros / duplicate rows / deterministic / non-square row-stochastic matrices and the closed-form families (binary symmetric, n-ary symmetric, '
        'erasure, noiseless, useless), given as an array, as a list of conditional Distributions with a marginal, or as a joint Distribution (channel_capacity_joint); '
        'sources with and without zero letters, beta in [0, 10], Hamming and residual-entropy distortions, beta sweeps, joint pmfs (also non-square, with zeros) for the bottleneck '
        'variant. Non-trivial: at least two input letters.')
TRUSTED = ['Coq 8.16.1 kernel incl. vm_compute; Coq-Interval',
           'Python driver: float -> exact rational conversion; the driver\'s own high-precision solver only supplies hints (output distribution, dual multipliers) '
           'whose validity is checked inside Coq; a hint the driver itself finds inaccurate is dropped (recorded as hint_dropped), never trusted',
           'model C13_Model.v hand-written: information quantities of the returned objects and the certificates; the floating-point iterations are not modelled']
ASSUMPTIONS = ['tolerances: reported capacity = I(input) within 1e-6; KKT gap of dit\'s own output <= 5e-3 (its stopping rule is |cc_n - cc_{n-1}| <= 1e-9 + 1e-7 cc; measured worst 7e-4); '
               'capacity within 1e-5 of the certified upper bound; R + beta D within 1e-2 of the certified dual bound (isclose stopping rule on the distortion, '
               'max_iters = 100: measured worst 3e-3); monotonicity along beta within 2e-2',
               'optimality of the bottleneck variant is not claimed by the property (its distortion is not a fixed matrix) and not checked']
CODES = {'corr': 'k = index+1 of first false goal (see goal_labels); 90 = python-side violation', 'prop': 'same'}


def _rnd_row(rng, m, zeros):
    w = [rng.random() if rng.random() >= zeros else 0.0 for _ in range(m)]
    if sum(w) == 0:
        w[rng.randrange(m)] = 1.0
    s = sum(w)
    return [x / s for x in w]


def _dyadic_row(rng, m):
    tot = 64
    cuts = sorted(rng.randint(0, tot) for _ in range(m - 1))
    parts = [b - a for a, b in zip([0] + cuts, cuts + [tot])]
    return [x / tot for x in parts]


def gen_channel(rng):
    kind = rng.choice(['rand', 'zeros', 'dup', 'det', 'dyadic', 'nonsq', 'bsc', 'nsym', 'bec', 'noiseless', 'useless'])
    n = rng.randint(2, 4)
    m = rng.randint(2, 4)
    closed = None
    if kind == 'rand':
        P = [_rnd_row(rng, m, 0) for _ in range(n)]
    elif kind == 'zeros':
        P = [_rnd_row(rng, m, 0.45) for _ in range(n)]
    elif kind == 'dup':
        P = [_rnd_row(rng, m, 0.3) for _ in range(n)]
        P[-1] = list(P[0])
    elif kind == 'det':
        P = [[1.0 if j == rng.randrange(m) else 0.0 for j in range(m)] for _ in range(n)]
        P = [r if sum(r) == 1.0 else [1.0] + [0.0] * (m - 1) for r in P]
    elif kind == 'dyadic':
        P = [_dyadic_row(rng, m) for _ in range(n)]
    elif kind == 'nonsq':
        n, m = rng.choice([(1, 3), (3, 1), (2, 5), (5, 2), (1, 1)])
        P = [_rnd_row(rng, m, 0.2) for _ in range(n)]
    elif kind == 'bsc':
        e = rng.choice([0.0, 0.1, 0.25, 0.5, rng.random(), 1.0])
        P = [[1 - e, e], [e, 1 - e]]
        closed = ['bsc', e]
    elif kind == 'nsym':
        n = m = rng.randint(2, 4)
        e = rng.random() * 0.9
        P = [[1 - e if i == j else e / (n - 1) for j in range(n)] for i in range(n)]
        closed = ['nsym', list(P[0])]
    elif kind == 'bec':
        e = rng.choice([0.0, 0.2, 0.5, rng.random(), 1.0])
        P = [[1 - e, e, 0.0], [0.0, e, 1 - e]]
        closed = ['bec', e]
    elif kind == 'noiseless':
        n = m = rng.randint(2, 5)
        P = [[1.0 if i == j else 0.0 for j in range(n)] for i in range(n)]
        closed = ['noiseless', n]
    else:
        row = _rnd_row(rng, m, 0.2)
        P = [list(row) for _ in range(n)]
        closed = ['useless']
    return {'P': P, 'ckind': kind, 'closed': closed}


def gen_source(rng, n=None, zeros=True):
    n = n or rng.randint(2, 4)
    kind = rng.choice(['rand', 'rand', 'zero', 'dyadic', 'uniform', 'skew']) if zeros else rng.choice(['rand', 'dyadic', 'uniform', 'skew'])
    if kind == 'rand':
        w = [rng.random() + 0.02 for _ in range(n)]
    elif kind == 'zero':
        w = [rng.random() + 0.02 for _ in range(n)]
        w[rng.randrange(n)] = 0.0
        if sum(w) == 0:
            w[-1] = 1.0
    elif kind == 'dyadic':
        return _dyadic_row(rng, n), kind
    elif kind == 'uniform':
        w = [1.0] * n
    else:
        w = [1.0] + [0.01 * (i + 1) for i in range(n - 1)]
        rng.shuffle(w)
    s = sum(w)
    return [x / s for x in w], kind


def generate(rng, tier):
    mult = 1 if tier == 'quick' else 8
    cases = []
    for i in range(60 * mult):
        c = gen_channel(rng)
        c['kind'] = 'cc'
        c['api'] = ['array', 'array', 'cdists', 'joint'][i % 4]
        if c['api'] == 'joint':
            n = len(c['P'])
            w = [rng.random() + 0.05 for _ in range(n)]
            c['r0'] = [x / sum(w) for x in w]
        c['klass'] = rng.choice(['str', 'int'])
        cases.append(c)
    for i in range(36 * mult):
        p, sk = gen_source(rng)
        cases.append({'kind': 'ba', 'p': p, 'skind': sk, 'beta': rng.choice([0.0, 0.5, 1.0, 2.0, 3.0, 5.0, 8.0, round(rng.random() * 10, 3)]),
                      'dist': 'hamming' if i % 3 else 'residual', 'restarts': rng.choice([3, 6, 12]), 'npseed': rng.randrange(10 ** 6)})
    for i in range(8 * mult):
        p, sk = gen_source(rng, zeros=False)
        b0 = rng.choice([0.0, 0.5, 1.0])
        betas = [b0]
        for _ in range(3):
            betas.append(betas[-1] + rng.choice([1.0, 1.5, 2.0]))      # strictly increasing, steps >= 1
        cases.append({'kind': 'sweep', 'p': p, 'skind': sk, 'betas': betas, 'restarts': 6, 'npseed': rng.randrange(10 ** 6)})
    for i in range(16 * mult):
        n, m = rng.choice([(2, 2), (2, 3), (3, 2), (3, 3), (3, 4)])
        w = [[rng.random() if rng.random() > 0.2 else 0.0 for _ in range(m)] for _ in range(n)]
        zero_row = rng.random() < 0.2
        for r in w:
            if sum(r) == 0:
                r[0] = 0.3
        if zero_row:
            w[rng.randrange(n)] = [0.0] * m
        s = sum(sum(r) for r in w)
        pxy = [[x / s for x in r] for r in w]
        cases.append({'kind': 'ib', 'pxy': pxy, 'beta': rng.choice([0.0, 0.5, 1.0, 2.0, 5.0, 10.0, 30.0]), 'restarts': 3,
                      'npseed': rng.randrange(10 ** 6), 'zero_row': zero_row})
    return cases


# ------------------------------------------------------------------------------------------------
# the driver's own solvers: hints only


def _kl_bits(a, b):
    s = 0.0
    for x, y in zip(a, b):
        if x > 0:
            if y <= 0:
                return math.inf
            s += x * math.log2(x / y)
    return s


def solve_capacity(P, iters=60000):
    import numpy as np
    P = np.asarray(P, dtype=float)
    n = P.shape[0]
    r = np.ones(n) / n
    with np.errstate(all='ignore'):
        for k in range(iters):
            q = r @ P
            D = np.array([_kl_bits(P[x], q) for x in range(n)]) if k % 50 == 0 else None
            logratio = np.where(P > 0, np.log(P / q), 0.0)
            dv = (P * logratio).sum(axis=1)
            if D is not None and (max(D) - float(r @ (dv / math.log(2)))) < 1e-12:
                break
            r = r * np.exp(dv)
            r /= r.sum()
    q = r @ P
    return [float(x) for x in q], [float(x) for x in r]


def solve_rd(p, beta, d, iters=200000):
    import numpy as np
    p = np.asarray(p, dtype=float)
    d = np.asarray(d, dtype=float)
    n, m = d.shape
    qy = np.ones(m) / m
    A = np.exp2(-beta * d)
    for k in range(iters):
        Z = A @ qy
        c = (p / Z) @ A
        new = qy * c
        if np.max(np.abs(new - qy)) < 1e-15:
            qy = new
            break
        qy = new
    Z = A @ qy
    c = (p / Z) @ A
    cmax = float(max(c))
    lam = [float((1 - 1e-9) / (Z[x] * cmax)) for x in range(n)]
    return lam


# ------------------------------------------------------------------------------------------------


def observe(case):
    import numpy as np
    import dit
    k = case['kind']
    if k == 'cc':
        from dit.algorithms.channelcapacity import channel_capacity, channel_capacity_joint
        P = case['P']
        n, m = len(P), len(P[0])
        res = {}
        if case['api'] == 'array':
            arr = np.array(P, dtype=float)
            before = arr.copy()
            cc, r = channel_capacity(arr)
            res['input_same'] = bool((arr == before).all())
            res['cc'], res['r'] = float(cc), [float(x) for x in r]
        elif case['api'] == 'cdists':
            syms = list('0123456789')[:m] if case['klass'] == 'str' else list(range(m))
            cds = [dit.ScalarDistribution(syms, list(row), trim=False, sparse=False) for row in P]
            xs = list('abcdefgh')[:n]
            marg = dit.ScalarDistribution(xs, [1.0 / n] * n)
            snap = marg.pmf.copy()
            cc, mo = channel_capacity(cds, marg)
            res['input_same'] = bool((marg.pmf == snap).all()) and all(list(c.pmf) == list(row) for c, row in zip(cds, P))
            res['cc'], res['r'] = float(cc), [float(x) for x in mo.pmf]
            res['r_outcomes_ok'] = list(mo.outcomes) == xs
        else:
            r0 = case['r0']
            outs, ps = [], []
            for x in range(n):
                for y in range(m):
                    if P[x][y] > 0:
                        outs.append((x, y))
                        ps.append(r0[x] * P[x][y])
            ps = [v / sum(ps) for v in ps]
            if case['klass'] == 'str':
                d = dit.Distribution(['%d%d' % o for o in outs], ps)
            else:
                d = dit.Distribution(outs, ps)
            snap = (tuple(d.outcomes), d.pmf.tobytes())
            cc, mo = channel_capacity_joint(d, [0], [1], marginal=True)
            cc2 = channel_capacity_joint(d, [0], [1])
            res['input_same'] = snap == (tuple(d.outcomes), d.pmf.tobytes())
            res['cc'], res['r'] = float(cc), [float(x) for x in mo.pmf]
            res['cc_nomarg'] = float(cc2)
            res['stored'] = [[list(o), float(pv)] for o, pv in zip(outs, ps)]
            res['r_outcomes_ok'] = [tuple(int(v) for v in o) for o in mo.outcomes] == [(x,) for x in range(n)]
        qh, rh = solve_capacity(P)
        res['qh'] = qh
        return res
    np.random.seed(case.get('npseed', 0))
    if k == 'ba':
        from dit.rate_distortion.blahut_arimoto import blahut_arimoto
        from dit.rate_distortion.distortions import hamming_distortion, residual_entropy_distortion
        p = np.array(case['p'], dtype=float)
        before = p.copy()
        fn = hamming_distortion if case['dist'] == 'hamming' else residual_entropy_distortion
        rd, q = blahut_arimoto(p, case['beta'], distortion=fn, restarts=case['restarts'])
        res = {'R': float(rd.rate), 'D': float(rd.distortion), 'q': [[float(v) for v in row] for row in q],
               'input_same': bool((p == before).all())}
        if case['dist'] == 'hamming':
            nz = [i for i, v in enumerate(case['p']) if v > 0]
            n = len(p)
            res['lam'] = solve_rd([case['p'][i] for i in nz], case['beta'], [[0.0 if i == j else 1.0 for j in range(n)] for i in nz])
            res['nz'] = nz
        return res
    if k == 'sweep':
        from dit.rate_distortion.blahut_arimoto import blahut_arimoto
        p = np.array(case['p'], dtype=float)
        pts = []
        for b in case['betas']:
            rd, q = blahut_arimoto(p, b, restarts=case['restarts'])
            pts.append([b, float(rd.rate), float(rd.distortion)])
        return {'pts': pts}
    if k == 'ib':
        from dit.rate_distortion.blahut_arimoto import blahut_arimoto_ib
        pxy = np.array(case['pxy'], dtype=float)
        before = pxy.copy()
        rd, q = blahut_arimoto_ib(pxy, case['beta'], restarts=case['restarts'])
        return {'R': float(rd.rate), 'D': float(rd.distortion), 'q': [[[float(v) for v in r2] for r2 in r1] for r1 in q],
                'input_same': bool((pxy == before).all())}
    raise ValueError(k)


# ------------------------------------------------------------------------------------------------


def bg(e):
    return ('bgoal (stage (%s))' % e, 'nbgoal (stage (%s))' % e)


def ql(l):
    return lib.qlist(l)


def mat(M):
    return '[' + ';'.join(ql(r) for r in M) + ']'


def ok(data, obs, tol):
    args = '(Some (stage (%s))) false %s %s' % (data, lib.qf(obs), lib.qz(tol))
    return ('okgoal ' + args, 'fargoal ' + args)


def le(data, obs, tol):
    return ('legoal (Some (stage (%s))) %s %s' % (data, lib.qf(obs), lib.qz(tol)), 'gtgoal (Some (stage (%s))) %s %s' % (data, lib.qf(obs), lib.qz(tol)))


def ge(data, obs, tol):
    return ('gegoal (Some (stage (%s))) %s %s' % (data, lib.qf(obs), lib.qz(tol)), 'ltgoal (Some (stage (%s))) %s %s' % (data, lib.qf(obs), lib.qz(tol)))


T6 = Fraction(1, 10 ** 6)
T9 = Fraction(1, 10 ** 9)
TKKT = Fraction(5, 1000)
THINT = Fraction(1, 10 ** 5)
TRD = Fraction(1, 100)
_counter = [0]


def finite(*vs):
    return all(isinstance(v, float) and math.isfinite(v) for v in vs)


def to_coq(case, o):
    _counter[0] += 1
    nm = 'c13_%d' % _counter[0]
    item = {'defs': '', 'goals': [], 'labels': []}

    def add(g, label):
        item['goals'].append(g)
        item['labels'].append(label)
    k = case['kind']
    if not o.get('input_same', True):
        item['pyviolation'] = 'the caller\'s input was modified'
    if k == 'cc':
        P = case['P']
        n, m = len(P), len(P[0])
        cc, r = o['cc'], o['r']
        if not finite(cc, *r) or len(r) != n:
            item['pyviolation'] = 'capacity or input pmf not finite / wrong length: %r %r' % (cc, r)
            return item
        if o.get('r_outcomes_ok') is False:
            item['pyviolation'] = 'returned marginal has the wrong outcomes'
        if 'cc_nomarg' in o and o['cc_nomarg'] != cc:
            item['pyviolation'] = 'channel_capacity_joint gives different values with and without marginal=True'
        if case['api'] == 'joint':
            defs = 'Definition %s_t : pd := %s.\nDefinition %s_P : chan := chan_of_joint %s_t [0%%nat] [1%%nat].\n' % (nm, lib.pdc([(s[0], s[1]) for s in o['stored']]), nm, nm)
            # zero columns of P vanish from the joint: the model's channel has only the reachable outputs
            cols = [j for j in range(m) if any(P[x][j] > 0 for x in range(n))]
            mm = len(cols)
            qh = [o['qh'][j] for j in cols]
        else:
            defs = 'Definition %s_P : chan := %s.\n' % (nm, mat(P))
            mm = m
            qh = o['qh']
        defs += 'Definition %s_r : list Q := %s.\nDefinition %s_q : list Q := out_dist %d%%nat %s_P %s_r.\nDefinition %s_qh : list Q := %s.' % (
            nm, ql(r), nm, mm, nm, nm, nm, ql(qh))
        item['defs'] = defs
        Pn, rn, qn, qhn = nm + '_P', nm + '_r', nm + '_q', nm + '_qh'
        add(bg('Nat.eqb (length %s) %d%%nat && chan_ok %d%%nat %s && input_ok %s %s' % (Pn, n, mm, Pn, Pn, rn)), 'channel is row-stochastic (model of the channel for the joint API), returned input is a pmf over the input letters')
        add(ok('mi_chan_data %d%%nat %s %s' % (mm, Pn, rn), cc, T6), 'reported capacity %r = I(returned input; channel)' % cc)
        add(bg('all_dominated %s %s' % (Pn, qn)), 'every row is dominated by the output of the returned input (finite divergences)')
        for x in range(n):
            add(le('letter_div_data (nth %d%%nat %s []) %s' % (x, Pn, qn), cc, TKKT), 'KKT: D(P(.|x=%d) || output) <= capacity + 5e-3' % x)
        # hint: the driver's high-precision output distribution bounds the true capacity from above
        hint_ok = all(_kl_bits(P[x], o['qh']) <= cc + 0.5e-5 for x in range(n)) and abs(sum(qh) - 1) < 1e-9
        if hint_ok:
            add(bg('all_dominated %s %s && nonneg_l %s && Qle_bool (qsum %s) (1000000001#1000000000)' % (Pn, qhn, qhn, qhn)), 'hinted output distribution is a sub-probability vector dominating every row')
            for x in range(n):
                add(le('letter_div_data (nth %d%%nat %s []) %s' % (x, Pn, qhn), cc, THINT), 'certified upper bound: D(P(.|x=%d) || hinted output) <= capacity + 1e-5' % x)
        else:
            item['hint_dropped'] = True
        cl = case.get('closed')
        if cl:
            if cl[0] == 'bsc':
                e = cl[1]
                data = 'RAdd (RConst (1#1)) (RNeg (h2_data %s))' % lib.qf(e)
            elif cl[0] == 'nsym':
                data = 'RAdd (RLog2 (RConst (%d#1))) (RNeg (RLin [((1#1), %s)]))' % (n, ql(cl[1]))
            elif cl[0] == 'bec':
                data = 'RConst %s' % lib.qz(1 - Fraction(*float(cl[1]).as_integer_ratio()))
            elif cl[0] == 'noiseless':
                data = 'RLog2 (RConst (%d#1))' % cl[1]
            else:
                data = 'RConst (0#1)'
            add(ok(data, cc, T6), 'closed form of the %s channel' % cl[0])
        return item
    if k == 'ba':
        p, beta = case['p'], case['beta']
        n = len(p)
        R, D, q = o['R'], o['D'], o['q']
        if not finite(R, D) or not all(finite(*row) for row in q):
            item['pyviolation'] = 'rate, distortion or joint not finite: %r %r' % (R, D)
            return item
        item['defs'] = 'Definition %s_p : list Q := %s.\nDefinition %s_M : matrix := %s.' % (nm, ql(p), nm, mat(q))
        pn, Mn = nm + '_p', nm + '_M'
        add(bg('joint_ok %d%%nat %d%%nat %s %s' % (n, n, pn, Mn)), 'returned joint is non-negative with the source as input marginal')
        add(ok('mi_joint_data %d%%nat %s' % (n, Mn), R, T9), 'reported rate %r = I of the returned joint' % R)
        if case['dist'] == 'hamming':
            add(bg('qclose c13_tol (exp_dist %s (hamming %d%%nat)) %s' % (Mn, n, lib.qf(D))), 'reported distortion %r = expected Hamming distortion of the joint' % D)
            nz = o['nz']
            lam = o['lam']
            F = R + beta * D
            pz = [p[i] for i in nz]
            # driver-side sanity of the hint
            feas = all(sum(pz[a] * lam[a] * 2 ** (-beta * (0.0 if nz[a] == y else 1.0)) for a in range(len(nz))) <= 1 - 1e-10 for y in range(n))
            val = sum(pz[a] * math.log2(lam[a]) for a in range(len(nz))) if all(v > 0 for v in lam) else None
            if feas and val is not None and math.isfinite(val):
                item['defs'] += '\nDefinition %s_pz : list Q := %s.\nDefinition %s_lam : list Q := %s.\nDefinition %s_d : matrix := %s.' % (
                    nm, ql(pz), nm, ql(lam), nm, mat([[0.0 if i == j else 1.0 for j in range(n)] for i in nz]))
                add(bg('all_pos %s_lam && Nat.eqb (length %s_lam) (length %s_pz)' % (nm, nm, nm)), 'dual multipliers are positive')
                for y in range(n):
                    add(le('dual_feas_data %s_pz %s_lam %s (column %d%%nat %s_d)' % (nm, nm, lib.qf(beta), y, nm), 1.0, Fraction(0)), 'dual feasibility at reproduction letter %d' % y)
                add(le('RAdd (RConst %s) (RNeg (dual_value_data %s_pz %s_lam))' % (lib.qz(Fraction(*R.as_integer_ratio()) + Fraction(*float(beta).as_integer_ratio()) * Fraction(*D.as_integer_ratio())), nm, nm), 0.0, TRD),
                    'R + beta D = %r is within 1e-2 of the certified lower bound on every test channel' % F)
                add(ge('RAdd (RConst %s) (RNeg (dual_value_data %s_pz %s_lam))' % (lib.qz(Fraction(*R.as_integer_ratio()) + Fraction(*float(beta).as_integer_ratio()) * Fraction(*D.as_integer_ratio())), nm, nm), 0.0, T6),
                    'R + beta D is not below the dual bound (weak duality)')
            else:
                item['hint_dropped'] = True
            pos = [v for v in p if v > 0]
            if len(pos) == 2 and n == 2:
                a = min(pos)
                if D <= a - 1e-6 and D >= 0:
                    data = 'RAdd (h2_data %s) (RNeg (h2_data %s))' % (lib.qf(p[0]), lib.qf(max(D, 0.0)))
                    add(ge('RConst %s' % lib.qf(R), 0.0, T9), 'rate is non-negative')
                    add(le(data, R, T6), 'Bernoulli/Hamming: R >= H(p) - H(D)')
                    add(ge(data, R, TRD), 'Bernoulli/Hamming: R <= H(p) - H(D) + 1e-2')
        else:
            add(ok('resid_joint_data %d%%nat %s' % (n, Mn), D, Fraction(1, 10 ** 8)), 'reported distortion %r = H(X|Y) + H(Y|X) of the joint' % D)
        return item
    if k == 'sweep':
        pts = o['pts']
        if not all(finite(*pt) for pt in pts):
            item['pyviolation'] = 'non-finite point on the sweep'
            return item
        l = '[' + ';'.join('(%s, %s, %s)' % (lib.qf(b), lib.qf(r), lib.qf(d)) for b, r, d in pts) + ']'
        add(bg('monotone_rd (2#100) %s' % l), 'along increasing beta the rate never decreases and the distortion never increases: %r' % pts)
        return item
    if k == 'ib':
        pxy = case['pxy']
        n, m = len(pxy), len(pxy[0])
        R, D, q = o['R'], o['D'], o['q']
        if not finite(R, D) or not all(finite(*r2) for r1 in q for r2 in r1):
            item['pyviolation'] = 'rate, distortion or joint not finite: %r %r' % (R, D)
            return item
        tens = '[' + ';'.join(mat(r1) for r1 in q) + ']'
        item['defs'] = 'Definition %s_T : list (list (list Q)) := %s.\nDefinition %s_t : pd := tensor_pd %s_T.' % (nm, tens, nm, nm)
        add(bg('xy_marginal_ok %s_T %s' % (nm, mat(pxy))), 'returned joint over (x, y, t) is non-negative and marginalises to the given p(x, y)')
        X, Y, T = '[0%nat]', '[1%nat]', '[2%nat]'

        def okc(xs, ys, zs, obs, tol, label):
            data = 'cmi_data %s_t 3%%nat %s %s %s' % (nm, xs, ys, zs)
            args = '(stage (%s)) false %s %s' % (data, lib.qf(obs), lib.qz(tol))
            add(('okgoal ' + args, 'fargoal ' + args), label)
        okc(X, T, '[]', R, Fraction(1, 10 ** 8), 'reported rate %r = I(X;T) of the joint' % R)
        okc(X, Y, T, D, Fraction(1, 10 ** 7), 'reported distortion %r = E D(p(Y|x) || q(Y|t)) = I(X;Y|T) of the joint' % D)
        okc(T, Y, X, 0.0, Fraction(1, 10 ** 8), 'T depends on X only: I(T;Y|X) = 0')
        return item
    raise ValueError(k)


def nontrivial(case, o):
    if case['kind'] == 'cc':
        return len(case['P']) >= 2
    return True


def describe(case, o):
    d = {'kind': case['kind']}
    if case['kind'] == 'cc':
        d.update({'channel': case['ckind'], 'api': case['api'], 'shape': '%dx%d' % (len(case['P']), len(case['P'][0]))})
    elif case['kind'] == 'ba':
        d.update({'source': case['skind'], 'distortion': case['dist'], 'beta': case['beta'] if case['beta'] in (0.0, 0.5, 1.0, 2.0, 3.0, 5.0, 8.0) else 'other', 'n': len(case['p'])})
    elif case['kind'] == 'ib':
        d.update({'shape': '%dx%d' % (len(case['pxy']), len(case['pxy'][0])), 'zero_row': case['zero_row']})
    return d


def matches_finding(f, case, o, v):
    if f['id'] == 'C13-resid-zero-letter':
        return (case['kind'] == 'ba' and case['dist'] == 'residual' and any(x == 0 for x in case['p'])
                and isinstance(o.get('D'), float) and math.isnan(o['D']))
    return False
