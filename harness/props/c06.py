"""C06 — divergences and dependence coefficients equal their definitions and axioms."""
import itertools
import math
from fractions import Fraction

import numpy as np

from .. import lib
from .. import distgen as G

MODE = 'goals'
COQ_IMPORTS = ['Check', 'C06_Model', 'C19_Model']
SHARD = 10
RULE = ('pairs (or weighted triples) of linear distributions over a common outcome class whose supports are equal / nested / overlapping / disjoint and '
        'whose stored orders, sparsity and sample spaces differ, x queries over {cross entropy, KL (restricted to rvs, conditional on crvs), JSD with '
        'weights, variational distance, Bhattacharyya, Hellinger, Renyi/Tsallis/Hellinger/alpha divergences of orders {1/2, 2, 3, -1/2}, chi-squared '
        'f-divergence, Chernoff information, earth mover\'s distance (categorical and numerical), maximum correlation}, plus (p,p) and swapped-argument '
        'instances. Finite values: interval goals |model - dit| <= 1e-9; infinite / nan / rejected: kind must match. EMD and maximum correlation: exact '
        'rational certificate checks. Non-trivial: both supports >= 2; distinct by canonical JSON.')
TRUSTED = ['Coq 8.16.1 kernel incl. vm_compute; Coq-Interval 4.6.1 + Flocq', 'Python driver: rank encoding, exact float->Q; Kantorovich potentials for EMD are untrusted hints (the dual bound is recomputed in Coq)',
           'model C06_Model.v hand-written; tie = per-query checked correspondence']
ASSUMPTIONS = ['float rounding within 1e-9 (1e-7 for maximum correlation, an SVD)', 'stdlib Reals axioms',
               'Chernoff information is checked at the reported optimum and against a 9-point grid only (no optimality certificate)',
               'Pinsker inequality and JSD <= H(weights) are checked per instance, not proved']
CODES = {'corr': 'k = index+1 of first provably false goal (see goal_labels); 90 = python-side violation', 'prop': 'same'}
TOL = Fraction(1, 10 ** 9)
KINDS = ['dyadic', 'dyadic', 'kn', 'decimal', 'random']


def gen_pair(rng, nd=2):
    klass = rng.choice(['str', 'int', 'strtuple'])
    n = rng.randint(1, 3)
    alph = [sorted(rng.sample(range(6), rng.randint(2, 3))) for _ in range(n)]
    full = [list(o) for o in itertools.product(*alph)]
    rel = rng.choice(['equal', 'nested', 'overlap', 'disjoint', 'equal', 'overlap'])
    k = rng.randint(1, len(full))
    base = rng.sample(full, k)
    sups = []
    for i in range(nd):
        if i == 0 or rel == 'equal':
            s = list(base)
        elif rel == 'nested':
            s = list(base) + rng.sample([o for o in full if o not in base], rng.randint(0, max(0, len(full) - k)))
            if rng.random() < 0.5 and len(base) > 1:
                s = rng.sample(base, rng.randint(1, len(base)))
        elif rel == 'overlap':
            s = rng.sample(full, rng.randint(1, len(full)))
        else:
            rest = [o for o in full if o not in base]
            s = rng.sample(rest, rng.randint(1, len(rest))) if rest else list(base)
        sups.append(s)
    specs = []
    for s in sups:
        ps = G.gen_probs(rng, len(s), rng.choice(KINDS))
        order = list(range(len(s)))
        rng.shuffle(order)
        zeros = []
        if rng.random() < 0.25:
            rest = [o for o in full if o not in s]
            zeros = rng.sample(rest, min(len(rest), 1))
        ssk = rng.choice(['default', 'default', 'cart'])
        specs.append({'n': n, 'klass': klass, 'alph': alph, 'outcomes': [s[i] for i in order] + zeros,
                      'pmf': [ps[i] for i in order] + [0.0] * len(zeros), 'ss_kind': ssk,
                      'ss': [sorted(a) for a in alph] if ssk == 'cart' else None, 'base': 'linear',
                      'sparse': rng.random() < 0.6, 'trim': rng.random() < 0.7, 'names': None})
    return specs, rel


def gen_queries(rng, specs):
    n = specs[0]['n']
    qs = []
    kinds = ['xent', 'kl', 'kl', 'jsd', 'vd', 'bc', 'hellinger', 'gdiv', 'gdiv', 'chi2', 'chernoff', 'emd', 'pp', 'swap']
    if specs[0]['klass'] == 'int':
        kinds.remove('emd')      # numeric tuples: dit would take the (meaningless) numerical branch
    for _ in range(7):
        k = rng.choice(kinds)
        q = {'k': k}
        if k in ('xent', 'kl'):
            q['rvs'] = None if rng.random() < 0.5 else sorted(rng.sample(range(n), rng.randint(1, n)))
            q['crvs'] = []
            if q['rvs'] is not None and rng.random() < 0.3:
                rest = [i for i in range(n) if i not in q['rvs']]
                q['crvs'] = rng.sample(rest, rng.randint(0, len(rest)))
        elif k == 'jsd':
            w = G.gen_probs(rng, len(specs), rng.choice(['dyadic', 'kn']))
            q['w'] = w if rng.random() < 0.7 else None
        elif k == 'gdiv':
            q['g'] = rng.choice(['renyi', 'tsallis', 'hellinger', 'alpha'])
            q['a'] = rng.choice(['1/2', '2', '3', '3/2']) if q['g'] != 'alpha' else rng.choice(['1/2', '-1/2', '0', '2'])
            q['rvs'] = None if rng.random() < 0.6 else sorted(rng.sample(range(n), rng.randint(1, n)))
        elif k == 'pp':
            q['m'] = rng.choice(['kl', 'jsd', 'vd', 'hellinger', 'xent'])
        elif k == 'swap':
            q['m'] = rng.choice(['jsd', 'vd', 'bc', 'hellinger'])
        qs.append(q)
    return qs


def gen_case(rng):
    r = rng.random()
    if r < 0.12:
        # numerical scalar distributions for the earth mover's distance
        k = rng.randint(2, 5)
        pts1 = sorted(rng.sample(range(-5, 12), k))
        pts2 = pts1 if rng.random() < 0.5 else sorted(rng.sample(range(-5, 12), k))
        return {'kind': 'emdnum', 'x': pts1, 'y': pts2, 'p': G.gen_probs(rng, k, rng.choice(['dyadic', 'kn'])),
                'q': G.gen_probs(rng, k, rng.choice(['dyadic', 'kn']))}
    if r < 0.27:
        spec = G.gen_spec(rng, nmin=2, nmax=3, amax=3, allow_log=False, prob_kinds=KINDS, allow_names=False)
        i, j = rng.sample(range(spec['n']), 2)
        return {'kind': 'maxcorr', 'spec': spec, 'i': i, 'j': j}
    specs, rel = gen_pair(rng, 3 if r > 0.85 else 2)
    return {'kind': 'pair', 'specs': specs, 'rel': rel, 'queries': gen_queries(rng, specs)}


def gen_samelen(rng):
    """Families on one sample space whose stored supports have the same number of outcomes but different labels
    (matching by storage position would pair unrelated outcomes), queried with the label-sensitive measures."""
    klass = rng.choice(['str', 'int', 'strtuple'])
    n = rng.randint(1, 2)
    alph = [sorted(rng.sample(range(6), rng.randint(2, 3))) for _ in range(n)]
    full = [list(o) for o in itertools.product(*alph)]
    nd = rng.choice([2, 2, 3])
    k = rng.randint(1, max(1, len(full) // 2))
    ssk = rng.choice(['default', 'cart'])
    specs = []
    prev = None
    for _ in range(nd):
        while True:
            s = rng.sample(full, k)
            if prev is None or sorted(s) != sorted(prev):
                break
        prev = s
        ps = G.gen_probs(rng, k, rng.choice(KINDS))
        specs.append({'n': n, 'klass': klass, 'alph': alph, 'outcomes': s, 'pmf': ps, 'ss_kind': ssk,
                      'ss': [sorted(a) for a in alph] if ssk == 'cart' else None, 'base': 'linear',
                      'sparse': True, 'trim': True, 'names': None})
    w = G.gen_probs(rng, nd, rng.choice(['dyadic', 'kn']))
    qs = [{'k': 'jsd', 'w': w}, {'k': 'jsd', 'w': None}, {'k': 'vd'}, {'k': 'bc'}, {'k': 'kl', 'rvs': None, 'crvs': []}]
    return {'kind': 'pair', 'specs': specs, 'rel': 'samelen', 'queries': qs}


def generate(rng, tier):
    n = 90 if tier == 'quick' else 1100
    cases = [gen_case(rng) for _ in range(n)]
    cases.extend(gen_samelen(rng) for _ in range(6 if tier == 'quick' else 60))
    return cases


def kind_of(v):
    if isinstance(v, str):
        return v
    if math.isnan(v):
        return 'nan'
    if math.isinf(v):
        return 'inf' if v > 0 else 'neginf'
    return 'val'


def call(fn, *a, **kw):
    from dit.exceptions import ditException
    try:
        v = float(fn(*a, **kw))
        return {'kind': kind_of(v), 'v': v if math.isfinite(v) else 0.0}
    except ditException:
        return {'kind': 'raised', 'v': 0.0}


def observe(case):
    import dit
    import dit.divergences as dv
    from dit.divergences.generalized_divergences import renyi_divergence, tsallis_divergence, hellinger_divergence, alpha_divergence, f_divergence
    from dit.divergences import (cross_entropy, kullback_leibler_divergence, jensen_shannon_divergence, variational_distance,
                                 bhattacharyya_coefficient, hellinger_distance, chernoff_information, earth_movers_distance,
                                 maximum_correlation)
    if case['kind'] == 'emdnum':
        d1 = dit.ScalarDistribution(case['x'], case['p'])
        d2 = dit.ScalarDistribution(case['y'], case['q'])
        r = call(earth_movers_distance, d1, d2)
        return {'r': r, 'x': [float(v) for v in d1.outcomes], 'y': [float(v) for v in d2.outcomes],
                'p': [float(v) for v in d1.pmf], 'q': [float(v) for v in d2.pmf]}
    if case['kind'] == 'maxcorr':
        spec = case['spec']
        d = G.make_dist(spec)
        before = G.snapshot(d)
        r = call(maximum_correlation, d, [[case['i']], [case['j']]])
        return {'r': r, 'src_same': G.snapshot(d) == before}
    specs = case['specs']
    ds = [G.make_dist(s) for s in specs]
    before = [G.snapshot(d) for d in ds]
    terms = [G.model_dist_term(s, d) for s, d in zip(specs, ds)]
    res = []
    for q in case['queries']:
        k = q['k']
        d1, d2 = ds[0], ds[1]
        if k == 'xent':
            r = call(cross_entropy, d1, d2, q['rvs'], q['crvs'] or None)
        elif k == 'kl':
            r = call(kullback_leibler_divergence, d1, d2, q['rvs'], q['crvs'] or None)
        elif k == 'jsd':
            r = call(jensen_shannon_divergence, ds, q['w'])
        elif k == 'vd':
            r = call(variational_distance, d1, d2)
        elif k == 'bc':
            r = call(bhattacharyya_coefficient, d1, d2)
        elif k == 'hellinger':
            r = call(hellinger_distance, d1, d2)
        elif k == 'gdiv':
            fn = {'renyi': renyi_divergence, 'tsallis': tsallis_divergence, 'hellinger': hellinger_divergence, 'alpha': alpha_divergence}[q['g']]
            r = call(fn, d1, d2, float(Fraction(q['a'])), q['rvs'])
        elif k == 'chi2':
            r = call(f_divergence, d1, d2, lambda t: (t - 1) ** 2)
        elif k == 'chernoff':
            r = call(chernoff_information, d1, d2)
        elif k == 'emd':
            r = call(earth_movers_distance, d1, d2)
            # data for the certificate: union of stored outcomes as dit aligns them
            ev = list(set().union(d1.outcomes, d2.outcomes))
            r['p'] = [float(d1[e]) if e in d1.outcomes else 0.0 for e in ev]
            r['q'] = [float(d2[e]) if e in d2.outcomes else 0.0 for e in ev]
        elif k == 'pp':
            fn = {'kl': kullback_leibler_divergence, 'vd': variational_distance, 'hellinger': hellinger_distance, 'xent': cross_entropy}.get(q['m'])
            r = call(jensen_shannon_divergence, [d1, d1]) if q['m'] == 'jsd' else call(fn, d1, d1)
        elif k == 'swap':
            fn = {'vd': variational_distance, 'bc': bhattacharyya_coefficient, 'hellinger': hellinger_distance}.get(q['m'])
            if q['m'] == 'jsd':
                a, b = call(jensen_shannon_divergence, [d1, d2]), call(jensen_shannon_divergence, [d2, d1])
            else:
                a, b = call(fn, d1, d2), call(fn, d2, d1)
            r = {'kind': a['kind'], 'v': a['v'], 'sym_ok': a['kind'] == b['kind'] and abs(a['v'] - b['v']) <= 1e-12}
        res.append(r)
    # axioms checked per instance on dit's own values (labelled tests, not proofs): Pinsker, JSD <= H(w)
    extra = {}
    vd, kl = call(variational_distance, ds[0], ds[1]), call(kullback_leibler_divergence, ds[0], ds[1])
    if kl['kind'] == 'val':
        extra['pinsker_ok'] = bool(vd['v'] ** 2 <= kl['v'] * math.log(2) / 2 + 1e-9)
        extra['kl_nonneg'] = bool(kl['v'] >= -1e-9)
    return {'terms': terms, 'results': res, 'src_same': [G.snapshot(d) for d in ds] == before, 'extra': extra}


_counter = [0]
KCTOR = {'raised': 'KRaise', 'inf': 'KInf', 'nan': 'KNaN', 'val': 'KVal'}


def optl(s):
    return 'None' if s is None else '(Some %s)' % lib.natlist(s)


def add_x(item, model, r, label):
    """model : xres term; r : observed {'kind','v'}"""
    if r['kind'] == 'neginf':
        item['pyviolation'] = 'minus infinity: ' + label
        return
    kexpr = 'kind_eqb (kind_of (%s)) %s' % (model, KCTOR[r['kind']])
    item['goals'].append(('bgoal (stage (%s))' % kexpr, 'nbgoal (stage (%s))' % kexpr))
    item['labels'].append('kind of ' + label)
    if r['kind'] == 'val':
        args = '(stage (val_of (%s))) false %s %s' % (model, lib.qf(r['v']), lib.qz(TOL))
        item['goals'].append(('okgoal ' + args, 'fargoal ' + args))
        item['labels'].append('value of ' + label)


def potentials(x, y, p, q):
    """Kantorovich potential on the points x (untrusted hint): slope sign(G - F) on the merged line"""
    pts = sorted(set(x) | set(y))
    F = G_ = 0.0
    f = {pts[0]: 0.0}
    for a, b in zip(pts, pts[1:]):
        F += sum(pi for xi, pi in zip(x, p) if xi == a)
        G_ += sum(qi for yi, qi in zip(y, q) if yi == a)
        s = 1.0 if G_ > F else (-1.0 if G_ < F else 0.0)
        f[b] = f[a] + s * (b - a)
    return [f[xi] for xi in x]


def to_coq(case, o):
    item = {'defs': '', 'goals': [], 'labels': []}
    if case['kind'] == 'emdnum':
        r = o['r']
        if r['kind'] != 'val':
            item['pyviolation'] = 'earth_movers_distance returned %s' % r['kind']
            return item
        u = potentials(o['x'], o['y'], o['p'], o['q'])
        e = 'emd_check true %s %s %s %s %s %s' % (lib.qlist(o['x']), lib.qlist(o['y']), lib.qlist(o['p']), lib.qlist(o['q']),
                                                 lib.qlist(u), lib.qf(r['v']))
        item['goals'].append(('bgoal (stage (%s))' % e, 'nbgoal (stage (%s))' % e))
        item['labels'].append('numerical EMD x=%s y=%s -> %r' % (case['x'], case['y'], r))
        return item
    if case['kind'] == 'maxcorr':
        spec = case['spec']
        r = o['r']
        if r['kind'] != 'val' or not o['src_same']:
            item['pyviolation'] = 'maximum_correlation returned %s / source changed' % r['kind']
            return item
        i, j = case['i'], case['j']
        xs = sorted(set(oo[i] for oo in spec['outcomes']))
        ys = sorted(set(oo[j] for oo in spec['outcomes']))
        m = [[sum((Fraction(p) for oo, p in zip(spec['outcomes'], spec['pmf']) if oo[i] == a and oo[j] == b), Fraction(0)) for b in ys] for a in xs]
        mt = '[' + ';'.join('[' + ';'.join(lib.qz(v) for v in row) + ']' for row in m) + ']'
        e = 'maxcorr_check %s %s' % (mt, lib.qf(r['v']))
        item['goals'].append(('bgoal (stage (%s))' % e, 'nbgoal (stage (%s))' % e))
        item['labels'].append('maximum correlation of variables %d,%d -> %r' % (i, j, r))
        return item
    _counter[0] += 1
    names = ['dv_%d_%d' % (_counter[0], i) for i in range(len(o['terms']))]
    item['defs'] = '\n'.join('Definition %s : Dist.dist := %s.' % (nm, t) for nm, t in zip(names, o['terms']))
    if not o['src_same']:
        item['pyviolation'] = 'an argument distribution changed'
    ex = o.get('extra', {})
    if ex.get('pinsker_ok') is False:
        item['pyviolation'] = 'Pinsker inequality violated by dit values'
    if ex.get('kl_nonneg') is False:
        item['pyviolation'] = 'negative Kullback-Leibler divergence'
    a, b = names[0], names[1]
    for q, r in zip(case['queries'], o['results']):
        k = q['k']
        lab = '%s -> %r' % (q, {kk: vv for kk, vv in r.items() if kk in ('kind', 'v')})
        if k == 'xent':
            add_x(item, 'cross_entropy %s %s %s %s' % (a, b, optl(q['rvs']), lib.natlist(q['crvs'])), r, lab)
        elif k == 'kl':
            add_x(item, 'kl_divergence %s %s %s %s' % (a, b, optl(q['rvs']), lib.natlist(q['crvs'])), r, lab)
        elif k == 'jsd':
            w = q['w'] if q['w'] is not None else [1.0 / len(names)] * len(names)
            add_x(item, 'jsd [%s] %s' % (';'.join(names), lib.qlist(w)), r, lab)
        elif k == 'vd':
            add_x(item, 'variational %s %s' % (a, b), r, lab)
        elif k == 'bc':
            add_x(item, 'bhattacharyya %s %s' % (a, b), r, lab)
        elif k == 'hellinger':
            add_x(item, 'hellinger_sq %s %s' % (a, b), dict(r, v=r['v'] ** 2), lab + ' (squared)')
        elif k == 'gdiv':
            g = {'renyi': 'GRenyi', 'tsallis': 'GTsallis', 'hellinger': 'GHellinger', 'alpha': 'GAlpha'}[q['g']]
            add_x(item, 'gen_divergence %s %s %s %s %s' % (g, lib.qz(Fraction(q['a'])), a, b, optl(q['rvs'])), r, lab)
        elif k == 'chi2':
            add_x(item, 'chi2 %s %s' % (a, b), r, lab)
        elif k == 'chernoff':
            if r['kind'] != 'val':
                kexpr = 'kind_eqb (kind_of (chernoff_neg_f (1#2) %s %s)) %s' % (a, b, KCTOR.get(r['kind'], 'KRaise'))
                item['goals'].append(('bgoal (stage (%s))' % kexpr, 'nbgoal (stage (%s))' % kexpr))
                item['labels'].append('kind of chernoff -> %r' % r)
                continue
            # value >= -f(alpha) on a grid (it is the maximum of -f); tested, not an optimality proof.
            # tolerance 1e-4: minimize_scalar(bounded) stops at xatol = 1e-5, which matters when the optimum is at an end point
            for al in ('0', '1/8', '1/4', '3/8', '1/2', '5/8', '3/4', '7/8', '1'):
                m = '(stage (val_of (chernoff_neg_f %s %s %s)))' % (lib.qz(Fraction(al)), a, b)
                item['goals'].append(('legoal %s %s %s' % (m, lib.qf(r['v']), lib.qz(Fraction(1, 10 ** 4))),
                                      'gtgoal %s %s %s' % (m, lib.qf(r['v']), lib.qz(Fraction(1, 10 ** 4)))))
                item['labels'].append('chernoff >= -f(%s): %r' % (al, r))
        elif k == 'emd':
            if r['kind'] != 'val':
                item['pyviolation'] = 'earth_movers_distance returned %s' % r['kind']
                continue
            u = [1.0 if pi > qi else 0.0 for pi, qi in zip(r['p'], r['q'])]
            e = 'emd_check false [] [] %s %s %s %s' % (lib.qlist(r['p']), lib.qlist(r['q']), lib.qlist(u), lib.qf(r['v']))
            item['goals'].append(('bgoal (stage (%s))' % e, 'nbgoal (stage (%s))' % e))
            item['labels'].append('categorical EMD -> %r' % r['v'])
        elif k == 'pp':
            m = q['m']
            model = {'kl': 'kl_divergence %s %s None []' % (a, a), 'jsd': 'jsd [%s;%s] [1#2;1#2]' % (a, a), 'vd': 'variational %s %s' % (a, a),
                     'hellinger': 'hellinger_sq %s %s' % (a, a), 'xent': 'cross_entropy %s %s None []' % (a, a)}[m]
            add_x(item, model, dict(r, v=r['v'] ** 2) if m == 'hellinger' else r, lab)
            if m in ('kl', 'jsd', 'vd', 'hellinger') and (r['kind'] != 'val' or abs(r['v']) > 1e-7):
                item['pyviolation'] = '%s(p, p) = %r is not 0' % (m, r)
        elif k == 'swap':
            if not r.get('sym_ok', True):
                item['pyviolation'] = '%s is not symmetric: %r' % (q['m'], r)
            m = q['m']
            model = {'jsd': 'jsd [%s;%s] [1#2;1#2]' % (a, b), 'vd': 'variational %s %s' % (a, b), 'bc': 'bhattacharyya %s %s' % (a, b),
                     'hellinger': 'hellinger_sq %s %s' % (a, b)}[m]
            add_x(item, model, dict(r, v=r['v'] ** 2) if m == 'hellinger' else r, lab)
    return item


def nontrivial(case, o):
    if case['kind'] == 'pair':
        return all(sum(1 for p in s['pmf'] if p > 0) >= 2 for s in case['specs'])
    return True


def describe(case, o):
    d = {'kind': case['kind']}
    if case['kind'] == 'pair':
        d.update(rel=case['rel'], ndists=len(case['specs']), nvars=case['specs'][0]['n'],
                 kinds=','.join(sorted(set((r.get('kind') if isinstance(r, dict) else '?') for r in o.get('results', [])))))
    return d


def matches_finding(f, case, o, v):
    r = covering_findings([f], case, o, v)
    return bool(r)


def covering_findings(findings, case, o, v):
    """C06-fdiv-zero-q: f_divergence drops the outcomes where q = 0 < p instead of returning +inf.
    C06-alpha-zero-p: alpha_divergence with alpha > 1 only visits the outcomes stored in p, so q-mass where p = 0 is ignored.
    Returns the listed findings that together explain EVERY failing goal of the case (None if some failing goal is unexplained)."""
    if case.get('kind') != 'pair':
        return None
    labels, verdicts = o.get('_goal_labels'), o.get('_goal_verdicts')
    if not labels or o.get('_pyviolation'):
        return None
    bad = [l for l, vv in zip(labels, verdicts) if vv == 'FAIL']
    if not bad:
        return None
    s1, s2 = case['specs'][0], case['specs'][1]
    p = {tuple(oo): x for oo, x in zip(s1['outcomes'], s1['pmf'])}
    q = {tuple(oo): x for oo, x in zip(s2['outcomes'], s2['pmf'])}
    by_id = {f.get('id'): f for f in findings}
    used = {}
    for l in bad:
        if "'k': 'chi2'" in l and 'C06-fdiv-zero-q' in by_id and any(x > 0 and q.get(k, 0.0) == 0 for k, x in p.items()):
            used['C06-fdiv-zero-q'] = by_id['C06-fdiv-zero-q']
        elif "'g': 'alpha', 'a': '2'" in l and 'C06-alpha-zero-p' in by_id and any(x > 0 and p.get(k, 0.0) == 0 for k, x in q.items()):
            used['C06-alpha-zero-p'] = by_id['C06-alpha-zero-p']
        else:
            return None
    return list(used.values())
