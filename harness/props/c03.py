"""C03 — conditioning factorises the joint; factors recombine."""
import math

from .. import lib
from .. import distgen as G

COQ_IMPORTS = ['C03_Model']
VERDICT = 'verdict'
SHARD = 100
RULE = ('random structured joint distributions of 2-4 variables (zero-probability conditioning values, supports that differ between '
        'conditionals, functional / block / duplicated-column supports, sparse and dense, six bases, named variables, explicit and enlarged '
        'sample spaces) x disjoint (crvs, rvs) selections by index or name incl. rvs=None, interleaved positions, overlapping (invalid) '
        'selections; joint_from_factors on the returned factors. Non-trivial: >= 2 conditioning values of positive probability; distinct by canonical JSON.')
TRUSTED = ['Coq 8.16.1 kernel incl. vm_compute', 'Python driver: rank encoding, base**x linearisation', 'model C03_Model.v is hand-written; tie = sampled correspondence']
ASSUMPTIONS = ['float rounding of p(c,r)/p(c) stays below 1e-9', 'probabilities at or below the null tolerance 1e-8 are not generated for this property (they are for C01/C02/C09)']
CODES = {'corr': '1/2 accepted/rejected differently; 1x marginal over crvs; 2x a conditional (3 sample space,4 outcomes,5 pmf,6 lookups,7 names,8 base,9 sparse); 19 number of conditionals; 40 source changed; 41/42 joint_from_factors raised/accepted; 5x recombined joint',
         'prop': '61/62 rejection; 63 marginal; 64 rows are not the positive conditioning values in order; 65 count; 66 chain rule / normalisation; 67/68 names/base/sparsity; 69 source changed; 70-73 recombination'}
KINDS = ['dyadic', 'dyadic', 'kn', 'decimal', 'random', 'neardeg']


def gen_sel(rng, spec):
    n = spec['n']
    byname = spec['names'] is not None and rng.random() < 0.5
    k = rng.randint(1, n - 1) if n > 1 else 1
    crvs = rng.sample(range(n), k)
    rest = [i for i in range(n) if i not in crvs]
    mode = rng.choice(['none', 'none', 'all', 'some', 'overlap'])
    if mode == 'none':
        rvs = None
    elif mode == 'all':
        rvs = rest[:]
        rng.shuffle(rvs)
    elif mode == 'some':
        rvs = rng.sample(rest, rng.randint(1, len(rest))) if rest else []
    else:
        rvs = rest + [crvs[0]]
    if rng.random() < 0.5:
        crvs.sort()
    return {'byname': byname, 'crvs': crvs, 'rvs': rvs}


def generate(rng, tier):
    n = 250 if tier == 'quick' else 2500
    cases = []
    for _ in range(n):
        spec = G.gen_spec(rng, nmin=2, nmax=3 if tier == 'quick' else 4, prob_kinds=KINDS)
        cases.append({'spec': spec, 'sel': gen_sel(rng, spec)})
    if tier == 'thorough':
        import itertools
        for _ in range(5):
            spec = G.gen_spec(rng, nmin=3, nmax=3, prob_kinds=KINDS)
            for k in range(1, 3):
                for crvs in itertools.combinations(range(3), k):
                    rest = [i for i in range(3) if i not in crvs]
                    for r in range(0, len(rest) + 1):
                        for rvs in itertools.combinations(rest, r):
                            cases.append({'spec': spec, 'sel': {'byname': False, 'crvs': list(crvs), 'rvs': list(rvs) if r else None}})
    return cases


def obs_dist(spec, m, dec=None):
    dec = dec or (lambda o: G.rko(spec, o))
    ssl = list(m.sample_space())
    names = m.get_rv_names()
    return {'ss': [dec(o) for o in ssl], 'outs': [dec(o) for o in m.outcomes],
            'vals': [G.linearise(m, p) for p in m.pmf], 'look': [G.linearise(m, m[o]) for o in ssl],
            'names': None if names is None else [G.name_id(x) for x in names], 'base': G.base_tag(m),
            'sparse': bool(m.is_sparse())}


def observe(case):
    import dit
    from dit.exceptions import ditException
    spec, sel = case['spec'], case['sel']
    d = G.make_dist(spec)
    before = G.snapshot(d)
    term = G.model_dist_term(spec, d)
    mode = 'names' if sel['byname'] else 'indices'

    def py(s):
        return [spec['names'][i] for i in s] if sel['byname'] else list(s)
    try:
        cdist, conds = d.condition_on(py(sel['crvs']), rvs=None if sel['rvs'] is None else py(sel['rvs']), rv_mode=mode)
    except ditException as e:
        if type(e) is not ditException:
            raise
        return {'dist_term': term, 'ok': False, 'src_same': G.snapshot(d) == before}
    res = {'dist_term': term, 'ok': True, 'cdist': obs_dist(spec, cdist), 'conds': [obs_dist(spec, c) for c in conds]}
    try:
        j = dit.joint_from_factors(cdist, conds)
        res['jff_ok'] = True
        res['jff'] = obs_dist(spec, j)
    except (ditException, ValueError) as e:
        res['jff_ok'] = False
        res['jff_err'] = '%s: %s' % (type(e).__name__, str(e)[:200])
    res['src_same'] = G.snapshot(d) == before
    return res


def fin(l):
    return [v if math.isfinite(v) else 1e300 for v in l]


def dobs_term(o):
    return '(mkDO %s %s %s %s %s %s)' % (lib.natlistlist(o['ss']), lib.pdc(list(zip(o['outs'], fin(o['vals'])))),
                                         lib.qlist(fin(o['look'])), lib.optc(o['names'], lib.natlist), lib.basec(o['base']),
                                         lib.boolc(o['sparse']))


EMPTY = '(mkDO [] [] [] None Linear false)'


def to_coq(case, o):
    spec, sel = case['spec'], case['sel']
    ids = [G.name_id(x) for x in spec['names']] if spec['names'] else None

    def tr(s):
        return [ids[i] for i in s] if sel['byname'] else list(s)
    ctor = 'ByName' if sel['byname'] else 'ByIdx'
    cs = '(%s %s)' % (ctor, lib.natlist(tr(sel['crvs'])))
    rs = 'None' if sel['rvs'] is None else '(Some (%s %s))' % (ctor, lib.natlist(tr(sel['rvs'])))
    if not o['ok']:
        ob = '(mkObs3 false %s [] false %s %s)' % (EMPTY, EMPTY, lib.boolc(o['src_same']))
    else:
        ob = '(mkObs3 true %s [%s] %s %s %s)' % (dobs_term(o['cdist']), ';'.join(dobs_term(c) for c in o['conds']),
                                                 lib.boolc(o['jff_ok']), dobs_term(o['jff']) if o['jff_ok'] else EMPTY,
                                                 lib.boolc(o['src_same']))
    return '(%s, %s, %s, %s)' % (o['dist_term'], cs, rs, ob)


def nontrivial(case, o):
    return o.get('ok', False) and len(o['conds']) >= 2


def describe(case, o):
    spec, sel = case['spec'], case['sel']
    return {'nvars': spec['n'], 'base': spec['base'], 'sparse': spec['sparse'], 'ss_kind': spec['ss_kind'],
            'byname': sel['byname'], 'rvs': 'None' if sel['rvs'] is None else len(sel['rvs']), 'ncrvs': len(sel['crvs']),
            'nconds': len(o['conds']) if o.get('ok') else -1,
            'result': 'harness_error' if 'harness_error' in o else ('ok' if o.get('ok') else 'rejected'),
            'jff': o.get('jff_ok')}


def matches_finding(f, case, o, v):
    return False
