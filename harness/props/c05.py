"""C05 — multivariate information measures equal their entropy-combination definitions."""
import math
from fractions import Fraction

from .. import lib
from .. import distgen as G

MODE = 'goals'
COQ_IMPORTS = ['Check', 'C05_Model']
SHARD = 8
RULE = ('random structured linear joint distributions of 2-4 variables (2-5 in thorough) x ~6 queries each over {co-information, interaction '
        'information, total correlation, dual total correlation, residual entropy, CAEKL, O-information, TSE complexity, cohesion(k)} with '
        'arbitrary groupings (overlapping / repeated variables where dit accepts them, duplicated variables inside a group where it must reject), '
        'conditioning sets, by index or name. Each value is one interval-arithmetic goal |model - dit| <= 1e-9 (CAEKL: one lower-bound goal per '
        'partition plus an upper-bound goal at the hinted minimiser). Sign goals: I(X:Y|Z), T, B, J >= -1e-9 on disjoint groups. '
        'Non-trivial: support >= 2 and >= 2 groups; distinct by canonical JSON.')
TRUSTED = ['Coq 8.16.1 kernel incl. vm_compute; Coq-Interval 4.6.1 + Flocq', 'Python driver: rank encoding, exact float->Q; the CAEKL minimiser index is an untrusted hint',
           'models Measures.v / C05_Model.v hand-written; tie = per-query interval-checked correspondence']
ASSUMPTIONS = ['float rounding of dit within 1e-9 absolute', 'stdlib Reals axioms']
CODES = {'corr': 'k = index+1 of the first goal that is provably false (see goal_labels); 90 = non-finite value / source changed', 'prop': 'same (the predicate is the definition)'}
TOL = Fraction(1, 10 ** 9)
KINDS = ['dyadic', 'dyadic', 'kn', 'decimal', 'random', 'neardeg']
MEASURES = ['coinfo', 'interaction', 'tc', 'dtc', 'resid', 'oinfo', 'tse', 'cohesion', 'caekl']
CTOR = {'coinfo': 'MCoinfo', 'interaction': 'MInteraction', 'tc': 'MTotalCorr', 'dtc': 'MDualTotalCorr', 'resid': 'MResidual',
        'oinfo': 'MOInfo', 'tse': 'MTSE'}


def gen_groups(rng, n, style=None):
    style = style or rng.choice(['singletons', 'partition', 'partition', 'overlap', 'dupinside', 'subset'])
    if style == 'singletons':
        vs = rng.sample(range(n), rng.randint(2, n)) if n >= 2 else [0]
        return [[v] for v in vs]
    if style == 'partition' or style == 'subset':
        vs = list(range(n))
        rng.shuffle(vs)
        if style == 'subset' and n > 2:
            vs = vs[:rng.randint(2, n)]
        k = rng.randint(2, min(len(vs), 4)) if len(vs) >= 2 else 1
        gs = [[] for _ in range(k)]
        for i, v in enumerate(vs):
            gs[i % k if i < k else rng.randrange(k)].append(v)
        return [g for g in gs if g]
    if style == 'overlap':
        k = rng.randint(2, 3)
        return [rng.sample(range(n), rng.randint(1, n)) for _ in range(k)]
    # a duplicated variable inside one group: rejected by the measures that take H of a single group
    gs = gen_groups(rng, n, 'partition')
    gs[0] = gs[0] + [gs[0][0]]
    return gs


def gen_queries(rng, spec, nq):
    n = spec['n']
    qs = []
    for _ in range(nq):
        m = rng.choice(MEASURES)
        gs = gen_groups(rng, n)
        used = set(v for g in gs for v in g)
        rest = [v for v in range(n) if v not in used]
        cr = rng.sample(rest, rng.randint(0, len(rest))) if rng.random() < 0.7 else rng.sample(range(n), rng.randint(0, n))
        q = {'m': m, 'gs': gs, 'cr': cr, 'byname': spec['names'] is not None and rng.random() < 0.4}
        if rng.random() < 0.25 and n >= 2:
            # the documented default grouping: rvs=None means every variable on its own (conditioning given by indices)
            q['gs'] = gs = [[i] for i in range(n)]
            q['cr'] = rng.sample(range(n), rng.randint(0, n - 1))
            q['rvs_none'] = True
            q['byname'] = False
        if m == 'cohesion':
            q['k'] = rng.randint(1, len(gs))
        if m == 'caekl' and len(set(map(tuple, gs))) < 2:
            q['m'] = 'tc'
        qs.append(q)
    return qs


def generate(rng, tier):
    n, nq, nmax = (100, 6, 4) if tier == 'quick' else (1000, 8, 5)
    cases = []
    for _ in range(n):
        spec = G.gen_spec(rng, nmin=2, nmax=nmax, amax=3 if nmax == 4 else 2, allow_log=False, prob_kinds=KINDS, max_ss=81)
        cases.append({'spec': spec, 'queries': gen_queries(rng, spec, nq)})
    if tier == 'thorough':
        # all groupings into singletons/pairs for n = 3
        import itertools
        for _ in range(4):
            spec = G.gen_spec(rng, nmin=3, nmax=3, allow_log=False, prob_kinds=KINDS)
            subs = [list(s) for r in range(1, 3) for s in itertools.combinations(range(3), r)]
            qs = []
            for g1 in subs:
                for g2 in subs:
                    for m in ('coinfo', 'tc', 'dtc', 'caekl'):
                        if m == 'caekl' and g1 == g2:
                            continue
                        qs.append({'m': m, 'gs': [g1, g2], 'cr': [v for v in range(3) if v not in g1 + g2], 'byname': False})
            for i in range(0, len(qs), 12):
                cases.append({'spec': spec, 'queries': qs[i:i + 12]})
    return cases


def set_partitions(l):
    """same enumeration order as Measures.set_partitions"""
    if not l:
        return [[]]
    x, t = l[0], l[1:]
    out = []
    for p in set_partitions(t):
        out.append([[x]] + p)
        out.extend(insert_everywhere(x, p))
    return out


def insert_everywhere(x, p):
    if not p:
        return []
    b, r = p[0], p[1:]
    return [[[x] + b] + r] + [[b] + q for q in insert_everywhere(x, r)]


def gdedup(gs):
    out = []
    for i, g in enumerate(gs):
        if g in gs[i + 1:]:
            continue
        out.append(g)
    return out


def observe(case):
    import dit
    from dit.exceptions import ditException
    import dit.multivariate as mv
    spec = case['spec']
    d = G.make_dist(spec)
    before = G.snapshot(d)
    term = G.model_dist_term(spec, d)
    fns = {'coinfo': mv.coinformation, 'interaction': mv.interaction_information, 'tc': mv.total_correlation,
           'dtc': mv.dual_total_correlation, 'resid': mv.residual_entropy, 'oinfo': mv.o_information,
           'tse': mv.tse_complexity, 'caekl': mv.caekl_mutual_information}
    res = []
    for q in case['queries']:
        mode = 'names' if q['byname'] else 'indices'

        def py(s):
            return [spec['names'][i] for i in s] if q['byname'] else list(s)
        gs = [py(g) for g in q['gs']]
        if q.get('rvs_none'):
            gs = None
        cr = py(q['cr'])
        r = {'raised': False, 'v': 0.0}
        try:
            if q['m'] == 'cohesion':
                r['v'] = float(mv.cohesion(d, q['k'], gs, cr, rv_mode=mode))
            else:
                r['v'] = float(fns[q['m']](d, gs, cr, rv_mode=mode))
            if q['m'] == 'caekl':
                # untrusted hint: which partition attains the minimum
                parts = [p for p in set_partitions(gdedup([list(g) for g in q['gs']])) if len(p) > 1]
                H = mv.entropy(d, gs, cr, rv_mode=mode)
                vals = []
                for p in parts:
                    a = sum(mv.entropy(d, [py(g) for g in blk], cr, rv_mode=mode) for blk in p)
                    vals.append((a - H) / (len(p) - 1))
                r['ncand'] = len(parts)
                r['hint'] = min(range(len(vals)), key=lambda i: vals[i])
        except ditException as e:
            if type(e) is not ditException:
                raise
            r = {'raised': True, 'v': 0.0}
        res.append(r)
    return {'dist_term': term, 'results': res, 'src_same': G.snapshot(d) == before}


_counter = [0]


def to_coq(case, o):
    spec = case['spec']
    _counter[0] += 1
    name = 'd_%d' % _counter[0]
    ids = [G.name_id(x) for x in spec['names']] if spec['names'] else None
    item = {'defs': 'Definition %s : Dist.dist := %s.' % (name, o['dist_term']), 'goals': [], 'labels': []}
    if not o['src_same']:
        item['pyviolation'] = 'source distribution changed'
    for q, r in zip(case['queries'], o['results']):
        def tr(s):
            return lib.natlist([ids[i] for i in s] if q['byname'] else s)
        gs = '[%s]' % ';'.join(tr(g) for g in q['gs'])
        cr = tr(q['cr'])
        bn = lib.boolc(q['byname'])
        if not r['raised'] and not math.isfinite(r['v']):
            item['pyviolation'] = 'non-finite value %r for %s' % (r['v'], q)
            continue
        obs = lib.qf(r['v'])
        tol = lib.qz(TOL)
        if q['m'] == 'caekl':
            if r['raised']:
                args = '(stage (c05_model %s %s (MCaekl 0) %s %s)) true 0 %s' % (name, bn, gs, cr, tol)
                item['goals'].append(('okgoal ' + args, 'fargoal ' + args))
                item['labels'].append('caekl rejected %s' % q)
                continue
            for i in range(r['ncand']):
                m = '(stage (c05_model %s %s (MCaekl %d) %s %s))' % (name, bn, i, gs, cr)
                item['goals'].append(('gegoal %s %s %s' % (m, obs, tol), 'ltgoal %s %s %s' % (m, obs, tol)))
                item['labels'].append('caekl candidate %d >= value: %s -> %r' % (i, q, r))
            m = '(stage (c05_model %s %s (MCaekl %d) %s %s))' % (name, bn, r['hint'], gs, cr)
            item['goals'].append(('legoal %s %s %s' % (m, obs, tol), 'gtgoal %s %s %s' % (m, obs, tol)))
            item['labels'].append('caekl hinted minimiser %d <= value: %s -> %r' % (r['hint'], q, r))
            continue
        ctor = '(MCohesion %d)' % q['k'] if q['m'] == 'cohesion' else CTOR[q['m']]
        args = '(stage (c05_model %s %s %s %s %s)) %s %s %s' % (name, bn, ctor, gs, cr, lib.boolc(r['raised']), obs, tol)
        item['goals'].append(('okgoal ' + args, 'fargoal ' + args))
        item['labels'].append('%s -> %r' % (q, r))
    return item


def nontrivial(case, o):
    return sum(1 for p in case['spec']['pmf'] if p > 0) >= 2


def describe(case, o):
    spec = case['spec']
    return {'nvars': spec['n'], 'sparse': spec['sparse'], 'named': spec['names'] is not None,
            'support': min(sum(1 for p in spec['pmf'] if p > 0), 9),
            'measures': ','.join(sorted(set(q['m'] for q in case['queries'])))[:60]}


def matches_finding(f, case, o, v):
    return False
