"""C04 — entropies and mutual information equal their definitions on every (linear) distribution."""
import math
from fractions import Fraction

from .. import lib
from .. import distgen as G

MODE = 'goals'
COQ_IMPORTS = ['Check', 'C04_Model']
SHARD = 12
RULE = ('random structured linear joint distributions of 1-4 variables (zeros stored or not, deterministic, uniform, near-degenerate, '
        'sub-tolerance probabilities, named or not, sparse/dense/untrimmed) x ~8 queries each: Shannon entropy / conditional entropy / mutual '
        'information of arbitrary subsets incl. empty and overlapping ones (by index or name, invalid selections), multivariate.entropy with '
        'groups and conditioning, Renyi and Tsallis of orders {0, 1/2, 1, 2, 5/2, inf}, extropy, perplexity. Each query is one kernel-checked '
        'interval-arithmetic goal |model - dit| <= 1e-9. Non-trivial: support >= 2; distinct by canonical JSON.')
TRUSTED = ['Coq 8.16.1 kernel incl. vm_compute; Coq-Interval 4.6.1 + Flocq (reflexive interval arithmetic) to bound ln / Rpower',
           'Python driver: rank encoding, exact float->Q', 'model C04_Model.v / Measures.v hand-written; tie = per-query interval-checked correspondence']
ASSUMPTIONS = ['float rounding of dit within 1e-9 absolute', 'stdlib Reals axioms (classical reals) underlie every real-valued theorem and goal']
CODES = {'corr': 'k = index+1 of the first query whose value is provably different from the model (see goal_labels); 90 = non-finite value or unexpected exception',
         'prop': 'same: the property predicate is the definition itself'}
TOL = Fraction(1, 10 ** 9)
KINDS = ['dyadic', 'dyadic', 'kn', 'decimal', 'random', 'neardeg', 'tiny']


def subset(rng, n, allow_empty=True):
    k = rng.randint(0 if allow_empty else 1, n)
    s = rng.sample(range(n), k)
    if rng.random() < 0.6:
        s.sort()
    return s


def gen_queries(rng, spec, nq):
    n = spec['n']
    qs = []
    kinds = ['entropy', 'cond', 'mi', 'mv', 'renyi', 'renyi', 'tsallis', 'extropy', 'perplexity']
    for _ in range(nq):
        k = rng.choice(kinds)
        byname = spec['names'] is not None and rng.random() < 0.4
        bad = rng.random() < 0.05
        if k == 'entropy':
            X = subset(rng, n)
            if bad:
                X = X + [n + 1]
            q = {'k': k, 'X': X}
        elif k in ('cond', 'mi'):
            q = {'k': k, 'X': subset(rng, n), 'Y': subset(rng, n)}
            if bad and q['X']:
                q['X'] = q['X'] + [q['X'][0]]
        elif k == 'mv':
            ng = rng.randint(1, 3)
            gs = [subset(rng, n, allow_empty=False) for _ in range(ng)]
            q = {'k': k, 'gs': gs, 'cr': subset(rng, n)}
        elif k == 'renyi':
            q = {'k': k, 'order': rng.choice(['0', '1/2', '1', '2', '5/2', 'inf', '3', '1/10']),
                 'X': None if rng.random() < 0.5 else subset(rng, n, allow_empty=True)}
        elif k == 'tsallis':
            q = {'k': k, 'order': rng.choice(['0', '1/2', '1', '2', '5/2', '3']),
                 'X': None if rng.random() < 0.5 else subset(rng, n, allow_empty=True)}
        elif k == 'extropy':
            q = {'k': k, 'X': None if rng.random() < 0.5 else subset(rng, n, allow_empty=True)}
        else:
            q = {'k': k, 'X': None if rng.random() < 0.4 else subset(rng, n, allow_empty=False), 'cr': subset(rng, n) if rng.random() < 0.6 else []}
        if k == 'perplexity' and q['X'] is None and q['cr']:
            byname = False      # with rvs=None dit reads crvs as indices whatever rv_mode says (normalize_rvs convention)
        q['byname'] = byname
        qs.append(q)
    return qs


def generate(rng, tier):
    n, nq = (120, 8) if tier == 'quick' else (1200, 10)
    cases = []
    # directed: the empty subset of variables (a constant: every entropy of it is 0), every order, indices and names
    for _ in range(3):
        spec = G.gen_spec(rng, nmin=2, nmax=3, allow_log=False, prob_kinds=KINDS)
        qs = [{'k': 'renyi', 'order': o, 'X': [], 'byname': False} for o in ('0', '1/2', '1', '2', 'inf')]
        qs += [{'k': 'tsallis', 'order': o, 'X': [], 'byname': False} for o in ('0', '1/2', '1', '2')]
        qs += [{'k': 'extropy', 'X': [], 'byname': False}, {'k': 'entropy', 'X': [], 'byname': False}]
        if spec['names'] is not None:
            qs += [{'k': 'renyi', 'order': '2', 'X': [], 'byname': True}, {'k': 'tsallis', 'order': '2', 'X': [], 'byname': True}]
        cases.append({'spec': spec, 'queries': qs})
    for _ in range(n):
        spec = G.gen_spec(rng, nmin=1, nmax=3 if tier == 'quick' else 4, allow_log=False, prob_kinds=KINDS)
        cases.append({'spec': spec, 'queries': gen_queries(rng, spec, nq)})
    if tier == 'thorough':
        import itertools
        for _ in range(6):
            spec = G.gen_spec(rng, nmin=3, nmax=3, allow_log=False, prob_kinds=KINDS)
            subs = [list(s) for r in range(0, 4) for s in itertools.combinations(range(3), r)]
            qs = []
            for X in subs:
                for Y in subs:
                    qs.append({'k': 'cond', 'X': X, 'Y': Y, 'byname': False})
                    qs.append({'k': 'mi', 'X': X, 'Y': Y, 'byname': False})
            for i in range(0, len(qs), 16):
                cases.append({'spec': spec, 'queries': qs[i:i + 16]})
    return cases


def order_val(s):
    import numpy as np
    return np.inf if s == 'inf' else float(Fraction(s))


def observe(case):
    import dit
    import numpy as np
    from dit.exceptions import ditException
    from dit.other import renyi_entropy, tsallis_entropy, extropy, perplexity
    from dit.shannon import entropy as sh_entropy, conditional_entropy, mutual_information
    from dit.multivariate import entropy as mv_entropy
    spec = case['spec']
    d = G.make_dist(spec)
    before = G.snapshot(d)
    term = G.model_dist_term(spec, d)
    res = []
    for q in case['queries']:
        mode = 'names' if q['byname'] else 'indices'

        def py(s):
            if s is None:
                return None
            return [spec['names'][i] if i < spec['n'] else 'Q%d' % i for i in s] if q['byname'] else list(s)
        try:
            k = q['k']
            if k == 'entropy':
                v = sh_entropy(d, py(q['X']), rv_mode=mode)
            elif k == 'cond':
                v = conditional_entropy(d, py(q['X']), py(q['Y']), rv_mode=mode)
            elif k == 'mi':
                v = mutual_information(d, py(q['X']), py(q['Y']), rv_mode=mode)
            elif k == 'mv':
                v = mv_entropy(d, [py(g) for g in q['gs']], py(q['cr']), rv_mode=mode)
            elif k == 'renyi':
                v = renyi_entropy(d, order_val(q['order']), py(q['X']), rv_mode=mode)
            elif k == 'tsallis':
                v = tsallis_entropy(d, order_val(q['order']), py(q['X']), rv_mode=mode)
            elif k == 'extropy':
                v = extropy(d, py(q['X']), rv_mode=mode)
            elif k == 'perplexity':
                v = perplexity(d, py(q['X']), py(q['cr']), rv_mode=mode)
            res.append({'raised': False, 'v': float(v)})
        except ditException as e:
            if type(e) is not ditException:
                raise
            res.append({'raised': True, 'v': 0.0})
    return {'dist_term': term, 'results': res, 'src_same': G.snapshot(d) == before}


def qterm(spec, q):
    ids = [G.name_id(x) for x in spec['names']] if spec['names'] else None

    def tr(s):
        return lib.natlist([(ids[i] if i < spec['n'] else 50 + i) for i in s] if q['byname'] else s)

    def opt(s):
        return 'None' if s is None else '(Some %s)' % tr(s)
    k = q['k']
    if k == 'entropy':
        return '(QEntropy %s)' % tr(q['X'])
    if k == 'cond':
        return '(QCondEntropy %s %s)' % (tr(q['X']), tr(q['Y']))
    if k == 'mi':
        return '(QMutualInfo %s %s)' % (tr(q['X']), tr(q['Y']))
    if k == 'mv':
        return '(QMvEntropy [%s] %s)' % (';'.join(tr(g) for g in q['gs']), tr(q['cr']))
    if k == 'renyi':
        o = 'OInf' if q['order'] == 'inf' else '(OFin %s)' % lib.qz(Fraction(q['order']))
        return '(QRenyi %s %s)' % (o, opt(q['X']))
    if k == 'tsallis':
        return '(QTsallis %s %s)' % (lib.qz(Fraction(q['order'])), opt(q['X']))
    if k == 'extropy':
        return '(QExtropy %s)' % opt(q['X'])
    if k == 'perplexity':
        return '(QPerplexity %s %s)' % (opt(q['X']), tr(q['cr']))
    raise ValueError(k)


_counter = [0]


def to_coq(case, o):
    spec = case['spec']
    _counter[0] += 1
    name = 'd_%d' % _counter[0]
    item = {'defs': 'Definition %s : Dist.dist := %s.' % (name, o['dist_term']), 'goals': [], 'labels': []}
    if not o['src_same']:
        item['pyviolation'] = 'source distribution changed'
    for q, r in zip(case['queries'], o['results']):
        if not r['raised'] and not math.isfinite(r['v']):
            item['pyviolation'] = 'non-finite value %r for %s' % (r['v'], q)
            continue
        args = '(stage (c04_model %s %s %s)) %s %s %s' % (name, lib.boolc(q['byname']), qterm(spec, q), lib.boolc(r['raised']),
                                                         lib.qf(r['v']), lib.qz(TOL))
        item['goals'].append(('okgoal ' + args, 'fargoal ' + args))
        item['labels'].append('%s -> %r' % (q, r))
    return item


def nontrivial(case, o):
    return sum(1 for p in case['spec']['pmf'] if p > 0) >= 2


def describe(case, o):
    spec = case['spec']
    d = {'nvars': spec['n'], 'sparse': spec['sparse'], 'trim': spec['trim'], 'named': spec['names'] is not None,
         'support': min(sum(1 for p in spec['pmf'] if p > 0), 9), 'stored_zeros': any(p == 0 for p in spec['pmf'])}
    return d


def matches_finding(f, case, o, v):
    return False
