"""C12 — sampling is exact inverse-CDF selection in stored outcome order."""
import math
from fractions import Fraction

import numpy as np

from .. import lib
from .. import distgen as G

COQ_IMPORTS = ['C12_Model', 'C12_Gen']
VERDICT = 'verdict_gen'
# when the refinement proof about the translated source no longer checks, the hand-written model alone still runs
FALLBACK = {'targets': ['Model/C12_Model'], 'imports': ['C12_Model'], 'verdict': 'verdict'}
SHARD = 100
PREAMBLE = 'From Coq Require Import PrimFloat.\n'
RULE = ('scalar and joint distributions (dyadic float-exact, [1/n]*n decimal, random, near-degenerate pmfs; stored zeros incl. leading and '
        'trailing; linear and five log bases) x explicit random numbers: 0.0, every float cumulative sum and its two neighbouring floats, '
        'nextafter(1,0), nextafter(nextafter(1,0),0), random interior points; plus draws with RandomState(seed) (the uniforms are recomputed '
        'by the driver and fed to the mirror), repeated with an equal state, size=None vs size=1, and copy vs source. '
        'Non-trivial: >= 2 positive probabilities; distinct by canonical JSON.')
TRUSTED = ['Coq 8.16.1 kernel incl. vm_compute on primitive floats (PrimFloat: binary64, round-to-nearest-even, the same arithmetic as CPython/NumPy)',
           'Python driver: float.hex() literals, exact float->Q conversion; NumPy RandomState as the oracle for the generator stream',
           'model C12_Model.v is hand-written; tie = bit-exact correspondence',
           'tools/py2coq.py (translator of dit/math/sampling.py: _sample_discrete__python, _last_positive, _samples_discrete__python into Core/PyLang.v terms, regenerated on every run) and the interpreter of Core/PyLang.v as the meaning of that Python fragment; the refinement theorems C12_source_* tie the translated source to the hand-written model for all inputs']
ASSUMPTIONS = ['the PrimFloat instance of the scan is executed, not proved, to satisfy the ordered-structure hypotheses of the Q theorems']
CODES = {'corr': '1 returned indices differ from the binary64 mirror of the scan; 2 repeatability / size=None / copy checks failed; 3 returned indices differ from the translated source (Gen/Sampling_Gen.v) interpreted over binary64; 4 the translated source does not return an array',
         'prop': '20 a returned outcome has zero probability or its cumulative interval (widened by eps) does not contain u; 21 repeatability / copy'}


def gen_case(rng):
    joint = rng.random() < 0.4
    n = rng.randint(1, 8)
    kind = rng.choice(['dyadic', 'dyadic', 'equal', 'random', 'neardeg', 'decimal'])
    if kind == 'equal':
        n = rng.choice([3, 5, 6, 7, 10, 12])
        ps = [1.0 / n] * n if rng.random() < 0.5 else [round(1.0 / n, 6)] * n
        if n == 10:
            ps = [0.1] * 10
    else:
        ps = G.gen_probs(rng, n, kind)
    # stored zeros
    zpos = []
    if rng.random() < 0.5:
        for _ in range(rng.randint(1, 2)):
            pos = rng.choice([0, len(ps), rng.randint(0, len(ps))])
            ps.insert(pos, 0.0)
    base = rng.choice(G.BASES) if rng.random() < 0.35 else 'linear'
    return {'joint': joint, 'ps': ps, 'base': base, 'kind': kind, 'seed': rng.randint(0, 2 ** 31 - 1),
            'extra_u': [rng.random() for _ in range(4)], 'ngen': rng.randint(1, 6)}


def generate(rng, tier):
    n = 200 if tier == 'quick' else 2000
    cases = [gen_case(rng) for _ in range(n)]
    # the known fall-through input first
    cases.insert(0, {'joint': False, 'ps': [0.1] * 10, 'base': 'linear', 'kind': 'equal', 'seed': 1, 'extra_u': [], 'ngen': 2})
    if tier == 'thorough':
        import itertools
        # all dyadic pmfs on <= 4 outcomes with denominator 8 (zeros allowed)
        for k in range(1, 5):
            for parts in itertools.product(range(0, 9), repeat=k):
                if sum(parts) == 8:
                    cases.append({'joint': False, 'ps': [p / 8 for p in parts], 'base': 'linear', 'kind': 'dyadic8',
                                  'seed': 7, 'extra_u': [], 'ngen': 1})
    return cases


def observe(case):
    import dit
    import dit.math
    ps = case['ps']
    n = len(ps)
    if case['joint']:
        outs = [('%d%d' % (i // 3, i % 3)) for i in range(n)]
        d = dit.Distribution(outs, ps, sparse=False, trim=False, sample_space=outs, base='linear')
    else:
        d = dit.ScalarDistribution(list(range(n)), ps, sparse=False, trim=False, base='linear')
    if case['base'] != 'linear':
        d.set_base(case['base'])
    stored = list(d.outcomes)
    assert len(stored) == n
    pm = d.ops.exp(d.pmf) if d.is_log() else d.pmf
    pm = [float(x) for x in pm]
    # random numbers: float cumulative sums (sequential, like the scan) and their neighbours
    us = [0.0]
    tot = 0.0
    for p in pm:
        tot += p
        for u in (np.nextafter(tot, 0), tot, np.nextafter(tot, 2)):
            if 0 <= u < 1:
                us.append(float(u))
    us.append(float(np.nextafter(1, 0)))
    us.append(float(np.nextafter(np.nextafter(1, 0), 0)))
    us.extend(case['extra_u'])
    got = d.rand(size=len(us), rand=np.array(us))
    idx = [stored.index(o) for o in got]
    aux = True
    # size=None agrees with size=1
    for u in us[:6]:
        aux = aux and (d.rand(rand=u) == d.rand(size=1, rand=np.array([u]))[0])
    # generator draws: the uniforms are what an equal RandomState yields next
    k = case['ngen']
    g1 = d.rand(size=k, prng=np.random.RandomState(case['seed']))
    g2 = d.rand(size=k, prng=np.random.RandomState(case['seed']))
    aux = aux and list(g1) == list(g2)
    ug = [float(x) for x in np.random.RandomState(case['seed']).rand(k)]
    us_all = us + ug
    idx_all = idx + [stored.index(o) for o in g1]
    # a copy reproduces its source's future draws; drawing from one does not disturb the other
    d.prng = np.random.RandomState(case['seed'] + 1)
    c = d.copy()
    a = d.rand(size=5)
    b = c.rand(size=5)
    aux = aux and list(a) == list(b)
    a2 = d.rand(size=3)
    b2 = c.rand(size=3)
    aux = aux and list(a2) == list(b2)
    # independent linearisation for the exact-rational predicate
    if case['base'] == 'linear':
        qp = [float(x) for x in d.pmf]
    else:
        b_ = G.base_num(case['base'])
        qp = [0.0 if math.isinf(x) else float(b_) ** float(x) for x in d.pmf]
    exact = case['base'] == 'linear' and all(Fraction(p).denominator <= 1024 for p in qp)
    return {'pm': pm, 'us': us_all, 'idx': idx_all, 'qp': qp, 'exact': exact, 'aux': bool(aux)}


def flt(x):
    return '(%s)%%float' % float(x).hex() if x != 0 else '0%float'


def to_coq(case, o):
    return '(mkC12 [%s] [%s] %s %s %s %s %s)' % (
        ';'.join(flt(x) for x in o['pm']), ';'.join(flt(x) for x in o['us']), lib.natlist(o['idx']),
        lib.qlist(o['qp']), lib.qlist(o['us']), lib.boolc(o['exact']), lib.boolc(o['aux']))


def nontrivial(case, o):
    return sum(1 for p in case['ps'] if p > 0) >= 2


def describe(case, o):
    return {'joint': case['joint'], 'base': case['base'], 'kind': case['kind'], 'n': len(case['ps']),
            'zeros': sum(1 for p in case['ps'] if p == 0), 'exact': o.get('exact')}


def matches_finding(f, case, o, v):
    return False
