"""C17 — partial information decompositions consistently split I(sources:target)."""
import itertools
import math
from fractions import Fraction

from .. import lib
from .. import distgen as G

MODE = 'goals'
COQ_IMPORTS = ['Check', 'C17_Model']
SHARD = 4
CASE_TIMEOUT = 420
RULE = ('random and structured (gates, sparse supports) distributions over 2 or 3 single-variable sources and a target; for every implemented PID class '
        '(PID_Prec, PID_RA, PID_dep need packages absent from the sandbox; PID_GH and PID_RAV only with 2 sources: they take minutes with 3): the lattice is the '
        'set of antichains, Moebius identity at every node, self-redundancy and top = I(all:target) for the measures defined on every antichain, truthfulness of '
        'the complete / consistent / nonnegative flags, atoms summing to I(all:target) when complete and consistent, permuting the sources permutes the values; '
        'closed forms of I_min (per-target-value minimiser certificate), I_mmi (min certificate) and I_wedge as interval goals; I_min / I_mmi atoms >= -1e-6. '
        'Non-trivial: support >= 2.')
TRUSTED = ['Coq 8.16.1 kernel incl. vm_compute; Coq-Interval', 'the stand-in for the absent `lattices` package (pystubs/lattices): free_distributive_lattice and the Lattice methods dit calls',
           'Python driver: node translation (variable tuples -> source positions); minimiser hints are untrusted (every alternative is bounded in Coq)',
           'model C17_Model.v hand-written']
ASSUMPTIONS = ['float rounding within 1e-9 for closed forms; flag thresholds (1e-5 isclose, round(pi,4)) are three-valued in a band around dit\'s tolerance',
               'non-negativity of I_min atoms for 3 sources is checked per instance (Williams-Beer proof not reproduced)']
CODES = {'corr': 'k = index+1 of first false goal (see goal_labels); 90 = python-side violation', 'prop': 'same'}
TOL = Fraction(1, 10 ** 9)
ALWAYS = ['PID_WB', 'PID_MMI', 'PID_GK', 'PID_CCS', 'PID_PM', 'PID_RAV', 'PID_RDR', 'PID_GH']
INCOMPLETE = ['PID_BROJA', 'PID_CT', 'PID_IG', 'PID_MES', 'PID_Proj', 'PID_RR', 'PID_SKAR_owb']
SLOW3 = {'PID_GH', 'PID_RAV', 'PID_CCS', 'PID_MES', 'PID_SKAR_owb'}
KINDS = ['dyadic', 'kn', 'uniform', 'random']


FAST3 = ['PID_WB', 'PID_MMI', 'PID_GK', 'PID_PM', 'PID_RDR', 'PID_CCS', 'PID_MES', 'PID_Proj', 'PID_RR']


def gen_dist(rng, k, binary=False, gate=None):
    n = k + 1
    sizes = [2] * n if (binary or gate or rng.random() < 0.7) else [rng.randint(2, 3) for _ in range(n)]
    pattern = gate or rng.choice(['xor', 'and', 'copy', 'random', 'random', 'full', 'unq', 'dup'] + ([] if binary else ['cat']))
    if pattern == 'cat':
        sizes[-1] = 2 ** k
    alph = [list(range(s)) for s in sizes]
    full = [list(o) for o in itertools.product(*alph)]
    if pattern == 'xor':
        sup = [o for o in full if o[-1] == sum(o[:-1]) % sizes[-1]]
    elif pattern == 'and':
        sup = [o for o in full if o[-1] == (1 if all(v >= 1 for v in o[:-1]) else 0)]
    elif pattern == 'copy':
        sup = [o for o in full if o[-1] == o[0] % sizes[-1]]
    elif pattern == 'unq' and k == 2:
        sup = [o for o in full if o[-1] == (o[0] + 2 * o[1]) % sizes[-1]]
    elif pattern == 'cat':
        # the target is the concatenation of the (binary) sources
        sup = [o for o in full if o[-1] == sum((o[i] % 2) * 2 ** i for i in range(k)) and all(v < 2 for v in o[:-1])]
    elif pattern == 'dup':
        # two sources are copies of each other (a non-trivial Gacs-Korner meet)
        a, b = rng.sample(range(k), 2)
        sup = [o for o in full if o[a] == o[b]]
        if rng.random() < 0.5:
            sup = [o for o in sup if o[-1] == o[a] % sizes[-1]] or sup
    elif pattern == 'random':
        sup = rng.sample(full, rng.randint(2, len(full)))
    elif pattern == 'chain' and k == 2:
        # a noisy Markov chain X_a -> X_b -> T: only one source has a direct link to the target
        a, b = rng.sample([0, 1], 2)
        e1, e2, px = rng.choice([0.1, 0.2, 0.3]), rng.choice([0.05, 0.15, 0.25]), rng.choice([0.5, 0.3, 0.6])
        ps = []
        for o in full:
            pa = px if o[a] == 1 else 1 - px
            pb = (1 - e1) if o[b] == o[a] else e1
            pt = (1 - e2) if o[-1] == o[b] else e2
            ps.append(pa * pb * pt)
        tot = sum(ps)
        return {'k': k, 'outs': full, 'ps': [v / tot for v in ps], 'pattern': 'chain', 'klass': rng.choice(['str', 'int']), 'dense': False}
    else:
        sup = full
    if len(sup) < 2:
        sup = full
    kind = rng.choice(KINDS)
    if kind == 'uniform' or gate:
        ps = [1.0 / len(sup)] * len(sup)
    elif kind == 'random':
        ws = [rng.random() + 0.05 for _ in sup]
        ps = [w / sum(ws) for w in ws]
    else:
        ws = [rng.choice([1, 2, 3, 4]) for _ in sup]
        ps = [w / sum(ws) for w in ws]
    # representation: sparse (support only) or dense (every combination stored, zeros explicit)
    return {'k': k, 'outs': sup, 'ps': ps, 'pattern': pattern, 'klass': rng.choice(['str', 'int']), 'dense': rng.choice([False, False, False, False, True, True, 'big'])}


def generate(rng, tier):
    n = 44 if tier == 'quick' else 400
    cases = []
    classes = ALWAYS + INCOMPLETE
    for i in range(n):
        cls = classes[i % len(classes)] if i % 3 else FAST3[(i // 3) % len(FAST3)]
        if cls in FAST3 and rng.random() < 0.6:
            k = 3
            gate = rng.choice([None, None, 'cat', 'xor', 'and', 'dup']) if cls in ('PID_MES', 'PID_RR', 'PID_Proj', 'PID_GK', 'PID_CCS') else None
            # I_wedge enumerates the sigma-algebra of the support (2^atoms): binary alphabets only
            d = gen_dist(rng, 3, binary=(cls in ('PID_CCS', 'PID_MES', 'PID_GK')), gate=gate)
        elif cls in SLOW3 or cls in ('PID_BROJA', 'PID_CT', 'PID_IG'):
            d = gen_dist(rng, 2, binary=True)
        else:
            d = gen_dist(rng, 2)
            while cls == 'PID_GK' and len(d['outs']) > 12:
                d = gen_dist(rng, 2)
        if d.get('dense') == 'big' and cls not in ('PID_WB', 'PID_MMI', 'PID_GK', 'PID_PM', 'PID_RDR'):
            d['dense'] = True          # enlarged alphabets blow up the optimiser-based measures
        cases.append({'d': d, 'cls': cls, 'perm': rng.random() < 0.6, 'explicit': rng.random() < 0.5})
    # Markov chains source -> source -> target, in both source orders, for the measures built on paths / projections
    for i in range(4 if tier == 'quick' else 30):
        cases.append({'d': gen_dist(rng, 2, gate='chain'), 'cls': ['PID_CT', 'PID_Proj', 'PID_CT', 'PID_IG'][i % 4], 'perm': True, 'explicit': True})
    # incomplete decompositions of three sources whose Moebius identity can hold at the top and fail below it
    for i in range(4 if tier == 'quick' else 30):
        if i % 2 == 0:
            cases.append({'d': gen_dist(rng, 3, binary=True, gate='cat'), 'cls': 'PID_MES', 'perm': False, 'explicit': False})
        else:
            d = gen_dist(rng, 3, binary=True, gate=None)
            cases.append({'d': d, 'cls': 'PID_RR', 'perm': False, 'explicit': False})
    # Gacs-Korner meets of three sources in which only some pair shares information
    for i in range(4 if tier == 'quick' else 30):
        cases.append({'d': gen_dist(rng, 3, gate='dup'), 'cls': 'PID_GK', 'perm': True, 'explicit': i % 2 == 0})
    return cases


def mk(d, perm=None):
    import dit
    outs = d['outs']
    if perm is not None:
        k = d['k']
        outs = [[o[perm[i]] for i in range(k)] + [o[-1]] for o in outs]
    if d['klass'] == 'str':
        x = dit.Distribution([''.join(map(str, o)) for o in outs], list(d['ps']))
    else:
        x = dit.Distribution([tuple(o) for o in outs], list(d['ps']))
    x = densify(x, d)
    return x


def densify(x, d):
    """dense representations: every combination stored; 'big' also enlarges every alphabet by a symbol that never occurs"""
    import dit
    from dit.samplespace import CartesianProduct
    import itertools
    if d.get('dense') == 'big':
        extra = '9' if d['klass'] == 'str' else 9
        alphs = [list(a) + [extra] for a in x.alphabet]
        kw = {} if d['klass'] == 'str' else {'product': itertools.product}
        x = dit.Distribution(list(x.outcomes), list(x.pmf), sample_space=CartesianProduct(alphs, **kw))
        x.make_dense()
    elif d.get('dense'):
        x.make_dense()
    return x


def mk_raw(d):
    import dit
    if d['klass'] == 'str':
        x = dit.Distribution([''.join(map(str, o)) for o in d['outs']], list(d['ps']))
    else:
        x = dit.Distribution([tuple(o) for o in d['outs']], list(d['ps']))
    return densify(x, d)


def node_pos(node):
    return [sorted(int(v) for v in el) for el in node]


def pid_table(p):
    tab = []
    for node in p._lattice:
        r = p.get_red(node)
        try:
            pi = p.get_pi(node)
        except Exception:
            pi = float('nan')
        tab.append([node_pos(node), float(r), float(pi)])
    return tab


def spec(d, X, tv):
    """specific information (python floats, used for hints only)"""
    pt = sum(p for o, p in zip(d['outs'], d['ps']) if o[-1] == tv)
    pa, pat = {}, {}
    for o, p in zip(d['outs'], d['ps']):
        a = tuple(o[i] for i in X)
        pa[a] = pa.get(a, 0) + p
        if o[-1] == tv:
            pat[a] = pat.get(a, 0) + p
    return sum((v / pt) * math.log2(v / (pa[a] * pt)) for a, v in pat.items() if v > 0)


def observe(case):
    import dit
    import dit.pid as P
    from dit.multivariate import coinformation
    d0 = case['d']
    k = d0['k']
    d = mk(d0)
    before = G.snapshot(d)
    cls = getattr(P, case['cls'])
    p = cls(d)
    res = {'stored': [[list(o), pr] for o, pr in zip(d0['outs'], d0['ps'])], 'table': pid_table(p),
           'complete': bool(p.complete), 'consistent': bool(p.consistent), 'nonnegative': bool(p.nonnegative)}
    res['mis'] = []
    for r in range(1, k + 1):
        for A in itertools.combinations(range(k), r):
            res['mis'].append([[list(A)], float(coinformation(d, [list(A), [k]]))])
    res['total'] = float(coinformation(d, [list(range(k)), [k]]))
    res['src_same'] = G.snapshot(d) == before
    if case['perm'] and case['cls'] in ('PID_WB', 'PID_MMI', 'PID_PM', 'PID_RDR', 'PID_GK', 'PID_CT', 'PID_IG'):
        perm = list(range(k))
        perm = perm[1:] + perm[:1]
        p2 = cls(mk(d0, perm))
        res['perm'] = perm
        res['table_perm'] = pid_table(p2)
    if case.get('explicit') and case['cls'] in ('PID_WB', 'PID_MMI', 'PID_PM', 'PID_RDR', 'PID_GK', 'PID_CT', 'PID_IG', 'PID_Proj', 'PID_RR'):
        # sources listed in reverse order and the target named explicitly: nodes are labelled by variables, so the table is the same
        p3 = cls(mk(d0), [[i] for i in reversed(range(k))], [k])
        res['table_explicit'] = pid_table(p3)
        # the target stored first: every label moves up by one
        d4 = dict(d0)
        d4['outs'] = [[o[-1]] + list(o[:-1]) for o in d0['outs']]
        p4 = cls(mk_raw(d4), [[i + 1] for i in range(k)], [0])
        res['table_tfirst'] = [[[[v - 1 for v in A] for A in n], r, pi] for n, r, pi in pid_table(p4)]
    # hints for the closed forms
    if case['cls'] == 'PID_WB':
        hints = {}
        tvs = sorted(set(o[-1] for o in d0['outs']))
        for node, r, pi in res['table']:
            ch = []
            for tv in tvs:
                best = min(node, key=lambda A: spec(d0, A, tv))
                ch.append([tv, best])
            hints[str(node)] = ch
        res['wb_hints'] = hints
        res['tvs'] = tvs
    if case['cls'] == 'PID_MMI':
        mi = {str(m[0][0]): m[1] for m in res['mis']}
        res['mmi_hints'] = {str(node): min(node, key=lambda A: mi[str(A)]) for node, r, pi in res['table']}
    return res


def bg(e):
    return ('bgoal (stage (%s))' % e, 'nbgoal (stage (%s))' % e)


def optq(v):
    return 'None' if (v is None or math.isnan(v)) else '(Some %s)' % lib.qf(v)


def nodet(n):
    return lib.natlistlist(n)


def pobs(tab):
    return '[' + ';'.join('(%s, %s, %s)' % (nodet(n), optq(r), optq(pi)) for n, r, pi in tab) + ']'


_counter = [0]


def to_coq(case, o):
    d0 = case['d']
    k = d0['k']
    _counter[0] += 1
    nm = 'pt_%d' % _counter[0]
    t = lib.pdc([(oo, p) for oo, p in o['stored']])
    item = {'defs': 'Definition %s : pd := %s.\nDefinition %s_d : Dist.dist := mkDist (Expl (keys %s)) %s true Linear None.' % (nm, t, nm, nm, nm),
            'goals': [], 'labels': []}
    if not o['src_same']:
        item['pyviolation'] = 'the distribution changed'
    for n, r, pi in o['table']:
        if any(isinstance(v, float) and math.isinf(v) for v in (r, pi)):
            item['pyviolation'] = 'infinite lattice value'
            return item
    ob = pobs(o['table'])
    always = case['cls'] in ALWAYS
    singles = [m for m in o['mis']]
    mis = '[' + ';'.join('(%s, %s)' % (nodet(m[0]), lib.qf(m[1])) for m in singles) + ']'
    sources = lib.natlistlist([[i] for i in range(k)])
    T = lib.natlist([k])
    # dit's mutual informations are themselves tied to the model
    for m in singles:
        args = '(Some (stage (mi_data %s_d (vars_of %s %s) %s))) false %s %s' % (nm, sources, lib.natlist(m[0][0]), T, lib.qf(m[1]), lib.qz(TOL))
        item['goals'].append(('okgoal ' + args, 'fargoal ' + args))
        item['labels'].append('I(%s : target) = %r' % (m[0][0], m[1]))
    item['goals'].append(bg('lattice_ok %d%%nat %s' % (k, ob)))
    item['labels'].append('%s: nodes are the antichains' % case['cls'])
    item['goals'].append(bg('flags_ok %s %s %s %s %s %s %s' % (lib.boolc(always), ob, mis, lib.qf(o['total']), lib.boolc(o['complete']),
                                                          lib.boolc(o['consistent']), lib.boolc(o['nonnegative']))))
    item['labels'].append('%s: flags complete=%s consistent=%s nonnegative=%s truthful; atoms sum to the total' % (case['cls'], o['complete'], o['consistent'], o['nonnegative']))
    if always:
        item['goals'].append(bg('mobius_ok 1 %s && self_redundancy_ok 1 %s %s && top_ok %d%%nat %s %s' % (ob, ob, mis, k, ob, lib.qf(o['total']))))
        item['labels'].append('%s: Moebius identity, self-redundancy, top = I(all:target)' % case['cls'])
    if always or o['consistent']:
        # (an incomplete decomposition flagged inconsistent fills its atoms by other inference rules)
        item['goals'].append(bg('pi_corr_s %s %d%%nat %s' % ('(1#1)' if always else '(5#1)', k, ob)))
        item['labels'].append('%s: atoms = Moebius inversion (model pis_list) of the reported redundancies' % case['cls'])
    ident = lib.natlist(list(range(k)))
    for key, what in (('table_explicit', 'sources listed in reverse order, target explicit'), ('table_tfirst', 'target stored first, sources explicit')):
        if key in o:
            item['goals'].append(bg('perm_ok %s %s %s && perm_ok %s %s %s' % (ident, ob, pobs(o[key]), ident, pobs(o[key]), ob)))
            item['labels'].append('%s: same lattice values with %s' % (case['cls'], what))
    if 'table_perm' in o:
        item['goals'].append(bg('perm_ok %s %s %s' % (lib.natlist(o['perm']), pobs(o['table_perm']), ob)))
        item['labels'].append('%s: permuting the sources permutes the lattice values' % case['cls'])
    if case['cls'] in ('PID_WB', 'PID_MMI'):
        if any(pi < -1e-6 for n, r, pi in o['table'] if not math.isnan(pi)):
            item['pyviolation'] = 'negative atom for %s: %r' % (case['cls'], o['table'])
    if case['cls'] == 'PID_MMI':
        mi = {str(m[0][0]): m[1] for m in o['mis']}
        for n, r, pi in o['table']:
            for A in n:
                m = '(Some (stage (mi_data %s_d (vars_of %s %s) %s)))' % (nm, sources, lib.natlist(A), T)
                item['goals'].append(('gegoal %s %s %s' % (m, lib.qf(r), lib.qz(TOL)), 'ltgoal %s %s %s' % (m, lib.qf(r), lib.qz(TOL))))
                item['labels'].append('I_mmi%s <= I(%s:T)' % (n, A))
            A = o['mmi_hints'][str(n)]
            m = '(Some (stage (mi_data %s_d (vars_of %s %s) %s)))' % (nm, sources, lib.natlist(A), T)
            item['goals'].append(('legoal %s %s %s' % (m, lib.qf(r), lib.qz(TOL)), 'gtgoal %s %s %s' % (m, lib.qf(r), lib.qz(TOL))))
            item['labels'].append('I_mmi%s attained at %s' % (n, A))
    if case['cls'] == 'PID_WB':
        for n, r, pi in o['table']:
            ch = o['wb_hints'][str(n)]
            for tv, best in ch:
                for A in n:
                    if A == best:
                        continue
                    m = '(Some (stage (spec_gap %s %s %s %s %s %s)))' % (nm, sources, T, lib.natlist([tv]), lib.natlist(A), lib.natlist(best))
                    item['goals'].append(('gegoal %s 0 %s' % (m, lib.qz(TOL)), 'ltgoal %s 0 %s' % (m, lib.qz(TOL))))
                    item['labels'].append('I_min%s: at target %s the hinted set %s has the least specific information (vs %s)' % (n, tv, best, A))
            choice = '[' + ';'.join('(%s, %s)' % (lib.natlist([tv]), lib.natlist(best)) for tv, best in ch) + ']'
            args = '(Some (stage (imin_with %s %s %s %s))) false %s %s' % (nm, sources, T, choice, lib.qf(r), lib.qz(TOL))
            item['goals'].append(('okgoal ' + args, 'fargoal ' + args))
            item['labels'].append('I_min%s = %r' % (n, r))
    if case['cls'] == 'PID_GK':
        for n, r, pi in o['table']:
            args = '(Some (stage (iwedge_data %s %s %s %s))) false %s %s' % (nm, sources, T, nodet(n), lib.qf(r), lib.qz(TOL))
            item['goals'].append(('okgoal ' + args, 'fargoal ' + args))
            item['labels'].append('I_wedge%s = %r' % (n, r))
    return item


def nontrivial(case, o):
    return len(case['d']['outs']) >= 2


def describe(case, o):
    return {'cls': case['cls'], 'k': case['d']['k'], 'pattern': case['d']['pattern'], 'dense': bool(case['d'].get('dense')),
            'flags': '%s/%s/%s' % (o.get('complete'), o.get('consistent'), o.get('nonnegative'))}


def timeout_ok(case):
    # measures computed by a numerical optimisation (SciPy basin hopping / SLSQP) can take minutes on unlucky inputs
    return case['cls'] in SLOW3 or case['cls'] in ('PID_BROJA', 'PID_CT', 'PID_IG')


def matches_finding(f, case, o, v):
    return False
