"""C01 — construction yields exactly the specified table, or is rejected."""
import itertools
import math

import numpy as np

from .. import lib
from .. import distgen as G

COQ_IMPORTS = ['C01_Model']
VERDICT = 'verdict'
SHARD = 150
RULE = ('valid stream: scalar and joint specifications (str / int-tuple / str-tuple / scalar outcomes, heterogeneous alphabets, '
        'explicit zeros and sub-tolerance values, six bases incl. b<1 given as log-probabilities, base=None auto-detection, '
        'sparse x trim, sample space None / CartesianProduct / SampleSpace instance / plain list, dict / sequence / ndarray forms); '
        'malformed stream: unnormalised (also just outside the tolerance), out-of-range, length mismatch, ragged, outcome outside '
        'the supplied sample space, invalid base, empty. Non-trivial: >= 2 specified outcomes (valid stream) or any malformed case; '
        'distinct by canonical JSON.')
TRUSTED = ['Coq 8.16.1 kernel incl. vm_compute', 'Python driver: rank encoding of symbols; base**x linearisation of log values (applied identically to inputs and read-backs)',
           'model C01_Model.v is hand-written; tie = sampled correspondence']
ASSUMPTIONS = ['generated values keep away from dit tolerance thresholds except where float arithmetic is exact; '
               'inside a threshold band the model accepts either verdict']
CODES = {'corr': '1 dit rejected a spec the model accepts; 2 dit accepted a spec the model rejects; 3 sample space; 4 outcomes; 5 pmf; 6 lookups; 7 membership; 8 outsider not rejected; 9 len; 10 alphabet; 11 outcome length; 12 sparse; 13 base; 14 wrong exception class; 15 message not printable; 16 undocumented exception',
         'prop': '20 specified value not read back; 21 unspecified member not null; 23 outsider accepted; 24-27 stored arrays misaligned/duplicated/unordered/incomplete; 28 null stored although trimmed; 29/30 membership/len; 31/32 alphabets; 33 specified outcome missing from sample space; 34 sparse flag; 35 base; 40 undocumented exception; 41 rejected without a fault; 43 accepted despite a fault; 45 message not printable'}

ERR = {'InvalidDistribution': 'EInvalidDistribution', 'ditException': 'EDitException', 'InvalidOutcome': 'EInvalidOutcome',
       'InvalidNormalization': 'EInvalidNormalization', 'InvalidProbability': 'EInvalidProbability', 'InvalidBase': 'EInvalidBase'}


def lin(base, x):
    """linearise a raw value exactly as every read-back is linearised"""
    if base == 'linear':
        return float(x)
    b = G.base_num(base)
    x = float(x)
    if x == -math.inf:
        return 0.0 if b > 1 else math.inf
    if x == math.inf:
        return 0.0 if b < 1 else math.inf
    return float(b) ** x


def raw(base, p):
    if base == 'linear':
        return float(p)
    b = G.base_num(base)
    if p == 0:
        return -math.inf if b > 1 else math.inf
    return float(np.log(p) / np.log(b)) if base != 'e' else float(np.log(p))


def gen_case(rng, malformed):
    joint = rng.random() < 0.7
    klass = rng.choice(['str', 'int', 'strtuple']) if joint else rng.choice(['int', 'strtuple', 'str'])
    n = rng.randint(1, 3) if joint else 1
    while True:
        alph = [sorted(rng.sample(range(7), rng.randint(1, 3 if joint else 6))) for _ in range(n)]
        if np.prod([len(a) for a in alph]) <= 40:
            break
    full = [list(o) for o in itertools.product(*alph)]
    k = rng.randint(1, len(full))
    support = rng.sample(full, k)
    probs = G.gen_probs(rng, len(support))
    zeros = []
    rest = [o for o in full if o not in support]
    if rest and rng.random() < 0.35:
        zeros = rng.sample(rest, rng.randint(1, min(2, len(rest))))
    outs = support + zeros
    ps = probs + [0.0] * len(zeros)
    order = list(range(len(outs)))
    rng.shuffle(order)
    outs = [outs[i] for i in order]
    ps = [ps[i] for i in order]
    base = rng.choice(G.BASES) if rng.random() < 0.4 else 'linear'
    base_arg = base
    if base in ('linear', 2) and rng.random() < 0.3:
        base_arg = None
    ssk = rng.choice(['none', 'none', 'cart', 'inst', 'list'])
    if not joint and ssk == 'cart':
        ssk = 'inst'
    ss = None
    if ssk == 'cart':
        ss = []
        for a in alph:
            extra = [r for r in range(7) if r not in a]
            a2 = a + rng.sample(extra, min(len(extra), rng.randint(0, 1)))
            rng.shuffle(a2)
            ss.append(a2)
    elif ssk in ('inst', 'list'):
        rest = [o for o in full if o not in outs]
        ss = outs + (rng.sample(rest, rng.randint(0, min(3, len(rest)))) if rest else [])
        rng.shuffle(ss)
    form = rng.choice(['seq', 'seq', 'dict', 'ndarray'])
    case = {'joint': joint, 'klass': klass, 'outs': outs, 'ps': ps, 'base': base, 'base_arg': base_arg,
            'ssk': ssk, 'ss': ss, 'sparse': rng.random() < 0.6, 'trim': rng.random() < 0.6, 'form': form,
            'fault': None}
    if malformed:
        fault = rng.choice(['unnorm', 'unnorm_close', 'range', 'len', 'ragged', 'outside', 'badbase', 'empty', 'inside_tol'])
        case['fault'] = fault
        if fault == 'unnorm':
            f = rng.choice([0.5, 1.1, 1.001, 0.0])
            case['ps'] = [p * f for p in ps]
        elif fault == 'unnorm_close':
            # just outside the linear tolerance 1e-8 + 1e-5 (and far outside the log one)
            case['ps'] = [p * (1 + 2.5e-5) for p in ps]
        elif fault == 'inside_tol':
            # just inside the linear tolerance: valid for linear, not for log bases
            case['ps'] = [p * (1 + 4e-6) for p in ps]
        elif fault == 'range':
            case['base'] = case['base_arg'] = 'linear'
            variant = rng.choice(['both', 'neg_only', 'neg_small', 'perturb'])
            if len(ps) < 2:
                case['ps'] = [1.5]
            elif variant == 'both' or len(ps) < 3:
                case['ps'] = [1.5, -0.5] + [0.0] * (len(ps) - 2)
            elif variant == 'neg_only':
                # normalised, one negative entry, nothing above one
                case['ps'] = [-0.5, 0.75, 0.75] + [0.0] * (len(ps) - 3)
            elif variant == 'neg_small':
                case['ps'] = [-1e-4, 0.5 + 1e-4, 0.5] + [0.0] * (len(ps) - 3)
            else:
                q = list(ps)
                i, j = rng.sample(range(len(q)), 2)
                delta = q[i] + rng.choice([0.25, 0.01, 1e-3])
                q[i] -= delta
                q[j] += delta
                case['ps'] = q
            order = list(range(len(case['ps'])))
            rng.shuffle(order)
            case['ps'] = [case['ps'][k] for k in order]
        elif fault == 'len':
            case['ps'] = ps + [0.0] if rng.random() < 0.5 or len(ps) < 2 else ps[:-1]
            case['form'] = 'seq'
        elif fault == 'ragged':
            if joint and len(outs) >= 2:
                case['outs'] = outs[:-1] + [outs[-1] + [outs[-1][0]]]
                case['ssk'], case['ss'] = 'none', None
            else:
                case['fault'] = 'unnorm'
                case['ps'] = [p * 0.5 for p in ps]
        elif fault == 'outside':
            if ssk in ('inst', 'list') and len(case['ss']) >= 2:
                case['ss'] = [o for o in case['ss'] if o != outs[0]]
            elif ssk == 'cart':
                case['ss'] = [[r for r in a if r != outs[0][i]] or [9] for i, a in enumerate(case['ss'])]
            else:
                case['ssk'] = 'list'
                case['ss'] = [o for o in full if o != outs[0]] or [[9] * n]
        elif fault == 'badbase':
            case['base_arg'] = rng.choice([0, 1, -2, 'foo', 1.0])
            case['base'] = 'linear'
        elif fault == 'empty':
            case['outs'], case['ps'], case['ssk'], case['ss'], case['form'] = [], [], 'none', None, 'seq'
    return case


def generate(rng, tier):
    nvalid, nbad = (400, 150) if tier == 'quick' else (4000, 1500)
    cases = [gen_case(rng, False) for _ in range(nvalid)] + [gen_case(rng, True) for _ in range(nbad)]
    # heterogeneous alphabet sizes, (almost) full supports listed in descending order: positional arithmetic of the sample space
    for i in range(24 if tier == 'quick' else 200):
        n = rng.choice([2, 3, 3])
        sizes = rng.choice([[2, 3], [3, 2], [2, 4], [2, 3, 4], [4, 3, 2], [3, 2, 4], [2, 2, 3]])[:n] if n == 2 else rng.choice([[2, 3, 4], [4, 3, 2], [3, 2, 4], [2, 2, 3], [3, 4, 2]])
        alph = [sorted(rng.sample(range(6), s)) for s in sizes]
        full = [list(o) for o in itertools.product(*alph)]
        outs = sorted(rng.sample(full, rng.randint(max(2, len(full) // 2), len(full))), reverse=True)
        if i % 3 == 0:
            rng.shuffle(outs)
        ps = G.gen_probs(rng, len(outs), rng.choice(['kn', 'random', 'dyadic']))
        ssk = rng.choice(['none', 'cart'])
        cases.append({'joint': True, 'klass': rng.choice(['str', 'int', 'strtuple']), 'outs': outs, 'ps': ps, 'base': 'linear', 'base_arg': None if i % 2 else 'linear',
                      'ssk': ssk, 'ss': [list(a) for a in alph] if ssk == 'cart' else None, 'sparse': rng.random() < 0.6, 'trim': rng.random() < 0.6,
                      'form': rng.choice(['seq', 'dict']), 'fault': None})
    if tier == 'thorough':
        # flag cube on fixed tables
        for _ in range(8):
            c0 = gen_case(rng, False)
            for sparse in (True, False):
                for trim in (True, False):
                    for base in G.BASES:
                        for form in ('seq', 'dict', 'ndarray'):
                            c = dict(c0)
                            c.update(sparse=sparse, trim=trim, base=base, base_arg=base, form=form)
                            cases.append(c)
    return cases


def pyo(case, o):
    syms = G.SYMS[case['klass']]
    if not case['joint']:
        return syms[o[0]]
    if case['klass'] == 'str':
        return ''.join(syms[r] for r in o)
    return tuple(syms[r] for r in o)


def rko(case, o):
    syms = G.SYMS[case['klass']]
    if not case['joint']:
        return [syms.index(o)]
    return [syms.index(x) for x in o]


def observe(case):
    import dit
    from dit.exceptions import ditException, InvalidOutcome
    from dit.samplespace import CartesianProduct, SampleSpace, ScalarSampleSpace
    base = case['base']
    outs = [pyo(case, o) for o in case['outs']]
    raws = [raw(base, p) for p in case['ps']]
    lins = [lin(base, x) for x in raws]
    kw = {}
    if case['base_arg'] is not None:
        kw['base'] = case['base_arg']
    if case['ssk'] == 'cart':
        alphs = [[G.SYMS[case['klass']][r] for r in a] for a in case['ss']]
        kw['sample_space'] = CartesianProduct(alphs) if case['klass'] == 'str' else CartesianProduct(alphs, product=itertools.product)
    elif case['ssk'] == 'inst':
        ssl = [pyo(case, o) for o in case['ss']]
        kw['sample_space'] = SampleSpace(ssl) if case['joint'] else ScalarSampleSpace(ssl)
    elif case['ssk'] == 'list':
        kw['sample_space'] = [pyo(case, o) for o in case['ss']]
    cls = dit.Distribution if case['joint'] else dit.ScalarDistribution
    raw_is_pmf = (abs(sum(raws) - 1) <= 1e-8 + 1e-5 and all(-1e-8 <= x <= 1 + 1e-8 + 1e-5 for x in raws)) if raws and all(map(math.isfinite, raws)) else False
    if case['base_arg'] is None and base == 'linear' and not raw_is_pmf:
        # base=None and the values are not a linear pmf: dit reads them as log2-probabilities (documented auto-detection)
        lins = [lin(2, x) for x in raws]
    res = {'lins': lins, 'raw_is_pmf': raw_is_pmf}
    try:
        if case['form'] == 'dict':
            d = cls(dict(zip(outs, raws)), sparse=case['sparse'], trim=case['trim'], **kw)
        elif case['form'] == 'ndarray':
            d = cls(outs, np.array(raws, dtype=float), sparse=case['sparse'], trim=case['trim'], **kw)
        else:
            d = cls(outs, list(raws), sparse=case['sparse'], trim=case['trim'], **kw)
    except ditException as e:
        name = type(e).__name__
        try:
            s = str(e)
            printable = isinstance(s, str) and len(s) > 0
        except Exception:
            printable = False
        res.update(err=name, printable=printable, other=name not in ERR)
        return res
    except (TypeError, ValueError, AttributeError, IndexError, KeyError) as e:
        res.update(err=type(e).__name__, printable=True, other=True, detail=str(e)[:200])
        return res
    ssl = list(d.sample_space())
    b = G.base_tag(d)
    res['ss'] = [rko(case, o) for o in ssl]
    res['outs'] = [rko(case, o) for o in d.outcomes]
    res['vals'] = [lin(b, p) for p in d.pmf]
    res['look'] = [lin(b, d[o]) for o in ssl]
    res['contains'] = [bool(o in d) for o in ssl]
    # probes outside the sample space
    probes = []
    syms = G.SYMS[case['klass']]
    if case['joint']:
        n = len(ssl[0]) if ssl else 1
        foreign = [syms[9]] * n
        probes.append(''.join(foreign) if case['klass'] == 'str' else tuple(foreign))
        if ssl:
            longer = list(ssl[0]) + [ssl[0][0]] if n else [syms[0]]
            probes.append(''.join(longer) if case['klass'] == 'str' else tuple(longer))
    else:
        probes.append(syms[9])
        probes.append('not-a-symbol' if case['klass'] != 'strtuple' else 12345)
    rejected = True
    for x in probes:
        if x in ssl:
            continue
        try:
            d[x]
            rejected = False
        except InvalidOutcome as e:
            str(e)
    res['outside_rejected'] = rejected
    res['len'] = len(d)
    if case['joint']:
        res['alphabet'] = [[syms.index(x) for x in a] for a in d.alphabet]
        res['olen'] = d.outcome_length()
    else:
        res['alphabet'] = [[syms.index(x) for x in d.alphabet]]
        res['olen'] = 1
    res['sparse'] = bool(d.is_sparse())
    res['base'] = b
    res['err'] = None
    return res


def to_coq(case, o):
    ssk = case['ssk']
    if ssk == 'none':
        sst = 'SSNone'
    elif ssk == 'cart':
        sst = '(SSCart %s)' % lib.natlistlist(case['ss'])
    elif ssk == 'inst':
        sst = '(SSInst %s)' % lib.natlistlist(case['ss'])
    else:
        sst = '(SSList %s)' % lib.natlistlist(case['ss'])
    ba = case['base_arg']
    if ba is None:
        bt = 'BNone'
    elif ba in ('linear', 'e') or (isinstance(ba, (int, float)) and ba > 0 and ba != 1):
        bt = '(BGiven %s)' % lib.basec(ba)
    else:
        bt = 'BInvalid'
    lins = [v if math.isfinite(v) else 1e300 for v in o['lins']]
    spec = '(mkSpec %s %s %s %s %s %s %s %s)' % (lib.boolc(case['joint']), lib.natlistlist(case['outs']), lib.qlist(lins),
                                                 sst, bt, lib.boolc(o['raw_is_pmf']), lib.boolc(case['sparse']), lib.boolc(case['trim']))
    if o['err'] is not None:
        e = 'None' if o['other'] else '(Some %s)' % ERR[o['err']]
        ob = '(mkObs1 %s %s %s [] [] [] [] true 0%%nat [] 0%%nat false Linear)' % (
            e if not o['other'] else '(Some EDitException)', lib.boolc(o['other']), lib.boolc(o['printable']))
    else:
        fin = lambda l: [v if math.isfinite(v) else 1e300 for v in l]
        ob = '(mkObs1 None false true %s %s %s %s %s %s %s %s %s %s)' % (
            lib.natlistlist(o['ss']), lib.pdc(list(zip(o['outs'], fin(o['vals'])))), lib.qlist(fin(o['look'])),
            '[' + ';'.join(lib.boolc(x) for x in o['contains']) + ']', lib.boolc(o['outside_rejected']),
            lib.nat(o['len']), lib.natlistlist(o['alphabet']), lib.nat(o['olen']), lib.boolc(o['sparse']),
            lib.basec(o['base']))
    return '(%s, %s)' % (spec, ob)


def nontrivial(case, o):
    return case['fault'] is not None or sum(1 for p in case['ps'] if p > 0) >= 2


def describe(case, o):
    return {'joint': case['joint'], 'klass': case['klass'], 'base': case['base'], 'base_arg': case['base_arg'],
            'ss': case['ssk'], 'sparse': case['sparse'], 'trim': case['trim'], 'form': case['form'],
            'fault': case['fault'], 'n_outcomes': min(len(case['outs']), 9),
            'result': 'harness_error' if 'harness_error' in o else (o['err'] or 'ok')}


def matches_finding(f, case, o, v):
    return False
