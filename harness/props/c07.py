"""C07 — log and linear representations describe the same probability measure."""
import math
from fractions import Fraction

import numpy as np

from .. import lib
from .. import distgen as G
from . import c04, c05

MODE = 'goals'
COQ_IMPORTS = ['Check', 'C07_Model']
SHARD = 10
RULE = ('three kinds of cases. ops: LogOperations(b).add/mult/invert/normalize/add_reduce on random log arrays (incl. the null value) for b in '
        '{2, e, 10, 3.5, 0.5}: every output element x must satisfy b^x = the linear result. chain: a linear distribution sent through a random chain '
        'of 1-5 set_base / copy(base=) calls: every stored value, every lookup over the sample space and an event probability must render to the '
        'original probability, validate() must accept. measure: Shannon-type measures (entropy, conditional entropy, MI, multivariate entropy, '
        'extropy, perplexity, the multivariate family) of d.copy(base=b) must equal the linear-model value in base-b units. '
        'Each comparison is an interval-arithmetic goal decided in Coq. Non-trivial: support >= 2 / arrays of length >= 2.')
TRUSTED = ['Coq 8.16.1 kernel incl. vm_compute; Coq-Interval 4.6.1 + Flocq (exp, ln)', 'Python driver: rank encoding, exact float->Q; null log values are mapped to the constant 0 by the driver',
           'models C07_Model.v / C04_Model.v / C05_Model.v hand-written; tie = per-value interval-checked correspondence']
ASSUMPTIONS = ['float rounding within 1e-9 absolute on probabilities and measures', 'stdlib Reals axioms']
CODES = {'corr': 'k = index+1 of the first goal provably false (see goal_labels); 90 = non-finite / unexpected state', 'prop': 'same'}
TOL = Fraction(1, 10 ** 9)
LOGB = [2, 'e', 10, 3.5, 0.5]
KINDS = ['dyadic', 'dyadic', 'kn', 'decimal', 'random', 'neardeg']


def btag(b):
    if b == 2:
        return 'BT2'
    if b == 'e':
        return 'BTE'
    return '(BTQ %s)' % lib.qf(float(b))


def gen_ops_case(rng):
    b = rng.choice(LOGB)
    n = rng.randint(1, 5)
    ps = [rng.choice([0.0, 0.5, 0.25, 0.125, 0.3, 0.7, 1.0, 1e-6, rng.random()]) for _ in range(n)]
    qs = [rng.choice([0.0, 0.5, 0.25, 0.2, 1.0, rng.random()]) for _ in range(n)]
    return {'kind': 'ops', 'base': b, 'ps': ps, 'qs': qs, 'op': rng.choice(['add', 'mult', 'invert', 'normalize', 'add_reduce', 'add_inplace', 'mult_inplace'])}


def gen_chain_case(rng):
    spec = G.gen_spec(rng, nmin=1, nmax=3, allow_log=False, prob_kinds=KINDS)
    chain = [(rng.choice(G.BASES), rng.choice(['set_base', 'copy', 'copypmf'])) for _ in range(rng.randint(1, 5))]
    return {'kind': 'chain', 'spec': spec, 'chain': chain}


def gen_measure_case(rng):
    spec = G.gen_spec(rng, nmin=1, nmax=3, allow_log=False, prob_kinds=KINDS)
    spec['base'] = rng.choice(LOGB)
    q4 = [q for q in c04.gen_queries(rng, spec, 8) if q['k'] in ('entropy', 'cond', 'mi', 'mv', 'extropy', 'perplexity')][:4]
    q5 = [q for q in (c05.gen_queries(rng, spec, 4) if spec['n'] >= 2 else []) if q['m'] != 'caekl'][:2]
    return {'kind': 'measure', 'spec': spec, 'q4': q4, 'q5': q5}


def generate(rng, tier):
    n = 60 if tier == 'quick' else 600
    cases = []
    for _ in range(n):
        cases.append(gen_ops_case(rng))
        cases.append(gen_chain_case(rng))
        cases.append(gen_measure_case(rng))
    return cases


def tolog(b, p):
    if p == 0:
        return -math.inf if G.base_num(b) > 1 else math.inf
    return float(np.log(p)) if b == 'e' else float(np.log(p) / np.log(G.base_num(b)))


def observe(case):
    import dit
    from dit.math import LogOperations
    from dit.exceptions import ditException
    k = case['kind']
    if k == 'ops':
        ops = LogOperations(case['base'])
        x = np.array([tolog(case['base'], p) for p in case['ps']])
        y = np.array([tolog(case['base'], p) for p in case['qs']])
        x0, y0 = x.copy(), y.copy()
        op = case['op']
        if op == 'add':
            z = ops.add(x, y)
        elif op == 'mult':
            z = ops.mult(x, y)
        elif op == 'invert':
            z = ops.invert(x)
        elif op == 'normalize':
            z = ops.normalize(x)
        elif op == 'add_reduce':
            z = np.array([ops.add_reduce(x)])
        elif op == 'add_inplace':
            xx = x.copy()
            z = ops.add_inplace(xx, y)
        elif op == 'mult_inplace':
            xx = x.copy()
            z = ops.mult_inplace(xx, y)
        pure = bool(np.array_equal(x, x0, equal_nan=True) and np.array_equal(y, y0, equal_nan=True))
        return {'x': [float(v) for v in x0], 'y': [float(v) for v in y0], 'z': [float(v) for v in np.atleast_1d(z)], 'pure': pure,
                'zero': float(ops.zero), 'one': float(ops.one)}
    spec = case['spec']
    if k == 'chain':
        d = G.make_dist(spec)
        p0 = {tuple(G.rko(spec, o)): float(p) for o, p in zip(d.outcomes, d.pmf)}
        from dit.helpers import copypmf
        arrays = []
        for b, how in case['chain']:
            if how == 'set_base':
                d.set_base(b)
            elif how == 'copy':
                d = d.copy(base=b)
            else:
                # a converted copy of the pmf; the distribution itself must stay as it is
                arr = copypmf(d, base=b, mode=rng_mode(len(arrays)))
                if len(arr) == len(d.outcomes):
                    arrays.append({'base': b if b in ('linear', 'e') else float(b), 'vals': [float(v) for v in arr],
                                   'outs': [G.rko(spec, o) for o in d.outcomes]})
        ssl = list(d.sample_space())
        try:
            d.validate()
            valid = True
        except ditException:
            valid = False
        ev = [o for i, o in enumerate(ssl) if i % 2 == 0]
        return {'arrays': arrays, 'p0': [[list(kk), v] for kk, v in p0.items()], 'base': G.base_tag(d),
                'outs': [G.rko(spec, o) for o in d.outcomes], 'pmf': [float(v) for v in d.pmf],
                'ss': [G.rko(spec, o) for o in ssl], 'look': [float(d[o]) for o in ssl], 'valid': valid,
                'event': [G.rko(spec, o) for o in ev], 'event_prob': float(d.event_probability(ev)) if ev else None,
                'zero': float(d.ops.zero)}
    # measure
    d = G.make_dist(spec)
    o4 = c04.observe({'spec': spec, 'queries': case['q4']})
    o5 = c05.observe({'spec': spec, 'queries': case['q5']}) if case['q5'] else {'results': [], 'src_same': True}
    lin = dict(spec)
    lin['base'] = 'linear'
    return {'dist_term': o4['dist_term'], 'r4': o4['results'], 'r5': o5['results'], 'src_same': o4['src_same'] and o5['src_same']}


def rng_mode(i):
    return 'asis'


def optq(v, zero):
    if v == zero or (math.isinf(v) and math.isinf(zero) and (v > 0) == (zero > 0)):
        return 'None'
    if not math.isfinite(v):
        return 'INF'
    return '(Some %s)' % lib.qf(v)


_counter = [0]


def goal_pair(model, obs):
    args = '(Some (%s)) false %s %s' % (model, obs, lib.qz(TOL))
    return ('okgoal ' + args, 'fargoal ' + args)


def to_coq(case, o):
    item = _to_coq(case, o)
    # an infinite value that is not the base's null element can never be rendered: that is a violation by itself
    keep = [(g, l) for g, l in zip(item['goals'], item['labels']) if 'INF' not in g[0]]
    if len(keep) != len(item['goals']):
        bad = [l for g, l in zip(item['goals'], item['labels']) if 'INF' in g[0]]
        item['pyviolation'] = 'infinite value that is not the null element: %s' % bad[0]
        item['goals'] = [g for g, _ in keep]
        item['labels'] = [l for _, l in keep]
    return item


def _to_coq(case, o):
    item = {'defs': '', 'goals': [], 'labels': []}
    k = case['kind']
    if k == 'ops':
        b = btag(case['base'])
        zero = o['zero']
        xs = [optq(v, zero) for v in o['x']]
        ys = [optq(v, zero) for v in o['y']]
        if not o['pure'] and case['op'] not in ('add_inplace', 'mult_inplace'):
            item['pyviolation'] = 'operation modified its arguments'
        op = case['op']
        if op == 'normalize' and all(x == 'None' for x in xs):
            return item          # normalising the zero vector is undefined (0/0) in any base
        for i, z in enumerate(o['z']):
            if math.isnan(z):
                item['pyviolation'] = 'nan in ops output'
                continue
            zz = optq(z, zero)
            if op in ('add', 'add_inplace'):
                model = 'ops_add %s %s %s' % (b, xs[i], ys[i])
            elif op in ('mult', 'mult_inplace'):
                model = 'ops_mult %s %s %s' % (b, xs[i], ys[i])
            elif op == 'invert':
                if xs[i] == 'None' or zz in ('INF', 'None'):
                    continue
                model = 'ops_invert %s %s' % (b, xs[i])
            elif op == 'normalize':
                if all(x == 'None' for x in xs):
                    continue
                model = 'ops_normalize %s [%s] %d' % (b, ';'.join(xs), i)
            else:
                model = 'ops_add_reduce %s [%s]' % (b, ';'.join(xs))
            if zz == 'INF':
                # an infinite, non-null output is legitimate only where the linear result is unbounded
                if op == 'invert' or (op == 'normalize'):
                    continue
                item['pyviolation'] = 'infinite non-null output %r' % z
                continue
            # |model - b^z| <= tol, written as |(model + -(b^z)) - 0| <= tol
            item['goals'].append(goal_pair('RAdd (%s) (RNeg (r_exp %s %s))' % (model, b, zz), '0'))
            item['labels'].append('%s base %s element %d: x=%r y=%r -> %r' % (op, case['base'], i, o['x'][i] if i < len(o['x']) else None,
                                                                               o['y'][i] if i < len(o['y']) else None, z))
        return item
    if k == 'chain':
        p0 = {tuple(kk): v for kk, v in o['p0']}
        lin = o['base'] == 'linear'
        b = None if lin else btag(o['base'])
        if not o['valid']:
            item['pyviolation'] = 'validate() rejected the converted distribution'

        def rendered(v):
            if lin:
                return 'RConst %s' % lib.qf(v)
            return 'r_exp %s %s' % (b, optq(v, o['zero']))
        if [tuple(x) for x in o['outs']] != list(p0.keys()):
            item['pyviolation'] = 'stored outcomes changed by the base conversions'
        for oo, v in zip(o['outs'], o['pmf']):
            if math.isnan(v):
                item['pyviolation'] = 'nan stored'
                continue
            item['goals'].append(goal_pair(rendered(v), lib.qf(p0.get(tuple(oo), 0.0))))
            item['labels'].append('stored value of %s after %s' % (oo, case['chain']))
        for oo, v in zip(o['ss'], o['look']):
            item['goals'].append(goal_pair(rendered(v), lib.qf(p0.get(tuple(oo), 0.0))))
            item['labels'].append('lookup of %s after %s' % (oo, case['chain']))
        for a in o.get('arrays', []):
            ab = None if a['base'] == 'linear' else btag(a['base'])
            azero = -math.inf if (a['base'] == 'linear' or G.base_num(a['base']) > 1) else math.inf
            for oo, v in zip(a['outs'], a['vals']):
                term = ('RConst %s' % lib.qf(v)) if ab is None else 'r_exp %s %s' % (ab, optq(v, azero))
                item['goals'].append(goal_pair(term, lib.qf(p0.get(tuple(oo), 0.0))))
                item['labels'].append('copypmf(base=%s) value of %s' % (a['base'], oo))
        if o['event_prob'] is not None:
            tot = sum(Fraction(p0.get(tuple(x), 0.0)) for x in o['event'])
            item['goals'].append(goal_pair(rendered(o['event_prob']), lib.qz(tot)))
            item['labels'].append('event_probability after %s' % (case['chain'],))
        return item
    # measure
    spec = case['spec']
    _counter[0] += 1
    name = 'dl_%d' % _counter[0]
    item['defs'] = 'Definition %s : Dist.dist := %s.' % (name, o['dist_term'])
    if not o['src_same']:
        item['pyviolation'] = 'source distribution changed'
    for q, r in zip(case['q4'], o['r4']):
        if not r['raised'] and not math.isfinite(r['v']):
            item['pyviolation'] = 'non-finite value %r for %s' % (r['v'], q)
            continue
        args = '(stage (c07_measure4 %s %s %s)) %s %s %s' % (name, lib.boolc(q['byname']), c04.qterm(spec, q), lib.boolc(r['raised']),
                                                            lib.qf(r['v']), lib.qz(TOL))
        item['goals'].append(('okgoal ' + args, 'fargoal ' + args))
        item['labels'].append('base %s: %s -> %r' % (spec['base'], q, r))
    ids = [G.name_id(x) for x in spec['names']] if spec['names'] else None
    for q, r in zip(case['q5'], o['r5']):
        def tr(s):
            return lib.natlist([ids[i] for i in s] if q['byname'] else s)
        if not r['raised'] and not math.isfinite(r['v']):
            item['pyviolation'] = 'non-finite value %r for %s' % (r['v'], q)
            continue
        ctor = '(MCohesion %d)' % q['k'] if q['m'] == 'cohesion' else c05.CTOR[q['m']]
        args = '(stage (c07_measure5 %s %s %s [%s] %s)) %s %s %s' % (name, lib.boolc(q['byname']), ctor, ';'.join(tr(g) for g in q['gs']),
                                                                    tr(q['cr']), lib.boolc(r['raised']), lib.qf(r['v']), lib.qz(TOL))
        item['goals'].append(('okgoal ' + args, 'fargoal ' + args))
        item['labels'].append('base %s: %s -> %r' % (spec['base'], q, r))
    return item


def nontrivial(case, o):
    if case['kind'] == 'ops':
        return len(case['ps']) >= 2
    return sum(1 for p in case['spec']['pmf'] if p > 0) >= 2


def describe(case, o):
    d = {'kind': case['kind']}
    if case['kind'] == 'ops':
        d.update(base=case['base'], op=case['op'])
    elif case['kind'] == 'chain':
        d.update(chain_len=len(case['chain']), final=case['chain'][-1][0])
    else:
        d.update(base=case['spec']['base'], nvars=case['spec']['n'])
    return d


def matches_finding(f, case, o, v):
    return False
