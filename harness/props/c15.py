"""C15 — optimisation-based measures are feasible, self-consistent and within bounds."""
import itertools
import math
from fractions import Fraction

from .. import lib
from .. import distgen as G

MODE = 'goals'
COQ_IMPORTS = ['Check', 'C15_Model']
SHARD = 2
CASE_TIMEOUT = 400
PREAMBLE = ('Definition bgoal (b : bool) : Prop := b = true.\nDefinition nbgoal (b : bool) : Prop := b = false.\n'
            'Definition sqdiff15 (a b : pd) : Q := Qred (qsum (map (fun kv => Qmult (Qminus (snd kv) (get0 (fst kv) b)) (Qminus (snd kv) (get0 (fst kv) b))) a)).\n')
RULE = ('joint distributions of 2..4 small variables from the structured generator (zeros, functional supports, names, any base) with random disjoint assignments of the variables to '
        'the roles of each optimiser (multi-variable, unsorted groups; empty or non-empty conditioning), random auxiliary bounds, and parameter vectors: uniform box, with all-zero rows, '
        'random / uniform / copy / constant initial points, returned optima (niter=1). Optimisers: intrinsic TC / DTC / CAEKL, minimal intrinsic TC, one-way SKAR, secrecy capacity, '
        'rate-distortion (Hamming), information bottleneck, DeWeese TC / co-information, hypercontractivity, Wyner and exact common information. Functional wrappers for the bounds. Non-trivial: >= 2 outcomes.')
TRUSTED = ['Coq 8.16.1 kernel incl. vm_compute; Coq-Interval',
           'Python driver: float -> exact rational conversion, symbol -> rank encoding, per-class table of the quantity each objective is documented to be',
           'the parsed variable groups (opt._true_rvs / _true_crvs), shapes, bases and bounds of the auxiliary variables are read from the optimiser object',
           'model C15_Model.v hand-written; the SciPy optimisation itself is not modelled']
ASSUMPTIONS = ['tensors agree to 1e-12, information quantities to 1e-9; construct_distribution drops probabilities below 1e-6 and renormalises, so its restriction to the original variables is compared '
               'to 1e-4 and its conditional independences to 1e-4 bits',
               'Wyner / exact common information (MarkovVarOptimizer) meet the input only at feasible points: the joint, its axis rearrangement, the objective and the constraint value are checked, not construct_distribution; bounds are checked with tolerance 1e-3 (niter small)']
CODES = {'corr': 'k = index+1 of first false goal (see goal_labels); 90 = python-side violation', 'prop': 'same'}
T9 = Fraction(1, 10 ** 9)
KINDS = ['itc', 'idtc', 'icaekl', 'mitc', 'owskar', 'seccap', 'rdham', 'ib', 'dwtc', 'dwcoi', 'hyper', 'ib', 'wyner', 'exact']
XKINDS = ['box', 'box', 'zero_rows', 'random', 'uniform', 'copy', 'constant', 'optimum']


def split_roles(rng, n, nroles, allow_empty_last=True):
    """assign the n variables to nroles disjoint non-empty groups (some variables may stay unused); groups unsorted"""
    vs = list(range(n))
    rng.shuffle(vs)
    if nroles > n:
        return None
    cuts = sorted(rng.sample(range(1, n), nroles - 1)) if nroles > 1 else []
    parts = [vs[a:b] for a, b in zip([0] + cuts, cuts + [n])]
    if rng.random() < 0.3 and any(len(p) > 1 for p in parts):
        # leave one variable unused
        for p in parts:
            if len(p) > 1:
                p.pop()
                break
    return parts


def gen_full_spec(rng, n):
    """a generic joint: (almost) full support, random weights, so that no variable is constant or independent by construction"""
    alph = [sorted(rng.sample(range(6), rng.choice([2, 2, 3]))) for _ in range(n)]
    while len(list(itertools.product(*alph))) > 24:
        alph[rng.randrange(n)] = sorted(rng.sample(range(6), 2))
    full = [list(o) for o in itertools.product(*alph)]
    sup = full if rng.random() < 0.5 else rng.sample(full, max(2, len(full) - rng.randint(1, 3)))
    ws = [rng.choice([1, 2, 3, 5, 8]) for _ in sup] if rng.random() < 0.5 else [rng.random() + 0.05 for _ in sup]
    names = rng.sample(G.NAMES, n) if rng.random() < 0.3 else None
    pmf = [w / sum(ws) for w in ws]
    trim = True
    if rng.random() < 0.4:
        # a stored zero-probability outcome carrying a symbol that never occurs with positive probability, not the largest of its alphabet:
        # the alphabets of the distribution and of its trimmed working copy differ
        v = rng.randrange(n)
        extra = [r for r in range(max(alph[v])) if r not in alph[v]]
        if extra:
            r = rng.choice(extra)
            o = list(rng.choice(sup))
            o[v] = r
            alph = [sorted(a + [r]) if i == v else a for i, a in enumerate(alph)]
            sup = sup + [o]
            pmf = pmf + [0.0]
            trim = False
    return {'n': n, 'klass': rng.choice(['str', 'int']), 'alph': alph, 'outcomes': sup, 'pmf': pmf, 'ss_kind': 'default', 'ss': None,
            'base': rng.choice(['linear', 'linear', 2, 'e']), 'sparse': (rng.random() < 0.6) and trim, 'trim': trim, 'names': names}


def generate(rng, tier):
    mult = 1 if tier == 'quick' else 8
    cases = []
    i = 0
    while len(cases) < 55 * mult:
        kind = KINDS[i % len(KINDS)]
        i += 1
        spec = G.gen_spec(rng, nmin=2, nmax=4, amax=2 if rng.random() < 0.6 else 3, max_ss=24, klasses=('str', 'int'), allow_expl=False,
                          prob_kinds=['dyadic', 'kn', 'decimal', 'random'])
        if kind == 'ib' or rng.random() < 0.5:
            spec = gen_full_spec(rng, rng.choice([3, 3, 4]) if kind != 'hyper' else rng.choice([2, 3]))
        if sum(1 for p in spec['pmf'] if p > 0) < 2:
            continue
        n = spec['n']
        nroles = {'itc': 3, 'idtc': 3, 'icaekl': 3, 'mitc': 3, 'owskar': 3, 'seccap': 3, 'rdham': rng.choice([1, 2]), 'ib': 3 if (spec['n'] >= 3 and rng.random() < 0.8) else 2,
                  'dwtc': rng.choice([2, 3]), 'dwcoi': rng.choice([2, 3]), 'hyper': 2, 'wyner': rng.choice([2, 3]), 'exact': rng.choice([2, 3])}[kind]
        if kind in ('itc', 'idtc', 'icaekl', 'mitc') and n >= 4 and rng.random() < 0.4:
            nroles = 4
        roles = split_roles(rng, n, nroles)
        if roles is None:
            continue
        if kind == 'rdham':
            roles[0] = roles[0][:1]          # rate-distortion compresses one variable; its alphabet is also the default bound
        byname = spec['names'] is not None
        case = {'kind': kind, 'spec': spec, 'roles': roles, 'xkind': rng.choice(XKINDS), 'xseed': rng.randrange(10 ** 6),
                'bound': rng.choice([None, None, 1, 2, 3]), 'bound2': rng.choice([None, 1, 2]), 'beta': rng.choice([0.0, 0.5, 1.0, 2.5]) if kind != 'ib' else rng.choice([0.5, 1.0, 2.5]),
                'crv_empty': kind in ('dwtc', 'dwcoi') and rng.random() < 0.5, 'byname': byname}
        if kind in ('mitc', 'owskar', 'wyner', 'exact') and case['xkind'] == 'optimum':
            case['xkind'] = 'random'
        if kind in ('wyner', 'exact'):
            case['crv_empty'] = len(roles) == 2 or rng.random() < 0.5
            case['bound'] = rng.choice([2, 2, 3])
        cases.append(case)
    while len(cases) < 63 * mult:
        spec = G.gen_spec(rng, nmin=3, nmax=3, amax=2, max_ss=8, klasses=('str', 'int'), allow_expl=False, allow_names=False)
        if sum(1 for p in spec['pmf'] if p > 0) < 2:
            continue
        cases.append({'kind': 'bounds', 'spec': spec, 'roles': split_roles(rng, 3, 3), 'which': rng.choice(['imi', 'ib', 'skar'])})
    return cases


def names_of(spec, g, byname):
    return [spec['names'][i] for i in g] if byname else list(g)


def build(case, d):
    spec, roles, kind = case['spec'], case['roles'], case['kind']
    bn = case['byname']
    N = lambda g: names_of(spec, g, bn)
    if kind in ('itc', 'idtc', 'icaekl', 'mitc'):
        from dit.multivariate.secret_key_agreement.intrinsic_mutual_informations import (IntrinsicTotalCorrelation, IntrinsicDualTotalCorrelation,
                                                                                          IntrinsicCAEKLMutualInformation)
        from dit.multivariate.secret_key_agreement.minimal_intrinsic_mutual_informations import MinimalIntrinsicTotalCorrelation
        cls = {'itc': IntrinsicTotalCorrelation, 'idtc': IntrinsicDualTotalCorrelation, 'icaekl': IntrinsicCAEKLMutualInformation, 'mitc': MinimalIntrinsicTotalCorrelation}[kind]
        # the minimal intrinsic optimiser's default bound is the size of the whole proxy tensor: keep the joint small
        bound = min(case['bound'] or 3, 3) if kind == 'mitc' else case['bound']
        return cls(d, rvs=[N(g) for g in roles[:-1]], crvs=N(roles[-1]), bound=bound)
    if kind in ('owskar', 'seccap'):
        from dit.multivariate.secret_key_agreement.one_way_skar import OneWaySKAR
        from dit.multivariate.secret_key_agreement.secrecy_capacity import SecrecyCapacity
        cls = OneWaySKAR if kind == 'owskar' else SecrecyCapacity
        return cls(d, rv_x=N(roles[0]), rv_y=N(roles[1]), rv_z=N(roles[2]), bound_u=min(case['bound'] or 2, 2), bound_v=min(case['bound2'] or 2, 2))
    if kind == 'rdham':
        from dit.rate_distortion.rate_distortion import RateDistortionHamming
        # (with names the constructor's nested-list guard `iter(rv[0])` rejects every string name: indices are used)
        kw = {'rv_mode': 'indices'} if spec['names'] is not None else {}
        return RateDistortionHamming(d, beta=case['beta'], rv=list(roles[0]), crvs=list(roles[1]) if len(roles) > 1 else None, bound=case['bound'], **kw)
    if kind == 'ib':
        from dit.rate_distortion.information_bottleneck import InformationBottleneck
        return InformationBottleneck(d, beta=case['beta'], rvs=[N(roles[0]), N(roles[1])], crvs=N(roles[2]) if len(roles) > 2 else None, bound=case['bound'])
    if kind in ('dwtc', 'dwcoi'):
        from dit.multivariate.deweese import DeWeeseTotalCorrelation, DeWeeseCoInformation
        cls = DeWeeseTotalCorrelation if kind == 'dwtc' else DeWeeseCoInformation
        if case['crv_empty']:
            return cls(d, rvs=[N(g) for g in roles], crvs=None)
        return cls(d, rvs=[N(g) for g in roles[:-1]], crvs=N(roles[-1])) if len(roles) > 2 else cls(d, rvs=[N(g) for g in roles], crvs=None)
    if kind in ('wyner', 'exact'):
        from dit.multivariate.common_informations.wyner_common_information import WynerCommonInformation
        from dit.multivariate.common_informations.exact_common_information import ExactCommonInformation
        cls = WynerCommonInformation if kind == 'wyner' else ExactCommonInformation
        if case['crv_empty']:
            return cls(d, rvs=[N(g) for g in roles], crvs=None, bound=case['bound'])
        return cls(d, rvs=[N(g) for g in roles[:-1]], crvs=N(roles[-1]), bound=case['bound'])
    if kind == 'hyper':
        from dit.divergences.hypercontractivity_coefficient import HypercontractivityCoefficient
        return HypercontractivityCoefficient(d, rv_x=N(roles[0]), rv_y=N(roles[1]), bound=case['bound'])
    raise ValueError(kind)


def make_x(opt, case):
    import numpy as np
    rs = np.random.RandomState(case['xseed'])
    size = opt._optvec_size
    k = case['xkind']
    if k == 'box':
        # a grid in the unit box keeps the exact rationals of the model small
        return rs.randint(0, 33, size=size) / 32.0
    if k == 'zero_rows':
        x = rs.randint(0, 33, size=size) / 32.0
        off = 0
        for av in opt._aux_vars:
            rows = av.size // av.bound
            for r in range(rows):
                if rs.random_sample() < 0.35:
                    x[off + r * av.bound: off + (r + 1) * av.bound] = 0.0
            off += av.size
        return x
    if k == 'random':
        np.random.seed(case['xseed'])
        return opt.construct_random_initial()
    if k == 'uniform':
        return opt.construct_uniform_initial()
    if k == 'copy':
        return opt.construct_copy_initial()
    if k == 'constant':
        return opt.construct_constant_initial()
    np.random.seed(case['xseed'])
    opt.optimize(niter=1)
    return np.asarray(opt._optima, dtype=float)


def observe(case):
    import numpy as np
    import dit
    spec = case['spec']
    d = G.make_dist(spec)
    before = G.snapshot(d)
    n = spec['n']
    res = {}
    lin = d.copy(base='linear')
    # BaseOptimizer rebuilds the distribution with the default constructor, which trims null outcomes (|p| <= 1e-8)
    res['dtab'] = [[G.rko(spec, o), float(v)] for o, v in zip(lin.outcomes, lin.pmf) if not abs(float(v)) <= 1e-8]
    if case['kind'] == 'bounds':
        from dit.multivariate import coinformation
        X, Y, Z = case['roles']
        w = case['which']
        np.random.seed(7)
        if w == 'imi':
            from dit.multivariate.secret_key_agreement import intrinsic_total_correlation
            res['value'] = float(intrinsic_total_correlation(d, [X, Y], Z, niter=2))
        elif w == 'skar':
            from dit.multivariate.secret_key_agreement import (lower_intrinsic_mutual_information, upper_intrinsic_mutual_information,
                                                               intrinsic_total_correlation)
            res['lower'] = float(lower_intrinsic_mutual_information(d, [X, Y], Z))
            res['upper'] = float(upper_intrinsic_mutual_information(d, [X, Y], Z))
            res['value'] = float(intrinsic_total_correlation(d, [X, Y], Z, niter=2))
        else:
            from dit.rate_distortion.information_bottleneck import InformationBottleneck
            ib = InformationBottleneck(d, beta=rng_beta(case), rvs=[X, Y], crvs=Z)
            ib.optimize(niter=1)
            J = ib.construct_joint(ib._optima)
            res['complexity'] = float(ib.complexity(J))
            res['relevance'] = float(ib.relevance(J))
        res['src_same'] = G.snapshot(d) == before
        return res
    opt = build(case, d)
    x = make_x(opt, case)
    x = np.asarray(x, dtype=float)
    xin = x.copy()
    markov = case['kind'] in ('wyner', 'exact')
    res['groups'] = [list(g) for g in opt._true_rvs] + [list(opt._true_crvs)]
    if markov:
        # the Markov optimisers keep the first variable and the conditioning proxy, and regenerate the others from (Z, W)
        res['all_groups'] = res['groups']
        res['groups'] = [res['groups'][0], res['groups'][-1]]
        res['to_match'] = [float(v) for v in opt._pmf_to_match.ravel()]
    res['shape'] = [int(s) for s in opt._pmf.shape]
    res['pmf'] = [float(v) for v in opt._pmf.ravel()]
    res['aux'] = [[sorted(int(b) for b in av.bases), int(av.bound), int(av.size)] for av in opt._aux_vars]
    if markov:
        from dit.algorithms.optimization import BaseAuxVarOptimizer
        J0 = BaseAuxVarOptimizer.construct_joint(opt, x)
        J = opt.construct_joint(x)
        res['J0'] = [float(v) for v in J0.ravel()]
        res['constraint'] = float(opt.constraint_match_joint(xin.copy()))
    else:
        J = opt.construct_joint(x)
    res['x_same'] = bool((x == xin).all())
    res['x'] = [float(v) for v in xin]
    res['J'] = [float(v) for v in J.ravel()]
    res['Jshape'] = [int(s) for s in J.shape]
    if not hasattr(opt, 'objective'):
        from types import MethodType
        opt.objective = MethodType(opt._objective(), opt)
    res['objective'] = float(opt.objective(xin.copy()))
    if case['kind'] in ('itc', 'idtc', 'icaekl'):
        # BaseIntrinsicMutualInformation.optimize keeps the best of the constant channel (the unconditional measure),
        # the copy channel (the measure given Z) and the optimiser's result: the source of the upper bounds
        res['obj_const'] = float(opt.objective(opt.construct_constant_initial()))
        res['obj_copy'] = float(opt.objective(opt.construct_copy_initial()))
        res['copy_exact'] = bool(opt._aux_vars[0].bound >= opt._pmf.shape[-1])
    nv = J.ndim
    # the tensor functionals on random queries
    rs = np.random.RandomState(case['xseed'] + 1)
    qs = []
    allv = list(range(nv))
    for _ in range(3):
        perm = list(rs.permutation(nv))
        a = max(1, int(rs.randint(1, nv)))
        Xs = set(int(v) for v in perm[:1])
        Ys = set(int(v) for v in perm[1:2]) if nv > 1 else set()
        Zs = set(int(v) for v in perm[2:2 + int(rs.randint(0, 2))]) if nv > 2 else set()
        kind = ['entropy', 'mi', 'cmi', 'coi', 'tc', 'dtc', 'tv'][int(rs.randint(0, 7))]
        try:
            if kind == 'entropy':
                Xe = set(int(v) for v in perm[:int(rs.randint(1, nv + 1))])
                Ce = set(int(v) for v in allv if v not in Xe and rs.random_sample() < 0.4)
                val = opt._entropy(Xe, Ce)(J)
                qs.append(['entropy', sorted(Xe), sorted(Ce), float(val)])
            elif kind == 'mi' and Ys:
                qs.append(['mi', sorted(Xs), sorted(Ys), float(opt._mutual_information(Xs, Ys)(J))])
            elif kind == 'cmi' and Ys:
                qs.append(['cmi', sorted(Xs), sorted(Ys), sorted(Zs), float(opt._conditional_mutual_information(Xs, Ys, Zs)(J))])
            elif kind in ('coi', 'tc', 'dtc') and nv >= 2:
                m = int(rs.randint(2, min(nv, 3) + 1))
                R = set(int(v) for v in perm[:m])
                C = set(int(v) for v in perm[m:m + int(rs.randint(0, 2))])
                f = {'coi': opt._coinformation, 'tc': opt._total_correlation, 'dtc': opt._dual_total_correlation}[kind]
                qs.append([kind, sorted(R), sorted(C), float(f(R, C)(J))])
            elif kind == 'tv' and Ys:
                xi, yi = sorted(Xs)[0], sorted(Ys)[0]
                if J.shape[xi] == J.shape[yi]:
                    qs.append(['tv', xi, yi, float(opt._total_variation({xi}, {yi})(J))])
        except Exception as e:  # a functional that raises on a legal query is a finding
            qs.append(['raised', kind, repr(e)[:200]])
    res['queries'] = qs
    # class-specific named quantities
    extra = {}
    if case['kind'] in ('rdham',):
        extra['rate'] = float(opt.rate(J))
        extra['distortion'] = float(opt.distortion(J))
    if case['kind'] == 'ib':
        extra['complexity'] = float(opt.complexity(J))
        extra['relevance'] = float(opt.relevance(J))
        extra['error'] = float(opt.error(J))
        extra['ib_distortion'] = float(opt.distortion(J))
    res['extra'] = extra
    # the distribution with its auxiliary variables
    try:
        if markov:
            raise KeyError('skip')
        cd = opt.construct_distribution(xin.copy())
        tab = []
        naux = len(opt._aux_vars)
        for o, v in zip(cd.outcomes, cd.pmf):
            o = tuple(o)
            head = G.rko(spec, o[:n])
            tail = []
            for s in o[n:]:
                tail.append(int(s) if not isinstance(s, str) else ('0123456789' + 'abcdefghijklmnopqrstuvwxyzABCDEFGHIJKLMNOPQRSTUVWXYZ').index(s))
            tab.append([head + tail, float(v)])
        res['cdist'] = tab
        res['cdist_len'] = int(cd.outcome_length())
    except Exception as e:
        if not markov:
            res['cdist_error'] = repr(e)[:300]
    res['src_same'] = G.snapshot(d) == before
    return res


def rng_beta(case):
    return 2.0


# ------------------------------------------------------------------------------------------------


# Every datum a goal mentions is a definition evaluated once with `Eval vm_compute` (an ordinary, kernel-checked
# definition): evaluating tables of a few hundred rationals inside the goal (tactic `change`, lazy conversion) takes minutes.
_REG = {'defs': None, 'n': 0, 'nm': ''}


def reg(expr, typ):
    _REG['n'] += 1
    name = '%s_g%d' % (_REG['nm'], _REG['n'])
    _REG['defs'].append('Definition %s : %s := Eval vm_compute in (%s).' % (name, typ, expr))
    return name


def bg(e):
    v = reg(e, 'bool')
    return ('bgoal %s' % v, 'nbgoal %s' % v)


def okd(data, obs, tol):
    args = '%s false %s %s' % (reg(data, 'option rdata'), lib.qf(obs), lib.qz(tol))
    return ('okgoal ' + args, 'fargoal ' + args)


def led(data, obs, tol):
    m = reg(data, 'option rdata')
    return ('legoal %s %s %s' % (m, lib.qf(obs), lib.qz(tol)), 'gtgoal %s %s %s' % (m, lib.qf(obs), lib.qz(tol)))


def ged(data, obs, tol):
    m = reg(data, 'option rdata')
    return ('gegoal %s %s %s' % (m, lib.qf(obs), lib.qz(tol)), 'ltgoal %s %s %s' % (m, lib.qf(obs), lib.qz(tol)))


def nl(l):
    return lib.natlist(l)


def nll(l):
    return lib.natlistlist(l)


_counter = [0]


def objective_term(case, o, J, nv):
    """the documented objective as a Coq `option rdata` over the joint J with nv variables; None when not expressible"""
    k = case['kind']
    ng = len(o['groups'])          # groups incl. the conditioning proxy
    crv = ng - 1
    aux = list(range(ng, nv))
    rv = list(range(crv))
    if k == 'itc':
        return 'tc_data %s %d%%nat %s %s' % (J, nv, nll([[i] for i in rv]), nl(aux))
    if k == 'idtc':
        return 'dtc_data %s %d%%nat %s %s' % (J, nv, nll([[i] for i in rv]), nl(aux))
    if k == 'mitc':
        return 'oadd (tc_data %s %d%%nat %s %s) (cmi_data15 %s %d%%nat %s %s %s)' % (J, nv, nll([[i] for i in rv]), nl(aux), J, nv, nl(rv), nl(aux), nl([crv]))
    if k in ('owskar', 'seccap'):
        x, y, z, u, v = 0, 1, 2, 3, 4
        return 'oadd (oscale15 ((-1)#1) (cmi_data15 %s %d%%nat %s %s %s)) (cmi_data15 %s %d%%nat %s %s %s)' % (J, nv, nl([u]), nl([y]), nl([v]), J, nv, nl([u]), nl([z]), nl([v]))
    if k == 'rdham':
        x, z, t = 0, 1, 2
        return 'oadd (cmi_data15 %s %d%%nat %s %s %s) (Some (RConst (Qmult %s (hamming_q %s %d%%nat %d%%nat))))' % (J, nv, nl([x]), nl([t]), nl([z]), lib.qf(case['beta']), J, x, t)
    if k == 'ib':
        x, y, z, t = 0, 1, 2, 3
        b = lib.qf(case['beta'])
        return ('oadd (cmi_data15 %s %d%%nat %s %s %s) (oscale15 %s (oadd (cmi_data15 %s %d%%nat %s %s %s) (oscale15 ((-1)#1) (cmi_data15 %s %d%%nat %s %s %s))))'
                % (J, nv, nl([x]), nl([t]), nl([z]), b, J, nv, nl([x]), nl([y]), nl([z]), J, nv, nl([y]), nl([t]), nl([z])))
    if k == 'dwtc':
        return 'oscale15 ((-1)#1) (tc_data %s %d%%nat %s %s)' % (J, nv, nll([[i] for i in aux]), nl([crv]))
    if k == 'dwcoi':
        return 'oscale15 ((-1)#1) (coi_data %s %d%%nat %s %s)' % (J, nv, nll([[i] for i in aux]), nl([crv]))
    if k in ('wyner', 'exact'):
        # permuted layout: X_1 .. X_k, Z, W
        kk = nv - 2
        if k == 'wyner':
            return 'cmi_data15 %s %d%%nat %s %s %s' % (J, nv, nl(list(range(kk))), nl([kk + 1]), nl([kk]))
        return 'ent_data %s %d%%nat %s %s' % (J, nv, nl([kk + 1]), nl([kk]))
    return None


def to_coq(case, o):
    _counter[0] += 1
    nm = 'c15_%d' % _counter[0]
    spec = case['spec']
    n = spec['n']
    item = {'defs': '', 'goals': [], 'labels': []}

    def add(g, label):
        item['goals'].append(g)
        item['labels'].append(label)
    if not o.get('src_same', True):
        item['pyviolation'] = 'the input distribution changed'
    defs = ['Definition %s_t : pd := %s.' % (nm, lib.pdc([(k, v) for k, v in o['dtab']]))]
    _REG['defs'], _REG['n'], _REG['nm'] = defs, 0, nm
    if case['kind'] == 'bounds':
        X, Y, Z = case['roles']
        t = nm + '_t'
        mi = 'cmi_data15 %s %d%%nat %s %s []%%nat' % (t, n, nl(X), nl(Y))
        cmi = 'cmi_data15 %s %d%%nat %s %s %s' % (t, n, nl(X), nl(Y), nl(Z))
        T3 = Fraction(1, 1000)
        if 'value' in o:
            v = o['value']
            if not math.isfinite(v):
                item['pyviolation'] = 'non-finite value'
                return item
            add(ged('Some (RConst %s)' % lib.qf(v), 0.0, T9), 'intrinsic mutual information %r is non-negative' % v)
            add(ged(mi, v, T3), 'intrinsic mutual information <= I(X:Y)')
            add(ged(cmi, v, T3), 'intrinsic mutual information <= I(X:Y|Z)')
        if 'lower' in o:
            add(led('Some (RConst %s)' % lib.qf(o['lower']), o['value'], T3), 'trivial lower bound %r <= intrinsic mutual information %r' % (o['lower'], o['value']))
            add(ged('Some (RConst %s)' % lib.qf(o['upper']), o['value'], T3), 'trivial upper bound %r >= intrinsic mutual information' % o['upper'])
            add(led('Some (RConst %s)' % lib.qf(o['lower']), o['upper'], T9), 'trivial lower bound <= trivial upper bound')
        if 'complexity' in o:
            hx = 'ent_data %s %d%%nat %s %s' % (t, n, nl(X), nl(Z))
            add(ged(hx, o['complexity'], Fraction(1, 10 ** 6)), 'bottleneck complexity %r <= H(X|Z)' % o['complexity'])
            add(ged(cmi, o['relevance'], Fraction(1, 10 ** 6)), 'bottleneck relevance %r <= I(X:Y|Z)' % o['relevance'])
            add(ged('Some (RConst %s)' % lib.qf(o['relevance']), 0.0, Fraction(1, 10 ** 6)), 'relevance non-negative')
        item['defs'] = '\n'.join(defs)
        return item
    markov = case['kind'] in ('wyner', 'exact')
    vals = o['pmf'] + o['x'] + o['J'] + ([] if case['kind'] == 'hyper' else [o['objective']])
    if not all(math.isfinite(v) for v in vals):
        item['pyviolation'] = 'non-finite tensor entry or objective'
        return item
    if not o['x_same']:
        item['pyviolation'] = 'construct_joint modified the parameter vector'
    if len(o['J']) > 100:
        # exact evaluation of a joint of several hundred products of 53-bit rationals takes minutes: python-level sanity only
        item['big_joint'] = True
        if abs(sum(o['J']) - 1) > 1e-9 or min(o['J']) < 0:
            item['pyviolation'] = 'construct_joint is not a proper joint'
        return item
    groups = o['groups']
    avs = []
    off = 0
    for bases, bound, size in o['aux']:
        avs.append('(mkAux %s %d%%nat %s)' % (nl(bases), bound, lib.qlist(o['x'][off:off + size])))
        off += size
    defs.append('Definition %s_avs : list auxvar := [%s].' % (nm, ';'.join(avs)))
    defs.append('Definition %s_B : pd := Eval vm_compute in (base_tensor %s_t %s).' % (nm, nm, nll(groups)))
    defs.append('Definition %s_J : pd := Eval vm_compute in (attach (base_shape %s_t %s) %s_B %s_avs).' % (nm, nm, nll(groups), nm, nm))
    # information quantities are evaluated on dit's own tensor (53-bit rationals), once it is shown to be the model joint to 1e-12
    if markov:
        defs.append('Definition %s_O : pd := Eval vm_compute in (combine (cart (map range %s)) %s).' % (nm, nl(o['Jshape']), lib.qlist(o['J'])))
    else:
        defs.append('Definition %s_O : pd := Eval vm_compute in (combine (map fst %s_J) %s).' % (nm, nm, lib.qlist(o['J'])))
    B, J = nm + '_B', nm + '_J'
    ng = len(groups)
    nv = len(o['Jshape'])
    add(bg('tensor_close %s %s && oeqb (base_shape %s_t %s) %s' % (B, lib.qlist(o['pmf']), nm, nll(groups), nl(o['shape']))),
        'proxy tensor _pmf and its shape')
    add(bg('params_ok %s_avs [] && tensor_close %s %s && proper_joint %s && same_table c15_tol (drop_aux %d%%nat %s) %s' % (nm, J, lib.qlist(o['J0'] if markov else o['J']), J, ng, J, B)),
        'construct_joint(x): equals the model joint, is a proper joint, and restricts to the proxy tensor')
    if markov:
        # layout after the two moveaxis calls: X_1, regenerated X_2..X_k, Z, W   (model layout: X_1, Z, W, X_2..X_k)
        perm = [0] + list(range(3, nv)) + [1, 2]
        add(bg('same_table c15_tol (map (fun kv => (proj %s (fst kv), snd kv)) %s) %s_O' % (nl(perm), J, nm)),
            'Markov optimiser: construct_joint(x) is the model joint with the axes rearranged to (X_1..X_k, Z, W)')
        allg = o['all_groups']
        add(bg('qclose (1#1000000000) (Qmult (100#1) (sqdiff15 (dense_over (base_shape %s_t %s) (pushforward (firstn %d%%nat) %s_O)) (base_tensor %s_t %s))) %s'
               % (nm, nll(allg), nv - 1, nm, nm, nll(allg), lib.qf(o['constraint']))),
            'constraint_match_joint(x) = 100 * squared distance between the W-marginal of the joint and the input tensor')
    JM = J
    J = nm + '_O'
    big = len(o['J']) > 64          # interval goals over a few hundred terms take minutes: structural goals only
    if big:
        item['big_joint'] = True
    for q in ([] if big else o['queries']):
        if q[0] == 'raised':
            item['pyviolation'] = 'tensor functional %s raised: %s' % (q[1], q[2])
            continue
        if not math.isfinite(q[-1]):
            item['pyviolation'] = 'tensor functional %s returned %r' % (q[0], q[-1])
            continue
        if q[0] == 'entropy':
            add(okd('ent_data %s %d%%nat %s %s' % (J, nv, nl(q[1]), nl(q[2])), q[3], T9), '_entropy(%s | %s)' % (q[1], q[2]))
        elif q[0] == 'mi':
            add(okd('cmi_data15 %s %d%%nat %s %s []%%nat' % (J, nv, nl(q[1]), nl(q[2])), q[3], T9), '_mutual_information(%s : %s)' % (q[1], q[2]))
        elif q[0] == 'cmi':
            add(okd('cmi_data15 %s %d%%nat %s %s %s' % (J, nv, nl(q[1]), nl(q[2]), nl(q[3])), q[4], T9), '_conditional_mutual_information(%s : %s | %s)' % (q[1], q[2], q[3]))
        elif q[0] in ('coi', 'tc', 'dtc'):
            f = {'coi': 'coi_data', 'tc': 'tc_data', 'dtc': 'dtc_data'}[q[0]]
            add(okd('%s %s %d%%nat %s %s' % (f, J, nv, nll([[i] for i in q[1]]), nl(q[2])), q[3], T9), '_%s(%s | %s)' % (q[0], q[1], q[2]))
        elif q[0] == 'tv':
            add(bg('qclose (1#1000000000) (tv_q %s %d%%nat %d%%nat) %s' % (J, q[1], q[2], lib.qf(q[3]))), '_total_variation(%d, %d)' % (q[1], q[2]))
    ot = None if big else objective_term(case, o, J, nv)
    if ot is not None:
        add(okd(ot, o['objective'], T9), 'objective(x) = the documented quantity of the joint (%s): %r' % (case['kind'], o['objective']))
    elif case['kind'] == 'hyper':
        # -(I[U:Y] / I[U:X]), inf when the denominator is close to zero: cross-multiplied
        pass
    if 'obj_const' in o and case['kind'] in ('itc', 'idtc') and not big:
        f = 'tc_data' if case['kind'] == 'itc' else 'dtc_data'
        rvl = nll([[i] for i in range(ng - 1)])
        add(okd('%s %s %d%%nat %s []%%nat' % (f, B, ng, rvl), o['obj_const'], T9), 'objective at the constant channel = the unconditional measure of the input')
        if o['copy_exact']:
            add(okd('%s %s %d%%nat %s %s' % (f, B, ng, rvl, nl([ng - 1])), o['obj_copy'], T9), 'objective at the copy channel = the measure given the conditioning variables')
        if case['xkind'] == 'optimum' and o['objective'] > min(o['obj_const'], o['obj_copy']) + 1e-9:
            item['pyviolation'] = 'returned optimum %r exceeds the constant / copy channels %r %r' % (o['objective'], o['obj_const'], o['obj_copy'])
        if o['objective'] < -1e-9:
            item['pyviolation'] = 'negative intrinsic measure %r' % o['objective']
    ex = o.get('extra', {})
    if 'rate' in ex:
        add(okd('cmi_data15 %s %d%%nat [0]%%nat [2]%%nat [1]%%nat' % (J, nv), ex['rate'], T9), 'rate = I[X:T|Z]')
        add(bg('qclose (1#1000000000) (hamming_q %s 0%%nat 2%%nat) %s' % (J, lib.qf(ex['distortion']))), 'distortion = expected Hamming distortion')
    if 'complexity' in ex:
        add(okd('cmi_data15 %s %d%%nat [0]%%nat [3]%%nat [2]%%nat' % (J, nv), ex['complexity'], T9), 'complexity = I[X:T|Z]')
        add(okd('cmi_data15 %s %d%%nat [1]%%nat [3]%%nat [2]%%nat' % (J, nv), ex['relevance'], T9), 'relevance = I[Y:T|Z]')
        add(okd('cmi_data15 %s %d%%nat [0]%%nat [1]%%nat [2;3]%%nat' % (J, nv), ex['error'], T9), 'error = I[X:Y|T,Z]')
        add(okd('oadd (cmi_data15 %s %d%%nat [0]%%nat [1]%%nat [2]%%nat) (oscale15 ((-1)#1) (cmi_data15 %s %d%%nat [1]%%nat [3]%%nat [2]%%nat))' % (J, nv, J, nv), ex['ib_distortion'], T9),
            'distortion = I[X:Y|Z] - I[Y:T|Z]')
        add(ged('cmi_data15 %s %d%%nat [0]%%nat [1]%%nat [2]%%nat' % (J, nv), ex['relevance'], T9), 'relevance <= I[X:Y|Z] for every parameter vector')
        add(ged('ent_data %s %d%%nat [0]%%nat [2]%%nat' % (J, nv), ex['complexity'], T9), 'complexity <= H[X|Z] for every parameter vector')
    if 'cdist_error' in o:
        item['pyviolation'] = 'construct_distribution raised: %s' % o['cdist_error']
    elif 'cdist' in o:
        naux = len(o['aux'])
        if o['cdist_len'] != n + naux:
            item['pyviolation'] = 'construct_distribution has %d variables, expected %d + %d' % (o['cdist_len'], n, naux)
        else:
            defs.append('Definition %s_D : pd := %s.' % (nm, lib.pdc([(k, v) for k, v in o['cdist']])))
            D = nm + '_D'
            T4 = Fraction(1, 10 ** 4)
            add(bg('proper_joint %s && same_table %s (pushforward (firstn %d%%nat) %s) (filter (fun kv => negb (Qle_bool (snd kv) 0)) %s_t)' % (D, lib.qz(T4), n, D, nm)),
                'construct_distribution(x): proper, restriction to the original variables is the input')
            for j, (bases, bound, size) in enumerate(o['aux']):
                parents = []
                for b in bases:
                    if b < ng:
                        parents.extend(groups[b])
                    else:
                        parents.append(n + (b - ng))
                parents = sorted(set(parents))
                rest = [v for v in range(n + j) if v not in parents]
                if rest:
                    add(okd('cmi_data15 %s %d%%nat %s %s %s' % (D, n + naux, nl([n + j]), nl(rest), nl(parents)), 0.0, Fraction(1, 1000)),
                        'auxiliary variable %d depends only on its parents %s' % (j, parents))
    item['defs'] = '\n'.join(defs)
    return item


def nontrivial(case, o):
    return sum(1 for p in case['spec']['pmf'] if p > 0) >= 2


def describe(case, o):
    s = case['spec']
    d = {'kind': case['kind'], 'n': s['n'], 'names': s['names'] is not None, 'base': str(s['base'])}
    if case['kind'] != 'bounds':
        d['xkind'] = case['xkind']
        d['bound'] = str(case['bound'])
        if 'aux' in o:
            d['aux'] = str([[a[0], a[1]] for a in o['aux']])
    return d


def timeout_ok(case):
    # only the cases that run SciPy's optimisation can legitimately exceed the per-case limit
    return case['kind'] == 'bounds' or case.get('xkind') == 'optimum'


def matches_finding(f, case, o, v):
    if f['id'] == 'C15-units-log-base':
        # only the comparisons between dit's own trivial bounds (in the distribution's base) and the optimised value (in bits) may fail,
        # and only by the unit factor
        if case['kind'] != 'bounds' or case.get('which') != 'skar' or case['spec']['base'] in ('linear', 2, 2.0):
            return False
        labels, verd = o.get('_goal_labels') or [], o.get('_goal_verdicts') or []
        bad = [l for l, x in zip(labels, verd) if x != 'OK']
        if not bad or not all(l.startswith('trivial') for l in bad):
            return False
        b = case['spec']['base']
        factor = math.log2(math.e if b == 'e' else float(b))
        # after converting dit's bounds to bits they do bracket the value: the disagreement is the unit factor and nothing else
        lo, up = sorted([o['lower'] * factor, o['upper'] * factor])
        return lo - 2e-3 <= o['value'] <= up + 2e-3
    return False
