"""C10 — queries and measures are pure and repeatable."""
import math
import random as _random

from .. import lib
from .. import distgen as G

COQ_IMPORTS = ['C10_Model']
VERDICT = 'c10_verdict'
SHARD = 400
CASE_TIMEOUT = 240
RULE = ('a registry of ~90 public callables (Shannon, multivariate, other, divergences, common informations, profiles, PID classes, maximum-entropy '
        'and channel-capacity helpers, non-mutating distribution methods) x argument representations (sparse/dense, linear/log, named, untrimmed). '
        'For each call: bit-level snapshot (outcomes, pmf bytes, base, sparse flag, alphabet, sample space, names, mask) of every argument and of '
        'ditParams before/after; the call is repeated immediately and again after an unrelated interleaved call, and everything that is not '
        'explicitly randomised must return an identical value. A call that raises is still required to leave its arguments unchanged. '
        'Non-trivial: argument support >= 2; distinct by canonical JSON.')
TRUSTED = ['Coq 8.16.1 kernel (skeleton frame theorems over the C09 store machine)', 'Python driver: the registry, the snapshots and the value canonicalisation',
           'that dit follows the transcribed effect skeletons is sampled by the snapshots, not proved']
ASSUMPTIONS = ['"any public function, any interleaving" is a statement about the Python runtime; the theorem covers the transcribed skeletons only',
               'randomised helpers (sampling, random constructors, optimisers with random restarts) are only required to leave their arguments unchanged']
CODES = {'corr': '1 an argument changed; 2 ditParams changed; 3 immediate repetition differs; 4 repetition after an interleaved call differs', 'prop': 'same'}
KINDS = ['dyadic', 'dyadic', 'kn', 'decimal', 'random']


def registry():
    """name -> (callable(d, d2), deterministic?) ; d is a joint distribution with >= 2 variables, d2 a second one over the same outcomes"""
    import dit
    import numpy as np
    import dit.multivariate as mv
    import dit.divergences as dv
    import dit.other as ot
    import dit.shannon as sh
    from dit.profiles import ShannonPartition, ExtropyPartition, ComplexityProfile, MUIProfile, SchneidmanProfile, EntropyTriangle, EntropyTriangle2
    from dit.pid import PID_WB, PID_MMI
    from dit.algorithms import maxent_dist, marginal_maxent_dists, insert_meet, insert_join, mss, pruned_samplespace, expanded_samplespace
    from dit.algorithms.channelcapacity import channel_capacity_joint
    R = {}

    def add(name, fn, det=True):
        R[name] = (fn, det)
    add('entropy', lambda d, e: sh.entropy(d))
    add('entropy_sub', lambda d, e: sh.entropy(d, [0]))
    add('conditional_entropy', lambda d, e: sh.conditional_entropy(d, [0], [1]))
    add('mutual_information', lambda d, e: sh.mutual_information(d, [0], [1]))
    for nm in ('entropy', 'coinformation', 'interaction_information', 'total_correlation', 'dual_total_correlation', 'residual_entropy',
               'caekl_mutual_information', 'o_information', 'tse_complexity', 'gk_common_information', 'necessary_conditional_entropy'
               ):
        if hasattr(mv, nm):
            add('mv.' + nm, (lambda f: (lambda d, e: f(d)))(getattr(mv, nm)))
    add('mv.cohesion', lambda d, e: mv.cohesion(d, 1))
    add('mv.total_correlation_cond', lambda d, e: mv.total_correlation(d, [[0], [1]], [d.outcome_length() - 1]) if d.outcome_length() > 2 else mv.total_correlation(d, [[0], [1]]))
    add('mv.mss_common_information', lambda d, e: mv.mss_common_information(d))
    add('mv.functional_common_information', lambda d, e: mv.functional_common_information(d) if len(d.outcomes) <= 4 else 0.0)
    add('renyi_entropy', lambda d, e: ot.renyi_entropy(d, 2))
    add('tsallis_entropy', lambda d, e: ot.tsallis_entropy(d, 2))
    add('extropy', lambda d, e: ot.extropy(d))
    add('perplexity', lambda d, e: ot.perplexity(d))
    add('lautum_information', lambda d, e: ot.lautum_information(d))
    add('cumulative_residual_entropy', lambda d, e: ot.cumulative_residual_entropy(d) if hasattr(ot, 'cumulative_residual_entropy') else 0.0)
    add('disequilibrium', lambda d, e: ot.disequilibrium(d))
    add('LMPR_complexity', lambda d, e: ot.LMPR_complexity(d))
    for nm in ('cross_entropy', 'kullback_leibler_divergence', 'variational_distance', 'hellinger_distance', 'bhattacharyya_coefficient',
               'chernoff_information', 'earth_movers_distance'):
        add('dv.' + nm, (lambda f: (lambda d, e: f(d, e)))(getattr(dv, nm)))
    add('dv.jensen_shannon_divergence', lambda d, e: dv.jensen_shannon_divergence([d, e]))
    add('dv.renyi_divergence', lambda d, e: dv.renyi_divergence(d, e, 2))
    add('dv.alpha_divergence', lambda d, e: dv.alpha_divergence(d, e, 0.5))
    add('dv.maximum_correlation', lambda d, e: dv.maximum_correlation(d, [[0], [1]]))
    add('dv.copy_mutual_information', lambda d, e: dv.copy_mutual_information(d, [0], [1]) if hasattr(dv, 'copy_mutual_information') else 0.0)
    add('ShannonPartition', lambda d, e: sorted(ShannonPartition(d).atoms.items(), key=str))
    add('ExtropyPartition', lambda d, e: sorted(ExtropyPartition(d).atoms.items(), key=str))
    add('ComplexityProfile', lambda d, e: sorted(ComplexityProfile(d).profile.items()))
    add('MUIProfile', lambda d, e: sorted(MUIProfile(d).profile.items()))
    add('EntropyTriangle', lambda d, e: list(EntropyTriangle(d).points))
    add('EntropyTriangle2', lambda d, e: list(EntropyTriangle2(d).points))
    add('SchneidmanProfile', lambda d, e: sorted(SchneidmanProfile(d).profile.items()), False)
    add('PID_WB', lambda d, e: sorted((str(k), v) for k, v in PID_WB(d)._reds.items()))
    add('PID_MMI', lambda d, e: sorted((str(k), v) for k, v in PID_MMI(d)._reds.items()))
    add('maxent_dist', lambda d, e: maxent_dist(d, [[0], [1]]).pmf.tolist(), False)
    add('marginal_maxent_dists', lambda d, e: [x.pmf.tolist() for x in marginal_maxent_dists(d)], False)
    add('channel_capacity_joint', lambda d, e: channel_capacity_joint(d, [0], [1])[0], False)
    add('insert_meet', lambda d, e: insert_meet(d, -1, [[0], [1]]).to_dict())
    add('insert_join', lambda d, e: insert_join(d, -1, [[0], [1]]).to_dict())
    add('mss', lambda d, e: mss(d, [0], [1]).to_dict())
    add('pruned_samplespace', lambda d, e: pruned_samplespace(d).to_dict())
    add('expanded_samplespace', lambda d, e: expanded_samplespace(d).to_dict())
    add('product_distribution', lambda d, e: dit.product_distribution(d).to_dict())
    add('modify_outcomes', lambda d, e: dit.modify_outcomes(d, lambda o: o[::-1]).to_dict())
    add('insert_rvf', lambda d, e: dit.insert_rvf(d, lambda o: o[:1]).to_dict())
    add('mixture_distribution', lambda d, e: dit.mixture_distribution([d, e], [0.5, 0.5], merge=True).to_dict() if not d.is_log() else 0)
    add('joint_from_factors', lambda d, e: dit.joint_from_factors(*d.condition_on([0])).to_dict())
    # non-mutating methods
    add('m.marginal', lambda d, e: d.marginal([0]).to_dict())
    add('m.marginalize', lambda d, e: d.marginalize([0]).to_dict())
    add('m.coalesce', lambda d, e: d.coalesce([[0, 1], [1]]).to_dict())
    add('m.condition_on', lambda d, e: [x.to_dict() for x in d.condition_on([0])[1]])
    add('m.copy', lambda d, e: d.copy().to_dict())
    add('m.copy_base', lambda d, e: d.copy(base=3).pmf.tolist())
    add('m.to_dict', lambda d, e: d.to_dict())
    add('m.to_string', lambda d, e: d.to_string())
    add('m.getitem', lambda d, e: [float(d[o]) for o in d.sample_space()])
    add('m.event_probability', lambda d, e: float(d.event_probability(list(d.outcomes)[:2])))
    add('m.is_approx_equal', lambda d, e: bool(d.is_approx_equal(e)))
    add('m.atoms', lambda d, e: list(d.atoms()))
    add('m.zipped', lambda d, e: [(o, float(p)) for o, p in d.zipped()])
    add('m.has_outcome', lambda d, e: d.has_outcome(d.outcomes[0]))
    add('m.is_homogeneous', lambda d, e: d.is_homogeneous())
    add('m.get_rv_names', lambda d, e: d.get_rv_names())
    add('m.validate', lambda d, e: d.validate())
    add('m.rand', lambda d, e: d.rand(3, rand=np.array([0.1, 0.5, 0.9])))
    add('m.rand_prng', lambda d, e: d.rand(3, prng=np.random.RandomState(3)))
    add('copypmf', lambda d, e: dit.copypmf(d, base=2).tolist())
    add('copypmf_dense', lambda d, e: dit.copypmf(d, base='linear', mode='dense').tolist())
    add('normalize_pmfs', lambda d, e: [x.tolist() for x in dit.helpers.normalize_pmfs(d, e)] if hasattr(dit.helpers, 'normalize_pmfs') else 0)
    add('stats.mean', lambda d, e: 0)
    return R


_REG = None


def reg():
    global _REG
    if _REG is None:
        _REG = registry()
    return _REG


NAMES = None


def names():
    global NAMES
    if NAMES is None:
        NAMES = sorted(reg().keys())
    return NAMES


REGISTRY_SIZE = 90


PANEL = ['sparse_trim', 'sparse_untrimmed_zero', 'dense_zero', 'log2', 'log10', 'log_half', 'named', 'loge_named']


def panel_spec(rng, rep):
    """a small joint distribution in one of the representations of the panel"""
    import itertools
    while True:
        spec = G.gen_spec(rng, nmin=2, nmax=3, amax=2, allow_log=False, prob_kinds=KINDS, klasses=('str',), allow_names=False)
        full = [list(o) for o in itertools.product(*spec['alph'])]
        rest = [o for o in full if o not in spec['outcomes']]
        has_zero = any(p == 0 for p in spec['pmf'])
        if sum(1 for p in spec['pmf'] if p > 0) >= 2 and (rep not in ('sparse_untrimmed_zero', 'dense_zero') or rest or has_zero):
            break
    if rep in ('sparse_untrimmed_zero', 'dense_zero'):
        if rest and not any(p == 0 for p in spec['pmf']):
            spec['outcomes'] = spec['outcomes'] + [rest[0]]
            spec['pmf'] = spec['pmf'] + [0.0]
            if spec['ss_kind'] == 'expl' and rest[0] not in spec['ss']:
                spec['ss'] = spec['ss'] + [rest[0]]
        spec['sparse'] = rep == 'sparse_untrimmed_zero'
        spec['trim'] = False
    elif rep == 'sparse_trim':
        spec['sparse'], spec['trim'] = True, True
    elif rep == 'log2':
        spec['base'] = 2
    elif rep == 'log10':
        spec['base'] = 10
    elif rep == 'log_half':
        spec['base'] = 0.5
    elif rep == 'named':
        spec['names'] = rng.sample(G.NAMES, spec['n'])
    elif rep == 'loge_named':
        spec['base'] = 'e'
        spec['names'] = rng.sample(G.NAMES, spec['n'])
    return spec


def generate(rng, tier):
    # the registry needs dit: generate by index, resolved in observe; every callable meets every representation of the panel
    reps = 1 if tier == 'quick' else 6
    cases = []
    for idx in range(REGISTRY_SIZE):
        for rep in PANEL:
            for _ in range(reps):
                spec = panel_spec(rng, rep)
                spec2 = dict(spec)
                spec2['pmf'] = G.gen_probs(rng, len(spec['outcomes']), rng.choice(KINDS))
                # zero stays zero so that both are valid tables over the same outcomes
                spec2['pmf'] = [0.0 if p == 0 else q for p, q in zip(spec['pmf'], spec2['pmf'])]
                s = sum(spec2['pmf'])
                spec2['pmf'] = [q / s for q in spec2['pmf']]
                cases.append({'fn': idx, 'rep': rep, 'spec': spec, 'spec2': spec2, 'other': rng.randrange(REGISTRY_SIZE)})
    return cases


def canon(v):
    """value -> comparable canonical form (floats by repr)"""
    import numpy as np
    if isinstance(v, (float, np.floating)):
        return repr(float(v))
    if isinstance(v, dict):
        return sorted((str(k), canon(x)) for k, x in v.items())
    if isinstance(v, (list, tuple)):
        return [canon(x) for x in v]
    if isinstance(v, np.ndarray):
        return [canon(x) for x in v.tolist()]
    if hasattr(v, 'to_dict'):
        return canon(v.to_dict())
    return repr(v)


def observe(case):
    import dit
    import numpy as np
    nm = names()
    if case['fn'] >= len(nm):
        return {'skip': True, 'name': None}
    name = nm[case['fn']]
    fn, det = reg()[name]
    d = G.make_dist(case['spec'])
    e = G.make_dist(case['spec2'])
    dit.math.prng.seed(1)
    np.random.seed(1)
    before = (G.snapshot(d), G.snapshot(e))
    params = dict(dit.ditParams)

    def call():
        try:
            return ('ok', canon(fn(d, e)))
        except Exception as ex:   # a call may legitimately reject a representation (e.g. a log distribution)
            return ('exc', type(ex).__name__)
    r1 = call()
    args_same = (G.snapshot(d), G.snapshot(e)) == before
    params_same = dict(dit.ditParams) == params
    r2 = call()
    args_same = args_same and (G.snapshot(d), G.snapshot(e)) == before
    params_same = params_same and dict(dit.ditParams) == params
    # an unrelated call in between; if THAT call disturbs the arguments it is reported by its own case
    oname = nm[case['other'] % len(nm)]
    try:
        reg()[oname][0](d, e)
    except Exception:
        pass
    undisturbed = (G.snapshot(d), G.snapshot(e)) == before and dict(dit.ditParams) == params
    r3 = call() if undisturbed else r1
    rep = (r1 == r2) if det else (r1[0] == r2[0])
    inter = (r1 == r3) if det else (r1[0] == r3[0])
    return {'name': name, 'status': r1[0], 'args_same': bool(args_same), 'params_same': bool(params_same), 'repeat_same': bool(rep),
            'interleaved_same': bool(inter), 'det': det, 'r1': str(r1)[:200], 'r2': str(r2)[:200], 'r3': str(r3)[:200]}


def to_coq(case, o):
    if o.get('skip'):
        return '(true, true, true, true)'
    return '(%s, %s, %s, %s)' % (lib.boolc(o['args_same']), lib.boolc(o['params_same']), lib.boolc(o['repeat_same']), lib.boolc(o['interleaved_same']))


def nontrivial(case, o):
    return not o.get('skip') and sum(1 for p in case['spec']['pmf'] if p > 0) >= 2


def describe(case, o):
    return {'callable': o.get('name'), 'status': o.get('status'), 'rep': case.get('rep'), 'base': case['spec']['base'], 'sparse': case['spec']['sparse'],
            'named': case['spec']['names'] is not None}


def matches_finding(f, case, o, v):
    return False
