"""C14 — maximum-entropy distributions match their marginals and have maximal entropy."""
import itertools
import math
from fractions import Fraction

from .. import lib
from .. import distgen as G

MODE = 'goals'
COQ_IMPORTS = ['Check', 'C14_Model']
SHARD = 3
CASE_TIMEOUT = 300
PREAMBLE = 'Definition bgoal (b : bool) : Prop := b = true.\nDefinition nbgoal (b : bool) : Prop := b = false.\n'
RULE = ('joint distributions of 2..4 variables from the structured generator (heterogeneous alphabets, structural zeros, functional / block / duplicated-column supports, '
        'explicit and enlarged Cartesian sample spaces, named variables, sparse or dense, any base; sample space <= 36 cells) with random families of marginal constraints '
        '(overlapping, nested, singleton-only, full, by index or by name); maxent_dist and marginal_maxent_dists. Non-trivial: at least two outcomes of positive probability.')
TRUSTED = ['Coq 8.16.1 kernel incl. vm_compute; Coq-Interval',
           'Python driver: float -> exact rational conversion, symbol -> rank encoding; the driver\'s iterative proportional fitting only supplies hints (potentials theta, the IPF table) '
           'that are checked inside Coq; a hint the driver itself finds inaccurate is dropped (hints_dropped in the evidence)',
           'the alphabets of the prepared distribution are read from dit (sample-space handling is the subject of C01/C02)',
           'model C14_Model.v hand-written; the SLSQP iterations are not modelled']
ASSUMPTIONS = ['tolerances: marginals within 1e-5, entropy within 1e-4 of the certified bound, cells within 1e-4 of the IPF table (measured: 4e-7, 1e-6, 1e-6)',
               'a non-Cartesian sample space is read as the product of its per-variable alphabets (the dense array the optimiser needs)']
CODES = {'corr': 'k = index+1 of first false goal (see goal_labels); 90 = python-side violation', 'prop': 'same'}
TM = Fraction(1, 10 ** 5)
TH = Fraction(1, 10 ** 4)
TC = Fraction(1, 10 ** 4)
T9 = Fraction(1, 10 ** 8)    # dit trims probabilities within 1e-9 of zero


def gen_groups(rng, n):
    allv = list(range(n))
    subsets = [list(c) for r in range(1, n + 1) for c in itertools.combinations(allv, r)]
    kind = rng.choice(['random', 'random', 'singletons', 'full', 'pairs', 'nested', 'one'])
    if kind == 'singletons':
        gs = [[i] for i in allv]
        if rng.random() < 0.3:
            gs = rng.sample(gs, rng.randint(1, n))
    elif kind == 'full':
        gs = [allv] + ([rng.choice(subsets)] if rng.random() < 0.5 else [])
    elif kind == 'pairs' and n >= 2:
        gs = [list(c) for c in itertools.combinations(allv, 2)]
        if rng.random() < 0.4:
            gs = rng.sample(gs, rng.randint(1, len(gs)))
    elif kind == 'nested' and n >= 2:
        big = rng.choice([s for s in subsets if len(s) >= 2])
        gs = [big, [big[0]], rng.choice(subsets)]
    elif kind == 'one':
        gs = [rng.choice(subsets)]
    else:
        gs = rng.sample(subsets, rng.randint(1, min(3, len(subsets))))
    if rng.random() < 0.3:
        gs = [list(reversed(g)) if rng.random() < 0.5 else g for g in gs]
    return gs, kind


def generate(rng, tier):
    mult = 1 if tier == 'quick' else 8
    cases = []
    while len(cases) < 40 * mult:
        spec = G.gen_spec(rng, nmin=2, nmax=4, amax=3, max_ss=36, klasses=('str', 'int', 'strtuple'))
        if sum(1 for p in spec['pmf'] if p > 0) < 2:
            continue
        if spec['n'] == 4 and rng.random() < 0.6:
            continue
        gs, gk = gen_groups(rng, spec['n'])
        byname = spec['names'] is not None and rng.random() < 0.7
        case = {'kind': 'maxent', 'spec': spec, 'groups': gs, 'gkind': gk, 'byname': byname, 'sparse_out': rng.random() < 0.7}
        if rng.random() < 0.35:
            # a preceding call on a distribution of another shape in the same interpreter (stale state between calls)
            case['warmup'] = {'n': rng.choice([2, 3, 4]), 'a': rng.choice([2, 3]), 'groups': rng.choice(['singletons', 'pairs'])}
        cases.append(case)
    for i in range(6 * mult):
        # homogeneous alphabets, singleton or pair constraints, after a call on another shape
        n = rng.choice([2, 3])
        a = rng.choice([2, 3])
        full = [list(o) for o in itertools.product(range(a), repeat=n)]
        sup = rng.sample(full, rng.randint(max(2, len(full) // 2), len(full)))
        ws = [rng.random() + 0.05 for _ in sup]
        spec = {'n': n, 'klass': 'str', 'alph': [list(range(a))] * n, 'outcomes': sup, 'pmf': [w / sum(ws) for w in ws], 'ss_kind': 'default', 'ss': None,
                'base': 'linear', 'sparse': True, 'trim': True, 'names': None}
        gs = [[j] for j in range(n)] if i % 2 == 0 else [list(c) for c in itertools.combinations(range(n), 2)]
        cases.append({'kind': 'maxent', 'spec': spec, 'groups': gs, 'gkind': 'after-other-shape', 'byname': False, 'sparse_out': True,
                      'warmup': {'n': 5 - n, 'a': a, 'groups': 'singletons' if i % 2 == 0 else 'pairs'}})
    while len(cases) < 52 * mult:
        spec = G.gen_spec(rng, nmin=2, nmax=3, amax=3, max_ss=27, klasses=('str', 'int'))
        if sum(1 for p in spec['pmf'] if p > 0) < 2:
            continue
        cases.append({'kind': 'chain', 'spec': spec})
    return cases


# ------------------------------------------------------------------------------------------------
# the driver's IPF: hints only


def ipf(shape, groups, margs, iters=20000):
    import numpy as np
    n = len(shape)
    logF = [np.zeros(m.shape) for m in margs]
    alive = [np.ones(m.shape, dtype=bool) for m in margs]
    q = np.ones(shape) / np.prod(shape)
    for it in range(iters):
        old = q
        for gi, (g, m) in enumerate(zip(groups, margs)):
            gs = sorted(g)
            ax = tuple(i for i in range(n) if i not in gs)
            cur = q.sum(axis=ax)
            with np.errstate(all='ignore'):
                f = np.where(cur > 0, m / cur, 0.0)
                logF[gi] = np.where(f > 0, logF[gi] + np.log2(np.where(f > 0, f, 1.0)), logF[gi])
            alive[gi] &= f > 0
            q = q * f.reshape([shape[i] if i in gs else 1 for i in range(n)])
        if np.abs(q - old).max() < 1e-15:
            break
    theta = [np.where(a, lf, -60.0) for a, lf in zip(alive, logF)]
    return q, theta


def observe(case):
    import numpy as np
    import dit
    from dit.algorithms.distribution_optimizers import maxent_dist, marginal_maxent_dists
    from dit.samplespace import CartesianProduct
    spec = case['spec']
    d = G.make_dist(spec)
    n = spec['n']
    before = G.snapshot(d)
    ss = d._sample_space
    syms = G.SYMS[spec['klass']]
    if isinstance(ss, CartesianProduct):
        alph = [sorted(syms.index(x) for x in a) for a in ss.alphabets]
    else:
        alph = [sorted(set(syms.index(o[i]) for o in ss)) for i in range(n)]
    dtab = {}
    for o, v in zip(d.outcomes, d.pmf):
        dtab[tuple(G.rko(spec, o))] = G.linearise(d, v)
    res = {'alph': alph, 'dtab': [[list(k), v] for k, v in dtab.items()]}

    def table(x):
        return [[G.rko(spec, o), G.linearise(x, v)] for o, v in zip(x.outcomes, x.pmf)]

    def meta(x):
        return {'alphabet': [sorted(syms.index(s) for s in a) for a in x.alphabet], 'names': x.get_rv_names(), 'base': str(x.get_base()),
                'sparse': bool(x.is_sparse())}
    if case['kind'] == 'maxent':
        gs = case['groups']
        if case.get('warmup'):
            w = case['warmup']
            outs = [''.join(map(str, o)) for o in itertools.product(range(w['a']), repeat=w['n'])]
            wd = dit.Distribution(outs, [1.0 / len(outs)] * len(outs))
            wg = [[j] for j in range(w['n'])] if w['groups'] == 'singletons' else [list(c) for c in itertools.combinations(range(w['n']), 2)]
            try:
                maxent_dist(wd, wg)
            except Exception:
                pass
        if case['byname']:
            arg = [[spec['names'][i] for i in g] for g in gs]
            me = maxent_dist(d, arg, sparse=case['sparse_out'])
        elif spec['names'] is not None:
            me = maxent_dist(d, gs, sparse=case['sparse_out'], rv_mode='indices')
        else:
            me = maxent_dist(d, gs, sparse=case['sparse_out'])
        res['me'] = table(me)
        res['meta'] = meta(me)
        res['groups_list'] = [gs]
        res['tables'] = [res['me']]
    else:
        ds = marginal_maxent_dists(d)
        res['tables'] = [table(x) for x in ds]
        res['metas'] = [meta(x) for x in ds]
        res['groups_list'] = [[list(c) for c in itertools.combinations(range(n), k)] for k in range(n + 1)]
    res['src_same'] = G.snapshot(d) == before
    # hints
    shape = [len(a) for a in alph]
    P = np.zeros(shape)
    for k, v in dtab.items():
        P[tuple(alph[i].index(k[i]) for i in range(n))] = v
    hints = []
    for gs in res['groups_list']:
        gs2 = [g for g in gs if len(g) > 0]
        margs = [P.sum(axis=tuple(i for i in range(n) if i not in g)) for g in gs2]
        if gs2:
            q, theta = ipf(shape, gs2, margs)
        else:
            q, theta = np.ones(shape) / np.prod(shape), []
        tabs = []
        for g, th in zip(gs2, theta):
            g_sorted = sorted(g)
            rows = []
            for idx in itertools.product(*[range(shape[i]) for i in g_sorted]):
                key = [None] * len(g)
                for pos, v in zip(g_sorted, idx):
                    key[g.index(pos)] = alph[pos][v]
                rows.append([key, round(float(th[idx]), 12)])
            tabs.append([g, rows])
        rh = [[[alph[i][idx[i]] for i in range(n)], float(q[idx])] for idx in itertools.product(*[range(s) for s in shape])]
        # driver-side quality of the hint: dual value vs entropy of the IPF table
        Z = 0.0
        for idx in itertools.product(*[range(s) for s in shape]):
            sc = sum(round(float(th[tuple(idx[i] for i in sorted(g))]), 12) for g, th in zip(gs2, theta))
            Z += 2.0 ** sc
        lin = sum(float((np.round(th, 12) * m).sum()) for th, m in zip(theta, margs))
        mu = float(P.sum())
        ub = mu * math.log2(Z) - lin + (1 - mu) / math.log(2)
        hq = -sum(v * math.log2(v) for v in q.ravel() if v > 0)
        merr = max([float(np.abs(q.sum(axis=tuple(i for i in range(n) if i not in g)) - m).max()) for g, m in zip(gs2, margs)] or [0.0])
        hints.append({'theta': tabs, 'rh': rh, 'ub': ub, 'hq': hq, 'good': bool(abs(ub - hq) < 2e-7 and merr < 1e-9)})
    res['hints'] = hints
    return res


# ------------------------------------------------------------------------------------------------


def bg(e):
    return ('bgoal (stage (%s))' % e, 'nbgoal (stage (%s))' % e)


def ge(data, obs, tol):
    return ('gegoal (Some (stage (%s))) %s %s' % (data, lib.qf(obs), lib.qz(tol)), 'ltgoal (Some (stage (%s))) %s %s' % (data, lib.qf(obs), lib.qz(tol)))


def le(data, obs, tol):
    return ('legoal (Some (stage (%s))) %s %s' % (data, lib.qf(obs), lib.qz(tol)), 'gtgoal (Some (stage (%s))) %s %s' % (data, lib.qf(obs), lib.qz(tol)))


_counter = [0]


def theta_term(tabs):
    return '[' + ';'.join('(%s, %s)' % (lib.natlist(g), lib.pdc([(k, Fraction(v).limit_denominator(10 ** 12)) for k, v in rows])) for g, rows in tabs) + ']'


def to_coq(case, o):
    _counter[0] += 1
    nm = 'c14_%d' % _counter[0]
    spec = case['spec']
    n = spec['n']
    item = {'defs': '', 'goals': [], 'labels': []}

    def add(g, label):
        item['goals'].append(g)
        item['labels'].append(label)
    if not o['src_same']:
        item['pyviolation'] = 'the input distribution changed'
    alph = o['alph']
    defs = ['Definition %s_alph : list (list nat) := %s.' % (nm, lib.natlistlist(alph)),
            'Definition %s_ss : list outcome := cart %s_alph.' % (nm, nm),
            'Definition %s_d : pd := %s.' % (nm, lib.pdc([(k, v) for k, v in o['dtab']]))]
    for v in [x[1] for x in o['dtab']]:
        if not math.isfinite(v):
            item['pyviolation'] = 'non-finite input probability'
            return item
    for ti, tab in enumerate(o['tables']):
        if not all(math.isfinite(v) for k, v in tab):
            item['pyviolation'] = 'non-finite probability in the result'
            return item
        defs.append('Definition %s_q%d : pd := %s.' % (nm, ti, lib.pdc([(k, v) for k, v in tab])))
    metas = [o['meta']] if case['kind'] == 'maxent' else o['metas']
    for ti, m in enumerate(metas):
        if m['alphabet'] != alph and not (case['kind'] == 'chain' and ti in (0, 1)):
            item['pyviolation'] = 'result %d has alphabet %r, expected that of the input sample space %r' % (ti, m['alphabet'], alph)
        if m['base'] != 'linear':
            item['pyviolation'] = 'result %d is not in linear base' % ti
        if m['names'] != (None if spec['names'] is None else list(spec['names'])) and tuple(m['names'] or ()) != tuple(spec['names'] or ()):
            if not (case['kind'] == 'chain' and ti in (0, 1)):
                item['pyviolation'] = 'result %d lost the variable names: %r' % (ti, m['names'])
    ntab = len(o['tables'])
    for ti in range(ntab):
        gs = o['groups_list'][ti]
        h = o['hints'][ti]
        q = '%s_q%d' % (nm, ti)
        what = ('maxent_dist%s' % gs) if case['kind'] == 'maxent' else ('marginal_maxent_dists[%d]' % ti)
        gsl = lib.natlistlist([g for g in gs if g])
        add(bg('pd_ok %s_alph %s && margs_match %s %s %s_d %s' % (nm, q, lib.qz(TM), q, nm, gsl)),
            '%s: a distribution on the input sample space whose constrained marginals equal the input\'s' % what)
        add(ge('RAdd (entropy_data %s) (RNeg (entropy_data %s_d))' % (q, nm), 0.0, Fraction(1, 10 ** 6)), '%s: entropy at least that of the input' % what)
        if h['good']:
            defs.append('Definition %s_th%d : potentials := %s.' % (nm, ti, theta_term(h['theta'])))
            defs.append('Definition %s_rh%d : pd := %s.' % (nm, ti, lib.pdc([(k, v) for k, v in h['rh']])))
            th = '%s_th%d' % (nm, ti)
            rh = '%s_rh%d' % (nm, ti)
            add(bg('theta_ok %s %s_ss && onodup %s_ss' % (th, nm, nm)), '%s: hinted potentials are well formed' % what)
            add(ge('RAdd (entropy_data %s) (RNeg (ub_data %s %s_ss %s_d))' % (q, th, nm, nm), 0.0, TH),
                '%s: entropy within 1e-4 of the certified upper bound on every distribution with those marginals' % what)
            add(le('RAdd (entropy_data %s) (RNeg (ub_data %s %s_ss %s_d))' % (q, th, nm, nm), 0.0, TH), '%s: entropy not above the bound (weak duality, up to the marginal tolerance)' % what)
            add(bg('margs_match %s %s %s_d %s && pd_close %s %s_ss %s %s' % (lib.qz(Fraction(1, 10 ** 8)), rh, nm, gsl, lib.qz(TC), nm, q, rh)),
                '%s: coincides with the iterative-proportional-fitting table (itself matching the marginals to 1e-8)' % what)
            add(ge('RAdd (entropy_data %s) (RNeg (ub_data %s %s_ss %s_d))' % (rh, th, nm, nm), 0.0, Fraction(1, 10 ** 6)), '%s: the IPF table attains the bound to 1e-6' % what)
        else:
            item['hint_dropped'] = True
        cover = sorted(set(i for g in gs for i in g))
        if gs and all(len(g) == 1 for g in gs) and cover == list(range(n)):
            add(bg('pd_close %s %s_ss %s (product_pd %d%%nat %s_ss %s_d)' % (lib.qz(TC), nm, q, n, nm, nm)), '%s: singleton constraints give the product of the marginals' % what)
        if any(sorted(g) == list(range(n)) for g in gs):
            add(bg('pd_close %s %s_ss %s %s_d' % (lib.qz(Fraction(1, 10 ** 5)), nm, q, nm)), '%s: a constraint covering all variables gives the input itself' % what)
    if case['kind'] == 'chain':
        add(bg('pd_close %s %s_ss %s_q0 (uniform_pd %s_ss)' % (lib.qz(T9), nm, nm, nm)), 'chain[0] is uniform on the sample space')
        add(bg('pd_close %s %s_ss %s_q1 (product_pd %d%%nat %s_ss %s_d)' % (lib.qz(T9), nm, nm, n, nm, nm)), 'chain[1] is the product of the marginals')
        add(bg('pd_close %s %s_ss %s_q%d %s_d && Nat.eqb %d %d' % (lib.qz(T9), nm, nm, ntab - 1, nm, ntab, n + 1)), 'chain ends with the input itself and has n+1 elements')
        for ti in range(ntab - 1):
            add(le('RAdd (entropy_data %s_q%d) (RNeg (entropy_data %s_q%d))' % (nm, ti + 1, nm, ti), 0.0, Fraction(1, 10 ** 6)), 'entropy does not increase from chain[%d] to chain[%d]' % (ti, ti + 1))
    item['defs'] = '\n'.join(defs)
    return item


def nontrivial(case, o):
    return sum(1 for p in case['spec']['pmf'] if p > 0) >= 2


def describe(case, o):
    s = case['spec']
    d = {'kind': case['kind'], 'n': s['n'], 'ss_kind': s['ss_kind'], 'base': str(s['base']), 'names': s['names'] is not None, 'sparse': s['sparse']}
    if case['kind'] == 'maxent':
        d['groups'] = case['gkind']
        d['byname'] = case['byname']
    return d


def matches_finding(f, case, o, v):
    return False
