"""C11 — distribution constructors and algebra compute the defined table operations."""
import itertools
import math
from fractions import Fraction

import numpy as np

from .. import lib
from .. import distgen as G

MODE = 'goals'
COQ_IMPORTS = ['Check', 'C11_Model']
SHARD = 25
RULE = ('one constructor / operator per case on random inputs: modify_outcomes (injective or merging maps), insert_rvf (index -1 and interior, 1-2 new '
        'symbols), product_distribution (all groupings), mixture_distribution (merge True/False) and mixture_distribution2, scalar operators '
        '+ - * // % < <= == != > >= between two scalar distributions or with a number, @, uniform / uniform_distribution / uniform_scalar_distribution / '
        'uniform_like, noisy, erasure, pruned_samplespace, expanded_samplespace, giant_bit, n_mod_m, iid_sum, summed_dice, And/Or/Xor, binomial, '
        'hypergeometric, bernoulli, numeric.uniform, and mean / central / standardised moments / standard deviation / median / mode; linear and log bases '
        'where the constructor accepts them. to_dict() is compared with the model table as a dictionary (|dp| <= 1e-9). '
        'Non-trivial: input support >= 2; distinct by canonical JSON.')
TRUSTED = ['Coq 8.16.1 kernel incl. vm_compute; Coq-Interval for the square-root statistics', 'Python driver: symbols are integers / digit characters (encoded by value), base**x linearisation',
           'model C11_Model.v hand-written; tie = sampled correspondence']
ASSUMPTIONS = ['float rounding within 1e-9']
CODES = {'corr': 'k = index+1 of first false goal (see goal_labels); 90 = python-side violation (exception, changed argument)', 'prop': 'same'}
TOL = Fraction(1, 10 ** 9)
KINDS = ['modify', 'insert', 'product', 'mixture', 'mixture2', 'scalarop', 'scalarnum', 'matmul', 'uniform', 'noisy', 'erasure', 'pruned',
         'expanded', 'example', 'example', 'stats', 'stats']
PK = ['dyadic', 'dyadic', 'kn', 'decimal', 'random']


def gen_joint(rng, nmin=1, nmax=3, klass=None):
    n = rng.randint(nmin, nmax)
    klass = klass or rng.choice(['str', 'int'])
    alph = [sorted(rng.sample(range(6), rng.randint(1, 3))) for _ in range(n)]
    full = [list(o) for o in itertools.product(*alph)]
    sup = rng.sample(full, rng.randint(1, len(full)))
    ps = G.gen_probs(rng, len(sup), rng.choice(PK))
    return {'n': n, 'klass': klass, 'alph': alph, 'outs': sup, 'ps': ps, 'sparse': rng.random() < 0.7,
            'base': rng.choice([2, 'e', 10]) if rng.random() < 0.3 else 'linear'}


def gen_scalar(rng, lo=-3, hi=8, positive=False):
    k = rng.randint(1, 4)
    vals = sorted(rng.sample(range(1 if positive else lo, hi), k))
    return {'vals': vals, 'ps': G.gen_probs(rng, k, rng.choice(PK)), 'base': rng.choice([2, 'e']) if rng.random() < 0.2 else 'linear'}


def gen_case(rng):
    kind = rng.choice(KINDS)
    c = {'kind': kind}
    if kind == 'modify':
        d = gen_joint(rng)
        imgs = [list(o) for o in itertools.product(range(3), repeat=d['n'])]
        full = [list(o) for o in itertools.product(*d['alph'])]
        c.update(d=d, map=[[o, rng.choice(imgs)] for o in full])
    elif kind == 'insert':
        d = gen_joint(rng)
        k = rng.randint(1, 2)
        full = [list(o) for o in itertools.product(*d['alph'])]
        c.update(d=d, map=[[o, [rng.randrange(3) for _ in range(k)]] for o in full], index=rng.choice([-1, -1] + list(range(d['n'] + 1))))
        # the new variables given as a list of callables (one per appended variable) instead of one callable returning them all
        c['as_list'] = rng.random() < 0.5
    elif kind == 'product':
        d = gen_joint(rng, 2, 3)
        vs = list(range(d['n']))
        rng.shuffle(vs)
        k = rng.randint(1, d['n'])
        gs = [[] for _ in range(k)]
        for i, v in enumerate(vs):
            gs[i % k].append(v)
        c.update(d=d, groups=None if rng.random() < 0.3 else gs)
    elif kind in ('mixture', 'mixture2'):
        d1 = gen_joint(rng)
        d1['base'] = 'linear' if rng.random() < 0.8 else 2
        m = rng.randint(2, 3)
        ds = [d1]
        full = [list(o) for o in itertools.product(*d1['alph'])]
        for _ in range(m - 1):
            same = kind == 'mixture2' or rng.random() < 0.4
            sup = d1['outs'] if same else rng.sample(full, rng.randint(1, len(full)))
            ds.append(dict(d1, outs=sup, ps=G.gen_probs(rng, len(sup), rng.choice(PK))))
        c.update(ds=ds, w=G.gen_probs(rng, m, rng.choice(['dyadic', 'kn'])), merge=(kind == 'mixture' and rng.random() < 0.7))
        if kind == 'mixture' and not c['merge']:
            for x in ds[1:]:
                x['outs'] = d1['outs']
                x['ps'] = G.gen_probs(rng, len(d1['outs']), rng.choice(PK))
    elif kind == 'scalarop':
        op = rng.choice(['+', '-', '*', '//', '%', '<', '<=', '==', '!=', '>', '>='])
        c.update(a=gen_scalar(rng), b=gen_scalar(rng, positive=op in ('//', '%')), op=op)
    elif kind == 'scalarnum':
        op = rng.choice(['+', '-', '*', '//', '%', '<', '>='])
        c.update(a=gen_scalar(rng), num=rng.randint(1, 4), op=op, right=rng.random() < 0.3 and op in ('+', '*', '-'))
    elif kind == 'matmul':
        c.update(a=gen_scalar(rng), b=gen_scalar(rng))
    elif kind == 'uniform':
        sub = rng.choice(['outcomes', 'distribution', 'scalar', 'like'])
        c.update(sub=sub, d=gen_joint(rng, klass='int'), n=rng.randint(1, 3), k=rng.randint(1, 3))
    elif kind == 'noisy':
        d = gen_joint(rng, klass=rng.choice(['str', 'int']))
        d['base'] = 'linear'
        c.update(d=d, noise=rng.choice([0.5, 0.25, 0.1, 0.0, 1.0]))
    elif kind == 'erasure':
        d = gen_joint(rng, 1, 2, klass='str')
        d['base'] = 'linear'
        c.update(d=d, eps=rng.choice([0.5, 0.25, 0.1]))
    elif kind == 'pruned':
        d = gen_joint(rng)
        d['base'] = 'linear'
        d['sparse'] = rng.random() < 0.5
        full = [list(o) for o in itertools.product(*d['alph'])]
        c.update(d=d, keep=rng.sample(full, rng.randint(0, min(2, len(full)))))
    elif kind == 'expanded':
        d = gen_joint(rng)
        d['base'] = 'linear'
        c.update(d=d, union=rng.random() < 0.5, extra=rng.random() < 0.5)
    elif kind == 'example':
        name = rng.choice(['giant_bit', 'n_mod_m', 'iid_sum', 'summed_dice', 'And', 'Or', 'Xor', 'binomial', 'hypergeometric', 'bernoulli', 'uniform_int'])
        c.update(name=name, n=rng.randint(1, 4), k=rng.randint(1, 3), a=rng.choice([1.0, 0.5, 0.0, 0.25]), b=rng.choice([1, 2, 3, 1]),
                 p=rng.choice([0.5, 0.25, 0.1, 0.0, 1.0]), N=rng.randint(2, 8))
        c['K'] = rng.randint(0, c['N'])
        c['nn'] = rng.randint(0, c['N'])
    elif kind == 'stats':
        c.update(a=gen_scalar(rng, lo=-4, hi=12), order=rng.randint(1, 5), what=rng.choice(['mean', 'central', 'standard', 'std', 'median', 'mode']))
        c['a']['base'] = 'linear'
    return c


def generate(rng, tier):
    n = 600 if tier == 'quick' else 6000
    return [gen_case(rng) for _ in range(n)]


# ---- building dit objects --------------------------------------------------------------------
def sym(klass, v):
    return str(v) if klass == 'str' else int(v)


def pyo(klass, o):
    return ''.join(str(v) for v in o) if klass == 'str' else tuple(int(v) for v in o)


def zo(o):
    """dit outcome -> list of integers"""
    if isinstance(o, str):
        return [(-1 if ch == '_' else int(ch)) for ch in o]
    if isinstance(o, (tuple, list)):
        out = []
        for x in o:
            out.extend(zo(x))
        return out
    if isinstance(o, (bool, np.bool_)):
        return [1 if o else 0]
    return [int(o)]


def mk_joint(d):
    import dit
    x = dit.Distribution([pyo(d['klass'], o) for o in d['outs']], list(d['ps']), sparse=d['sparse'])
    if d['base'] != 'linear':
        x.set_base(d['base'])
    return x


def mk_scalar(s):
    import dit
    x = dit.ScalarDistribution(list(s['vals']), list(s['ps']))
    if s['base'] != 'linear':
        x.set_base(s['base'])
    return x


def table(d):
    """to_dict() linearised with integer-list keys"""
    return [[zo(o), G.linearise(d, p)] for o, p in zip(d.outcomes, d.pmf)]


def observe(case):
    import dit
    import operator
    from dit.exceptions import ditException
    from dit.algorithms import pruned_samplespace, expanded_samplespace
    from dit.algorithms.stats import mean, central_moment, standard_moment, standard_deviation, median, mode
    k = case['kind']
    res = {}
    args = []
    if k == 'modify':
        d = mk_joint(case['d'])
        args = [d]
        m = {pyo(case['d']['klass'], a): pyo(case['d']['klass'], b) for a, b in case['map']}
        r = dit.modify_outcomes(d, lambda o: m[o])
    elif k == 'insert':
        d = mk_joint(case['d'])
        args = [d]
        kl = case['d']['klass']
        m = {pyo(kl, a): pyo(kl, b) for a, b in case['map']}
        if case.get('as_list'):
            nk = len(case['map'][0][1])
            r = dit.insert_rvf(d, [(lambda o, j=j: m[o][j:j + 1]) for j in range(nk)], index=case['index'])
        else:
            r = dit.insert_rvf(d, lambda o: m[o], index=case['index'])
    elif k == 'product':
        d = mk_joint(case['d'])
        args = [d]
        r = dit.product_distribution(d, case['groups'])
    elif k in ('mixture', 'mixture2'):
        ds = [mk_joint(x) for x in case['ds']]
        if k == 'mixture2':
            for x in ds:
                x.make_dense()
        args = ds
        w = list(case['w'])
        if case['ds'][0]['base'] != 'linear':
            w = list(ds[0].ops.log(np.array(w)))
        r = dit.mixture_distribution(ds, w, merge=case['merge']) if k == 'mixture' else dit.mixture_distribution2(ds, w)
    elif k in ('scalarop', 'scalarnum', 'matmul'):
        ops = {'+': operator.add, '-': operator.sub, '*': operator.mul, '//': operator.floordiv, '%': operator.mod, '<': operator.lt,
               '<=': operator.le, '==': operator.eq, '!=': operator.ne, '>': operator.gt, '>=': operator.ge}
        a = mk_scalar(case['a'])
        if k == 'scalarop':
            b = mk_scalar(case['b'])
            args = [a, b]
            r = ops[case['op']](a, b)
        elif k == 'matmul':
            b = mk_scalar(case['b'])
            args = [a, b]
            r = a @ b
        else:
            args = [a]
            r = ops[case['op']](case['num'], a) if case['right'] else ops[case['op']](a, case['num'])
    elif k == 'uniform':
        d0 = case['d']
        if case['sub'] == 'outcomes':
            r = dit.uniform([pyo('int', o) for o in d0['outs']])
            res['expected_outs'] = d0['outs']
        elif case['sub'] == 'distribution':
            r = dit.uniform_distribution(case['n'], case['k'])
            res['expected_outs'] = [list(o) for o in itertools.product(range(case['k']), repeat=case['n'])]
        elif case['sub'] == 'scalar':
            r = dit.uniform_scalar_distribution(case['k'] + 1)
            res['expected_outs'] = [[i] for i in range(case['k'] + 1)]
        else:
            d = mk_joint(d0)
            args = [d]
            r = dit.uniform_like(d)
            res['expected_outs'] = [list(o) for o in itertools.product(*[sorted(set(x[i] for x in d0['outs'])) for i in range(d0['n'])])]
    elif k == 'noisy':
        d = mk_joint(case['d'])
        args = [d]
        r = dit.distconst.noisy(d, case['noise'])
        res['alph'] = [[int(s) for s in a] for a in d.alphabet]
    elif k == 'erasure':
        d = mk_joint(case['d'])
        args = [d]
        r = dit.distconst.erasure(d, case['eps'])
    elif k == 'pruned':
        d = mk_joint(case['d'])
        args = [d]
        res['ss_before'] = [zo(o) for o in d.sample_space()]
        r = pruned_samplespace(d, [pyo(case['d']['klass'], o) for o in case['keep']] or None)
        res['ss_after'] = [zo(o) for o in r.sample_space()]
    elif k == 'expanded':
        d = mk_joint(case['d'])
        args = [d]
        alph = None
        if case['extra']:
            alph = [sorted(set(a) | {7}) for a in case['d']['alph']]
            alph_py = [[sym(case['d']['klass'], v) for v in a] for a in alph]
        r = expanded_samplespace(d, alph_py if alph else None, union=case['union'])
        res['alphs'] = alph if alph else [[int(s) for s in a] for a in d.alphabet]
        res['ss_after'] = [zo(o) for o in r.sample_space()]
    elif k == 'example':
        import dit.example_dists as ex
        nm = case['name']
        if nm == 'giant_bit':
            r = ex.giant_bit(case['n'], case['k'])
        elif nm == 'n_mod_m':
            r = ex.n_mod_m(case['n'], case['k'])
        elif nm == 'iid_sum':
            r = ex.iid_sum(case['n'], case['k'])
        elif nm == 'summed_dice':
            r = ex.summed_dice(case['a'], case['b'])
        elif nm == 'And':
            r = ex.And(case['n'])
        elif nm == 'Or':
            r = ex.Or(case['n'])
        elif nm == 'Xor':
            r = ex.Xor()
        elif nm == 'binomial':
            r = ex.binomial(case['n'], case['p'])
        elif nm == 'bernoulli':
            r = ex.bernoulli(case['p'])
        elif nm == 'hypergeometric':
            r = ex.hypergeometric(case['N'], case['K'], case['nn'])
        elif nm == 'uniform_int':
            r = ex.uniform(case['k'] - 3, case['k'] + case['n'])
    elif k == 'stats':
        a = mk_scalar(case['a'])
        args = [a]
        w = case['what']
        if w == 'mean':
            v = float(mean(a))
        elif w == 'central':
            v = float(central_moment(a, case['order']))
        elif w == 'standard':
            v = float(standard_moment(a, case['order']))
        elif w == 'std':
            v = float(standard_deviation(a))
        elif w == 'median':
            v = float(median(a))
        else:
            v = [int(x) for x in mode(a)[0]]
        return {'value': v, 'stored': table(a)}
    res['table'] = table(r)
    res['base'] = G.base_tag(r)
    res['inputs'] = [table(x) for x in args]
    return res


def ztab(pairs):
    return '[' + ';'.join('(%s,%s)' % (zl(o), lib.qf(p) if not isinstance(p, Fraction) else lib.qz(p)) for o, p in pairs) + ']'


def zl(o):
    return '[' + ';'.join('(%d)' % int(v) for v in o) + ']%Z'


def zll(ll):
    return '[' + ';'.join(zl(o) for o in ll) + ']'


def bg(expr):
    return ('bgoal (stage (%s))' % expr, 'nbgoal (stage (%s))' % expr)


def spec_tab(d):
    return ztab([(o, p) for o, p in zip(d['outs'], d['ps'])])


def scal_tab(s):
    return ztab([([v], p) for v, p in zip(s['vals'], s['ps'])])


SOP = {'+': 'OAdd', '-': 'OSub', '*': 'OMul', '//': 'OFloorDiv', '%': 'OMod', '<': 'OLt', '<=': 'OLe', '==': 'OEq', '!=': 'ONe', '>': 'OGt', '>=': 'OGe'}


def to_coq(case, o):
    item = {'defs': '', 'goals': [], 'labels': []}
    k = case['kind']
    if k == 'stats':
        t = ztab([(oo, p) for oo, p in o['stored']])
        w = case['what']
        v = o['value']
        if w == 'mode':
            item['goals'].append(bg('zlist_eqb (zsort (smode %s)) (zsort %s)' % (t, zl(v))))
        elif w in ('mean', 'central', 'median'):
            if not math.isfinite(v):
                item['pyviolation'] = 'non-finite statistic'
                return item
            if w == 'median':
                # dit compares the *float* cumulative sums with 0.5; when an exact partial sum is within rounding of 1/2 without
                # being 1/2 (0.29 + 0.21), which side it falls on is a rounding artefact, not a property of the table: not decided
                acc = Fraction(0)
                for oo, pp in o['stored']:
                    acc += Fraction(*float(pp).as_integer_ratio())
                    if acc != Fraction(1, 2) and abs(acc - Fraction(1, 2)) < Fraction(1, 10 ** 12):
                        item['median_ambiguous'] = True
                        return item
            model = {'mean': 'smean %s' % t, 'central': 'scentral %d%%nat %s' % (case['order'], t), 'median': 'smedian %s' % t}[w]
            item['goals'].append(bg('qclose ctol11 (%s) %s' % (model, lib.qf(v))))
        else:
            if not math.isfinite(v):
                # a degenerate distribution has zero variance: standardised moments are undefined
                if len([p for p in case['a']['ps'] if p > 0]) <= 1:
                    return item
                item['pyviolation'] = 'non-finite statistic'
                return item
            if len([p for p in case['a']['ps'] if p > 0]) <= 1 and w == 'standard':
                return item
            model = 'sstd %s' % t if w == 'std' else 'sstandard %d%%nat %s' % (case['order'], t)
            args = '(Some (stage (%s))) false %s %s' % (model, lib.qf(v), lib.qz(Fraction(1, 10 ** 8)))
            item['goals'].append(('okgoal ' + args, 'fargoal ' + args))
        item['labels'].append('%s order %s of %s -> %r' % (w, case.get('order'), case['a'], v))
        return item
    obs = ztab([(oo, p) for oo, p in o['table']])
    if any(not math.isfinite(p) for _, p in o['table']):
        item['pyviolation'] = 'non-finite probability in the result'
        return item
    # arguments must be left unchanged: compare their tables with the specs
    exp = None
    if k == 'modify':
        exp = 'modify [%s] %s' % (';'.join('(%s,%s)' % (zl(a), zl(b)) for a, b in case['map']), spec_tab(case['d']))
    elif k == 'insert':
        idx = 'None' if case['index'] == -1 else '(Some %d%%nat)' % case['index']
        exp = 'insert_rvf [%s] %s %s' % (';'.join('(%s,%s)' % (zl(a), zl(b)) for a, b in case['map']), idx, spec_tab(case['d']))
    elif k == 'product':
        gs = case['groups'] if case['groups'] is not None else [[i] for i in range(case['d']['n'])]
        exp = 'product_dist %s %s' % (lib.natlistlist(gs), spec_tab(case['d']))
    elif k in ('mixture', 'mixture2'):
        exp = 'mixture [%s] %s' % (';'.join(spec_tab(x) for x in case['ds']), lib.qlist(case['w']))
    elif k == 'scalarop':
        exp = 'scalar_op %s %s %s' % (SOP[case['op']], scal_tab(case['a']), scal_tab(case['b']))
    elif k == 'scalarnum':
        num = '[([(%d)%%Z], (1#1))]' % case['num']
        a = scal_tab(case['a'])
        exp = 'scalar_op %s %s %s' % ((SOP[case['op']], num, a) if case['right'] else (SOP[case['op']], a, num))
    elif k == 'matmul':
        exp = 'matmul %s %s' % (scal_tab(case['a']), scal_tab(case['b']))
    elif k == 'uniform':
        exp = 'uniform_on %s' % zll(o['expected_outs'])
    elif k == 'noisy':
        exp = 'noisy %s %s %s' % (zll(o['alph']), lib.qf(case['noise']), spec_tab(case['d']))
    elif k == 'erasure':
        exp = 'erasure %s %s' % (lib.qf(case['eps']), spec_tab(case['d']))
    elif k == 'pruned':
        exp = spec_tab(case['d'])
        item['goals'].append(bg('same_set (pruned_ss %s %s %s) %s' % (zll(o['ss_before']), zll(case['keep']), spec_tab(case['d']), zll(o['ss_after']))))
        item['labels'].append('pruned sample space %s' % o['ss_after'])
    elif k == 'expanded':
        exp = spec_tab(case['d'])
        item['goals'].append(bg('zzlist_eqb (expanded_ss %s %s) %s' % (zll(o['alphs']), lib.boolc(case['union']), zll(o['ss_after']))))
        item['labels'].append('expanded sample space (%d members)' % len(o['ss_after']))
    elif k == 'example':
        nm = case['name']
        exp = {'giant_bit': 'giant_bit %d%%nat %d%%nat' % (case['n'], case['k']), 'n_mod_m': 'n_mod_m %d%%nat %d%%nat' % (case['n'], case['k']),
               'iid_sum': 'iid_sum %d%%nat %d%%nat' % (case['n'], case['k']), 'summed_dice': 'summed_dice %s (%d)%%Z' % (lib.qf(case['a']), case['b']),
               'And': 'and_gate %d%%nat' % case['n'], 'Or': 'or_gate %d%%nat' % case['n'], 'Xor': 'xor_gate',
               'binomial': 'binomial %d%%nat %s' % (case['n'], lib.qf(case['p'])), 'bernoulli': 'binomial 1%%nat %s' % lib.qf(case['p']),
               'hypergeometric': 'hypergeometric %d%%nat %d%%nat %d%%nat' % (case['N'], case['K'], case['nn']),
               'uniform_int': 'uniform_int (%d)%%Z (%d)%%Z' % (case['k'] - 3, case['k'] + case['n'])}[nm]
    item['goals'].append(bg('tab_eq (%s) %s' % (exp, obs)))
    item['labels'].append('%s: table %s' % (k, str(o['table'])[:200]))
    if k in ('uniform', 'example', 'scalarop', 'matmul', 'insert', 'erasure'):
        item['goals'].append(bg('keys_eq (%s) %s' % (exp, obs)))
        item['labels'].append('%s: outcome set' % k)
    # purity of the arguments
    specs = {'modify': [case.get('d')], 'insert': [case.get('d')], 'product': [case.get('d')], 'noisy': [case.get('d')], 'erasure': [case.get('d')],
             'pruned': [case.get('d')], 'expanded': [case.get('d')]}.get(k)
    if specs:
        for sp, tb in zip(specs, o['inputs']):
            item['goals'].append(bg('tab_eq %s %s' % (spec_tab(sp), ztab([(a, b) for a, b in tb]))))
            item['labels'].append('%s: argument unchanged' % k)
    return item


def nontrivial(case, o):
    d = case.get('d') or case.get('a') or (case.get('ds') or [None])[0]
    if not isinstance(d, dict):
        return True
    return sum(1 for p in d['ps'] if p > 0) >= 2


def describe(case, o):
    d = {'kind': case['kind']}
    if case['kind'] == 'example':
        d['name'] = case['name']
    if case['kind'] in ('scalarop', 'scalarnum'):
        d['op'] = case['op']
    if case['kind'] == 'stats':
        d['what'] = case['what']
    x = case.get('d') or case.get('a')
    if isinstance(x, dict) and x.get('base') is not None:
        d['base'] = x['base']
    return d


def matches_finding(f, case, o, v):
    return False
