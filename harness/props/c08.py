"""C08 — information values are invariant under every change of representation."""
import copy
import math
from fractions import Fraction

from .. import lib
from .. import distgen as G
from . import c04, c05

MODE = 'goals'
COQ_IMPORTS = ['Check', 'C07_Model']
SHARD = 8
RULE = ('metamorphic: a random linear joint distribution d and a transformed presentation T(d) with T in {per-variable symbol bijection, outcome class '
        'str/tuple, permuted input order, zero padding (explicit zeros, dense, enlarged sample space), names instead of indices, variable permutation '
        'with permuted arguments, reordered groups}. dit is run on both; both values are compared (interval goals, 1e-9) with the SAME model value '
        'computed from d, for Shannon entropy / conditional entropy / MI / multivariate entropy / extropy / perplexity / Renyi / Tsallis and the '
        'multivariate family. Measures without a model (Gacs-Korner common information, ShannonPartition atoms, PID_WB redundancies) are compared '
        'between d and T(d) directly (labelled tests). Non-trivial: support >= 2; distinct by canonical JSON.')
TRUSTED = ['Coq 8.16.1 kernel incl. vm_compute; Coq-Interval', 'Python driver: construction of T(d) and of the transformed arguments',
           'models C04/C05 hand-written']
ASSUMPTIONS = ['float rounding within 1e-9', 'for measures without a model only dit(d) vs dit(T d) is compared (1e-8), labelled tests in the evidence']
CODES = {'corr': 'k = index+1 of first false goal (see goal_labels); 90 = python-side violation (unmodelled measure differs, source changed)', 'prop': 'same'}
TOL = Fraction(1, 10 ** 9)
KINDS = ['dyadic', 'dyadic', 'kn', 'decimal', 'random', 'neardeg']
TS = ['relabel', 'klass', 'order', 'pad', 'pad', 'names', 'names', 'permvars', 'groups']


def transform(rng, spec, T):
    """returns (spec', varmap) where varmap[old index] = new index"""
    s = copy.deepcopy(spec)
    n = s['n']
    vm = list(range(n))
    if T == 'relabel':
        perms = []
        for i in range(n):
            p = list(range(6))
            rng.shuffle(p)
            perms.append(p)

        def m(o):
            return [perms[i][v] for i, v in enumerate(o)]
        s['outcomes'] = [m(o) for o in s['outcomes']]
        s['alph'] = [sorted(perms[i][v] for v in a) for i, a in enumerate(s['alph'])]
        if s['ss_kind'] == 'cart':
            s['ss'] = [sorted(perms[i][v] for v in a) for i, a in enumerate(s['ss'])]
        elif s['ss_kind'] == 'expl':
            s['ss'] = [m(o) for o in s['ss']]
    elif T == 'klass':
        s['klass'] = rng.choice([k for k in ('str', 'int', 'strtuple') if k != s['klass']])
    elif T == 'order':
        idx = list(range(len(s['outcomes'])))
        rng.shuffle(idx)
        s['outcomes'] = [s['outcomes'][i] for i in idx]
        s['pmf'] = [s['pmf'][i] for i in idx]
        if s['ss_kind'] == 'expl':
            rng.shuffle(s['ss'])
    elif T == 'pad':
        import itertools
        full = [list(o) for o in itertools.product(*s['alph'])]
        rest = [o for o in full if o not in s['outcomes']]
        how = rng.choice(['zeros', 'dense', 'sparse', 'bigger'])
        if how == 'zeros' and rest:
            add = rng.sample(rest, rng.randint(1, min(3, len(rest))))
            s['outcomes'] = s['outcomes'] + add
            s['pmf'] = s['pmf'] + [0.0] * len(add)
            s['trim'] = False
            if s['ss_kind'] == 'expl':
                s['ss'] = s['ss'] + [o for o in add if o not in s['ss']]
        elif how == 'dense':
            s['sparse'] = False
        elif how == 'sparse':
            s['sparse'], s['trim'] = True, True
        else:
            if s['ss_kind'] != 'expl':
                s['ss_kind'] = 'cart'
                s['ss'] = [sorted(set(a) | {rng.randrange(6)}) for a in s['alph']]
    elif T == 'names':
        s['names'] = rng.sample(G.NAMES, n)
        s['via_copy'] = rng.random() < 0.6      # a copy must answer by-name queries like its source
    elif T == 'permvars':
        perm = list(range(n))
        rng.shuffle(perm)          # new variable i = old variable perm[i]
        s['outcomes'] = [[o[perm[i]] for i in range(n)] for o in s['outcomes']]
        s['alph'] = [s['alph'][perm[i]] for i in range(n)]
        if s['ss_kind'] == 'cart':
            s['ss'] = [s['ss'][perm[i]] for i in range(n)]
        elif s['ss_kind'] == 'expl':
            s['ss'] = [[o[perm[i]] for i in range(n)] for o in s['ss']]
        if s['names'] is not None:
            s['names'] = [s['names'][perm[i]] for i in range(n)]
        for i in range(n):
            vm[perm[i]] = i
    return s, vm


def map_q4(q, vm, byname):
    q = copy.deepcopy(q)
    for key in ('X', 'Y', 'cr'):
        if key in q and q[key] is not None:
            q[key] = [vm[i] if i < len(vm) else i for i in q[key]]
    if 'gs' in q:
        q['gs'] = [[vm[i] for i in g] for g in q['gs']]
    if byname and not (q.get('k') == 'perplexity' and q.get('X') is None and q.get('cr')):
        # (with rvs=None dit reads crvs as indices whatever rv_mode says: normalize_rvs convention)
        q['byname'] = True
    return q


def generate(rng, tier):
    n = 130 if tier == 'quick' else 1300
    cases = []
    for _ in range(n):
        spec = G.gen_spec(rng, nmin=2, nmax=3, allow_log=False, prob_kinds=KINDS)
        T = rng.choice(TS)
        q4 = [q for q in c04.gen_queries(rng, spec, 6) if not q['byname']]
        q5 = [q for q in c05.gen_queries(rng, spec, 3) if not q['byname'] and q['m'] != 'caekl' and not q.get('rvs_none')]   # rvs=None cannot be re-addressed by name
        # keep queries valid so that both presentations return values
        q4 = [q for q in q4 if all(i < spec['n'] for key in ('X', 'Y', 'cr') for i in (q.get(key) or []))]
        seed = rng.randint(0, 10 ** 9)
        cases.append({'spec': spec, 'T': T, 'q4': q4[:4], 'q5': q5[:2], 'seed': seed})
    return cases


def unmodelled(d, spec):
    """a few measures that have no Coq model here: values to be compared between the two presentations"""
    import dit
    out = {}
    try:
        out['gk'] = float(dit.multivariate.gk_common_information(d))
    except Exception as e:
        out['gk'] = 'ERR ' + type(e).__name__
    try:
        from dit.profiles import ShannonPartition
        sp = ShannonPartition(d)
        out['atoms'] = sorted(round(float(v), 9) for v in sp.atoms.values())
    except Exception as e:
        out['atoms'] = 'ERR ' + type(e).__name__
    return out


def observe(case):
    import random
    spec = case['spec']
    rng = random.Random(case['seed'])
    spec2, vm = transform(rng, spec, case['T'])
    byname2 = case['T'] == 'names'
    q4b = [map_q4(q, vm, byname2) for q in case['q4']]
    q5b = [map_q4(q, vm, byname2) for q in case['q5']]
    if case['T'] == 'groups':
        for q in q5b:
            if q['m'] in ('coinfo', 'tc', 'dtc', 'resid', 'oinfo', 'tse', 'cohesion', 'interaction'):
                rng.shuffle(q['gs'])
    o4a = c04.observe({'spec': spec, 'queries': case['q4']})
    o4b = c04.observe({'spec': spec2, 'queries': q4b})
    o5a = c05.observe({'spec': spec, 'queries': case['q5']}) if case['q5'] else {'results': [], 'src_same': True}
    o5b = c05.observe({'spec': spec2, 'queries': q5b}) if case['q5'] else {'results': [], 'src_same': True}
    ua = unmodelled(G.make_dist(spec), spec)
    ub = unmodelled(G.make_dist(spec2), spec2)
    # zero padding is always tried for the measures without a model: a dense copy stores every null outcome
    dd = G.make_dist(spec)
    dd.make_dense()
    ud = unmodelled(dd, spec)
    return {'dist_term': o4a['dist_term'], 'r4a': o4a['results'], 'r4b': o4b['results'], 'r5a': o5a['results'], 'r5b': o5b['results'],
            'src_same': o4a['src_same'] and o4b['src_same'] and o5a['src_same'] and o5b['src_same'], 'ua': ua, 'ub': ub, 'ud': ud,
            'q4b': q4b, 'q5b': q5b}


_counter = [0]


def to_coq(case, o):
    spec = case['spec']
    _counter[0] += 1
    name = 'dm_%d' % _counter[0]
    item = {'defs': 'Definition %s : Dist.dist := %s.' % (name, o['dist_term']), 'goals': [], 'labels': []}
    if not o['src_same']:
        item['pyviolation'] = 'an argument distribution changed'
    # unmodelled measures: direct comparison (a test, not a proof)
    ua = o['ua']
    for key, b, what in [(k, o['ub'][k], 'T(d)') for k in ua] + [(k, o['ud'][k], 'dense d') for k in ua]:
        a = ua[key]
        same = (a == b) if isinstance(a, str) or isinstance(b, str) else (
            abs(a - b) <= 1e-8 if not isinstance(a, list) else (len(a) == len(b) and all(abs(x - y) <= 1e-8 for x, y in zip(a, b))))
        if not same:
            item['pyviolation'] = 'unmodelled measure %s differs between d and %s: %r vs %r' % (key, what, a, b)
    for tag, res in (('d', o['r4a']), ('T(d)=%s' % case['T'], o['r4b'])):
        for q, r in zip(case['q4'], res):
            if not r['raised'] and not math.isfinite(r['v']):
                item['pyviolation'] = 'non-finite value'
                continue
            args = '(stage (c04_model %s false %s)) %s %s %s' % (name, c04.qterm(spec, q), lib.boolc(r['raised']), lib.qf(r['v']), lib.qz(TOL))
            item['goals'].append(('okgoal ' + args, 'fargoal ' + args))
            item['labels'].append('%s: %s -> %r' % (tag, q, r))
    for tag, res in (('d', o['r5a']), ('T(d)=%s' % case['T'], o['r5b'])):
        for q, r in zip(case['q5'], res):
            if not r['raised'] and not math.isfinite(r['v']):
                item['pyviolation'] = 'non-finite value'
                continue
            ctor = '(MCohesion %d)' % q['k'] if q['m'] == 'cohesion' else c05.CTOR[q['m']]
            args = '(stage (c05_model %s false %s [%s] %s)) %s %s %s' % (name, ctor, ';'.join(lib.natlist(g) for g in q['gs']), lib.natlist(q['cr']),
                                                                        lib.boolc(r['raised']), lib.qf(r['v']), lib.qz(TOL))
            item['goals'].append(('okgoal ' + args, 'fargoal ' + args))
            item['labels'].append('%s: %s -> %r' % (tag, q, r))
    return item


def nontrivial(case, o):
    return sum(1 for p in case['spec']['pmf'] if p > 0) >= 2


def describe(case, o):
    return {'T': case['T'], 'nvars': case['spec']['n']}


def matches_finding(f, case, o, v):
    return False
