"""Shared machinery of the checks: Coq literals, coqc runner, evidence, replays, findings.

Everything here runs under /venv/bin/python with PYTHONPATH=/repo:/verif/pydeps:/verif/pystubs.
"""
import hashlib
import json
import os
import re
import shutil
import subprocess
import sys
import time
from fractions import Fraction

ROOT = '/verif'
COQ = os.path.join(ROOT, 'coq')
WORK = os.path.join(ROOT, 'work')
EVID = os.path.join(ROOT, 'evidence')
REPLAYS = os.path.join(ROOT, 'replays')
if os.environ.get('VERIF_SCRATCH'):
    # exploratory sweeps (other seeds, seeded defects): keep evidence, replays and work files apart
    _s = os.path.join(ROOT, 'work', 'scratch-' + os.environ['VERIF_SCRATCH'])
    WORK, EVID, REPLAYS = os.path.join(_s, 'work'), os.path.join(_s, 'evidence'), os.path.join(_s, 'replays')
NCPU = 16
DEFAULT_SEED = 20261001

COQ_ARGS = ['-Q', COQ + '/theories/Core', 'Verif', '-Q', COQ + '/theories/Model', 'Verif',
            '-Q', COQ + '/theories/Proofs', 'Verif', '-Q', COQ + '/theories/Props', 'Verif',
            '-Q', COQ + '/theories/Gen', 'Verif']

# functions of /repo's source that are translated into the deep-embedded language of Core/PyLang.v on every
# run (tools/py2coq.py); the refinement theorems (Proofs/*_Refine.v) are about these generated terms
GEN = [('dit/math/sampling.py', 'Sampling_Gen.v', 'sampling',
        ['_sample_discrete__python', '_last_positive', '_samples_discrete__python'])]
REPO = os.environ.get('VERIF_REPO', '/repo')

# ------------------------------------------------------------------------------------------
# Coq literals


def qz(fr):
    """Fraction -> Coq Q literal."""
    fr = Fraction(fr)
    n, d = fr.numerator, fr.denominator
    if n < 0:
        return '((%d)#%d)' % (n, d)
    return '(%d#%d)' % (n, d)


def qf(x):
    """float -> exact Coq Q literal (inf/nan are the caller's business)."""
    return qz(Fraction(*float(x).as_integer_ratio()))


def nat(n):
    return '%d%%nat' % n


def natlist(l):
    return '[' + ';'.join(str(int(x)) for x in l) + ']%nat'


def natlistlist(ll):
    return '[' + ';'.join('[' + ';'.join(str(int(x)) for x in l) + ']' for l in ll) + ']%nat'


def qlist(l):
    return '[' + ';'.join(qf(x) if not isinstance(x, Fraction) else qz(x) for x in l) + ']'


def boolc(b):
    return 'true' if b else 'false'


def optc(x, f):
    return 'None' if x is None else '(Some %s)' % f(x)


def pdc(pairs):
    """[(outcome ranks, float or Fraction)] -> pd literal"""
    items = []
    for o, p in pairs:
        items.append('(%s,%s)' % (natlist(o), qz(p) if isinstance(p, Fraction) else qf(p)))
    return '[' + ';'.join(items) + ']'


def basec(b):
    if b == 'linear':
        return 'Linear'
    if b == 2 or b == 2.0:
        return 'Log2'
    if b == 'e':
        return 'LogE'
    return '(LogQ %s)' % qf(float(b))


# ------------------------------------------------------------------------------------------
# running Coq


def sh(cmd, timeout, cwd=None):
    t0 = time.time()
    try:
        p = subprocess.run(cmd, cwd=cwd, stdout=subprocess.PIPE, stderr=subprocess.STDOUT,
                           timeout=timeout, text=True)
        return p.returncode, p.stdout, time.time() - t0
    except subprocess.TimeoutExpired as e:
        out = e.stdout if isinstance(e.stdout, str) else (e.stdout or b'').decode('utf8', 'replace')
        return 124, (out or '') + '\nTIMEOUT', time.time() - t0


def regen():
    """Re-translate the registered source functions; a source the translator cannot express leaves a
    generated file without definitions, so that everything stated about it stops compiling."""
    msgs = []
    for src, out, modname, names in GEN:
        dst = os.path.join(COQ, 'theories', 'Gen', out)
        rc, o, _ = sh([sys.executable, os.path.join(ROOT, 'tools', 'py2coq.py'), os.path.join(REPO, src), dst, modname] + names, 120)
        msgs.append('%s: %s' % (src, o.strip()))
        if rc != 0:
            text = '(* tools/py2coq.py could not translate %s: %s *)\n' % (src, o.strip().replace('*)', '* )'))
            if not os.path.exists(dst) or open(dst).read() != text:
                open(dst, 'w').write(text)
    return msgs


def build_theories(pid=None, timeout=3000):
    """Regenerate the translated sources, then a full .vo build of the development (no-op when up to date).
    The build keeps going past a failure; with pid, the verdict is that of the target Props/<pid>.vo, so a
    proof that breaks alarms the properties that depend on it and no others."""
    msgs = regen()
    mk, cp = os.path.join(COQ, 'Makefile'), os.path.join(COQ, '_CoqProject')
    if not os.path.exists(mk) or os.path.getmtime(mk) < os.path.getmtime(cp):
        rc, out = sh(['coq_makefile', '-f', '_CoqProject', '-o', 'Makefile'], 120, cwd=COQ)[:2]
        if rc != 0:
            return rc, out
    rc, out, _ = sh(['make', '-k', '-j%d' % NCPU], timeout, cwd=COQ)
    if rc != 0 and pid is not None:
        rc2, out2, _ = sh(['make', 'theories/Props/%s.vo' % pid], timeout, cwd=COQ)
        return rc2, '\n'.join(msgs) + '\n' + (out2 if rc2 != 0 else '')
    return rc, '\n'.join(msgs) + '\n' + out


def build_targets(names, timeout=3000):
    """make the named modules (e.g. Model/C12_Model) only; used to keep the hand-written model running
    for the search of a failing input when a proof no longer checks"""
    rc, out, _ = sh(['make'] + ['theories/%s.vo' % n for n in names], timeout, cwd=COQ)
    return rc, out


def check_props_file(pid, workdir):
    """Re-compile Props/<pid>.v on its own (fast) to re-check the property theorems against the
    built development and capture what Print Assumptions says."""
    src = os.path.join(COQ, 'theories', 'Props', pid + '.v')
    if not os.path.exists(src):
        return {'theorems': [], 'ok': False, 'log': 'missing ' + src, 'axioms': []}
    text = open(src).read()
    names = re.findall(r'^\s*(?:Theorem|Lemma|Corollary)\s+([A-Za-z0-9_\']+)', text, re.M)
    dst = os.path.join(workdir, 'props')
    os.makedirs(dst, exist_ok=True)
    tmp = os.path.join(dst, pid + '_recheck.v')
    shutil.copy(src, tmp)
    rc, out, wall = sh(['coqc'] + COQ_ARGS + [tmp], 900)
    axioms = sorted(set(re.findall(r'^([A-Za-z_][A-Za-z0-9_\.]*)\s*:', out, re.M)))
    return {'theorems': names, 'ok': rc == 0, 'log': out[-4000:], 'axioms': axioms, 'wall': wall,
            'closed': out.count('Closed under the global context')}


def run_coq_cases(pid, workdir, imports, verdict_fn, terms, shard=200, timeout=1200, preamble=''):
    """terms: list of Coq terms (strings), each an argument of verdict_fn : _ -> nat * nat.
    Returns list of (corr, prop) codes, or raises RuntimeError with the coqc log."""
    os.makedirs(workdir, exist_ok=True)
    files = []
    for k in range(0, len(terms), shard):
        chunk = terms[k:k + shard]
        name = 'cases_%s_%04d' % (pid, k // shard)
        path = os.path.join(workdir, name + '.v')
        with open(path, 'w') as f:
            f.write('From Verif Require Import %s.\n' % ' '.join(imports))
            f.write('Open Scope Q_scope.\n' + preamble + '\n')
            f.write('Definition cases := [\n' + ';\n'.join(chunk) + '\n].\n')
            f.write('Definition flat (p : nat * nat) := [fst p; snd p].\n')
            f.write('Eval vm_compute in flat_map flat (map %s cases).\n' % verdict_fn)
        files.append((path, len(chunk)))
    procs = []
    results = {}
    pending = list(files)
    running = []
    logs = []
    while pending or running:
        while pending and len(running) < NCPU:
            path, n = pending.pop(0)
            # output goes to a file: a pipe that is only read after exit deadlocks once coqc prints more than 64 KB
            pr = subprocess.Popen(['timeout', str(timeout), 'coqc'] + COQ_ARGS + [path],
                                  stdout=open(path + '.out', 'w'), stderr=subprocess.STDOUT, text=True,
                                  cwd=workdir)
            running.append((pr, path, n))
        for item in list(running):
            pr, path, n = item
            if pr.poll() is not None:
                out = open(path + '.out').read()
                running.remove(item)
                if pr.returncode != 0:
                    raise RuntimeError('coqc failed on %s (rc=%s):\n%s' % (path, pr.returncode, out[-3000:]))
                m = re.search(r'=\s*\[(.*?)\]\s*:\s*list nat', out, re.S)
                if not m:
                    raise RuntimeError('cannot parse coqc output for %s:\n%s' % (path, out[-2000:]))
                nums = [int(x) for x in re.findall(r'\d+', m.group(1))]
                if len(nums) != 2 * n:
                    raise RuntimeError('wrong number of verdicts for %s: %d vs %d' % (path, len(nums), 2 * n))
                results[path] = [(nums[2 * i], nums[2 * i + 1]) for i in range(n)]
        time.sleep(0.02)
    out = []
    for path, n in files:
        out.extend(results[path])
    return out


# ------------------------------------------------------------------------------------------
# evidence / replays / findings


def load_known():
    p = os.path.join(ROOT, 'known_findings.json')
    if os.path.exists(p):
        return json.load(open(p))
    return {'findings': [], 'fixed': []}


def write_replay(pid, seed, n, payload):
    d = os.path.join(REPLAYS, pid)
    os.makedirs(d, exist_ok=True)
    path = os.path.join(d, '%s-%s.json' % (seed, n))
    with open(path, 'w') as f:
        json.dump(payload, f, indent=1, default=str)
    return path


def write_evidence(pid, tier, seed, coverage, assumptions, wall, violations):
    os.makedirs(EVID, exist_ok=True)
    ev = {'property_id': pid, 'tier': tier, 'seed': int(seed), 'level': 'proof',
          'coverage': coverage, 'assumptions': assumptions, 'wall_s': round(wall, 2),
          'violations': int(violations)}
    with open(os.path.join(EVID, pid + '.json'), 'w') as f:
        json.dump(ev, f, indent=1, default=str)


def canon(x):
    return hashlib.sha1(json.dumps(x, sort_keys=True, default=str).encode()).hexdigest()


def run_coq_goals(pid, workdir, imports, cases, shard=40, timeout=1800, preamble=''):
    """cases: list of {'defs': str (Coq vernac defining what the goals mention), 'goals': [(G, FAR), ...]}.
    Each goal is decided inside Coq by `decide_case` (Core/Check.v): OK = closeness proved by interval arithmetic,
    FAIL = the values are provably apart, INCONCLUSIVE = neither could be proved.
    Returns a list (per case) of lists of verdict strings."""
    os.makedirs(workdir, exist_ok=True)
    files = []
    gid = 0
    index = {}
    for k in range(0, len(cases), shard):
        chunk = cases[k:k + shard]
        name = 'goals_%s_%04d' % (pid, k // shard)
        path = os.path.join(workdir, name + '.v')
        with open(path, 'w') as f:
            f.write('From Verif Require Import %s.\n' % ' '.join(imports))
            f.write('Open Scope R_scope.\n' + preamble + '\n')
            for ci, c in enumerate(chunk):
                f.write(c['defs'] + '\n')
                if not c['goals']:
                    continue
                f.write('Goal True.\n')
                for gi, (g, far) in enumerate(c['goals']):
                    index[gid] = (k + ci, gi)
                    f.write('decide_case %d%%Z (%s) (%s).\n' % (gid, g, far))
                    gid += 1
                f.write('exact I. Qed.\n')
        files.append(path)
    results = [[None] * len(c['goals']) for c in cases]
    pending = list(files)
    running = []
    while pending or running:
        while pending and len(running) < NCPU:
            path = pending.pop(0)
            pr = subprocess.Popen(['timeout', str(timeout), 'coqc'] + COQ_ARGS + [path],
                                  stdout=open(path + '.out', 'w'), stderr=subprocess.STDOUT, text=True, cwd=workdir)
            running.append((pr, path))
        for item in list(running):
            pr, path = item
            if pr.poll() is not None:
                out = open(path + '.out').read()
                running.remove(item)
                if pr.returncode != 0:
                    raise RuntimeError('coqc failed on %s (rc=%s):\n%s' % (path, pr.returncode, out[-3000:]))
                for m in re.finditer(r'CASE\s+(\d+)%Z\s+(OK|FAIL|INCONCLUSIVE)', out):
                    ci, gi = index[int(m.group(1))]
                    results[ci][gi] = m.group(2)
        time.sleep(0.02)
    for ci, r in enumerate(results):
        for gi, v in enumerate(r):
            if v is None:
                raise RuntimeError('no verdict for case %d goal %d' % (ci, gi))
    return results
