"""Stand-in for the third-party `lattices` package (absent from this sandbox); see /verif/DESIGN.md 0.1."""
