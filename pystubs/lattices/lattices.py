"""Exploratory stand-in for the third-party `lattices` package (absent from the sandbox)."""
from copy import deepcopy
from itertools import combinations, permutations
import networkx as nx

class Lattice(object):
    def __init__(self, nodes, relationship):
        # relationship(a, b) is True when a <= b
        nodes = list(nodes)
        self._relationship = relationship
        g = nx.DiGraph()
        g.add_nodes_from(nodes)
        for a, b in permutations(nodes, 2):
            if relationship(a, b):
                g.add_edge(b, a)
        tr = nx.transitive_reduction(g)
        self._lattice = tr
        self._ts = list(nx.topological_sort(tr))
        self.top = self._ts[0]
        self.bottom = self._ts[-1]
    def __iter__(self):
        return iter(self._ts)
    def __contains__(self, n):
        return n in self._lattice
    def __len__(self):
        return len(self._ts)
    def _sorted(self, ns):
        ns = set(ns)
        return [n for n in self._ts if n in ns]
    def descendants(self, node, include=False):
        d = set(nx.descendants(self._lattice, node))
        if include: d.add(node)
        return self._sorted(d)
    def ascendants(self, node, include=False):
        d = set(nx.ancestors(self._lattice, node))
        if include: d.add(node)
        return self._sorted(d)
    def covers(self, node):
        return set(self._lattice[node])
    def inverse(self):
        new = deepcopy(self)
        new._lattice = self._lattice.reverse()
        rel = self._relationship
        new._relationship = lambda a, b: rel(b, a)
        new._ts = list(reversed(self._ts))
        new.top, new.bottom = self.bottom, self.top
        return new
    def join(self, *nodes, predicate=None):
        # least upper bound
        ubs = [n for n in self._ts if all(n == m or n in self.ascendants(m) for m in nodes)]
        if predicate is not None:
            ubs = [n for n in ubs if predicate(n)]
        # least: the one that is below all others
        for u in reversed(ubs):
            if all(u == v or v in self.ascendants(u) for v in ubs):
                return u
        raise ValueError('no least upper bound satisfies the predicate')
    def meet(self, *nodes, predicate=None):
        lbs = [n for n in self._ts if all(n == m or n in self.descendants(m) for m in nodes)]
        if predicate is not None:
            lbs = [n for n in lbs if predicate(n)]
        for u in lbs:
            if all(u == v or v in self.descendants(u) for v in lbs):
                return u
        raise ValueError('no greatest lower bound satisfies the predicate')
    def chains(self):
        return nx.all_simple_paths(self._lattice, self.top, self.bottom)

def powerset(it):
    it = list(it)
    for r in range(len(it)+1):
        for c in combinations(it, r):
            yield c

def powerset_lattice(elements):
    nodes = [frozenset(c) for c in powerset(elements)]
    return Lattice(nodes, lambda a, b: a <= b)

def free_distributive_lattice(elements):
    elements = list(elements)
    subsets = [frozenset(c) for c in powerset(elements) if c]
    def antichain(ac):
        return all(not (a < b or b < a) for a, b in combinations(ac, 2))
    nodes = [frozenset(ac) for ac in powerset(subsets) if ac and antichain(ac)]
    def le(a, b):
        return all(any(A <= B for A in a) for B in b)
    return Lattice(nodes, le)

def dependency_lattice(elements, cover=False):
    raise NotImplementedError
