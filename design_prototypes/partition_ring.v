From Coq Require Import Reals List Lra Bool Arith.
Import ListNotations.
Open Scope R_scope.

(* subsets of {0..n-1} as sorted nat lists *)
Fixpoint powerset (l : list nat) : list (list nat) :=
  match l with [] => [[]] | x :: t => let p := powerset t in p ++ map (cons x) p end.
Definition subseteq (a b : list nat) : bool := forallb (fun x => existsb (Nat.eqb x) b) a.
Definition seteq a b := subseteq a b && subseteq b a.
Fixpoint rsum (l : list R) : R := match l with [] => 0 | x :: t => x + rsum t end.
Definition sgn (k : nat) : R := if Nat.even k then 1 else -1.

Section P.
Variable h : list nat -> R.
Variable n : nat.
Definition vars := seq 0 n.
Definition nodes := powerset vars.
(* dit: Is[node] = sum over subsets rv of node of (-1)^(|rv|+1) H[rv]  (descendants incl.) *)
Definition Is (node : list nat) : R :=
  rsum (map (fun rv => sgn (length rv + 1) * h rv) (filter (fun rv => subseteq rv node) nodes)).
(* atoms by Moebius inversion from the top: atom[node] = Is[node] - sum over strict supersets *)
(* closed form instead of recursion: atom[S] = sum_{T >= S} (-1)^{|T|-|S|} Is[T] *)
Definition atom (S : list nat) : R :=
  rsum (map (fun T => sgn (length T - length S) * Is T) (filter (fun T => subseteq S T) nodes)).
Definition nonempty (S : list nat) := negb (Nat.eqb (length S) 0).
Definition total_atoms : R := rsum (map atom (filter nonempty nodes)).
End P.

Ltac ev := cbv -[Rplus Rminus Rmult Ropp Rle IZR].
Goal forall h, h [] = 0 -> total_atoms h 3 = h [0;1;2]%nat.
Proof. intros h H0. Time ev. rewrite ?H0. Time ring. Qed.
Goal forall h, h [] = 0 -> total_atoms h 4 = h [0;1;2;3]%nat.
Proof. intros h H0. Time ev. rewrite ?H0. Time ring. Qed.
