import warnings, random, itertools, math, traceback, sys, time
warnings.simplefilter('ignore')
import numpy as np
import dit
from dit.shannon import entropy as H, conditional_entropy as CH, mutual_information as MI
rng = random.Random(int(sys.argv[1]) if len(sys.argv)>1 else 1)
N = int(sys.argv[2]) if len(sys.argv)>2 else 40
issues = {}
def note(tag, detail):
    if tag not in issues:
        issues[tag] = detail
        print('ISSUE', tag, '::', detail[:600]); sys.stdout.flush()
def rand_dist(n, amax=3, kmax=8, cls='str'):
    full=list(itertools.product(*[range(rng.randint(2,amax)) for _ in range(n)]))
    outs=rng.sample(full, rng.randint(2,min(kmax,len(full))))
    w=[rng.randint(1,5) for _ in outs]; ps=[x/sum(w) for x in w]
    if cls=='str': so=[''.join(map(str,o)) for o in outs]
    else: so=outs
    return dit.Distribution(so,ps)
from dit.algorithms.lattice import insert_join, insert_meet
from dit.algorithms.minimal_sufficient_statistic import insert_mss
import dit.multivariate as mv
t0=time.time()
for it in range(N):
    n=rng.randint(2,3); d=rand_dist(n, cls=rng.choice(['str','tup']))
    try:
        g=[[0],[1]] if n==2 else rng.choice([[[0],[1]],[[0,1],[2]],[[0],[1],[2]],[[0],[1,2]]])
        idx=rng.choice([-1,0,1,n])
        j=insert_join(d, idx, g); pos = n if idx==-1 else idx
        allg=sorted(set(sum(g,[])))
        shift=lambda v: v if v<pos else v+1
        if abs(CH(j,[pos],[shift(v) for v in allg]))>1e-9 or abs(CH(j,[shift(v) for v in allg],[pos]))>1e-9: note('C16-join', f'{d.outcomes} g={g} idx={idx}')
        old=[i for i in range(n+1) if i!=pos]
        if not j.marginal(old).is_approx_equal(d) and not all(abs(j.marginal(old)[o]-d[o])<1e-9 for o in d.outcomes): note('C16-join-marg', f'{g} {idx}')
        m=insert_meet(d, idx, g)
        for grp in g:
            if abs(CH(m,[pos],[shift(v) for v in grp]))>1e-9: note('C16-meet-func', f'{d.outcomes} g={g} idx={idx}')
        K=mv.gk_common_information(d,g); 
        # reference: connected components on support
        import networkx as nx
        G=nx.Graph()
        for o in d.outcomes:
            keys=[('g',i,tuple(o[v] for v in grp)) for i,grp in enumerate(g)]
            for a,b in zip(keys,keys[1:]): G.add_edge(a,b)
            if len(keys)==1: G.add_node(keys[0])
        comp={}
        for ci,c in enumerate(nx.connected_components(G)):
            for k in c: comp[k]=ci
        mass={}
        for o in d.outcomes:
            ci=comp[('g',0,tuple(o[v] for v in g[0]))]; mass[ci]=mass.get(ci,0)+d[o]
        Kref=-sum(p*math.log2(p) for p in mass.values() if p>0)
        if abs(K-Kref)>1e-9: note('C16-K', f'{K} {Kref} {d.outcomes} {g}')
        M=mv.mss_common_information(d,g); F=mv.functional_common_information(d,g) if len(d.outcomes)<=6 else None
        B=mv.dual_total_correlation(d,g); J=mv.caekl_mutual_information(d,g); HH=mv.entropy(d,g)
        chain=[K,J,B]+([F] if F is not None else [])+[M,HH]
        if any(a>b+1e-8 for a,b in zip(chain,chain[1:])): note('C16-chain', f'{chain} {d.outcomes} {d.pmf} {g}')
        ms=insert_mss(d,-1,g[0],g[1])
        if abs(MI(ms,[n],sorted(g[1]))-MI(d,sorted(g[0]),sorted(g[1])))>1e-9: note('C16-mss-mi', f'{d.outcomes} {g}')
        if abs(CH(ms,[n],sorted(g[0])))>1e-9: note('C16-mss-func', '')
    except Exception as e:
        note('C16-exc-'+type(e).__name__, f'{d.outcomes} g={g} idx={idx} {e!r} '+traceback.format_exc()[-400:])
print('C16 done', time.time()-t0); t0=time.time()
from dit.pid import PID_WB, PID_MMI, PID_GK, PID_CCS, PID_PM, PID_RAV, PID_RDR, PID_GH
for it in range(max(4,N//4)):
    ns=rng.choice([2,2,3]); d=rand_dist(ns+1, amax=2, kmax=8)
    for cls in [PID_WB, PID_MMI, PID_GK, PID_CCS, PID_PM, PID_RAV, PID_RDR, PID_GH]:
        try:
            p=cls(d)
            tot=MI(d,list(range(ns)),[ns])
            s=sum(p.get_pi(nd) for nd in p._lattice)
            if abs(s-tot)>1e-6: note('C17-sum-'+cls.__name__, f'{s} {tot} {d.outcomes} {d.pmf}')
            for nd in p._lattice:
                parts=sum(p.get_pi(x) for x in p._lattice.descendants(nd, include=True))
                if abs(parts-p.get_red(nd))>1e-6: note('C17-mobius-'+cls.__name__, f'{nd}')
            for i in range(ns):
                if abs(p.get_red(((i,),))-MI(d,[i],[ns]))>1e-6: note('C17-single-'+cls.__name__, f'{i} {p.get_red(((i,),))} {MI(d,[i],[ns])} {d.outcomes} {d.pmf}')
            if not (p.complete and p.consistent): note('C17-flags-'+cls.__name__, f'{p.complete} {p.consistent}')
            if cls in (PID_WB,PID_MMI) and any(p.get_pi(nd)<-1e-8 for nd in p._lattice): note('C17-neg-'+cls.__name__, f'{d.outcomes} {d.pmf}')
        except Exception as e:
            note('C17-exc-'+cls.__name__+'-'+type(e).__name__, f'{d.outcomes} {e!r} '+traceback.format_exc()[-300:])
print('C17 done', time.time()-t0); t0=time.time()
from dit.profiles import ShannonPartition, ExtropyPartition, ComplexityProfile, SchneidmanProfile, EntropyTriangle, EntropyTriangle2
for it in range(N):
    n=rng.randint(2,4); d=rand_dist(n)
    try:
        sp=ShannonPartition(d)
        if abs(sum(sp.atoms.values())-H(d))>1e-9: note('C18-sum', f'{sum(sp.atoms.values())} {H(d)}')
        a=sorted(rng.sample(range(n), rng.randint(1,n-1))); rest=[i for i in range(n) if i not in a]
        b=sorted(rng.sample(rest, rng.randint(1,len(rest)))); c=[i for i in rest if i not in b]
        v=sp[([a,b],c)] if False else sp[((tuple(a),tuple(b)),tuple(c))]
        ref=mv.coinformation(d,[a,b],c)
        if abs(v-ref)>1e-9: note('C18-query', f'{v} {ref} {a} {b} {c}')
        cp=ComplexityProfile(d).profile
        if abs(cp[1]-H(d))>1e-9: note('C18-cp1', f'{cp}')
        if abs(sum(cp.values())-sum(H(d,[i]) for i in range(n)))>1e-9: note('C18-cpsum', f'{cp}')
        et=EntropyTriangle(d).points[0]; et2=EntropyTriangle2(d).points[0]
        if abs(sum(et)-1)>1e-9 or min(et)<-1e-9: note('C18-tri', f'{et}')
        if abs(sum(et2)-1)>1e-9 or min(et2)<-1e-9: note('C18-tri2', f'{et2}')
        if n<=3:
            ci=SchneidmanProfile(d).profile
            if min(ci.values())<-1e-5: note('C18-ci-neg', f'{ci}')
            if abs(sum(v for k,v in ci.items() if k>=2)-mv.total_correlation(d))>1e-4: note('C18-ci-sum', f'{ci} {mv.total_correlation(d)}')
    except Exception as e:
        note('C18-exc-'+type(e).__name__, f'{d.outcomes} {e!r} '+traceback.format_exc()[-300:])
print('C18 done', time.time()-t0); t0=time.time()
from dit.algorithms.channelcapacity import channel_capacity
for it in range(N):
    r=rng.randint(2,4); c=rng.randint(2,4)
    P=np.array([[rng.choice([0,1,2,3]) for _ in range(c)] for _ in range(r)],dtype=float)
    P[P.sum(1)==0,0]=1; P/=P.sum(1,keepdims=True)
    try:
        cc,p=channel_capacity(P)
        q=p@P
        def kl(a,b): return sum(x*math.log2(x/y) for x,y in zip(a,b) if x>0)
        Dx=[kl(P[i],q) for i in range(r)]
        I=sum(p[i]*Dx[i] for i in range(r))
        if abs(I-cc)>1e-6: note('C13-cc-val', f'{I} {cc}')
        if max(Dx)>cc+1e-3: note('C13-cc-gap', f'{max(Dx)} {cc} {P.tolist()}')
    except Exception as e:
        note('C13-exc-'+type(e).__name__, f'{P.tolist()} {e!r}')
print('C13 done', time.time()-t0); t0=time.time()
from dit.algorithms.distribution_optimizers import maxent_dist
for it in range(max(5,N//4)):
    n=3; d=rand_dist(n, amax=2)
    cons=rng.choice([[[0],[1],[2]],[[0,1],[2]],[[0,1],[1,2]],[[0,1],[1,2],[0,2]],[[0,1,2]]])
    try:
        m=maxent_dist(d.copy(), cons)
        for cset in cons:
            a=d.marginal(cset); b=m.marginal(cset)
            for o in a.sample_space():
                if abs(a[o]-b[o])>1e-4: note('C14-marg', f'{cons} {cset} {o} {a[o]} {b[o]}')
        if H(m)<H(d)-1e-6: note('C14-ent', f'{H(m)} {H(d)}')
        if cons==[[0],[1],[2]]:
            pd=dit.product_distribution(d)
            if abs(H(m)-H(pd))>1e-4: note('C14-prod', f'{H(m)} {H(pd)}')
    except Exception as e:
        note('C14-exc-'+type(e).__name__, f'{d.outcomes} {cons} {e!r} '+traceback.format_exc()[-300:])
print('C14 done', time.time()-t0)
print('done', len(issues))
