import warnings; warnings.simplefilter('ignore')
import dit, numpy as np
from dit.pid import *
import dit.pid as P
d = dit.Distribution(['000','011','101','110','111'], [0.2,0.2,0.2,0.2,0.2])
def t(name, f):
    try:
        r = f(); print('OK  ', name, '->', repr(r)[:300].replace('\n',' '))
    except Exception as e:
        import traceback; print('FAIL', name, type(e).__name__, str(e)[:300])
for n in sorted(x for x in dir(P) if x.startswith('PID_')):
    def f(n=n):
        p = getattr(P,n)(d)
        return [(k, round(p.get_red(k),4) if k in p._reds else None, round(p.get_pi(k),4) if k in p._pis else None) for k in p._lattice], p.complete, p.consistent, p.nonnegative
    t(n, f)
from dit.profiles import *
t('ShannonPartition', lambda: ShannonPartition(d).atoms)
t('ExtropyPartition', lambda: ExtropyPartition(d).atoms)
t('ComplexityProfile', lambda: ComplexityProfile(d).profile)
t('SchneidmanProfile', lambda: SchneidmanProfile(d).profile)
t('EntropyTriangle', lambda: EntropyTriangle(d).points)
t('EntropyTriangle2', lambda: EntropyTriangle2(d).points)
t('MUI', lambda: MUIProfile(d).profile)
d3 = dit.Distribution(['0000','0110','1010','1101','1111','0011'], [1/6]*6)
t('PID_WB 3', lambda: [(k, round(v,4)) for k,v in PID_WB(d3)._pis.items()])
