import sys, traceback, warnings
warnings.simplefilter('ignore')
def imp():
    try:
        import dit
    except Exception as e:
        pass
imp()
from dit.npdist import Distribution
from dit.npscalardist import ScalarDistribution
import numpy as np
def t(name, f):
    try:
        r = f()
        print('OK  ', name, '->', repr(r)[:150].replace('\n',' '))
    except Exception as e:
        print('FAIL', name, type(e).__name__, str(e)[:200])
d = Distribution(['000','011','101','110'], [0.25]*4)
t('d', lambda: d)
t('marginal', lambda: d.marginal([0,1]).pmf)
t('coalesce', lambda: d.coalesce([[0,1],[1,2]]).outcomes)
t('condition_on', lambda: [x.pmf for x in d.condition_on([0])[1]])
from dit.shannon.shannon import entropy, mutual_information, conditional_entropy
t('entropy', lambda: entropy(d))
t('MI', lambda: mutual_information(d,[0],[1,2]))
import dit, dit.multivariate as mv
for n in ['coinformation','total_correlation','dual_total_correlation','residual_entropy','caekl_mutual_information','o_information','tse_complexity','cohesion','interaction_information','gk_common_information','functional_common_information','mss_common_information','wyner_common_information','exact_common_information','intrinsic_mutual_information']:
    if n=='cohesion':
        t(n, lambda: mv.cohesion(d,2))
    else:
        t(n, (lambda n: lambda: getattr(mv,n)(d) if n!='intrinsic_mutual_information' else getattr(mv,n)(d,[[0],[1]],[2]))(n))
import dit.divergences as dv
e = Distribution(['000','011','101','111'], [0.25,0.25,0.3,0.2])
for n in ['cross_entropy','kullback_leibler_divergence','jensen_shannon_divergence','variational_distance','hellinger_distance','bhattacharyya_coefficient','chernoff_information','earth_movers_distance','maximum_correlation','relative_entropy','hypercontractivity_coefficient']:
    f=getattr(dv,n,None)
    if f is None: print('MISSING',n); continue
    if n=='jensen_shannon_divergence': t(n, lambda: f([d,e]))
    elif n=='maximum_correlation': t(n, lambda: f(d,[[0],[1,2]]))
    elif n=='hypercontractivity_coefficient': t(n, lambda: f(d,[[0],[1,2]]))
    else: t(n, lambda: f(d,e))
from dit.divergences.generalized_divergences import alpha_divergence, renyi_divergence, tsallis_divergence, hellinger_divergence, f_divergence
t('alpha_div', lambda: alpha_divergence(d,e,0.5))
t('renyi_div', lambda: renyi_divergence(d,e,2))
import dit.other as ot
for n in ['renyi_entropy','tsallis_entropy']:
    t(n, lambda: getattr(ot,n)(d,2))
for n in ['extropy','perplexity','lautum_information','cumulative_residual_entropy','disequilibrium']:
    t(n, lambda: getattr(ot,n)(d))
t('logdist', lambda: d.copy(base=2).pmf)
t('log entropy', lambda: entropy(d.copy(base=3.5)))
t('rand', lambda: d.rand(5, rand=np.array([0.1,0.3,0.6,0.9,0.999])))
t('setitem', lambda: d.__setitem__('001', 0.0) or d.outcomes)
t('del', lambda: d.__delitem__('001') or d.outcomes)
from dit.algorithms.channelcapacity import channel_capacity
t('cc', lambda: channel_capacity(np.array([[0.9,0.1],[0.2,0.8]])))
from dit.rate_distortion.blahut_arimoto import blahut_arimoto, blahut_arimoto_ib
from dit.rate_distortion.distortions import hamming
t('ba', lambda: blahut_arimoto(np.array([0.3,0.7]), 2.0, hamming.matrix if hasattr(hamming,'matrix') else hamming))
from dit.algorithms.distribution_optimizers import maxent_dist, marginal_maxent_dists
t('maxent', lambda: maxent_dist(e, [[0,1],[1,2]]).pmf)
t('mmd', lambda: [entropy(x) for x in marginal_maxent_dists(e)])
from dit.algorithms.lattice import insert_meet, insert_join
t('insert_join', lambda: insert_join(d, -1, [[0],[1]]).outcomes)
t('insert_meet', lambda: insert_meet(d, -1, [[0],[1]]).outcomes)
from dit.algorithms.minimal_sufficient_statistic import insert_mss, mss
t('insert_mss', lambda: insert_mss(d, -1, [0],[1,2]).outcomes)
from dit.inference.counts import distribution_from_data, counts_from_data
t('dist_from_data', lambda: distribution_from_data([0,1,1,0,1,0,0,1,1], 2).pmf)
from dit.inference.estimators import entropy_0, entropy_1, entropy_2
t('entropy_0', lambda: entropy_0([0,1,1,0,1,0,0,1,1], 2))
t('entropy_1', lambda: entropy_1([0,1,1,0,1,0,0,1,1], 2))
t('entropy_2', lambda: entropy_2([0,1,1,0,1,0,0,1,1], 2))
from dit.inference.time_series import dist_from_timeseries
t('ts', lambda: dist_from_timeseries([0,1,1,0,1,0,0,1,1], 1).pmf)
from dit.inference.binning import binned
t('binned', lambda: binned(np.array([0.1,0.5,0.3,0.9,0.7]), bins=2))
from dit.math.aitchison import clr, clr_inv, ilr, ilr_inv, alr, alr_inv, perturbation, power, closure, dist as adist
x=np.array([0.2,0.3,0.5])
t('clr', lambda: clr_inv(clr(x)))
t('ilr', lambda: ilr_inv(ilr(x)))
t('alr', lambda: alr_inv(alr(x)))
from dit.math.pmfops import perturb_support, replace_zeros, jittered, convex_combination, downsample
t('perturb', lambda: perturb_support(x, 0.1))
t('replace_zeros', lambda: replace_zeros(np.array([0,0.5,0.5]), 0.001))
t('jittered', lambda: jittered(x))
t('downsample', lambda: downsample(x, 3))
t('convex', lambda: convex_combination(np.array([[0.2,0.8],[0.5,0.5]]), [0.5,0.5]))
from dit.distconst import simplex_grid, mixture_distribution, product_distribution, modify_outcomes, insert_rvf, uniform, noisy, erasure
t('simplex_grid', lambda: list(simplex_grid(3,1)))
t('mixture', lambda: mixture_distribution([d,e],[0.5,0.5]).pmf)
t('product', lambda: product_distribution(e).pmf)
t('modify', lambda: modify_outcomes(e, lambda o: o[:2]).pmf)
t('insert_rvf', lambda: insert_rvf(e, lambda o: o[0]).outcomes)
s1 = ScalarDistribution([1,2,3],[0.2,0.3,0.5]); s2=ScalarDistribution([1,2],[0.5,0.5])
t('sd add', lambda: (s1+s2).pmf)
t('sd matmul', lambda: (s1@s2).pmf)
from dit.algorithms.stats import mean, median, mode, standard_deviation, central_moment, standard_moment
t('mean', lambda: mean(s1)); t('median', lambda: median(s1)); t('mode', lambda: mode(s1)); t('std', lambda: standard_deviation(s1))
from dit.algorithms.prune_expand import pruned_samplespace, expanded_samplespace
t('pruned', lambda: list(pruned_samplespace(d).sample_space()))
t('expanded', lambda: len(list(expanded_samplespace(d).sample_space())))
import dit.example_dists as ex
t('giant_bit', lambda: ex.giant_bit(3,2).pmf)
t('Xor', lambda: ex.Xor().pmf)
t('binomial', lambda: ex.binomial(3,0.5).pmf)
from dit.multivariate.secret_key_agreement import lower_intrinsic_mutual_information, upper_intrinsic_mutual_information, secrecy_capacity_skar, necessary_intrinsic_mutual_information
t('skar lower', lambda: lower_intrinsic_mutual_information(e,[[0],[1]],[2]))
t('sc', lambda: secrecy_capacity_skar(e,[[0],[1]],[2]))
from dit.rate_distortion.information_bottleneck import InformationBottleneck
t('ib', lambda: InformationBottleneck(e, beta=1.0, rvs=[[0],[1]]).optimize())
from dit.multivariate.deweese import deweese_coinformation
t('deweese', lambda: deweese_coinformation(e))
