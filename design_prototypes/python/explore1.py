import warnings, random, itertools, math, traceback, sys
warnings.simplefilter('ignore')
import numpy as np
from fractions import Fraction as Fr
import dit
from dit.exceptions import *
rng = random.Random(int(sys.argv[1]) if len(sys.argv)>1 else 1)
issues = {}
def note(tag, detail):
    if tag not in issues:
        issues[tag] = detail
        print('ISSUE', tag, '::', detail[:400]); sys.stdout.flush()

def rand_joint(nmax=3, amax=3, classes=('str','tup','tupstr')):
    n = rng.randint(1,nmax)
    alph = [rng.sample(range(5), rng.randint(1,amax)) for _ in range(n)]
    full = list(itertools.product(*alph))
    k = rng.randint(1, min(len(full), 8))
    outs = rng.sample(full, k)
    w = [rng.randint(0,6) for _ in outs]
    if sum(w)==0: w[0]=1
    W=sum(w)
    ps=[Fr(x,W) for x in w]
    cls = rng.choice(classes)
    if cls=='str': enc = lambda o: ''.join(str(x) for x in o)
    elif cls=='tup': enc = lambda o: tuple(o)
    else: enc = lambda o: tuple(str(x) for x in o)
    return n, alph, [enc(o) for o in outs], outs, ps, enc, cls

def table(d):
    return {o: d[o] for o in d.sample_space()}

for it in range(int(sys.argv[2]) if len(sys.argv)>2 else 300):
    n, alph, outs, raw, ps, enc, cls = rand_joint()
    sparse = rng.random()<0.5; trim = rng.random()<0.5
    base = rng.choice(['linear',2,'e',10,3.5,0.5])
    ssopt = rng.choice([None,'cart','list'])
    try:
        kw={}
        if ssopt=='cart':
            big=[sorted(set(a)|{rng.randint(0,5)}) for a in alph]
            ss=[enc(o) for o in itertools.product(*big)]
            kw['sample_space']=ss
        elif ssopt=='list':
            extra=[o for o in itertools.product(*[sorted(set(a)|{5}) for a in alph])]
            rng.shuffle(extra)
            ss=list(dict.fromkeys([enc(o) for o in raw]+[enc(o) for o in extra[:3]]))
            rng.shuffle(ss)
            kw['sample_space']=ss
        pm=[float(p) for p in ps]
        d = dit.Distribution(outs, pm, sparse=sparse, trim=trim, **kw)
        if base!='linear':
            d.set_base(base)
    except Exception as e:
        note('ctor-exc-'+type(e).__name__, f'{outs} {ps} {sparse} {trim} {ssopt} {cls}: {e!r}')
        continue
    spec = dict(zip(outs, ps))
    ops = d.ops
    lin = lambda v: float(ops.exp(v)) if base!='linear' else float(v)
    # C01 lookup
    try:
        for o in d.sample_space():
            v = lin(d[o]); ex = float(spec.get(o,0))
            if abs(v-ex)>1e-9: note('C01-lookup', f'{o} {v} {ex} base={base} {outs}')
        L=list(d.sample_space())
        idx=[L.index(o) for o in d.outcomes]
        if idx!=sorted(idx) or len(set(d.outcomes))!=len(d.outcomes): note('C01-order', f'{d.outcomes} {L}')
        if not sparse and len(d.outcomes)!=len(L): note('C01-dense', f'{d.outcomes} {L}')
        if sparse and trim and any(spec.get(o,0)==0 for o in d.outcomes): note('C01-trim', f'{d.outcomes} {spec}')
    except Exception as e:
        note('C01-exc-'+type(e).__name__, f'{outs} {ps} {sparse} {trim} {ssopt} {cls} base={base}: {e!r} '+traceback.format_exc()[-300:])
    # C02 marginal
    try:
        k = rng.randint(0,n)
        sel = sorted(rng.sample(range(n), k))
        if k>0:
            m = d.marginal(sel)
            ref = {}
            for o,p in zip(raw,ps):
                key = enc(tuple(o[i] for i in sel)); ref[key]=ref.get(key,0)+p
            for o in m.sample_space():
                v=lin(m[o]); ex=float(ref.get(o,0))
                if abs(v-ex)>1e-9: note('C02-marg', f'{o} {v} {ex} sel={sel} base={base} {outs} {ps}')
            for o in ref:
                if o not in set(m.sample_space()): note('C02-ss', f'{o} missing from marginal ss; sel={sel}')
            if m.is_sparse()!=d.is_sparse(): note('C02-sparse', f'{m.is_sparse()} {d.is_sparse()}')
            if m.get_base()!=d.get_base(): note('C02-base', f'{m.get_base()} {d.get_base()}')
            # projection of ss
            proj = list(dict.fromkeys(enc(tuple(raw_o)) for raw_o in []))
    except Exception as e:
        note('C02-exc-'+type(e).__name__, f'{outs} {ps} sel={sel} {sparse} {trim} {ssopt} {cls} base={base}: {e!r} '+traceback.format_exc()[-400:])
    # C03 condition
    try:
        if n>=2:
            c = sorted(rng.sample(range(n), rng.randint(1,n-1)))
            rest=[i for i in range(n) if i not in c]
            r = sorted(rng.sample(rest, rng.randint(1,len(rest)))) if rng.random()<0.5 else None
            cd, conds = d.condition_on(c, rvs=r)
            rr = rest if r is None else r
            # reference
            pc={}; pcr={}
            for o,p in zip(raw,ps):
                kc=enc(tuple(o[i] for i in c)); kr=enc(tuple(o[i] for i in rr))
                pc[kc]=pc.get(kc,0)+p; pcr[(kc,kr)]=pcr.get((kc,kr),0)+p
            pos=[k for k in pc if pc[k]>0]
            if set(cd.outcomes)!=set(pos): note('C03-couts', f'{cd.outcomes} vs {pos}')
            if len(conds)!=len(cd.outcomes): note('C03-len', f'{len(conds)} {len(cd.outcomes)}')
            for kc,cond in zip(cd.outcomes, conds):
                tot=0
                for o in cond.sample_space():
                    v=lin(cond[o]); ex=float(pcr.get((kc,o),0)/pc[kc]); tot+=v
                    if abs(v-ex)>1e-9: note('C03-cond', f'{kc} {o} {v} {ex} c={c} r={r} base={base} {outs} {ps} sparse={sparse} ss={ssopt}')
                if abs(tot-1)>1e-9: note('C03-norm', f'{tot}')
            j = dit.joint_from_factors(cd, conds, strict=(r is None))
            allv = sorted(c+rr)
            mm = d.marginal(allv)
            for o in mm.sample_space():
                try:
                    a=lin(j[o]) if base=='linear' or True else None
                except Exception as e:
                    a=None
                b=lin(mm[o])
                ja = float(j.ops.exp(j[o])) if j.is_log() else float(j[o]) if o in set(j.sample_space()) else 0.0
                if abs(ja-b)>1e-9: note('C03-jff', f'{o} {ja} {b} c={c} r={r} base={base}')
    except Exception as e:
        note('C03-exc-'+type(e).__name__, f'{outs} {ps} c={c} r={r} {sparse} {trim} {ssopt} {cls} base={base}: {e!r} '+traceback.format_exc()[-500:])
    # C04 entropy / MI
    try:
        from dit.shannon import entropy, mutual_information, conditional_entropy
        H = entropy(d)
        ref = -sum(float(p)*math.log2(float(p)) for p in ps if p>0)
        scale = 1.0 if base=='linear' else math.log(2)/math.log(math.e if base=='e' else base)
        if abs(H-ref*scale)>1e-9: note('C04-H', f'{H} {ref*scale} base={base} {ps}')
        if not math.isfinite(H): note('C04-nan', f'{H}')
        for order in [0,0.5,1,2,np.inf]:
            from dit.other import renyi_entropy, tsallis_entropy
            if base=='linear':
                R = renyi_entropy(d, order)
                pp=[float(p) for p in ps if p>0]
                if order==0: ex=math.log2(len(pp))
                elif order==1: ex=ref
                elif order==np.inf: ex=-math.log2(max(pp))
                else: ex=math.log2(sum(x**order for x in pp))/(1-order)
                if abs(R-ex)>1e-9: note(f'C04-renyi-{order}', f'{R} {ex} sparse={sparse} trim={trim} {ps} ss={ssopt}')
    except Exception as e:
        note('C04-exc-'+type(e).__name__, f'{outs} {ps} {sparse} {trim} {ssopt} {cls} base={base}: {e!r} '+traceback.format_exc()[-400:])
print('done', len(issues))
