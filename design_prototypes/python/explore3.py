import warnings, random, itertools, math, traceback, sys, copy
warnings.simplefilter('ignore')
import numpy as np
from fractions import Fraction as Fr
import dit
from dit.exceptions import *
rng = random.Random(int(sys.argv[1]) if len(sys.argv)>1 else 1)
N = int(sys.argv[2]) if len(sys.argv)>2 else 200
issues = {}
def note(tag, detail):
    if tag not in issues:
        issues[tag] = detail
        print('ISSUE', tag, '::', detail[:600]); sys.stdout.flush()
def snap(d):
    return (tuple(d.outcomes), tuple(d.pmf.tolist()), d.get_base(), d.is_sparse(), tuple(d.alphabet), tuple(d.sample_space()), d.get_rv_names() if d.is_joint() else None)
# ---- C09 histories against a dict model (linear only + log)
for it in range(N):
    joint = rng.random()<0.6
    if joint:
        ss=[a+b for a in '01' for b in '012']
    else:
        ss=list(range(5))
    k=rng.randint(1,len(ss)); outs=rng.sample(ss,k)
    w=[rng.randint(0,4) for _ in outs]; 
    if sum(w)==0: w[0]=1
    ps=[x/sum(w) for x in w]
    sparse=rng.random()<0.5; trim=rng.random()<0.5
    cls=dit.Distribution if joint else dit.ScalarDistribution
    try:
        d=cls(outs,ps,sample_space=ss,sparse=sparse,trim=trim)
    except Exception as e:
        note('C09-ctor', repr(e)); continue
    ssl=list(d.sample_space())
    # model: stored dict (ordered by ss), sparse flag, base
    model={o:float(d[o]) for o in d.outcomes}; msparse=d.is_sparse(); mbase='linear'
    hist=[]
    objs=[(d,model,msparse,mbase)]
    try:
      for step in range(rng.randint(1,12)):
        oi=rng.randrange(len(objs)); d,model,msparse,mbase=objs[oi]
        op=rng.choice(['set','set','del','dense','sparse','norm','base','copy','bad'])
        zero = 0.0 if mbase=='linear' else (-math.inf if (mbase=='e' or mbase>1) else math.inf)
        tolin=lambda v: v if mbase=='linear' else float(d.ops.exp(v))
        if op=='set':
            o=rng.choice(ssl); p=rng.choice([0.0,0.25,0.5,1.0,0.125])
            v=p if mbase=='linear' else float(d.ops.log(p))
            d[o]=v; model[o]=p; hist.append(('set',oi,o,p))
        elif op=='del':
            o=rng.choice(ssl); del d[o]; hist.append(('del',oi,o))
            if msparse: model.pop(o,None)
            else: model[o]=0.0
        elif op=='dense':
            d.make_dense(); hist.append(('dense',oi))
            model={o:model.get(o,0.0) for o in ssl}; msparse=False
        elif op=='sparse':
            t=rng.random()<0.5; d.make_sparse(trim=t); hist.append(('sparse',oi,t)); msparse=True
            if t: model={o:p for o,p in model.items() if not abs(p)<=1e-8}
        elif op=='norm':
            z=sum(model.values())
            if z>0:
                d.normalize(); hist.append(('norm',oi)); model={o:p/z for o,p in model.items()}
        elif op=='base':
            b=rng.choice(['linear',2,'e',10,0.5]); d.set_base(b); mbase=b; hist.append(('base',oi,b))
        elif op=='copy':
            d2=d.copy(); objs.append((d2,dict(model),msparse,mbase)); hist.append(('copy',oi))
        elif op=='bad':
            o = 'zz' if joint else 99
            for f in (lambda: d.__setitem__(o,0.5), lambda: d.__delitem__(o), lambda: d[o]):
                try:
                    f(); note('C09-bad-noexc', f'{hist}')
                except InvalidOutcome: pass
            hist.append(('bad',oi))
        objs[oi]=(d,model,msparse,mbase)
        # observe all objects
        for oj,(dd,mm,ms,mb) in enumerate(objs):
            exp_outs=[o for o in ssl if o in mm]
            if list(dd.outcomes)!=exp_outs: note('C09-outcomes', f'obj{oj} {dd.outcomes} vs {exp_outs} hist={hist}')
            if dd.is_sparse()!=ms: note('C09-sparseflag', f'{hist}')
            if dd.get_base()!=mb: note('C09-base', f'{dd.get_base()} {mb} {hist}')
            for o in ssl:
                v=dd[o]; lv = v if mb=='linear' else float(dd.ops.exp(v))
                if abs(lv-mm.get(o,0.0))>1e-9: note('C09-value', f'obj{oj} {o} {lv} {mm.get(o,0.0)} base={mb} hist={hist}')
            if len(dd)!=len(mm): note('C09-len', f'{hist}')
            if list(dd.sample_space())!=ssl: note('C09-ss', f'{hist}')
    except Exception as e:
        note('C09-exc-'+type(e).__name__, f'{e!r} hist={hist} '+traceback.format_exc()[-400:])
# ---- C12 sampling
for it in range(N):
    k=rng.randint(1,6); w=[rng.choice([0,0,1,2,3]) for _ in range(k)]
    if sum(w)==0: w[0]=1
    ps=[x/sum(w) for x in w]
    d=dit.ScalarDistribution(list(range(k)),ps,trim=False, sparse=rng.random()<0.5)
    base=rng.choice(['linear',2,'e'])
    if base!='linear': d.set_base(base)
    cum=np.cumsum(ps)
    us=[0.0, 0.999999, float(np.nextafter(1,0))]+[rng.random() for _ in range(5)]+[float(c) for c in cum[:-1]]+[float(np.nextafter(c,0)) for c in cum]
    for u in us:
        if not (0<=u<1): continue
        try:
            o=d.rand(rand=u)
            tot=0; ex=None
            for i,p in enumerate(ps):
                tot+=p
                if u<tot: ex=i; break
            if ex is None: note('C12-fallthrough', f'{ps} u={u!r} got {o}')
            elif o!=ex: note('C12-wrong', f'{ps} u={u!r} got {o} exp {ex} base={base}')
            elif ps[o]==0: note('C12-zero', f'{ps} {u}')
        except Exception as e:
            note('C12-exc-'+type(e).__name__, f'{ps} u={u!r} base={base} {e!r}')
    try:
        r1=d.rand(5, prng=np.random.RandomState(7)); r2=d.rand(5, prng=np.random.RandomState(7))
        if r1!=r2: note('C12-seed', f'{r1} {r2}')
        c=d.copy(); 
        if d.rand(6)!=c.rand(6): note('C12-copy', 'copy differs')
    except Exception as e:
        note('C12-exc2-'+type(e).__name__, f'{ps} base={base} {e!r}')
# ---- C11
for it in range(N):
    k1=rng.randint(1,4); k2=rng.randint(1,4)
    o1=rng.sample(range(-2,5),k1); o2=rng.sample(range(-2,5),k2)
    w1=[rng.randint(1,4) for _ in o1]; w2=[rng.randint(1,4) for _ in o2]
    p1=[Fr(x,sum(w1)) for x in w1]; p2=[Fr(x,sum(w2)) for x in w2]
    a=dit.ScalarDistribution(o1,[float(x) for x in p1]); b=dit.ScalarDistribution(o2,[float(x) for x in p2])
    import operator
    for name,op in [('add',operator.add),('sub',operator.sub),('mul',operator.mul),('lt',operator.lt),('ge',operator.ge),('floordiv',operator.floordiv),('mod',operator.mod)]:
        try:
            if name in('floordiv','mod') and 0 in o2: continue
            r=op(a,b)
            ref={}
            for x,px in zip(o1,p1):
                for y,py in zip(o2,p2):
                    z=op(x,y); ref[z]=ref.get(z,0)+px*py
            got={o:r[o] for o in r.outcomes}
            if set(got)!=set(ref) or any(abs(got[z]-float(ref[z]))>1e-9 for z in ref): note('C11-'+name, f'{got} {ref}')
        except Exception as e:
            note('C11-exc-'+name+'-'+type(e).__name__, f'{o1} {o2} {e!r}')
    try:
        r=a+3; 
        if sorted(r.outcomes)!=sorted(x+3 for x in o1): note('C11-addnum', f'{r.outcomes}')
        m=a@b
        for (x,px),(y,py) in itertools.product(zip(o1,p1),zip(o2,p2)):
            if abs(m[(x,y)]-float(px*py))>1e-9: note('C11-matmul', f'{x,y}')
        from dit.algorithms.stats import mean, median, mode, standard_deviation, central_moment
        mu=sum(x*p for x,p in zip(o1,p1))
        if abs(mean(a)-float(mu))>1e-9: note('C11-mean', f'{mean(a)} {mu}')
        var=sum((x-mu)**2*p for x,p in zip(o1,p1))
        if abs(standard_deviation(a)-math.sqrt(float(var)))>1e-9: note('C11-std', f'{standard_deviation(a)} {math.sqrt(float(var))}')
        mo=mode(a); mx=max(p1); exm=sorted(x for x,p in zip(o1,p1) if p==mx)
        if sorted(int(v) for v in mo[0])!=exm: note('C11-mode', f'{mo} {exm} {o1} {p1}')
        # median
        srt=sorted(zip(o1,p1)); c=0; g=ge=None
        for x,p in srt:
            c+=p
            if ge is None and c>=Fr(1,2): ge=x
            if g is None and c>Fr(1,2): g=x
        exmed=(g+ge)/2
        if abs(median(a)-exmed)>1e-9: note('C11-median', f'{median(a)} {exmed} {srt}')
    except Exception as e:
        note('C11-exc-'+type(e).__name__, f'{o1} {p1} {e!r} '+traceback.format_exc()[-300:])
print('done', len(issues))
