import warnings, random, itertools, math, traceback, sys, copy
warnings.simplefilter('ignore')
import numpy as np
from fractions import Fraction as Fr
import dit
from dit.exceptions import *
rng = random.Random(int(sys.argv[1]) if len(sys.argv)>1 else 1)
N = int(sys.argv[2]) if len(sys.argv)>2 else 200
issues = {}
def note(tag, detail):
    if tag not in issues:
        issues[tag] = detail
        print('ISSUE', tag, '::', detail[:500]); sys.stdout.flush()
def H(ps): return -sum(float(p)*math.log2(float(p)) for p in ps if p>0)
def rand_joint(nmin=2, nmax=4, amax=3):
    n = rng.randint(nmin,nmax)
    alph = [list(range(rng.randint(1,amax))) for _ in range(n)]
    full = list(itertools.product(*alph))
    k = rng.randint(1, min(len(full), 10))
    outs = rng.sample(full, k)
    w = [rng.randint(0,6) for _ in outs]
    if sum(w)==0: w[0]=1
    W=sum(w); ps=[Fr(x,W) for x in w]
    return n, outs, ps
def Hs(outs, ps, S):
    S=sorted(set(S)); t={}
    for o,p in zip(outs,ps):
        k=tuple(o[i] for i in S); t[k]=t.get(k,0)+p
    return H(t.values())
def Hc(outs,ps,S,C): return Hs(outs,ps,set(S)|set(C))-Hs(outs,ps,C)
def powerset(l):
    for r in range(len(l)+1):
        for c in itertools.combinations(l,r): yield c
def partitions(s):
    s=list(s)
    if not s: yield []; return
    first=s[0]
    for p in partitions(s[1:]):
        for i in range(len(p)):
            yield p[:i]+[[first]+p[i]]+p[i+1:]
        yield [[first]]+p
import dit.multivariate as mv
from math import comb
for it in range(N):
    n, outs, ps = rand_joint()
    so = [''.join(map(str,o)) for o in outs]
    base = rng.choice(['linear','linear',2,'e',3.5])
    d = dit.Distribution(so, [float(p) for p in ps], sparse=rng.random()<0.5, trim=rng.random()<0.5)
    if base!='linear': d.set_base(base)
    scale = 1.0 if base=='linear' else math.log(2)/math.log(math.e if base=='e' else base)
    # random grouping
    vars_=list(range(n)); rng.shuffle(vars_)
    k=rng.randint(0,min(2,n-2)) if n>2 else 0
    crvs=sorted(vars_[:k]); rest=vars_[k:]
    ng=rng.randint(2,len(rest)) if len(rest)>=2 else 1
    groups=[[] for _ in range(ng)]
    for i,v in enumerate(rest): groups[i%ng].append(v)
    groups=[sorted(g) for g in groups if g]
    if len(groups)<2: continue
    allv=sorted(set(sum(groups,[])))
    try:
        ref={}
        ref['coinformation']= sum((-1)**(len(X)+1)*Hc(outs,ps,set(sum(X,[])),crvs) for X in (list(x) for x in powerset(groups)) if X)
        ref['total_correlation']=sum(Hc(outs,ps,g,crvs) for g in groups)-Hc(outs,ps,allv,crvs)
        ref['dual_total_correlation']=Hc(outs,ps,allv,crvs)-sum(Hc(outs,ps,g,set(allv)-set(g)|set(crvs)) for g in groups)
        ref['residual_entropy']=sum(Hc(outs,ps,g,set(allv)-set(g)|set(crvs)) for g in groups)
        ref['caekl_mutual_information']=min((sum(Hc(outs,ps,sum(blk,[]),crvs) for blk in P)-Hc(outs,ps,allv,crvs))/(len(P)-1) for P in partitions(groups) if len(P)>1)
        ref['o_information']=ref['total_correlation']-ref['dual_total_correlation']
        ref['interaction_information']=(-1)**len(groups)*ref['coinformation']
        N_=len(groups)
        ref['tse_complexity']=sum(sum(Hc(outs,ps,sum(c,[]),crvs) for c in itertools.combinations(groups,kk))/comb(N_,kk) - kk/N_*Hc(outs,ps,allv,crvs) for kk in range(1,N_))
        for name,ex in ref.items():
            v=getattr(mv,name)(d,groups,crvs)
            if abs(v-ex*scale)>1e-8: note('C05-'+name, f'{v} {ex*scale} groups={groups} crvs={crvs} base={base} {so} {ps}')
            if not math.isfinite(v): note('C05-nan-'+name, f'{v}')
        for kk in range(1,len(groups)+1):
            v=mv.cohesion(d,kk,groups,crvs)
            ex=sum(Hc(outs,ps,sum(c,[]),crvs) for c in itertools.combinations(groups,kk)) - comb(N_-1,kk-1)*Hc(outs,ps,allv,crvs)
            if abs(v-ex*scale)>1e-8: note('C05-cohesion', f'{v} {ex*scale} k={kk} groups={groups} crvs={crvs} base={base}')
        if base=='linear':
            for name in ['total_correlation','dual_total_correlation','caekl_mutual_information']:
                if ref[name]< -1e-9: note('C05-neg-ref-'+name, f'{ref[name]}')
    except Exception as e:
        note('C05-exc-'+type(e).__name__, f'{so} {ps} groups={groups} crvs={crvs} base={base}: {e!r} '+traceback.format_exc()[-500:])
    # C06 divergences
    try:
        n2, outs2, ps2 = n, rng.sample(outs, rng.randint(1,len(outs))), None
        extra=[o for o in itertools.product(*[range(3)]*n) if o not in outs]
        if extra and rng.random()<0.5: outs2=outs2+rng.sample(extra, min(len(extra),2))
        w=[rng.randint(1,5) for _ in outs2]; ps2=[Fr(x,sum(w)) for x in w]
        rng.shuffle(outs2)
        e = dit.Distribution([''.join(map(str,o)) for o in outs2], [float(p) for p in ps2])
        dl = d.copy(base='linear')
        P=dict(zip(outs,ps)); Q=dict(zip(outs2,ps2))
        keys=set(P)|set(Q)
        import dit.divergences as dv
        def kl(P,Q):
            t=0
            for k,p in P.items():
                if p>0:
                    q=Q.get(k,0)
                    if q==0: return math.inf
                    t+=float(p)*math.log2(float(p)/float(q))
            return t
        v=dv.kullback_leibler_divergence(dl,e); ex=kl(P,Q)
        if not (v==ex or abs(v-ex)<1e-8): note('C06-kl', f'{v} {ex} {P} {Q}')
        v=dv.kullback_leibler_divergence(e,dl); ex=kl(Q,P)
        if not (v==ex or abs(v-ex)<1e-8): note('C06-kl2', f'{v} {ex} {P} {Q}')
        v=dv.variational_distance(dl,e); ex=sum(abs(float(P.get(k,0))-float(Q.get(k,0))) for k in keys)/2
        if abs(v-ex)>1e-9: note('C06-vd', f'{v} {ex}')
        v=dv.hellinger_distance(dl,e); bc=sum(math.sqrt(float(P.get(k,0))*float(Q.get(k,0))) for k in keys); ex=math.sqrt(max(0,1-bc))
        if abs(v-ex)>1e-7: note('C06-hell', f'{v} {ex}')
        wts=[Fr(1,3),Fr(2,3)]
        v=dv.jensen_shannon_divergence([dl,e],[float(x) for x in wts])
        M={k:wts[0]*P.get(k,0)+wts[1]*Q.get(k,0) for k in keys}
        ex=H(M.values())-float(wts[0])*H(P.values())-float(wts[1])*H(Q.values())
        if abs(v-ex)>1e-9: note('C06-jsd', f'{v} {ex}')
        v=dv.cross_entropy(dl,e)
        ex=sum((-float(p)*math.log2(float(Q[k])) if Q.get(k,0)>0 else math.inf) for k,p in P.items() if p>0)
        if not (v==ex or abs(v-ex)<1e-8): note('C06-xent', f'{v} {ex}')
        from dit.divergences.generalized_divergences import renyi_divergence, tsallis_divergence, alpha_divergence, hellinger_divergence
        for a in [0.5,2]:
            v=renyi_divergence(dl,e,a)
            s=sum((float(P.get(k,0))**a)*(float(Q.get(k,0))**(1-a)) if not (Q.get(k,0)==0 and a>1 and P.get(k,0)>0) else math.inf for k in keys if P.get(k,0)>0 or a<1)
            ex=math.log2(s)/(a-1) if s>0 and s<math.inf else math.inf
            if not (v==ex or abs(v-ex)<1e-7): note(f'C06-renyi-{a}', f'{v} {ex} {P} {Q}')
    except Exception as e:
        note('C06-exc-'+type(e).__name__, f'{e!r} '+traceback.format_exc()[-500:])
print('done', len(issues))
