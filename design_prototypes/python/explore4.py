import warnings, random, itertools, math, traceback, sys
warnings.simplefilter('ignore')
import numpy as np
from fractions import Fraction as Fr
import dit
rng = random.Random(int(sys.argv[1]) if len(sys.argv)>1 else 1)
N = int(sys.argv[2]) if len(sys.argv)>2 else 150
issues = {}
def note(tag, detail):
    if tag not in issues:
        issues[tag] = detail
        print('ISSUE', tag, '::', detail[:600]); sys.stdout.flush()
def lin(d): 
    return {o: (float(d.ops.exp(d[o])) if d.is_log() else float(d[o])) for o in d.sample_space()}
def close(a,b):
    ks=set(a)|set(b)
    return all(abs(a.get(k,0)-b.get(k,0))<1e-9 for k in ks)
for it in range(N):
    n=rng.randint(2,3)
    full=list(itertools.product(*[range(rng.randint(2,3)) for _ in range(n)]))
    outs=rng.sample(full, rng.randint(2,min(6,len(full))))
    w=[rng.randint(0,4) for _ in outs]
    if sum(w)==0: w[0]=1
    ps=[x/sum(w) for x in w]
    so=[''.join(map(str,o)) for o in outs]
    d=dit.Distribution(so,ps,trim=rng.random()<0.5, sparse=rng.random()<0.5)
    b=rng.choice([2,'e',10,3.5,0.5])
    ld=d.copy(base=b)
    tests={}
    try:
        # roundtrip chain
        c=ld.copy()
        for bb in [rng.choice(['linear',2,'e',10,3.5,0.5]) for _ in range(3)]: c.set_base(bb)
        c.set_base('linear')
        if not close(lin(c), lin(d)): note('C07-chain', f'{lin(c)} {lin(d)}')
        ev=[o for o in so if rng.random()<0.5]
        if abs((float(ld.ops.exp(ld.event_probability(ev)))) - float(d.event_probability(ev)))>1e-9: note('C07-event', f'{ev}')
        ops_list = {
          'marginal': lambda x: x.marginal([0]),
          'coalesce': lambda x: x.coalesce([[0,1],[1]]),
          'product': lambda x: dit.product_distribution(x),
          'modify': lambda x: dit.modify_outcomes(x, lambda o: o[:1]+'0'*(len(o)-1)),
          'insert_rvf': lambda x: dit.insert_rvf(x, lambda o: o[0]),
          'mixture': lambda x: dit.mixture_distribution([x, dit.uniform(list(x.outcomes)).copy(base=x.get_base()) if x.is_log() else dit.uniform(list(x.outcomes))], [0.25,0.75] if not x.is_log() else [float(x.ops.log(0.25)), float(x.ops.log(0.75))]),
          'mixture_merge': lambda x: dit.mixture_distribution([x, (dit.uniform(['0'*n,'1'*n]).copy(base=x.get_base()) if x.is_log() else dit.uniform(['0'*n,'1'*n]))], [0.25,0.75] if not x.is_log() else [float(x.ops.log(0.25)), float(x.ops.log(0.75))], merge=True),
          'mixture2': lambda x: dit.mixture_distribution2([x, x], [0.25,0.75] if not x.is_log() else [float(x.ops.log(0.25)), float(x.ops.log(0.75))]),
          'normalize': lambda x: (lambda y: (y.normalize(), y)[1])(x.copy()),
          'pruned': lambda x: dit.pruned_samplespace(x),
          'expanded': lambda x: dit.expanded_samplespace(x),
        }
        for name,f in ops_list.items():
            try:
                a=lin(f(d))
            except Exception as e:
                note('C07-linexc-'+name, repr(e)); continue
            try:
                r=f(ld)
                bb=lin(r)
                if not close(a,bb): note('C07-'+name, f'lin={a} log={bb} base={b}')
                if r.get_base()!=ld.get_base(): note('C07-basekept-'+name, f'{r.get_base()} {ld.get_base()}')
            except Exception as e:
                note('C07-logexc-'+name, f'base={b} {e.__class__.__name__} '+traceback.format_exc()[-300:])
        from dit.shannon import entropy, mutual_information, conditional_entropy
        import dit.multivariate as mv, dit.other as ot
        sc=math.log(2)/math.log(math.e if b=='e' else b)
        for name,f in {'H':lambda x: entropy(x), 'MI': lambda x: mutual_information(x,[0],[1]), 'CE': lambda x: conditional_entropy(x,[0],[1]),
                       'T': lambda x: mv.total_correlation(x), 'B': lambda x: mv.dual_total_correlation(x), 'I': lambda x: mv.coinformation(x),
                       'extropy': lambda x: ot.extropy(x), }.items():
            a=f(d); bb=f(ld)
            if abs(a*sc-bb)>1e-8: note('C07-meas-'+name, f'{a*sc} {bb} base={b}')
        a=ot.perplexity(d); bb=ot.perplexity(ld)
        if abs(a-bb)>1e-8: note('C07-perplexity', f'{a} {bb} base={b}')
        # sampling
        us=np.array([rng.random() for _ in range(6)])
        if d.copy().rand(6,rand=us)!=ld.rand(6,rand=us): note('C07-rand', f'{us}')
        # condition
        cd,conds=d.condition_on([0]); lcd,lconds=ld.condition_on([0])
        if not close(lin(cd),lin(lcd)): note('C07-cond-marg','')
        for x,y in zip(conds,lconds):
            if not close(lin(x),lin(y)): note('C07-cond', f'{lin(x)} {lin(y)}')
    except Exception as e:
        note('C07-exc-'+type(e).__name__, f'{e!r} '+traceback.format_exc()[-400:])
# C19
from dit.inference.counts import distribution_from_data, counts_from_data
from dit.inference.estimators import entropy_0
from dit.inference.time_series import dist_from_timeseries
for it in range(N):
    L=rng.randint(1,4); T=rng.randint(L, 25); A=rng.randint(1,3)
    data=[rng.randrange(A) for _ in range(T)]
    try:
        d=distribution_from_data(data, L, base='linear')
        ref={}
        for i in range(T-L+1):
            wd=tuple(data[i:i+L]); ref[wd]=ref.get(wd,0)+1
        tot=T-L+1
        got={(o if isinstance(o,tuple) else (o,)):float(d[o]) for o in d.outcomes}
        if set(got)!=set(ref) or any(abs(got[k]-ref[k]/tot)>1e-12 for k in ref): note('C19-dfd', f'{data} L={L} {got} {ref}')
        hL=rng.randint(0,L); 
        hist,cc,hc,al=counts_from_data(data,hL,L-hL)
        if abs(cc.sum()-tot)>1e-9 or not np.allclose(cc.sum(axis=1),hc): note('C19-counts', f'{data} {hL} {L}')
        h0=entropy_0(data,L); ex=-sum(v/tot*math.log2(v/tot) for v in ref.values())
        if abs(h0-ex)>1e-9: note('C19-h0', f'{h0} {ex}')
        if L>=2:
            dt=dist_from_timeseries(data, L-1)
            got={o:float(dt[o]) for o in dt.outcomes}
            r2={}
            for wd,c in ref.items():
                key=(tuple(wd[:-1]),)+(wd[-1],); r2[key]=c/tot
            if set(got)!=set(r2) or any(abs(got[k]-r2[k])>1e-12 for k in r2): note('C19-ts', f'{data} L={L} {got} {r2}')
    except Exception as e:
        note('C19-exc-'+type(e).__name__, f'{data} L={L} {e!r} '+traceback.format_exc()[-300:])
print('done',len(issues))
