From Coq Require Import Reals QArith List Lra Bool.
From Interval Require Import Tactic.
Import ListNotations.
Definition outcome := list nat.
Definition oeqb (a b : outcome) : bool := if list_eq_dec Nat.eq_dec a b then true else false.
Definition pd := list (outcome * Q).
Fixpoint add_to (k : outcome) (v : Q) (acc : pd) : pd :=
  match acc with
  | [] => [(k, v)]
  | (k', v') :: t => if oeqb k' k then (k', Qred (v' + v)) :: t else (k', v') :: add_to k v t
  end.
Definition pushforward (f : outcome -> outcome) (d : pd) : pd :=
  fold_left (fun acc x => add_to (f (fst x)) (snd x) acc) d [].
Definition proj (idx : list nat) (o : outcome) : outcome := map (fun i => nth i o 0%nat) idx.
Definition mpmf (d : pd) (S : list nat) : list Q := map snd (pushforward (proj S) d).
(* data: coefficient and pmf per entropy term *)
Definition tc_data (d : pd) (groups : list (list nat)) (C : list nat) : list (Q * list Q) :=
  flat_map (fun g => [(1, mpmf d (g ++ C)); (-1, mpmf d C)]) groups
  ++ [(-1, mpmf d (concat groups ++ C)); (1, mpmf d C)].
Open Scope R_scope.
Definition plogp (q : Q) : R := if Qeq_bool q 0 then 0 else Q2R q * (ln (Q2R q) / ln 2).
Definition entropy_list (l : list Q) : R := - fold_right (fun q acc => plogp q + acc) 0 l.
Definition lincomb (t : list (Q * list Q)) : R := fold_right (fun x acc => Q2R (fst x) * entropy_list (snd x) + acc) 0 t.
Definition tc d g C := lincomb (tc_data d g C).

Definition d1 : pd := [([0;0;0]%nat, 3602879701896397#36028797018963968); ([0;1;1]%nat, 1#4); ([1;0;1]%nat, 1#8); ([1;1;0]%nat, 18915118435027681 # 36028797018963968)]%Q.
Ltac stage f := match goal with |- context [lincomb ?t] => let v := eval vm_compute in t in change t with v end.
Ltac ev := cbv -[Rplus Rminus Rmult Rdiv Ropp Rinv ln exp sqrt Rpower IZR Rabs Rle Rlt Rmin Rmax].
Goal Rabs (tc d1 [[0];[1];[2]]%nat [] - 0.9) <= 1/2.
Proof. unfold tc. Time stage tt. Time ev. Time interval with (i_prec 60). Qed.
