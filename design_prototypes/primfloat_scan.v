From Coq Require Import PrimFloat List.
Import ListNotations.
Open Scope float_scope.
Fixpoint scan (pmf : list float) (u total : float) (i : nat) : option nat :=
  match pmf with
  | [] => None
  | p :: t => let total' := total + p in if u <? total' then Some i else scan t u total' (S i)
  end.
Definition tenth := 0x1.999999999999ap-4.
Eval vm_compute in scan (repeat tenth 10) 0x1.fffffffffffffp-1 0 0%nat.
Eval vm_compute in scan (repeat tenth 10) 0x1.ffffffffffffep-1 0 0%nat.
Eval vm_compute in (fold_left add (repeat tenth 10) 0).
