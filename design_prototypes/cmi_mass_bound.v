From Coq Require Import Reals List Lra Bool.
Import ListNotations.
Open Scope R_scope.

Fixpoint rsum (l : list R) : R := match l with [] => 0 | x :: t => x + rsum t end.
Definition sumf {A} (l : list A) (f : A -> R) : R := rsum (map f l).
Definition ind (b : bool) : R := if b then 1 else 0.

Lemma sumf_nil {A} (f : A -> R) : sumf [] f = 0. Proof. reflexivity. Qed.
Lemma sumf_cons {A} a (l : list A) f : sumf (a :: l) f = f a + sumf l f. Proof. reflexivity. Qed.
Lemma sumf_ext {A} (l : list A) f g : (forall a, In a l -> f a = g a) -> sumf l f = sumf l g.
Proof. induction l as [|a l IH]; intros H; [reflexivity|]. rewrite !sumf_cons, (H a), IH; auto using in_eq, in_cons. Qed.
Lemma sumf_le {A} (l : list A) f g : (forall a, In a l -> f a <= g a) -> sumf l f <= sumf l g.
Proof. induction l as [|a l IH]; intros H; [unfold sumf; simpl; lra|]. rewrite !sumf_cons.
  assert (f a <= g a) by auto using in_eq. assert (sumf l f <= sumf l g) by auto using in_cons. lra. Qed.
Lemma sumf_plus {A} (l : list A) f g : sumf l (fun a => f a + g a) = sumf l f + sumf l g.
Proof. induction l as [|a l IH]; [unfold sumf; simpl; lra|]. rewrite !sumf_cons, IH; lra. Qed.
Lemma sumf_scal {A} (l : list A) c f : sumf l (fun a => c * f a) = c * sumf l f.
Proof. induction l as [|a l IH]; [unfold sumf; simpl; lra|]. rewrite !sumf_cons, IH; lra. Qed.
Lemma sumf_zero {A} (l : list A) : sumf l (fun _ => 0) = 0.
Proof. induction l as [|a l IH]; [reflexivity|]. rewrite sumf_cons, IH; lra. Qed.
Lemma sumf_swap {A B} (l1 : list A) (l2 : list B) (F : A -> B -> R) :
  sumf l1 (fun a => sumf l2 (fun b => F a b)) = sumf l2 (fun b => sumf l1 (fun a => F a b)).
Proof.
  induction l1 as [|a l1 IH].
  - rewrite sumf_nil. symmetry. erewrite sumf_ext; [apply sumf_zero|]. intros; apply sumf_nil.
  - rewrite sumf_cons, IH, <- sumf_plus. apply sumf_ext; intros; rewrite sumf_cons; reflexivity.
Qed.
Lemma sumf_nonneg {A} (l : list A) f : (forall a, In a l -> 0 <= f a) -> 0 <= sumf l f.
Proof. intros H. rewrite <- (sumf_zero l). apply sumf_le; assumption. Qed.
Lemma sumf_filter {A} (l : list A) (P : A -> bool) f : sumf (filter P l) f = sumf l (fun a => ind (P a) * f a).
Proof. induction l as [|a l IH]; [reflexivity|]. simpl. rewrite sumf_cons. destruct (P a); simpl; [rewrite sumf_cons|]; rewrite IH; lra. Qed.

Section CMI.
Variable A : Type.
Variable w : A -> R.
Variable l : list A.
Hypothesis wpos : forall a, In a l -> 0 < w a.

Record equiv (E : A -> A -> bool) : Prop := {
  e_refl : forall a, E a a = true;
  e_sym : forall a b, E a b = true -> E b a = true;
  e_trans : forall a b c, E a b = true -> E b c = true -> E a c = true }.

Definition cell (E : A -> A -> bool) (a : A) : R := sumf l (fun b => ind (E a b) * w b).

Lemma cell_equiv E a a' : equiv E -> E a a' = true -> cell E a = cell E a'.
Proof.
  intros HE H. apply sumf_ext; intros b _. f_equal. f_equal.
  destruct (E a b) eqn:E1, (E a' b) eqn:E2; try reflexivity.
  - rewrite (e_trans E HE a' a b) in E2; [discriminate| apply (e_sym E HE); assumption | assumption].
  - rewrite (e_trans E HE a a' b) in E1; [discriminate| assumption | assumption].
Qed.

Lemma cell_pos E a : equiv E -> In a l -> 0 < cell E a.
Proof.
  intros HE Hin. unfold cell.
  assert (G: forall l', (forall b, In b l' -> 0 < w b) -> In a l' -> 0 < sumf l' (fun b => ind (E a b) * w b)).
  { induction l' as [|b l' IH]; intros Hp Hin'; [destruct Hin'|]. destruct Hin' as [->|Hin']; rewrite sumf_cons.
    - rewrite (e_refl E HE). simpl.
      assert (0 <= sumf l' (fun b => ind (E a b) * w b)).
      { apply sumf_nonneg. intros c Hc. assert (0 < w c) by auto using in_cons. destruct (E a c); simpl; lra. }
      assert (0 < w a) by auto using in_eq. lra.
    - assert (0 < sumf l' (fun b => ind (E a b) * w b)) by (apply IH; auto using in_cons).
      assert (0 < w b) by auto using in_eq. destruct (E a b); simpl; lra. }
  apply G; assumption.
Qed.

(* pairwise-distinct classes *)
Fixpoint pairwise_not (E : A -> A -> bool) (s : list A) : Prop :=
  match s with [] => True | a :: t => (forall b, In b t -> E a b = false) /\ pairwise_not E t end.

Lemma count_le_one E s b : equiv E -> pairwise_not E s -> sumf s (fun a => ind (E a b)) <= 1.
Proof.
  intros HE. induction s as [|a s IH]; intros Hp; [rewrite sumf_nil; lra|].
  destruct Hp as [Ha Hp]. rewrite sumf_cons. destruct (E a b) eqn:Eab; simpl.
  - assert (sumf s (fun a0 => ind (E a0 b)) = 0).
    { rewrite <- (sumf_zero s). apply sumf_ext. intros c Hc.
      destruct (E c b) eqn:Ecb; [|reflexivity].
      assert (Hac : E a c = true) by (apply (e_trans E HE a b c); [assumption| apply (e_sym E HE); assumption]).
      rewrite (Ha c Hc) in Hac. discriminate. }
    lra.
  - specialize (IH Hp). lra.
Qed.

Lemma lemmaL E G s b0 : equiv E -> equiv G ->
  (forall a b, E a b = true -> G a b = true) ->
  pairwise_not E s -> (forall a, In a s -> G b0 a = true) ->
  sumf s (fun a => cell E a) <= cell G b0.
Proof.
  intros HE HG Hsub Hp Hcls. unfold cell.
  rewrite sumf_swap. apply sumf_le. intros b Hb.
  rewrite (sumf_ext s _ (fun a => w b * ind (E a b))) by (intros; lra).
  rewrite sumf_scal.
  assert (Hw : 0 < w b) by auto.
  assert (Hc := count_le_one E s b HE Hp).
  destruct (G b0 b) eqn:Gb; simpl.
  - nra.
  - assert (sumf s (fun a => ind (E a b)) = 0).
    { rewrite <- (sumf_zero s). apply sumf_ext. intros c Hc'.
      destruct (E c b) eqn:Ecb; [|reflexivity].
      assert (Hg : G b0 b = true) by (apply (e_trans G HG b0 c b); auto).
      rewrite Gb in Hg. discriminate. }
    rewrite H. lra.
Qed.

Variables eX eY eZ : A -> A -> bool.
Hypothesis HX : equiv eX. Hypothesis HY : equiv eY. Hypothesis HZ : equiv eZ.
Definition eXZ a b := eX a b && eZ a b.
Definition eYZ a b := eY a b && eZ a b.
Definition eXYZ a b := eX a b && (eY a b && eZ a b).
Hypothesis distinct : pairwise_not eXYZ l.

Lemma equiv_and E F : equiv E -> equiv F -> equiv (fun a b => E a b && F a b).
Proof.
  intros [r1 s1 t1] [r2 s2 t2]. split.
  - intros; rewrite r1, r2; reflexivity.
  - intros a b H; apply andb_true_iff in H as [? ?]; rewrite s1, s2; auto.
  - intros a b c H1 H2; apply andb_true_iff in H1 as [? ?]; apply andb_true_iff in H2 as [? ?].
    rewrite (t1 a b c), (t2 a b c); auto.
Qed.

Lemma pairwise_filter E P s : pairwise_not E s -> pairwise_not E (filter P s).
Proof.
  induction s as [|a s IH]; intros H; [exact I|]. destruct H as [Ha Hs]. simpl.
  destruct (P a); [|auto]. split; [|auto]. intros b Hb. apply filter_In in Hb as [Hb _]. auto.
Qed.

Lemma pairwise_weaken (E F : A -> A -> bool) s :
  (forall a b, In a s -> In b s -> F a b = true -> E a b = true) -> pairwise_not E s -> pairwise_not F s.
Proof.
  induction s as [|a s IH]; intros H Hp; [exact I|]. destruct Hp as [Ha Hs]. split.
  - intros b Hb. destruct (F a b) eqn:Fab; [|reflexivity].
    assert (Hab : E a b = true) by (apply H; auto using in_eq, in_cons).
    rewrite (Ha b Hb) in Hab. discriminate.
  - apply IH; [|assumption]. intros; apply H; auto using in_cons.
Qed.

Definition q (a : A) : R := cell eXZ a * cell eYZ a / cell eZ a.

Theorem q_mass_le : sumf l q <= sumf l w.
Proof.
  assert (HXZ := equiv_and _ _ HX HZ). assert (HYZ := equiv_and _ _ HY HZ).
  unfold q.
  (* expand cell eYZ a and swap *)
  rewrite (sumf_ext l _ (fun a => sumf l (fun b => ind (eYZ a b) * w b * (cell eXZ a / cell eZ a)))).
  2:{ intros a Ha. transitivity ((cell eXZ a / cell eZ a) * cell eYZ a); [unfold Rdiv; ring|].
      change (cell eYZ a) with (sumf l (fun b => ind (eYZ a b) * w b)).
      rewrite <- sumf_scal. apply sumf_ext; intros; ring. }
  rewrite sumf_swap. apply sumf_le. intros b Hb.
  (* inner sum over a *)
  assert (Hzb : 0 < cell eZ b) by (apply cell_pos; assumption).
  rewrite (sumf_ext l _ (fun a => (w b / cell eZ b) * (ind (eYZ a b) * cell eXZ a))).
  2:{ intros a Ha. destruct (eYZ a b) eqn:E; simpl; [|unfold Rdiv; lra].
      unfold eYZ in E. apply andb_true_iff in E as [_ Ez].
      rewrite (cell_equiv eZ a b HZ Ez). unfold Rdiv; lra. }
  rewrite sumf_scal, <- sumf_filter.
  assert (Hw : 0 < w b) by auto.
  assert (HL : sumf (filter (fun a => eYZ a b) l) (fun a => cell eXZ a) <= cell eZ b).
  { apply lemmaL; try assumption.
    - intros a c H. unfold eXZ in H. apply andb_true_iff in H as [_ ?]. assumption.
    - apply pairwise_weaken with (E := eXYZ).
      + intros a c Ha Hc H. apply filter_In in Ha as [_ Ha]. apply filter_In in Hc as [_ Hc].
        unfold eXZ in H. apply andb_true_iff in H as [Hx Hz].
        unfold eYZ in Ha, Hc. apply andb_true_iff in Ha as [Hya _]. apply andb_true_iff in Hc as [Hyc _].
        unfold eXYZ. rewrite Hx, Hz, (e_trans eY HY a b c); auto. apply (e_sym eY HY); assumption.
      + apply pairwise_filter; assumption.
    - intros a Ha. apply filter_In in Ha as [_ Ha]. unfold eYZ in Ha. apply andb_true_iff in Ha as [_ Hz].
      apply (e_sym eZ HZ); assumption. }
  assert (0 < / cell eZ b) by (apply Rinv_0_lt_compat; assumption).
  unfold Rdiv. 
  assert (w b * / cell eZ b * sumf (filter (fun a => eYZ a b) l) (fun a => cell eXZ a) <= w b * / cell eZ b * cell eZ b).
  { apply Rmult_le_compat_l; [|assumption]. apply Rmult_le_pos; lra. }
  replace (w b * / cell eZ b * cell eZ b) with (w b) in H0 by (field; lra).
  exact H0.
Qed.
End CMI.
Check q_mass_le.
Print Assumptions q_mass_le.
