From Coq Require Import Reals List Lra.
Import ListNotations.
Open Scope R_scope.

Lemma ln_le_sub1 x : 0 < x -> ln x <= x - 1.
Proof.
  intros Hx.
  destruct (Req_dec x 1) as [->|Hne].
  - rewrite ln_1; lra.
  - assert (H: 1 + ln x < exp (ln x)).
    { apply exp_ineq1. intro E. apply Hne.
      rewrite <- (exp_ln x Hx), E, exp_0; reflexivity. }
    rewrite exp_ln in H by assumption. lra.
Qed.

(* term: p * ln (p / q), with 0 ln 0 = 0 *)
Definition klterm (p q : R) : R := p * (ln p - ln q).

Fixpoint rsum (l : list R) : R := match l with [] => 0 | x :: t => x + rsum t end.

Fixpoint kl (ps qs : list R) : R :=
  match ps, qs with
  | p :: ps', q :: qs' => klterm p q + kl ps' qs'
  | _, _ => 0
  end.

Lemma klterm_ge p q : 0 <= p -> 0 < q \/ p = 0 -> p - q <= klterm p q \/ (p = 0 /\ klterm p q = 0).
Proof.
  intros Hp Hq. unfold klterm.
  destruct (Req_dec p 0) as [->|Hp0].
  - right. split; [reflexivity| ring].
  - left. destruct Hq as [Hq|]; [|contradiction].
    assert (0 < p) by lra.
    assert (Hl := ln_le_sub1 (q / p)).
    assert (0 < q / p) by (apply Rdiv_lt_0_compat; assumption).
    specialize (Hl H0).
    unfold Rdiv in Hl. rewrite ln_mult in Hl by (try assumption; apply Rinv_0_lt_compat; assumption).
    rewrite ln_Rinv in Hl by assumption.
    assert (p * (ln q + - ln p) <= p * (q * / p - 1)) by (apply Rmult_le_compat_l; lra).
    replace (p * (q * / p - 1)) with (q - p) in H1 by (field; lra).
    lra.
Qed.

Inductive dom : list R -> list R -> Prop :=
| dom_nil : dom [] []
| dom_cons p q ps qs : 0 <= p -> 0 <= q -> (0 < q \/ p = 0) -> dom ps qs -> dom (p :: ps) (q :: qs).

Lemma gibbs_aux ps qs : dom ps qs -> rsum ps - rsum qs <= kl ps qs.
Proof.
  induction 1 as [|p q ps qs Hp Hq Hd _ IH]; simpl.
  - lra.
  - destruct (klterm_ge p q Hp Hd) as [H1|[-> H1]]; lra.
Qed.

Theorem gibbs ps qs : dom ps qs -> rsum ps = 1 -> rsum qs <= 1 -> 0 <= kl ps qs.
Proof. intros Hd Hp Hq. pose proof (gibbs_aux ps qs Hd). lra. Qed.
Print Assumptions gibbs.
