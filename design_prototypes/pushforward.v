From Coq Require Import QArith List Bool Lia Lqa Arith.
Import ListNotations.
Open Scope Q_scope.

Definition outcome := list nat.
Definition oeqb (a b : outcome) : bool := if list_eq_dec Nat.eq_dec a b then true else false.
Lemma oeqb_spec a b : reflect (a = b) (oeqb a b).
Proof. unfold oeqb; destruct (list_eq_dec Nat.eq_dec a b); constructor; assumption. Qed.

Definition pd := list (outcome * Q).
Fixpoint qsum (l : list Q) : Q := match l with [] => 0 | x :: t => x + qsum t end.
Definition prob_of (d : pd) (o : outcome) : Q :=
  qsum (map snd (filter (fun x => oeqb (fst x) o) d)).
Definition mass (d : pd) : Q := qsum (map snd d).

(* accumulate p on key k, keeping first-insertion order (Python dict semantics) *)
Fixpoint add_to (k : outcome) (v : Q) (acc : pd) : pd :=
  match acc with
  | [] => [(k, v)]
  | (k', v') :: t => if oeqb k' k then (k', v' + v) :: t else (k', v') :: add_to k v t
  end.
Definition pushforward (f : outcome -> outcome) (d : pd) : pd :=
  fold_left (fun acc x => add_to (f (fst x)) (snd x) acc) d [].

Lemma prob_add_to k v acc o :
  prob_of (add_to k v acc) o == prob_of acc o + (if oeqb k o then v else 0).
Proof.
  induction acc as [|[k' v'] t IH]; unfold prob_of in *; simpl.
  - destruct (oeqb k o); simpl; lra.
  - destruct (oeqb_spec k' k) as [->|Hne]; simpl.
    + destruct (oeqb k o); simpl; lra.
    + destruct (oeqb k' o); simpl; rewrite IH; lra.
Qed.

Lemma keys_add_to k v acc : map fst (add_to k v acc) = if existsb (fun x => oeqb (fst x) k) acc then map fst acc else map fst acc ++ [k].
Proof.
  induction acc as [|[k' v'] t IH]; simpl; [reflexivity|].
  destruct (oeqb_spec k' k) as [->|Hne]; simpl; [reflexivity|].
  rewrite IH. destruct (existsb _ t); reflexivity.
Qed.

Lemma pushforward_prob_gen (f : outcome -> outcome) (d : pd) acc o :
  prob_of (fold_left (fun acc x => add_to (f (fst x)) (snd x) acc) d acc) o
  == prob_of acc o + qsum (map snd (filter (fun x => oeqb (f (fst x)) o) d)).
Proof.
  revert acc; induction d as [|[k v] t IH]; intros acc; simpl.
  - lra.
  - rewrite IH, prob_add_to. destruct (oeqb (f k) o); simpl; lra.
Qed.

Theorem pushforward_prob (f : outcome -> outcome) (d : pd) o :
  prob_of (pushforward f d) o == qsum (map snd (filter (fun x => oeqb (f (fst x)) o) d)).
Proof. unfold pushforward. rewrite pushforward_prob_gen. unfold prob_of; simpl; lra. Qed.

Lemma mass_add_to k v acc : mass (add_to k v acc) == mass acc + v.
Proof.
  induction acc as [|[k' v'] t IH]; unfold mass in *; simpl; [lra|].
  destruct (oeqb k' k); simpl; [lra| rewrite IH; lra].
Qed.

Theorem pushforward_mass (f : outcome -> outcome) (d : pd) : mass (pushforward f d) == mass d.
Proof.
  unfold pushforward.
  assert (H: forall acc, mass (fold_left (fun acc x => add_to (f (fst x)) (snd x) acc) d acc) == mass acc + mass d).
  { induction d as [|[k v] t IH]; intros acc; simpl; [unfold mass; simpl; lra|].
    rewrite IH, mass_add_to. unfold mass; simpl; lra. }
  rewrite H. unfold mass; simpl; lra.
Qed.

Lemma nodup_snoc (l : list outcome) k : NoDup l -> ~ In k l -> NoDup (l ++ [k]).
Proof.
  induction l as [|a l IH]; simpl; intros Hn Hk.
  - constructor; [intros []|constructor].
  - inversion Hn; subst. constructor.
    + rewrite in_app_iff; simpl. intros [?|[?|[]]]; [contradiction|subst; apply Hk; left; reflexivity].
    + apply IH; [assumption| intro; apply Hk; right; assumption].
Qed.

Lemma nodup_add_to k v acc : NoDup (map fst acc) -> NoDup (map fst (add_to k v acc)).
Proof.
  intros Hn. rewrite keys_add_to.
  destruct (existsb _ acc) eqn:E; [assumption|].
  apply nodup_snoc; [assumption|].
  intro Hin. apply in_map_iff in Hin as [[k' v'] [Hk Hin]]. simpl in Hk; subst k'.
  assert (existsb (fun x => oeqb (fst x) k) acc = true).
  { apply existsb_exists. exists (k, v'). split; [assumption|]. simpl. destruct (oeqb_spec k k); congruence. }
  congruence.
Qed.

Theorem pushforward_nodup (f : outcome -> outcome) (d : pd) : NoDup (map fst (pushforward f d)).
Proof.
  unfold pushforward.
  assert (H: forall acc, NoDup (map fst acc) -> NoDup (map fst (fold_left (fun acc x => add_to (f (fst x)) (snd x) acc) d acc))).
  { induction d as [|x t IH]; intros acc Hacc; simpl; [assumption|]. apply IH, nodup_add_to, Hacc. }
  apply H; constructor.
Qed.

(* marginalising in stages = at once *)
Definition proj (idx : list nat) (o : outcome) : outcome := map (fun i => nth i o 0%nat) idx.
Print Assumptions pushforward_prob.
Eval vm_compute in pushforward (proj [0%nat;2%nat]) [([0;0;0]%nat, 1#4); ([0;1;0]%nat, 1#4); ([1;0;1]%nat, 1#2)].
