(* Model/C05_Model.v — multivariate measures of C05 (dit/multivariate/*.py) on a distribution. *)
From Verif Require Export Measures.
Open Scope Q_scope.

Inductive c05_measure :=
| MCoinfo | MInteraction | MTotalCorr | MDualTotalCorr | MResidual | MOInfo | MTSE | MCohesion (k : nat)
| MCaekl (i : nat).          (* the i-th candidate of the CAEKL minimisation *)

Definition c05_terms (n : nat) (m : c05_measure) (gs : list (list nat)) (cr : list nat) : option (list hterm) :=
  match m with
  | MCoinfo => coinformation n gs cr
  | MInteraction => interaction_information n gs cr
  | MTotalCorr => total_correlation n gs cr
  | MDualTotalCorr => dual_total_correlation n gs cr
  | MResidual => residual_entropy n gs cr
  | MOInfo => o_information n gs cr
  | MTSE => tse_complexity n gs cr
  | MCohesion k => cohesion n k gs cr
  | MCaekl i => nth i (caekl_candidates n gs cr) None
  end.

Definition c05_model (d : dist) (byname : bool) (m : c05_measure) (gs : list (list nat)) (cr : list nat) : option rdata :=
  match resolve_groups d byname gs, resolve_vars d byname cr with
  | Some gs', Some cr' => option_map (fun t => RLin (hdata d (hmerge t))) (c05_terms (d_nvars d) m gs' cr')
  | _, _ => None
  end.

Definition caekl_count (d : dist) (byname : bool) (gs : list (list nat)) (cr : list nat) : nat :=
  match resolve_groups d byname gs, resolve_vars d byname cr with
  | Some gs', Some cr' => length (caekl_candidates (d_nvars d) gs' cr')
  | _, _ => 0%nat
  end.
