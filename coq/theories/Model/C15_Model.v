(* Model/C15_Model.v — auxiliary-variable optimisers (dit/algorithms/optimization.py: BaseOptimizer.__init__,
   BaseAuxVarOptimizer._construct_auxvars / _construct_channels / construct_joint):
   the tensor of the uniquified proxy variables, the conditional tables read off a parameter vector, and the
   joint obtained by attaching the auxiliary variables one after the other, each depending on its declared
   parents only. Tables are `pd`s whose outcomes are index vectors. *)
From Verif Require Export Measures.
Open Scope Q_scope.

(* ---- proxy variables: one per group, values numbered in the order of first appearance -------------- *)
Definition group_values (t : pd) (g : list nat) : list outcome := odedup (map (proj g) (keys t)).
Fixpoint oindex (o : outcome) (l : list outcome) : nat :=
  match l with [] => 0%nat | x :: r => if oeqb o x then 0%nat else S (oindex o r) end.
Definition base_index (t : pd) (groups : list (list nat)) (o : outcome) : outcome :=
  map (fun g => oindex (proj g o) (group_values t g)) groups.
Definition base_shape (t : pd) (groups : list (list nat)) : list nat :=
  map (fun g => length (group_values t g)) groups.
Definition dense_over (shape : list nat) (t : pd) : pd :=
  map (fun idx => (idx, Qred (get0 idx t))) (cart (map range shape)).
Definition base_tensor (t : pd) (groups : list (list nat)) : pd :=
  dense_over (base_shape t groups) (pushforward (base_index t groups) t).

(* ---- auxiliary variables ----------------------------------------------------------------------------- *)
Record auxvar := mkAux { a_bases : list nat; a_bound : nat; a_params : list Q }.

Definition flat_index (shape idx : list nat) : nat :=
  fold_left (fun acc si => (acc * fst si + snd si)%nat) (combine shape idx) 0%nat.
Definition chan_row (av : auxvar) (pshape pidx : list nat) : list Q :=
  firstn (a_bound av) (skipn (flat_index pshape pidx * a_bound av) (a_params av)).
(* a row of the parameter array normalised to a conditional distribution; an all-zero row becomes uniform *)
Definition chan_val (av : auxvar) (pshape pidx : list nat) (a : nat) : Q :=
  let row := chan_row av pshape pidx in
  let s := qsum row in
  if Qeq_bool s 0 then 1 / inject_Z (Z.of_nat (a_bound av)) else nth a row 0 / s.

Definition extend (shape : list nat) (J : pd) (av : auxvar) : pd :=
  let pshape := map (fun b => nth b shape 0%nat) (a_bases av) in
  flat_map (fun ov => map (fun a => (fst ov ++ [a], Qred (snd ov * chan_val av pshape (proj (a_bases av) (fst ov)) a)))
                          (range (a_bound av))) J.

Fixpoint attach (shape : list nat) (J : pd) (avs : list auxvar) : pd :=
  match avs with
  | [] => J
  | av :: r => attach (shape ++ [a_bound av]) (extend shape J av) r
  end.
Definition final_shape (shape : list nat) (avs : list auxvar) : list nat := shape ++ map a_bound avs.

(* the joint of an optimiser over (groups..., auxiliaries...) *)
Definition model_joint (t : pd) (groups : list (list nat)) (avs : list auxvar) : pd :=
  attach (base_shape t groups) (base_tensor t groups) avs.

(* ---- comparison with observed tensors ------------------------------------------------------------------ *)
Definition c15_tol : Q := 1 # 1000000000000.
Fixpoint qlist_close15 (t : Q) (a b : list Q) : bool :=
  match a, b with x :: a', y :: b' => qclose t x y && qlist_close15 t a' b' | [], [] => true | _, _ => false end.
Definition tensor_close (J : pd) (flat : list Q) : bool := qlist_close15 c15_tol (map snd J) flat.
Definition proper_joint (J : pd) : bool :=
  forallb (fun kv => Qle_bool 0 (snd kv)) J && qclose (1 # 1000000000) (mass J) 1.
Definition params_ok (avs : list auxvar) (shape : list nat) : bool :=
  forallb (fun av => forallb (fun q => Qle_bool 0 q) (a_params av) && negb (Nat.eqb (a_bound av) 0)) avs.

(* marginalising the auxiliaries away gives the base tensor back; restriction to a prefix of the coordinates *)
Definition drop_aux (k : nat) (J : pd) : pd := pushforward (firstn k) J.
Definition same_table (tol : Q) (a b : pd) : bool :=
  forallb (fun kv => qclose tol (snd kv) (get0 (fst kv) b)) a && forallb (fun kv => qclose tol (snd kv) (get0 (fst kv) a)) b.

(* ---- information quantities of a joint table ----------------------------------------------------------- *)
Definition pd_dist15 (t : pd) : dist := mkDist (Expl (keys t)) t false Linear None.   (* dense: no trimming of tiny probabilities *)
Definition lin_of (t : pd) (tm : option (list hterm)) : option rdata :=
  match tm with Some l => Some (RLin (hdata (pd_dist15 t) (hmerge l))) | None => None end.
Definition ent_data (t : pd) (n : nat) (X C : list nat) := lin_of t (cond_H n X C).
Definition cmi_data15 (t : pd) (n : nat) (X Y Z : list nat) := lin_of t (coinformation n [X; Y] Z).
Definition coi_data (t : pd) (n : nat) (gs : list (list nat)) (Z : list nat) := lin_of t (coinformation n gs Z).
Definition tc_data (t : pd) (n : nat) (gs : list (list nat)) (Z : list nat) := lin_of t (total_correlation n gs Z).
Definition dtc_data (t : pd) (n : nat) (gs : list (list nat)) (Z : list nat) := lin_of t (dual_total_correlation n gs Z).
Definition oadd (a b : option rdata) : option rdata :=
  match a, b with Some x, Some y => Some (RAdd x y) | _, _ => None end.
Definition oscale15 (c : Q) (a : option rdata) : option rdata := option_map (fun x => RMul (RConst c) x) a.
(* total variation between the marginals on two coordinates sharing an alphabet, exact *)
Definition tv_q (t : pd) (x y : nat) : Q :=
  let mx := pushforward (proj [x]) t in
  let my := pushforward (proj [y]) t in
  Qred (qsum (map (fun k => let v := get0 k mx - get0 k my in if Qle_bool 0 v then v else - v) (odedup (keys mx ++ keys my))) / 2).
(* expected Hamming distortion between two coordinates *)
Definition hamming_q (t : pd) (x y : nat) : Q :=
  Qred (qsum (map (fun kv => if Nat.eqb (nth x (fst kv) 0%nat) (nth y (fst kv) 0%nat) then 0 else snd kv) t)).
