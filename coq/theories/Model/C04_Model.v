(* Model/C04_Model.v — entropies of C04: dit/shannon/shannon.py, dit/multivariate/entropy.py,
   dit/other/{renyi_entropy,tsallis_entropy,extropy,perplexity}.py on linear distributions. *)
From Verif Require Export Measures.
Open Scope Q_scope.

Inductive order := OFin (a : Q) | OInf.

Inductive c04_query :=
| QEntropy (X : list nat)                              (* shannon.entropy(d, X) *)
| QCondEntropy (X Y : list nat)                        (* shannon.conditional_entropy(d, X, Y) *)
| QMutualInfo (X Y : list nat)                         (* shannon.mutual_information(d, X, Y) *)
| QMvEntropy (gs : list (list nat)) (cr : list nat)    (* multivariate.entropy(d, gs, cr) *)
| QRenyi (o : order) (X : option (list nat))           (* renyi_entropy(d, order, rvs) *)
| QTsallis (a : Q) (X : option (list nat))
| QExtropy (X : option (list nat))
| QPerplexity (X : option (list nat)) (cr : list nat).

Definition all_vars (d : dist) : list nat := range (d_nvars d).

(* marginal pmf for an optional selection; None = ditException *)
Definition sel_pmf (d : dist) (X : option (list nat)) : option (list Q) :=
  match X with
  | None => Some (map snd (d_tbl d))                   (* pmf as stored, zeros included *)
  | Some l => if valid_vars (d_nvars d) l
              then Some (map snd (d_tbl (coalesce_flat (nsort l) d))) else None
  end.

(* order 1 goes through shannon.entropy, i.e. through marginal() of all variables of the (already
   marginalised) joint distribution: null values of a sparse untrimmed table are dropped *)
Definition entropy_of_selected (d : dist) (X : option (list nat)) : list Q :=
  match X with
  | None => mpmf d (all_vars d)
  | Some l => mpmf d (nsort l)
  end.

Definition lin (d : dist) (t : option (list hterm)) : option rdata := option_map (fun x => RLin (hdata d (hmerge x))) t.

Definition c04_model (d : dist) (byname : bool) (q : c04_query) : option rdata :=
  let n := d_nvars d in
  let rv := resolve_vars d byname in
  let bind {A B} (x : option A) (f : A -> option B) := match x with Some a => f a | None => None end in
  match q with
  | QEntropy X => bind (rv X) (fun X => lin d (sh_entropy n X))
  | QCondEntropy X Y => bind (rv X) (fun X => bind (rv Y) (fun Y => lin d (sh_cond_entropy n X Y)))
  | QMutualInfo X Y => bind (rv X) (fun X => bind (rv Y) (fun Y => lin d (sh_mi n X Y)))
  | QMvEntropy gs cr => bind (resolve_groups d byname gs) (fun gs => bind (rv cr) (fun cr => lin d (mv_entropy n gs cr)))
  | QRenyi o X =>
      bind (match X with None => Some None | Some l => option_map Some (rv l) end) (fun X =>
      bind (sel_pmf d X) (fun l =>
        Some (match o with
              | OInf => RMinEnt l
              | OFin a => if Qeq_bool a 0 then RHartley l
                          else if Qeq_bool a 1 then RLin [(1, entropy_of_selected d X)]
                          else RRenyi a l
              end)))
  | QTsallis a X =>
      bind (match X with None => Some None | Some l => option_map Some (rv l) end) (fun X =>
      bind (sel_pmf d X) (fun l =>
        Some (if Qeq_bool a 1 then RNats [(1, entropy_of_selected d X)] else RTsallis a l)))
  | QExtropy X =>
      bind (match X with None => Some None | Some l => option_map Some (rv l) end) (fun X =>
      bind (sel_pmf d (match X with None => Some (all_vars d) | s => s end)) (fun l => Some (RExtropy l)))
  | QPerplexity X cr =>
      bind (match X with None => Some (all_vars d) | Some l => option_map nset (rv l) end) (fun X =>
      bind (rv cr) (fun cr =>
        option_map (fun t => RPow 2 (hdata d (hmerge t))) (sh_cond_entropy n X cr)))
  end.
