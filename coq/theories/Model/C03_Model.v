(* Model/C03_Model.v — Distribution.condition_on (dit/npdist.py) and joint_from_factors
   (dit/cdisthelpers.py). *)
From Verif Require Export Dist C01_Model C02_Model.
Open Scope Q_scope.

Definition pos_in (x : nat) (l : list nat) : nat :=
  match index_of x l 0 with Some i => i | None => 0%nat end.

(* interleave a conditioning outcome c (on positions cidx) and a kept outcome r (on positions idx)
   into an outcome over the n = |cidx| + |idx| positions — outcome_iter with the masks *)
Definition merge (n : nat) (cidx idx : list nat) (c r : outcome) : outcome :=
  map (fun k => if nat_mem k cidx then nth (pos_in k cidx) c 0%nat else nth (pos_in k idx) r 0%nat) (range n).

Definition merge_names (n : nat) (cidx idx : list nat) (cn rn : option (list nat)) : option (list nat) :=
  match cn, rn with
  | Some c, Some r => Some (merge n cidx idx c r)
  | _, _ => None
  end.

Record cond_result := mkCR {
  cr_cdist : dist;                 (* marginal over the conditioning variables *)
  cr_conds : list dist;            (* one conditional per stored outcome of cr_cdist, in order *)
  cr_n : nat;                      (* number of variables of the reduced joint *)
  cr_cidx : list nat;              (* positions of crvs / rvs inside the reduced joint *)
  cr_idx : list nat;
  cr_joint : dist                  (* the reduced (marginalised, sparse) joint the factors describe *)
}.

Definition d_make_sparse_trim (d : dist) : dist :=
  mkDist (d_ss d) (trim (d_base d) (d_tbl d)) true (d_base d) (d_names d).

Definition condition_on (cs : sel) (rs : option sel) (d : dist) : option cond_result :=
  match parse_rvs d cs true true with
  | None => None
  | Some cidx =>
    let oidx := match rs with
                | None => Some (filter (fun i => negb (nat_mem i cidx)) (range (d_nvars d)))
                | Some s => parse_rvs d s true true
                end in
    match oidx with
    | None => None
    | Some idx =>
      if existsb (fun i => nat_mem i cidx) idx then None else     (* must not intersect *)
      let union := nsort (cidx ++ idx) in
      let n' := length union in
      let reduced := Nat.ltb n' (d_nvars d) in
      let d1 := if reduced then with_names (select_names union d) (coalesce_flat union d) else d in
      let cidx' := if reduced then map (fun i => pos_in i union) cidx else cidx in
      let idx' := if reduced then map (fun i => pos_in i union) idx else idx in
      let d2 := d_make_sparse_trim d1 in
      let cdist := with_names (select_names cidx' d2) (coalesce_flat cidx' d2) in
      let rdist := with_names (select_names idx' d2) (coalesce_flat idx' d2) in
      let conds :=
        map (fun cp =>
               let c := fst cp in let pc := snd cp in
               let row := map (fun r => (r, get0 (merge n' cidx' idx' c r) (d_tbl d2) / pc)) (keys (d_tbl rdist)) in
               mkDist (d_ss rdist) (build (d_ss rdist) row (d_sparse d) (d_base d)) (d_sparse d) (d_base d)
                      (d_names rdist))
            (d_tbl cdist) in
      Some (mkCR cdist conds n' cidx' idx' d2)
    end
  end.

(* joint_from_factors(cdist, conds): outcomes in (c, stored r of cond_c) order, values p(c) p(r|c),
   then Distribution(outcomes, pmf, sparse=True, trim=False) over the default Cartesian space *)
Definition jff (cr : cond_result) : result :=
  let pairs := flat_map (fun cd => let c := fst (fst cd) in let pc := snd (fst cd) in
                            map (fun rp => (merge (cr_n cr) (cr_cidx cr) (cr_idx cr) c (fst rp), pc * snd rp))
                                (d_tbl (snd cd)))
                        (combine (d_tbl (cr_cdist cr)) (cr_conds cr)) in
  let names := match cr_conds cr with
               | [] => None
               | c0 :: _ => merge_names (cr_n cr) (cr_cidx cr) (cr_idx cr) (d_names (cr_cdist cr)) (d_names c0)
               end in
  match construct (mkSpec true (map fst pairs) (map snd pairs) SSNone BNone true true false) with
  | Ok j => Ok (with_names names j)
  | OkOrErr j e => OkOrErr (with_names names j) e
  | Err e => Err e
  end.

(* ------------------------------------------------------------------------------------------ *)

Record dobs := mkDO {               (* an observed distribution *)
  do_ss : list outcome;
  do_tbl : pd;
  do_look : list Q;
  do_names : option (list nat);
  do_base : base;
  do_sparse : bool
}.

Record c03_obs := mkObs3 {
  o3_ok : bool;                     (* false: ditException *)
  o3_cdist : dobs;
  o3_conds : list dobs;
  o3_jff_ok : bool;                 (* joint_from_factors returned *)
  o3_jff : dobs;
  o3_src_same : bool
}.

Definition ctol : Q := 1 # 1000000000.

Fixpoint qlist_close9 (a b : list Q) : bool :=
  match a, b with
  | [], [] => true
  | x :: a', y :: b' => qclose ctol x y && qlist_close9 a' b'
  | _, _ => false
  end.

Definition cmp_dist (d : dist) (o : dobs) (with_ss : bool) : nat :=
  if with_ss && negb (C01_Model.olist_eqb (ss_enum (d_ss d)) (do_ss o)) then 3%nat else
  if negb (C01_Model.olist_eqb (keys (d_tbl d)) (keys (do_tbl o))) then 4%nat else
  if negb (qlist_close9 (map snd (d_tbl d)) (map snd (do_tbl o))) then 5%nat else
  if with_ss && negb (qlist_close9 (map (fun x => get0 x (d_tbl d)) (ss_enum (d_ss d))) (do_look o)) then 6%nat else
  if negb (onames_eqb (d_names d) (do_names o)) then 7%nat else
  if negb (base_eqb (d_base d) (do_base o)) then 8%nat else
  if negb (Bool.eqb (d_sparse d) (do_sparse o)) then 9%nat else 0%nat.

Fixpoint cmp_dists (ds : list dist) (os : list dobs) : nat :=
  match ds, os with
  | [], [] => 0%nat
  | d :: ds', o :: os' => match cmp_dist d o true with 0%nat => cmp_dists ds' os' | c => (20 + c)%nat end
  | _, _ => 19%nat
  end.

Definition corr (d : dist) (cs : sel) (rs : option sel) (ob : c03_obs) : nat :=
  match condition_on cs rs d with
  | None => if o3_ok ob then 1%nat else 0%nat
  | Some cr =>
    if negb (o3_ok ob) then 2%nat else
    match cmp_dist (cr_cdist cr) (o3_cdist ob) true with
    | S c => (10 + S c)%nat
    | O =>
      match cmp_dists (cr_conds cr) (o3_conds ob) with
      | S c => S c
      | O =>
        if negb (o3_src_same ob) then 40%nat else
        match jff cr with
        | Ok j | OkOrErr j _ =>
            if negb (o3_jff_ok ob) then 41%nat else
            match cmp_dist j (o3_jff ob) true with O => 0%nat | S c => (50 + S c)%nat end
        | Err _ => if o3_jff_ok ob then 42%nat else 0%nat
        end
      end
    end
  end.

(* the property on dit's own output: chain rule, normalisation, rows = positive conditioning values
   in order, recombination equals the joint marginal *)
Definition prop (d : dist) (cs : sel) (rs : option sel) (ob : c03_obs) : nat :=
  match parse_rvs d cs true true with
  | None => if o3_ok ob then 61%nat else 0%nat
  | Some cidx =>
    let oidx := match rs with
                | None => Some (filter (fun i => negb (nat_mem i cidx)) (range (d_nvars d)))
                | Some s => parse_rvs d s true true end in
    match oidx with
    | None => if o3_ok ob then 61%nat else 0%nat
    | Some idx =>
      if existsb (fun i => nat_mem i cidx) idx then (if o3_ok ob then 61%nat else 0%nat) else
      if negb (o3_ok ob) then 62%nat else
      let union := nsort (cidx ++ idx) in
      let n' := length union in
      let cidx' := map (fun i => pos_in i union) cidx in
      let idx' := map (fun i => pos_in i union) idx in
      let joint := fun o => fibre_sum (proj union) (d_tbl d) o in
      let pc := fun c => fibre_sum (proj cidx) (d_tbl d) c in
      let cd := o3_cdist ob in
      (* the marginal over the conditioning variables *)
      if negb (forallb (fun kv => qclose ctol (snd kv) (pc (fst kv))) (combine (do_ss cd) (do_look cd))) then 63%nat else
      (* one conditional per positive-probability conditioning value, in sample-space order *)
      let positive := filter (fun c => negb (Qle_bool (pc c) null_tol)) (do_ss cd) in
      if negb (C01_Model.olist_eqb (keys (do_tbl cd)) positive) then 64%nat else
      if negb (Nat.eqb (length (o3_conds ob)) (length positive)) then 65%nat else
      (* chain rule and normalisation for every conditional and every outcome of its sample space *)
      if negb (forallb (fun cc =>
                 let c := fst cc in let co := snd cc in
                 forallb (fun rv => qclose ctol (pc c * snd rv) (joint (merge n' cidx' idx' c (fst rv))))
                         (combine (do_ss co) (do_look co))
                 && qclose ctol (qsum (do_look co)) 1
                 && Nat.eqb (length (do_ss co)) (length (do_look co)))
               (combine positive (o3_conds ob))) then 66%nat else
      (* names of the kept variables, base and sparsity of the conditionals *)
      if negb (forallb (fun co => onames_eqb (do_names co) (select_names idx d)
                                  && base_eqb (do_base co) (d_base d)
                                  && Bool.eqb (do_sparse co) (d_sparse d)) (o3_conds ob)) then 67%nat else
      if negb (onames_eqb (do_names cd) (select_names cidx d)) then 68%nat else
      if negb (o3_src_same ob) then 69%nat else
      (* recombination *)
      if negb (o3_jff_ok ob) then 70%nat else
      let j := o3_jff ob in
      if negb (forallb (fun kv => qclose ctol (snd kv) (joint (fst kv))) (combine (do_ss j) (do_look j))) then 71%nat else
      if negb (qclose ((1#100000000) * inject_Z (Z.of_nat (S (length (d_tbl d))))) (qsum (do_look j)) (mass (d_tbl d))) then 72%nat else
      if negb (onames_eqb (do_names j) (select_names union d)) then 73%nat else 0%nat
    end
  end.

Definition verdict (c : dist * sel * option sel * c03_obs) : nat * nat :=
  let '(d, cs, rs, ob) := c in (corr d cs rs ob, prop d cs rs ob).
