(* Model/C13_Model.v — Blahut-Arimoto results as certified optima (dit/algorithms/channelcapacity.py,
   dit/rate_distortion/blahut_arimoto.py).  The iterations themselves run in floating point with real
   exponents; what is modelled is what the property states about their results: the information quantities
   of the returned objects and the optimality certificates (KKT / dual bounds) they must satisfy. *)
From Verif Require Export Measures.
Open Scope Q_scope.

Definition chan := list (list Q).               (* rows: input letters; columns: output letters *)

Definition vscale (c : Q) (v : list Q) : list Q := map (Qmult c) v.
Fixpoint vadd (a b : list Q) : list Q :=
  match a, b with x :: a', y :: b' => (x + y) :: vadd a' b' | _, _ => [] end.
Definition zeros (m : nat) : list Q := repeat 0 m.

(* output distribution of the input r through P *)
Definition out_dist (m : nat) (P : chan) (r : list Q) : list Q :=
  map Qred (fold_right (fun xr acc => vadd (vscale (snd xr) (fst xr)) acc) (zeros m) (combine P r)).

Definition nonneg_l (l : list Q) : bool := forallb (fun q => Qle_bool 0 q) l.
Fixpoint dom_b (ps qs : list Q) : bool :=
  match ps, qs with
  | p :: ps', q :: qs' => (Qle_bool p 0 || negb (Qle_bool q 0)) && dom_b ps' qs'
  | [], [] => true
  | _, _ => false
  end.

Definition c13_tol : Q := 1 # 1000000000.
Definition sums_to (target : Q) (l : list Q) : bool := qclose c13_tol (qsum l) target.

(* a (float) row-stochastic matrix with m columns, and an input pmf for it *)
Definition chan_ok (m : nat) (P : chan) : bool :=
  forallb (fun row => Nat.eqb (length row) m && nonneg_l row && sums_to 1 row) P.
Definition input_ok (P : chan) (r : list Q) : bool :=
  Nat.eqb (length r) (length P) && nonneg_l r && sums_to 1 r.

(* I(r, P) = sum_x r_x D(P_x || rP) and the per-letter divergences, as reflected reals (bits) *)
Fixpoint r_sum (l : list rdata) : rdata := match l with [] => RConst 0 | [x] => x | x :: t => RAdd x (r_sum t) end.
Definition mi_chan_data (m : nat) (P : chan) (r : list Q) : rdata :=
  let q := out_dist m P r in
  r_sum (map (fun xr => RMul (RConst (snd xr)) (RKL (fst xr) q)) (combine P r)).
Definition letter_div_data (row q : list Q) : rdata := RKL row q.
Definition all_dominated (P : chan) (q : list Q) : bool := forallb (fun row => dom_b row q) P.

(* the channel P(Y|X) read off a joint table: rows in the sorted order of the X-outcomes of positive
   probability (the order of dit's marginal), columns in the sorted order of the Y-outcomes *)
Definition chan_of_joint (t : pd) (X Y : list nat) : chan :=
  let mx := filter (fun kv => negb (Qle_bool (snd kv) 0)) (pushforward (proj X) t) in
  let xs := osort (keys mx) in
  let ys := osort (keys (pushforward (proj Y) t)) in
  map (fun x => let px := get0 x mx in
                map (fun y => Qred (fibre_sum (fun o => proj X o ++ proj Y o) t (x ++ y) / px)) ys) xs.

(* ---- rate-distortion ------------------------------------------------------------------------------ *)
Definition matrix := list (list Q).
Definition rowsums (M : matrix) : list Q := map (fun r => Qred (qsum r)) M.
Definition colsums (m : nat) (M : matrix) : list Q := map Qred (fold_right vadd (zeros m) M).
(* I(X;Y) of a joint matrix: H(X) + H(Y) - H(XY) *)
Definition mi_joint_data (m : nat) (M : matrix) : rdata :=
  RLin [(1, rowsums M); (1, colsums m M); (-(1), concat M)].
(* H(X|Y) + H(Y|X) = 2 H(XY) - H(X) - H(Y): the expected residual-entropy distortion of a joint *)
Definition resid_joint_data (m : nat) (M : matrix) : rdata :=
  RLin [(2, concat M); (-(1), rowsums M); (-(1), colsums m M)].
Fixpoint qlist_close (t : Q) (a b : list Q) : bool :=
  match a, b with x :: a', y :: b' => qclose t x y && qlist_close t a' b' | [], [] => true | _, _ => false end.
Definition joint_ok (n m : nat) (p : list Q) (M : matrix) : bool :=
  Nat.eqb (length M) n && forallb (fun r => Nat.eqb (length r) m && nonneg_l r) M && qlist_close c13_tol (rowsums M) p.
(* expected distortion under a fixed matrix *)
Fixpoint dot (a b : list Q) : Q := match a, b with x :: a', y :: b' => x * y + dot a' b' | _, _ => 0 end.
Definition exp_dist (M d : matrix) : Q := Qred (qsum (map (fun rd => dot (fst rd) (snd rd)) (combine M d))).
Definition hamming (n : nat) : matrix :=
  map (fun i => map (fun j => if Nat.eqb i j then 0 else 1) (range n)) (range n).

(* Berger's dual bound.  For lambda > 0 with  sum_x p_x lambda_x 2^(-beta d(x,y)) <= 1  for every y,
   every test channel has  R + beta D >= sum_x p_x log2 lambda_x  (C13_Proofs.rd_dual_bound). *)
Definition dual_feas_data (p lam : list Q) (beta : Q) (dcol : list Q) : rdata :=
  r_sum (map (fun pld => RMul (RConst (Qred (fst (fst pld) * snd (fst pld)))) (RExpB BT2 (Qred (- beta * snd pld))))
             (combine (combine p lam) dcol)).
Definition dual_value_data (p lam : list Q) : rdata :=
  r_sum (map (fun pl => RMul (RConst (fst pl)) (RLog2 (RConst (snd pl)))) (combine p lam)).
Definition column (j : nat) (M : matrix) : list Q := map (fun r => nth j r 0) M.
Definition all_pos (l : list Q) : bool := forallb (fun q => negb (Qle_bool q 0)) l.

(* binary entropy closed forms *)
Definition h2_data (e : Q) : rdata := RLin [(1, [e; 1 - e])].

(* monotonicity along beta: (beta, rate, distortion) triples, beta increasing *)
Fixpoint monotone_rd (tol : Q) (l : list (Q * Q * Q)) : bool :=
  match l with
  | a :: (b :: _) as t =>
      Qle_bool (snd (fst a)) (snd (fst b) + tol) && Qle_bool (snd b) (snd a + tol) && monotone_rd tol t
  | _ => true
  end.

(* ---- information bottleneck: a joint over (x, y, t) as a table ------------------------------------- *)
Definition tensor_pd (T : list (list (list Q))) : pd :=
  concat (map (fun ix => concat (map (fun jy => map (fun kt => ([fst ix; fst jy; fst kt], snd kt))
                                                    (combine (range (length (snd jy))) (snd jy)))
                                     (combine (range (length (snd ix))) (snd ix))))
              (combine (range (length T)) T)).
Definition pd_dist (t : pd) : dist := mkDist (Expl (keys t)) t false Linear None.   (* dense: no trimming of tiny probabilities *)
Definition cmi_data (t : pd) (n : nat) (X Y Z : list nat) : option rdata :=
  match coinformation n [X; Y] Z with
  | Some tm => Some (RLin (hdata (pd_dist t) (hmerge tm)))
  | None => None end.
Definition xy_marginal_ok (T : list (list (list Q))) (pxy : matrix) : bool :=
  Nat.eqb (length T) (length pxy) &&
  forallb (fun tp => qlist_close c13_tol (map (fun ts => Qred (qsum ts)) (fst tp)) (snd tp) &&
                     forallb nonneg_l (fst tp)) (combine T pxy).

(* ---- real-level specification of "any other test channel" (used by the dual-bound theorem) ---------- *)
Open Scope R_scope.
Definition rsumf (n : nat) (f : nat -> R) : R := rsum (map f (range n)).
Definition pq (p : list Q) (x : nat) : R := Q2R (nth x p 0%Q).
(* output marginal, rate (bits) and expected distortion of a real-valued test channel W(y|x) for the source p *)
Definition w_out (p : list Q) (W : nat -> nat -> R) (y : nat) : R := rsumf (length p) (fun x => pq p x * W x y).
Definition rterm (a b : R) : R := a * (ln a - ln b) / ln 2.        (* a log2 (a/b), 0 log 0 = 0 *)
Definition w_rate (p : list Q) (m : nat) (W : nat -> nat -> R) : R :=
  rsumf (length p) (fun x => pq p x * rsumf m (fun y => rterm (W x y) (w_out p W y))).
Definition w_dist (p : list Q) (m : nat) (d : matrix) (W : nat -> nat -> R) : R :=
  rsumf (length p) (fun x => pq p x * rsumf m (fun y => W x y * Q2R (nth y (nth x d []) 0%Q))).
Close Scope R_scope.
