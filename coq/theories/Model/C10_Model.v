(* Model/C10_Model.v — purity of queries and measures.
   Effect skeletons: the in-place operations a public entry point performs, written over the C09 store
   machine.  An entry point is modelled by the list of C09 operations it applies; it is *well scoped*
   when every mutating operation targets an object the skeleton itself allocated (by Copy) — the
   arguments (the objects present at entry) are only ever read or copied.
   Proofs/C10 shows that a well-scoped skeleton leaves every argument object unchanged and that its
   result does not depend on what else is in the store.  That dit follows these skeletons is what the
   correspondence run samples: snapshots of all arguments and of ditParams before/after ~90 callables. *)
From Verif Require Export C09_Model.
Open Scope Q_scope.

Definition is_mutating (o : op) : option nat :=
  match o with
  | SetItem l _ _ | DelItem l _ | MakeDense l | MakeSparse l _ | Normalize l | SetBase l _ | Rand l _ => Some l
  | Copy _ _ => None
  end.

(* all mutating targets are >= n0 (the number of objects at entry); copies may read anything that exists *)
Fixpoint well_scoped (n0 : nat) (len : nat) (ops : list op) : bool :=
  match ops with
  | [] => true
  | o :: r =>
    match o with
    | Copy l _ => Nat.ltb l len && well_scoped n0 (S len) r
    | _ => match is_mutating o with
           | Some l => Nat.leb n0 l && Nat.ltb l len && well_scoped n0 len r
           | None => well_scoped n0 len r
           end
    end
  end.

Fixpoint run10 (s : state) (ops : list op) : state :=
  match ops with [] => s | o :: r => run10 (fst (step s o)) r end.

(* skeletons of the entry points whose implementation mutates a private copy (transcribed from the code) *)
Definition sk_condition_on : list op := [Copy 0 None; MakeSparse 1 true].                 (* npdist.condition_on: d = self.copy(); d.make_sparse() *)
Definition sk_maximum_correlation : list op := [Copy 0 None; MakeDense 1].                (* dist.copy().coalesce(...); make_dense *)
Definition sk_base_optimizer : list op := [Copy 0 (Some Linear); MakeDense 1].            (* BaseOptimizer.__init__: dist.copy(base='linear'); make_dense *)
Definition sk_prepare_dist : list op := [Copy 0 None; MakeDense 1; SetBase 1 Linear].     (* optutil.prepare_dist after the repair: copy first *)
Definition sk_mss_common_information : list op := [Copy 0 None; MakeSparse 1 true].       (* deepcopy; make_sparse *)
Definition sk_profile : list op := [Copy 0 (Some Linear); MakeDense 1].                   (* BaseProfile: private distribution *)
Definition sk_measure : list op := [].                                                    (* closed-form measures: no store operation at all *)

Definition all_skeletons : list (list op) :=
  [sk_condition_on; sk_maximum_correlation; sk_base_optimizer; sk_prepare_dist; sk_mss_common_information; sk_profile; sk_measure].

(* what the driver observed for one call *)
Definition c10_verdict (c : bool * bool * bool * bool) : nat * nat :=
  let '(args_same, params_same, repeat_same, interleaved_same) := c in
  let code := if negb args_same then 1%nat else if negb params_same then 2%nat
              else if negb repeat_same then 3%nat else if negb interleaved_same then 4%nat else 0%nat in
  (code, code).
