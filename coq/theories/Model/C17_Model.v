(* Model/C17_Model.v — partial information decompositions (dit/pid/pid.py, dit/pid/measures):
   the redundancy lattice of antichains of source sets, Moebius inversion, the consistency /
   completeness / non-negativity flags, and the closed forms of I_min, I_mmi and I_wedge. *)
From Verif Require Export Measures C16_Model.
Open Scope Q_scope.

Definition node := list (list nat).          (* an antichain of non-empty sets of source positions *)
Definition qabs (q : Q) : Q := if Qle_bool 0 q then q else - q.

Definition ssubset (a b : list nat) : bool := forallb (fun x => nat_mem x b) a.
Definition seq_set (a b : list nat) : bool := ssubset a b && ssubset b a.
Definition is_antichain (n : node) : bool :=
  forallb (fun a => forallb (fun b => seq_set a b || negb (ssubset a b)) n) n.
Fixpoint set_mem (a : list nat) (l : node) : bool := match l with [] => false | x :: r => seq_set a x || set_mem a r end.
Fixpoint node_nodup (n : node) : bool := match n with [] => true | a :: r => negb (set_mem a r) && node_nodup r end.

Definition nonempty_subsets (k : nat) : list (list nat) :=
  filter (fun s => negb (Nat.eqb (length s) 0)) (sublists (range k)).
Definition antichains (k : nat) : list node :=
  filter (fun n => negb (Nat.eqb (length n) 0) && is_antichain n) (sublists (nonempty_subsets k)).

(* alpha <= beta iff every B in beta contains some A in alpha *)
Definition nle (a b : node) : bool := forallb (fun B => existsb (fun A => ssubset A B) a) b.
Definition node_eqb (a b : node) : bool := forallb (fun x => set_mem x b) a && forallb (fun x => set_mem x a) b.

(* observation: (node, redundancy, partial information); None = nan *)
Definition pobs := list (node * option Q * option Q).
Definition p_node (x : node * option Q * option Q) : node := fst (fst x).
Definition p_red (x : node * option Q * option Q) : option Q := snd (fst x).
Definition p_pi (x : node * option Q * option Q) : option Q := snd x.

Definition lattice_ok (k : nat) (o : pobs) : bool :=
  let ac := antichains k in
  Nat.eqb (length o) (length ac) &&
  forallb (fun n => existsb (fun x => node_eqb (p_node x) n) o) ac &&
  forallb (fun x => is_antichain (p_node x) && node_nodup (p_node x)) o.

Definition sum_below (o : pobs) (n : node) : option Q :=
  fold_right (fun x acc => if nle (p_node x) n
                           then match p_pi x, acc with Some v, Some s => Some (s + v) | _, _ => None end
                           else acc) (Some 0) o.

Definition isclose5 (a b : Q) : bool := qclose ((1#100000) + (1#100000) * qabs b) a b.

(* Moebius identity at every node whose values are all defined *)
Definition mobius_ok (tolscale : Q) (o : pobs) : bool :=
  forallb (fun x => match p_red x, sum_below o (p_node x) with
                    | Some r, Some s => qclose (tolscale * ((1#100000) + (1#100000) * qabs s)) r s
                    | _, _ => true end) o.

Definition is_single (n : node) : bool := Nat.eqb (length n) 1.
Definition top_node (k : nat) : node := [range k].

(* self-redundancy: the redundancy of a single source set equals its mutual information with the target
   (the caller supplies, for every single-set node, dit's own I(set:target), itself tied to the model by a goal) *)
Definition self_redundancy_ok (tolscale : Q) (o : pobs) (mis : list (node * Q)) : bool :=
  forallb (fun nm => match find (fun x => node_eqb (p_node x) (fst nm)) o with
                     | Some x => match p_red x with
                                 | Some r => qclose (tolscale * ((1#100000) + (1#100000) * qabs (snd nm))) r (snd nm)
                                 | None => true end
                     | None => false end) mis.

Definition complete_model (o : pobs) : bool := forallb (fun x => match p_pi x with Some _ => true | None => false end) o.
Inductive tri17 := TYes | TNo | TEither.
Definition nonneg_model (o : pobs) : tri17 :=
  if forallb (fun x => match p_pi x with Some v => Qle_bool (- (4#100000)) v | None => true end) o then TYes
  else if existsb (fun x => match p_pi x with Some v => negb (Qle_bool (- (6#100000)) v) | None => false end) o then TNo
  else TEither.
Definition consistent_model (o : pobs) (mis : list (node * Q)) : tri17 :=
  if mobius_ok (1#2) o && self_redundancy_ok (1#2) o mis then TYes
  else if mobius_ok 2 o && self_redundancy_ok 2 o mis then TEither else TNo.
Definition tri_matches (t : tri17) (b : bool) : bool :=
  match t with TYes => b | TNo => negb b | TEither => true end.

(* flags are truthful; and when complete and consistent the atoms sum to I(all:target), which is the top redundancy *)
Definition flags_ok (always_defined : bool) (o : pobs) (mis : list (node * Q)) (total : Q)
                    (f_complete f_consistent f_nonneg : bool) : bool :=
  Bool.eqb (complete_model o) f_complete &&
  tri_matches (consistent_model o mis) f_consistent &&
  tri_matches (nonneg_model o) f_nonneg &&
  (if always_defined then f_complete && f_consistent else true) &&
  (if f_complete && f_consistent
   then match fold_right (fun x acc => match p_pi x, acc with Some v, Some s => Some (s + v) | _, _ => None end) (Some 0) o with
        | Some s => qclose ((4#100000) * (1 + qabs total)) s total
        | None => false end
   else true).

Definition top_ok (k : nat) (o : pobs) (total : Q) : bool :=
  match find (fun x => node_eqb (p_node x) (top_node k)) o with
  | Some x => match p_red x with Some r => qclose ((2#100000) * (1 + qabs total)) r total | None => true end
  | None => false end.

(* permuting the sources permutes the lattice values *)
Definition perm_node (perm : list nat) (n : node) : node := map (fun A => map (fun i => nth i perm 0%nat) A) n.
Definition perm_ok (perm : list nat) (o o' : pobs) : bool :=
  forallb (fun x => match find (fun y => node_eqb (p_node y) (perm_node perm (p_node x))) o' with
                    | Some y => match p_red x, p_red y with
                                | Some a, Some b => qclose (2#100000) a b | None, None => true | _, _ => false end
                    | None => false end) o.

(* ---- closed forms ------------------------------------------------------------------------------ *)
(* variables of a set of source positions, given the source variable lists *)
Definition vars_of (sources : list (list nat)) (A : list nat) : list nat := nset (concat (map (fun i => nth i sources []) A)).

(* I(A : T) as a formal combination *)
Definition mi_terms (n : nat) (X T : list nat) : list hterm :=
  match sh_mi n X T with Some t => hmerge t | None => [] end.
Definition mi_data (d : dist) (X T : list nat) : rdata := RLin (hdata d (mi_terms (d_nvars d) X T)).

(* specific information of the target value t about the variables X:
   sum_a p(a|t) log2 (p(t|a) / p(t)) = sum_a (p(a,t)/p(t)) log2 (p(a,t) / (p(a) p(t))) *)
Fixpoint r_sum17 (l : list rdata) : rdata := match l with [] => RConst 0 | [x] => x | x :: r => RAdd x (r_sum17 r) end.
Definition spec_info (t : pd) (X T : list nat) (tv : outcome) : rdata :=
  let pt := fibre_sum (proj T) t tv in
  let rows := pushforward (proj X) (filter (fun kv => oeqb (proj T (fst kv)) tv && negb (Qle_bool (snd kv) 0)) t) in
  r_sum17 (map (fun av => let pa := fibre_sum (proj X) t (fst av) in
                          RMul (RConst (Qred (snd av / pt))) (RLog2 (RConst (Qred (snd av / (pa * pt)))))) rows).
(* I_min with the minimiser chosen per target value (hint): sum_t p(t) s(A_t, t) *)
Definition imin_with (t : pd) (sources : list (list nat)) (T : list nat) (choice : list (outcome * list nat)) : rdata :=
  r_sum17 (map (fun tc => RMul (RConst (Qred (fibre_sum (proj T) t (fst tc)))) (spec_info t (vars_of sources (snd tc)) T (fst tc))) choice).
Definition spec_gap (t : pd) (sources : list (list nat)) (T : list nat) (tv : outcome) (A Amin : list nat) : rdata :=
  RAdd (spec_info t (vars_of sources A) T tv) (RNeg (spec_info t (vars_of sources Amin) T tv)).

(* I_wedge: mutual information between the Gacs-Korner meet of the node's source sets and the target, on the support *)
Definition iwedge_data (t : pd) (sources : list (list nat)) (T : list nat) (nd : node) : rdata :=
  let s := support t in
  let os := keys s in
  let W := canon_blocks (meet_blocks os (map (vars_of sources) nd)) in
  let Tp := canon_blocks (induced os T) in
  RLin [(1, atoms_dist W s); (1, atoms_dist Tp s); (-(1), atoms_dist (refine os [W; Tp]) s)].

(* ---- Moebius inversion as BasePID.get_pi computes it ------------------------------------------------
   get_pi(n) = get_red(n) - sum of get_pi(m) over the strict descendants m of n.  Over a list of nodes in
   which no node is below an earlier one (a linear extension of the lattice order, bottom first) this is
   the left fold below. *)
Definition below_sum (acc : list (node * Q)) (n : node) : Q :=
  qsum (map snd (filter (fun mv => nle (fst mv) n) acc)).
Definition pis_step (red : node -> Q) (acc : list (node * Q)) (n : node) : list (node * Q) :=
  acc ++ [(n, red n - below_sum acc n)].
Definition pis_list (red : node -> Q) (nodes : list node) : list (node * Q) := fold_left (pis_step red) nodes [].

Fixpoint linext (nodes : list node) : bool :=
  match nodes with
  | [] => true
  | n :: r => nle n n && forallb (fun m => negb (nle m n)) r && linext r
  end.

(* the antichains ordered by the size of their down-set: a linear extension *)
Definition down_size (ac : list node) (n : node) : nat := length (filter (fun m => nle m n) ac).
Fixpoint insert_by (f : node -> nat) (n : node) (l : list node) : list node :=
  match l with [] => [n] | x :: r => if Nat.leb (f n) (f x) then n :: l else x :: insert_by f n r end.
Definition sorted_nodes (k : nat) : list node :=
  let ac := antichains k in fold_right (insert_by (down_size ac)) [] ac.

Definition red_of (o : pobs) (n : node) : Q :=
  match find (fun x => node_eqb (p_node x) n) o with
  | Some x => match p_red x with Some r => r | None => 0 end
  | None => 0 end.
Definition all_red_defined (o : pobs) : bool := forallb (fun x => match p_red x with Some _ => true | None => false end) o.

(* dit's atoms against the model's Moebius inversion of dit's own redundancies *)
(* s scales the tolerance: decompositions whose atoms come out of a numerical optimisation (the incomplete ones) carry
   its noise, of the order of dit's own consistency tolerance *)
Definition pi_corr_s (s : Q) (k : nat) (o : pobs) : bool :=
  if all_red_defined o then
    let m := pis_list (red_of o) (sorted_nodes k) in
    forallb (fun x => match p_pi x, find (fun mv => node_eqb (fst mv) (p_node x)) m with
                      | Some v, Some mv => qclose (s * (1#100000) * (1 + qabs (snd mv))) v (snd mv)
                      | None, _ => false
                      | _, None => false end) o
  else true.
Definition pi_corr (k : nat) (o : pobs) : bool := pi_corr_s 1 k o.

(* redundancy functions given by a value per source set *)
Fixpoint qmin_list (l : list Q) : Q :=
  match l with [] => 0 | [x] => x | x :: r => let m := qmin_list r in if Qle_bool x m then x else m end.
Definition mmi_red (mi : list nat -> Q) (n : node) : Q := qmin_list (map mi n).
