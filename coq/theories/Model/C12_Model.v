(* Model/C12_Model.v — inverse-CDF sampling (dit/math/sampling.py: sample, _samples_discrete__python).
   The cumulative scan is written once over an abstract ordered additive structure and instantiated
   at Q (theorems, Proofs/C12) and at binary64 floats (bit-exact executable mirror of the sequential
   `total += pmf[j]; if rand < total` loop, used by the correspondence run). *)
From Verif Require Export Prelude.
From Coq Require Import PrimFloat.
Open Scope Q_scope.

Section Scan.
  Context {T : Type} (add : T -> T -> T) (ltb : T -> T -> bool) (zero : T).

  Fixpoint scan_from (ps : list T) (u total : T) (i : nat) : option nat :=
    match ps with
    | [] => None
    | p :: t => let total' := add total p in
                if ltb u total' then Some i else scan_from t u total' (S i)
    end.

  Definition scan (ps : list T) (u : T) : option nat := scan_from ps u zero 0.

  (* index of the last event with positive probability, the last event if there is none *)
  Fixpoint last_pos_from (ps : list T) (i : nat) (best : option nat) : option nat :=
    match ps with
    | [] => best
    | p :: t => last_pos_from t (S i) (if ltb zero p then Some i else best)
    end.

  Definition last_positive (ps : list T) : nat :=
    match last_pos_from ps 0 None with Some i => i | None => Nat.pred (length ps) end.

  (* _samples_discrete__python for one random number, with the fall-back of the repaired code *)
  Definition sample1 (ps : list T) (u : T) : nat :=
    match scan ps u with Some i => i | None => last_positive ps end.
End Scan.

Definition qscan := @scan Q Qplus (fun a b => negb (Qle_bool b a)) 0.
Definition qsample1 := @sample1 Q Qplus (fun a b => negb (Qle_bool b a)) 0.
Definition qlast_positive := @last_positive Q (fun a b => negb (Qle_bool b a)) 0.
Definition fscan := @scan float PrimFloat.add PrimFloat.ltb PrimFloat.zero.
Definition fsample1 := @sample1 float PrimFloat.add PrimFloat.ltb PrimFloat.zero.

(* sampling with a generator: the generator is the stream of its future uniforms *)
Definition rand_gen {T} (sample : list T -> T -> nat) (ps : list T) (stream : list T) (n : nat)
  : list nat * list T := (map (sample ps) (firstn n stream), skipn n stream).

(* exact cumulative sums *)
Fixpoint cum (ps : list Q) (i : nat) : Q :=
  match i, ps with
  | O, _ => 0
  | S j, p :: t => p + cum t j
  | S _, [] => 0
  end.

(* ------------------------------------------------------------------------------------------ *)
(* cases: stored pmf as floats (already exponentiated by the driver exactly as dit does for log
   distributions), the random numbers, the indices dit returned; the same data as exact rationals *)

Record c12_case := mkC12 {
  c_pmf : list float;
  c_us : list float;
  c_idx : list nat;              (* positions, in d.outcomes, of the outcomes dit returned *)
  c_qpmf : list Q;
  c_qus : list Q;
  c_exact : bool;                (* all data dyadic with few bits: float sums are exact *)
  c_aux_ok : bool                (* repeatability / copy / size=None consistency checks of the driver *)
}.

Fixpoint nlist_eqb (a b : list nat) : bool :=
  match a, b with
  | [], [] => true
  | x :: a', y :: b' => Nat.eqb x y && nlist_eqb a' b'
  | _, _ => false
  end.

Definition corr (c : c12_case) : nat :=
  if negb (nlist_eqb (map (fsample1 (c_pmf c)) (c_us c)) (c_idx c)) then 1%nat else
  if negb (c_aux_ok c) then 2%nat else 0%nat.

(* property predicate: the returned outcome's exact cumulative interval, widened by eps (0 on exact
   data), contains u, and its probability is positive *)
Definition eps_of (c : c12_case) : Q := if c_exact c then 0 else 1 # 1000000000000.

Definition idx_ok (ps : list Q) (eps u : Q) (i : nat) : bool :=
  Nat.ltb i (length ps) &&
  negb (Qle_bool (nth i ps 0) 0) &&
  Qle_bool (cum ps i - eps) u &&
  (negb (Qle_bool (cum ps (S i) + eps) u)
   (* the largest floats below 1 may exceed the float sum of the pmf: then the last positive outcome *)
   || (Qle_bool (cum ps (length ps) - (1 # 1000000000)) u && Nat.eqb i (qlast_positive ps))).

Fixpoint all_idx_ok (ps : list Q) (eps : Q) (us : list Q) (is : list nat) : bool :=
  match us, is with
  | [], [] => true
  | u :: us', i :: is' => idx_ok ps eps u i && all_idx_ok ps eps us' is'
  | _, _ => false
  end.

Definition prop (c : c12_case) : nat :=
  if negb (all_idx_ok (c_qpmf c) (eps_of c) (c_qus c) (c_idx c)) then 20%nat else
  if negb (c_aux_ok c) then 21%nat else 0%nat.

Definition verdict (c : c12_case) : nat * nat := (corr c, prop c).
