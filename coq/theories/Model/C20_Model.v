(* Model/C20_Model.v — simplex utilities (dit/math/aitchison.py, dit/math/pmfops.py,
   dit/math/combinatorics.py slots, dit/distconst.py simplex_grid). *)
From Verif Require Export Info.
From Verif Require Export Prelude.
Open Scope Q_scope.

(* ---- Aitchison transforms on positive rational compositions, component by component ----------- *)
Fixpoint r_sum20 (l : list rdata) : rdata := match l with [] => RConst 0 | [x] => x | x :: t => RAdd x (r_sum20 t) end.
Definition lg (q : Q) : rdata := RLog2 (RConst q).
Definition rscale (c : Q) (r : rdata) : rdata := RMul (RConst c) r.
Definition rsub (a b : rdata) : rdata := RAdd a (RNeg b).

Definition clr_i (x : list Q) (i : nat) : rdata :=
  rsub (lg (nth i x 1)) (rscale (1 / inject_Z (Z.of_nat (length x))) (r_sum20 (map lg x))).
Definition alr_i (x : list Q) (i : nat) : rdata := rsub (lg (nth i x 1)) (lg (last x 1)).
(* ilr_k, k = 1..n-1 (index k-1 in dit's output) *)
Definition ilr_k (x : list Q) (k : nat) : rdata :=
  RMul (RSqrt (RConst (inject_Z (Z.of_nat k) / inject_Z (Z.of_nat (S k)))))
       (rsub (rscale (1 / inject_Z (Z.of_nat k)) (r_sum20 (map lg (firstn k x)))) (lg (nth k x 1))).
Definition adist (x y : list Q) : rdata :=
  RSqrt (r_sum20 (map (fun i => let d := rsub (clr_i x i) (clr_i y i) in RMul d d) (seq 0 (length x)))).

(* ---- exact checks on rational vectors ------------------------------------------------------------ *)
Definition tol20 : Q := 1 # 1000000000.
Definition qsum20 := qsum.
Definition normalised (v : list Q) : bool := qclose tol20 (qsum v) 1.
Definition nonneg (v : list Q) : bool := forallb (fun q => Qle_bool (- (1 # 1000000000000)) q) v.
Definition rel_close (a b : Q) : bool := qclose (tol20 * (if Qle_bool 0 b then b else - b)) a b.
Fixpoint vec_rel_close (a b : list Q) : bool :=
  match a, b with [], [] => true | x :: a', y :: b' => rel_close x y && vec_rel_close a' b' | _, _ => false end.
Fixpoint vec_close (a b : list Q) : bool :=
  match a, b with [], [] => true | x :: a', y :: b' => qclose tol20 x y && vec_close a' b' | _, _ => false end.

Definition closure (x : list Q) : list Q := let s := qsum x in map (fun q => q / s) x.
(* round trips: clr_inv(clr x), alr_inv(alr x), ilr_inv(ilr x) must reproduce closure x, entry by entry, relatively *)
Definition roundtrip_ok (x out : list Q) : bool := vec_rel_close out (closure x).

(* isometry: |ilr x - ilr y|_2 ^2 vs dist^2, both from dit's outputs *)
Definition sqdist (a b : list Q) : Q := qsum (map (fun ab => (fst ab - snd ab) * (fst ab - snd ab)) (combine a b)).
Definition isometry_ok (ix iy : list Q) (d : Q) : bool :=
  qclose ((1 # 100000000) * (1 + d * d)) (sqdist ix iy) (d * d).

(* perturbation, power, closure results: normalised and non-negative, and perturbation is the closure of the product *)
Definition perturbation_ok (x dx out : list Q) : bool :=
  normalised out && nonneg out && vec_rel_close out (closure (map (fun ab => fst ab * snd ab) (combine x dx))).
Definition simplex_ok (out : list Q) : bool := normalised out && nonneg out.

(* pmfops *)
Definition same_support (x out : list Q) : bool :=
  Nat.eqb (length x) (length out) &&
  forallb (fun ab => Bool.eqb (Qeq_bool (fst ab) 0) (Qeq_bool (snd ab) 0)) (combine x out).
Definition perturb_support_ok (x out : list Q) : bool := simplex_ok out && same_support x out.

Definition replace_zeros_det (x : list Q) (delta : Q) : list Q :=
  let k := inject_Z (Z.of_nat (length (filter (fun q => Qeq_bool q 0) x))) in
  map (fun q => if Qeq_bool q 0 then delta else q * (1 - k * delta)) x.
Definition replace_zeros_rand_ok (x : list Q) (delta : Q) (out : list Q) : bool :=
  Nat.eqb (length x) (length out) && normalised out &&
  forallb (fun ab => if Qeq_bool (fst ab) 0 then Qle_bool 0 (snd ab) && Qle_bool (snd ab) delta
                     else negb (Qle_bool (snd ab) 0)) (combine x out).
Definition all_positive (out : list Q) : bool := forallb (fun q => negb (Qle_bool q 0)) out.

Definition convex_combination (ps : list (list Q)) (ws : list Q) : list Q :=
  let s := qsum ws in
  match ps with
  | [] => []
  | p0 :: _ => map (fun j => qsum (map (fun pw => nth j (fst pw) 0 * (snd pw / s)) (combine ps ws))) (seq 0 (length p0))
  end.

(* downsample: on the grid {0, 1/s, ..., 1}, normalised, non-negative, same length *)
Definition on_grid (s : nat) (q : Q) : bool :=
  let v := q * inject_Z (Z.of_nat s) in
  let r := (Qnum (v + (1#2)) / Zpos (Qden (v + (1#2))))%Z in       (* nearest integer *)
  qclose (1 # 100000000) v (inject_Z r).
Definition downsample_ok (s : nat) (x out : list Q) : bool :=
  Nat.eqb (length x) (length out) && simplex_ok out && forallb (on_grid s) out.

(* ---- the simplex grid: weak compositions of n into k parts, in the order `slots` yields them ------- *)
Fixpoint compositions (k : nat) (n : nat) : list (list nat) :=
  match k with
  | O => match n with O => [[]] | _ => [] end
  | S k' => flat_map (fun first => map (cons first) (compositions k' (n - first))) (seq 0 (S n))
  end.
Fixpoint nl_eqb (a b : list nat) : bool :=
  match a, b with [], [] => true | x :: a', y :: b' => Nat.eqb x y && nl_eqb a' b' | _, _ => false end.
Definition nl_mem (x : list nat) (l : list (list nat)) : bool := existsb (nl_eqb x) l.
Fixpoint nl_nodup (l : list (list nat)) : bool := match l with [] => true | x :: t => negb (nl_mem x t) && nl_nodup t end.
(* every grid point exactly once *)
Definition grid_ok (k n : nat) (obs : list (list nat)) : bool :=
  let c := compositions k n in
  Nat.eqb (length obs) (length c) && nl_nodup obs && forallb (fun x => nl_mem x obs) c && forallb (fun x => nl_mem x c) obs.
Definition grid_order_ok (k n : nat) (obs : list (list nat)) : bool :=
  (fix eq (a b : list (list nat)) := match a, b with [], [] => true | x :: a', y :: b' => nl_eqb x y && eq a' b' | _, _ => false end)
    (compositions k n) obs.

Definition bgoal (b : bool) : Prop := b = true.
Definition nbgoal (b : bool) : Prop := b = false.
