(* Model/C19_Model.v — inference from data (dit/inference/{counts,estimators,time_series,binning}.py).
   An observation is a list of symbol ranks (length 1 for scalar data, k for vector-valued data);
   words are compared flattened. *)
From Verif Require Export Info.
From Verif Require Export Dist.
Open Scope Q_scope.

Definition obsv := list nat.

(* boltons.windowed_iter(data, L): all contiguous windows of length L *)
Fixpoint windows (L : nat) (data : list obsv) : list (list obsv) :=
  match data with
  | [] => []
  | _ :: t => if Nat.leb L (length data) then firstn L data :: windows L t else []
  end.

Definition flatw (w : list obsv) : outcome := concat w.

(* Counter over the windows, then sorted(counts.keys()) *)
Definition word_counts (L : nat) (data : list obsv) : pd :=
  let c := pushforward (fun o => o) (map (fun w => (flatw w, 1)) (windows L data)) in
  map (fun o => (o, get0 o c)) (osort (keys c)).

(* distribution_from_data: counts / number of windows, in sorted word order *)
Definition dfd (L : nat) (data : list obsv) : pd :=
  let c := word_counts L data in
  let total := mass c in
  map (fun kv => (fst kv, snd kv / total)) c.

(* dist_from_timeseries: word of h+1 observations of k series -> (past of series 0, ..., past of series k-1, present) *)
Definition ts_outcome (k h : nat) (w : list obsv) : outcome :=
  concat (map (fun i => map (fun ob => nth i ob 0%nat) (firstn h w)) (range k)) ++ nth h w [].

Definition dfts (k h : nat) (data : list obsv) : pd :=
  let c := pushforward (fun o => o) (map (fun w => (ts_outcome k h w, 1)) (windows (S h) data)) in
  let total := mass c in
  map (fun o => (o, get0 o c / total)) (osort (keys c)).

(* estimators *)
Fixpoint harmonic (n : nat) : Q := match n with O => 0 | S m => Qred (harmonic m + 1 / inject_Z (Z.of_nat n)) end.
Fixpoint qsum_red (l : list Q) : Q := match l with [] => 0 | x :: t => Qred (x + qsum_red t) end.
Definition count_nat (q : Q) : nat := Z.to_nat (Qnum q / Zpos (Qden q))%Z.

(* psi(N) - psi(n) = H_{N-1} - H_{n-1} for positive integers (digamma at integers) *)
Definition dpsi (N n : nat) : Q := harmonic (N - 1) - harmonic (n - 1).

Definition e1_coeff (L : nat) (data : list obsv) : Q :=
  let c := word_counts L data in
  let N := count_nat (mass c) in
  qsum_red (map (fun kv => snd kv / mass c * dpsi N (count_nat (snd kv))) c).

Fixpoint alt_sum (n : nat) : Q :=     (* sum_{j=1}^{n} (-1)^j / j *)
  match n with O => 0 | S m => Qred (alt_sum m + (if Nat.even n then 1 else -(1)) / inject_Z (Z.of_nat n)) end.

Definition e2_coeff (L : nat) (data : list obsv) : Q :=
  let c := word_counts L data in
  let N := count_nat (mass c) in
  qsum_red (map (fun kv => snd kv / mass c * (dpsi N (count_nat (snd kv)) + alt_sum (count_nat (snd kv) - 1))) c).

Definition inv_ln2 : rdata := RInv (RLogB BTE (RConst 2)).
Definition entropy0_model (L : nat) (data : list obsv) : rdata := RLin [(1, map snd (dfd L data))].
Definition entropy1_model (L : nat) (data : list obsv) : rdata := RMul (RConst (Qred (e1_coeff L data))) inv_ln2.
Definition entropy2_model (L : nat) (data : list obsv) : rdata :=
  RAdd (RMul (RConst (Qred (e2_coeff L data))) inv_ln2) (RConst 1).

(* ---- checks (boolean, evaluated by vm_compute inside a goal) ------------------------------- *)

Definition ctol19 : Q := 1 # 1000000000.

Fixpoint pd_close (a b : pd) : bool :=
  match a, b with
  | [], [] => true
  | (k, v) :: a', (k', v') :: b' => oeqb k k' && qclose ctol19 v v' && pd_close a' b'
  | _, _ => false
  end.

Definition count_word (w : outcome) (ws : list outcome) : nat := length (filter (oeqb w) ws).

Fixpoint nodup_o (l : list outcome) : bool :=
  match l with [] => true | x :: t => negb (omem x t) && nodup_o t end.

(* the property itself on dit's table: every listed word has frequency count/#windows, every window's
   word is listed (counts are >= 1, so nothing can be trimmed), words are distinct *)
Definition freq_prop (ws : list outcome) (obs : pd) : bool :=
  let n := length ws in
  forallb (fun kv => qclose ctol19 (snd kv) (inject_Z (Z.of_nat (count_word (fst kv) ws)) / inject_Z (Z.of_nat n))) obs
  && forallb (fun w => omem w (keys obs)) ws
  && nodup_o (keys obs).

Definition dfd_check (L : nat) (data : list obsv) (obs : pd) : bool :=
  pd_close (dfd L data) obs && freq_prop (map flatw (windows L data)) obs.

Definition dfts_check (k h : nat) (data : list obsv) (obs : pd) : bool :=
  pd_close (dfts k h data) obs && freq_prop (map (ts_outcome k h) (windows (S h) data)) obs.

Fixpoint olist_eqb19 (a b : list outcome) : bool :=
  match a, b with
  | [], [] => true
  | x :: a', y :: b' => oeqb x y && olist_eqb19 a' b'
  | _, _ => false
  end.

Fixpoint qlist_eqb19 (a b : list Q) : bool :=
  match a, b with
  | [], [] => true
  | x :: a', y :: b' => Qeq_bool x y && qlist_eqb19 a' b'
  | _, _ => false
  end.

(* counts_from_data(data, h, f): histories are the sorted full words, hCounts the row sums of the
   conditional counts (the property's clause); with f = 0 the single column holds the word counts *)
Definition counts_check (L : nat) (f : nat) (data : list obsv) (hists : list outcome) (hcounts rowsums : list Q) : bool :=
  olist_eqb19 hists (keys (word_counts L data)) &&
  qlist_eqb19 hcounts rowsums &&
  (if Nat.eqb f 0 then qlist_eqb19 hcounts (map snd (word_counts L data)) else true).

(* ---- binning -------------------------------------------------------------------------------- *)

Fixpoint qinsert (x : Q) (l : list Q) : list Q :=
  match l with [] => [x] | y :: t => if Qle_bool x y then x :: l else y :: qinsert x t end.
Definition qsort (l : list Q) : list Q := fold_right qinsert [] l.
Definition qmin (l : list Q) : Q := match qsort l with [] => 0 | x :: _ => x end.
Definition qmax19 (l : list Q) : Q := last (qsort l) 0.

Definition qfloor (q : Q) : Z := (Qnum q / Zpos (Qden q))%Z.

(* numpy percentile, linear interpolation: position q (n-1) in the sorted data *)
Definition percentile (sorted : list Q) (num den : nat) : Q :=
  let n := length sorted in
  let pos := inject_Z (Z.of_nat num) / inject_Z (Z.of_nat den) * inject_Z (Z.of_nat (n - 1)) in
  let lo := Z.to_nat (qfloor pos) in
  let frac := pos - inject_Z (Z.of_nat lo) in
  let a := nth lo sorted 0 in
  let b := nth (S lo) sorted a in
  a + frac * (b - a).

Definition btol : Q := 1 # 1000000000.

(* uniform: label = floor(bins (x - min) / (max - min + 1e-12)); near a bin edge either side is accepted *)
Definition uniform_ok (bins : nat) (lo hi : Q) (x : Q) (label : Z) : bool :=
  let v := inject_Z (Z.of_nat bins) * (x - lo) / (hi - lo + (1 # 1000000000000)) in
  Z.leb 0 label && Z.ltb label (Z.of_nat bins) &&
  Qle_bool (inject_Z label) (v + btol) && Qle_bool (v - btol) (inject_Z label + 1).

(* maxent: label i iff thr_i <= x < thr_{i+1} with thr_0 = -inf, thr_bins = +inf; thresholds are the
   i/bins percentiles; at a threshold (within btol) either side is accepted *)
Definition maxent_ok (bins : nat) (s : list Q) (x : Q) (label : Z) : bool :=
  let i := Z.to_nat label in
  Z.leb 0 label && Z.ltb label (Z.of_nat bins) &&
  (Nat.eqb i 0 || Qle_bool (percentile s i bins - btol) x) &&
  (Nat.eqb (S i) bins || Qle_bool x (percentile s (S i) bins + btol)).

Definition binning_check (uniform : bool) (bins : nat) (xs : list Q) (labels : list Z) : bool :=
  let s := qsort xs in
  let lo := match s with [] => 0 | x :: _ => x end in
  let hi := last s 0 in
  Nat.eqb (length xs) (length labels) &&
  forallb (fun xl => if uniform then uniform_ok bins lo hi (fst xl) (snd xl) else maxent_ok bins s (fst xl) (snd xl))
          (combine xs labels).

(* boolean goals *)
Definition bgoal (b : bool) : Prop := b = true.
Definition nbgoal (b : bool) : Prop := b = false.
