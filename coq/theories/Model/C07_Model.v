(* Model/C07_Model.v — log and linear representations describe the same measure
   (dit/math/ops.py, set_base / copy(base) in dit/npscalardist.py, log branches of shannon.entropy
   and extropy).  The model keeps linear rationals; a log-base quantity is *rendered*:
   a stored log-probability x in base b denotes b^x (RExpB), an information value in base-b units is
   the value in bits times ln 2 / ln b (RInBase). *)
From Verif Require Export C04_Model C05_Model.
Open Scope Q_scope.

Definition btag_of (b : base) : option btag :=
  match b with Log2 => Some BT2 | LogE => Some BTE | LogQ q => Some (BTQ q) | Linear => None end.

Definition in_base (b : base) (r : option rdata) : option rdata :=
  match btag_of b with Some t => option_map (RInBase t) r | None => r end.

(* Shannon-type measures of a distribution held in base b: the linear-model value in that base's units;
   perplexity b^H_b is unit-free *)
Definition c07_measure4 (d : dist) (byname : bool) (q : c04_query) : option rdata :=
  match q with
  | QPerplexity _ _ => c04_model d byname q
  | _ => in_base (d_base d) (c04_model d byname q)
  end.

Definition c07_measure5 (d : dist) (byname : bool) (m : c05_measure) (gs : list (list nat)) (cr : list nat) : option rdata :=
  in_base (d_base d) (c05_model d byname m gs cr).

(* the LogOperations methods on finite log values, rendered *)
Definition r_exp (b : btag) (x : option Q) : rdata := match x with Some v => RExpB b v | None => RConst 0 end.
Fixpoint r_sum (l : list rdata) : rdata := match l with [] => RConst 0 | [x] => x | x :: t => RAdd x (r_sum t) end.

Definition ops_add (b : btag) (x y : option Q) : rdata := RAdd (r_exp b x) (r_exp b y).
Definition ops_mult (b : btag) (x y : option Q) : rdata := RMul (r_exp b x) (r_exp b y).
Definition ops_invert (b : btag) (x : option Q) : rdata := RInv (r_exp b x).
Definition ops_add_reduce (b : btag) (xs : list (option Q)) : rdata := r_sum (map (r_exp b) xs).
Definition ops_normalize (b : btag) (xs : list (option Q)) (i : nat) : rdata :=
  RMul (r_exp b (nth i xs None)) (RInv (ops_add_reduce b xs)).
