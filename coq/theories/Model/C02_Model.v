(* Model/C02_Model.v — executable model of Distribution.coalesce / marginal / marginalize
   (dit/npdist.py) with parse_rvs (dit/helpers.py) and SampleSpace.coalesce (dit/samplespace.py).
   Nested coalesced outcomes ((a,b),(b,c)) are represented flattened [a;b;b;c] together with the
   group lengths; the driver checks the nesting shape when it flattens dit's result. *)
From Verif Require Export Dist.
Open Scope Q_scope.

Inductive sel := ByIdx (l : list nat) | ByName (l : list nat).

Fixpoint index_of (x : nat) (l : list nat) (i : nat) : option nat :=
  match l with [] => None | y :: t => if Nat.eqb x y then Some i else index_of x t (S i) end.

Fixpoint map_opt {A B} (f : A -> option B) (l : list A) : option (list B) :=
  match l with
  | [] => Some []
  | x :: t => match f x, map_opt f t with Some y, Some r => Some (y :: r) | _, _ => None end
  end.

(* helpers.parse_rvs: None stands for ditException *)
Definition parse_rvs (d : dist) (s : sel) (unique sort : bool) : option (list nat) :=
  let raw := match s with ByIdx l => l | ByName l => l end in
  match raw with
  | [] => Some []
  | _ =>
    if unique && negb (nat_nodup raw) then None else
    let idx := match s with
               | ByIdx l => Some l
               | ByName l => match d_names d with
                             | None => None
                             | Some names => map_opt (fun x => index_of x names 0) l
                             end
               end in
    match idx with
    | None => None
    | Some idx =>
      if forallb (fun i => Nat.ltb i (d_nvars d)) idx
      then Some (if sort then nsort idx else idx) else None
    end
  end.

(* coalesce([idx], extract=True): the flattened core shared by all three methods *)
Definition coalesce_flat (idx : list nat) (d : dist) : dist :=
  let ss := ss_coalesce idx (d_ss d) in
  mkDist ss (build ss (pushforward (proj idx) (d_tbl d)) (d_sparse d) (d_base d))
         (d_sparse d) (d_base d) None.

Definition select_names (idx : list nat) (d : dist) : option (list nat) :=
  match d_names d with
  | None => None
  | Some names =>
      match idx with
      | [] => None                     (* set_rv_names: a distribution with 0 rvs keeps no names *)
      | _ => Some (map (fun i => nth i names 0%nat) idx)
      end
  end.

Definition with_names (n : option (list nat)) (d : dist) : dist :=
  mkDist (d_ss d) (d_tbl d) (d_sparse d) (d_base d) n.

Definition marginal (s : sel) (d : dist) : option dist :=
  match parse_rvs d s true true with
  | None => None
  | Some idx => Some (with_names (select_names idx d) (coalesce_flat idx d))
  end.

Definition marginalize (s : sel) (d : dist) : option dist :=
  match parse_rvs d s true true with
  | None => None
  | Some idx =>
    let keep := filter (fun i => negb (nat_mem i idx)) (range (d_nvars d)) in
    Some (with_names (select_names keep d) (coalesce_flat keep d))
  end.

(* coalesce(groups): every group parsed with unique=False, sort=False; the result has no names *)
Definition coalesce (byname : bool) (groups : list (list nat)) (d : dist) : option dist :=
  match map_opt (fun g => parse_rvs d (if byname then ByName g else ByIdx g) false false) groups with
  | None => None
  | Some gs => Some (coalesce_flat (concat gs) d)
  end.

(* ------------------------------------------------------------------------------------------ *)
(* cases handed over by the driver *)

Inductive c02_op :=
| OMarginal (s : sel)
| OMarginalize (s : sel)
| OCoalesce (byname : bool) (groups : list (list nat)).

Definition run_op (o : c02_op) (d : dist) : option dist :=
  match o with
  | OMarginal s => marginal s d
  | OMarginalize s => marginalize s d
  | OCoalesce bn g => coalesce bn g d
  end.

(* what the driver observed on dit's result *)
Record c02_obs := mkObs {
  ob_ok : bool;                       (* false: dit raised ditException *)
  ob_ss : list outcome;               (* list(m.sample_space()), flattened *)
  ob_tbl : pd;                        (* zip(m.outcomes, linearised m.pmf) *)
  ob_look : list Q;                   (* m[o] for o in ob_ss, linearised *)
  ob_names : option (list nat);
  ob_base : base;
  ob_sparse : bool;
  ob_olen : nat;                      (* flattened outcome length *)
  ob_src_same : bool                  (* source snapshot equal before / after *)
}.

Definition tol : Q := 1 # 1000000000.

Fixpoint olist_eqb (a b : list outcome) : bool :=
  match a, b with
  | [], [] => true
  | x :: a', y :: b' => oeqb x y && olist_eqb a' b'
  | _, _ => false
  end.

Fixpoint qlist_close (a b : list Q) : bool :=
  match a, b with
  | [], [] => true
  | x :: a', y :: b' => qclose tol x y && qlist_close a' b'
  | _, _ => false
  end.

Definition onames_eqb (a b : option (list nat)) : bool :=
  match a, b with
  | None, None => true
  | Some x, Some y => oeqb x y
  | _, _ => false
  end.

(* correspondence verdict: 0 = dit's observation equals the model's; otherwise the first
   component that differs *)
Definition corr (d : dist) (o : c02_op) (ob : c02_obs) : nat :=
  match run_op o d with
  | None => if ob_ok ob then 1%nat else 0%nat
  | Some m =>
    if negb (ob_ok ob) then 2%nat else
    if negb (olist_eqb (ss_enum (d_ss m)) (ob_ss ob)) then 3%nat else
    if negb (olist_eqb (keys (d_tbl m)) (keys (ob_tbl ob))) then 4%nat else
    if negb (qlist_close (map snd (d_tbl m)) (map snd (ob_tbl ob))) then 5%nat else
    if negb (qlist_close (map (fun o => get0 o (d_tbl m)) (ss_enum (d_ss m))) (ob_look ob)) then 6%nat else
    if negb (onames_eqb (d_names m) (ob_names ob)) then 7%nat else
    if negb (base_eqb (d_base m) (ob_base ob)) then 8%nat else
    if negb (Bool.eqb (d_sparse m) (ob_sparse ob)) then 9%nat else
    if negb (Nat.eqb (ss_len (d_ss m)) (ob_olen ob)) then 10%nat else
    if negb (ob_src_same ob) then 11%nat else 0%nat
  end.

(* ------------------------------------------------------------------------------------------ *)
(* The property itself as a predicate on (input, observation): used to triage a disagreement.
   It does not mention the model's representation choices. *)

Definition resolved_idx (o : c02_op) (d : dist) : option (list nat) :=
  match o with
  | OMarginal s => parse_rvs d s true true
  | OMarginalize s =>
      match parse_rvs d s true true with
      | None => None
      | Some idx => Some (filter (fun i => negb (nat_mem i idx)) (range (d_nvars d)))
      end
  | OCoalesce bn g =>
      match map_opt (fun g => parse_rvs d (if bn then ByName g else ByIdx g) false false) g with
      | None => None | Some gs => Some (concat gs) end
  end.

Definition expected_names (o : c02_op) (idx : list nat) (d : dist) : option (list nat) :=
  match o with OCoalesce _ _ => None | _ => select_names idx d end.

Fixpoint is_subseq (a b : list outcome) : bool :=   (* a is a subsequence of b *)
  match a, b with
  | [], _ => true
  | _, [] => false
  | x :: a', y :: b' => if oeqb x y then is_subseq a' b' else is_subseq a b'
  end.

Definition prop (d : dist) (o : c02_op) (ob : c02_obs) : nat :=
  match resolved_idx o d with
  | None => if ob_ok ob then 1%nat else 0%nat         (* invalid selection must be rejected *)
  | Some idx =>
    if negb (ob_ok ob) then 2%nat else
    let f := proj idx in
    (* every member of the result's sample space reads as the fibre sum (or as 0 when the sum is
       within the null tolerance and the value has been trimmed) *)
    if negb (forallb (fun ol => let s := fibre_sum f (d_tbl d) (fst ol) in
                                qclose tol (snd ol) s
                                || (is_null (d_base d) s && Qeq_bool (snd ol) 0))
                     (combine (ob_ss ob) (ob_look ob))) then 20%nat else
    if negb (Nat.eqb (length (ob_ss ob)) (length (ob_look ob))) then 21%nat else
    (* stored table consistent with the lookups *)
    if negb (forallb (fun kv => qclose tol (snd kv) (get0 (fst kv) (combine (ob_ss ob) (ob_look ob)))
                                && omem (fst kv) (ob_ss ob)) (ob_tbl ob)) then 22%nat else
    (* total mass preserved, up to trimmed null values *)
    if negb (qclose (tol + null_tol * inject_Z (Z.of_nat (length (ob_ss ob))))
                    (mass (ob_tbl ob)) (mass (d_tbl d))) then 23%nat else
    (* sample space = projection of the original one *)
    if negb (forallb (fun o => omem (f o) (ob_ss ob)) (ss_enum (d_ss d))) then 24%nat else
    (* ... coordinate-wise: every coordinate of a member comes from a member of the original space
       (for repeated/overlapping selections dit keeps the Cartesian product of the projected
       alphabets, a superset of the image) *)
    if negb (forallb (fun o => Nat.eqb (length o) (length idx) &&
                               forallb (fun js => omem [fst js] (map (proj [snd js]) (ss_enum (d_ss d))))
                                       (combine o idx)) (ob_ss ob)) then 25%nat else
    (* stored outcomes ordered like the sample space, dense results hold all of it *)
    if negb (is_subseq (keys (ob_tbl ob)) (ob_ss ob)) then 26%nat else
    if negb (ob_sparse ob) && negb (olist_eqb (keys (ob_tbl ob)) (ob_ss ob)) then 27%nat else
    if negb (onames_eqb (expected_names o idx d) (ob_names ob)) then 28%nat else
    if negb (base_eqb (d_base d) (ob_base ob)) then 29%nat else
    if negb (Bool.eqb (d_sparse d) (ob_sparse ob)) then 30%nat else
    if negb (Nat.eqb (length idx) (ob_olen ob)) then 31%nat else
    if negb (ob_src_same ob) then 32%nat else 0%nat
  end.

Definition verdict (c : dist * c02_op * c02_obs) : nat * nat :=
  let '(d, o, ob) := c in (corr d o ob, prop d o ob).
