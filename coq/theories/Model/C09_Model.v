(* Model/C09_Model.v — histories of mutations (dit/npscalardist.py, dit/npdist.py):
   d[o]=v, del d[o], make_dense, make_sparse(trim), normalize, set_base, copy, rand.

   Concrete model: objects keep aligned stored lists like dit and re-sort on insertion (`reorder`).
   Abstract specification: a plain table indexed by the sample space, each member either absent or
   holding a value, with one-line operations.  Proofs/C09 shows the concrete machine refines it. *)
From Verif Require Export Dist C01_Model.
Open Scope Q_scope.

Record obj := mkObj { o_d : dist; o_prng : nat * nat (* stream id, draws consumed *) }.
Definition state := list obj.

Inductive op :=
| SetItem (l : nat) (o : outcome) (v : Q)
| DelItem (l : nat) (o : outcome)
| MakeDense (l : nat)
| MakeSparse (l : nat) (tr : bool)
| Normalize (l : nat)
| SetBase (l : nat) (b : base)
| Copy (l : nat) (b : option base)
| Rand (l : nat) (k : nat).

Inductive out := OUnit | OInvalid | ONum (n : Z) | OPrng (p : nat * nat).

Definition with_tbl (d : dist) (t : pd) : dist := mkDist (d_ss d) t (d_sparse d) (d_base d) (d_names d).
Definition with_sparse (d : dist) (t : pd) (s : bool) : dist := mkDist (d_ss d) t s (d_base d) (d_names d).
Definition with_base (d : dist) (b : base) : dist := mkDist (d_ss d) (d_tbl d) (d_sparse d) b (d_names d).

(* replace the value of an existing key *)
Fixpoint set_key (o : outcome) (v : Q) (t : pd) : pd :=
  match t with
  | [] => []
  | (k, w) :: r => if oeqb k o then (k, v) :: r else (k, w) :: set_key o v r
  end.

Fixpoint del_key (o : outcome) (t : pd) : pd :=
  match t with
  | [] => []
  | (k, w) :: r => if oeqb k o then r else (k, w) :: del_key o r
  end.

Definition d_setitem (d : dist) (o : outcome) (v : Q) : option dist :=
  if negb (ss_mem (d_ss d) o) then None else
  Some (with_tbl d (match find_key o (d_tbl d) with
                    | Some _ => set_key o v (d_tbl d)
                    | None => reorder (d_ss d) (d_tbl d ++ [(o, v)])
                    end)).

Definition d_delitem (d : dist) (o : outcome) : option dist :=
  if negb (ss_mem (d_ss d) o) then None else
  Some (with_tbl d (if d_sparse d then del_key o (d_tbl d)
                    else match find_key o (d_tbl d) with
                         | Some _ => set_key o 0 (d_tbl d)
                         | None => d_tbl d end)).

Definition d_make_dense (d : dist) : dist := with_sparse d (dense_of (d_ss d) (d_tbl d)) false.
Definition d_make_sparse (d : dist) (tr : bool) : dist :=
  with_sparse d (if tr then trim (d_base d) (d_tbl d) else d_tbl d) true.
Definition d_normalize (d : dist) : dist :=
  let z := mass (d_tbl d) in with_tbl d (map (fun kv => (fst kv, Qred (snd kv / z))) (d_tbl d)).

Fixpoint upd {A} (l : list A) (i : nat) (x : A) : list A :=
  match l, i with
  | [], _ => []
  | _ :: t, O => x :: t
  | y :: t, S j => y :: upd t j x
  end.

Definition on_obj (s : state) (l : nat) (f : obj -> obj * out) : state * out :=
  match nth_error s l with
  | None => (s, OUnit)
  | Some ob => let '(ob', r) := f ob in (upd s l ob', r)
  end.

Definition set_d (ob : obj) (d : dist) : obj := mkObj d (o_prng ob).

Definition step (s : state) (o : op) : state * out :=
  match o with
  | SetItem l k v => on_obj s l (fun ob => match d_setitem (o_d ob) k v with
                                           | Some d => (set_d ob d, OUnit) | None => (ob, OInvalid) end)
  | DelItem l k => on_obj s l (fun ob => match d_delitem (o_d ob) k with
                                         | Some d => (set_d ob d, OUnit) | None => (ob, OInvalid) end)
  | MakeDense l => on_obj s l (fun ob => let d := d_make_dense (o_d ob) in
                       (set_d ob d, ONum (Z.of_nat (length (d_tbl d)) - Z.of_nat (length (d_tbl (o_d ob))))))
  | MakeSparse l tr => on_obj s l (fun ob => let d := d_make_sparse (o_d ob) tr in
                       (set_d ob d, ONum (Z.of_nat (length (d_tbl (o_d ob))) - Z.of_nat (length (d_tbl d)))))
  | Normalize l => on_obj s l (fun ob => (set_d ob (d_normalize (o_d ob)), OUnit))
  | SetBase l b => on_obj s l (fun ob => (set_d ob (with_base (o_d ob) b), OUnit))
  | Copy l b => match nth_error s l with
                | None => (s, OUnit)
                | Some ob => (s ++ [mkObj (match b with Some b' => with_base (o_d ob) b' | None => o_d ob end)
                                          (o_prng ob)], OUnit)
                end
  | Rand l k => on_obj s l (fun ob => (mkObj (o_d ob) (fst (o_prng ob), (snd (o_prng ob) + k)%nat),
                                       OPrng (o_prng ob)))
  end.

(* ---- abstract specification: a plain table over the sample space --------------------------- *)

Record atbl := mkA {
  a_ss : sspace;
  a_cell : list (outcome * option Q);     (* one cell per sample-space member, in order *)
  a_sparse : bool;
  a_base : base;
  a_names : option (list nat);
  a_prng : nat * nat
}.

Definition abs (ob : obj) : atbl :=
  let d := o_d ob in
  mkA (d_ss d) (map (fun o => (o, find_key o (d_tbl d))) (ss_enum (d_ss d)))
      (d_sparse d) (d_base d) (d_names d) (o_prng ob).

Definition cells_map (f : outcome -> option Q -> option Q) (a : atbl) : atbl :=
  mkA (a_ss a) (map (fun c => (fst c, f (fst c) (snd c))) (a_cell a)) (a_sparse a) (a_base a) (a_names a) (a_prng a).

Definition a_mass (a : atbl) : Q :=
  qsum (map (fun c => match snd c with Some v => v | None => 0 end) (a_cell a)).

Definition a_step1 (a : atbl) (o : op) : option atbl * out :=
  match o with
  | SetItem _ k v => if negb (ss_mem (a_ss a) k) then (None, OInvalid)
                     else (Some (cells_map (fun o c => if oeqb o k then Some v else c) a), OUnit)
  | DelItem _ k => if negb (ss_mem (a_ss a) k) then (None, OInvalid)
                   else (Some (cells_map (fun o c => if oeqb o k
                                                     then (if a_sparse a then None
                                                           else match c with Some _ => Some 0 | None => None end)
                                                     else c) a), OUnit)
  | MakeDense _ =>
      let a' := cells_map (fun _ c => match c with Some v => Some v | None => Some 0 end) a in
      (Some (mkA (a_ss a') (a_cell a') false (a_base a') (a_names a') (a_prng a')), OUnit)
  | MakeSparse _ tr =>
      let a' := if tr then cells_map (fun _ c => match c with
                                                 | Some v => if is_null (a_base a) v then None else Some v
                                                 | None => None end) a else a in
      (Some (mkA (a_ss a') (a_cell a') true (a_base a') (a_names a') (a_prng a')), OUnit)
  | Normalize _ => let z := a_mass a in
      (Some (cells_map (fun _ c => match c with Some v => Some (Qred (v / z)) | None => None end) a), OUnit)
  | SetBase _ b => (Some (mkA (a_ss a) (a_cell a) (a_sparse a) b (a_names a) (a_prng a)), OUnit)
  | Copy _ _ => (Some a, OUnit)
  | Rand _ k => (Some (mkA (a_ss a) (a_cell a) (a_sparse a) (a_base a) (a_names a)
                           (fst (a_prng a), (snd (a_prng a) + k)%nat)), OPrng (a_prng a))
  end.

Definition astate := list atbl.

Definition a_step (s : astate) (o : op) : astate * out :=
  match o with
  | Copy l b => match nth_error s l with
                | None => (s, OUnit)
                | Some a => (s ++ [match b with
                                   | Some b' => mkA (a_ss a) (a_cell a) (a_sparse a) b' (a_names a) (a_prng a)
                                   | None => a end], OUnit)
                end
  | SetItem l _ _ | DelItem l _ | MakeDense l | MakeSparse l _ | Normalize l | SetBase l _ | Rand l _ =>
      match nth_error s l with
      | None => (s, OUnit)
      | Some a => match a_step1 a o with
                  | (Some a', r) => (upd s l a', match o, r with
                                                 | MakeDense _, _ | MakeSparse _ _, _ => r
                                                 | _, _ => r end)
                  | (None, r) => (s, r)
                  end
      end
  end.

(* ---- observations ------------------------------------------------------------------------- *)

Inductive vverdict := VOk | VOutcome | VNorm | VProb.

Record oobs := mkOO {          (* one object after one step *)
  oo_tbl : pd;                 (* zip(d.outcomes, d.pmf) linearised *)
  oo_look : list Q;            (* d[o] for o in the sample space *)
  oo_contains : list bool;
  oo_len : nat;
  oo_sparse : bool;
  oo_base : base;
  oo_valid : vverdict;
  oo_static_same : bool;       (* sample space, alphabet, outcome length, names equal to the object's first snapshot *)
  oo_prng_ok : bool            (* the object's generator is where the shadow generator says *)
}.

Record sobs := mkSO {          (* one step *)
  so_invalid : bool;           (* the operation raised InvalidOutcome *)
  so_objs : list oobs
}.

Definition rtol (a b : Q) : bool :=
  qclose ((1#1000000000) * (1 + (if Qle_bool 0 a then a else - a))) a b.

Fixpoint qlist_rclose (a b : list Q) : bool :=
  match a, b with
  | [], [] => true
  | x :: a', y :: b' => rtol x y && qlist_rclose a' b'
  | _, _ => false
  end.

Definition model_valid (d : dist) : list vverdict :=     (* acceptable verdicts *)
  match norm_ok (d_base d) (mass (d_tbl d)) with
  | No => [VNorm]
  | Either => [VNorm; VOk; VProb]
  | Yes => match probs_ok (d_base d) (map snd (d_tbl d)) with
           | No => [VProb] | Either => [VProb; VOk] | Yes => [VOk] end
  end.

Definition vv_eqb (a b : vverdict) : bool :=
  match a, b with VOk, VOk | VOutcome, VOutcome | VNorm, VNorm | VProb, VProb => true | _, _ => false end.

Definition cmp_obj (ob : obj) (oo : oobs) : nat :=
  let d := o_d ob in
  if negb (olist_eqb (keys (d_tbl d)) (keys (oo_tbl oo))) then 4%nat else
  if negb (qlist_rclose (map snd (d_tbl d)) (map snd (oo_tbl oo))) then 5%nat else
  if negb (qlist_rclose (map (fun o => get0 o (d_tbl d)) (ss_enum (d_ss d))) (oo_look oo)) then 6%nat else
  if negb (blist_eqb (map (fun o => omem o (keys (d_tbl d))) (ss_enum (d_ss d))) (oo_contains oo)) then 7%nat else
  if negb (Nat.eqb (length (d_tbl d)) (oo_len oo)) then 9%nat else
  if negb (Bool.eqb (d_sparse d) (oo_sparse oo)) then 12%nat else
  if negb (base_eqb (d_base d) (oo_base oo)) then 13%nat else
  if negb (existsb (vv_eqb (oo_valid oo)) (model_valid d)) then 14%nat else
  if negb (oo_static_same oo) then 15%nat else
  if negb (oo_prng_ok oo) then 16%nat else 0%nat.

Fixpoint cmp_objs (s : state) (os : list oobs) : nat :=
  match s, os with
  | [], [] => 0%nat
  | ob :: s', oo :: os' => match cmp_obj ob oo with 0%nat => cmp_objs s' os' | c => c end
  | _, _ => 17%nat
  end.

Definition is_invalid (r : out) : bool := match r with OInvalid => true | _ => false end.

(* run the history; 0 = every observation agrees, else 100*(step+1) + code *)
Fixpoint run_corr (s : state) (ops : list op) (obs : list sobs) (i : nat) : nat :=
  match ops, obs with
  | [], [] => 0%nat
  | o :: ops', ob :: obs' =>
      let '(s', r) := step s o in
      if negb (Bool.eqb (is_invalid r) (so_invalid ob)) then (100 * (i + 1) + 1)%nat else
      match cmp_objs s' (so_objs ob) with
      | 0%nat => run_corr s' ops' obs' (S i)
      | c => (100 * (i + 1) + c)%nat
      end
  | _, _ => 99%nat
  end.

(* the same observations against the abstract table specification *)
Definition a_stored (a : atbl) : pd :=
  flat_map (fun c => match snd c with Some v => [(fst c, v)] | None => [] end) (a_cell a).

Definition a_valid (a : atbl) : list vverdict :=
  match norm_ok (a_base a) (a_mass a) with
  | No => [VNorm]
  | Either => [VNorm; VOk; VProb]
  | Yes => match probs_ok (a_base a) (map snd (a_stored a)) with
           | No => [VProb] | Either => [VProb; VOk] | Yes => [VOk] end
  end.

Definition cmp_aobj (a : atbl) (oo : oobs) : nat :=
  if negb (olist_eqb (keys (a_stored a)) (keys (oo_tbl oo))) then 24%nat else
  if negb (qlist_rclose (map snd (a_stored a)) (map snd (oo_tbl oo))) then 25%nat else
  if negb (qlist_rclose (map (fun c => match snd c with Some v => v | None => 0 end) (a_cell a)) (oo_look oo)) then 26%nat else
  if negb (blist_eqb (map (fun c => match snd c with Some _ => true | None => false end) (a_cell a)) (oo_contains oo)) then 27%nat else
  if negb (Nat.eqb (length (a_stored a)) (oo_len oo)) then 29%nat else
  if negb (Bool.eqb (a_sparse a) (oo_sparse oo)) then 32%nat else
  if negb (base_eqb (a_base a) (oo_base oo)) then 33%nat else
  if negb (existsb (vv_eqb (oo_valid oo)) (a_valid a)) then 34%nat else
  if negb (oo_static_same oo) then 35%nat else
  if negb (oo_prng_ok oo) then 36%nat else 0%nat.

Fixpoint cmp_aobjs (s : astate) (os : list oobs) : nat :=
  match s, os with
  | [], [] => 0%nat
  | a :: s', oo :: os' => match cmp_aobj a oo with 0%nat => cmp_aobjs s' os' | c => c end
  | _, _ => 37%nat
  end.

Fixpoint run_prop (s : astate) (ops : list op) (obs : list sobs) (i : nat) : nat :=
  match ops, obs with
  | [], [] => 0%nat
  | o :: ops', ob :: obs' =>
      let '(s', r) := a_step s o in
      if negb (Bool.eqb (is_invalid r) (so_invalid ob)) then (100 * (i + 1) + 21)%nat else
      match cmp_aobjs s' (so_objs ob) with
      | 0%nat => run_prop s' ops' obs' (S i)
      | c => (100 * (i + 1) + c)%nat
      end
  | _, _ => 99%nat
  end.

Definition verdict (c : dist * list op * list sobs) : nat * nat :=
  let '(d, ops, obs) := c in
  let ob := mkObj d (0%nat, 0%nat) in
  (run_corr [ob] ops obs 0, run_prop [abs ob] ops obs 0).
