(* Model/C18_Model.v — information partitions and profiles (dit/profiles/*.py).
   The Shannon / extropy partition is the top-down Moebius inversion over the powerset lattice of the
   variables, carried out here on formal linear combinations of a set function h (Measures.hterm),
   exactly as BaseInformationPartition._partition does with numbers. *)
From Verif Require Export Measures.
Open Scope Q_scope.

Definition hneg (t : list hterm) : list hterm := scale (-(1)) t.

(* all subsets of {0..n-1} as sorted lists, largest first (the order of the lattice from the top) *)
Definition subsets (n : nat) : list (list nat) := sublists (range n).
Definition by_size_desc (n : nat) : list (list nat) :=
  concat (map (fun k => filter (fun s => Nat.eqb (length s) k) (subsets n)) (rev (seq 0 (S n)))).

Definition subset_of (a b : list nat) : bool := forallb (fun x => nat_mem x b) a.
Definition proper_superset (b a : list nat) : bool := subset_of a b && negb (subset_of b a).

(* Is[node] = sum over the subsets T of node of (-1)^(|T|+1) h(T) *)
Definition I_terms (node : list nat) : list hterm :=
  map (fun T => (sign (S (length T)), T)) (sublists node).

(* atoms[node] = Is[node] - sum of the atoms of the proper supersets, computed from the top *)
Fixpoint atoms_from (nodes : list (list nat)) (acc : list (list nat * list hterm)) : list (list nat * list hterm) :=
  match nodes with
  | [] => acc
  | node :: rest =>
      let above := concat (map (fun na => if proper_superset (fst na) node then hneg (snd na) else []) acc) in
      atoms_from rest (acc ++ [(node, hmerge (I_terms node ++ above))])
  end.

Definition partition_atoms (n : nat) : list (list nat * list hterm) :=
  filter (fun na => negb (Nat.eqb (length (fst na)) 0)) (atoms_from (by_size_desc n) []).

(* sp[(rvs, crvs)]: the atoms A such that every group of rvs meets A and crvs is inside the complement of A *)
Definition is_part (n : nat) (A : list nat) (gs : list (list nat)) (cr : list nat) : bool :=
  forallb (fun g => existsb (fun x => nat_mem x A) g) gs && forallb (fun c => negb (nat_mem c A)) cr.

Definition cover_terms (n : nat) (gs : list (list nat)) (cr : list nat) : list hterm :=
  hmerge (concat (map (fun na => if is_part n (fst na) gs cr then snd na else []) (partition_atoms n))).

Definition atom_of (n : nat) (A : list nat) : list hterm :=
  match find (fun na => oeqb (fst na) A) (partition_atoms n) with Some na => snd na | None => [] end.

(* complexity profile: scale k = sum of the atoms shared by at least k variables *)
Definition profile_terms (n k : nat) : list hterm :=
  hmerge (concat (map (fun na => if Nat.leb k (length (fst na)) then snd na else []) (partition_atoms n))).

(* reference forms (conditional co-information), used by the theorems *)
Definition cmi_terms (n : nat) (gs : list (list nat)) (cr : list nat) : list hterm :=
  match coinformation n gs cr with Some t => hmerge t | None => [] end.

(* ---- evaluation ---------------------------------------------------------------------------- *)
Definition ent_value (d : dist) (t : list hterm) : rdata := RLin (hdata d t).
(* the same combination of extropies of the marginals *)
Fixpoint r_sum18 (l : list rdata) : rdata := match l with [] => RConst 0 | [x] => x | x :: r => RAdd x (r_sum18 r) end.
Definition ext_value (d : dist) (t : list hterm) : rdata :=
  r_sum18 (map (fun x => RMul (RConst (fst x)) (RExtropy (mpmf d (snd x)))) t).

(* entropy triangles *)
Definition log_alphabets (d : dist) : rdata :=
  r_sum18 (map (fun a => RLog2 (RConst (inject_Z (Z.of_nat (length a))))) (ss_alphabets (d_ss d))).
Definition sum_marginals (n : nat) : list hterm := map (fun i => (1, [i])) (range n).
Definition singles (n : nat) : list (list nat) := map (fun i => [i]) (range n).
Definition opt_terms (o : option (list hterm)) : list hterm := match o with Some t => hmerge t | None => [] end.

Definition triangle1 (d : dist) (coord : nat) : rdata :=
  let n := d_nvars d in
  let HU := log_alphabets d in
  let HP := RLin (hdata d (sum_marginals n)) in
  let VI := RLin (hdata d (opt_terms (residual_entropy n (singles n) []))) in
  let num := match coord with
             | 0%nat => RAdd HU (RNeg HP)
             | 1%nat => RAdd HP (RNeg VI)
             | _ => VI end in
  RMul num (RInv HU).

Definition triangle2 (d : dist) (coord : nat) : rdata :=
  let n := d_nvars d in
  let R := RLin (hdata d (opt_terms (residual_entropy n (singles n) []))) in
  let B := RLin (hdata d (opt_terms (dual_total_correlation n (singles n) []))) in
  let T := RLin (hdata d (opt_terms (total_correlation n (singles n) []))) in
  let num := match coord with 0%nat => R | 1%nat => T | _ => B end in
  RMul num (RInv (RAdd R (RAdd B T))).

Definition tc_value (d : dist) : rdata :=
  let n := d_nvars d in RLin (hdata d (opt_terms (total_correlation n (singles n) []))).

(* formal equality of two linear combinations after normalisation *)
Fixpoint hterm_mem (x : hterm) (l : list hterm) : bool :=
  match l with [] => false | y :: r => (Qeq_bool (fst x) (fst y) && oeqb (snd x) (snd y)) || hterm_mem x r end.
Definition hterms_eqb (a b : list hterm) : bool :=
  forallb (fun x => hterm_mem x b) a && forallb (fun x => hterm_mem x a) b.
