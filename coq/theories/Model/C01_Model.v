(* Model/C01_Model.v — executable model of Distribution.__init__ / ScalarDistribution.__init__
   (dit/npdist.py, dit/npscalardist.py) with helpers.construct_alphabets / reorder,
   make_sparse / make_dense, validate (dit/validate.py) and base validation (dit/params.py).

   Values are linear rationals: for a log-base specification the driver linearises the given
   log-probabilities with base**x (null -> 0) and does the same to everything it reads back, so that
   equal floats stay equal and "exactly the specified value" can still be compared exactly. *)
From Verif Require Export Dist.
Open Scope Q_scope.

Inductive ss_spec :=
| SSNone                                (* sample_space=None *)
| SSCart (alphs : list (list nat))      (* a CartesianProduct instance: alphabets sorted in place *)
| SSInst (os : list outcome)            (* a SampleSpace / ScalarSampleSpace instance: sorted in place *)
| SSList (os : list outcome).           (* a plain sequence: joint keeps the order, scalar sorts it *)

Inductive base_spec := BNone | BGiven (b : base) | BInvalid.

Record spec := mkSpec {
  sp_joint : bool;
  sp_outs : list outcome;
  sp_vals : list Q;
  sp_ss : ss_spec;
  sp_base : base_spec;
  sp_raw_is_pmf : bool;    (* only used when sp_base = BNone: is the raw value vector a linear pmf *)
  sp_sparse : bool;
  sp_trim : bool
}.

Inductive err := EInvalidDistribution | EDitException | EInvalidOutcome | EInvalidNormalization
               | EInvalidProbability | EInvalidBase.

Inductive tri := Yes | No | Either.

Inductive result := Ok (d : dist) | Err (e : err) | OkOrErr (d : dist) (e : err).

(* ---- validation ------------------------------------------------------------------------- *)

(* np.isclose(total, one).  Linear: |T-1| <= 1e-8 + 1e-5.  Log base b: |log_b T| <= 1e-8, which
   for every base in use (0.5 <= b <= 10) holds when |T-1| <= 1e-10 and fails when
   |T-1| >= 1e-7; in between the model does not decide. *)
Definition norm_ok (b : base) (t : Q) : tri :=
  match b with
  | Linear => if Qabs_le (t - 1) ((1#100000000) + (1#100000)) then Yes else No
  | _ => if Qabs_le (t - 1) (1#10000000000) then Yes
         else if Qabs_le (t - 1) (1#10000000) then Either else No
  end.

(* validate_probabilities.  Linear: reject p < -1e-8 or p > 1 + 1e-8 + 1e-5.
   Log, b > 1: reject x > 1e-8, i.e. p > b^1e-8 (decided outside a band);
   log, b < 1: reject every x < 0, i.e. every p > 1 (dit compares with +inf, no tolerance). *)
Definition base_lt1 (b : base) : bool :=
  match b with LogQ q => Qle_bool q 1 | _ => false end.

Definition prob_ok (b : base) (p : Q) : tri :=
  match b with
  | Linear => if Qle_bool (- null_tol) p && Qle_bool p (1 + (1#100000000) + (1#100000)) then Yes else No
  | _ => if Qle_bool p 1 then Yes
         else if base_lt1 b then No
         else if Qle_bool p (1 + (1#10000000000)) then Yes
         else if Qle_bool p (1 + (1#10000000)) then Either else No
  end.

Definition tri_and (a b : tri) : tri :=
  match a, b with
  | No, _ | _, No => No
  | Yes, Yes => Yes
  | _, _ => Either
  end.

Definition probs_ok (b : base) (vs : list Q) : tri :=
  fold_right (fun p acc => tri_and (prob_ok b p) acc) Yes vs.

(* ---- alphabets ----------------------------------------------------------------------------- *)

Fixpoint ndedup_fo_acc (seen l : list nat) : list nat :=
  match l with
  | [] => []
  | x :: t => if nat_mem x seen then ndedup_fo_acc seen t else x :: ndedup_fo_acc (x :: seen) t
  end.
Definition alphabets_fo (n : nat) (os : list outcome) : list (list nat) :=
  map (fun i => ndedup_fo_acc [] (column i os)) (range n).

Definition same_lengths (os : list outcome) : bool :=
  match os with [] => true | o :: t => forallb (fun x => Nat.eqb (length x) (length o)) t end.

(* ---- the constructor --------------------------------------------------------------------- *)

Definition resolve_base (s : spec) : option base :=
  match sp_base s with
  | BInvalid => None
  | BGiven b => Some b
  | BNone => Some (if sp_raw_is_pmf s then Linear else Log2)
  end.

Definition first_len (os : list outcome) : nat := match os with [] => 0%nat | o :: _ => length o end.

(* sample space and alphabets; None = ditException from construct_alphabets (ragged / empty) *)
Definition resolve_ss (s : spec) : option (sspace * list (list nat)) :=
  if sp_joint s then
    match sp_ss s with
    | SSCart a => let a' := map nsort a in Some (Cart a', a')
    | SSInst os => if same_lengths os && negb (Nat.eqb (length os) 0)
                   then let os' := osort os in Some (Expl os', alphabets_fo (first_len os') os') else None
    | SSList os => if same_lengths os && negb (Nat.eqb (length os) 0)
                   then Some (Expl os, map nsort (alphabets_fo (first_len os) os)) else None
    | SSNone => if same_lengths (sp_outs s) && negb (Nat.eqb (length (sp_outs s)) 0)
                then let a := map nsort (alphabets_fo (first_len (sp_outs s)) (sp_outs s)) in
                     Some (Cart a, a) else None
    end
  else
    let os := match sp_ss s with
              | SSNone => osort (sp_outs s)
              | SSInst os | SSList os => osort os
              | SSCart _ => []
              end in
    Some (Expl os, [map (fun o => nth 0 o 0%nat) os]).

Definition construct (s : spec) : result :=
  match resolve_base s with
  | None => Err EInvalidBase
  | Some b =>
    if negb (Nat.eqb (length (sp_outs s)) (length (sp_vals s))) then Err EInvalidDistribution else
    if Nat.eqb (length (sp_outs s)) 0 && match sp_ss s with SSNone => true | _ => false end
    then Err EInvalidDistribution else
    match resolve_ss s with
    | None => Err EDitException
    | Some (ss, _) =>
      let t := combine (sp_outs s) (sp_vals s) in
      if negb (all_in_ss ss t) then Err EInvalidOutcome else
      let r := reorder ss t in
      let tbl := if sp_sparse s then (if sp_trim s then trim b r else r) else dense_of ss r in
      let d := mkDist ss tbl (sp_sparse s) b None in
      match norm_ok b (mass tbl) with
      | No => Err EInvalidNormalization
      | Either => OkOrErr d EInvalidNormalization
      | Yes =>
        match probs_ok b (map snd tbl) with
        | No => Err EInvalidProbability
        | Either => OkOrErr d EInvalidProbability
        | Yes => Ok d
        end
      end
    end
  end.

Definition model_alphabets (s : spec) : list (list nat) :=
  match resolve_ss s with Some (_, a) => a | None => [] end.

(* ------------------------------------------------------------------------------------------ *)
(* observation and correspondence *)

Record c01_obs := mkObs1 {
  o1_err : option err;                 (* Some e: the constructor raised e *)
  o1_other : bool;                     (* it raised something that is not a documented dit exception *)
  o1_printable : bool;                 (* str(e) succeeded and is a non-empty str *)
  o1_ss : list outcome;
  o1_tbl : pd;                         (* zip(d.outcomes, d.pmf) *)
  o1_look : list Q;                    (* d[o] for o in list(d.sample_space()) *)
  o1_contains : list bool;             (* o in d, same order *)
  o1_outside_rejected : bool;          (* d[x] raised InvalidOutcome for each probe x outside *)
  o1_len : nat;
  o1_alphabet : list (list nat);
  o1_olen : nat;
  o1_sparse : bool;
  o1_base : base
}.

Definition err_eqb (a b : err) : bool :=
  match a, b with
  | EInvalidDistribution, EInvalidDistribution | EDitException, EDitException
  | EInvalidOutcome, EInvalidOutcome | EInvalidNormalization, EInvalidNormalization
  | EInvalidProbability, EInvalidProbability | EInvalidBase, EInvalidBase => true
  | _, _ => false
  end.

Fixpoint olist_eqb (a b : list outcome) : bool :=
  match a, b with
  | [], [] => true
  | x :: a', y :: b' => oeqb x y && olist_eqb a' b'
  | _, _ => false
  end.

Fixpoint qlist_eqb (a b : list Q) : bool :=
  match a, b with
  | [], [] => true
  | x :: a', y :: b' => Qeq_bool x y && qlist_eqb a' b'
  | _, _ => false
  end.

Fixpoint blist_eqb (a b : list bool) : bool :=
  match a, b with
  | [], [] => true
  | x :: a', y :: b' => Bool.eqb x y && blist_eqb a' b'
  | _, _ => false
  end.

Definition corr_ok (s : spec) (d : dist) (ob : c01_obs) : nat :=
  if negb (olist_eqb (ss_enum (d_ss d)) (o1_ss ob)) then 3%nat else
  if negb (olist_eqb (keys (d_tbl d)) (keys (o1_tbl ob))) then 4%nat else
  if negb (qlist_eqb (map snd (d_tbl d)) (map snd (o1_tbl ob))) then 5%nat else
  if negb (qlist_eqb (map (fun o => get0 o (d_tbl d)) (ss_enum (d_ss d))) (o1_look ob)) then 6%nat else
  if negb (blist_eqb (map (fun o => omem o (keys (d_tbl d))) (ss_enum (d_ss d))) (o1_contains ob)) then 7%nat else
  if negb (o1_outside_rejected ob) then 8%nat else
  if negb (Nat.eqb (length (d_tbl d)) (o1_len ob)) then 9%nat else
  if negb (olist_eqb (model_alphabets s) (o1_alphabet ob)) then 10%nat else
  if negb (Nat.eqb (if sp_joint s then ss_len (d_ss d) else 1%nat) (o1_olen ob)) then 11%nat else
  if negb (Bool.eqb (d_sparse d) (o1_sparse ob)) then 12%nat else
  if negb (base_eqb (d_base d) (o1_base ob)) then 13%nat else 0%nat.

Definition corr_err (e : err) (ob : c01_obs) : nat :=
  match o1_err ob with
  | Some e' => if err_eqb e e' then (if o1_printable ob then 0%nat else 15%nat) else 14%nat
  | None => 2%nat
  end.

Definition corr (s : spec) (ob : c01_obs) : nat :=
  if o1_other ob then 16%nat else
  match construct s with
  | Ok d => match o1_err ob with Some _ => 1%nat | None => corr_ok s d ob end
  | Err e => corr_err e ob
  | OkOrErr d e => match o1_err ob with Some _ => corr_err e ob | None => corr_ok s d ob end
  end.

(* ------------------------------------------------------------------------------------------ *)
(* the property as a predicate on (specification, observation), independent of `construct` *)

(* Which faults does a specification have?  Stated directly on the specification (no table is
   built): (definite faults, possible faults within dit's tolerance bands). *)
Definition tri_faults (t : tri) (e : err) : list err * list err :=
  match t with Yes => ([], []) | No => ([e], []) | Either => ([], [e]) end.

Definition faults (s : spec) : list err * list err :=
  match resolve_base s with
  | None => ([EInvalidBase], [])
  | Some b =>
    let f1 := if negb (Nat.eqb (length (sp_outs s)) (length (sp_vals s))) then [EInvalidDistribution] else [] in
    let f2 := if Nat.eqb (length (sp_outs s)) 0 && match sp_ss s with SSNone => true | _ => false end
              then [EInvalidDistribution] else [] in
    let f3 := match resolve_ss s with
              | None => [EDitException]
              | Some (ss, _) => if forallb (ss_mem ss) (sp_outs s) then [] else [EInvalidOutcome]
              end in
    let n := tri_faults (norm_ok b (qsum (sp_vals s))) EInvalidNormalization in
    let p := tri_faults (probs_ok b (sp_vals s)) EInvalidProbability in
    (f1 ++ f2 ++ f3 ++ fst n ++ fst p, snd n ++ snd p)
  end.

Definition err_mem (e : err) (l : list err) : bool := existsb (err_eqb e) l.

Fixpoint nodupb_o (l : list outcome) : bool :=
  match l with [] => true | x :: t => negb (omem x t) && nodupb_o t end.

Fixpoint is_subseq_o (a b : list outcome) : bool :=
  match a, b with
  | [], _ => true
  | _, [] => false
  | x :: a', y :: b' => if oeqb x y then is_subseq_o a' b' else is_subseq_o a b'
  end.

Definition prop_ok (s : spec) (b : base) (ob : c01_obs) : nat :=
  let given := combine (sp_outs s) (sp_vals s) in
  let look := combine (o1_ss ob) (o1_look ob) in
  (* every specified outcome reads back exactly (or as 0 when null, sparse and trimmed) *)
  if negb (forallb (fun kv => match find_key (fst kv) look with
                              | Some v => Qeq_bool v (snd kv)
                                          || (sp_sparse s && sp_trim s && is_null b (snd kv) && Qeq_bool v 0)
                              | None => false end) given) then 20%nat else
  (* every other member of the sample space reads as the null probability *)
  if negb (forallb (fun kv => omem (fst kv) (sp_outs s) || Qeq_bool (snd kv) 0) look) then 21%nat else
  if negb (Nat.eqb (length (o1_ss ob)) (length (o1_look ob))) then 22%nat else
  if negb (o1_outside_rejected ob) then 23%nat else
  (* stored outcomes / pmf aligned with the lookups, duplicate-free, ordered like the sample space *)
  if negb (forallb (fun kv => match find_key (fst kv) look with Some v => Qeq_bool v (snd kv) | None => false end)
                   (o1_tbl ob)) then 24%nat else
  if negb (nodupb_o (keys (o1_tbl ob))) then 25%nat else
  if negb (is_subseq_o (keys (o1_tbl ob)) (o1_ss ob)) then 26%nat else
  if negb (o1_sparse ob) && negb (olist_eqb (keys (o1_tbl ob)) (o1_ss ob)) then 27%nat else
  if sp_sparse s && sp_trim s && existsb (fun kv => is_null b (snd kv)) (o1_tbl ob) then 28%nat else
  (* membership and length agree with the stored outcomes *)
  if negb (blist_eqb (map (fun o => omem o (keys (o1_tbl ob))) (o1_ss ob)) (o1_contains ob)) then 29%nat else
  if negb (Nat.eqb (length (o1_tbl ob)) (o1_len ob)) then 30%nat else
  (* alphabets are exactly the symbols of the sample space, per variable (as sets) *)
  if sp_joint s &&
     negb (forallb (fun ia => let i := fst ia in let a := snd ia in
                      forallb (fun x => nat_mem x (column i (o1_ss ob))) a &&
                      forallb (fun x => nat_mem x a) (column i (o1_ss ob)))
                   (combine (range (length (o1_alphabet ob))) (o1_alphabet ob))) then 31%nat else
  if sp_joint s && negb (Nat.eqb (length (o1_alphabet ob)) (o1_olen ob)) then 32%nat else
  (* every specified outcome is a member of the sample space *)
  if negb (forallb (fun o => omem o (o1_ss ob)) (sp_outs s)) then 33%nat else
  if negb (Bool.eqb (sp_sparse s) (o1_sparse ob)) then 34%nat else
  if negb (base_eqb b (o1_base ob)) then 35%nat else 0%nat.

Definition prop (s : spec) (ob : c01_obs) : nat :=
  if o1_other ob then 40%nat else
  let '(definite, possible) := faults s in
  match o1_err ob with
  | Some e =>
      (* rejected: there must be a fault of that kind, and the message must print *)
      if negb (err_mem e (definite ++ possible)) then 41%nat else
      if o1_printable ob then 0%nat else 45%nat
  | None =>
      (* accepted: there must be no definite fault, and the object must be the specified table *)
      match definite, resolve_base s with
      | _ :: _, _ => 43%nat
      | [], Some b => prop_ok s b ob
      | [], None => 42%nat
      end
  end.

Definition verdict (c : spec * c01_obs) : nat * nat := (corr (fst c) (snd c), prop (fst c) (snd c)).
