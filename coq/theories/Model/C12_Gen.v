(* Model/C12_Gen.v — the executable mirror obtained from /repo's current source: the translated
   _samples_discrete__python (Gen/Sampling_Gen.v) interpreted over binary64 floats.  The correspondence
   run compares dit's returned indices with it bit for bit, besides the hand-written mirror. *)
From Coq Require Import ZArith List String Uint63 PrimFloat.
From Verif Require Import PyLang Sampling_Gen C12_Model.
Import ListNotations.

Definition f_ofZ (z : Z) : float :=
  match z with
  | Z0 => PrimFloat.zero
  | Zpos _ => PrimFloat.of_uint63 (Uint63.of_Z z)
  | Zneg _ => PrimFloat.opp (PrimFloat.of_uint63 (Uint63.of_Z (Z.opp z)))
  end.

Definition frun := @run float PrimFloat.add PrimFloat.sub PrimFloat.mul PrimFloat.ltb PrimFloat.leb PrimFloat.eqb f_ofZ.
Definition f_fenv0 : string -> option (@val float -> option (@val float)) := fun _ => None.
Definition f_fenv1 (f : string) : option (@val float -> option (@val float)) :=
  if String.eqb f "_last_positive" then Some (fun v => frun f_fenv0 sampling_last_positive [v]) else None.

(* indices the translated source returns for pmf and random numbers *)
Definition gen_samples (pmf us : list float) : option (list Z) :=
  match frun f_fenv1 sampling_samples_discrete_python [VArr (map VNum pmf); VArr (map VNum us); VNone] with
  | Some (VArr l) => Some (map (fun v => match v with VInt z => z | _ => (-1)%Z end) l)
  | _ => None
  end.

Fixpoint zlist_eqb (a b : list Z) : bool :=
  match a, b with
  | [], [] => true
  | x :: a', y :: b' => Z.eqb x y && zlist_eqb a' b'
  | _, _ => false
  end.

Definition gen_corr (c : c12_case) : nat :=
  match gen_samples (c_pmf c) (c_us c) with
  | Some l => if zlist_eqb l (map Z.of_nat (c_idx c)) then 0%nat else 3%nat
  | None => 4%nat
  end.

Definition verdict_gen (c : c12_case) : nat * nat :=
  let '(co, pr) := verdict c in ((if Nat.eqb co 0 then gen_corr c else co), pr).
