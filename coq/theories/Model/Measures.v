(* Model/Measures.v — Shannon-type measures as formal linear combinations of entropies of variable
   sets, transcribed from dit/shannon/shannon.py and dit/multivariate/*.py.
   A measure is (option (list hterm)): None = dit raises ditException (invalid / duplicated
   variables); the value is  sum_i c_i * H(S_i)  with H(S) the entropy of the marginal on S. *)
From Verif Require Export Info.
From Verif Require Export Dist C02_Model.   (* after Info: Reals also defines a `dist` *)
Open Scope Q_scope.

Definition hterm := (Q * list nat)%type.            (* c * H(S), S a sorted duplicate-free list *)

Definition nset (l : list nat) : list nat := nsort (ndedup l).
Definition nunion (a b : list nat) : list nat := nset (a ++ b).
Definition nsubset (a b : list nat) : bool := forallb (fun x => nat_mem x b) a.
Definition ndiff (a b : list nat) : list nat := filter (fun x => negb (nat_mem x b)) a.
Definition nunions (gs : list (list nat)) : list nat := nset (concat gs).

Definition valid_vars (n : nat) (l : list nat) : bool :=
  nat_nodup l && forallb (fun i => Nat.ltb i n) l.

Definition scale (c : Q) (t : list hterm) : list hterm := map (fun x => (c * fst x, snd x)) t.

(* shannon.conditional_entropy(dist, X, Y) as called through multivariate.entropy: exactly 0 when
   X is a subset of Y; otherwise H(X) - (H(X) + H(Y) - H(X u Y)); every entropy() call goes through
   marginal(), which rejects duplicated or invalid variables *)
Definition cond_H (n : nat) (X Y : list nat) : option (list hterm) :=
  if nsubset X Y then Some [] else
  if valid_vars n X && valid_vars n Y then Some [(1, nunion X Y); (-(1), nset Y)] else None.

Definition oapp {A} (a b : option (list A)) : option (list A) :=
  match a, b with Some x, Some y => Some (x ++ y) | _, _ => None end.
Definition oscale (c : Q) (a : option (list hterm)) : option (list hterm) := option_map (scale c) a.
Fixpoint osum (l : list (option (list hterm))) : option (list hterm) :=
  match l with [] => Some [] | x :: t => oapp x (osum t) end.

(* shannon.entropy(d, rvs) / mutual_information(d, X, Y) *)
Definition sh_entropy (n : nat) (X : list nat) : option (list hterm) :=
  if valid_vars n X then Some [(1, nset X)] else None.
Definition sh_mi (n : nat) (X Y : list nat) : option (list hterm) :=
  osum [sh_entropy n X; sh_entropy n Y; oscale (-(1)) (sh_entropy n (nunion X Y))].
Definition sh_cond_entropy (n : nat) (X Y : list nat) : option (list hterm) :=
  if nsubset X Y then Some [] else oapp (sh_entropy n X) (oscale (-(1)) (sh_mi n X Y)).

(* multivariate.entropy(d, rvs=groups, crvs) *)
Definition mv_entropy (n : nat) (gs : list (list nat)) (cr : list nat) := cond_H n (concat gs) cr.

(* sub-families *)
Fixpoint sublists {A} (l : list A) : list (list A) :=
  match l with [] => [[]] | x :: t => let r := sublists t in r ++ map (cons x) r end.
Fixpoint combs {A} (k : nat) (l : list A) : list (list A) :=
  match k, l with
  | O, _ => [[]]
  | S _, [] => []
  | S k', x :: t => map (cons x) (combs k' t) ++ combs k t
  end.

Definition sign (k : nat) : Q := if Nat.even k then 1 else -(1).

Definition coinformation (n : nat) (gs : list (list nat)) (cr : list nat) :=
  osum (map (fun T => oscale (sign (S (length T))) (cond_H n (nunions T) cr)) (sublists gs)).

Definition interaction_information n gs cr := oscale (sign (length gs)) (coinformation n gs cr).

Definition total_correlation (n : nat) (gs : list (list nat)) (cr : list nat) :=
  oapp (osum (map (fun g => cond_H n g cr) gs)) (oscale (-(1)) (cond_H n (nunions gs) cr)).

Definition others (g : list nat) (gs : list (list nat)) : list nat := ndiff (nunions gs) g.

Definition residual_entropy (n : nat) (gs : list (list nat)) (cr : list nat) :=
  osum (map (fun g => cond_H n g (nunion (others g gs) cr)) gs).

Definition dual_total_correlation (n : nat) (gs : list (list nat)) (cr : list nat) :=
  oapp (cond_H n (nunions gs) cr) (oscale (-(1)) (residual_entropy n gs cr)).

Definition o_information n gs cr :=
  oapp (total_correlation n gs cr) (oscale (-(1)) (dual_total_correlation n gs cr)).

Fixpoint fact (n : nat) : Z := match n with O => 1%Z | S k => (Z.of_nat n * fact k)%Z end.
Definition binom (n k : nat) : Q := inject_Z (fact n) / (inject_Z (fact k) * inject_Z (fact (n - k))).

Definition tse_complexity (n : nat) (gs : list (list nat)) (cr : list nat) :=
  let N := length gs in
  let joint := cond_H n (nunions gs) cr in
  osum (map (fun k =>
          oapp (oscale (1 / binom N k) (osum (map (fun T => cond_H n (nunions T) cr) (combs k gs))))
               (oscale (- (inject_Z (Z.of_nat k) / inject_Z (Z.of_nat N))) joint))
        (seq 1 (N - 1))).

Definition cohesion (n : nat) (k : nat) (gs : list (list nat)) (cr : list nat) :=
  let N := length gs in
  oapp (osum (map (fun T => cond_H n (nunions T) cr) (combs k gs)))
       (oscale (- binom (N - 1) (k - 1)) (cond_H n (nunions gs) cr)).

(* CAEKL: one candidate value per partition of the (distinct) groups into >= 2 blocks:
   (sum_blocks H(block | cr) - H(all | cr)) / (#blocks - 1); the measure is their minimum *)
Fixpoint insert_everywhere {A} (x : A) (p : list (list A)) : list (list (list A)) :=
  match p with
  | [] => []
  | b :: r => ((x :: b) :: r) :: map (cons b) (insert_everywhere x r)
  end.
Fixpoint set_partitions {A} (l : list A) : list (list (list A)) :=
  match l with
  | [] => [[]]
  | x :: t => flat_map (fun p => ([x] :: p) :: insert_everywhere x p) (set_partitions t)
  end.

Fixpoint gdedup (gs : list (list nat)) : list (list nat) :=
  match gs with [] => [] | g :: t => if omem g t then gdedup t else g :: gdedup t end.

Definition caekl_candidates (n : nat) (gs : list (list nat)) (cr : list nat) : list (option (list hterm)) :=
  let H := mv_entropy n gs cr in
  map (fun part =>
         oscale (1 / inject_Z (Z.of_nat (length part - 1)))
                (oapp (osum (map (fun blk => mv_entropy n blk cr) part)) (oscale (-(1)) H)))
      (filter (fun part => Nat.ltb 1 (length part)) (set_partitions (gdedup gs))).

(* ------------------------------------------------------------------------------------------ *)
(* evaluation on a distribution *)

(* the pmf of d.marginal(S): stored values of the coalesced table (null sums are trimmed when d is sparse) *)
Definition mpmf (d : dist) (S : list nat) : list Q := map snd (d_tbl (coalesce_flat S d)).
Definition hdata (d : dist) (t : list hterm) : list (Q * list Q) := map (fun x => (fst x, mpmf d (snd x))) t.
Definition hvalue (d : dist) (t : list hterm) : R := lincomb (hdata d t).

(* merge the terms that mention the same variable set and drop those whose coefficients cancel:
   the value is unchanged (Proofs/C05_Merge.v) and the interval goals get much smaller *)
Fixpoint hadd (c : Q) (S : list nat) (acc : list hterm) : list hterm :=
  match acc with
  | [] => [(c, S)]
  | (c', S') :: r => if oeqb S' S then (Qred (c' + c), S') :: r else (c', S') :: hadd c S r
  end.
Definition hmerge (t : list hterm) : list hterm :=
  filter (fun x => negb (Qeq_bool (fst x) 0)) (fold_left (fun acc x => hadd (fst x) (snd x) acc) t []).

(* over an abstract entropy function (used by the theorems) *)
Definition heval (h : list nat -> R) (t : list hterm) : R := rsum (map (fun x => (Q2R (fst x) * h (snd x))%R) t).

(* resolution of names *)
Definition resolve_vars (d : dist) (byname : bool) (l : list nat) : option (list nat) :=
  if byname then match d_names d with
                 | None => None
                 | Some names => map_opt (fun x => index_of x names 0) l
                 end
  else Some l.
Definition resolve_groups (d : dist) (byname : bool) (gs : list (list nat)) : option (list (list nat)) :=
  map_opt (resolve_vars d byname) gs.
