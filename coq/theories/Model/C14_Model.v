(* Model/C14_Model.v — maximum-entropy distributions under marginal constraints
   (dit/algorithms/distribution_optimizers.py: maxent_dist, marginal_maxent_dists; optutil.prepare_dist).
   The SLSQP iterations are not modelled; what is modelled is what the property states about the result:
   its support, its marginals, and the entropy dominance, decided by a dual certificate
   (potentials theta_g on the constrained groups) whose soundness is C14_Proofs.maxent_dual_bound. *)
From Verif Require Export Measures.
Open Scope Q_scope.

Definition marg (t : pd) (g : list nat) : pd := pushforward (proj g) t.

Definition marg_match (tol : Q) (t1 t2 : pd) (g : list nat) : bool :=
  let m1 := marg t1 g in
  let m2 := marg t2 g in
  forallb (fun k => qclose tol (get0 k m1) (get0 k m2)) (odedup (keys m1 ++ keys m2)).
Definition margs_match (tol : Q) (t1 t2 : pd) (gs : list (list nat)) : bool := forallb (marg_match tol t1 t2) gs.

Definition nonneg_pd (t : pd) : bool := forallb (fun kv => Qle_bool 0 (snd kv)) t.
(* every outcome of positive probability lies in the product of the given alphabets *)
Definition support_in (alph : list (list nat)) (t : pd) : bool :=
  forallb (fun kv => Qle_bool (snd kv) 0 || mem_cart (fst kv) alph) t.
Definition pd_ok (alph : list (list nat)) (t : pd) : bool :=
  nonneg_pd t && support_in alph t && qclose (1 # 10000000) (mass t) 1.     (* dit accepts masses within its own tolerance of one *)

Definition entropy_data (t : pd) : rdata := RLin [(1, map snd t)].

(* ---- dual certificate ------------------------------------------------------------------------------
   theta : for every constrained group g a table of potentials over the values of the group.
   r(x) = 2^(score x) / Z is a strictly positive distribution on the sample space ss; for every p on ss
   whose g-marginals equal d's:   H(p) <= mu log2 Z - <m, theta> + (1 - mu) log2 e,   mu = mass d. *)
Definition potentials := list (list nat * pd).
Definition score (theta : potentials) (x : outcome) : Q :=
  qsum (map (fun gt => get0 (proj (fst gt) x) (snd gt)) theta).
Fixpoint r_sum14 (l : list rdata) : rdata := match l with [] => RConst 0 | [x] => x | x :: t => RAdd x (r_sum14 t) end.
Definition z_data (theta : potentials) (ss : list outcome) : rdata :=
  r_sum14 (map (fun x => RExpB BT2 (Qred (score theta x))) ss).
Definition lin_term (theta : potentials) (d : pd) : Q :=
  Qred (qsum (map (fun gt => qsum (map (fun kv => snd kv * get0 (fst kv) (marg d (fst gt))) (snd gt))) theta)).
Definition log2e_data : rdata := RLog2 (RExpB BTE 1).
Definition ub_data (theta : potentials) (ss : list outcome) (d : pd) : rdata :=
  let mu := Qred (mass d) in
  RAdd (RMul (RConst mu) (RLog2 (z_data theta ss)))
       (RAdd (RNeg (RConst (lin_term theta d))) (RMul (RConst (Qred (1 - mu))) log2e_data)).
(* the potentials' tables list every value of their group exactly once *)
Fixpoint onodup (l : list outcome) : bool := match l with [] => true | x :: t => negb (omem x t) && onodup t end.
Definition theta_ok (theta : potentials) (ss : list outcome) : bool :=
  forallb (fun gt => onodup (keys (snd gt)) && forallb (fun x => omem (proj (fst gt) x) (keys (snd gt))) ss) theta.

(* ---- closed forms ----------------------------------------------------------------------------------- *)
(* product of the single-variable marginals over the sample space *)
Definition product_pd (n : nat) (ss : list outcome) (d : pd) : pd :=
  map (fun x => (x, Qred (fold_right Qmult 1 (map (fun i => get0 [nth i x 0%nat] (marg d [i])) (range n))))) ss.
Definition uniform_pd (ss : list outcome) : pd :=
  map (fun x => (x, 1 / inject_Z (Z.of_nat (length ss)))) ss.
Definition pd_close (tol : Q) (ss : list outcome) (a b : pd) : bool :=
  forallb (fun x => qclose tol (get0 x a) (get0 x b)) ss &&
  forallb (fun kv => omem (fst kv) ss || Qle_bool (snd kv) 0) a && forallb (fun kv => omem (fst kv) ss || Qle_bool (snd kv) 0) b.
