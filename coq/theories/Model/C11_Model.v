(* Model/C11_Model.v — distribution constructors and algebra (dit/distconst.py, dit/npscalardist.py
   operators, dit/algorithms/{prune_expand,stats}.py, dit/example_dists).  Outcomes are lists of
   integers (symbols are numbers, digit characters are encoded by their value, '_' by -1); tables are
   compared as dictionaries (to_dict()). *)
From Verif Require Export Info.
From Verif Require Export Prelude.
Open Scope Q_scope.

Definition zout := list Z.
Definition ztab := list (zout * Q).

Fixpoint zeqb (a b : zout) : bool :=
  match a, b with
  | [], [] => true
  | x :: a', y :: b' => Z.eqb x y && zeqb a' b'
  | _, _ => false
  end.

Fixpoint zget (o : zout) (t : ztab) : Q :=       (* sum of all entries with key o (dict value; 0 if absent) *)
  match t with [] => 0 | (k, v) :: r => if zeqb k o then v + zget o r else zget o r end.

Fixpoint zadd (k : zout) (v : Q) (acc : ztab) : ztab :=
  match acc with
  | [] => [(k, v)]
  | (k', v') :: r => if zeqb k' k then (k', Qred (v' + v)) :: r else (k', v') :: zadd k v r
  end.

Definition zpush (f : zout -> zout) (t : ztab) : ztab := fold_left (fun acc kv => zadd (f (fst kv)) (snd kv) acc) t [].
Definition zkeys (t : ztab) : list zout := map fst t.
Definition zmem (o : zout) (l : list zout) : bool := existsb (zeqb o) l.
Definition zmass (t : ztab) : Q := qsum (map snd t).

Definition ctol11 : Q := 1 # 1000000000.
(* dictionary equality up to tolerance: every key of either table has close values (absent = 0) *)
Definition tab_eq (a b : ztab) : bool :=
  forallb (fun kv => qclose ctol11 (zget (fst kv) a) (zget (fst kv) b)) (a ++ b).
(* ... and same supports: the outcomes of positive probability are the same on both sides *)
Definition keys_eq (a b : ztab) : bool :=
  let sa := zkeys (filter (fun kv => negb (Qle_bool (zget (fst kv) a) ctol11)) a) in
  let sb := zkeys (filter (fun kv => negb (Qle_bool (zget (fst kv) b) ctol11)) b) in
  forallb (fun k => zmem k sb) sa && forallb (fun k => zmem k sa) sb.

(* ---- modify_outcomes / insert_rvf: maps given as finite tables ---------------------------- *)
Fixpoint zlookup (m : list (zout * zout)) (o : zout) : zout :=
  match m with [] => o | (k, v) :: r => if zeqb k o then v else zlookup r o end.

Definition modify (m : list (zout * zout)) (t : ztab) : ztab := zpush (zlookup m) t.

Definition insert_at (idx : option nat) (old new : zout) : zout :=
  match idx with None => old ++ new | Some i => firstn i old ++ new ++ skipn i old end.
Definition insert_rvf (m : list (zout * zout)) (idx : option nat) (t : ztab) : ztab :=
  zpush (fun o => insert_at idx o (zlookup m o)) t.

(* ---- marginals and products ------------------------------------------------------------------ *)
Definition zproj (idx : list nat) (o : zout) : zout := map (fun i => nth i o 0%Z) idx.
Definition zmarginal (idx : list nat) (t : ztab) : ztab := zpush (zproj idx) t.

Fixpoint zproduct (ms : list ztab) : ztab :=
  match ms with
  | [] => [([], 1)]
  | m :: r => flat_map (fun kv => map (fun kw => (fst kv ++ fst kw, Qred (snd kv * snd kw))) (zproduct r)) m
  end.
(* product_distribution(d, groups): marginals are sorted by variable index inside each group *)
Definition product_dist (groups : list (list nat)) (t : ztab) : ztab :=
  zproduct (map (fun g => zmarginal (nsort g) t) groups).

(* ---- mixtures --------------------------------------------------------------------------------- *)
Definition mixture (ts : list ztab) (ws : list Q) : ztab :=
  let ks := fold_left (fun acc k => if zmem k acc then acc else acc ++ [k]) (concat (map zkeys ts)) [] in
  map (fun k => (k, qsum (map (fun tw => snd tw * zget k (fst tw)) (combine ts ws)))) ks.

(* ---- scalar algebra: law of op(X, Y) for independent X, Y -------------------------------------- *)
Inductive sop := OAdd | OSub | OMul | OFloorDiv | OMod | OLt | OLe | OEq | ONe | OGt | OGe.
Definition b2z (b : bool) : Z := if b then 1%Z else 0%Z.
Definition apply_sop (o : sop) (x y : Z) : Z :=
  match o with
  | OAdd => x + y | OSub => x - y | OMul => x * y | OFloorDiv => x / y | OMod => x mod y
  | OLt => b2z (Z.ltb x y) | OLe => b2z (Z.leb x y) | OEq => b2z (Z.eqb x y) | ONe => b2z (negb (Z.eqb x y))
  | OGt => b2z (Z.ltb y x) | OGe => b2z (Z.leb y x)
  end%Z.
Definition scalar_op (o : sop) (a b : ztab) : ztab :=
  zpush (fun k => k)
        (flat_map (fun xa => map (fun yb => ([apply_sop o (hd 0%Z (fst xa)) (hd 0%Z (fst yb))], snd xa * snd yb)) b) a).
Definition matmul (a b : ztab) : ztab :=
  flat_map (fun xa => map (fun yb => (fst xa ++ fst yb, snd xa * snd yb)) b) a.

(* ---- uniform, noisy, erasure ---------------------------------------------------------------- *)
Definition uniform_on (os : list zout) : ztab := map (fun o => (o, 1 / inject_Z (Z.of_nat (length os)))) os.
Fixpoint zcart (alphs : list (list Z)) : list zout :=
  match alphs with [] => [[]] | a :: r => flat_map (fun x => map (cons x) (zcart r)) a end.
Definition noisy (alphs : list (list Z)) (noise : Q) (t : ztab) : ztab :=
  mixture [t; uniform_on (zcart alphs)] [1 - noise; noise].

Fixpoint qpow (q : Q) (n : nat) : Q := match n with O => 1 | S m => q * qpow q m end.
Fixpoint erase_variants (o : zout) : list (zout * nat) :=      (* every way of erasing symbols, with the erased count *)
  match o with
  | [] => [([], 0%nat)]
  | x :: r => flat_map (fun vc => [(x :: fst vc, snd vc); ((-1)%Z :: fst vc, S (snd vc))]) (erase_variants r)
  end.
Definition erasure (eps : Q) (t : ztab) : ztab :=
  zpush (fun k => k)
        (flat_map (fun kv => map (fun vc => (fst vc, snd kv * qpow eps (snd vc) * qpow (1 - eps) (length (fst kv) - snd vc)))
                                 (erase_variants (fst kv))) t).

(* ---- pruned / expanded sample spaces -------------------------------------------------------------- *)
(* pruned: keep the atoms (sample-space members) with non-null probability, plus those in `keep` *)
Definition pruned_ss (ss keep : list zout) (t : ztab) : list zout :=
  filter (fun o => negb (Qeq_bool (zget o t) 0) || zmem o keep) ss.
Fixpoint zinsert (x : Z) (l : list Z) : list Z :=
  match l with [] => [x] | y :: r => if Z.leb x y then x :: l else y :: zinsert x r end.
Definition zsort (l : list Z) : list Z := fold_right zinsert [] l.
Fixpoint zdedup (l : list Z) : list Z :=
  match l with [] => [] | x :: r => if existsb (Z.eqb x) r then zdedup r else x :: zdedup r end.
Definition expanded_ss (alphs : list (list Z)) (union : bool) : list zout :=
  let alphs' := if union then let u := zsort (zdedup (concat alphs)) in map (fun _ => u) alphs else map zsort alphs in
  zcart alphs'.

(* ---- example distributions ------------------------------------------------------------------ *)
Definition zrange (a n : nat) : list Z := map (fun i => Z.of_nat (a + i)) (seq 0 n).
Definition giant_bit (n k : nat) : ztab := uniform_on (map (fun a => repeat a n) (zrange 0 k)).
Definition zsum (l : list Z) : Z := fold_right Z.add 0%Z l.
Definition n_mod_m (n m : nat) : ztab :=
  uniform_on (map (fun w => w ++ [(zsum w mod Z.of_nat m)%Z]) (zcart (repeat (zrange 0 m) (n - 1)))).
Definition iid_sum (n k : nat) : ztab :=
  uniform_on (map (fun w => w ++ [zsum w]) (zcart (repeat (zrange 0 k) n))).
Definition summed_dice (a : Q) (b : Z) : ztab :=
  map (fun ij => let i := nth 0 ij 0%Z in let j := nth 1 ij 0%Z in
                 ([i; j; (i + b * j)%Z], a / 36 + (1 - a) * (if Z.eqb i j then 1 else 0) / 6))
      (zcart [zrange 1 6; zrange 1 6]).
Definition gate (f : list Z -> Z) (k : nat) : ztab :=
  uniform_on (map (fun w => w ++ [f w]) (zcart (repeat [0%Z; 1%Z] k))).
Definition and_gate := gate (fun w => b2z (forallb (fun x => negb (Z.eqb x 0)) w)).
Definition or_gate := gate (fun w => b2z (existsb (fun x => negb (Z.eqb x 0)) w)).
Definition xor_gate : ztab := gate (fun w => (zsum w mod 2)%Z) 2.

Fixpoint zfact (n : nat) : Z := match n with O => 1%Z | S m => (Z.of_nat n * zfact m)%Z end.
Definition choose (n k : nat) : Q :=
  if Nat.leb k n then inject_Z (zfact n) / (inject_Z (zfact k) * inject_Z (zfact (n - k))) else 0.
Definition binomial (n : nat) (p : Q) : ztab :=
  map (fun k => ([Z.of_nat k], choose n k * qpow p k * qpow (1 - p) (n - k))) (seq 0 (S n)).
Definition hypergeometric (N K n : nat) : ztab :=
  let lo := (n + K - N)%nat in let hi := Nat.min K n in
  map (fun k => ([Z.of_nat k], choose K k * choose (N - K) (n - k) / choose N n)) (seq lo (S hi - lo)).
Definition uniform_int (a b : Z) : ztab :=
  uniform_on (map (fun i => [(a + Z.of_nat i)%Z]) (seq 0 (Z.to_nat (b - a)))).

(* ---- statistics of scalar numeric distributions ------------------------------------------------ *)
Definition sval (kv : zout * Q) : Q := inject_Z (hd 0%Z (fst kv)).
Definition smean (t : ztab) : Q := Qred (qsum (map (fun kv => sval kv * snd kv) t) / zmass t).
Definition scentral (n : nat) (t : ztab) : Q :=
  let mu := smean t in Qred (qsum (map (fun kv => qpow (sval kv - mu) n * snd kv) t) / zmass t).
Definition sstd (t : ztab) : rdata := RSqrt (RConst (scentral 2 t)).
Fixpoint rpow (r : rdata) (n : nat) : rdata := match n with O => RConst 1 | S m => RMul r (rpow r m) end.
Definition sstandard (n : nat) (t : ztab) : rdata := RMul (RConst (scentral n t)) (RInv (rpow (sstd t) n)).

(* median: (first outcome whose cumulative probability exceeds 1/2 + first with cumulative >= 1/2) / 2, stored order *)
Fixpoint first_cum (strict : bool) (t : ztab) (acc : Q) : Q :=
  match t with
  | [] => 0
  | kv :: r => let c := acc + snd kv in
               if (if strict then negb (Qle_bool c (1#2)) else Qle_bool (1#2) c) then sval kv else first_cum strict r c
  end.
Definition smedian (t : ztab) : Q := (first_cum true t 0 + first_cum false t 0) / 2.
Definition smode (t : ztab) : list Z :=
  let m := fold_right (fun kv acc => if Qle_bool acc (snd kv) then snd kv else acc) 0 t in
  map (fun kv => hd 0%Z (fst kv)) (filter (fun kv => Qeq_bool (snd kv) m) t).

Fixpoint zlist_eqb (a b : list Z) : bool :=
  match a, b with [], [] => true | x :: a', y :: b' => Z.eqb x y && zlist_eqb a' b' | _, _ => false end.
Fixpoint zzlist_eqb (a b : list zout) : bool :=
  match a, b with [], [] => true | x :: a', y :: b' => zeqb x y && zzlist_eqb a' b' | _, _ => false end.
Definition same_set (a b : list zout) : bool := forallb (fun k => zmem k b) a && forallb (fun k => zmem k a) b.

Definition bgoal (b : bool) : Prop := b = true.
Definition nbgoal (b : bool) : Prop := b = false.
