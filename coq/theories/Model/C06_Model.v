(* Model/C06_Model.v — divergences and dependence coefficients (dit/divergences/*.py) on linear
   distributions, aligned by outcome label. *)
From Verif Require Export Measures.
Open Scope Q_scope.

Inductive xres := XRaise | XInf | XNaN | XVal (r : rdata).

(* cross_entropy.get_pmfs_like: marginal both on idx; ps = stored pmf of the first, qs = second's
   value at the same label (0 when the label is outside its sample space) *)
Definition pmfs_like (d1 d2 : dist) (idx : list nat) : list (Q * Q) :=
  let dp := coalesce_flat (nsort idx) d1 in
  let dq := coalesce_flat (nsort idx) d2 in
  map (fun kv => (snd kv, match lookup dq (fst kv) with Some v => v | None => 0 end)) (d_tbl dp).

(* helpers.normalize_pmfs: union of the stored outcomes, absent -> 0 (order irrelevant: symmetric sums) *)
Definition union_pmfs (d1 d2 : dist) : list (Q * Q) :=
  let ks := odedup (keys (d_tbl d1) ++ keys (d_tbl d2)) in
  map (fun k => (get0 k (d_tbl d1), get0 k (d_tbl d2))) ks.

Definition pos (q : Q) : bool := negb (Qle_bool q 0).

(* -sum p log2 q over the aligned pairs: +inf iff some p > 0 meets q = 0 *)
Definition xent_inf (l : list (Q * Q)) : bool := existsb (fun pq => pos (fst pq) && negb (pos (snd pq))) l.
Definition xent_data (l : list (Q * Q)) : rdata := RXent (map fst l) (map snd l).

Definition sel_vars (d : dist) (rvs : option (list nat)) : list nat :=
  match rvs with None => range (d_nvars d) | Some l => l end.

(* cross_entropy(d1, d2, rvs, crvs) *)
Definition cross_entropy (d1 d2 : dist) (rvs : option (list nat)) (crvs : list nat) : xres :=
  let X := sel_vars d1 rvs in
  if negb (valid_vars (d_nvars d1) (X ++ crvs) && valid_vars (d_nvars d2) (X ++ crvs)) then XRaise else
  let l1 := pmfs_like d1 d2 (X ++ crvs) in
  match crvs with
  | [] => if xent_inf l1 then XInf else XVal (xent_data l1)
  | _ => let l2 := pmfs_like d1 d2 crvs in
         if xent_inf l1 then (if xent_inf l2 then XNaN else XInf)
         else if xent_inf l2 then XNaN
         else XVal (RAdd (xent_data l1) (RNeg (xent_data l2)))
  end.

(* kullback_leibler_divergence = cross entropy - multivariate.entropy(d1, rvs, crvs) *)
Definition kl_divergence (d1 d2 : dist) (rvs : option (list nat)) (crvs : list nat) : xres :=
  let X := sel_vars d1 rvs in
  match cross_entropy d1 d2 rvs crvs, cond_H (d_nvars d1) X crvs with
  | XRaise, _ | _, None => XRaise
  | XInf, _ => XInf
  | XNaN, _ => XNaN
  | XVal r, Some t => XVal (RAdd r (RNeg (RLin (hdata d1 (hmerge t)))))
  end.

(* mixture with merge=True over the union of stored outcomes, then H(mix) - sum w H(d) *)
Definition jsd (ds : list dist) (ws : list Q) : xres :=
  if negb (Nat.eqb (length ds) (length ws)) then XRaise else
  let ks := odedup (concat (map (fun d => keys (d_tbl d)) ds)) in
  let mix := map (fun k => qsum (map (fun dw => snd dw * get0 k (d_tbl (fst dw))) (combine ds ws))) ks in
  XVal (RLin ((1, mix) :: map (fun dw => (- snd dw, mpmf (fst dw) (range (d_nvars (fst dw))))) (combine ds ws))).

Definition qabs (q : Q) : Q := if Qle_bool 0 q then q else - q.

Definition variational (d1 d2 : dist) : xres :=
  XVal (RConst (Qred (qsum (map (fun pq => qabs (fst pq - snd pq)) (union_pmfs d1 d2)) / 2))).

Definition bc_data (l : list (Q * Q)) : rdata :=
  fold_right (fun pq acc => RAdd (RSqrt (RConst (Qred (fst pq * snd pq)))) acc) (RConst 0) l.

Definition bhattacharyya (d1 d2 : dist) : xres := XVal (bc_data (union_pmfs d1 d2)).
(* sqrt(1 - BC), 0 when rounding makes 1 - BC negative: the model bounds BC <= 1 exactly *)
Definition hellinger (d1 d2 : dist) : xres :=
  XVal (RSqrt (RAdd (RConst 1) (RNeg (bc_data (union_pmfs d1 d2))))).
(* the square of the Hellinger distance, 1 - BC: compared with dit's value squared, because the square
   root amplifies rounding errors of BC near 1 *)
Definition hellinger_sq (d1 d2 : dist) : xres := XVal (RAdd (RConst 1) (RNeg (bc_data (union_pmfs d1 d2)))).

(* double_power_sum(d1, d2, e1, e2): nansum p^e1 q^e2 over the aligned pairs.
   A pair contributes: p^e1 q^e2 when both positive; with p = 0: 0 if e1 > 0 (0 * q^e2, nan dropped when q^e2 = inf),
   with q = 0 < p: 0 if e2 > 0, +inf if e2 < 0, p^e1 if e2 = 0.  Only e1 > 0 is modelled. *)
Definition dps_inf (e2 : Q) (l : list (Q * Q)) : bool :=
  existsb (fun pq => pos (fst pq) && negb (pos (snd pq)) && negb (Qle_bool 0 e2)) l.
Definition dps_data (e1 e2 : Q) (l : list (Q * Q)) : rdata :=
  fold_right (fun pq acc =>
     if pos (fst pq) then
       (if pos (snd pq) then RAdd (RMul (RPowQ (fst pq) e1) (RPowQ (snd pq) e2)) acc
        else if Qeq_bool e2 0 then RAdd (RPowQ (fst pq) e1) acc else acc)
     else acc) (RConst 0) l.

Inductive gdiv := GRenyi | GTsallis | GHellinger | GAlpha.

Definition gen_divergence (g : gdiv) (a : Q) (d1 d2 : dist) (rvs : option (list nat)) : xres :=
  let X := sel_vars d1 rvs in
  if negb (valid_vars (d_nvars d1) X && valid_vars (d_nvars d2) X) then XRaise else
  let l := pmfs_like d1 d2 X in
  let '(e1, e2) := match g with GAlpha => ((1 - a) / 2, (1 + a) / 2) | _ => (a, 1 - a) end in
  if dps_inf e2 l then XInf else
  (* a negative first exponent (alpha divergence with alpha > 1): p^e1 is infinite wherever p = 0 < q, on ANY outcome of q
     (textbook value; dit only looks at the outcomes stored in p: known finding C06-alpha-zero-p) *)
  if negb (Qle_bool 0 e1) && existsb (fun qp => pos (fst qp) && negb (pos (snd qp))) (pmfs_like d2 d1 X) then XInf else
  (* no common support on p's outcomes: the power sum is 0 and log2 0 / (a-1) = +inf for a < 1 *)
  if (match g with GRenyi => true | _ => false end) && negb (existsb (fun pq => pos (fst pq) && pos (snd pq)) l)
  then (if Qle_bool a 1 then XInf else XInf) else
  let s := dps_data e1 e2 l in
  XVal (match g with
        | GRenyi => RMul (RLog2 s) (RConst (Qred (1 / (a - 1))))
        | GTsallis | GHellinger => RMul (RAdd s (RConst (-(1)))) (RConst (Qred (1 / (a - 1))))
        | GAlpha => RMul (RAdd (RConst 1) (RNeg s)) (RConst (Qred (4 / (1 - a * a))))
        end).

(* chi-squared as an f-divergence with f(t) = (t-1)^2, for q of full support on p's stored outcomes *)
Definition chi2 (d1 d2 : dist) : xres :=
  let l := pmfs_like d1 d2 (range (d_nvars d1)) in
  (* textbook value: +inf as soon as some p > 0 meets q = 0 (dit drops those terms: known finding) *)
  if xent_inf l then XInf else
  XVal (RConst (Qred (qsum (map (fun pq => if pos (snd pq)
                                           then snd pq * ((fst pq / snd pq - 1) * (fst pq / snd pq - 1)) else 0) l)))).

(* Chernoff: f(alpha) = log2 sum p^alpha q^(1-alpha) on the union; the value is -min f *)
Definition chernoff_f (a : Q) (d1 d2 : dist) : rdata :=
  RLog2 (fold_right (fun pq acc => if pos (fst pq) && pos (snd pq)
                                   then RAdd (RMul (RPowQ (fst pq) a) (RPowQ (snd pq) (1 - a))) acc else acc)
                    (RConst 0) (union_pmfs d1 d2)).
Definition chernoff_neg_f (a : Q) (d1 d2 : dist) : xres :=
  (* with no common support the sum is 0 for every alpha: the information is +infinity *)
  if existsb (fun pq => pos (fst pq) && pos (snd pq)) (union_pmfs d1 d2) then XVal (RNeg (chernoff_f a d1 d2)) else XInf.

(* ---- earth mover's distance: exact bounds from weak duality ------------------------------- *)
(* cost matrix c(i,j), masses p (rows) and q (columns) *)
Definition dual_bound (c : nat -> nat -> Q) (p q u : list Q) : Q :=
  (* v_j := min_i (c i j - u_i) makes (u, v) dual feasible; value sum u p + sum v q *)
  let n := length p in
  let v := map (fun j => fold_right (fun i m => let x := c i j - nth i u 0 in if Qle_bool x m then x else m)
                                    (c 0%nat j - nth 0 u 0) (range n)) (range (length q)) in
  qsum (map (fun i => nth i u 0 * nth i p 0) (range n)) + qsum (map (fun j => nth j v 0 * nth j q 0) (range (length q))).

(* north-west corner coupling of p and q (both of the same total mass): an exactly feasible flow *)
Fixpoint nw_cost (fuel : nat) (c : nat -> nat -> Q) (i j : nat) (p q : list Q) : Q :=
  match fuel with
  | O => 0
  | S f =>
    match p, q with
    | a :: p', b :: q' =>
        if Qle_bool a b then Qred (a * c i j + nw_cost f c (S i) j p' (Qred (b - a) :: q'))
        else Qred (b * c i j + nw_cost f c i (S j) (Qred (a - b) :: p') q')
    | _, _ => 0
    end
  end.

Definition emd_bounds (numeric : bool) (xs ys : list Q) (p q u : list Q) : Q * Q :=
  let c := if numeric then (fun i j => qabs (nth i xs 0 - nth j ys 0))
           else (fun i j => if Nat.eqb i j then 0 else 1) in
  (dual_bound c p q u, nw_cost (length p + length q + 2) c 0 0 p q).

(* for 0/1 distances the NW-corner rule is not optimal in general: the optimal coupling keeps min(p,q)
   on the diagonal; its cost is the total variation *)
Definition emd_categorical_upper (p q : list Q) : Q :=
  qsum (map (fun pq => qabs (fst pq - snd pq)) (combine p q)) / 2.

Definition emd_check (numeric : bool) (xs ys p q u : list Q) (obs : Q) : bool :=
  let '(lo, hi) := emd_bounds numeric xs ys p q u in
  let hi := if numeric then hi else emd_categorical_upper p q in
  Qle_bool (lo - (1#100000000)) obs && Qle_bool obs (hi + (1#100000000)) && Qle_bool (hi - lo) (1#100000000).

(* ---- maximum correlation: rho^2 is the second eigenvalue of M = Dx^-1 P Dy^-1 P^T (rational) ------ *)
Definition mat := list (list Q).
Definition row_sums (m : mat) : list Q := map qsum m.
Definition col_sums (m : mat) : list Q :=
  match m with [] => [] | r :: _ => map (fun j => qsum (map (fun row => nth j row 0) m)) (range (length r)) end.
Definition mc_matrix (pxy : mat) : mat :=
  let px := row_sums pxy in let py := col_sums pxy in
  map (fun x => map (fun x' =>
         qsum (map (fun y => let a := nth y (nth x pxy []) 0 in let b := nth y (nth x' pxy []) 0 in
                             if pos (nth y py 0) && pos (nth x px 0) then a * b / (nth y py 0 * nth x px 0) else 0)
                   (range (length py))))
       (range (length px))) (range (length px)).
Definition trace (m : mat) : Q := qsum (map (fun i => nth i (nth i m []) 0) (range (length m))).
Definition frob2 (pxy : mat) : Q := trace (mc_matrix pxy).      (* sum of squared singular values of Q *)

Definition det3 (m : mat) : Q :=
  let e (i j : nat) := nth j (nth i m []) 0 in
  let a := e 0%nat 0%nat in let b := e 0%nat 1%nat in let c := e 0%nat 2%nat in
  let d := e 1%nat 0%nat in let f := e 1%nat 1%nat in let g := e 1%nat 2%nat in
  let h := e 2%nat 0%nat in let i := e 2%nat 1%nat in let j := e 2%nat 2%nat in
  a * (f * j - g * i) - b * (d * j - g * h) + c * (d * i - f * h).

(* obs = rho.  Checks: 0 <= rho <= 1 (+tol); rho = 0 iff independent (frob2 = #nonzero-mass components... = 1 here);
   for 2 rows: rho^2 = frob2 - 1; for 3 rows: eigenvalues 1, rho^2, l3 with l3 = tr - 1 - rho^2 in [0, rho^2] and rho^2 l3 = det M *)
Definition mc_tol : Q := 1 # 10000000.
Definition maxcorr_check (pxy : mat) (obs : Q) : bool :=
  let px := filter pos (row_sums pxy) in
  let rows := filter (fun r => pos (qsum r)) pxy in
  let m := mc_matrix rows in
  let tr := trace m in
  let r2 := obs * obs in
  Qle_bool (- mc_tol) obs && Qle_bool obs (1 + mc_tol) &&
  (* independence <-> rho = 0 *)
  Bool.eqb (Qle_bool (tr - 1) mc_tol) (Qle_bool obs (1#1000)) &&
  match length rows with
  | 1%nat => Qle_bool obs mc_tol
  | 2%nat => qclose mc_tol r2 (tr - 1)
  | 3%nat => let l3 := tr - 1 - r2 in
             Qle_bool (- mc_tol) l3 && Qle_bool l3 (r2 + mc_tol) && qclose mc_tol (r2 * l3) (det3 m)
  | _ => Qle_bool r2 (tr - 1 + mc_tol)
  end.

(* ---- kinds --------------------------------------------------------------------------------- *)
Inductive okind := KRaise | KInf | KNaN | KVal.
Definition kind_of (x : xres) : okind := match x with XRaise => KRaise | XInf => KInf | XNaN => KNaN | XVal _ => KVal end.
Definition kind_eqb (a b : okind) : bool :=
  match a, b with KRaise, KRaise | KInf, KInf | KNaN, KNaN | KVal, KVal => true | _, _ => false end.
Definition val_of (x : xres) : option rdata := match x with XVal r => Some r | _ => None end.
