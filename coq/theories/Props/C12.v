(* Props/C12.v — property C12: sampling is exact inverse-CDF selection in stored outcome order. *)
From Verif Require Import Prelude C12_Model C12_Proofs PyLang Sampling_Gen C12_Refine.
From Coq Require Import Lqa.
Open Scope Q_scope.

(* the returned index is the one whose cumulative interval [F(i-1), F(i)) contains u *)
Theorem C12_scan_interval : forall ps u i, nonneg ps -> 0 <= u -> qscan ps u = Some i ->
  (i < length ps)%nat /\ cum ps i <= u /\ u < cum ps (S i).
Proof. exact scan_interval. Qed.
Print Assumptions C12_scan_interval.

Theorem C12_scan_unique : forall ps u i, nonneg ps -> 0 <= u -> (i < length ps)%nat ->
  cum ps i <= u -> u < cum ps (S i) -> qscan ps u = Some i.
Proof. exact scan_unique. Qed.
Print Assumptions C12_scan_unique.

(* an outcome of zero probability is never returned *)
Theorem C12_scan_skips_zero : forall ps u i, nonneg ps -> 0 <= u -> qscan ps u = Some i -> 0 < nth i ps 0.
Proof. exact scan_skips_zero. Qed.
Print Assumptions C12_scan_skips_zero.

(* every positive-probability outcome is returned for some u in [0,1) *)
Theorem C12_scan_positive_reachable : forall ps i, nonneg ps -> (i < length ps)%nat -> 0 < nth i ps 0 ->
  qscan ps (cum ps i) = Some i.
Proof. exact scan_positive_reachable. Qed.
Print Assumptions C12_scan_positive_reachable.

Theorem C12_reachable_u_in_range : forall ps i, nonneg ps -> (i < length ps)%nat -> 0 < nth i ps 0 ->
  cum ps (length ps) <= 1 -> 0 <= cum ps i /\ cum ps i < 1.
Proof. exact reachable_u_in_range. Qed.
Print Assumptions C12_reachable_u_in_range.

(* the scan is defined for every u below the total mass ... *)
Theorem C12_scan_total : forall ps u, nonneg ps -> 0 <= u -> u < cum ps (length ps) -> exists i, qscan ps u = Some i.
Proof. exact scan_total. Qed.
Print Assumptions C12_scan_total.

(* ... and when rounding leaves the total below u, the repaired code falls back to the last
   positive-probability outcome, so a zero-probability outcome is still never returned *)
Theorem C12_sample1_fallback : forall ps u, qscan ps u = None -> qsample1 ps u = qlast_positive ps.
Proof. exact sample1_fallback. Qed.
Print Assumptions C12_sample1_fallback.

Theorem C12_sample1_never_zero : forall ps u, nonneg ps -> 0 <= u ->
  (exists i, (i < length ps)%nat /\ 0 < nth i ps 0) -> 0 < nth (qsample1 ps u) ps 0.
Proof. exact sample1_never_zero. Qed.
Print Assumptions C12_sample1_never_zero.

(* generators: drawing n then m numbers is drawing n+m; a draw consumes exactly n uniforms *)
Theorem C12_rand_gen_split : forall {T} (sample : list T -> T -> nat) ps st n m,
  rand_gen sample ps st (n + m) =
  (fst (rand_gen sample ps st n) ++ fst (rand_gen sample ps (snd (rand_gen sample ps st n)) m),
   snd (rand_gen sample ps (snd (rand_gen sample ps st n)) m)).
Proof. exact @rand_gen_split. Qed.
Print Assumptions C12_rand_gen_split.

Theorem C12_rand_gen_length : forall {T} (sample : list T -> T -> nat) ps st n, (n <= length st)%nat ->
  length (fst (rand_gen sample ps st n)) = n /\ length (snd (rand_gen sample ps st n)) = (length st - n)%nat.
Proof. exact @rand_gen_length. Qed.
Print Assumptions C12_rand_gen_length.

(* ------------------------------------------------------------------------------------------ *)
(* Tie to the source by translation: the functions of dit/math/sampling.py, translated from /repo's
   current source on every run (Gen/Sampling_Gen.v) into the deep-embedded language of Core/PyLang.v,
   compute the model above for every pmf and every random number, over any numeric carrier whose
   [ofZ 0] is its zero (exact rationals and binary64 floats alike). *)
Theorem C12_source_last_positive_is_model :
  forall (T : Type) add sub mul ltb leb eqb (ofZ : Z -> T) zero, ofZ 0%Z = zero ->
  forall ps, ps <> [] ->
  run add sub mul ltb leb eqb ofZ fenv0 sampling_last_positive [VArr (vlist ps)] =
  Some (VInt (Z.of_nat (last_positive ltb zero ps))).
Proof.
  intros T add sub mul ltb leb eqb ofZ zero H0 ps Hne.
  rewrite (last_positive_run add sub mul ltb leb eqb ofZ zero H0).
  rewrite (lp_value_model ltb zero) by exact Hne. reflexivity.
Qed.
Print Assumptions C12_source_last_positive_is_model.

Theorem C12_source_sample_is_model :
  forall (T : Type) add sub mul ltb leb eqb (ofZ : Z -> T) zero, ofZ 0%Z = zero ->
  forall ps u, ps <> [] ->
  run add sub mul ltb leb eqb ofZ (fenv1 add sub mul ltb leb eqb ofZ) sampling_sample_discrete_python
      [VArr (vlist ps); VNum u] =
  Some (VInt (Z.of_nat (sample1 add ltb zero ps u))).
Proof. exact @sample_discrete_model. Qed.
Print Assumptions C12_source_sample_is_model.

Theorem C12_source_samples_is_model :
  forall (T : Type) add sub mul ltb leb eqb (ofZ : Z -> T) zero, ofZ 0%Z = zero ->
  forall ps us, ps <> [] ->
  run add sub mul ltb leb eqb ofZ (fenv1 add sub mul ltb leb eqb ofZ) sampling_samples_discrete_python
      [VArr (vlist ps); VArr (vlist us); VNone] =
  Some (VArr (map (fun u => VInt (Z.of_nat (sample1 add ltb zero ps u))) us)).
Proof. exact @samples_discrete_model. Qed.
Print Assumptions C12_source_samples_is_model.

(* hence, read over the exact rationals, the translated source returns the index whose cumulative
   interval contains u *)
Theorem C12_source_samples_interval : forall ps us k u i, nonneg ps -> 0 <= u -> ps <> [] ->
  nth_error us k = Some u -> qscan ps u = Some i ->
  exists l, run Qplus Qminus Qmult (fun a b => negb (Qle_bool b a)) Qle_bool Qeq_bool inject_Z
                (fenv1 Qplus Qminus Qmult (fun a b => negb (Qle_bool b a)) Qle_bool Qeq_bool inject_Z)
                sampling_samples_discrete_python [VArr (vlist ps); VArr (vlist us); VNone] = Some (VArr l) /\
            nth_error l k = Some (VInt (Z.of_nat i)) /\
            (i < length ps)%nat /\ cum ps i <= u /\ u < cum ps (S i).
Proof.
  intros ps us k u i Hn Hu Hne Hk Hs.
  eexists. split.
  - apply (samples_discrete_model Qplus Qminus Qmult (fun a b => negb (Qle_bool b a)) Qle_bool Qeq_bool inject_Z 0 eq_refl ps us Hne).
  - split.
    + rewrite nth_error_map, Hk. cbn [option_map]. unfold sample1. fold qscan. rewrite Hs. reflexivity.
    + apply scan_interval; assumption.
Qed.
Print Assumptions C12_source_samples_interval.

(* non-vacuity: a concrete run of the translated source over Q (pmf 1/4, 0, 1/2, 1/4; u = 0, 1/4, 3/4, 1 - 2^-60 and a
   u above the total of a deficient pmf, which takes the fall-back) *)
Example C12_source_run_example :
  run Qplus Qminus Qmult (fun a b => negb (Qle_bool b a)) Qle_bool Qeq_bool inject_Z
      (fenv1 Qplus Qminus Qmult (fun a b => negb (Qle_bool b a)) Qle_bool Qeq_bool inject_Z)
      sampling_samples_discrete_python
      [VArr (vlist [1#4; 0; 1#2; 1#4]); VArr (vlist [0; 1#4; 3#4; 1 - (1#1152921504606846976)]); VNone]
  = Some (VArr [VInt 0%Z; VInt 2%Z; VInt 3%Z; VInt 3%Z]) /\
  run Qplus Qminus Qmult (fun a b => negb (Qle_bool b a)) Qle_bool Qeq_bool inject_Z
      (fenv1 Qplus Qminus Qmult (fun a b => negb (Qle_bool b a)) Qle_bool Qeq_bool inject_Z)
      sampling_samples_discrete_python
      [VArr (vlist [1#4; 1#2; 0]); VArr (vlist [7#8]); VNone]
  = Some (VArr [VInt 1%Z]).
Proof. split; vm_compute; reflexivity. Qed.
