(* Props/C12.v — property C12: sampling is exact inverse-CDF selection in stored outcome order. *)
From Verif Require Import Prelude C12_Model C12_Proofs.
From Coq Require Import Lqa.
Open Scope Q_scope.

(* the returned index is the one whose cumulative interval [F(i-1), F(i)) contains u *)
Theorem C12_scan_interval : forall ps u i, nonneg ps -> 0 <= u -> qscan ps u = Some i ->
  (i < length ps)%nat /\ cum ps i <= u /\ u < cum ps (S i).
Proof. exact scan_interval. Qed.
Print Assumptions C12_scan_interval.

Theorem C12_scan_unique : forall ps u i, nonneg ps -> 0 <= u -> (i < length ps)%nat ->
  cum ps i <= u -> u < cum ps (S i) -> qscan ps u = Some i.
Proof. exact scan_unique. Qed.
Print Assumptions C12_scan_unique.

(* an outcome of zero probability is never returned *)
Theorem C12_scan_skips_zero : forall ps u i, nonneg ps -> 0 <= u -> qscan ps u = Some i -> 0 < nth i ps 0.
Proof. exact scan_skips_zero. Qed.
Print Assumptions C12_scan_skips_zero.

(* every positive-probability outcome is returned for some u in [0,1) *)
Theorem C12_scan_positive_reachable : forall ps i, nonneg ps -> (i < length ps)%nat -> 0 < nth i ps 0 ->
  qscan ps (cum ps i) = Some i.
Proof. exact scan_positive_reachable. Qed.
Print Assumptions C12_scan_positive_reachable.

Theorem C12_reachable_u_in_range : forall ps i, nonneg ps -> (i < length ps)%nat -> 0 < nth i ps 0 ->
  cum ps (length ps) <= 1 -> 0 <= cum ps i /\ cum ps i < 1.
Proof. exact reachable_u_in_range. Qed.
Print Assumptions C12_reachable_u_in_range.

(* the scan is defined for every u below the total mass ... *)
Theorem C12_scan_total : forall ps u, nonneg ps -> 0 <= u -> u < cum ps (length ps) -> exists i, qscan ps u = Some i.
Proof. exact scan_total. Qed.
Print Assumptions C12_scan_total.

(* ... and when rounding leaves the total below u, the repaired code falls back to the last
   positive-probability outcome, so a zero-probability outcome is still never returned *)
Theorem C12_sample1_fallback : forall ps u, qscan ps u = None -> qsample1 ps u = qlast_positive ps.
Proof. exact sample1_fallback. Qed.
Print Assumptions C12_sample1_fallback.

Theorem C12_sample1_never_zero : forall ps u, nonneg ps -> 0 <= u ->
  (exists i, (i < length ps)%nat /\ 0 < nth i ps 0) -> 0 < nth (qsample1 ps u) ps 0.
Proof. exact sample1_never_zero. Qed.
Print Assumptions C12_sample1_never_zero.

(* generators: drawing n then m numbers is drawing n+m; a draw consumes exactly n uniforms *)
Theorem C12_rand_gen_split : forall {T} (sample : list T -> T -> nat) ps st n m,
  rand_gen sample ps st (n + m) =
  (fst (rand_gen sample ps st n) ++ fst (rand_gen sample ps (snd (rand_gen sample ps st n)) m),
   snd (rand_gen sample ps (snd (rand_gen sample ps st n)) m)).
Proof. exact @rand_gen_split. Qed.
Print Assumptions C12_rand_gen_split.

Theorem C12_rand_gen_length : forall {T} (sample : list T -> T -> nat) ps st n, (n <= length st)%nat ->
  length (fst (rand_gen sample ps st n)) = n /\ length (snd (rand_gen sample ps st n)) = (length st - n)%nat.
Proof. exact @rand_gen_length. Qed.
Print Assumptions C12_rand_gen_length.
