(* Props/C13.v — property C13: Blahut-Arimoto results are certified optima.
   Soundness of the certificates the check evaluates on dit's results: the KKT / dual upper bound on the channel
   capacity, Berger's dual lower bound on rate + beta * distortion over ALL test channels, monotonicity of optimal
   (rate, distortion) points along beta, and the closed forms (symmetric, erasure, noiseless, useless channels). *)
From Verif Require Import Info.
From Verif Require Import Info_Proofs Measures C13_Model C13_Proofs.
Open Scope R_scope.

(* if every letter's divergence D(P_x || q) is at most V, no input distribution achieves more than V *)
Theorem C13_capacity_upper_bound : forall m (P : chan) (q r' : list Q) (V : R),
  forallb (fun row => Nat.eqb (length row) m && nonneg_l row) P = true ->
  length q = m -> nonneg_l q = true -> all_dominated P q = true ->
  length r' = length P -> nonneg_l r' = true -> (qsum r' == 1)%Q ->
  (qsum q <= qsum (out_dist m P r'))%Q ->
  (forall row, In row P -> rden (letter_div_data row q) <= V) ->
  rden (mi_chan_data m P r') <= V.
Proof. exact capacity_upper_bound. Qed.
Print Assumptions C13_capacity_upper_bound.

Theorem C13_capacity_upper_bound_stochastic : forall m (P : chan) (q r' : list Q) (V : R),
  forallb (fun row => Nat.eqb (length row) m && nonneg_l row) P = true ->
  length q = m -> nonneg_l q = true -> all_dominated P q = true ->
  length r' = length P -> nonneg_l r' = true ->
  (forall row, In row P -> (qsum row == 1)%Q) -> (qsum q <= 1)%Q -> (qsum r' == 1)%Q ->
  (forall row, In row P -> rden (letter_div_data row q) <= V) ->
  rden (mi_chan_data m P r') <= V.
Proof. exact capacity_upper_bound_stochastic. Qed.
Print Assumptions C13_capacity_upper_bound_stochastic.

(* for ANY test channel W: rate + beta * distortion >= sum_x p_x log2 lambda_x when lambda is dual feasible *)
Theorem C13_rd_dual_bound : forall (p lam : list Q) (beta : Q) (d : matrix) (m : nat) (W : nat -> nat -> R),
  length lam = length p -> nonneg_l p = true -> all_pos lam = true ->
  length d = length p ->
  (forall y, (y < m)%nat -> rden (dual_feas_data p lam beta (column y d)) <= 1) ->
  (forall x y, 0 <= W x y) -> (forall x, (x < length p)%nat -> rsumf m (W x) = 1) ->
  rden (dual_value_data p lam) <= w_rate p m W + Q2R beta * w_dist p m d W.
Proof. exact rd_dual_bound_gen. Qed.
Print Assumptions C13_rd_dual_bound.

(* optimal points move monotonically along beta (dl = 0: exactly) *)
Theorem C13_lagrangian_monotone : forall (b1 b2 R1 D1 R2 D2 dl : Q),
  (0 <= b1 -> b1 < b2 -> 0 <= dl -> R1 + b1 * D1 <= R2 + b1 * D2 + dl -> R2 + b2 * D2 <= R1 + b2 * D1 + dl ->
   (b2 - b1) * (D2 - D1) <= 2 * dl /\ (b2 - b1) * (R1 - R2) <= (b1 + b2) * dl)%Q.
Proof. exact lagrangian_monotone. Qed.
Print Assumptions C13_lagrangian_monotone.

(* closed forms *)
Theorem C13_bsc_uniform_rate : forall e, (0 < e)%Q -> (e < 1)%Q ->
  rden (mi_chan_data 2 (bsc e) [1#2; 1#2]%Q) = 1 - rden (h2_data e).
Proof. exact bsc_uniform_rate. Qed.
Print Assumptions C13_bsc_uniform_rate.
Theorem C13_bsc_capacity : forall e r', (0 < e)%Q -> (e < 1)%Q -> length r' = 2%nat -> nonneg_l r' = true -> (qsum r' == 1)%Q ->
  rden (mi_chan_data 2 (bsc e) r') <= 1 - rden (h2_data e).
Proof. exact bsc_capacity. Qed.
Print Assumptions C13_bsc_capacity.
Theorem C13_bec_capacity : forall e r', (0 < e)%Q -> (e < 1)%Q -> length r' = 2%nat -> nonneg_l r' = true -> (qsum r' == 1)%Q ->
  rden (mi_chan_data 3 (bec e) r') <= Q2R (1 - e).
Proof. exact bec_capacity. Qed.
Print Assumptions C13_bec_capacity.
Theorem C13_useless_capacity : forall m P row r', (forall x, In x P -> x = row) ->
  forallb (fun row => Nat.eqb (length row) m && nonneg_l row) P = true ->
  length r' = length P -> nonneg_l r' = true -> (qsum r' == 1)%Q -> rden (mi_chan_data m P r') <= 0.
Proof. exact useless_capacity. Qed.
Print Assumptions C13_useless_capacity.
Theorem C13_noiseless3_capacity : forall r', length r' = 3%nat -> nonneg_l r' = true -> (qsum r' == 1)%Q ->
  rden (mi_chan_data 3 noiseless3 r') <= log2 3.
Proof. exact noiseless3_capacity. Qed.
Print Assumptions C13_noiseless3_capacity.

(* closed forms for channels of any size (Proofs/C13_Closed.v) *)
From Verif Require Import C13_Closed.
From Coq Require Import Permutation.
Theorem C13_noiseless_capacity : forall n r', (0 < n)%nat -> length r' = n -> nonneg_l r' = true -> (qsum r' == 1)%Q ->
  rden (mi_chan_data n (identity_chan n) r') <= log2 (INR n).
Proof. exact noiseless_capacity. Qed.
Print Assumptions C13_noiseless_capacity.
Theorem C13_noiseless_uniform_rate : forall n, (0 < n)%nat -> rden (mi_chan_data n (identity_chan n) (C13_Closed.unif n)) = log2 (INR n).
Proof. exact noiseless_uniform_rate. Qed.
Print Assumptions C13_noiseless_uniform_rate.
(* symmetric channels: every row a permutation of one row *)
Theorem C13_symmetric_capacity : forall m (P : chan) (row r' : list Q),
  (forall x, In x P -> Permutation row x) -> length row = m -> (0 < m)%nat -> nonneg_l row = true -> (qsum row == 1)%Q ->
  length r' = length P -> nonneg_l r' = true -> (qsum r' == 1)%Q ->
  rden (mi_chan_data m P r') <= log2 (INR m) - entropy_list row.
Proof. exact symmetric_capacity. Qed.
Print Assumptions C13_symmetric_capacity.
