(* Props/C01.v — property C01: construction yields exactly the specified table, or is rejected. *)
From Verif Require Import Dist Dist_Proofs C01_Model C01_Proofs.
Open Scope Q_scope.

Theorem C01_accepted_is_built : forall s d,
  (construct s = Ok d \/ exists e, construct s = OkOrErr d e) -> built s d.
Proof. exact construct_built. Qed.
Print Assumptions C01_accepted_is_built.

Theorem C01_lookup_specified : forall s d o v,
  built s d -> NoDup (sp_outs s) -> NoDup (ss_enum (d_ss d)) ->
  In (o, v) (combine (sp_outs s) (sp_vals s)) ->
  lookup d o = Some v \/
  (sp_sparse s = true /\ sp_trim s = true /\ is_null (d_base d) v = true /\ lookup d o = Some 0).
Proof. exact construct_lookup_specified. Qed.
Print Assumptions C01_lookup_specified.

Theorem C01_lookup_unspecified : forall s d o,
  built s d -> NoDup (ss_enum (d_ss d)) -> ~ In o (sp_outs s) ->
  lookup d o = if ss_mem (d_ss d) o then Some 0 else None.
Proof. exact construct_lookup_unspecified. Qed.
Print Assumptions C01_lookup_unspecified.

Theorem C01_WF : forall s d, built s d -> NoDup (ss_enum (d_ss d)) -> WF d.
Proof. exact construct_WF. Qed.
Print Assumptions C01_WF.

Theorem C01_trimmed_has_no_null : forall s d o v,
  built s d -> sp_sparse s = true -> sp_trim s = true -> In (o, v) (d_tbl d) -> is_null (d_base d) v = false.
Proof. exact construct_trimmed. Qed.
Print Assumptions C01_trimmed_has_no_null.

Theorem C01_dense_is_complete : forall s d,
  built s d -> sp_sparse s = false -> keys (d_tbl d) = ss_enum (d_ss d).
Proof. exact construct_dense. Qed.
Print Assumptions C01_dense_is_complete.

Theorem C01_reject_invalid_base : forall s, sp_base s = BInvalid -> construct s = Err EInvalidBase.
Proof. exact reject_invalid_base. Qed.
Print Assumptions C01_reject_invalid_base.

Theorem C01_reject_length_mismatch : forall s,
  sp_base s <> BInvalid -> length (sp_outs s) <> length (sp_vals s) -> construct s = Err EInvalidDistribution.
Proof. exact reject_length_mismatch. Qed.
Print Assumptions C01_reject_length_mismatch.

Theorem C01_reject_empty : forall s,
  sp_base s <> BInvalid -> sp_outs s = [] -> sp_vals s = [] -> sp_ss s = SSNone ->
  construct s = Err EInvalidDistribution.
Proof. exact reject_empty. Qed.
Print Assumptions C01_reject_empty.

Theorem C01_reject_ragged : forall s b,
  resolve_base s = Some b -> length (sp_outs s) = length (sp_vals s) -> sp_outs s <> [] ->
  sp_joint s = true -> sp_ss s = SSNone -> same_lengths (sp_outs s) = false ->
  construct s = Err EDitException.
Proof. exact reject_ragged. Qed.
Print Assumptions C01_reject_ragged.

Theorem C01_reject_outside : forall s b ss a,
  resolve_base s = Some b -> length (sp_outs s) = length (sp_vals s) ->
  (sp_outs s <> [] \/ sp_ss s <> SSNone) ->
  resolve_ss s = Some (ss, a) -> all_in_ss ss (combine (sp_outs s) (sp_vals s)) = false ->
  construct s = Err EInvalidOutcome.
Proof. exact reject_outside. Qed.
Print Assumptions C01_reject_outside.

Theorem C01_reject_unnormalised : forall s b ss a,
  resolve_base s = Some b -> length (sp_outs s) = length (sp_vals s) ->
  (sp_outs s <> [] \/ sp_ss s <> SSNone) ->
  resolve_ss s = Some (ss, a) -> all_in_ss ss (combine (sp_outs s) (sp_vals s)) = true ->
  norm_ok b (mass (if sp_sparse s
                   then (if sp_trim s then trim b (reorder ss (combine (sp_outs s) (sp_vals s)))
                         else reorder ss (combine (sp_outs s) (sp_vals s)))
                   else dense_of ss (reorder ss (combine (sp_outs s) (sp_vals s))))) = No ->
  construct s = Err EInvalidNormalization.
Proof. exact reject_unnormalised. Qed.
Print Assumptions C01_reject_unnormalised.

Theorem C01_range_test_linear : forall p,
  prob_ok Linear p = No <-> (p < - null_tol \/ 1 + (1#100000000) + (1#100000) < p).
Proof. exact prob_ok_linear. Qed.
Print Assumptions C01_range_test_linear.

Theorem C01_norm_test_linear : forall t,
  norm_ok Linear t = Yes <-> (- ((1#100000000) + (1#100000)) <= t - 1 <= (1#100000000) + (1#100000)).
Proof. exact norm_ok_linear. Qed.
Print Assumptions C01_norm_test_linear.
