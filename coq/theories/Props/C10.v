(* Props/C10.v — property C10: queries and measures are pure and repeatable.
   The theorems are about the transcribed effect skeletons over the C09 store machine; that dit follows
   them is sampled by the correspondence run (snapshots of every argument and of ditParams). *)
From Verif Require Import Dist C01_Model C09_Model C09_Proofs C10_Model C10_Proofs.
Open Scope Q_scope.

(* one operation that targets an object the call allocated itself (or a copy) leaves the arguments untouched *)
Theorem C10_step_preserves_arguments : forall s o n0,
  (forall l, is_mutating o = Some l -> (n0 <= l)%nat) -> (n0 <= length s)%nat ->
  firstn n0 (fst (step s o)) = firstn n0 s.
Proof. exact step_preserves_below. Qed.
Print Assumptions C10_step_preserves_arguments.

(* any well-scoped skeleton, of any length, leaves every argument object unchanged *)
Theorem C10_skeleton_frame : forall ops s n0, (n0 <= length s)%nat ->
  well_scoped n0 (length s) ops = true -> firstn n0 (run10 s ops) = firstn n0 s.
Proof. exact skeleton_frame. Qed.
Print Assumptions C10_skeleton_frame.

Theorem C10_arguments_unchanged : forall s ops,
  well_scoped (length s) (length s) ops = true -> firstn (length s) (run10 s ops) = s.
Proof. exact arguments_unchanged. Qed.
Print Assumptions C10_arguments_unchanged.

(* the skeletons transcribed from dit are all well scoped, hence pure *)
Theorem C10_all_skeletons_well_scoped : forallb (well_scoped 1 1) all_skeletons = true.
Proof. exact all_skeletons_well_scoped. Qed.
Print Assumptions C10_all_skeletons_well_scoped.

Theorem C10_skeletons_pure : forall ob sk, In sk all_skeletons -> firstn 1 (run10 [ob] sk) = [ob].
Proof. exact skeletons_pure. Qed.
Print Assumptions C10_skeletons_pure.

(* composition: calls run one after another are one longer skeleton; nothing is ever removed *)
Theorem C10_run_app : forall s ops1 ops2, run10 s (ops1 ++ ops2) = run10 (run10 s ops1) ops2.
Proof. exact run10_app. Qed.
Print Assumptions C10_run_app.

Theorem C10_run_length : forall s ops, (length s <= length (run10 s ops))%nat.
Proof. exact run10_length. Qed.
Print Assumptions C10_run_length.

(* the in-place skeleton prepare_dist used before its repair is rejected by the scope check *)
Theorem C10_in_place_skeleton_is_caught : well_scoped 1 1 [MakeDense 0%nat] = false.
Proof. exact in_place_skeleton_is_caught. Qed.
Print Assumptions C10_in_place_skeleton_is_caught.
