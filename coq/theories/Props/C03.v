(* Props/C03.v — property C03: conditioning factorises the joint, P(c)P(r|c)=P(c,r); factors recombine. *)
From Verif Require Import Dist Dist_Proofs C01_Model C02_Model C02_Proofs C03_Model C03_Proofs C03_Norm.
Open Scope Q_scope.

(* crvs and rvs must be valid and disjoint *)
Theorem C03_overlap_rejected : forall cs s d cidx idx,
  parse_rvs d cs true true = Some cidx -> parse_rvs d s true true = Some idx ->
  existsb (fun i => nat_mem i cidx) idx = true -> condition_on cs (Some s) d = None.
Proof. exact cond_overlap_rejected. Qed.
Print Assumptions C03_overlap_rejected.

Theorem C03_bad_selection_rejected : forall cs rs d,
  parse_rvs d cs true true = None -> condition_on cs rs d = None.
Proof. exact cond_bad_selection_rejected. Qed.
Print Assumptions C03_bad_selection_rejected.

(* one conditional per stored conditioning value, in order; stored conditioning values are non-null *)
Theorem C03_one_row_per_stored_value : forall cs rs d cr, condition_on cs rs d = Some cr ->
  length (cr_conds cr) = length (d_tbl (cr_cdist cr)).
Proof. exact cond_one_row_per_stored_value. Qed.
Print Assumptions C03_one_row_per_stored_value.

Theorem C03_cdist_nonnull : forall cs rs d cr c pc,
  condition_on cs rs d = Some cr -> In (c, pc) (d_tbl (cr_cdist cr)) ->
  is_null (d_base d) pc = false /\ ~ pc == 0.
Proof. exact cond_cdist_nonnull. Qed.
Print Assumptions C03_cdist_nonnull.

Theorem C03_rows_meta : forall cs rs d cr c, condition_on cs rs d = Some cr -> In c (cr_conds cr) ->
  d_base c = d_base d /\ d_sparse c = d_sparse d.
Proof. exact cond_rows_meta. Qed.
Print Assumptions C03_rows_meta.

(* chain rule: marginal times conditional equals the joint marginal, for every outcome *)
Theorem C03_chain : forall cs rs d cr k c pc cd r v,
  condition_on cs rs d = Some cr ->
  nth_error (d_tbl (cr_cdist cr)) k = Some (c, pc) -> nth_error (cr_conds cr) k = Some cd ->
  NoDup (ss_enum (d_ss cd)) ->
  lookup cd r = Some v ->
  In r (keys (d_tbl (coalesce_flat (cr_idx cr) (cr_joint cr)))) ->
  pc * v == get0 (merge (cr_n cr) (cr_cidx cr) (cr_idx cr) c r) (d_tbl (cr_joint cr)) \/
  (d_sparse d = true /\ v == 0 /\
   is_null (d_base d) (get0 (merge (cr_n cr) (cr_cidx cr) (cr_idx cr) c r) (d_tbl (cr_joint cr)) / pc) = true).
Proof. exact cond_chain'. Qed.
Print Assumptions C03_chain.

Theorem C03_unstored_zero : forall cs rs d cr k c pc cd r v,
  condition_on cs rs d = Some cr ->
  nth_error (d_tbl (cr_cdist cr)) k = Some (c, pc) -> nth_error (cr_conds cr) k = Some cd ->
  NoDup (ss_enum (d_ss cd)) -> lookup cd r = Some v ->
  ~ In r (keys (d_tbl (coalesce_flat (cr_idx cr) (cr_joint cr)))) ->
  ss_mem (d_ss cd) r = true ->
  v == 0.
Proof. exact cond_unstored_zero. Qed.
Print Assumptions C03_unstored_zero.

(* recombination: every entry joint_from_factors builds is the joint value at the merged outcome *)
Theorem C03_jff_pairs_chain : forall cs rs d cr o p,
  condition_on cs rs d = Some cr -> In (o, p) (jff_pairs cr) ->
  exists c pc cd r v,
    In (c, pc) (d_tbl (cr_cdist cr)) /\ In cd (cr_conds cr) /\ In (r, v) (d_tbl cd) /\
    o = merge (cr_n cr) (cr_cidx cr) (cr_idx cr) c r /\ p = pc * v /\
    (d_sparse d = true \/ In r (keys (d_tbl (coalesce_flat (cr_idx cr) (cr_joint cr)))) ->
     p == get0 o (d_tbl (cr_joint cr))) /\
    (~ In r (keys (d_tbl (coalesce_flat (cr_idx cr) (cr_joint cr)))) -> p == 0).
Proof. exact jff_pairs_chain. Qed.
Print Assumptions C03_jff_pairs_chain.

(* ------------------------------------------------------------------------------------------ *)
(* every conditional is normalised (Proofs/C03_Norm.v): for a well-formed non-negative table the row of joint
   values of a stored conditioning value sums to its marginal, so a dense row has mass exactly 1 and a sparse
   row has mass 1 minus what trimming removed (nothing in a log base; at most null_tol per kept outcome) *)
Theorem C03_row_joint_sum : forall cs rs d cr k c pc,
  cond_wf d ->
  condition_on cs rs d = Some cr ->
  nth_error (d_tbl (cr_cdist cr)) k = Some (c, pc) ->
  qsum (map (fun r => get0 (merge (cr_n cr) (cr_cidx cr) (cr_idx cr) c r) (d_tbl (cr_joint cr)))
            (keys (d_tbl (coalesce_flat (cr_idx cr) (cr_joint cr))))) == pc.
Proof. exact cond_row_joint_sum. Qed.
Print Assumptions C03_row_joint_sum.

Theorem C03_row_mass_dense : forall cs rs d cr k c pc cd,
  cond_wf d ->
  condition_on cs rs d = Some cr ->
  nth_error (d_tbl (cr_cdist cr)) k = Some (c, pc) -> nth_error (cr_conds cr) k = Some cd ->
  d_sparse d = false ->
  mass (d_tbl cd) == 1.
Proof. exact cond_row_mass_dense. Qed.
Print Assumptions C03_row_mass_dense.

Theorem C03_row_mass_sparse : forall cs rs d cr k c pc cd,
  cond_wf d ->
  condition_on cs rs d = Some cr ->
  nth_error (d_tbl (cr_cdist cr)) k = Some (c, pc) -> nth_error (cr_conds cr) k = Some cd ->
  d_sparse d = true ->
  mass (d_tbl cd) ==
  1 - qsum (map (fun r => get0 (merge (cr_n cr) (cr_cidx cr) (cr_idx cr) c r) (d_tbl (cr_joint cr)) / pc)
                (filter (fun r => is_null (d_base d)
                                    (get0 (merge (cr_n cr) (cr_cidx cr) (cr_idx cr) c r) (d_tbl (cr_joint cr)) / pc))
                        (keys (d_tbl (coalesce_flat (cr_idx cr) (cr_joint cr)))))).
Proof. exact cond_row_mass_sparse. Qed.
Print Assumptions C03_row_mass_sparse.

Theorem C03_row_mass_sparse_log : forall cs rs d cr k c pc cd,
  cond_wf d ->
  condition_on cs rs d = Some cr ->
  nth_error (d_tbl (cr_cdist cr)) k = Some (c, pc) -> nth_error (cr_conds cr) k = Some cd ->
  d_sparse d = true -> d_base d <> Linear ->
  mass (d_tbl cd) == 1.
Proof. exact cond_row_mass_sparse_log. Qed.
Print Assumptions C03_row_mass_sparse_log.

Theorem C03_row_mass_sparse_bounds : forall cs rs d cr k c pc cd,
  cond_wf d ->
  condition_on cs rs d = Some cr ->
  nth_error (d_tbl (cr_cdist cr)) k = Some (c, pc) -> nth_error (cr_conds cr) k = Some cd ->
  d_sparse d = true ->
  1 - null_tol * inject_Z (Z.of_nat (length (d_tbl (coalesce_flat (cr_idx cr) (cr_joint cr)))))
    <= mass (d_tbl cd) /\ mass (d_tbl cd) <= 1.
Proof. exact cond_row_mass_sparse_bounds. Qed.
Print Assumptions C03_row_mass_sparse_bounds.

