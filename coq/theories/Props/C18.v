(* Props/C18.v — property C18: information profiles and partitions account for all of the information.
   For 2, 3 and 4 variables (the property's range) and EVERY set function h: identities between formal
   entropy combinations, decided by normalisation (vm_compute) and lifted to the reals. *)
From Verif Require Import Info.
From Verif Require Import Measures C05_Algebra C05_Merge C18_Model C18_Proofs.
Open Scope R_scope.

(* atoms sum to the joint entropy *)
Theorem C18_atoms_sum_joint_2 : forall h, heval h (concat (map snd (partition_atoms 2))) = h (range 2) - h [].
Proof. exact atoms_sum_joint_2. Qed.
Print Assumptions C18_atoms_sum_joint_2.
Theorem C18_atoms_sum_joint_3 : forall h, heval h (concat (map snd (partition_atoms 3))) = h (range 3) - h [].
Proof. exact atoms_sum_joint_3. Qed.
Print Assumptions C18_atoms_sum_joint_3.
Theorem C18_atoms_sum_joint_4 : forall h, heval h (concat (map snd (partition_atoms 4))) = h (range 4) - h [].
Proof. exact atoms_sum_joint_4. Qed.
Print Assumptions C18_atoms_sum_joint_4.

(* each atom is the conditional co-information of its variables given all the others *)
Theorem C18_atom_is_conditional_coinformation_3 : forall h A,
  In A (filter (fun A => negb (Nat.eqb (length A) 0)) (subsets 3)) ->
  heval h (atom_of 3 A) = heval h (cmi_terms 3 (map (fun a => [a]) A) (ndiff (range 3) A)).
Proof. exact atom_is_conditional_coinformation_3. Qed.
Print Assumptions C18_atom_is_conditional_coinformation_3.

(* any entropy or (conditional) mutual information is recovered as the sum of the atoms it covers *)
Theorem C18_cover_sum_recovers_2 : forall h gs cr, h [] = 0 -> In (gs, cr) (queries 2) ->
  heval h (cover_terms 2 gs cr) = heval h (cmi_terms 2 gs cr).
Proof. exact cover_sum_recovers_2. Qed.
Print Assumptions C18_cover_sum_recovers_2.
Theorem C18_cover_sum_recovers_3 : forall h gs cr, h [] = 0 -> In (gs, cr) (queries 3) ->
  heval h (cover_terms 3 gs cr) = heval h (cmi_terms 3 gs cr).
Proof. exact cover_sum_recovers_3. Qed.
Print Assumptions C18_cover_sum_recovers_3.
Theorem C18_cover_sum_recovers_4 : forall h gs cr, h [] = 0 -> In (gs, cr) (queries 4) ->
  heval h (cover_terms 4 gs cr) = heval h (cmi_terms 4 gs cr).
Proof. exact cover_sum_recovers_4. Qed.
Print Assumptions C18_cover_sum_recovers_4.

(* complexity profile: scale 1 is the joint entropy, the scales sum to the sum of the marginal entropies *)
Theorem C18_profile_scale1_3 : forall h, h [] = 0 -> heval h (profile_terms 3 1) = h (range 3).
Proof. exact profile_scale1_3. Qed.
Print Assumptions C18_profile_scale1_3.
Theorem C18_profile_scale1_4 : forall h, h [] = 0 -> heval h (profile_terms 4 1) = h (range 4).
Proof. exact profile_scale1_4. Qed.
Print Assumptions C18_profile_scale1_4.
Theorem C18_profile_total_3 : forall h, h [] = 0 ->
  rsum (map (fun k => heval h (profile_terms 3 k)) (seq 1 3)) = rsum (map (fun i => h [i]) (range 3)).
Proof. exact profile_total_3. Qed.
Print Assumptions C18_profile_total_3.
Theorem C18_profile_total_4 : forall h, h [] = 0 ->
  rsum (map (fun k => heval h (profile_terms 4 k)) (seq 1 4)) = rsum (map (fun i => h [i]) (range 4)).
Proof. exact profile_total_4. Qed.
Print Assumptions C18_profile_total_4.

(* entropy-triangle points sum to one *)
Theorem C18_triangle1_sum : forall d, rden (log_alphabets d) <> 0 ->
  rden (triangle1 d 0) + rden (triangle1 d 1) + rden (triangle1 d 2) = 1.
Proof. exact triangle1_sum. Qed.
Print Assumptions C18_triangle1_sum.
