(* Props/C20.v — property C20: simplex utilities stay on the simplex and invert each other. *)
From Verif Require Import Info.
From Verif Require Import C20_Model C20_Proofs.
Open Scope R_scope.

(* closure, perturbation and power return normalised compositions *)
Theorem C20_closure_sum : forall x, posv x -> x <> [] -> rsum (rclosure x) = 1.
Proof. exact rclosure_sum. Qed.
Print Assumptions C20_closure_sum.

Theorem C20_perturbation_sum : forall x dx, posv x -> posv dx -> length x = length dx -> x <> [] ->
  rsum (rclosure (map2 Rmult x dx)) = 1.
Proof. exact perturbation_sum. Qed.
Print Assumptions C20_perturbation_sum.

Theorem C20_power_sum : forall x a, posv x -> x <> [] -> rsum (rclosure (map (fun v => Rpower v a) x)) = 1.
Proof. exact power_sum. Qed.
Print Assumptions C20_power_sum.

(* clr and alr are inverted by clr_inv and alr_inv on every strictly positive composition *)
Theorem C20_clr_inv_clr : forall x, posv x -> x <> [] -> rclr_inv (rclr x) = rclosure x.
Proof. exact clr_inv_clr. Qed.
Print Assumptions C20_clr_inv_clr.

Theorem C20_alr_inv_alr : forall x, posv x -> x <> [] -> ralr_inv (ralr x) = rclosure x.
Proof. exact alr_inv_alr. Qed.
Print Assumptions C20_alr_inv_alr.

Theorem C20_clr_sum_zero : forall x, posv x -> x <> [] -> rsum (rclr x) = 0.
Proof. exact rclr_sum_zero. Qed.
Print Assumptions C20_clr_sum_zero.

(* the component expressions used in the correspondence denote those transforms *)
Theorem C20_clr_model_link : forall x i, (i < length x)%nat -> rden (clr_i x i) = nth i (rclr (map Q2R x)) 0.
Proof. exact clr_i_rclr. Qed.
Print Assumptions C20_clr_model_link.

(* ilr is an isometry for the Aitchison distance: proved for 2 and 3 parts (general dimension: checked per instance) *)
Theorem C20_ilr_isometry_3_partial : forall x0 x1 x2 y0 y1 y2,
  rden (adist [x0;x1;x2] [y0;y1;y2]) =
  sqrt ((rden (ilr_k [x0;x1;x2] 1) - rden (ilr_k [y0;y1;y2] 1))^2 + (rden (ilr_k [x0;x1;x2] 2) - rden (ilr_k [y0;y1;y2] 2))^2).
Proof. exact adist_ilr_3. Qed.
Print Assumptions C20_ilr_isometry_3_partial.

(* replace_zeros and convex_combination stay on the simplex *)
Theorem C20_replace_zeros_simplex : forall x delta, (qsum x == 1)%Q -> (qsum (replace_zeros_det x delta) == 1)%Q.
Proof. exact replace_zeros_simplex. Qed.
Print Assumptions C20_replace_zeros_simplex.

Theorem C20_convex_combination_sum : forall n ps ws,
  (forall p, In p ps -> (qsum p == 1)%Q /\ length p = n) -> ~ (qsum ws == 0)%Q -> length ps = length ws -> ps <> [] ->
  (qsum (convex_combination ps ws) == 1)%Q.
Proof. exact convex_combination_sum. Qed.
Print Assumptions C20_convex_combination_sum.

(* simplex_grid: the enumeration is complete, duplicate-free and made of grid points; a listing accepted by the
   check contains every grid point exactly once *)
Theorem C20_compositions_complete : forall k n c, length c = k -> fold_right Nat.add 0%nat c = n -> In c (compositions k n).
Proof. exact compositions_complete. Qed.
Print Assumptions C20_compositions_complete.

Theorem C20_compositions_sum : forall k n c, In c (compositions k n) -> length c = k /\ fold_right Nat.add 0%nat c = n.
Proof. exact compositions_sum. Qed.
Print Assumptions C20_compositions_sum.

Theorem C20_compositions_nodup : forall k n, NoDup (compositions k n).
Proof. exact compositions_nodup. Qed.
Print Assumptions C20_compositions_nodup.

Theorem C20_grid_ok_spec : forall k n obs, grid_ok k n obs = true ->
  NoDup obs /\ (forall c, In c obs <-> (length c = k /\ fold_right Nat.add 0%nat c = n)).
Proof. exact grid_ok_spec. Qed.
Print Assumptions C20_grid_ok_spec.
