(* Props/C16.v — property C16: meet, join, sufficient statistics and common informations are correct. *)
From Verif Require Import Info.
From Verif Require Import Dist Dist_Proofs C16_Model C16_Proofs.
Open Scope Q_scope.

(* the partition induced by a group of variables: same block iff same projection *)
Theorem C16_induced_same_block : forall os g a b, In a os -> In b os ->
  (same_block (induced os g) a b <-> proj g a = proj g b).
Proof. exact induced_same_block. Qed.
Print Assumptions C16_induced_same_block.

(* join: the new variable determines, and is determined by, the joined groups *)
Theorem C16_join_same_block : forall os gs a b, In a os -> In b os ->
  (same_block (join_blocks os gs) a b <-> forall g, In g gs -> proj g a = proj g b).
Proof. exact join_same_block. Qed.
Print Assumptions C16_join_same_block.

Theorem C16_join_label : forall os gs a b, In a os -> In b os ->
  (label_of a (canon_blocks (join_blocks os gs)) 0 = label_of b (canon_blocks (join_blocks os gs)) 0
   <-> forall g, In g gs -> proj g a = proj g b).
Proof. exact join_label_iff. Qed.
Print Assumptions C16_join_label.

(* meet: a function of each group separately ... *)
Theorem C16_meet_common_function : forall os gs g a b, In g gs -> In a os -> In b os ->
  proj g a = proj g b -> same_block (meet_blocks os gs) a b.
Proof. exact meet_common_function. Qed.
Print Assumptions C16_meet_common_function.

(* ... and the finest such function: any common function (equivalence coarser than every group) is constant on its blocks *)
Theorem C16_meet_finest : forall os gs (R : outcome -> outcome -> Prop),
  (forall x, R x x) -> (forall x y, R x y -> R y x) -> (forall x y z, R x y -> R y z -> R x z) ->
  (forall g a b, In g gs -> In a os -> In b os -> proj g a = proj g b -> R a b) ->
  forall a b, same_block (meet_blocks os gs) a b -> R a b.
Proof. exact meet_finest. Qed.
Print Assumptions C16_meet_finest.

Theorem C16_meet_covers : forall os gs, covers (meet_blocks os gs) os.
Proof. exact meet_covers. Qed.
Print Assumptions C16_meet_covers.

Theorem C16_meet_label : forall os gs a b, In a os -> In b os ->
  (label_of a (canon_blocks (meet_blocks os gs)) 0 = label_of b (canon_blocks (meet_blocks os gs)) 0
   <-> same_block (meet_blocks os gs) a b).
Proof. exact meet_label_iff. Qed.
Print Assumptions C16_meet_label.

(* every insertion preserves the original variables and their probabilities *)
Theorem C16_insert_keeps_old_variables : forall idx bs t n,
  (forall kv, In kv t -> length (fst kv) = n) -> (match idx with Some i => (i <= n)%nat | None => True end) ->
  map (fun kv => drop_at idx (fst kv)) (insert_partition idx bs t) = map fst t.
Proof. exact insert_partition_keys. Qed.
Print Assumptions C16_insert_keeps_old_variables.

Theorem C16_insert_keeps_probabilities : forall idx bs t, map snd (insert_partition idx bs t) = map snd t.
Proof. exact insert_partition_values. Qed.
Print Assumptions C16_insert_keeps_probabilities.
