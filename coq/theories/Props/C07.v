(* Props/C07.v — property C07: log and linear representations describe the same probability measure. *)
From Verif Require Import Info.
From Verif Require Import C07_Model C07_Proofs.
Open Scope R_scope.

(* the operations objects add, multiply, invert, normalise and reduce log values exactly as the
   corresponding linear arithmetic — for every base b > 0, b <> 1 (lnb b <> 0), below or above one *)
Theorem C07_exp_add : forall b, lnb b <> 0 -> forall x y, bpow b (ladd b x y) = bpow b x + bpow b y.
Proof. exact exp_add. Qed.
Print Assumptions C07_exp_add.

Theorem C07_exp_mult : forall b x y, bpow b (x + y) = bpow b x * bpow b y.
Proof. exact exp_mult. Qed.
Print Assumptions C07_exp_mult.

Theorem C07_exp_invert : forall b x, bpow b (- x) = / bpow b x.
Proof. exact exp_invert. Qed.
Print Assumptions C07_exp_invert.

Theorem C07_exp_add_reduce : forall b, lnb b <> 0 -> forall xs, xs <> [] ->
  bpow b (lreduce b xs) = rsum (map (bpow b) xs).
Proof. exact exp_add_reduce. Qed.
Print Assumptions C07_exp_add_reduce.

Theorem C07_exp_normalize : forall b, lnb b <> 0 -> forall xs, xs <> [] ->
  rsum (map (bpow b) (lnormalize b xs)) = 1.
Proof. exact exp_normalize. Qed.
Print Assumptions C07_exp_normalize.

(* round trips: linear -> log -> linear, and any chain of log bases *)
Theorem C07_bpow_blog : forall b, lnb b <> 0 -> forall y, 0 < y -> bpow b (blog b y) = y.
Proof. exact bpow_blog. Qed.
Print Assumptions C07_bpow_blog.

Theorem C07_set_base_value : forall b c x, lnb c <> 0 ->
  bpow c (x * (lnb b / lnb c)) = bpow b x.
Proof. exact set_base_value. Qed.
Print Assumptions C07_set_base_value.

(* the log branch of entropy computes the entropy in bits expressed in base-b units *)
Theorem C07_entropy_log_branch : forall b, lnb b <> 0 -> forall ps, Forall (fun p => 0 < p) ps ->
  rsum (map (fun p => - (bpow b (blog b p) * blog b p)) ps)
  = (- rsum (map (fun p => p * log2 p) ps)) * (ln 2 / lnb b).
Proof. exact entropy_log_branch. Qed.
Print Assumptions C07_entropy_log_branch.

(* the executable rendering used in the correspondence denotes exactly those quantities *)
Theorem C07_ops_add_sound : forall b, lnb b <> 0 -> forall x y,
  bpow b (ladd b (Q2R x) (Q2R y)) = rden (ops_add b (Some x) (Some y)).
Proof. exact ops_add_sound. Qed.
Print Assumptions C07_ops_add_sound.

Theorem C07_ops_add_reduce_sound : forall b, lnb b <> 0 -> forall xs, xs <> [] ->
  bpow b (lreduce b (map Q2R xs)) = rden (ops_add_reduce b (map Some xs)).
Proof. exact ops_add_reduce_sound. Qed.
Print Assumptions C07_ops_add_reduce_sound.

(* the bases in use are legitimate: ln b <> 0 *)
Theorem C07_bases_ok : lnb BT2 <> 0 /\ lnb BTE <> 0 /\ forall q, (0 < q)%Q -> ~ (q == 1)%Q -> lnb (BTQ q) <> 0.
Proof. split; [exact lnb_ne0_2 | split; [exact lnb_ne0_e | exact lnb_ne0_Q]]. Qed.
Print Assumptions C07_bases_ok.
