(* Props/C17.v — property C17: partial information decompositions consistently split I(sources:target).
   The redundancy lattice order, Moebius inversion exactly as BasePID.get_pi computes it (pis_list), its
   consequences (atoms sum to the top redundancy, uniqueness, linearity), relabelling invariance of the order,
   non-negativity of the I_mmi / I_min atoms for two sources, and the decision rules of the check. All over Q. *)
From Verif Require Import Info.
From Verif Require Import Measures C16_Model C17_Model C17_Proofs.
Open Scope Q_scope.

(* the lattice order is a preorder with the full source set on top *)
Theorem C17_nle_refl : forall n, nle n n = true.
Proof. exact nle_refl. Qed.
Print Assumptions C17_nle_refl.
Theorem C17_nle_trans : forall a b c, nle a b = true -> nle b c = true -> nle a c = true.
Proof. exact nle_trans. Qed.
Print Assumptions C17_nle_trans.
Theorem C17_nle_top : forall k n, n <> [] -> (forall A, In A n -> forall i, In i A -> (i < k)%nat) -> nle n (top_node k) = true.
Proof. exact nle_top. Qed.
Print Assumptions C17_nle_top.

(* Moebius inversion: at every node, exactly, redundancy = sum of the atoms at or below it *)
Theorem C17_mobius_identity : forall red nodes n,
  linext nodes = true -> In n nodes -> below_sum (pis_list red nodes) n == red n.
Proof. exact mobius_identity. Qed.
Print Assumptions C17_mobius_identity.

(* ... so the atoms sum to the top node's redundancy, I(all sources : target) *)
Theorem C17_atoms_sum_to_top : forall red nodes t,
  linext nodes = true -> In t nodes -> (forall n, In n nodes -> nle n t = true) ->
  qsum (map snd (pis_list red nodes)) == red t.
Proof. exact atoms_sum_to_top. Qed.
Print Assumptions C17_atoms_sum_to_top.
Theorem C17_atoms_sum_to_top_2 : forall red, qsum (map snd (pis_list red (sorted_nodes 2))) == red (top_node 2).
Proof. exact atoms_sum_to_top_2. Qed.
Print Assumptions C17_atoms_sum_to_top_2.
Theorem C17_atoms_sum_to_top_3 : forall red, qsum (map snd (pis_list red (sorted_nodes 3))) == red (top_node 3).
Proof. exact atoms_sum_to_top_3. Qed.
Print Assumptions C17_atoms_sum_to_top_3.
Theorem C17_atoms_sum_to_top_4 : forall red, qsum (map snd (pis_list red (sorted_nodes 4))) == red (top_node 4).
Proof. exact atoms_sum_to_top_4. Qed.
Print Assumptions C17_atoms_sum_to_top_4.

(* the atoms are determined by the identity: any assignment satisfying it at every node is the computed one *)
Theorem C17_mobius_unique : forall red nodes (pi : list (node * Q)),
  linext nodes = true -> map fst pi = nodes -> (forall n, In n nodes -> below_sum pi n == red n) ->
  Forall2 (fun a b => fst a = fst b /\ snd a == snd b) pi (pis_list red nodes).
Proof. exact mobius_unique. Qed.
Print Assumptions C17_mobius_unique.

(* relabelling the sources by an injective map preserves the order and antichains: values permute accordingly *)
Theorem C17_nle_relabel : forall (f : nat -> nat) a b, (forall x y, f x = f y -> x = y) ->
  nle (map (map f) a) (map (map f) b) = nle a b.
Proof. exact nle_relabel. Qed.
Print Assumptions C17_nle_relabel.
Theorem C17_nle_perm_node : forall perm a b, nat_nodup perm = true ->
  node_lt (length perm) a = true -> node_lt (length perm) b = true ->
  nle (perm_node perm a) (perm_node perm b) = nle a b.
Proof. exact nle_perm_node. Qed.
Print Assumptions C17_nle_perm_node.

(* I_mmi and I_min atoms are non-negative for two sources *)
Theorem C17_mmi2_atoms_nonneg : forall mi : list nat -> Q,
  0 <= mi [0%nat] -> 0 <= mi [1%nat] -> mi [0%nat] <= mi [0%nat;1%nat] -> mi [1%nat] <= mi [0%nat;1%nat] ->
  Forall (fun nv => 0 <= snd nv) (pis_list (mmi_red mi) (sorted_nodes 2)).
Proof. exact mmi2_atoms_nonneg. Qed.
Print Assumptions C17_mmi2_atoms_nonneg.
Theorem C17_imin2_atoms_nonneg : forall (T : Type) (ts : list T) (p : T -> Q) (s : T -> list nat -> Q),
  (forall t, In t ts -> 0 <= p t) ->
  (forall t, In t ts -> 0 <= s t [0%nat] /\ 0 <= s t [1%nat] /\ s t [0%nat] <= s t [0%nat;1%nat] /\ s t [1%nat] <= s t [0%nat;1%nat]) ->
  Forall (fun nv => 0 <= snd nv) (pis_list (fun n => qsum (map (fun t => p t * mmi_red (s t) n) ts)) (sorted_nodes 2)).
Proof. exact (@imin2_atoms_nonneg). Qed.
Print Assumptions C17_imin2_atoms_nonneg.

(* decision rules of the check *)
Theorem C17_flags_sound : forall o mis total fc fs fn, flags_ok true o mis total fc fs fn = true ->
  fc = true /\ fs = true /\ complete_model o = true /\
  exists s, fold_right (fun x acc => match p_pi x, acc with Some v, Some s => Some (s + v) | _, _ => None end) (Some 0) o = Some s /\
            - ((4#100000) * (1 + qabs total)) <= s - total <= (4#100000) * (1 + qabs total).
Proof. exact flags_sound. Qed.
Print Assumptions C17_flags_sound.
Theorem C17_mobius_ok_spec : forall s o x r v, mobius_ok s o = true -> In x o -> p_red x = Some r -> sum_below o (p_node x) = Some v ->
  - (s * ((1#100000) + (1#100000) * qabs v)) <= r - v <= s * ((1#100000) + (1#100000) * qabs v).
Proof. exact mobius_ok_spec. Qed.
Print Assumptions C17_mobius_ok_spec.

(* min-type redundancies (I_mmi; I_min per target value) are monotone along the lattice, bounded by every member,
   non-negative, and depend on the node only as a set (Proofs/C17_Mono.v) *)
From Verif Require Import C17_Mono.
From Coq Require Import Permutation.
Theorem C17_mmi_red_monotone : forall mi a b, (forall A B, ssubset A B = true -> mi A <= mi B) ->
  a <> [] -> b <> [] -> nle a b = true -> mmi_red mi a <= mmi_red mi b.
Proof. exact mmi_red_monotone. Qed.
Print Assumptions C17_mmi_red_monotone.
Theorem C17_mmi_red_le_member : forall mi n A, In A n -> mmi_red mi n <= mi A.
Proof. exact mmi_red_le_member. Qed.
Print Assumptions C17_mmi_red_le_member.
Theorem C17_mmi_red_perm : forall mi n n', Permutation n n' -> mmi_red mi n == mmi_red mi n'.
Proof. exact mmi_red_perm. Qed.
Print Assumptions C17_mmi_red_perm.
Theorem C17_imin_red_monotone : forall (T : Type) (ts : list T) (p : T -> Q) (s : T -> list nat -> Q) a b,
  (forall t, In t ts -> 0 <= p t) -> (forall t, In t ts -> forall A B, ssubset A B = true -> s t A <= s t B) ->
  a <> [] -> b <> [] -> nle a b = true ->
  qsum (map (fun t => p t * mmi_red (s t) a) ts) <= qsum (map (fun t => p t * mmi_red (s t) b) ts).
Proof. exact (@imin_red_monotone). Qed.
Print Assumptions C17_imin_red_monotone.
