(* Props/C19.v — property C19: distributions and entropies inferred from data are the empirical frequencies. *)
From Verif Require Import Info.
From Verif Require Import Dist Dist_Proofs C19_Model C19_Proofs.
Open Scope Q_scope.

(* sliding windows: len - L + 1 of them, each of length L, the i-th starting at position i *)
Theorem C19_windows_length : forall L data, (1 <= L)%nat -> length (windows L data) = (length data + 1 - L)%nat.
Proof. exact windows_length. Qed.
Print Assumptions C19_windows_length.

Theorem C19_windows_each : forall L data w, In w (windows L data) -> length w = L.
Proof. exact windows_each. Qed.
Print Assumptions C19_windows_each.

Theorem C19_windows_nth : forall L data i, (i + L <= length data)%nat -> (1 <= L)%nat ->
  nth i (windows L data) [] = firstn L (skipn i data).
Proof. exact windows_nth. Qed.
Print Assumptions C19_windows_nth.

(* counts add up to the number of windows; each word's count is its number of occurrences *)
Theorem C19_word_counts_total : forall L data,
  mass (word_counts L data) == inject_Z (Z.of_nat (length (windows L data))).
Proof. exact word_counts_total. Qed.
Print Assumptions C19_word_counts_total.

Theorem C19_word_counts_value : forall L data w, In w (keys (word_counts L data)) ->
  get0 w (word_counts L data) == inject_Z (Z.of_nat (count_word w (map flatw (windows L data)))).
Proof. exact word_counts_value. Qed.
Print Assumptions C19_word_counts_value.

(* distribution_from_data assigns to each word exactly count / number of windows *)
Theorem C19_dfd_frequency : forall L data w, In w (keys (dfd L data)) -> (1 <= length (windows L data))%nat ->
  get0 w (dfd L data) ==
  inject_Z (Z.of_nat (count_word w (map flatw (windows L data)))) / inject_Z (Z.of_nat (length (windows L data))).
Proof. exact dfd_frequency. Qed.
Print Assumptions C19_dfd_frequency.

Theorem C19_dfd_keys : forall L data w, In w (keys (dfd L data)) <-> In w (map flatw (windows L data)).
Proof. exact dfd_keys. Qed.
Print Assumptions C19_dfd_keys.

Theorem C19_dfd_nodup : forall L data, NoDup (keys (dfd L data)).
Proof. exact dfd_nodup. Qed.
Print Assumptions C19_dfd_nodup.

Theorem C19_dfd_mass : forall L data, (1 <= length (windows L data))%nat -> mass (dfd L data) == 1.
Proof. exact dfd_mass. Qed.
Print Assumptions C19_dfd_mass.

Theorem C19_ts_outcome_length : forall k h w, length w = S h -> Forall (fun ob => length ob = k) w ->
  length (ts_outcome k h w) = (k * h + k)%nat.
Proof. exact ts_outcome_length. Qed.
Print Assumptions C19_ts_outcome_length.

(* binned(): every sample gets one of the requested bins *)
Theorem C19_binning_all_assigned : forall u bins xs labels, binning_check u bins xs labels = true ->
  length labels = length xs /\ Forall (fun l => (0 <= l < Z.of_nat bins)%Z) labels.
Proof. exact binning_all_assigned. Qed.
Print Assumptions C19_binning_all_assigned.
