(* Props/C09.v — property C09: any history of mutations tracks a plain probability-table model. *)
From Verif Require Import Dist Dist_Proofs C01_Model C09_Model C09_Proofs.
Open Scope Q_scope.

(* every reachable state keeps the stored outcomes duplicate-free, inside and ordered like the sample
   space, and complete when dense *)
Theorem C09_step_Inv : forall s o, InvS s -> InvS (fst (step s o)).
Proof. exact step_Inv. Qed.
Print Assumptions C09_step_Inv.

Theorem C09_history_Inv : forall s ops, InvS s -> InvS (run s ops).
Proof. exact run_Inv. Qed.
Print Assumptions C09_history_Inv.

(* refinement: the concrete machine (aligned lists, re-sorting on insertion, like dit) behaves as the
   plain table indexed by the sample space.  Outputs agree for all operations except that the abstract
   table does not report the counts make_dense/make_sparse return. *)
Theorem C09_refines : forall s o, InvS s ->
  map abs (fst (step s o)) = fst (a_step (map abs s) o) /\
  match o with
  | MakeDense _ | MakeSparse _ _ => True
  | _ => snd (step s o) = snd (a_step (map abs s) o)
  end.
Proof. exact refines. Qed.
Print Assumptions C09_refines.

(* illegal operations raise InvalidOutcome and change nothing *)
Theorem C09_invalid_is_noop : forall s o, snd (step s o) = OInvalid -> fst (step s o) = s.
Proof. exact invalid_is_noop. Qed.
Print Assumptions C09_invalid_is_noop.

(* operations on one object never affect another; no operation removes an object *)
Theorem C09_frame : forall s o j,
  (forall l, op_target o = Some l -> j <> l) -> (j < length s)%nat ->
  nth_error (fst (step s o)) j = nth_error s j.
Proof. exact frame. Qed.
Print Assumptions C09_frame.

Theorem C09_step_length : forall s o, (length s <= length (fst (step s o)))%nat.
Proof. exact step_length. Qed.
Print Assumptions C09_step_length.

(* a copy is observationally identical to its source, including the generator state *)
Theorem C09_copy_equal : forall s l ob,
  nth_error s l = Some ob -> nth_error (fst (step s (Copy l None))) (length s) = Some ob.
Proof. exact copy_equal. Qed.
Print Assumptions C09_copy_equal.

(* sample space and variable names never change *)
Theorem C09_static_fields_constant : forall s o j, (j < length s)%nat ->
  option_map (fun ob => (d_ss (o_d ob), d_names (o_d ob))) (nth_error (fst (step s o)) j)
  = option_map (fun ob => (d_ss (o_d ob), d_names (o_d ob))) (nth_error s j).
Proof. exact static_fields_constant. Qed.
Print Assumptions C09_static_fields_constant.
