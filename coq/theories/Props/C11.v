(* Props/C11.v — property C11: distribution constructors and algebra compute the defined table operations. *)
From Verif Require Import Info.
From Verif Require Import C11_Model C11_Proofs.
Open Scope Q_scope.

(* modify_outcomes / any pushforward: each new outcome gets the sum over its fibre; mass is preserved *)
Theorem C11_pushforward_law : forall f t o, zget o (zpush f t) == zfibre f t o.
Proof. exact zpush_get. Qed.
Print Assumptions C11_pushforward_law.

Theorem C11_modify_law : forall m t o, zget o (modify m t) == zfibre (zlookup m) t o.
Proof. exact modify_law. Qed.
Print Assumptions C11_modify_law.

Theorem C11_modify_mass : forall m t, zmass (modify m t) == zmass t.
Proof. exact modify_mass. Qed.
Print Assumptions C11_modify_mass.

(* insert_rvf: the joint law of the old variables is preserved, and so is the mass *)
Theorem C11_insert_end_marginal : forall n m t o,
  (forall k, In k (zkeys t) -> length k = n) -> length o = n ->
  zget o (zmarginal (seq 0 n) (insert_rvf m None t)) == zget o t.
Proof. exact insert_end_marginal. Qed.
Print Assumptions C11_insert_end_marginal.

Theorem C11_insert_mass : forall m idx t, zmass (insert_rvf m idx t) == zmass t.
Proof. exact insert_mass. Qed.
Print Assumptions C11_insert_mass.

(* product_distribution: the product of the requested marginals *)
Theorem C11_product_law : forall m1 m2 o1 o2,
  (forall k, In k (zkeys m1) -> length k = length o1) ->
  zget (o1 ++ o2) (zproduct [m1; m2]) == zget o1 m1 * zget o2 m2.
Proof. exact zproduct2_get. Qed.
Print Assumptions C11_product_law.

Theorem C11_product_mass : forall ms, zmass (zproduct ms) == fold_right (fun m acc => zmass m * acc) 1 ms.
Proof. exact zproduct_mass. Qed.
Print Assumptions C11_product_mass.

(* mixtures: the stated convex combination, outcome by outcome *)
Theorem C11_mixture_law : forall ts ws o,
  zget o (mixture ts ws) == qsum (map (fun tw => snd tw * zget o (fst tw)) (combine ts ws)).
Proof. exact mixture_get. Qed.
Print Assumptions C11_mixture_law.

Theorem C11_mixture_mass : forall ts ws,
  zmass (mixture ts ws) == qsum (map (fun tw => snd tw * zmass (fst tw)) (combine ts ws)).
Proof. exact mixture_mass. Qed.
Print Assumptions C11_mixture_mass.

(* operators between scalar distributions: the law of op(X,Y) for independent X and Y; @ is the independent joint *)
Theorem C11_scalar_op_law : forall op a b z,
  zget [z] (scalar_op op a b) ==
  qsum (map (fun xy => snd (fst xy) * snd (snd xy))
            (filter (fun xy => Z.eqb (apply_sop op (hd 0%Z (fst (fst xy))) (hd 0%Z (fst (snd xy)))) z) (list_prod a b))).
Proof. exact scalar_op_law. Qed.
Print Assumptions C11_scalar_op_law.

Theorem C11_scalar_op_mass : forall op a b, zmass (scalar_op op a b) == zmass a * zmass b.
Proof. exact scalar_op_mass. Qed.
Print Assumptions C11_scalar_op_mass.

Theorem C11_matmul_law : forall a b x y, (forall k, In k (zkeys a) -> length k = length x) ->
  zget (x ++ y) (matmul a b) == zget x a * zget y b.
Proof. exact matmul_get. Qed.
Print Assumptions C11_matmul_law.

Theorem C11_uniform_mass : forall os, os <> [] -> zmass (uniform_on os) == 1.
Proof. exact uniform_on_mass. Qed.
Print Assumptions C11_uniform_mass.

(* statistics: the mean of a sum of independent variables is the sum of the means *)
Theorem C11_mean_add : forall a b, zmass a == 1 -> zmass b == 1 -> smean (scalar_op OAdd a b) == smean a + smean b.
Proof. exact mean_add. Qed.
Print Assumptions C11_mean_add.
