(* Props/C15.v — property C15: optimisation-based measures are feasible and self-consistent.
   For EVERY parameter vector (no hypothesis on the parameters beyond non-zero bounds): the conditional tables read
   off the vector are probability vectors; attaching the auxiliary variables preserves the mass; summing them out
   returns the input tensor; each auxiliary variable's conditional law given everything before it is selected by
   its declared parents only; the proxy tensor has the mass of the distribution.  All over Q, axiom-free. *)
From Verif Require Import Info.
From Verif Require Import Measures C15_Model Dist_Proofs C15_Proofs.
Open Scope Q_scope.

Theorem C15_chan_val_sums : forall av pshape pidx, a_bound av <> 0%nat ->
  qsum (map (chan_val av pshape pidx) (range (a_bound av))) == 1.
Proof. exact chan_val_sums. Qed.
Print Assumptions C15_chan_val_sums.

Theorem C15_attach_mass : forall shape J avs, Forall (fun av => a_bound av <> 0%nat) avs ->
  mass (attach shape J avs) == mass J.
Proof. exact attach_mass. Qed.
Print Assumptions C15_attach_mass.

(* the restriction of the joint to the original (proxy) variables is the input, for every parameter vector *)
Theorem C15_attach_marginal : forall shape J avs k o, Forall (fun av => a_bound av <> 0%nat) avs ->
  (forall x, In x (keys J) -> length x = k) ->
  prob_of (drop_aux k (attach shape J avs)) o == prob_of J o.
Proof. exact attach_marginal. Qed.
Print Assumptions C15_attach_marginal.
Theorem C15_model_joint_marginal : forall t groups avs o, Forall (fun av => a_bound av <> 0%nat) avs ->
  prob_of (drop_aux (length groups) (model_joint t groups avs)) o == prob_of (base_tensor t groups) o.
Proof. exact model_joint_marginal. Qed.
Print Assumptions C15_model_joint_marginal.
Theorem C15_model_joint_mass : forall t groups avs, Forall (fun av => a_bound av <> 0%nat) avs ->
  mass (model_joint t groups avs) == mass t.
Proof. exact model_joint_mass. Qed.
Print Assumptions C15_model_joint_mass.

(* each auxiliary variable depends on its declared parents only *)
Theorem C15_extend_prob : forall shape J av o a,
  prob_of (extend shape J av) (o ++ [a]) ==
  if (a <? a_bound av)%nat then prob_of J o * chan_val av (par_shape shape av) (proj (a_bases av) o) a else 0.
Proof. exact extend_prob. Qed.
Print Assumptions C15_extend_prob.
Theorem C15_extend_cond_indep : forall shape J av o o' a, In o (keys J) -> In o' (keys J) ->
  proj (a_bases av) o = proj (a_bases av) o' ->
  prob_of (extend shape J av) (o ++ [a]) * prob_of J o' == prob_of (extend shape J av) (o' ++ [a]) * prob_of J o.
Proof. exact extend_cond_indep. Qed.
Print Assumptions C15_extend_cond_indep.

(* non-negativity: a proper joint *)
Theorem C15_attach_nonneg : forall shape J avs, Forall (fun kv => 0 <= snd kv) J ->
  Forall (fun av => Forall (fun q => 0 <= q) (a_params av)) avs ->
  Forall (fun kv => 0 <= snd kv) (attach shape J avs).
Proof. exact attach_nonneg. Qed.
Print Assumptions C15_attach_nonneg.

Theorem C15_base_tensor_mass : forall t groups, mass (base_tensor t groups) == mass t.
Proof. exact base_tensor_mass. Qed.
Print Assumptions C15_base_tensor_mass.

(* the special parameter vectors (Proofs/C15_Special.v): at construct_constant_initial the auxiliary variable is the
   constant 0 (conditioning on it changes nothing: the source of the bound by the unconditional measure); at
   construct_copy_initial it is a copy of its parent (the bound by the measure given the conditioning variables) *)
From Verif Require Import C15_Special.
Theorem C15_const_extend_zero : forall shape J av rows o,
  a_params av = const_params rows (a_bound av) -> a_bound av <> 0%nat ->
  (flat_index (par_shape shape av) (proj (a_bases av) o) < rows)%nat ->
  prob_of (extend shape J av) (o ++ [0%nat]) == prob_of J o.
Proof. intros; eapply const_extend_zero; eassumption. Qed.
Print Assumptions C15_const_extend_zero.
Theorem C15_const_extend_succ : forall shape J av rows o a,
  a_params av = const_params rows (a_bound av) -> a_bound av <> 0%nat ->
  (flat_index (par_shape shape av) (proj (a_bases av) o) < rows)%nat ->
  prob_of (extend shape J av) (o ++ [S a]) == 0.
Proof. intros; eapply const_extend_succ; eassumption. Qed.
Print Assumptions C15_const_extend_succ.
Theorem C15_copy_extend : forall shape J av z sz o a,
  a_params av = copy_params sz (a_bound av) -> a_bases av = [z] -> par_shape shape av = [sz] ->
  (nth z o 0 < sz)%nat -> (sz <= a_bound av)%nat -> (a < a_bound av)%nat ->
  prob_of (extend shape J av) (o ++ [a]) == if Nat.eqb a (nth z o 0%nat) then prob_of J o else 0.
Proof. exact copy_extend. Qed.
Print Assumptions C15_copy_extend.
