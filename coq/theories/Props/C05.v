(* Props/C05.v — property C05: multivariate measures equal their entropy-combination definitions;
   I(X:Y|Z), T, B, J are never negative; for two groups I, T, B, J coincide with I(X:Y|Z). *)
From Verif Require Import Info.
From Verif Require Import Measures C05_Model C05_Algebra CMI_Proofs C05_Merge C05_Nonneg Info_Proofs Entropy_Bridge C02_Proofs.
Open Scope R_scope.

(* --- every measure is its defining combination of conditional entropies, for any entropy function h --- *)
Theorem C05_cond_entropy_term : forall h n X Y t, cond_H n X Y = Some t -> heval h t = ch h X Y.
Proof. exact condH_eval_ch. Qed.
Print Assumptions C05_cond_entropy_term.

Theorem C05_total_correlation_def : forall h n gs cr t, total_correlation n gs cr = Some t ->
  heval h t = rsum (map (fun g => ch h g cr) gs) - ch h (nunions gs) cr.
Proof. exact total_correlation_eval. Qed.
Print Assumptions C05_total_correlation_def.

Theorem C05_dual_total_correlation_def : forall h n gs cr t, dual_total_correlation n gs cr = Some t ->
  heval h t = ch h (nunions gs) cr - rsum (map (fun g => ch h g (nunion (ndiff (nunions gs) g) cr)) gs).
Proof. exact dual_total_correlation_eval. Qed.
Print Assumptions C05_dual_total_correlation_def.

Theorem C05_o_information_def : forall h n gs cr t b o,
  total_correlation n gs cr = Some t -> dual_total_correlation n gs cr = Some b ->
  o_information n gs cr = Some o -> heval h o = heval h t - heval h b.
Proof. exact o_information_def. Qed.
Print Assumptions C05_o_information_def.

Theorem C05_interaction_sign : forall h n gs cr c i,
  coinformation n gs cr = Some c -> interaction_information n gs cr = Some i ->
  heval h i = Q2R (sign (length gs)) * heval h c.
Proof. exact interaction_sign. Qed.
Print Assumptions C05_interaction_sign.

(* --- for two groups, co-information, total correlation, dual total correlation and CAEKL are I(X:Y|Z) --- *)
Theorem C05_two_groups_coinformation : forall h n X Y Z t, coinformation n [X;Y] Z = Some t -> heval h t = cmi_h h X Y Z.
Proof. exact coinformation2_eval. Qed.
Print Assumptions C05_two_groups_coinformation.

Theorem C05_two_groups_total_correlation : forall h n X Y Z t,
  valid_vars n X = true -> valid_vars n Y = true -> valid_vars n Z = true ->
  nsubset X Z = false -> nsubset Y Z = false -> nsubset (nunions [X;Y]) Z = false ->
  total_correlation n [X;Y] Z = Some t -> heval h t = cmi_h h X Y Z.
Proof. exact two_groups_total_correlation. Qed.
Print Assumptions C05_two_groups_total_correlation.

Theorem C05_two_groups_dual_total_correlation : forall h n X Y Z t,
  forallb (fun x => negb (nat_mem x Y)) X = true ->
  nsubset X (nunion Y Z) = false -> nsubset Y (nunion X Z) = false ->
  dual_total_correlation n [X;Y] Z = Some t -> heval h t = cmi_h h X Y Z.
Proof. exact two_groups_dual_total_correlation. Qed.
Print Assumptions C05_two_groups_dual_total_correlation.

Theorem C05_two_groups_caekl : forall h n X Y Z,
  X <> Y -> forallb (fun x => negb (nat_mem x Y)) X = true ->
  valid_vars n X = true -> valid_vars n Y = true -> valid_vars n Z = true ->
  nsubset X Z = false -> nsubset Y Z = false ->
  exists t, caekl_candidates n [X;Y] Z = [Some t] /\ heval h t = cmi_h h X Y Z.
Proof. exact two_groups_caekl. Qed.
Print Assumptions C05_two_groups_caekl.

(* --- non-negativity on every table with positive stored weights (no size bound, any groups) --- *)
Theorem C05_cmi_nonneg : forall (X Y Z : list nat) t, table_ok t ->
  0 <= Hs (X ++ Z) t + Hs (Y ++ Z) t - Hs (X ++ Y ++ Z) t - Hs Z t.
Proof. exact cmi_nonneg. Qed.
Print Assumptions C05_cmi_nonneg.

Theorem C05_cmi_measure_nonneg : forall t, table_ok t -> forall n X Y Z tm,
  coinformation n [X;Y] Z = Some tm -> 0 <= heval (fun S => Hs S t) tm.
Proof. exact cmi_nonneg_table. Qed.
Print Assumptions C05_cmi_measure_nonneg.

Theorem C05_total_correlation_nonneg : forall t, table_ok t -> forall n gs cr tm,
  total_correlation n gs cr = Some tm -> 0 <= heval (fun S => Hs S t) tm.
Proof. exact tc_nonneg_table. Qed.
Print Assumptions C05_total_correlation_nonneg.

Theorem C05_dual_total_correlation_nonneg : forall t, table_ok t -> forall n gs cr tm,
  dual_total_correlation n gs cr = Some tm -> pairwise_disjoint gs -> 0 <= heval (fun S => Hs S t) tm.
Proof. exact dtc_nonneg_table. Qed.
Print Assumptions C05_dual_total_correlation_nonneg.

Theorem C05_caekl_nonneg : forall t, table_ok t -> forall n gs cr tm,
  In (Some tm) (caekl_candidates n gs cr) -> 0 <= heval (fun S => Hs S t) tm.
Proof. exact caekl_candidates_nonneg_table. Qed.
Print Assumptions C05_caekl_nonneg.

(* --- the value the model computes on a distribution is that combination of joint-table entropies --- *)
Theorem C05_hvalue_is_table_entropy : forall d tm, clean d ->
  Forall (fun x => Forall (fun i => (i < d_nvars d)%nat) (snd x)) tm ->
  hvalue d tm = heval (fun S => Hs S (d_tbl d)) tm.
Proof. exact hvalue_Hs. Qed.
Print Assumptions C05_hvalue_is_table_entropy.

Theorem C05_merge_preserves_value : forall d t, hvalue d (hmerge t) = hvalue d t.
Proof. exact hvalue_hmerge. Qed.
Print Assumptions C05_merge_preserves_value.
