(* Props/C08.v — property C08: information values are invariant under every change of representation. *)
From Verif Require Import Info.
From Verif Require Import Measures CMI_Proofs C05_Algebra C05_Nonneg Info_Proofs C06_Model C06_Proofs C08_Proofs.
From Coq Require Import Permutation.
Open Scope R_scope.

(* the input order of the outcomes does not matter *)
Theorem C08_input_order : forall S t t', Permutation t t' -> Hs S t = Hs S t'.
Proof. exact Hs_perm. Qed.
Print Assumptions C08_input_order.

Theorem C08_pmf_order : forall l l', Permutation l l' -> entropy_list l = entropy_list l'.
Proof. exact entropy_perm. Qed.
Print Assumptions C08_pmf_order.

(* zero-probability outcomes may be added, stored or trimmed *)
Theorem C08_zero_padding : forall S t t0, Forall (fun kv => (snd kv == 0)%Q) t0 -> Hs S (t ++ t0) = Hs S t.
Proof. exact Hs_zero_padding_perm. Qed.
Print Assumptions C08_zero_padding.

Theorem C08_pmf_zero_padding : forall l1 l2, entropy_list (l1 ++ 0%Q :: l2) = entropy_list (l1 ++ l2).
Proof. exact entropy_zero_padding. Qed.
Print Assumptions C08_pmf_zero_padding.

(* the symbols of any variable may be relabelled bijectively (here: injectively) *)
Theorem C08_relabel : forall phi S t n,
  (forall i a b, phi i a = phi i b -> a = b) -> (forall o, In o (map fst t) -> length o = n) ->
  Forall (fun i => (i < n)%nat) S -> Hs S (relabel_t phi t) = Hs S t.
Proof. exact Hs_relabel. Qed.
Print Assumptions C08_relabel.

(* the variables may be permuted together with the arguments *)
Theorem C08_permute_variables : forall perm S t, Forall (fun i => (i < length perm)%nat) S ->
  Hs S (map (fun kv => (proj perm (fst kv), snd kv)) t) = Hs (map (fun i => nth i perm 0%nat) S) t.
Proof. exact Hs_permvars. Qed.
Print Assumptions C08_permute_variables.

(* the value depends only on which variables are addressed, not on their order or repetition *)
Theorem C08_variable_set_only : forall S S' t,
  (forall o o', In o (map fst t) -> In o' (map fst t) -> (proj S o = proj S o' <-> proj S' o = proj S' o')) -> Hs S t = Hs S' t.
Proof. exact Hs_ext. Qed.
Print Assumptions C08_variable_set_only.

(* quantities symmetric in their groups are unchanged by reordering the groups *)
Theorem C08_total_correlation_group_order : forall h n gs gs' cr t t', Permutation gs gs' ->
  total_correlation n gs cr = Some t -> total_correlation n gs' cr = Some t' -> heval h t = heval h t'.
Proof. exact total_correlation_perm. Qed.
Print Assumptions C08_total_correlation_group_order.

Theorem C08_dual_total_correlation_group_order : forall h n gs gs' cr t t', Permutation gs gs' ->
  dual_total_correlation n gs cr = Some t -> dual_total_correlation n gs' cr = Some t' -> heval h t = heval h t'.
Proof. exact dual_total_correlation_perm. Qed.
Print Assumptions C08_dual_total_correlation_group_order.

Theorem C08_coinformation_swap : forall h n X Y Z t t',
  coinformation n [X;Y] Z = Some t -> coinformation n [Y;X] Z = Some t' -> heval h t = heval h t'.
Proof. exact coinformation_swap2. Qed.
Print Assumptions C08_coinformation_swap.

(* divergences: a joint reordering / relabelling of both arguments changes nothing *)
Theorem C08_kl_joint_reorder : forall l l', Permutation l l' ->
  kl_list (map fst l) (map snd l) = kl_list (map fst l') (map snd l').
Proof. exact kl_pairs_perm. Qed.
Print Assumptions C08_kl_joint_reorder.

Theorem C08_vd_joint_reorder : forall l l', Permutation l l' -> (vd_q l == vd_q l')%Q.
Proof. exact vd_q_perm. Qed.
Print Assumptions C08_vd_joint_reorder.
