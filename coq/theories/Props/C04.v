(* Props/C04.v — property C04: entropies and mutual information equal their definitions. *)
From Verif Require Import Info.
From Verif Require Import Measures C04_Model Info_Proofs CMI_Proofs C05_Algebra.
From Coq Require Import Permutation.
Open Scope R_scope.

(* Shannon entropy of a pmf: non-negative, at most log2 of the support size, zero for a deterministic
   outcome; zero-probability entries and the storage order contribute nothing *)
Theorem C04_entropy_nonneg : forall l, pmf_ok l -> 0 <= entropy_list l.
Proof. exact entropy_nonneg_pmf. Qed.
Print Assumptions C04_entropy_nonneg.

Theorem C04_entropy_le_log2_support : forall l, pmf_ok l -> entropy_list l <= log2 (INR (support_size l)).
Proof. exact entropy_le_log2_support. Qed.
Print Assumptions C04_entropy_le_log2_support.

Theorem C04_entropy_deterministic : forall l, pmf_ok l -> support_size l = 1%nat -> entropy_list l = 0.
Proof. exact entropy_deterministic. Qed.
Print Assumptions C04_entropy_deterministic.

Theorem C04_entropy_zero_padding : forall l1 l2, entropy_list (l1 ++ 0%Q :: l2) = entropy_list (l1 ++ l2).
Proof. exact entropy_zero_padding. Qed.
Print Assumptions C04_entropy_zero_padding.

Theorem C04_entropy_perm : forall l l', Permutation l l' -> entropy_list l = entropy_list l'.
Proof. exact entropy_perm. Qed.
Print Assumptions C04_entropy_perm.

(* conditional entropy and mutual information are the stated entropy differences, for any entropy
   function h; dit's exact-zero shortcut for X inside Y is part of the model *)
Theorem C04_cond_entropy_def : forall h n X Y t, cond_H n X Y = Some t ->
  heval h t = (if nsubset X Y then 0 else h (nunion X Y) - h (nset Y)).
Proof. exact condH_eval. Qed.
Print Assumptions C04_cond_entropy_def.

Theorem C04_mi_sym : forall h n X Y a b, sh_mi n X Y = Some a -> sh_mi n Y X = Some b -> heval h a = heval h b.
Proof. exact mi_sym. Qed.
Print Assumptions C04_mi_sym.

(* entropies computed from the joint table: mutual information and conditional entropy are never
   negative, the entropy of a (sub-)normalised table is non-negative, and the entropy depends only on
   which variables are addressed (order and repetition do not matter) *)
Theorem C04_mi_nonneg : forall X Y t, table_ok t -> rsum (map (fun kv => Q2R (snd kv)) t) <= 1 ->
  0 <= Hs X t + Hs Y t - Hs (X ++ Y) t.
Proof. exact mi_nonneg. Qed.
Print Assumptions C04_mi_nonneg.

Theorem C04_cond_entropy_nonneg : forall X Z t, table_ok t -> 0 <= Hs (X ++ Z) t - Hs Z t.
Proof. exact cond_entropy_nonneg. Qed.
Print Assumptions C04_cond_entropy_nonneg.

Theorem C04_Hs_nonneg : forall S t, table_ok t -> rsum (map (fun kv => Q2R (snd kv)) t) <= 1 -> 0 <= Hs S t.
Proof. exact Hs_nonneg_normalised. Qed.
Print Assumptions C04_Hs_nonneg.

Theorem C04_Hs_ext : forall S S' t,
  (forall o o', In o (map fst t) -> In o' (map fst t) -> (proj S o = proj S o' <-> proj S' o = proj S' o')) ->
  Hs S t = Hs S' t.
Proof. exact Hs_ext. Qed.
Print Assumptions C04_Hs_ext.

(* Renyi and Tsallis at order 1 are the Shannon entropy (Tsallis in nats): the model takes the same
   branch as the code *)
Theorem C04_renyi_one_is_shannon : forall d X,
  c04_model d false (QRenyi (OFin 1) X) =
  match sel_pmf d X with Some _ => Some (RLin [(1%Q, entropy_of_selected d X)]) | None => None end.
Proof.
  intros d X. unfold c04_model, resolve_vars. destruct X as [l|]; simpl.
  - destruct (sel_pmf d (Some l)); reflexivity.
  - reflexivity.
Qed.
Print Assumptions C04_renyi_one_is_shannon.

Theorem C04_tsallis_one_is_shannon_nats : forall d X,
  c04_model d false (QTsallis 1 X) =
  match sel_pmf d X with Some _ => Some (RNats [(1%Q, entropy_of_selected d X)]) | None => None end.
Proof.
  intros d X. unfold c04_model, resolve_vars. destruct X as [l|]; simpl.
  - destruct (sel_pmf d (Some l)); reflexivity.
  - reflexivity.
Qed.
Print Assumptions C04_tsallis_one_is_shannon_nats.
