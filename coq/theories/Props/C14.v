(* Props/C14.v — property C14: maximum-entropy distributions match their marginals and have maximal entropy.
   Soundness of the dual certificate the check evaluates on dit's results: for potentials theta on the constrained
   groups, EVERY table p on the sample space whose constrained marginals equal d's has entropy at most
   mu log2 Z(theta) - <marginals of d, theta> + (1 - mu) log2 e.  Plus: the unconstrained maximum is the uniform
   distribution, chain monotonicity, and the meaning of the marginal check. *)
From Verif Require Import Info.
From Verif Require Import Info_Proofs Measures C14_Model C14_Proofs.
Open Scope R_scope.

Theorem C14_maxent_dual_bound : forall (theta : potentials) (ss : list outcome) (d p : pd),
  onodup ss = true -> ss <> [] -> keys p = ss -> nonneg_pd p = true -> theta_ok theta ss = true ->
  (forall g tab k, In (g, tab) theta -> (get0 k (marg p g) == get0 k (marg d g))%Q) ->
  (mass p == mass d)%Q ->
  entropy_list (map snd p) <= rden (ub_data theta ss d).
Proof. exact maxent_dual_bound. Qed.
Print Assumptions C14_maxent_dual_bound.

(* with at least one constraint the mass hypothesis follows from the marginals *)
Theorem C14_maxent_dual_bound_nonempty : forall (theta : potentials) (ss : list outcome) (d p : pd),
  theta <> [] ->
  onodup ss = true -> ss <> [] -> keys p = ss -> nonneg_pd p = true -> theta_ok theta ss = true ->
  (forall g tab k, In (g, tab) theta -> (get0 k (marg p g) == get0 k (marg d g))%Q) ->
  entropy_list (map snd p) <= rden (ub_data theta ss d).
Proof. exact maxent_dual_bound_nonempty. Qed.
Print Assumptions C14_maxent_dual_bound_nonempty.

Theorem C14_ub_readable : forall theta ss d,
  rden (ub_data theta ss d) = Q2R (mass d) * log2 (Zr theta ss) - Q2R (lin_term theta d) + (1 - Q2R (mass d)) / ln 2.
Proof. exact ub_readable. Qed.
Print Assumptions C14_ub_readable.

(* no constraints: nothing on the sample space has more entropy than the uniform distribution, which attains log2 |ss| *)
Theorem C14_uniform_unconstrained_max : forall ss p, onodup ss = true -> ss <> [] -> keys p = ss -> nonneg_pd p = true ->
  (mass p == 1)%Q -> entropy_list (map snd p) <= log2 (INR (length ss)).
Proof. exact uniform_unconstrained_max_normalised. Qed.
Print Assumptions C14_uniform_unconstrained_max.
Theorem C14_uniform_attains : forall ss, ss <> [] ->
  keys (uniform_pd ss) = ss /\ nonneg_pd (uniform_pd ss) = true /\ (mass (uniform_pd ss) == 1)%Q /\
  entropy_list (map snd (uniform_pd ss)) = log2 (INR (length ss)).
Proof. exact uniform_attains. Qed.
Print Assumptions C14_uniform_attains.

(* maximising over a smaller feasible set cannot give more: the chain of k-way maxent entropies is non-increasing *)
Theorem C14_chain_monotone : forall (F1 F2 : pd -> Prop) (H : pd -> R) p1 p2,
  (forall p, F2 p -> F1 p) -> (forall p, F1 p -> H p <= H p1) -> F2 p2 -> H p2 <= H p1.
Proof. exact chain_monotone. Qed.
Print Assumptions C14_chain_monotone.

(* meaning of the marginal check *)
Theorem C14_marg_match_spec : forall tol t1 t2 g k, marg_match tol t1 t2 g = true ->
  In k (keys (marg t1 g)) \/ In k (keys (marg t2 g)) ->
  (- tol <= get0 k (marg t1 g) - get0 k (marg t2 g) <= tol)%Q.
Proof. exact marg_match_spec. Qed.
Print Assumptions C14_marg_match_spec.

(* the bound is attained on an example, and its feasible set is inhabited *)
Theorem C14_example_tight : entropy_list (map snd ex_p) = rden (ub_data ex_theta ex_ss ex_d).
Proof. exact ex_tight. Qed.
Print Assumptions C14_example_tight.

(* singleton constraints: the product of the marginals is feasible and has the largest entropy (Proofs/C14_Product.v) *)
From Verif Require Import C14_Product.
Theorem C14_entropy_le_sum_marginals : forall (n : nat) (p : pd),
  NoDup (keys p) -> nonneg_pd p = true -> (mass p == 1)%Q -> (forall x, In x (keys p) -> length x = n) ->
  entropy_list (map snd p) <= rsum (map (fun i => entropy_list (map snd (marg p [i]))) (range n)).
Proof. exact entropy_le_sum_marginals. Qed.
Print Assumptions C14_entropy_le_sum_marginals.
Theorem C14_singleton_constraints_bound : forall (n : nat) (d p : pd),
  NoDup (keys p) -> nonneg_pd p = true -> (mass p == 1)%Q -> (forall x, In x (keys p) -> length x = n) ->
  (forall i k, (i < n)%nat -> (get0 k (marg p [i]) == get0 k (marg d [i]))%Q) ->
  entropy_list (map snd p) <= rsum (map (fun i => entropy_list (map snd (marg d [i]))) (range n)).
Proof. exact singleton_constraints_bound. Qed.
Print Assumptions C14_singleton_constraints_bound.
Theorem C14_entropy_product : forall (n : nat) (alph : list (list nat)) (d : pd),
  length alph = n -> (forall i, (i < n)%nat -> NoDup (nth i alph [])) ->
  nonneg_pd d = true -> (mass d == 1)%Q ->
  (forall x v, In (x, v) d -> (v == 0)%Q \/ forall i, (i < n)%nat -> In (nth i x 0%nat) (nth i alph [])) ->
  entropy_list (map snd (product_pd n (cart alph) d)) = rsum (map (fun i => entropy_list (map snd (marg d [i]))) (range n)).
Proof. exact entropy_product. Qed.
Print Assumptions C14_entropy_product.
