(* Props/C02.v — property C02: marginals and coalescings are exact pushforwards.
   Property theorems only; proofs live in Proofs/. *)
From Verif Require Import Dist Dist_Proofs C02_Model C02_Proofs.
Open Scope Q_scope.

(* each new outcome's probability is the sum over its fibre (table level, dict semantics) *)
Theorem C02_pushforward_prob : forall f d o, prob_of (pushforward f d) o == fibre_sum f d o.
Proof. exact pushforward_prob. Qed.
Print Assumptions C02_pushforward_prob.

(* total mass is preserved *)
Theorem C02_pushforward_mass : forall f d, mass (pushforward f d) == mass d.
Proof. exact pushforward_mass. Qed.
Print Assumptions C02_pushforward_mass.

(* the result table is duplicate-free and its keys are exactly the images *)
Theorem C02_pushforward_nodup : forall f d, NoDup (keys (pushforward f d)).
Proof. exact pushforward_nodup. Qed.
Print Assumptions C02_pushforward_nodup.

Theorem C02_pushforward_keys : forall f d o,
  In o (keys (pushforward f d)) <-> exists k, In k (keys d) /\ o = f k.
Proof. exact pushforward_keys. Qed.
Print Assumptions C02_pushforward_keys.

(* d.coalesce / marginal: what m[o] returns *)
Theorem C02_coalesce_lookup : forall idx d o v,
  dist_ok d ->
  lookup (coalesce_flat idx d) o = Some v ->
  v == fibre_sum (proj idx) (d_tbl d) o \/
  (d_sparse d = true /\ is_null (d_base d) (fibre_sum (proj idx) (d_tbl d) o) = true /\ v == 0).
Proof. exact coalesce_lookup. Qed.
Print Assumptions C02_coalesce_lookup.

Theorem C02_marginal_lookup : forall s d m o v,
  dist_ok d -> marginal s d = Some m -> lookup m o = Some v ->
  exists idx, parse_rvs d s true true = Some idx /\
   (v == fibre_sum (proj idx) (d_tbl d) o \/
    (d_sparse d = true /\ is_null (d_base d) (fibre_sum (proj idx) (d_tbl d) o) = true /\ v == 0)).
Proof. exact marginal_lookup. Qed.
Print Assumptions C02_marginal_lookup.

(* the result is aligned, duplicate-free, ordered like its sample space, complete when dense *)
Theorem C02_coalesce_WF : forall idx d, ss_wf (d_ss d) -> WF (coalesce_flat idx d).
Proof. exact coalesce_WF. Qed.
Print Assumptions C02_coalesce_WF.

(* its sample space contains the projection of the original one *)
Theorem C02_coalesce_ss_projection : forall idx d o,
  Forall (fun i => (i < d_nvars d)%nat) idx ->
  ss_mem (d_ss d) o = true -> ss_mem (d_ss (coalesce_flat idx d)) (proj idx o) = true.
Proof. exact coalesce_ss_projection. Qed.
Print Assumptions C02_coalesce_ss_projection.

(* base, sparsity, names of kept variables *)
Theorem C02_marginal_meta : forall s d m,
  marginal s d = Some m ->
  exists idx, parse_rvs d s true true = Some idx /\
    d_base m = d_base d /\ d_sparse m = d_sparse d /\ d_names m = select_names idx d /\
    d_tbl m = d_tbl (coalesce_flat idx d) /\ d_ss m = d_ss (coalesce_flat idx d).
Proof. exact marginal_meta. Qed.
Print Assumptions C02_marginal_meta.

Theorem C02_parse_rvs_valid : forall d s u srt idx,
  parse_rvs d s u srt = Some idx -> Forall (fun i => (i < d_nvars d)%nat) idx.
Proof. exact parse_rvs_valid. Qed.
Print Assumptions C02_parse_rvs_valid.

Theorem C02_marginalize_complement : forall s d idx,
  parse_rvs d s true true = Some idx ->
  marginalize s d =
  Some (with_names (select_names (filter (fun i => negb (nat_mem i idx)) (range (d_nvars d))) d)
                   (coalesce_flat (filter (fun i => negb (nat_mem i idx)) (range (d_nvars d))) d)).
Proof. exact marginalize_is_marginal_of_complement. Qed.
Print Assumptions C02_marginalize_complement.

(* marginalising in stages equals marginalising at once *)
Theorem C02_marginal_stages : forall I J t o,
  Forall (fun j => (j < length I)%nat) J ->
  prob_of (pushforward (proj J) (pushforward (proj I) t)) o
  == prob_of (pushforward (proj (map (fun j => nth j I 0%nat) J)) t) o.
Proof. exact marginal_stages. Qed.
Print Assumptions C02_marginal_stages.
