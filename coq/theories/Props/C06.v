(* Props/C06.v — property C06: divergences and dependence coefficients equal their definitions and axioms. *)
From Verif Require Import Info.
From Verif Require Import Measures C06_Model Info_Proofs C06_Proofs C06_JSD.
From Coq Require Import Permutation.
Open Scope R_scope.

(* Kullback-Leibler on label-aligned pairs: non-negative, zero on (p,p), infinite exactly when the
   first support is not inside the second *)
Theorem C06_kl_nonneg : forall l, pairs_ok l -> xent_inf l = false -> (mass1 l == 1)%Q -> (mass2 l <= 1)%Q ->
  0 <= kl_list (map fst l) (map snd l).
Proof. exact kl_pairs_nonneg. Qed.
Print Assumptions C06_kl_nonneg.

Theorem C06_kl_self : forall l, pairs_ok l -> (forall pq, In pq l -> fst pq = snd pq) ->
  kl_list (map fst l) (map snd l) = 0.
Proof. exact kl_pairs_self. Qed.
Print Assumptions C06_kl_self.

Theorem C06_kl_infinite_iff : forall l,
  xent_inf l = true <-> exists pq, In pq l /\ (0 < fst pq)%Q /\ (snd pq <= 0)%Q.
Proof. exact xent_inf_iff. Qed.
Print Assumptions C06_kl_infinite_iff.

(* variational distance: symmetric, in [0,1], zero on (p,p), independent of the stored order *)
Theorem C06_vd_sym : forall l, (vd_q (swap_pairs l) == vd_q l)%Q.
Proof. exact vd_q_sym. Qed.
Print Assumptions C06_vd_sym.

Theorem C06_vd_range : forall l, pairs_ok l -> (mass1 l <= 1)%Q -> (mass2 l <= 1)%Q -> (0 <= vd_q l)%Q /\ (vd_q l <= 1)%Q.
Proof. intros l H1 H2 H3. split; [apply vd_q_nonneg | apply vd_q_le_1; assumption]. Qed.
Print Assumptions C06_vd_range.

Theorem C06_vd_self : forall l, (forall pq, In pq l -> (fst pq == snd pq)%Q) -> (vd_q l == 0)%Q.
Proof. exact vd_q_self. Qed.
Print Assumptions C06_vd_self.

Theorem C06_vd_perm : forall l l', Permutation l l' -> (vd_q l == vd_q l')%Q.
Proof. exact vd_q_perm. Qed.
Print Assumptions C06_vd_perm.

(* Bhattacharyya coefficient and squared Hellinger distance: symmetric, in [0,1], order-independent *)
Theorem C06_bc_sym : forall l, bc_r (swap_pairs l) = bc_r l.
Proof. exact bc_r_sym. Qed.
Print Assumptions C06_bc_sym.

Theorem C06_bc_range : forall l, pairs_ok l -> (mass1 l <= 1)%Q -> (mass2 l <= 1)%Q -> 0 <= bc_r l <= 1.
Proof. intros l H1 H2 H3. split; [apply bc_r_nonneg; assumption | apply bc_r_le_1; assumption]. Qed.
Print Assumptions C06_bc_range.

Theorem C06_bc_perm : forall l l', Permutation l l' -> bc_r l = bc_r l'.
Proof. exact bc_r_perm. Qed.
Print Assumptions C06_bc_perm.

Theorem C06_hellinger_sq_range : forall l, pairs_ok l -> (mass1 l <= 1)%Q -> (mass2 l <= 1)%Q -> 0 <= 1 - bc_r l <= 1.
Proof. exact hellinger_sq_range. Qed.
Print Assumptions C06_hellinger_sq_range.

(* earth mover's distance: weak duality — the dual bound recomputed in the check never exceeds the cost
   of any feasible flow, so [dual bound, cost of an explicit coupling] brackets the optimum *)
Theorem C06_emd_weak_duality : forall c p q u f, flow_ok c p q f -> (dual_bound c p q u <= flow_cost c f)%Q.
Proof. exact emd_weak_duality. Qed.
Print Assumptions C06_emd_weak_duality.

(* ------------------------------------------------------------------------------------------ *)
(* Jensen-Shannon divergence with arbitrary weights (Proofs/C06_JSD.v): between 0 and the entropy of the
   weights for every weighted family of aligned pmfs, 0 for a family of equal pmfs; and the value the model
   assigns to jsd(ds, ws) is that quantity on the rows obtained by looking every distribution up on the
   union of the stored outcomes (matching by label) *)
Theorem C06_jsd_nonneg : forall ws rows n, fam_ok ws rows n -> 0 <= jsd_r ws rows n.
Proof. exact jsd_nonneg. Qed.
Print Assumptions C06_jsd_nonneg.

Theorem C06_jsd_le_entropy_of_weights : forall ws rows n, fam_ok ws rows n -> jsd_r ws rows n <= entropy_list ws.
Proof. exact jsd_le_entropy_weights. Qed.
Print Assumptions C06_jsd_le_entropy_of_weights.

Theorem C06_jsd_self : forall ws rows n p0, fam_ok ws rows n -> (forall p, In p rows -> p = p0) -> jsd_r ws rows n = 0.
Proof. exact jsd_self. Qed.
Print Assumptions C06_jsd_self.

Theorem C06_jsd_model_value : forall ds ws r,
  Forall Entropy_Bridge.clean ds -> Forall full_len ds -> jsd ds ws = XVal r ->
  rden r = jsd_r ws (jsd_rows ds) (length (jsd_keys ds)).
Proof. exact jsd_model_value. Qed.
Print Assumptions C06_jsd_model_value.

Theorem C06_jsd_model_bounds : forall ds ws r,
  jsd_input_ok ds ws -> jsd ds ws = XVal r -> 0 <= rden r <= entropy_list ws.
Proof. exact jsd_model_bounds. Qed.
Print Assumptions C06_jsd_model_bounds.
