(* Proofs/C07_Proofs.v — log and linear representations describe the same measure (C07).
   The LogOperations of dit/math/ops.py (add = logaddexp, mult = +, invert = -, add_reduce,
   normalize), base conversion (set_base) and the log branch of shannon.entropy, over the reals,
   for an arbitrary base b > 0, b <> 1 (lnb b <> 0; lnb b < 0 for 0 < b < 1). *)
From Verif Require Import Info.
From Verif Require Import C07_Model.
From Coq Require Import Lra.
Import ListNotations.
Open Scope R_scope.

(* ------------------------------------------------------------------------------------------ *)
(* admissible bases *)

Lemma lnb_ne0_2 : lnb BT2 <> 0.
Proof. simpl. pose proof ln2_pos as Hpos. lra. Qed.

Lemma lnb_ne0_e : lnb BTE <> 0.
Proof. simpl. lra. Qed.

Lemma Q2R_0' : Q2R 0 = 0.
Proof. unfold Q2R; simpl; field. Qed.

Lemma Q2R_1' : Q2R 1 = 1.
Proof. unfold Q2R; simpl; field. Qed.

Lemma lnb_ne0_Q q : (0 < q)%Q -> ~ (q == 1)%Q -> lnb (BTQ q) <> 0.
Proof.
  intros Hpos Hne1 Hln. simpl in Hln.
  apply Hne1. apply eqR_Qeq. rewrite Q2R_1'.
  assert (HposR : 0 < Q2R q).
  { rewrite <- Q2R_0'. apply Qlt_Rlt. exact Hpos. }
  rewrite <- (exp_ln (Q2R q) HposR). rewrite Hln. apply exp_0.
Qed.

(* generic list facts *)
Lemma rsum_map_scale {A} (f : A -> R) c l : rsum (map (fun x => f x * c) l) = rsum (map f l) * c.
Proof. induction l as [|x t IH]; simpl; [lra | rewrite IH; lra]. Qed.

Lemma rsum_map_ext {A} (f g : A -> R) l :
  (forall x, In x l -> f x = g x) -> rsum (map f l) = rsum (map g l).
Proof.
  induction l as [|x t IH]; intros Hext; simpl; [reflexivity|].
  rewrite (Hext x (or_introl eq_refl)). rewrite IH; [reflexivity|].
  intros y Hy. apply Hext. right. exact Hy.
Qed.

Lemma rsum_pos_nonempty l : l <> [] -> Forall (fun x => 0 < x) l -> 0 < rsum l.
Proof.
  intros Hne Hall. induction Hall as [|x t Hx Ht IH]; [congruence|].
  simpl. destruct t as [|y t'].
  - simpl. lra.
  - assert (Hpos : 0 < rsum (y :: t')) by (apply IH; discriminate). lra.
Qed.

Lemma nth_map_lt {A B} (f : A -> B) l i d d' :
  (i < length l)%nat -> nth i (map f l) d = f (nth i l d').
Proof.
  revert i. induction l as [|x t IH]; intros i Hi; [simpl in Hi; inversion Hi|].
  destruct i as [|j]; [reflexivity|]. simpl. apply IH. simpl in Hi. unfold lt in *. apply le_S_n. exact Hi.
Qed.

Lemma rden_r_sum l : rden (r_sum l) = rsum (map rden l).
Proof.
  induction l as [|x t IH]; [simpl; apply Q2R_0'|].
  destruct t as [|y t'].
  - simpl. lra.
  - change (r_sum (x :: y :: t')) with (RAdd x (r_sum (y :: t'))).
    change (rden (RAdd x (r_sum (y :: t')))) with (rden x + rden (r_sum (y :: t'))).
    rewrite IH. reflexivity.
Qed.

(* ------------------------------------------------------------------------------------------ *)
Section LogOps.
Variable b : btag.
Hypothesis lnb_ne0 : lnb b <> 0.

Definition blog (y : R) : R := ln y / lnb b.                               (* ops.log *)
Definition ladd (x y : R) : R := blog (bpow b x + bpow b y).               (* ops.add *)
Definition lreduce (xs : list R) : R := blog (rsum (map (bpow b) xs)).     (* ops.add_reduce *)
Definition lnormalize (xs : list R) : list R := map (fun x => x - lreduce xs) xs.  (* ops.normalize *)

(* 1. exp / log round trips *)
Lemma bpow_pos x : 0 < bpow b x.
Proof. unfold bpow. apply exp_pos. Qed.

Lemma bpow_blog y : 0 < y -> bpow b (blog y) = y.
Proof.
  intros Hy. unfold bpow, blog.
  replace (ln y / lnb b * lnb b) with (ln y) by (field; exact lnb_ne0).
  apply exp_ln. exact Hy.
Qed.

Lemma blog_bpow x : blog (bpow b x) = x.
Proof. unfold bpow, blog. rewrite ln_exp. field. exact lnb_ne0. Qed.

(* 2. add *)
Theorem exp_add x y : bpow b (ladd x y) = bpow b x + bpow b y.
Proof.
  unfold ladd. apply bpow_blog.
  pose proof (bpow_pos x) as Hx. pose proof (bpow_pos y) as Hy. lra.
Qed.

(* 3. mult *)
Theorem exp_mult x y : bpow b (x + y) = bpow b x * bpow b y.
Proof. unfold bpow. rewrite Rmult_plus_distr_r. apply exp_plus. Qed.

(* 4. invert *)
Theorem exp_invert x : bpow b (- x) = / bpow b x.
Proof. unfold bpow. rewrite <- exp_Ropp. f_equal. ring. Qed.

(* 5. add_reduce *)
Lemma rsum_bpow_pos xs : xs <> [] -> 0 < rsum (map (bpow b) xs).
Proof.
  intros Hne. apply rsum_pos_nonempty.
  - destruct xs as [|x t]; [congruence | discriminate].
  - apply Forall_forall. intros y Hy. apply in_map_iff in Hy.
    destruct Hy as [x [Hx _]]. subst y. apply bpow_pos.
Qed.

Theorem exp_add_reduce xs : xs <> [] -> bpow b (lreduce xs) = rsum (map (bpow b) xs).
Proof. intros Hne. unfold lreduce. apply bpow_blog. apply rsum_bpow_pos. exact Hne. Qed.

(* 6. normalize *)
Theorem exp_normalize_nth xs x :
  xs <> [] -> bpow b (x - lreduce xs) = bpow b x / rsum (map (bpow b) xs).
Proof.
  intros Hne. unfold Rminus. rewrite exp_mult, exp_invert, (exp_add_reduce xs Hne).
  reflexivity.
Qed.

Theorem exp_normalize xs : xs <> [] -> rsum (map (bpow b) (lnormalize xs)) = 1.
Proof.
  intros Hne. unfold lnormalize. rewrite map_map.
  rewrite (rsum_map_ext (fun x => bpow b (x - lreduce xs))
                        (fun x => bpow b x * / rsum (map (bpow b) xs))).
  - rewrite rsum_map_scale. pose proof (rsum_bpow_pos xs Hne) as Hpos. field. lra.
  - intros x _. apply (exp_normalize_nth xs x Hne).
Qed.

(* 7. base conversion *)
Theorem set_base_value (c : btag) x : lnb c <> 0 -> bpow c (x * (lnb b / lnb c)) = bpow b x.
Proof. intros Hc. unfold bpow. f_equal. field. exact Hc. Qed.

Theorem set_base_roundtrip (c : btag) x :
  lnb c <> 0 -> bpow b ((x * (lnb b / lnb c)) * (lnb c / lnb b)) = bpow b x.
Proof. intros Hc. f_equal. field. split; [exact lnb_ne0 | exact Hc]. Qed.

(* 8. log branch of the entropy *)
Theorem entropy_log_branch ps :
  Forall (fun p => 0 < p) ps ->
  rsum (map (fun p => - (bpow b (blog p) * blog p)) ps)
  = (- rsum (map (fun p => p * log2 p) ps)) * (ln 2 / lnb b).
Proof.
  intros Hall. pose proof ln2_pos as Hln2.
  induction Hall as [|p t Hp Ht IH]; simpl; [lra|].
  rewrite IH. rewrite (bpow_blog p Hp). unfold blog, log2. field.
  split; [exact lnb_ne0 | lra].
Qed.

(* 9. rendering of reflected data *)
Lemma rden_RInBase r : rden (RInBase b r) = rden r * (ln 2 / lnb b).
Proof. reflexivity. Qed.

Lemma rden_r_exp_Some x : rden (r_exp b (Some x)) = bpow b (Q2R x).
Proof. reflexivity. Qed.

Lemma rden_r_exp_None : rden (r_exp b None) = 0.
Proof. simpl. apply Q2R_0'. Qed.

Lemma rden_ops_add x y : rden (ops_add b (Some x) (Some y)) = bpow b (Q2R x) + bpow b (Q2R y).
Proof. reflexivity. Qed.

Lemma rden_ops_mult x y : rden (ops_mult b (Some x) (Some y)) = bpow b (Q2R x) * bpow b (Q2R y).
Proof. reflexivity. Qed.

Lemma rden_ops_invert x : rden (ops_invert b (Some x)) = / bpow b (Q2R x).
Proof. reflexivity. Qed.

Lemma rden_ops_add_reduce xs :
  rden (ops_add_reduce b (map Some xs)) = rsum (map (fun x => bpow b (Q2R x)) xs).
Proof. unfold ops_add_reduce. rewrite rden_r_sum. rewrite !map_map. reflexivity. Qed.

Lemma rden_ops_normalize xs i :
  rden (ops_normalize b (map Some xs) i)
  = rden (r_exp b (nth i (map Some xs) None)) / rsum (map (fun x => bpow b (Q2R x)) xs).
Proof. unfold ops_normalize. simpl. rewrite rden_ops_add_reduce. reflexivity. Qed.

(* the log-space operation, exponentiated, is the rendered linear operation *)
Theorem ops_add_sound x y : bpow b (ladd (Q2R x) (Q2R y)) = rden (ops_add b (Some x) (Some y)).
Proof. rewrite exp_add, rden_ops_add. reflexivity. Qed.

Theorem ops_mult_sound x y : bpow b (Q2R x + Q2R y) = rden (ops_mult b (Some x) (Some y)).
Proof. rewrite exp_mult, rden_ops_mult. reflexivity. Qed.

Theorem ops_invert_sound x : bpow b (- Q2R x) = rden (ops_invert b (Some x)).
Proof. rewrite exp_invert, rden_ops_invert. reflexivity. Qed.

Theorem ops_add_reduce_sound xs :
  xs <> [] -> bpow b (lreduce (map Q2R xs)) = rden (ops_add_reduce b (map Some xs)).
Proof.
  intros Hne. rewrite exp_add_reduce.
  - rewrite rden_ops_add_reduce, map_map. reflexivity.
  - destruct xs as [|x t]; [congruence | discriminate].
Qed.

Theorem ops_normalize_sound xs i :
  (i < length xs)%nat ->
  bpow b (nth i (lnormalize (map Q2R xs)) 0) = rden (ops_normalize b (map Some xs) i).
Proof.
  intros Hi.
  assert (Hne : map Q2R xs <> []).
  { destruct xs as [|x t]; [simpl in Hi; inversion Hi | discriminate]. }
  rewrite rden_ops_normalize. unfold lnormalize.
  rewrite (nth_map_lt (fun x => x - lreduce (map Q2R xs)) (map Q2R xs) i 0 0)
    by (rewrite map_length; exact Hi).
  rewrite (exp_normalize_nth _ _ Hne).
  rewrite (nth_map_lt Q2R xs i 0 0%Q Hi).
  rewrite (nth_map_lt Some xs i None 0%Q Hi).
  rewrite rden_r_exp_Some, map_map. reflexivity.
Qed.

End LogOps.

(* ------------------------------------------------------------------------------------------ *)
(* non-vacuity: base 2 and a base below one *)

Theorem exp_add_base2 x y : bpow BT2 (ladd BT2 x y) = bpow BT2 x + bpow BT2 y.
Proof. apply exp_add. exact lnb_ne0_2. Qed.

Lemma lnb_ne0_half : lnb (BTQ (1#2)) <> 0.
Proof.
  apply lnb_ne0_Q.
  - reflexivity.
  - intros Heq. discriminate Heq.
Qed.

Theorem exp_add_base_half x y :
  bpow (BTQ (1#2)) (ladd (BTQ (1#2)) x y) = bpow (BTQ (1#2)) x + bpow (BTQ (1#2)) y.
Proof. apply exp_add. exact lnb_ne0_half. Qed.

(* the base below one really has a negative log *)
Lemma lnb_half_neg : lnb (BTQ (1#2)) < 0.
Proof.
  simpl. replace (Q2R (1#2)) with (/ 2) by (unfold Q2R; simpl; field).
  rewrite ln_Rinv by lra. pose proof ln2_pos as Hpos. lra.
Qed.

Theorem entropy_log_branch_base_half ps :
  Forall (fun p => 0 < p) ps ->
  rsum (map (fun p => - (bpow (BTQ (1#2)) (blog (BTQ (1#2)) p) * blog (BTQ (1#2)) p)) ps)
  = (- rsum (map (fun p => p * log2 p) ps)) * (ln 2 / lnb (BTQ (1#2))).
Proof. apply entropy_log_branch. exact lnb_ne0_half. Qed.

Print Assumptions exp_add.
Print Assumptions entropy_log_branch.
