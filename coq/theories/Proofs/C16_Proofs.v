(* Proofs/C16_Proofs.v — meet / join as partitions (C16). *)
From Verif Require Import Info.
From Verif Require Import Dist Dist_Proofs C16_Model.
From Coq Require Import Lia Permutation.
Open Scope Q_scope.

Definition same_block (bs : blocks) (a b : outcome) : Prop :=
  exists blk, In blk bs /\ In a blk /\ In b blk.
Definition covers (bs : blocks) (os : list outcome) : Prop :=
  forall o, In o os <-> exists blk, In blk bs /\ In o blk.

(* membership in some block *)
Definition member (bs : blocks) (o : outcome) : Prop := exists blk, In blk bs /\ In o blk.

(* ---------- 1. the induced partition ---------------------------------------------------- *)

Definition kmember (acc : list (outcome * block)) (o : outcome) : Prop :=
  exists kb, In kb acc /\ In o (snd kb).

Definition keyed (g : list nat) (acc : list (outcome * block)) : Prop :=
  forall k b, In (k, b) acc -> forall x, In x b -> proj g x = k.

Lemma kmember_add key o acc x :
  kmember (add_to_block key o acc) x <-> x = o \/ kmember acc x.
Proof.
  induction acc as [|[k b] r IH]; simpl.
  - split.
    + intros [kb [[Hkb|[]] Hx]]. subst kb. simpl in Hx. destruct Hx as [Hx|[]]. left; auto.
    + intros [Hx|[kb [[] _]]]. subst x. exists (key, [o]). split; simpl; auto.
  - destruct (oeqb k key) eqn:E.
    + split.
      * intros [kb [[Hkb|Hkb] Hx]].
        -- subst kb. simpl in Hx. apply in_app_or in Hx as [Hx|[Hx|[]]].
           ++ right. exists (k, b). split; simpl; auto.
           ++ left; auto.
        -- right. exists kb. split; simpl; auto.
      * intros [Hx|[kb [[Hkb|Hkb] Hx]]].
        -- subst x. exists (k, b ++ [o]). split; simpl; auto. apply in_or_app. right; simpl; auto.
        -- subst kb. exists (k, b ++ [o]). split; simpl; auto. apply in_or_app. left; auto.
        -- exists kb. split; simpl; auto.
    + split.
      * intros [kb [[Hkb|Hkb] Hx]].
        -- right. exists kb. split; simpl; auto.
        -- assert (Hm : kmember (add_to_block key o r) x) by (exists kb; auto).
           apply IH in Hm as [Hm|[kb' [Hkb' Hx']]]; [left; auto|].
           right. exists kb'. split; simpl; auto.
      * intros [Hx|[kb [[Hkb|Hkb] Hx]]].
        -- assert (Hm : kmember (add_to_block key o r) x) by (apply IH; left; auto).
           destruct Hm as [kb' [Hkb' Hx']]. exists kb'. split; simpl; auto.
        -- exists kb. split; simpl; auto.
        -- assert (Hm : kmember (add_to_block key o r) x) by (apply IH; right; exists kb; auto).
           destruct Hm as [kb' [Hkb' Hx']]. exists kb'. split; simpl; auto.
Qed.

Lemma keyed_add g o acc : keyed g acc -> keyed g (add_to_block (proj g o) o acc).
Proof.
  induction acc as [|[k b] r IH]; intros HK; simpl.
  - intros k' b' [Hin|[]] x Hx. inversion Hin; subst. destruct Hx as [Hx|[]]. subst; auto.
  - destruct (oeqb k (proj g o)) eqn:E.
    + apply oeqb_eq in E. intros k' b' [Hin|Hin] x Hx.
      * inversion Hin; subst k' b'. apply in_app_or in Hx as [Hx|[Hx|[]]].
        -- apply (HK k b); simpl; auto.
        -- subst x. auto.
      * apply (HK k' b'); simpl; auto.
    + intros k' b' [Hin|Hin] x Hx.
      * apply (HK k' b'); simpl; auto.
      * apply (IH (fun k0 b0 H0 => HK k0 b0 (or_intror H0)) k' b' Hin x Hx).
Qed.

Lemma keys_add_in key o acc k :
  In k (map fst (add_to_block key o acc)) -> k = key \/ In k (map fst acc).
Proof.
  induction acc as [|[k0 b] r IH]; simpl.
  - intros [H|[]]; auto.
  - destruct (oeqb k0 key) eqn:E; simpl.
    + intros [H|H]; auto.
    + intros [H|H]; auto. apply IH in H as [H|H]; auto.
Qed.

Lemma keys_add_nodup key o acc :
  NoDup (map fst acc) -> NoDup (map fst (add_to_block key o acc)).
Proof.
  induction acc as [|[k0 b] r IH]; simpl; intros HN.
  - constructor; [intros []| constructor].
  - destruct (oeqb k0 key) eqn:E; simpl.
    + exact HN.
    + inversion HN as [|? ? Hnot HN']; subst. constructor.
      * intros Hin. apply keys_add_in in Hin as [Hin|Hin]; [|auto].
        subst k0. rewrite oeqb_refl in E. discriminate.
      * apply IH, HN'.
Qed.

Definition istep (g : list nat) (acc : list (outcome * block)) (o : outcome) :=
  add_to_block (proj g o) o acc.

Lemma fold_istep_inv g os : forall acc,
  keyed g acc -> NoDup (map fst acc) ->
  keyed g (fold_left (istep g) os acc) /\ NoDup (map fst (fold_left (istep g) os acc)) /\
  (forall x, kmember (fold_left (istep g) os acc) x <-> In x os \/ kmember acc x).
Proof.
  induction os as [|o os IH]; intros acc HK HN; simpl.
  - repeat split; auto. intros [[]|H]; auto.
  - destruct (IH (istep g acc o)) as [H1 [H2 H3]].
    + apply keyed_add, HK.
    + apply keys_add_nodup, HN.
    + repeat split; auto.
      * intros Hm. apply H3 in Hm as [Hm|Hm]; auto.
        unfold istep in Hm. apply kmember_add in Hm as [Hm|Hm]; auto.
      * intros Hm. apply H3. destruct Hm as [[Hm|Hm]|Hm]; auto.
        -- right. apply kmember_add. left; auto.
        -- right. apply kmember_add. right; auto.
Qed.

Lemma induced_unfold os g : induced os g = map snd (fold_left (istep g) os []).
Proof. reflexivity. Qed.

Lemma induced_inv os g :
  keyed g (fold_left (istep g) os []) /\ NoDup (map fst (fold_left (istep g) os [])) /\
  (forall x, kmember (fold_left (istep g) os []) x <-> In x os).
Proof.
  destruct (fold_istep_inv g os []) as [H1 [H2 H3]].
  - intros k b [].
  - constructor.
  - repeat split; auto.
    + intros Hm. apply H3 in Hm as [Hm|[kb [[] _]]]. auto.
    + intros Hm. apply H3. auto.
Qed.

Lemma member_map_snd (acc : list (outcome * block)) o : member (map snd acc) o <-> kmember acc o.
Proof.
  split.
  - intros [blk [Hb Ho]]. apply in_map_iff in Hb as [kb [Hkb Hin]]. subst blk. exists kb; auto.
  - intros [kb [Hin Ho]]. exists (snd kb). split; auto. apply in_map; auto.
Qed.

Theorem induced_covers os g : covers (induced os g) os.
Proof.
  intros o. destruct (induced_inv os g) as [_ [_ H3]].
  rewrite <- H3, <- member_map_snd. reflexivity.
Qed.

Lemma NoDup_fst_inj {A B} (l : list (A * B)) k b1 b2 :
  NoDup (map fst l) -> In (k, b1) l -> In (k, b2) l -> b1 = b2.
Proof.
  induction l as [|[k0 b0] r IH]; simpl; intros HN H1 H2; [tauto|].
  inversion HN as [|? ? Hnot HN']; subst.
  destruct H1 as [H1|H1], H2 as [H2|H2].
  - congruence.
  - inversion H1; subst. exfalso. apply Hnot. apply (in_map fst) in H2. exact H2.
  - inversion H2; subst. exfalso. apply Hnot. apply (in_map fst) in H1. exact H1.
  - apply IH; auto.
Qed.

Theorem induced_same_block os g a b :
  In a os -> In b os -> (same_block (induced os g) a b <-> proj g a = proj g b).
Proof.
  intros Ha Hb. destruct (induced_inv os g) as [HK [HN HM]]. rewrite induced_unfold.
  split.
  - intros [blk [Hblk [Hablk Hbblk]]].
    apply in_map_iff in Hblk as [[k blk'] [Heq Hin]]. simpl in Heq. subst blk'.
    rewrite (HK k blk Hin a Hablk), (HK k blk Hin b Hbblk). reflexivity.
  - intros Heq.
    apply HM in Ha as [[ka ba] [Hina Hxa]]. apply HM in Hb as [[kb bb] [Hinb Hxb]].
    simpl in Hxa, Hxb.
    assert (Hka : proj g a = ka) by (apply (HK ka ba); auto).
    assert (Hkb : proj g b = kb) by (apply (HK kb bb); auto).
    assert (Hk : kb = ka) by congruence. rewrite Hk in Hinb.
    assert (Hbb : ba = bb) by (apply (NoDup_fst_inj _ ka ba bb HN); auto). subst bb.
    exists ba. split; [|auto]. apply (in_map snd) in Hina. exact Hina.
Qed.

(* ---------- 2. join ---------------------------------------------------------------------- *)

Lemma proj_eq_iff S a b :
  proj S a = proj S b <-> (forall i, In i S -> nth i a 0%nat = nth i b 0%nat).
Proof.
  unfold proj. induction S as [|i S IH]; simpl.
  - split; [intros _ i []| reflexivity].
  - split.
    + intros H. inversion H as [[H1 H2]]. intros j [Hj|Hj]; [subst; auto| apply IH; auto].
    + intros H. f_equal; [apply H; auto| apply IH; intros j Hj; apply H; auto].
Qed.

Lemma In_ndedup x l : In x (ndedup l) <-> In x l.
Proof.
  induction l as [|y t IH]; simpl; [tauto|].
  destruct (nat_mem y t) eqn:E.
  - rewrite IH. split; auto. intros [H|H]; auto. subst. apply nat_mem_In; auto.
  - simpl. rewrite IH. tauto.
Qed.

Lemma In_ninsert x y l : In x (ninsert y l) <-> x = y \/ In x l.
Proof.
  induction l as [|z t IH]; simpl.
  - split; intros [H|H]; auto.
  - destruct (Nat.leb y z); simpl; [|rewrite IH]; split; intros H; intuition auto.
Qed.

Lemma In_nsort x l : In x (nsort l) <-> In x l.
Proof.
  induction l as [|y t IH]; simpl; [tauto|].
  rewrite In_ninsert, IH. split; intros [H|H]; auto.
Qed.

Lemma proj_join_iff gs a b :
  proj (nsort (ndedup (concat gs))) a = proj (nsort (ndedup (concat gs))) b <->
  (forall g, In g gs -> proj g a = proj g b).
Proof.
  rewrite proj_eq_iff. split.
  - intros H g Hg. apply proj_eq_iff. intros i Hi. apply H.
    apply In_nsort, In_ndedup, in_concat. exists g; auto.
  - intros H i Hi. apply In_nsort, In_ndedup, in_concat in Hi as [g [Hg Hi]].
    exact (proj1 (proj_eq_iff g a b) (H g Hg) i Hi).
Qed.

Theorem join_same_block os gs a b :
  In a os -> In b os ->
  (same_block (join_blocks os gs) a b <-> forall g, In g gs -> proj g a = proj g b).
Proof.
  intros Ha Hb. unfold join_blocks. rewrite (induced_same_block os _ a b Ha Hb).
  apply proj_join_iff.
Qed.

Theorem join_covers os gs : covers (join_blocks os gs) os.
Proof. apply induced_covers. Qed.

(* ---------- 3./4. meet ------------------------------------------------------------------- *)

Lemma intersects_spec c b : intersects c b = true <-> exists o, In o c /\ In o b.
Proof.
  unfold intersects. rewrite existsb_exists. split.
  - intros [o [Hc Hb]]. exists o. split; auto. apply omem_In; auto.
  - intros [o [Hc Hb]]. exists o. split; auto. apply omem_In; auto.
Qed.

Definition hit_of (comps : blocks) (b : block) := filter (fun c => intersects c b) comps.
Definition miss_of (comps : blocks) (b : block) := filter (fun c => negb (intersects c b)) comps.

Lemma merge_with_unfold comps b :
  merge_with comps b =
  match hit_of comps b with [] => miss_of comps b | _ => concat (hit_of comps b) :: miss_of comps b end.
Proof. reflexivity. Qed.

Lemma hit_or_miss comps b c : In c comps -> In c (hit_of comps b) \/ In c (miss_of comps b).
Proof.
  intros Hc. unfold hit_of, miss_of. rewrite !filter_In.
  destruct (intersects c b); simpl; auto.
Qed.

(* every old component is contained in some new component *)
Lemma merge_with_contains comps b c :
  In c comps -> exists c', In c' (merge_with comps b) /\ (forall x, In x c -> In x c').
Proof.
  intros Hc. rewrite merge_with_unfold.
  destruct (hit_or_miss comps b c Hc) as [Hh|Hm].
  - destruct (hit_of comps b) as [|h0 hr] eqn:E; [destruct Hh|].
    exists (concat (h0 :: hr)). split; [left; auto|].
    intros x Hx. apply in_concat. exists c; auto.
  - exists c. split; [|auto].
    destruct (hit_of comps b); [auto| right; auto].
Qed.

(* every new component's member was a member *)
Lemma merge_with_member_inv comps b x : member (merge_with comps b) x -> member comps x.
Proof.
  rewrite merge_with_unfold. intros [c [Hc Hx]].
  assert (Hmiss : In c (miss_of comps b) -> member comps x).
  { intros Hm. unfold miss_of in Hm. apply filter_In in Hm as [Hm _]. exists c; auto. }
  destruct (hit_of comps b) as [|h0 hr] eqn:E; [auto|].
  destruct Hc as [Hc|Hc]; [|auto].
  subst c. apply in_concat in Hx as [c [Hc Hx]].
  rewrite <- E in Hc. unfold hit_of in Hc. apply filter_In in Hc as [Hc _]. exists c; auto.
Qed.

Lemma merge_with_member comps b x : member (merge_with comps b) x <-> member comps x.
Proof.
  split; [apply merge_with_member_inv|].
  intros [c [Hc Hx]]. destruct (merge_with_contains comps b c Hc) as [c' [Hc' Hsub]].
  exists c'. auto.
Qed.

Lemma merge_with_same_mono comps b x y :
  same_block comps x y -> same_block (merge_with comps b) x y.
Proof.
  intros [c [Hc [Hx Hy]]]. destruct (merge_with_contains comps b c Hc) as [c' [Hc' Hsub]].
  exists c'. auto.
Qed.

Lemma merge_with_joins comps b x y :
  member comps x -> member comps y -> In x b -> In y b -> same_block (merge_with comps b) x y.
Proof.
  intros [cx [Hcx Hx]] [cy [Hcy Hy]] Hxb Hyb. rewrite merge_with_unfold.
  assert (Hhx : In cx (hit_of comps b)).
  { unfold hit_of. apply filter_In. split; auto. apply intersects_spec. exists x; auto. }
  assert (Hhy : In cy (hit_of comps b)).
  { unfold hit_of. apply filter_In. split; auto. apply intersects_spec. exists y; auto. }
  destruct (hit_of comps b) as [|h0 hr] eqn:E; [destruct Hhx|].
  exists (concat (h0 :: hr)). split; [left; auto|].
  split; apply in_concat; [exists cx| exists cy]; auto.
Qed.

Lemma fold_merge_member L : forall comps x,
  member (fold_left merge_with L comps) x <-> member comps x.
Proof.
  induction L as [|b L IH]; intros comps x; simpl; [reflexivity|].
  rewrite IH. apply merge_with_member.
Qed.

Lemma fold_merge_same_mono L : forall comps x y,
  same_block comps x y -> same_block (fold_left merge_with L comps) x y.
Proof.
  induction L as [|b L IH]; intros comps x y H; simpl; [exact H|].
  apply IH, merge_with_same_mono, H.
Qed.

Lemma fold_merge_joins L : forall comps b x y,
  In b L -> member comps x -> member comps y -> In x b -> In y b ->
  same_block (fold_left merge_with L comps) x y.
Proof.
  induction L as [|b0 L IH]; intros comps b x y Hb Hmx Hmy Hx Hy; simpl; [destruct Hb|].
  destruct Hb as [Hb|Hb].
  - subst b0. apply fold_merge_same_mono, merge_with_joins; auto.
  - apply (IH _ b); auto; apply merge_with_member; auto.
Qed.

Lemma member_singletons os x : member (map (fun o => [o]) os) x <-> In x os.
Proof.
  split.
  - intros [c [Hc Hx]]. apply in_map_iff in Hc as [o [Ho Hin]]. subst c.
    destruct Hx as [Hx|[]]. subst; auto.
  - intros H. exists [x]. split; [|left; auto]. apply in_map_iff. exists x; auto.
Qed.

Theorem meet_covers os gs : covers (meet_blocks os gs) os.
Proof.
  intros o. unfold meet_blocks.
  change (In o os <-> member (fold_left merge_with (concat (map (induced os) gs)) (map (fun o0 => [o0]) os)) o).
  rewrite fold_merge_member, member_singletons. reflexivity.
Qed.

Theorem meet_common_function os gs g a b :
  In g gs -> In a os -> In b os -> proj g a = proj g b -> same_block (meet_blocks os gs) a b.
Proof.
  intros Hg Ha Hb Heq.
  apply (induced_same_block os g a b Ha Hb) in Heq as [blk [Hblk [Hablk Hbblk]]].
  unfold meet_blocks. apply (fold_merge_joins _ _ blk); auto.
  - apply in_concat. exists (induced os g). split; auto. apply in_map; auto.
  - apply member_singletons; auto.
  - apply member_singletons; auto.
Qed.

(* finest: all components are R-connected *)
Section Finest.
  Variable R : outcome -> outcome -> Prop.
  Hypothesis Rrefl : forall x, R x x.
  Hypothesis Rsym : forall x y, R x y -> R y x.
  Hypothesis Rtrans : forall x y z, R x y -> R y z -> R x z.

  Definition connected (c : block) : Prop := forall x y, In x c -> In y c -> R x y.

  Lemma merge_with_connected comps b :
    connected b -> (forall c, In c comps -> connected c) ->
    forall c, In c (merge_with comps b) -> connected c.
  Proof.
    intros Hb Hcomps c Hc. rewrite merge_with_unfold in Hc.
    assert (Hmiss : In c (miss_of comps b) -> connected c).
    { intros Hm. unfold miss_of in Hm. apply filter_In in Hm as [Hm _]. auto. }
    destruct (hit_of comps b) as [|h0 hr] eqn:E; [auto|].
    destruct Hc as [Hc|Hc]; [|auto].
    subst c. rewrite <- E. intros x y Hx Hy.
    apply in_concat in Hx as [cx [Hcx Hx]]. apply in_concat in Hy as [cy [Hcy Hy]].
    unfold hit_of in Hcx, Hcy. apply filter_In in Hcx as [Hcx Hix]. apply filter_In in Hcy as [Hcy Hiy].
    apply intersects_spec in Hix as [ox [Hox Hoxb]]. apply intersects_spec in Hiy as [oy [Hoy Hoyb]].
    apply Rtrans with ox; [apply (Hcomps cx); auto|].
    apply Rtrans with oy; [apply Hb; auto|].
    apply (Hcomps cy); auto.
  Qed.

  Lemma fold_merge_connected L : forall comps,
    (forall b, In b L -> connected b) -> (forall c, In c comps -> connected c) ->
    forall c, In c (fold_left merge_with L comps) -> connected c.
  Proof.
    induction L as [|b L IH]; intros comps HL Hcomps; simpl; [exact Hcomps|].
    apply IH.
    - intros b' Hb'. apply HL. right; auto.
    - apply merge_with_connected; auto. apply HL. left; auto.
  Qed.
End Finest.

Theorem meet_finest os gs (R : outcome -> outcome -> Prop) :
  (forall x, R x x) -> (forall x y, R x y -> R y x) -> (forall x y z, R x y -> R y z -> R x z) ->
  (forall g a b, In g gs -> In a os -> In b os -> proj g a = proj g b -> R a b) ->
  forall a b, same_block (meet_blocks os gs) a b -> R a b.
Proof.
  intros Rrefl Rsym Rtrans Hcommon a b [c [Hc [Ha Hb]]].
  unfold meet_blocks in Hc.
  refine (fold_merge_connected R Rtrans _ _ _ _ c Hc a b Ha Hb).
  - intros blk Hblk x y Hx Hy.
    apply in_concat in Hblk as [bs [Hbs Hblk]]. apply in_map_iff in Hbs as [g [Hg Hgin]]. subst bs.
    assert (Hxo : In x os) by (apply (induced_covers os g); exists blk; auto).
    assert (Hyo : In y os) by (apply (induced_covers os g); exists blk; auto).
    apply (Hcommon g); auto.
    apply (induced_same_block os g x y Hxo Hyo). exists blk; auto.
  - intros c0 Hc0 x y Hx Hy. apply in_map_iff in Hc0 as [o [Ho _]]. subst c0.
    destruct Hx as [Hx|[]], Hy as [Hy|[]]. subst. apply Rrefl.
Qed.

(* ---------- 5. labels -------------------------------------------------------------------- *)

Definition disjoint_blocks (bs : blocks) : Prop :=
  forall b1 b2 o, In b1 bs -> In b2 bs -> In o b1 -> In o b2 -> b1 = b2.

Lemma label_of_ge o bs : forall i, member bs o -> (i <= label_of o bs i)%nat.
Proof.
  induction bs as [|c r IH]; intros i [blk [Hblk Ho]]; simpl; [destruct Hblk|].
  destruct (omem o c) eqn:E; [lia|].
  destruct Hblk as [Hblk|Hblk].
  - subst blk. apply omem_In in Ho. congruence.
  - assert (H : (S i <= label_of o r (S i))%nat) by (apply IH; exists blk; auto). lia.
Qed.

Lemma label_same_block_gen bs : forall i a b,
  member bs a -> member bs b -> disjoint_blocks bs ->
  (label_of a bs i = label_of b bs i <-> same_block bs a b).
Proof.
  induction bs as [|c r IH]; intros i a b Hma Hmb Hdis.
  - destruct Hma as [blk [[] _]].
  - assert (Hdis' : disjoint_blocks r).
    { intros b1 b2 o H1 H2. apply Hdis; right; auto. }
    assert (Hrest : forall o, member (c :: r) o -> omem o c = false -> member r o).
    { intros o [blk [[Hblk|Hblk] Ho]] E.
      - subst blk. apply omem_In in Ho. congruence.
      - exists blk; auto. }
    simpl. destruct (omem a c) eqn:Ea, (omem b c) eqn:Eb.
    + split; [|reflexivity]. intros _. exists c. split; [left; auto|].
      split; apply omem_In; auto.
    + split.
      * intros Hl. pose proof (label_of_ge b r (S i) (Hrest b Hmb Eb)) as Hge. lia.
      * intros [blk [Hblk [Hablk Hbblk]]]. apply omem_In in Ea.
        assert (Hc : c = blk) by (apply (Hdis c blk a); simpl; auto). subst blk.
        apply omem_In in Hbblk. congruence.
    + split.
      * intros Hl. pose proof (label_of_ge a r (S i) (Hrest a Hma Ea)) as Hge. lia.
      * intros [blk [Hblk [Hablk Hbblk]]]. apply omem_In in Eb.
        assert (Hc : c = blk) by (apply (Hdis c blk b); simpl; auto). subst blk.
        apply omem_In in Hablk. congruence.
    + rewrite (IH (S i) a b (Hrest a Hma Ea) (Hrest b Hmb Eb) Hdis'). split.
      * intros [blk [Hblk Hab]]. exists blk. split; [right; auto| auto].
      * intros [blk [[Hblk|Hblk] [Hablk Hbblk]]].
        -- subst blk. apply omem_In in Hablk. congruence.
        -- exists blk; auto.
Qed.

Theorem label_same_block bs a b :
  (exists blk, In blk bs /\ In a blk) -> (exists blk, In blk bs /\ In b blk) ->
  (forall b1 b2 o, In b1 bs -> In b2 bs -> In o b1 -> In o b2 -> b1 = b2) ->
  (label_of a bs 0 = label_of b bs 0 <-> same_block bs a b).
Proof. intros Ha Hb Hdis. apply label_same_block_gen; auto. Qed.

(* canonical ordering of the atoms does not change the partition *)
Lemma In_binsert c b l : In c (binsert b l) <-> c = b \/ In c l.
Proof.
  induction l as [|x r IH]; simpl.
  - split; intros [H|H]; auto.
  - destruct (qlt x b); simpl; [rewrite IH|]; split; intros H; intuition auto.
Qed.

Lemma In_canon_blocks c bs : In c (canon_blocks bs) <-> exists b0, In b0 bs /\ c = osort b0.
Proof.
  unfold canon_blocks. induction bs as [|b r IH]; simpl.
  - split; [intros []| intros [b0 [[] _]]].
  - rewrite In_binsert, IH. split.
    + intros [H|[b0 [Hb0 H]]]; [exists b; auto| exists b0; auto].
    + intros [b0 [[Hb0|Hb0] H]]; [subst; auto| right; exists b0; auto].
Qed.

Theorem canon_same_block bs a b : same_block (canon_blocks bs) a b <-> same_block bs a b.
Proof.
  split.
  - intros [c [Hc [Ha Hb]]]. apply In_canon_blocks in Hc as [b0 [Hb0 Hc]]. subst c.
    exists b0. rewrite !In_osort in *. auto.
  - intros [c [Hc [Ha Hb]]]. exists (osort c). rewrite !In_osort. split; auto.
    apply In_canon_blocks. exists c; auto.
Qed.

Theorem canon_covers bs os : covers (canon_blocks bs) os <-> covers bs os.
Proof.
  assert (Hm : forall o, (exists blk, In blk (canon_blocks bs) /\ In o blk) <-> (exists blk, In blk bs /\ In o blk)).
  { intros o. split.
    - intros [c [Hc Ho]]. apply In_canon_blocks in Hc as [b0 [Hb0 Hc]]. subst c.
      exists b0. rewrite In_osort in Ho. auto.
    - intros [c [Hc Ho]]. exists (osort c). rewrite In_osort. split; auto.
      apply In_canon_blocks. exists c; auto. }
  unfold covers. split; intros H o; [rewrite <- Hm| rewrite Hm]; apply H.
Qed.

(* the partitions produced by induced / join / meet are disjoint, so labels identify blocks *)
Theorem induced_disjoint os g : disjoint_blocks (induced os g).
Proof.
  destruct (induced_inv os g) as [HK [HN _]]. rewrite induced_unfold.
  intros b1 b2 o H1 H2 Ho1 Ho2.
  apply in_map_iff in H1 as [[k1 b1'] [E1 H1]]. apply in_map_iff in H2 as [[k2 b2'] [E2 H2]].
  simpl in E1, E2. subst b1' b2'.
  assert (Hk1 : proj g o = k1) by (apply (HK k1 b1); auto).
  assert (Hk2 : proj g o = k2) by (apply (HK k2 b2); auto).
  assert (Hk : k2 = k1) by congruence. rewrite Hk in H2.
  apply (NoDup_fst_inj _ k1 b1 b2 HN); auto.
Qed.

Theorem join_disjoint os gs : disjoint_blocks (join_blocks os gs).
Proof. apply induced_disjoint. Qed.

Lemma merge_with_disjoint comps b : disjoint_blocks comps -> disjoint_blocks (merge_with comps b).
Proof.
  intros Hdis. rewrite merge_with_unfold.
  assert (Hmm : forall b1 b2 o, In b1 (miss_of comps b) -> In b2 (miss_of comps b) ->
                                In o b1 -> In o b2 -> b1 = b2).
  { intros b1 b2 o H1 H2. unfold miss_of in H1, H2.
    apply filter_In in H1 as [H1 _]. apply filter_In in H2 as [H2 _]. apply Hdis; auto. }
  destruct (hit_of comps b) as [|h0 hr] eqn:E; [exact Hmm|].
  assert (Hhm : forall c o, In c (miss_of comps b) -> In o (concat (h0 :: hr)) -> In o c -> False).
  { intros c o Hc Ho Hoc. rewrite <- E in Ho. apply in_concat in Ho as [h [Hh Hoh]].
    unfold hit_of in Hh. unfold miss_of in Hc.
    apply filter_In in Hh as [Hh Hih]. apply filter_In in Hc as [Hc Hic].
    assert (Heq : h = c) by (apply (Hdis h c o); auto). subst h.
    rewrite Hih in Hic. discriminate. }
  intros b1 b2 o [H1|H1] [H2|H2] Ho1 Ho2.
  - congruence.
  - subst b1. exfalso. apply (Hhm b2 o); auto.
  - subst b2. exfalso. apply (Hhm b1 o); auto.
  - apply (Hmm b1 b2 o); auto.
Qed.

Theorem meet_disjoint os gs : disjoint_blocks (meet_blocks os gs).
Proof.
  unfold meet_blocks.
  assert (Hgen : forall L comps, disjoint_blocks comps -> disjoint_blocks (fold_left merge_with L comps)).
  { induction L as [|b L IH]; intros comps Hd; simpl; [exact Hd|]. apply IH, merge_with_disjoint, Hd. }
  apply Hgen. intros b1 b2 o H1 H2 Ho1 Ho2.
  apply in_map_iff in H1 as [o1 [E1 _]]. apply in_map_iff in H2 as [o2 [E2 _]]. subst b1 b2.
  destruct Ho1 as [Ho1|[]], Ho2 as [Ho2|[]]. congruence.
Qed.

Theorem canon_disjoint bs : disjoint_blocks bs -> disjoint_blocks (canon_blocks bs).
Proof.
  intros Hdis b1 b2 o H1 H2 Ho1 Ho2.
  apply In_canon_blocks in H1 as [c1 [Hc1 E1]]. apply In_canon_blocks in H2 as [c2 [Hc2 E2]].
  subst b1 b2. rewrite In_osort in Ho1, Ho2. f_equal. apply (Hdis c1 c2 o); auto.
Qed.

(* the inserted symbol (label in the canonical atom order) identifies the block *)
Corollary meet_label_iff os gs a b :
  In a os -> In b os ->
  (label_of a (canon_blocks (meet_blocks os gs)) 0 = label_of b (canon_blocks (meet_blocks os gs)) 0
   <-> same_block (meet_blocks os gs) a b).
Proof.
  intros Ha Hb. rewrite <- canon_same_block.
  pose proof (proj2 (canon_covers _ _) (meet_covers os gs)) as Hcov.
  apply label_same_block.
  - apply Hcov, Ha.
  - apply Hcov, Hb.
  - apply canon_disjoint, meet_disjoint.
Qed.

Corollary join_label_iff os gs a b :
  In a os -> In b os ->
  (label_of a (canon_blocks (join_blocks os gs)) 0 = label_of b (canon_blocks (join_blocks os gs)) 0
   <-> forall g, In g gs -> proj g a = proj g b).
Proof.
  intros Ha Hb. rewrite <- (join_same_block os gs a b Ha Hb), <- canon_same_block.
  pose proof (proj2 (canon_covers _ _) (join_covers os gs)) as Hcov.
  apply label_same_block.
  - apply Hcov, Ha.
  - apply Hcov, Hb.
  - apply canon_disjoint, join_disjoint.
Qed.

(* ---------- 6. insertion keeps the old variables ----------------------------------------- *)

Definition idx_ok (idx : option nat) (n : nat) : Prop :=
  match idx with Some i => (i <= n)%nat | None => True end.

Theorem drop_insert idx o l n :
  length o = n -> (match idx with Some i => (i <= n)%nat | None => True end) ->
  drop_at idx (insert_label idx o l) = o.
Proof.
  intros Hlen Hidx. destruct idx as [i|]; unfold drop_at, insert_label.
  - assert (Hl : length (firstn i o) = i) by (rewrite firstn_length; lia).
    rewrite firstn_app, Hl, Nat.sub_diag. rewrite firstn_O, app_nil_r.
    rewrite (firstn_all2 (n := i) (firstn i o)) by lia.
    rewrite skipn_app, Hl.
    rewrite (skipn_all2 (n := S i) (firstn i o)) by lia.
    replace (S i - i)%nat with 1%nat by lia. simpl. apply firstn_skipn.
  - apply removelast_last.
Qed.

Theorem insert_partition_keys idx bs t n :
  (forall kv, In kv t -> length (fst kv) = n) ->
  (match idx with Some i => (i <= n)%nat | None => True end) ->
  map (fun kv => drop_at idx (fst kv)) (insert_partition idx bs t) = map fst t.
Proof.
  intros Hlen Hidx. unfold insert_partition. rewrite map_map. apply map_ext_in.
  intros kv Hkv. simpl. apply (drop_insert idx (fst kv) _ n); auto.
Qed.

Theorem insert_partition_values idx bs t : map snd (insert_partition idx bs t) = map snd t.
Proof. unfold insert_partition. rewrite map_map. apply map_ext. reflexivity. Qed.

(* ---------- 7. non-vacuity --------------------------------------------------------------- *)

Definition ex_os : list outcome := [[0;0];[0;1];[1;2];[1;3]]%nat.

Example meet_example :
  meet_blocks ex_os [[0];[1]]%nat = [[[1;2];[1;3]]; [[0;0];[0;1]]]%nat.
Proof. vm_compute. reflexivity. Qed.

Example meet_example_canon :
  canon_blocks (meet_blocks ex_os [[0];[1]]%nat) = [[[0;0];[0;1]]; [[1;2];[1;3]]]%nat.
Proof. vm_compute. reflexivity. Qed.

Example meet_example_length : length (meet_blocks ex_os [[0];[1]]%nat) = 2%nat.
Proof. vm_compute. reflexivity. Qed.

Example join_example :
  join_blocks ex_os [[0];[1]]%nat = [[[0;0]]; [[0;1]]; [[1;2]]; [[1;3]]]%nat.
Proof. vm_compute. reflexivity. Qed.

Example join_example_length : length (join_blocks ex_os [[0];[1]]%nat) = 4%nat.
Proof. vm_compute. reflexivity. Qed.

Print Assumptions meet_finest.
Print Assumptions join_same_block.
Print Assumptions meet_common_function.
Print Assumptions label_same_block.
Print Assumptions insert_partition_keys.
Print Assumptions meet_label_iff.
Print Assumptions join_label_iff.
