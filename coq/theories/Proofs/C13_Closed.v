(* Proofs/C13_Closed.v — more closed forms for channel capacity (extends Proofs/C13_Proofs.v, part B):
   1. the noiseless channel of any size n has capacity at most log2 n;
   2. symmetric channels (every row a permutation of one row): C <= log2 m - H(row), with equality of
      the rate whenever the output distribution is uniform (in particular for the uniform input when
      all column sums agree). *)
From Verif Require Import Info.
From Verif Require Import Info_Proofs Measures C13_Model C13_Proofs.
From Coq Require Import Lra Lia Permutation.
Import ListNotations.
Open Scope R_scope.

(* ------------------------------------------------------------------------------------------ *)
(* 0. the uniform distribution on m letters *)

Definition unif (n : nat) : list Q := repeat (1 / inject_Z (Z.of_nat n))%Q n.

Lemma injZ_pos n : (0 < n)%nat -> (0 < inject_Z (Z.of_nat n))%Q.
Proof. intros H. unfold Qlt. simpl. lia. Qed.

Lemma unif_entry_pos n : (0 < n)%nat -> (0 < 1 / inject_Z (Z.of_nat n))%Q.
Proof.
  intros H. unfold Qdiv. rewrite Qmult_1_l. apply Qinv_lt_0_compat, injZ_pos, H.
Qed.

Lemma Q2R_inject_Z z : Q2R (inject_Z z) = IZR z.
Proof. unfold Q2R, inject_Z. simpl. field. Qed.

Lemma Q2R_unif_entry n : (0 < n)%nat -> Q2R (1 / inject_Z (Z.of_nat n)) = / INR n.
Proof.
  intros H. rewrite Q2R_div.
  - rewrite Q2R_1, Q2R_inject_Z, <- INR_IZR_INZ. unfold Rdiv. ring.
  - intros E. pose proof (injZ_pos n H) as Hp. rewrite E in Hp. discriminate Hp.
Qed.

Lemma unif_length n : length (unif n) = n.
Proof. unfold unif. apply repeat_length. Qed.

Lemma Forall_nonneg l : Forall (fun q => (0 <= q)%Q) l -> nonneg_l l = true.
Proof.
  unfold nonneg_l. rewrite forallb_forall, Forall_forall. intros H q Hq.
  apply Qle_bool_iff, H, Hq.
Qed.

Lemma unif_nonneg n : (0 < n)%nat -> nonneg_l (unif n) = true.
Proof.
  intros H. apply Forall_nonneg, Forall_forall. intros q Hq. unfold unif in Hq.
  apply repeat_spec in Hq. subst q. apply Qlt_le_weak, unif_entry_pos, H.
Qed.

Lemma qsum_repeat c n : (qsum (repeat c n) == inject_Z (Z.of_nat n) * c)%Q.
Proof.
  induction n as [|n IH].
  - simpl. ring.
  - change (repeat c (S n)) with (c :: repeat c n). cbn [qsum]. rewrite IH.
    rewrite Nat2Z.inj_succ. unfold Z.succ. rewrite inject_Z_plus.
    change (inject_Z 1) with 1%Q. ring.
Qed.

Lemma qsum_unif n : (0 < n)%nat -> (qsum (unif n) == 1)%Q.
Proof.
  intros H. unfold unif. rewrite qsum_repeat. field.
  intros E. pose proof (injZ_pos n H) as Hp. rewrite E in Hp. discriminate Hp.
Qed.

Lemma dom_b_repeat c : (0 < c)%Q -> forall row, dom_b row (repeat c (length row)) = true.
Proof.
  intros Hc. induction row as [|p row IH]; [reflexivity|].
  simpl. rewrite (Qle_bool_pos_false c Hc), IH. simpl. rewrite orb_true_r. reflexivity.
Qed.

(* ------------------------------------------------------------------------------------------ *)
(* 1. divergence of a pmf from the uniform distribution *)

Lemma xent_repeat c : forall row, Forall (fun x => (0 <= x)%Q) row ->
  xent_list row (repeat c (length row)) = - log2 (Q2R c) * rsum (map Q2R row).
Proof.
  induction row as [|p row IH]; intros Hn; [simpl; ring|].
  pose proof (Forall_inv Hn) as Hp. pose proof (Forall_inv_tail Hn) as Ht.
  simpl. rewrite (IH Ht). unfold xlogy. destruct (Qle_bool p 0) eqn:E.
  - rewrite (qle0_true_zero p Hp E). ring.
  - ring.
Qed.

Theorem letter_div_uniform m row :
  length row = m -> (0 < m)%nat -> Forall (fun x => (0 <= x)%Q) row -> (qsum row == 1)%Q ->
  rden (letter_div_data row (unif m)) = log2 (INR m) - entropy_list row.
Proof.
  intros Hl Hm Hn Hs. subst m. unfold letter_div_data. cbn [rden]. unfold kl_list, unif.
  rewrite (xent_repeat _ row Hn).
  rewrite (Q2R_unif_entry _ Hm), log2_inv by (apply lt_0_INR; exact Hm).
  rewrite <- Q2R_qsum, (Qeq_eqR _ _ Hs), Q2R_1. ring.
Qed.

(* ------------------------------------------------------------------------------------------ *)
(* 2. channels all of whose rows have the same entropy: the uniform output certifies the bound *)

Lemma rsum_map_scal (A : Type) (w : A -> R) (c : R) (L : list A) :
  rsum (map (fun x => w x * c) L) = c * rsum (map w L).
Proof. induction L as [|x t IH]; simpl; [ring|]. rewrite IH. ring. Qed.

Theorem equal_entropy_capacity m (P : chan) (r' : list Q) (h : R) :
  (0 < m)%nat ->
  (forall row, In row P ->
     length row = m /\ Forall (fun x => (0 <= x)%Q) row /\ (qsum row == 1)%Q /\ entropy_list row = h) ->
  length r' = length P -> nonneg_l r' = true -> (qsum r' == 1)%Q ->
  rden (mi_chan_data m P r') <= log2 (INR m) - h.
Proof.
  intros Hm HP Hlr Hnr Hsr.
  apply (capacity_upper_bound_stochastic m P (unif m) r'); try assumption.
  - rewrite forallb_forall. intros row Hin. destruct (HP row Hin) as (Hl & Hn & _ & _).
    rewrite (proj2 (Nat.eqb_eq _ _) Hl), (Forall_nonneg row Hn). reflexivity.
  - apply unif_length.
  - apply unif_nonneg, Hm.
  - unfold all_dominated. rewrite forallb_forall. intros row Hin.
    destruct (HP row Hin) as (Hl & _ & _ & _). subst m. unfold unif.
    apply dom_b_repeat. apply unif_entry_pos, Hm.
  - intros row Hin. apply (HP row Hin).
  - rewrite (qsum_unif m Hm). apply Qle_refl.
  - intros row Hin. destruct (HP row Hin) as (Hl & Hn & Hs & Hh).
    right. rewrite (letter_div_uniform m row Hl Hm Hn Hs), Hh. reflexivity.
Qed.

(* the rate itself, for any input whose output distribution is uniform *)
Theorem equal_entropy_rate m (P : chan) (r' : list Q) (h : R) :
  (0 < m)%nat ->
  (forall row, In row P ->
     length row = m /\ Forall (fun x => (0 <= x)%Q) row /\ (qsum row == 1)%Q /\ entropy_list row = h) ->
  length r' = length P -> (qsum r' == 1)%Q ->
  map Q2R (out_dist m P r') = map Q2R (unif m) ->
  rden (mi_chan_data m P r') = log2 (INR m) - h.
Proof.
  intros Hm HP Hlr Hsr Hout. unfold mi_chan_data. rewrite rden_r_sum, map_map.
  set (q' := out_dist m P r') in *.
  rewrite (map_ext_in _ (fun xr : list Q * Q => Q2R (snd xr) * (log2 (INR m) - h))).
  - rewrite rsum_map_scal, <- (map_map snd Q2R), (map_snd_combine _ _ P r' Hlr).
    rewrite <- Q2R_qsum, (Qeq_eqR _ _ Hsr), Q2R_1. ring.
  - intros [row c] Hin. cbn [rden fst snd]. f_equal.
    destruct (HP row (in_combine_l _ _ _ _ Hin)) as (Hl & Hn & Hs & Hh).
    rewrite (kl_list_ext row q' (unif m) Hout).
    pose proof (letter_div_uniform m row Hl Hm Hn Hs) as E. unfold letter_div_data in E.
    cbn [rden] in E. rewrite E, Hh. reflexivity.
Qed.

(* ------------------------------------------------------------------------------------------ *)
(* 3. symmetric channels: every row is a permutation of one row *)

Lemma qsum_perm l l' : Permutation l l' -> (qsum l == qsum l')%Q.
Proof.
  intros H. induction H as [|x l l' Hp IH|x y l|l l' l'' H1 IH1 H2 IH2]; simpl.
  - reflexivity.
  - rewrite IH. reflexivity.
  - ring.
  - rewrite IH1. exact IH2.
Qed.

Lemma symmetric_rows m (P : chan) (row : list Q) :
  (forall x, In x P -> Permutation row x) ->
  length row = m -> nonneg_l row = true -> (qsum row == 1)%Q ->
  forall x, In x P ->
    length x = m /\ Forall (fun q => (0 <= q)%Q) x /\ (qsum x == 1)%Q /\ entropy_list x = entropy_list row.
Proof.
  intros Hperm Hl Hn Hs x Hin. pose proof (Hperm x Hin) as Hp. repeat split.
  - rewrite <- (Permutation_length Hp). exact Hl.
  - apply (Permutation_Forall Hp), nonneg_Forall, Hn.
  - rewrite <- (qsum_perm _ _ Hp). exact Hs.
  - symmetry. apply entropy_perm, Hp.
Qed.

Theorem symmetric_capacity m (P : chan) (row r' : list Q) :
  (forall x, In x P -> Permutation row x) ->
  length row = m -> (0 < m)%nat -> nonneg_l row = true -> (qsum row == 1)%Q ->
  length r' = length P -> nonneg_l r' = true -> (qsum r' == 1)%Q ->
  rden (mi_chan_data m P r') <= log2 (INR m) - entropy_list row.
Proof.
  intros Hperm Hl Hm Hn Hs Hlr Hnr Hsr.
  apply equal_entropy_capacity; try assumption.
  apply (symmetric_rows m P row); assumption.
Qed.

Theorem symmetric_rate_uniform_output m (P : chan) (row r' : list Q) :
  (forall x, In x P -> Permutation row x) ->
  length row = m -> (0 < m)%nat -> nonneg_l row = true -> (qsum row == 1)%Q ->
  length r' = length P -> (qsum r' == 1)%Q ->
  map Q2R (out_dist m P r') = map Q2R (unif m) ->
  rden (mi_chan_data m P r') = log2 (INR m) - entropy_list row.
Proof.
  intros Hperm Hl Hm Hn Hs Hlr Hsr Hout.
  apply equal_entropy_rate; try assumption.
  apply (symmetric_rows m P row); assumption.
Qed.

(* ------------------------------------------------------------------------------------------ *)
(* 4. the noiseless channel of size n *)

Definition delta_row (n i : nat) : list Q := map (fun j => if Nat.eqb i j then 1%Q else 0%Q) (range n).
Definition identity_chan (n : nat) : chan :=
  map (fun i => map (fun j => if Nat.eqb i j then 1%Q else 0%Q) (range n)) (range n).

Lemma identity_chan_rows n : identity_chan n = map (delta_row n) (range n).
Proof. reflexivity. Qed.

Lemma range_length n : length (range n) = n.
Proof. unfold range. apply seq_length. Qed.

Lemma identity_chan_length n : length (identity_chan n) = n.
Proof. unfold identity_chan. rewrite map_length. apply range_length. Qed.

Lemma delta_row_length n i : length (delta_row n i) = n.
Proof. unfold delta_row. rewrite map_length. apply range_length. Qed.

Lemma nth_identity_chan n i : (i < n)%nat -> nth i (identity_chan n) [] = delta_row n i.
Proof.
  intros Hi. rewrite identity_chan_rows.
  rewrite (nth_indep _ [] (delta_row n 0%nat)) by (rewrite map_length, range_length; exact Hi).
  rewrite (map_nth (delta_row n)). unfold range. rewrite seq_nth by exact Hi. reflexivity.
Qed.

Lemma delta_row_01 n i : Forall (fun x => x = 0%Q \/ x = 1%Q) (delta_row n i).
Proof.
  apply Forall_forall. intros x Hx. unfold delta_row in Hx. apply in_map_iff in Hx.
  destruct Hx as (j & <- & _). destruct (Nat.eqb i j); [right|left]; reflexivity.
Qed.

Lemma delta_row_nonneg n i : Forall (fun x => (0 <= x)%Q) (delta_row n i).
Proof.
  eapply Forall_impl; [|apply delta_row_01]. intros x [->| ->]; discriminate.
Qed.

Lemma qsum_delta_seq i : forall k a,
  (qsum (map (fun j => if Nat.eqb i j then 1%Q else 0%Q) (seq a k))
   == if (a <=? i)%nat && (i <? a + k)%nat then 1 else 0)%Q.
Proof.
  induction k as [|k IH]; intros a.
  - simpl. destruct (Nat.leb_spec a i), (Nat.ltb_spec i (a + 0)); simpl; try reflexivity. lia.
  - cbn [seq map qsum]. rewrite (IH (S a)).
    destruct (Nat.eqb_spec i a), (Nat.leb_spec a i), (Nat.leb_spec (S a) i),
      (Nat.ltb_spec i (S a + k)), (Nat.ltb_spec i (a + S k)); simpl; try reflexivity; lia.
Qed.

Lemma qsum_delta_row n i : (i < n)%nat -> (qsum (delta_row n i) == 1)%Q.
Proof.
  intros Hi. unfold delta_row, range. rewrite qsum_delta_seq.
  destruct (Nat.leb_spec 0 i), (Nat.ltb_spec i (0 + n)); simpl; try reflexivity; lia.
Qed.

Lemma plogp_1 : plogp 1%Q = 0.
Proof.
  unfold plogp. replace (Qle_bool 1 0) with false by reflexivity. rewrite Q2R_1, log2_1. ring.
Qed.

Lemma entropy_01 l : Forall (fun x => x = 0%Q \/ x = 1%Q) l -> entropy_list l = 0.
Proof.
  intros H. unfold entropy_list. induction H as [|x t Hx Ht IH]; simpl; [ring|].
  destruct Hx as [-> | ->]; [rewrite plogp_0|rewrite plogp_1]; lra.
Qed.

Lemma delta_row_entropy n i : entropy_list (delta_row n i) = 0.
Proof. apply entropy_01, delta_row_01. Qed.

Theorem noiseless_letter_div n i : (0 < n)%nat -> (i < n)%nat ->
  rden (letter_div_data (nth i (identity_chan n) []) (unif n)) = log2 (INR n).
Proof.
  intros Hn Hi. rewrite (nth_identity_chan n i Hi).
  rewrite (letter_div_uniform n (delta_row n i) (delta_row_length n i) Hn
             (delta_row_nonneg n i) (qsum_delta_row n i Hi)).
  rewrite delta_row_entropy. ring.
Qed.

Lemma identity_chan_rows_ok n row : In row (identity_chan n) ->
  length row = n /\ Forall (fun x => (0 <= x)%Q) row /\ (qsum row == 1)%Q /\ entropy_list row = 0.
Proof.
  intros Hin. rewrite identity_chan_rows in Hin. apply in_map_iff in Hin.
  destruct Hin as (i & <- & Hi). apply in_range in Hi. repeat split.
  - apply delta_row_length.
  - apply delta_row_nonneg.
  - apply qsum_delta_row, Hi.
  - apply delta_row_entropy.
Qed.

Theorem noiseless_capacity n r' : (0 < n)%nat ->
  length r' = n -> nonneg_l r' = true -> (qsum r' == 1)%Q ->
  rden (mi_chan_data n (identity_chan n) r') <= log2 (INR n).
Proof.
  intros Hn Hl Hnr Hsr.
  replace (log2 (INR n)) with (log2 (INR n) - 0) by ring.
  apply equal_entropy_capacity; try assumption.
  - apply identity_chan_rows_ok.
  - rewrite identity_chan_length. exact Hl.
Qed.

(* ------------------------------------------------------------------------------------------ *)
(* 5. achievability: the uniform input, when all column sums agree *)

Lemma nth_vadd : forall u v j, length u = length v ->
  (nth j (vadd u v) 0 == nth j u 0 + nth j v 0)%Q.
Proof.
  induction u as [|p u IH]; intros [|p' v] j Hl; simpl in Hl; try discriminate.
  - destruct j; simpl; ring.
  - destruct j; simpl; [ring|]. apply IH. lia.
Qed.

Lemma nth_vscale c : forall u j, (nth j (vscale c u) 0 == c * nth j u 0)%Q.
Proof.
  induction u as [|p u IH]; intros j; destruct j; simpl; try ring. apply IH.
Qed.

Lemma nth_zeros : forall m j, nth j (zeros m) 0%Q = 0%Q.
Proof. unfold zeros. induction m as [|m IH]; intros [|j]; simpl; auto. Qed.

Lemma nth_wsum m j L : (forall xr, In xr L -> length (fst xr) = m) ->
  (nth j (wsum m L) 0 == qsum (map (fun xr : list Q * Q => snd xr * nth j (fst xr) 0) L))%Q.
Proof.
  induction L as [|xr t IH]; intros H.
  - simpl. rewrite nth_zeros. reflexivity.
  - assert (Hx := H xr (or_introl eq_refl)).
    assert (Ht := fun y Hy => H y (or_intror Hy)).
    cbn [wsum fold_right map qsum]. fold (wsum m t).
    rewrite nth_vadd by (rewrite vscale_length, (wsum_length m t Ht); exact Hx).
    rewrite nth_vscale, (IH Ht). reflexivity.
Qed.

Lemma const_input_col c j : forall (P : chan) n, length P = n ->
  (qsum (map (fun xr : list Q * Q => snd xr * nth j (fst xr) 0) (combine P (repeat c n)))
   == c * qsum (column j P))%Q.
Proof.
  induction P as [|row P IH]; intros [|n] Hl; simpl in Hl; try discriminate.
  - simpl. ring.
  - injection Hl as Hl. cbn [repeat combine map qsum fst snd column]. rewrite (IH n Hl).
    fold (column j P). ring.
Qed.

Lemma qsum_all_eq t : forall l, Forall (fun x => (x == t)%Q) l ->
  (qsum l == inject_Z (Z.of_nat (length l)) * t)%Q.
Proof.
  induction l as [|x l IH]; intros H.
  - simpl. ring.
  - cbn [qsum length]. rewrite (IH (Forall_inv_tail H)), (Forall_inv H).
    rewrite Nat2Z.inj_succ. unfold Z.succ. rewrite inject_Z_plus.
    change (inject_Z 1) with 1%Q. ring.
Qed.

Lemma map_Q2R_all_eq t : forall l, Forall (fun x => (x == t)%Q) l ->
  map Q2R l = map Q2R (repeat t (length l)).
Proof.
  induction l as [|x l IH]; intros H; [reflexivity|].
  cbn [length repeat map]. rewrite (IH (Forall_inv_tail H)), (Qeq_eqR _ _ (Forall_inv H)). reflexivity.
Qed.

Lemma map_Q2R_repeat_ext t t' n : (t == t')%Q -> map Q2R (repeat t n) = map Q2R (repeat t' n).
Proof.
  intros E. induction n as [|n IH]; [reflexivity|]. cbn [repeat map].
  rewrite IH, (Qeq_eqR _ _ E). reflexivity.
Qed.

(* the output distribution of the uniform input is uniform when all column sums agree *)
Lemma uniform_input_output m (P : chan) (s : Q) :
  (0 < m)%nat -> (0 < length P)%nat ->
  (forall row, In row P -> length row = m /\ (qsum row == 1)%Q) ->
  (forall j, (j < m)%nat -> (qsum (column j P) == s)%Q) ->
  map Q2R (out_dist m P (unif (length P))) = map Q2R (unif m).
Proof.
  intros Hm Hn Hrows Hcols.
  set (n := length P) in *. set (c := (1 / inject_Z (Z.of_nat n))%Q).
  set (o := out_dist m P (unif n)).
  assert (HLlen : forall xr, In xr (combine P (unif n)) -> length (fst xr) = m).
  { intros [row x] Hin. apply (Hrows row). exact (in_combine_l _ _ _ _ Hin). }
  assert (Holen : length o = m).
  { unfold o. rewrite out_dist_wsum, map_length. apply wsum_length, HLlen. }
  assert (Hall : Forall (fun x => (x == c * s)%Q) o).
  { apply Forall_forall. intros x Hx.
    destruct (In_nth o x 0%Q Hx) as (j & Hj & <-). rewrite Holen in Hj.
    unfold o. rewrite out_dist_wsum.
    change 0%Q with (Qred 0) at 1. rewrite (map_nth Qred), Qred_correct.
    rewrite (nth_wsum m j _ HLlen). unfold unif. fold c.
    rewrite (const_input_col c j P n eq_refl). rewrite (Hcols j Hj). reflexivity. }
  assert (Hone : (qsum o == 1)%Q).
  { unfold o. rewrite (qsum_out_dist m 1 P (unif n)).
    - rewrite (qsum_unif n Hn). ring.
    - apply unif_length.
    - exact Hrows. }
  rewrite (qsum_all_eq _ o Hall), Holen in Hone.
  rewrite (map_Q2R_all_eq _ o Hall), Holen. unfold unif.
  apply map_Q2R_repeat_ext.
  assert (Hz : ~ (inject_Z (Z.of_nat m) == 0)%Q).
  { intros E. pose proof (injZ_pos m Hm) as Hp. rewrite E in Hp. discriminate Hp. }
  rewrite <- Hone. field. exact Hz.
Qed.

Theorem equal_entropy_uniform_input_rate m (P : chan) (h : R) (s : Q) :
  (0 < m)%nat -> (0 < length P)%nat ->
  (forall row, In row P ->
     length row = m /\ Forall (fun x => (0 <= x)%Q) row /\ (qsum row == 1)%Q /\ entropy_list row = h) ->
  (forall j, (j < m)%nat -> (qsum (column j P) == s)%Q) ->
  rden (mi_chan_data m P (unif (length P))) = log2 (INR m) - h.
Proof.
  intros Hm Hn HP Hcols.
  apply equal_entropy_rate; try assumption.
  - apply unif_length.
  - apply qsum_unif, Hn.
  - apply (uniform_input_output m P s); try assumption.
    intros row Hin. destruct (HP row Hin) as (Hl & _ & Hs & _). split; assumption.
Qed.

(* a symmetric channel with equal column sums: the uniform input attains log2 m - H(row),
   which by symmetric_capacity is the maximum over all inputs *)
Theorem symmetric_uniform_input_rate m (P : chan) (row : list Q) (s : Q) :
  (forall x, In x P -> Permutation row x) ->
  length row = m -> (0 < m)%nat -> nonneg_l row = true -> (qsum row == 1)%Q ->
  (0 < length P)%nat ->
  (forall j, (j < m)%nat -> (qsum (column j P) == s)%Q) ->
  rden (mi_chan_data m P (unif (length P))) = log2 (INR m) - entropy_list row.
Proof.
  intros Hperm Hl Hm Hn Hs HnP Hcols.
  apply (equal_entropy_uniform_input_rate m P _ s); try assumption.
  apply (symmetric_rows m P row); assumption.
Qed.

Corollary symmetric_capacity_attained m (P : chan) (row r' : list Q) (s : Q) :
  (forall x, In x P -> Permutation row x) ->
  length row = m -> (0 < m)%nat -> nonneg_l row = true -> (qsum row == 1)%Q ->
  (forall j, (j < m)%nat -> (qsum (column j P) == s)%Q) ->
  length r' = length P -> nonneg_l r' = true -> (qsum r' == 1)%Q ->
  rden (mi_chan_data m P r') <= rden (mi_chan_data m P (unif (length P))).
Proof.
  intros Hperm Hl Hm Hn Hs Hcols Hlr Hnr Hsr.
  assert (HnP : (0 < length P)%nat).
  { destruct P as [|x P0]; [|simpl; lia]. destruct r' as [|c r0]; [|discriminate].
    simpl in Hsr. discriminate Hsr. }
  rewrite (symmetric_uniform_input_rate m P row s); try assumption.
  apply symmetric_capacity; assumption.
Qed.

(* the noiseless channel: the uniform input attains log2 n *)
Lemma nth_delta_row n i j : (j < n)%nat -> nth j (delta_row n i) 0%Q = if Nat.eqb i j then 1%Q else 0%Q.
Proof.
  intros Hj. unfold delta_row.
  rewrite (nth_indep _ 0%Q ((fun k => if Nat.eqb i k then 1%Q else 0%Q) 0%nat))
    by (rewrite map_length, range_length; exact Hj).
  rewrite (map_nth (fun k => if Nat.eqb i k then 1%Q else 0%Q)).
  unfold range. rewrite seq_nth by exact Hj. reflexivity.
Qed.

Lemma identity_chan_colsum n j : (j < n)%nat -> (qsum (column j (identity_chan n)) == 1)%Q.
Proof.
  intros Hj. unfold column. rewrite identity_chan_rows, map_map.
  rewrite (map_ext _ (fun i => if Nat.eqb j i then 1%Q else 0%Q)).
  - apply (qsum_delta_row n j Hj).
  - intros i. rewrite (nth_delta_row n i j Hj), Nat.eqb_sym. reflexivity.
Qed.

Theorem noiseless_uniform_rate n : (0 < n)%nat ->
  rden (mi_chan_data n (identity_chan n) (unif n)) = log2 (INR n).
Proof.
  intros Hn.
  pose proof (equal_entropy_uniform_input_rate n (identity_chan n) 0 1 Hn) as H.
  rewrite identity_chan_length in H. rewrite H; [ring|exact Hn| |].
  - apply identity_chan_rows_ok.
  - apply identity_chan_colsum.
Qed.

(* non-vacuity: a 3x3 symmetric channel *)
Example symmetric_example r' :
  length r' = 3%nat -> nonneg_l r' = true -> (qsum r' == 1)%Q ->
  rden (mi_chan_data 3 [[1 # 2; 1 # 4; 1 # 4]; [1 # 4; 1 # 2; 1 # 4]; [1 # 4; 1 # 4; 1 # 2]] r')
  <= log2 3 - entropy_list [1 # 2; 1 # 4; 1 # 4].
Proof.
  intros Hl Hn Hs.
  replace 3 with (INR 3) by (simpl; lra).
  apply symmetric_capacity; try assumption; try reflexivity; [|lia].
  intros x [<-|[<-|[<-|[]]]].
  - apply Permutation_refl.
  - apply perm_swap.
  - apply (perm_trans (perm_swap _ _ _)), perm_skip, perm_swap.
Qed.

Example identity_chan_3 : identity_chan 3 = noiseless3.
Proof. reflexivity. Qed.

Print Assumptions noiseless_capacity.
Print Assumptions symmetric_uniform_input_rate.
Print Assumptions noiseless_uniform_rate.
Print Assumptions symmetric_capacity.
