(* Proofs/C05_Nonneg.v — non-negativity of total correlation, dual total correlation, CAEKL mutual
   information (every candidate) and conditional mutual information.
   Part A: for an abstract set function h that is submodular on canonical sets (polymatroid section);
   Part B: for the formal measures of Model/Measures.v evaluated with such an h;
   Part C: for h := entropy of a table with strictly positive stored weights (Hs of CMI_Proofs). *)
From Verif Require Import Measures C05_Algebra CMI_Proofs.
From Coq Require Import Lra Permutation.
Open Scope R_scope.

(* ------------------------------------------------------------------------------------------ *)
(* membership in concatenations and unions of families *)

Lemma In_nunions x gs : In x (nunions gs) <-> exists g, In g gs /\ In x g.
Proof.
  unfold nunions. rewrite In_nset, in_concat. split; intros [g Hg]; exists g; tauto.
Qed.

Lemma In_nunion x A B : In x (nunion A B) <-> In x A \/ In x B.
Proof. unfold nunion. rewrite In_nset, in_app_iff. tauto. Qed.

Lemma concat_concat {A} (p : list (list (list A))) : concat (concat p) = concat (map (@concat A) p).
Proof.
  induction p as [|b p IH]; [reflexivity|]. cbn [concat map]. rewrite concat_app, IH. reflexivity.
Qed.

Lemma nunion_subset X Y : nsubset X Y = true -> nunion X Y = nset Y.
Proof.
  intros Hs. rewrite nsubset_spec in Hs. unfold nunion. apply nset_canonical.
  intros x. rewrite in_app_iff. split; [intros [Hx|Hx]; [apply Hs, Hx| exact Hx]| intros Hx; right; exact Hx].
Qed.

(* ------------------------------------------------------------------------------------------ *)
(* Part A — abstract polymatroid section *)

Section Polymatroid.
Variable h : list nat -> R.
(* submodularity in conditional-mutual-information form, on canonical sets *)
Hypothesis submod : forall A B C,
  0 <= h (nunion A C) + h (nunion B C) - h (nunion (nunion A B) C) - h (nset C).

Definition ch (X Y : list nat) : R := h (nunion X Y) - h (nset Y).          (* H(X|Y) *)

(* ch depends only on the sets of variables *)
Lemma ch_ext X X' Y Y' :
  (forall x, In x X <-> In x X') -> (forall x, In x Y <-> In x Y') -> ch X Y = ch X' Y'.
Proof.
  intros HX HY. unfold ch.
  replace (nunion X' Y') with (nunion X Y).
  2:{ unfold nunion. apply nset_canonical. intros x. rewrite !in_app_iff, (HX x), (HY x). tauto. }
  replace (nset Y') with (nset Y) by (apply nset_canonical; exact HY).
  reflexivity.
Qed.

Lemma ch_subset_zero X Y : nsubset X Y = true -> ch X Y = 0.
Proof. intros Hs. unfold ch. rewrite (nunion_subset X Y Hs). ring. Qed.

Lemma ch_nil Y : ch [] Y = 0.
Proof. apply ch_subset_zero. reflexivity. Qed.

Lemma ch_nonneg X Y : 0 <= ch X Y.
Proof.
  unfold ch. pose proof (submod X X Y) as Hsm.
  replace (nunion (nunion X X) Y) with (nunion X Y) in Hsm by seteq. lra.
Qed.

Lemma ch_mono_cond X Y Y' : 0 <= ch X Y - ch X (nunion Y Y').
Proof.
  unfold ch. pose proof (submod X Y' Y) as Hsm.
  replace (nunion (nunion X Y') Y) with (nunion X (nunion Y Y')) in Hsm by seteq.
  replace (nunion Y' Y) with (nset (nunion Y Y')) in Hsm by seteq. lra.
Qed.

(* the same, with the larger conditioning set given extensionally *)
Lemma ch_mono_cond_sub X Y W : (forall x, In x Y -> In x W) -> ch X W <= ch X Y.
Proof.
  intros Hsub. pose proof (ch_mono_cond X Y W) as Hm.
  rewrite (ch_ext X X (nunion Y W) W) in Hm; [lra| tauto|].
  intros x. rewrite In_nunion. split; [intros [Hx|Hx]; [apply Hsub, Hx| exact Hx]| tauto].
Qed.

Lemma ch_subadd X1 X2 Y : ch (nunion X1 X2) Y <= ch X1 Y + ch X2 Y.
Proof. unfold ch. pose proof (submod X1 X2 Y) as Hsm. lra. Qed.

Lemma ch_chain X1 X2 Y : ch (nunion X1 X2) Y = ch X1 Y + ch X2 (nunion X1 Y).
Proof.
  unfold ch. rewrite nset_nunion.
  replace (nunion X2 (nunion X1 Y)) with (nunion (nunion X1 X2) Y) by seteq. ring.
Qed.

Theorem cmi_h_nonneg X Y Z : 0 <= cmi_h h X Y Z.
Proof. unfold cmi_h. apply submod. Qed.

Lemma ch_nunions_cons g gs Y : ch (nunions (g :: gs)) Y = ch (nunion g (nunions gs)) Y.
Proof. apply ch_ext; [|tauto]. set_in. Qed.

Lemma ch_subadd_list gs Y : ch (nunions gs) Y <= rsum (map (fun g => ch g Y) gs).
Proof.
  induction gs as [|g gs IH].
  - cbn [map rsum]. change (nunions []) with (@nil nat). rewrite ch_nil. lra.
  - cbn [map rsum]. rewrite ch_nunions_cons.
    pose proof (ch_subadd g (nunions gs) Y) as Hs. lra.
Qed.

Theorem tc_abstract_nonneg gs Y : 0 <= rsum (map (fun g => ch g Y) gs) - ch (nunions gs) Y.
Proof. pose proof (ch_subadd_list gs Y) as Hs. lra. Qed.

Definition pairwise_disjoint (gs : list (list nat)) : Prop :=
  ForallOrdPairs (fun a b => forall x, In x a -> ~ In x b) gs.

(* chain rule along the list; P collects the groups already consumed *)
Lemma dtc_gen U Y gs : pairwise_disjoint gs ->
  forall P, (forall x, In x P -> In x U) ->
       (forall g, In g gs -> forall x, In x g -> In x U) ->
       (forall g, In g gs -> forall x, In x P -> ~ In x g) ->
  rsum (map (fun g => ch g (nunion (ndiff U g) Y)) gs) <= ch (nunions gs) (nunion P Y).
Proof.
  induction 1 as [|g gs Hg Hd IH]; intros P HPU HgU HPd.
  - cbn [map rsum]. change (nunions []) with (@nil nat). rewrite ch_nil. lra.
  - cbn [map rsum]. rewrite ch_nunions_cons, ch_chain.
    assert (H1 : ch g (nunion (ndiff U g) Y) <= ch g (nunion P Y)).
    { apply ch_mono_cond_sub. intros x. rewrite !In_nunion, In_ndiff.
      intros [Hx|Hx]; [left; split; [apply HPU, Hx| apply (HPd g (in_eq g gs) x Hx)]| right; exact Hx]. }
    assert (H2 : rsum (map (fun g0 => ch g0 (nunion (ndiff U g0) Y)) gs)
                 <= ch (nunions gs) (nunion (P ++ g) Y)).
    { apply IH.
      - intros x Hx. apply in_app_iff in Hx as [Hx|Hx]; [apply HPU, Hx| apply (HgU g (in_eq g gs) x Hx)].
      - intros g' Hg'. apply HgU. right. exact Hg'.
      - intros g' Hg' x Hx. apply in_app_iff in Hx as [Hx|Hx].
        + apply (HPd g'); [right; exact Hg'| exact Hx].
        + rewrite Forall_forall in Hg. apply (Hg g' Hg' x Hx). }
    rewrite (ch_ext (nunions gs) (nunions gs) (nunion g (nunion P Y)) (nunion (P ++ g) Y)); [lra| tauto|].
    intros x. rewrite !In_nunion, in_app_iff. tauto.
Qed.

Theorem dtc_abstract_nonneg gs Y : pairwise_disjoint gs ->
  0 <= ch (nunions gs) Y - rsum (map (fun g => ch g (nunion (ndiff (nunions gs) g) Y)) gs).
Proof.
  intros Hd.
  pose proof (dtc_gen (nunions gs) Y gs Hd []) as Hg.
  rewrite (ch_ext (nunions gs) (nunions gs) (nunion [] Y) Y) in Hg.
  - assert (Hle : rsum (map (fun g => ch g (nunion (ndiff (nunions gs) g) Y)) gs) <= ch (nunions gs) Y).
    { apply Hg.
      - intros x [].
      - intros g Hin x Hx. apply In_nunions. exists g. split; assumption.
      - intros g _ x []. }
    lra.
  - tauto.
  - intros x. rewrite In_nunion. simpl. tauto.
Qed.

Theorem caekl_abstract_nonneg (part : list (list (list nat))) Y : (1 < length part)%nat ->
  0 <= (rsum (map (fun blk => ch (concat blk) Y) part) - ch (concat (concat part)) Y)
       / INR (length part - 1).
Proof.
  intros Hlen.
  assert (Hnum : 0 <= rsum (map (fun blk => ch (concat blk) Y) part) - ch (concat (concat part)) Y).
  { pose proof (ch_subadd_list (map (@concat nat) part) Y) as Hs. rewrite map_map in Hs.
    rewrite (ch_ext (nunions (map (@concat nat) part)) (concat (concat part)) Y Y) in Hs; [lra| |tauto].
    intros x. unfold nunions. rewrite In_nset, concat_concat. tauto. }
  assert (Hden : 0 < INR (length part - 1)) by (apply lt_0_INR; lia).
  unfold Rdiv. apply Rmult_le_pos; [exact Hnum|]. left. apply Rinv_0_lt_compat. exact Hden.
Qed.

End Polymatroid.

(* ------------------------------------------------------------------------------------------ *)
(* Part B — the formal measures of Model/Measures.v, for an abstract submodular h *)

(* evaluation of cond_H, shortcut included: no side condition *)
Lemma condH_eval_ch h n X Y t : cond_H n X Y = Some t -> heval h t = ch h X Y.
Proof.
  intros Hc. rewrite (condH_eval h n X Y t Hc).
  destruct (nsubset X Y) eqn:Hs; [|reflexivity].
  symmetry. apply ch_subset_zero. exact Hs.
Qed.

Lemma osum_map_eval {A} h (f : A -> option (list hterm)) (F : A -> R) (l : list A) :
  (forall a t, In a l -> f a = Some t -> heval h t = F a) ->
  forall t, osum (map f l) = Some t -> heval h t = rsum (map F l).
Proof.
  induction l as [|a l IH]; intros Hf t Ht.
  - cbn [map osum] in Ht. injection Ht as <-. reflexivity.
  - cbn [map osum] in Ht. apply oapp_inv in Ht as (ta & tb & Ha & Hb & ->).
    rewrite heval_app. cbn [map rsum].
    rewrite (Hf a ta (in_eq a l) Ha), (IH (fun a' t' Hin => Hf a' t' (in_cons a a' l Hin)) tb Hb).
    reflexivity.
Qed.

Theorem total_correlation_eval h n gs cr t : total_correlation n gs cr = Some t ->
  heval h t = rsum (map (fun g => ch h g cr) gs) - ch h (nunions gs) cr.
Proof.
  unfold total_correlation. intros Ht. oinv.
  rewrite heval_app, heval_scale, Q2R_m1.
  match goal with Hs : osum (map _ gs) = Some _ |- _ =>
    rewrite (osum_map_eval h (fun g => cond_H n g cr) (fun g => ch h g cr) gs
               (fun a t _ Hc => condH_eval_ch h n a cr t Hc) _ Hs) end.
  match goal with Hc : cond_H _ _ _ = Some _ |- _ => rewrite (condH_eval_ch h n _ _ _ Hc) end.
  ring.
Qed.

Theorem dual_total_correlation_eval h n gs cr t : dual_total_correlation n gs cr = Some t ->
  heval h t = ch h (nunions gs) cr
              - rsum (map (fun g => ch h g (nunion (ndiff (nunions gs) g) cr)) gs).
Proof.
  unfold dual_total_correlation, residual_entropy, others. intros Ht. oinv.
  rewrite heval_app, heval_scale, Q2R_m1.
  match goal with Hs : osum (map _ gs) = Some _ |- _ =>
    rewrite (osum_map_eval h (fun g => cond_H n g (nunion (ndiff (nunions gs) g) cr))
               (fun g => ch h g (nunion (ndiff (nunions gs) g) cr)) gs
               (fun a t _ Hc => condH_eval_ch h n a _ t Hc) _ Hs) end.
  match goal with Hc : cond_H _ _ _ = Some _ |- _ => rewrite (condH_eval_ch h n _ _ _ Hc) end.
  ring.
Qed.

(* I(X:Y|Z) as the two-group co-information, without any side condition *)
Theorem coinformation2_eval h n X Y Z t : coinformation n [X;Y] Z = Some t ->
  heval h t = cmi_h h X Y Z.
Proof.
  unfold coinformation. cbn [sublists map app length]. intros Ht. oinv.
  repeat rewrite heval_app. repeat rewrite heval_scale. rewrite heval_nil.
  repeat match goal with
  | H : cond_H _ _ _ = Some _ |- _ => apply (condH_eval_ch h) in H; rewrite H; clear H
  end.
  cbn [sign Nat.even]. rewrite ?Q2R_m1, ?RMicromega.Q2R_1.
  change (nunions []) with (@nil nat). rewrite ch_nil.
  unfold ch, cmi_h.
  replace (nunion (nunions [X]) Z) with (nunion X Z) by seteq.
  replace (nunion (nunions [Y]) Z) with (nunion Y Z) by seteq.
  replace (nunion (nunions [X;Y]) Z) with (nunion (nunion X Y) Z) by seteq.
  ring.
Qed.

(* CAEKL: structure of the candidate list *)
Lemma gdedup_In g gs : In g (gdedup gs) <-> In g gs.
Proof.
  induction gs as [|a gs IH]; cbn [gdedup]; [tauto|].
  destruct (omem a gs) eqn:E.
  - rewrite IH. apply omem_In in E. split; [intros Hin; right; exact Hin|].
    intros [Heq|Hin]; [subst; exact E| exact Hin].
  - simpl. rewrite IH. tauto.
Qed.

Lemma insert_everywhere_concat {A} (x : A) p : forall p', In p' (insert_everywhere x p) ->
  forall g, In g (concat p') <-> g = x \/ In g (concat p).
Proof.
  induction p as [|b r IH]; intros p' Hin g; cbn [insert_everywhere] in Hin.
  - destruct Hin.
  - destruct Hin as [<-|Hin].
    + cbn [concat]. rewrite !in_app_iff. simpl. intuition congruence.
    + apply in_map_iff in Hin as (q & <- & Hq). cbn [concat]. rewrite !in_app_iff, (IH q Hq g). tauto.
Qed.

Lemma set_partitions_concat {A} (l : list A) : forall p, In p (set_partitions l) ->
  forall g, In g (concat p) <-> In g l.
Proof.
  induction l as [|x l IH]; intros p Hin g; cbn [set_partitions] in Hin.
  - destruct Hin as [<-|[]]. simpl. tauto.
  - apply in_flat_map in Hin as (q & Hq & Hin). destruct Hin as [<-|Hin].
    + cbn [concat]. simpl. rewrite (IH q Hq g). intuition congruence.
    + rewrite (insert_everywhere_concat x q p Hin g), (IH q Hq g). simpl. intuition congruence.
Qed.

Lemma Q2R_inv_nat k : (0 < k)%nat -> Q2R (1 / inject_Z (Z.of_nat k)) = / INR k.
Proof.
  intros Hk. unfold Qdiv. rewrite Q2R_mult, RMicromega.Q2R_1, Q2R_inv.
  - rewrite INR_IZR_INZ. unfold Q2R, inject_Z. cbn [Qnum Qden]. rewrite Rinv_1, Rmult_1_r, Rmult_1_l. reflexivity.
  - unfold Qeq, inject_Z. cbn [Qnum Qden]. lia.
Qed.

Theorem caekl_candidate_eval h n gs cr tm : In (Some tm) (caekl_candidates n gs cr) ->
  exists part, (1 < length part)%nat /\
    (forall x, In x (concat (concat part)) <-> In x (concat gs)) /\
    heval h tm = (rsum (map (fun blk => ch h (concat blk) cr) part) - ch h (concat gs) cr)
                 / INR (length part - 1).
Proof.
  unfold caekl_candidates. intros Hin.
  apply in_map_iff in Hin as (part & Heq & Hin).
  apply filter_In in Hin as [Hin Hlen]. apply Nat.ltb_lt in Hlen.
  exists part. split; [exact Hlen|]. split.
  - intros x. rewrite !in_concat. split; intros (g & Hg & Hx); exists g; split; try exact Hx.
    + apply gdedup_In. apply (set_partitions_concat _ part Hin g). exact Hg.
    + apply (set_partitions_concat _ part Hin g). apply gdedup_In. exact Hg.
  - unfold mv_entropy in Heq. oinv.
    rewrite heval_scale, heval_app, heval_scale, Q2R_m1, (Q2R_inv_nat (length part - 1)) by lia.
    match goal with Hs : osum (map _ part) = Some _ |- _ =>
      rewrite (osum_map_eval h (fun blk => cond_H n (concat blk) cr)
                 (fun blk => ch h (concat blk) cr) part
                 (fun a t _ Hc => condH_eval_ch h n _ cr t Hc) _ Hs) end.
    match goal with Hc : cond_H _ _ _ = Some _ |- _ => rewrite (condH_eval_ch h n _ _ _ Hc) end.
    unfold Rdiv. ring.
Qed.

Section MeasuresNonneg.
Variable h : list nat -> R.
Hypothesis submod : forall A B C,
  0 <= h (nunion A C) + h (nunion B C) - h (nunion (nunion A B) C) - h (nset C).

Theorem tc_nonneg_h n gs cr t : total_correlation n gs cr = Some t -> 0 <= heval h t.
Proof.
  intros Ht. rewrite (total_correlation_eval h n gs cr t Ht). apply tc_abstract_nonneg, submod.
Qed.

Theorem dtc_nonneg_h n gs cr t : dual_total_correlation n gs cr = Some t -> pairwise_disjoint gs ->
  0 <= heval h t.
Proof.
  intros Ht Hd. rewrite (dual_total_correlation_eval h n gs cr t Ht).
  apply dtc_abstract_nonneg; [exact submod| exact Hd].
Qed.

Theorem cmi_nonneg_h n X Y Z t : coinformation n [X;Y] Z = Some t -> 0 <= heval h t.
Proof.
  intros Ht. rewrite (coinformation2_eval h n X Y Z t Ht). apply cmi_h_nonneg, submod.
Qed.

Theorem caekl_candidates_nonneg_h n gs cr tm :
  In (Some tm) (caekl_candidates n gs cr) -> 0 <= heval h tm.
Proof.
  intros Hin. destruct (caekl_candidate_eval h n gs cr tm Hin) as (part & Hlen & Hmem & ->).
  rewrite (ch_ext h (concat gs) (concat (concat part)) cr cr); [|intros x; symmetry; apply Hmem| tauto].
  apply caekl_abstract_nonneg; [exact submod| exact Hlen].
Qed.

End MeasuresNonneg.

(* ------------------------------------------------------------------------------------------ *)
(* Part C — the entropies of a table with strictly positive stored weights *)

Lemma proj_eq_iff S o o' :
  proj S o = proj S o' <-> forall i, In i S -> nth i o 0%nat = nth i o' 0%nat.
Proof. unfold proj. apply map_ext_in_iff. Qed.

(* the entropy of a list of variables depends only on the set of variables listed *)
Lemma Hs_set_ext S S' t : (forall x, In x S <-> In x S') -> Hs S t = Hs S' t.
Proof.
  intros Hx. apply Hs_ext. intros o o' _ _. rewrite !proj_eq_iff.
  split; intros Hp i Hi; apply Hp, Hx, Hi.
Qed.

Lemma Hs_nset S t : Hs (nset S) t = Hs S t.
Proof. apply Hs_set_ext. intros x. apply In_nset. Qed.

Lemma Hs_nunion A B t : Hs (nunion A B) t = Hs (A ++ B) t.
Proof. unfold nunion. apply Hs_nset. Qed.

Lemma Hs_submod t A B C : table_ok t ->
  0 <= Hs (nunion A C) t + Hs (nunion B C) t - Hs (nunion (nunion A B) C) t - Hs (nset C) t.
Proof.
  intros Hok. pose proof (cmi_nonneg A B C t Hok) as Hc.
  rewrite !Hs_nunion, Hs_nset.
  rewrite (Hs_set_ext (nunion A B ++ C) (A ++ B ++ C) t); [exact Hc|].
  intros x. rewrite !in_app_iff, In_nunion. tauto.
Qed.

Section Table.
Variable t : pd.
Hypothesis Hok : table_ok t.
Let hT : list nat -> R := fun S => Hs S t.

Lemma hT_submod A B C :
  0 <= hT (nunion A C) + hT (nunion B C) - hT (nunion (nunion A B) C) - hT (nset C).
Proof. unfold hT. apply Hs_submod, Hok. Qed.

Theorem tc_nonneg_table n gs cr tm :
  total_correlation n gs cr = Some tm -> 0 <= heval (fun S => Hs S t) tm.
Proof. apply (tc_nonneg_h hT hT_submod). Qed.

Theorem dtc_nonneg_table n gs cr tm :
  dual_total_correlation n gs cr = Some tm -> pairwise_disjoint gs -> 0 <= heval (fun S => Hs S t) tm.
Proof. apply (dtc_nonneg_h hT hT_submod). Qed.

Theorem cmi_nonneg_table n X Y Z tm :
  coinformation n [X;Y] Z = Some tm -> 0 <= heval (fun S => Hs S t) tm.
Proof. apply (cmi_nonneg_h hT hT_submod). Qed.

Theorem caekl_candidates_nonneg_table n gs cr tm :
  In (Some tm) (caekl_candidates n gs cr) -> 0 <= heval (fun S => Hs S t) tm.
Proof. apply (caekl_candidates_nonneg_h hT hT_submod). Qed.

(* conditional entropy itself (residual entropy is a sum of such terms) *)
Theorem condH_nonneg_table n X Y tm : cond_H n X Y = Some tm -> 0 <= heval (fun S => Hs S t) tm.
Proof.
  intros Hc. change (0 <= heval hT tm).
  rewrite (condH_eval_ch hT n X Y tm Hc). apply ch_nonneg, hT_submod.
Qed.

End Table.

(* non-vacuity: the measures are defined (Some _) on concrete arguments, the disjointness hypothesis
   is satisfiable, and the example table of CMI_Proofs satisfies table_ok *)
Example ex_tc_defined : exists tm, total_correlation 3 [[0];[1];[2]]%nat [] = Some tm.
Proof. eexists. vm_compute. reflexivity. Qed.
Example ex_dtc_defined : exists tm, dual_total_correlation 3 [[0];[1];[2]]%nat [] = Some tm.
Proof. eexists. vm_compute. reflexivity. Qed.
Example ex_disjoint : pairwise_disjoint [[0];[1];[2]]%nat.
Proof.
  unfold pairwise_disjoint. repeat constructor; simpl; intros x Hx Hy; lia.
Qed.
Example ex_caekl_defined : exists tm, In (Some tm) (caekl_candidates 3 [[0];[1];[2]]%nat []).
Proof. eexists. vm_compute. left. reflexivity. Qed.
Example ex_tc_nonneg tm : total_correlation 2 [[0];[1]]%nat [] = Some tm -> 0 <= heval (fun S => Hs S ex_t) tm.
Proof. apply tc_nonneg_table, ex_t_ok. Qed.

Print Assumptions tc_nonneg_table.
Print Assumptions dtc_nonneg_table.
Print Assumptions cmi_nonneg_table.
Print Assumptions caekl_candidates_nonneg_table.
