(* Proofs/C05_Merge.v — hmerge (merging the terms on the same variable set and dropping the cancelled
   ones) does not change the value of an entropy combination. *)
From Verif Require Import Measures C05_Algebra.
From Coq Require Import Lra.
Open Scope R_scope.

Lemma Q2R_Qred q : Q2R (Qred q) = Q2R q.
Proof. apply Qeq_eqR, Qred_correct. Qed.

Lemma heval_hadd (h : list nat -> R) (c : Q) (S : list nat) (acc : list hterm) :
  heval h (hadd c S acc) = heval h acc + Q2R c * h S.
Proof.
  induction acc as [|[c' S'] r IH].
  - cbn [hadd]. rewrite heval_cons, !heval_nil. ring.
  - cbn [hadd]. destruct (oeqb S' S) eqn:E.
    + apply oeqb_eq in E. subst S'.
      rewrite !heval_cons, Q2R_Qred, Q2R_plus. ring.
    + rewrite !heval_cons, IH. ring.
Qed.

Lemma heval_fold_hadd (h : list nat -> R) (t : list hterm) : forall acc : list hterm,
  heval h (fold_left (fun a x => hadd (fst x) (snd x) a) t acc) = heval h acc + heval h t.
Proof.
  induction t as [|[c S] t IH]; intros acc.
  - cbn [fold_left]. rewrite heval_nil. ring.
  - cbn [fold_left fst snd]. rewrite IH, heval_hadd, heval_cons. ring.
Qed.

Lemma heval_filter_nz (h : list nat -> R) (l : list hterm) :
  heval h (filter (fun x => negb (Qeq_bool (fst x) 0)) l) = heval h l.
Proof.
  induction l as [|[c S] l IH].
  - reflexivity.
  - cbn [filter fst]. destruct (Qeq_bool c 0) eqn:E; cbn [negb].
    + apply Qeq_bool_iff in E. apply Qeq_eqR in E. rewrite RMicromega.Q2R_0 in E.
      rewrite heval_cons, IH, E. ring.
    + rewrite !heval_cons, IH. reflexivity.
Qed.

Theorem heval_hmerge (h : list nat -> R) (t : list hterm) : heval h (hmerge t) = heval h t.
Proof.
  unfold hmerge. rewrite heval_filter_nz, heval_fold_hadd, heval_nil. ring.
Qed.

Theorem hvalue_as_heval (d : Dist.dist) (t : list hterm) :
  hvalue d t = heval (fun S => entropy_list (mpmf d S)) t.
Proof.
  unfold hvalue, lincomb, hdata, heval. rewrite map_map. reflexivity.
Qed.

Corollary hvalue_hmerge d t : hvalue d (hmerge t) = hvalue d t.
Proof. rewrite !hvalue_as_heval. apply heval_hmerge. Qed.

Print Assumptions hvalue_hmerge.
