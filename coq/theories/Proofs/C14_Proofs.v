(* Proofs/C14_Proofs.v — soundness of the dual certificate for maximum-entropy distributions under
   marginal constraints (model: Model/C14_Model.v).
   A. rational sums over fibres; B. the Gibbs core over the reals; C. readable form of the bound;
   D. weak duality (maxent_dual_bound) and corollaries; E. marg_match; F. non-vacuity. *)
From Verif Require Import Info.
From Verif Require Import Info_Proofs Measures C14_Model.
From Coq Require Import Lra.
Import ListNotations.
Open Scope R_scope.

(* ------------------------------------------------------------------------------------------ *)
(* A. rational sums *)

Lemma qsum_map_ext {A : Type} (f g : A -> Q) (l : list A) :
  (forall x, In x l -> (f x == g x)%Q) -> (qsum (map f l) == qsum (map g l))%Q.
Proof.
  induction l as [|a l IH]; simpl; intros H; [reflexivity|].
  rewrite (H a) by (left; reflexivity).
  rewrite IH by (intros x Hx; apply H; right; exact Hx). reflexivity.
Qed.

Lemma qsum_map_zero {A : Type} (f : A -> Q) (l : list A) :
  (forall x, In x l -> (f x == 0)%Q) -> (qsum (map f l) == 0)%Q.
Proof.
  induction l as [|a l IH]; simpl; intros H; [reflexivity|].
  rewrite (H a) by (left; reflexivity).
  rewrite IH by (intros x Hx; apply H; right; exact Hx). ring.
Qed.

Lemma qsum_map_plus {A : Type} (f g : A -> Q) (l : list A) :
  (qsum (map (fun x => f x + g x) l) == qsum (map f l) + qsum (map g l))%Q.
Proof. induction l as [|a l IH]; simpl; [ring| rewrite IH; ring]. Qed.

Lemma qsum_indicator (tab : pd) (y : outcome) (v : Q) :
  (qsum (map (fun kv => snd kv * (if oeqb y (fst kv) then v else 0)) tab) == v * prob_of tab y)%Q.
Proof.
  unfold prob_of. induction tab as [|[k t] tab IH]; simpl; [ring|].
  rewrite IH. rewrite (oeqb_sym k y). destruct (oeqb y k); simpl; ring.
Qed.

Lemma sum_over_fibres_prob (f : outcome -> outcome) (p tab : pd) :
  (qsum (map (fun xv => snd xv * prob_of tab (f (fst xv))) p)
   == qsum (map (fun kv => snd kv * fibre_sum f p (fst kv)) tab))%Q.
Proof.
  induction p as [|[x v] p IH]; simpl.
  - symmetry. apply qsum_map_zero. intros kv _. unfold fibre_sum; simpl. ring.
  - rewrite (qsum_map_ext (fun kv => snd kv * fibre_sum f ((x, v) :: p) (fst kv))%Q
               (fun kv => snd kv * (if oeqb (f x) (fst kv) then v else 0)
                          + snd kv * fibre_sum f p (fst kv))%Q).
    + rewrite qsum_map_plus, qsum_indicator, IH. ring.
    + intros kv _. unfold fibre_sum; simpl. destruct (oeqb (f x) (fst kv)); simpl; ring.
Qed.

Lemma onodup_NoDup (l : list outcome) : onodup l = true -> NoDup l.
Proof.
  induction l as [|x t IH]; simpl; intros H; [constructor|].
  apply andb_true_iff in H as [H1 H2]. constructor.
  - intros Hin. apply omem_In in Hin. rewrite Hin in H1. discriminate.
  - apply IH, H2.
Qed.

(* the key combinatorial lemma: a potential summed against p is the potential's table summed against
   the marginal of p (no hypothesis on the range of the projection is needed: get0 is 0 off the table) *)
Lemma sum_over_fibres (p : pd) (g : list nat) (tab : pd) :
  onodup (keys tab) = true ->
  (qsum (map (fun xv => snd xv * get0 (proj g (fst xv)) tab) p)
   == qsum (map (fun kv => snd kv * get0 (fst kv) (marg p g)) tab))%Q.
Proof.
  intros Hn. apply onodup_NoDup in Hn.
  rewrite (qsum_map_ext (fun xv => snd xv * get0 (proj g (fst xv)) tab)%Q
             (fun xv => snd xv * prob_of tab (proj g (fst xv)))%Q)
    by (intros xv _; rewrite (get0_prob_of tab _ Hn); reflexivity).
  rewrite (qsum_map_ext (fun kv => snd kv * get0 (fst kv) (marg p g))%Q
             (fun kv => snd kv * fibre_sum (proj g) p (fst kv))%Q).
  - apply sum_over_fibres_prob.
  - intros kv _. unfold marg.
    rewrite (get0_prob_of _ _ (pushforward_nodup (proj g) p)), pushforward_prob. reflexivity.
Qed.

(* <m, theta> before the final Qred *)
Definition lin_raw (theta : potentials) (d : pd) : Q :=
  qsum (map (fun gt => qsum (map (fun kv => snd kv * get0 (fst kv) (marg d (fst gt)))%Q (snd gt))) theta).

Lemma lin_term_raw theta d : Q2R (lin_term theta d) = Q2R (lin_raw theta d).
Proof. unfold lin_term. apply Qeq_eqR, Qred_correct. Qed.

Lemma score_sum (theta : potentials) (p : pd) :
  (forall g tab, In (g, tab) theta -> onodup (keys tab) = true) ->
  (qsum (map (fun xv => snd xv * score theta (fst xv)) p) == lin_raw theta p)%Q.
Proof.
  induction theta as [|[g tab] theta IH]; intros H.
  - unfold lin_raw, score; simpl. apply qsum_map_zero. intros xv _. ring.
  - rewrite (qsum_map_ext (fun xv => snd xv * score ((g, tab) :: theta) (fst xv))%Q
               (fun xv => snd xv * get0 (proj g (fst xv)) tab + snd xv * score theta (fst xv))%Q)
      by (intros xv _; unfold score; simpl; ring).
    rewrite qsum_map_plus, (sum_over_fibres p g tab (H g tab (or_introl eq_refl))).
    rewrite IH by (intros g' tab' Hin; apply (H g' tab'); right; exact Hin).
    unfold lin_raw; simpl. reflexivity.
Qed.

Lemma lin_raw_marg (theta : potentials) (p d : pd) :
  (forall g tab k, In (g, tab) theta -> (get0 k (marg p g) == get0 k (marg d g))%Q) ->
  (lin_raw theta p == lin_raw theta d)%Q.
Proof.
  intros H. unfold lin_raw. apply qsum_map_ext. intros [g tab] Hin. simpl.
  apply qsum_map_ext. intros kv _. rewrite (H g tab (fst kv) Hin). reflexivity.
Qed.

Lemma theta_ok_nodup theta ss :
  theta_ok theta ss = true -> forall g tab, In (g, tab) theta -> onodup (keys tab) = true.
Proof.
  unfold theta_ok. rewrite forallb_forall. intros H g tab Hin.
  specialize (H (g, tab) Hin). simpl in H. apply andb_true_iff in H as [H1 _]. exact H1.
Qed.

(* ------------------------------------------------------------------------------------------ *)
(* B. the Gibbs core *)

Lemma rsum_map_scale {A : Type} (f : A -> R) (c : R) (l : list A) :
  rsum (map (fun x => f x * c) l) = rsum (map f l) * c.
Proof. induction l as [|a l IH]; simpl; [ring| rewrite IH; ring]. Qed.

Lemma rsum_map_nonneg {A : Type} (f : A -> R) (l : list A) :
  (forall x, 0 <= f x) -> 0 <= rsum (map f l).
Proof. intros H. induction l as [|a l IH]; simpl; [lra| pose proof (H a); lra]. Qed.

Lemma rsum_map_pos {A : Type} (f : A -> R) (l : list A) :
  l <> [] -> (forall x, 0 < f x) -> 0 < rsum (map f l).
Proof.
  intros Hne H. destruct l as [|a l]; [congruence|]. simpl.
  pose proof (H a). pose proof (rsum_map_nonneg f l (fun x => Rlt_le _ _ (H x))). lra.
Qed.

Lemma nonneg_pd_cons k v p : nonneg_pd ((k, v) :: p) = true -> (0 <= v)%Q /\ nonneg_pd p = true.
Proof.
  unfold nonneg_pd. simpl. intros H. apply andb_true_iff in H as [H1 H2].
  split; [apply Qle_bool_iff, H1| exact H2].
Qed.

Lemma dom_gibbs (s : outcome -> R) (Z : R) (p : pd) :
  0 < Z -> nonneg_pd p = true ->
  dom (map (fun kv => Q2R (snd kv)) p) (map (fun kv => exp (s (fst kv) * ln 2) / Z) p).
Proof.
  intros HZ. induction p as [|[k v] p IH]; intros Hn; simpl; [constructor|].
  apply nonneg_pd_cons in Hn as [Hv Hn].
  assert (Hq : 0 < exp (s k * ln 2) / Z) by (apply Rdiv_lt_0_compat; [apply exp_pos| exact HZ]).
  constructor; [apply Q2R_nonneg, Hv| lra| left; exact Hq| apply IH, Hn].
Qed.

Lemma klterm_gibbs (a Z : R) (v : Q) :
  0 < Z -> (0 <= v)%Q ->
  klterm (Q2R v) (exp (a * ln 2) / Z) = ln 2 * plogp v - ln 2 * (Q2R v * a) + ln Z * Q2R v.
Proof.
  intros HZ Hv. unfold plogp. destruct (Qle_bool v 0) eqn:E.
  - rewrite (qle0_true_zero v Hv E). unfold klterm. ring.
  - unfold klterm, Rdiv.
    rewrite ln_mult by (try apply exp_pos; apply Rinv_0_lt_compat; exact HZ).
    rewrite ln_Rinv by exact HZ. rewrite ln_exp. unfold log2.
    pose proof ln2_pos as H2. field. lra.
Qed.

Lemma kl_gibbs (s : outcome -> R) (Z : R) (p : pd) :
  0 < Z -> nonneg_pd p = true ->
  kl (map (fun kv => Q2R (snd kv)) p) (map (fun kv => exp (s (fst kv) * ln 2) / Z) p)
  = ln 2 * rsum (map plogp (map snd p)) - ln 2 * rsum (map (fun kv => Q2R (snd kv) * s (fst kv)) p)
    + ln Z * rsum (map (fun kv => Q2R (snd kv)) p).
Proof.
  intros HZ. induction p as [|[k v] p IH]; intros Hn; simpl; [ring|].
  apply nonneg_pd_cons in Hn as [Hv Hn].
  rewrite (IH Hn), (klterm_gibbs (s k) Z v HZ Hv). ring.
Qed.

Lemma mass_rsum (p : pd) : Q2R (mass p) = rsum (map (fun kv => Q2R (snd kv)) p).
Proof. unfold mass. rewrite Q2R_qsum, map_map. reflexivity. Qed.

(* for ANY real potential s on the outcomes listed by p *)
Lemma gibbs_core (s : outcome -> R) (p : pd) :
  p <> [] -> nonneg_pd p = true ->
  entropy_list (map snd p) <=
    Q2R (mass p) * log2 (rsum (map (fun kv => exp (s (fst kv) * ln 2)) p))
    - rsum (map (fun kv => Q2R (snd kv) * s (fst kv)) p) + (1 - Q2R (mass p)) / ln 2.
Proof.
  intros Hne Hnn.
  set (Z := rsum (map (fun kv => exp (s (fst kv) * ln 2)) p)).
  assert (HZ : 0 < Z) by (apply rsum_map_pos; [exact Hne| intros x; apply exp_pos]).
  pose proof (gibbs_aux _ _ (dom_gibbs s Z p HZ Hnn)) as Hg.
  rewrite (kl_gibbs s Z p HZ Hnn) in Hg.
  assert (Hr : rsum (map (fun kv => exp (s (fst kv) * ln 2) / Z) p) = 1).
  { unfold Rdiv. rewrite (rsum_map_scale (fun kv : outcome * Q => exp (s (fst kv) * ln 2)) (/ Z) p).
    fold Z. field. lra. }
  rewrite Hr in Hg. rewrite <- mass_rsum in Hg.
  unfold entropy_list, log2.
  set (S := rsum (map plogp (map snd p))) in *.
  set (A := rsum (map (fun kv => Q2R (snd kv) * s (fst kv)) p)) in *.
  set (M := Q2R (mass p)) in *.
  pose proof ln2_pos as H2.
  apply Rmult_le_reg_l with (ln 2); [exact H2|].
  replace (ln 2 * (M * (ln Z / ln 2) - A + (1 - M) / ln 2)) with (M * ln Z - ln 2 * A + (1 - M))
    by (field; lra).
  set (lS := ln 2 * S) in *. set (lA := ln 2 * A) in *. set (lM := ln Z * M) in *.
  replace (ln 2 * - S) with (- lS) by (unfold lS; ring).
  replace (M * ln Z) with lM by (unfold lM; ring). lra.
Qed.

(* ------------------------------------------------------------------------------------------ *)
(* C. readable form of the bound *)

Lemma Q2R_Qred q : Q2R (Qred q) = Q2R q.
Proof. apply Qeq_eqR, Qred_correct. Qed.

Lemma rden_r_sum14 l : rden (r_sum14 l) = rsum (map rden l).
Proof.
  induction l as [|x t IH]; [simpl; apply Q2R_0|].
  destruct t as [|y t'].
  - simpl. lra.
  - change (rden x + rden (r_sum14 (y :: t')) = rden x + rsum (map rden (y :: t'))).
    rewrite IH. reflexivity.
Qed.

(* the partition function Z = sum_{x in ss} 2^(score x) *)
Definition Zr (theta : potentials) (ss : list outcome) : R :=
  rsum (map (fun x => exp (Q2R (score theta x) * ln 2)) ss).

Lemma rden_z_data theta ss : rden (z_data theta ss) = Zr theta ss.
Proof.
  unfold z_data, Zr. rewrite rden_r_sum14, map_map. f_equal. apply map_ext. intros x.
  cbn [rden]. unfold bpow. cbn [lnb]. rewrite Q2R_Qred. reflexivity.
Qed.

Lemma rden_log2e : rden log2e_data = / ln 2.
Proof.
  unfold log2e_data. cbn [rden]. unfold bpow, log2. cbn [lnb].
  rewrite ln_exp, Q2R_1. unfold Rdiv. ring.
Qed.

Theorem ub_readable theta ss d :
  rden (ub_data theta ss d)
  = Q2R (mass d) * log2 (Zr theta ss) - Q2R (lin_term theta d) + (1 - Q2R (mass d)) / ln 2.
Proof.
  unfold ub_data. cbn [rden]. rewrite rden_log2e, rden_z_data.
  rewrite !Q2R_Qred. rewrite Q2R_minus, Q2R_1, Q2R_Qred. unfold Rdiv. ring.
Qed.

(* ------------------------------------------------------------------------------------------ *)
(* D. weak duality *)

Theorem maxent_dual_bound (theta : potentials) (ss : list outcome) (d p : pd) :
  onodup ss = true -> ss <> [] ->
  keys p = ss ->
  nonneg_pd p = true ->
  theta_ok theta ss = true ->
  (forall g tab k, In (g, tab) theta -> (get0 k (marg p g) == get0 k (marg d g))%Q) ->
  (mass p == mass d)%Q ->
  entropy_list (map snd p) <= rden (ub_data theta ss d).
Proof.
  intros _ Hne Hk Hnn Hok Hmarg Hmass.
  rewrite ub_readable.
  assert (Hp : p <> []) by (intros E; apply Hne; rewrite <- Hk, E; reflexivity).
  pose proof (gibbs_core (fun x => Q2R (score theta x)) p Hp Hnn) as H.
  assert (HZ : Zr theta ss
               = rsum (map (fun kv : outcome * Q => exp (Q2R (score theta (fst kv)) * ln 2)) p))
    by (unfold Zr; rewrite <- Hk; unfold keys; rewrite map_map; reflexivity).
  rewrite HZ.
  rewrite (Qeq_eqR _ _ Hmass) in H.
  assert (HA : rsum (map (fun kv : outcome * Q => Q2R (snd kv) * Q2R (score theta (fst kv))) p)
               = Q2R (lin_term theta d)).
  { rewrite lin_term_raw.
    rewrite <- (Qeq_eqR _ _ (lin_raw_marg theta p d Hmarg)).
    rewrite <- (Qeq_eqR _ _ (score_sum theta p (theta_ok_nodup theta ss Hok))).
    rewrite Q2R_qsum, map_map. f_equal. apply map_ext. intros kv. rewrite Q2R_mult. reflexivity. }
  rewrite HA in H. exact H.
Qed.

(* C1. normalised reference table *)
Theorem maxent_dual_bound_normalised (theta : potentials) (ss : list outcome) (d p : pd) :
  onodup ss = true -> ss <> [] ->
  keys p = ss ->
  nonneg_pd p = true ->
  theta_ok theta ss = true ->
  (forall g tab k, In (g, tab) theta -> (get0 k (marg p g) == get0 k (marg d g))%Q) ->
  (mass p == mass d)%Q ->
  (mass d == 1)%Q ->
  entropy_list (map snd p) <= log2 (rden (z_data theta ss)) - Q2R (lin_term theta d).
Proof.
  intros Hnd Hne Hk Hnn Hok Hmarg Hmass H1.
  pose proof (maxent_dual_bound theta ss d p Hnd Hne Hk Hnn Hok Hmarg Hmass) as H.
  rewrite ub_readable, (Qeq_eqR _ _ H1), Q2R_1 in H. rewrite rden_z_data.
  unfold Rdiv in H. lra.
Qed.

(* C2. without constraints the bound is the entropy of the uniform distribution *)
Lemma rsum_const_one {A : Type} (l : list A) : rsum (map (fun _ => 1) l) = INR (length l).
Proof.
  induction l as [|a l IH]; [reflexivity|].
  change (1 + rsum (map (fun _ : A => 1) l) = INR (S (length l))). rewrite IH, S_INR. ring.
Qed.

Lemma Zr_nil ss : Zr [] ss = INR (length ss).
Proof.
  unfold Zr. rewrite <- rsum_const_one. f_equal. apply map_ext. intros x.
  unfold score; simpl. rewrite Q2R_0, Rmult_0_l. apply exp_0.
Qed.

Lemma lin_term_nil d : Q2R (lin_term [] d) = 0.
Proof. rewrite lin_term_raw. unfold lin_raw; simpl. apply Q2R_0. Qed.

Theorem uniform_unconstrained_max (ss : list outcome) (p : pd) :
  onodup ss = true -> ss <> [] -> keys p = ss -> nonneg_pd p = true ->
  entropy_list (map snd p)
  <= Q2R (mass p) * log2 (INR (length ss)) + (1 - Q2R (mass p)) / ln 2.
Proof.
  intros Hnd Hne Hk Hnn.
  assert (Hm : forall g tab k, In (g, tab) (@nil (list nat * pd)) ->
                               (get0 k (marg p g) == get0 k (marg p g))%Q) by (intros g tab k []).
  pose proof (maxent_dual_bound [] ss p p Hnd Hne Hk Hnn eq_refl Hm (Qeq_refl _)) as H.
  rewrite ub_readable, Zr_nil, lin_term_nil in H. lra.
Qed.

Theorem uniform_unconstrained_max_normalised (ss : list outcome) (p : pd) :
  onodup ss = true -> ss <> [] -> keys p = ss -> nonneg_pd p = true -> (mass p == 1)%Q ->
  entropy_list (map snd p) <= log2 (INR (length ss)).
Proof.
  intros Hnd Hne Hk Hnn H1.
  pose proof (uniform_unconstrained_max ss p Hnd Hne Hk Hnn) as H.
  rewrite (Qeq_eqR _ _ H1), Q2R_1 in H. unfold Rdiv in H. lra.
Qed.

(* C3. chain monotonicity: maximising over a smaller feasible set cannot give more *)
Theorem chain_monotone (F1 F2 : pd -> Prop) (H : pd -> R) (p1 p2 : pd) :
  (forall p, F2 p -> F1 p) -> (forall p, F1 p -> H p <= H p1) -> F2 p2 -> H p2 <= H p1.
Proof. intros Hsub Hmax H2. apply Hmax, Hsub, H2. Qed.

(* ------------------------------------------------------------------------------------------ *)
(* E. marg_match *)

Lemma odedup_acc_In (k : outcome) (l seen : list outcome) :
  In k l -> In k seen \/ In k (odedup_acc seen l).
Proof.
  revert seen. induction l as [|x t IH]; intros seen Hin; [destruct Hin|]. simpl.
  destruct Hin as [->|Hin].
  - destruct (omem k seen) eqn:E; [left; apply omem_In, E| right; left; reflexivity].
  - destruct (omem x seen) eqn:E.
    + apply IH, Hin.
    + destruct (IH (x :: seen) Hin) as [[->|Hs]|Hd].
      * right; left; reflexivity.
      * left; exact Hs.
      * right; right; exact Hd.
Qed.

Lemma odedup_In (k : outcome) (l : list outcome) : In k l -> In k (odedup l).
Proof. intros Hin. destruct (odedup_acc_In k l [] Hin) as [[]|H]. exact H. Qed.

Theorem marg_match_spec (tol : Q) (t1 t2 : pd) (g : list nat) (k : outcome) :
  marg_match tol t1 t2 g = true ->
  In k (keys (marg t1 g)) \/ In k (keys (marg t2 g)) ->
  (- tol <= get0 k (marg t1 g) - get0 k (marg t2 g) <= tol)%Q.
Proof.
  unfold marg_match. intros H Hin. rewrite forallb_forall in H.
  assert (Hk : In k (odedup (keys (marg t1 g) ++ keys (marg t2 g))))
    by (apply odedup_In, in_or_app, Hin).
  specialize (H k Hk). unfold qclose in H. apply Qabs_le_spec in H. exact H.
Qed.

(* ------------------------------------------------------------------------------------------ *)
(* F. non-vacuity *)

Definition ex_ss : list outcome := [[0;0];[0;1];[1;0];[1;1]]%nat.
Definition ex_d : pd := [([0;0]%nat, 1#2); ([0;1]%nat, 0%Q); ([1;0]%nat, 0%Q); ([1;1]%nat, 1#2)].
Definition ex_theta : potentials :=
  [([0]%nat, [([0]%nat, 0%Q); ([1]%nat, 0%Q)]); ([1]%nat, [([0]%nat, 0%Q); ([1]%nat, 0%Q)])].

Example ex_hypotheses :
  onodup ex_ss = true /\ ex_ss <> [] /\ keys ex_d = ex_ss /\ nonneg_pd ex_d = true /\
  theta_ok ex_theta ex_ss = true /\
  (forall g tab k, In (g, tab) ex_theta -> (get0 k (marg ex_d g) == get0 k (marg ex_d g))%Q) /\
  (mass ex_d == mass ex_d)%Q /\ (mass ex_d == 1)%Q.
Proof.
  repeat split; try reflexivity.
  discriminate.
Qed.

Lemma log2_4 : log2 4 = 2.
Proof.
  unfold log2. replace 4 with (2 * 2) by ring. rewrite ln_mult by lra.
  pose proof ln2_pos as H2. field. lra.
Qed.

Example ex_bound_value : rden (ub_data ex_theta ex_ss ex_d) = 2.
Proof.
  rewrite ub_readable.
  assert (HZ : Zr ex_theta ex_ss = 4).
  { unfold Zr, ex_ss. cbn [map rsum].
    assert (Hs : forall x, In x ex_ss -> score ex_theta x = 0%Q).
    { intros x Hx. unfold ex_ss in Hx. simpl in Hx.
      destruct Hx as [<-|[<-|[<-|[<-|[]]]]]; vm_compute; reflexivity. }
    rewrite !Hs by (unfold ex_ss; simpl; tauto).
    rewrite Q2R_0, Rmult_0_l, exp_0. ring. }
  assert (HL : Q2R (lin_term ex_theta ex_d) = 0).
  { replace (lin_term ex_theta ex_d) with 0%Q by (vm_compute; reflexivity). apply Q2R_0. }
  assert (HM : Q2R (mass ex_d) = 1).
  { assert (E : (mass ex_d == 1)%Q) by reflexivity. rewrite (Qeq_eqR _ _ E). apply Q2R_1. }
  rewrite HZ, HL, HM, log2_4. unfold Rdiv. ring.
Qed.

(* the example entropy is 1 <= 2: the certificate is sound but (with zero potentials) not tight *)
Example ex_bound_holds : entropy_list (map snd ex_d) <= 2.
Proof.
  rewrite <- ex_bound_value.
  destruct ex_hypotheses as (H1 & H2 & H3 & H4 & H5 & H6 & H7 & _).
  exact (maxent_dual_bound ex_theta ex_ss ex_d ex_d H1 H2 H3 H4 H5 H6 H7).
Qed.

(* a feasible point attaining the bound: the uniform table has the marginals of ex_d and entropy 2 *)
Definition ex_p : pd := [([0;0]%nat, 1#4); ([0;1]%nat, 1#4); ([1;0]%nat, 1#4); ([1;1]%nat, 1#4)].

Example ex_p_feasible :
  keys ex_p = ex_ss /\ nonneg_pd ex_p = true /\
  (forall g tab k, In (g, tab) ex_theta -> (get0 k (marg ex_p g) == get0 k (marg ex_d g))%Q) /\
  (mass ex_p == mass ex_d)%Q.
Proof.
  split; [reflexivity|]. split; [reflexivity|]. split; [|reflexivity].
  intros g tab k [E|[E|[]]]; injection E as <- _.
  - set (m1 := marg ex_p [0%nat]). vm_compute in m1. set (m2 := marg ex_d [0%nat]). vm_compute in m2.
    subst m1 m2. unfold get0. cbn [find_key].
    destruct (oeqb [0%nat] k); [reflexivity|]. destruct (oeqb [1%nat] k); reflexivity.
  - set (m1 := marg ex_p [1%nat]). vm_compute in m1. set (m2 := marg ex_d [1%nat]). vm_compute in m2.
    subst m1 m2. unfold get0. cbn [find_key].
    destruct (oeqb [0%nat] k); [reflexivity|]. destruct (oeqb [1%nat] k); reflexivity.
Qed.

Lemma plogp_quarter : plogp (1#4) = - (1 / 2).
Proof.
  unfold plogp. replace (Qle_bool (1#4) 0) with false by reflexivity.
  replace (Q2R (1#4)) with (/ 4) by (unfold Q2R; simpl; lra).
  pose proof log2_4 as H4. unfold log2 in *. rewrite ln_Rinv by lra.
  replace (- ln 4 / ln 2) with (- (ln 4 / ln 2)) by (pose proof ln2_pos; field; lra).
  rewrite H4. lra.
Qed.

Example ex_tight : entropy_list (map snd ex_p) = rden (ub_data ex_theta ex_ss ex_d).
Proof. rewrite ex_bound_value. unfold entropy_list. simpl. rewrite plogp_quarter. lra. Qed.

(* ------------------------------------------------------------------------------------------ *)
(* G. extras: the mass hypothesis is derivable for a non-empty family; sparse tables; the uniform table *)

Lemma get0_In (m : pd) (kv : outcome * Q) : NoDup (keys m) -> In kv m -> get0 (fst kv) m = snd kv.
Proof.
  unfold get0. induction m as [|[k v] m IH]; simpl; intros Hn Hin; [destruct Hin|].
  inversion Hn as [|? ? Hnotin Hn']; subst.
  destruct Hin as [<-|Hin]; simpl.
  - rewrite oeqb_refl. reflexivity.
  - destruct (oeqb_spec k (fst kv)) as [E|_].
    + exfalso. apply Hnotin. rewrite E. apply (in_map fst), Hin.
    + apply IH; assumption.
Qed.

Lemma mass_get0 (m : pd) : NoDup (keys m) -> (mass m == qsum (map (fun kv => get0 (fst kv) m) m))%Q.
Proof.
  intros Hn. unfold mass. apply qsum_map_ext. intros kv Hin. rewrite (get0_In m kv Hn Hin). reflexivity.
Qed.

Definition ones (m : pd) : pd := map (fun kv => (fst kv, 1%Q)) m.

Lemma keys_ones m : keys (ones m) = keys m.
Proof. unfold keys, ones. rewrite map_map. reflexivity. Qed.

Lemma get0_ones m k : get0 k (ones m) = if omem k (keys m) then 1%Q else 0%Q.
Proof.
  unfold get0. induction m as [|[k' v] m IH]; simpl; [reflexivity|].
  rewrite (oeqb_sym k k'). destruct (oeqb k' k); simpl; [reflexivity| exact IH].
Qed.

Lemma mass_eq_of_get0 (m1 m2 : pd) :
  NoDup (keys m1) -> NoDup (keys m2) -> (forall k, (get0 k m1 == get0 k m2)%Q) -> (mass m1 == mass m2)%Q.
Proof.
  intros H1 H2 H.
  pose proof (sum_over_fibres_prob (fun x => x) m1 (ones m2)) as E.
  assert (EL : (qsum (map (fun xv => snd xv * prob_of (ones m2) (fst xv)) m1) == mass m1)%Q).
  { unfold mass. apply qsum_map_ext. intros xv Hin.
    rewrite <- get0_prob_of by (rewrite keys_ones; exact H2).
    rewrite get0_ones. destruct (omem (fst xv) (keys m2)) eqn:Em; [ring|].
    assert (Hz : (snd xv == 0)%Q).
    { rewrite <- (get0_In m1 xv H1 Hin), H. unfold get0.
      replace (find_key (fst xv) m2) with (@None Q); [reflexivity|].
      symmetry. apply find_key_None. intros Hc. apply omem_In in Hc. congruence. }
    rewrite Hz. ring. }
  assert (ER : (qsum (map (fun kv => snd kv * fibre_sum (fun x => x) m1 (fst kv)) (ones m2)) == mass m2)%Q).
  { unfold ones. rewrite map_map. rewrite (mass_get0 m2 H2). apply qsum_map_ext. intros kv _.
    cbn [fst snd]. change (fibre_sum (fun x => x) m1 (fst kv)) with (prob_of m1 (fst kv)).
    rewrite <- (get0_prob_of m1 _ H1), H. ring. }
  rewrite <- EL, <- ER. exact E.
Qed.

Lemma marg_mass_eq (p d : pd) (g : list nat) :
  (forall k, (get0 k (marg p g) == get0 k (marg d g))%Q) -> (mass p == mass d)%Q.
Proof.
  intros H.
  rewrite <- (pushforward_mass (proj g) p), <- (pushforward_mass (proj g) d).
  apply mass_eq_of_get0; [apply pushforward_nodup| apply pushforward_nodup| exact H].
Qed.

(* the corollary without the mass hypothesis *)
Theorem maxent_dual_bound_nonempty (theta : potentials) (ss : list outcome) (d p : pd) :
  theta <> [] ->
  onodup ss = true -> ss <> [] ->
  keys p = ss ->
  nonneg_pd p = true ->
  theta_ok theta ss = true ->
  (forall g tab k, In (g, tab) theta -> (get0 k (marg p g) == get0 k (marg d g))%Q) ->
  entropy_list (map snd p) <= rden (ub_data theta ss d).
Proof.
  intros Hth Hnd Hne Hk Hnn Hok Hmarg.
  apply maxent_dual_bound; try assumption.
  destruct theta as [|[g tab] theta']; [congruence|].
  apply (marg_mass_eq p d g). intros k. apply (Hmarg g tab k). left; reflexivity.
Qed.

(* sparse tables: p may list only part of the sample space (e.g. its support) *)
Lemma rsum_incl_le (w : outcome -> R) (l ss : list outcome) :
  (forall x, 0 <= w x) -> NoDup l -> (forall x, In x l -> In x ss) ->
  rsum (map w l) <= rsum (map w ss).
Proof.
  intros Hw. revert ss. induction l as [|a l IH]; intros ss Hn Hin; simpl.
  - apply rsum_map_nonneg, Hw.
  - inversion Hn as [|? ? Ha Hn']; subst.
    destruct (in_split a ss (Hin a (or_introl eq_refl))) as (s1 & s2 & ->).
    rewrite map_app, rsum_app. simpl.
    assert (H' : rsum (map w l) <= rsum (map w (s1 ++ s2))).
    { apply IH; [exact Hn'|]. intros x Hx. specialize (Hin x (or_intror Hx)).
      apply in_app_or in Hin. apply in_or_app.
      destruct Hin as [Hi|[Hi|Hi]]; [left; exact Hi| subst; contradiction| right; exact Hi]. }
    rewrite map_app, rsum_app in H'. lra.
Qed.

Lemma ln_le_mono x y : 0 < x -> x <= y -> ln x <= ln y.
Proof.
  intros Hx [Hlt| ->]; [left; apply ln_increasing; assumption| right; reflexivity].
Qed.

Lemma nonneg_mass p : nonneg_pd p = true -> 0 <= Q2R (mass p).
Proof.
  rewrite mass_rsum. induction p as [|[k v] p IH]; intros Hn; simpl; [lra|].
  apply nonneg_pd_cons in Hn as [Hv Hn]. pose proof (Q2R_nonneg v Hv). specialize (IH Hn). lra.
Qed.

Theorem maxent_dual_bound_sparse (theta : potentials) (ss : list outcome) (d p : pd) :
  NoDup (keys p) -> (forall x, In x (keys p) -> In x ss) ->
  nonneg_pd p = true ->
  (forall g tab, In (g, tab) theta -> onodup (keys tab) = true) ->
  (forall g tab k, In (g, tab) theta -> (get0 k (marg p g) == get0 k (marg d g))%Q) ->
  (mass p == mass d)%Q ->
  entropy_list (map snd p) <= rden (ub_data theta ss d).
Proof.
  intros Hnd Hin Hnn Hok Hmarg Hmass. rewrite ub_readable.
  assert (HA : Q2R (lin_term theta d)
               = rsum (map (fun kv : outcome * Q => Q2R (snd kv) * Q2R (score theta (fst kv))) p)).
  { rewrite lin_term_raw.
    rewrite <- (Qeq_eqR _ _ (lin_raw_marg theta p d Hmarg)).
    rewrite <- (Qeq_eqR _ _ (score_sum theta p Hok)).
    rewrite Q2R_qsum, map_map. f_equal. apply map_ext. intros kv. rewrite Q2R_mult. reflexivity. }
  rewrite HA. rewrite <- (Qeq_eqR _ _ Hmass).
  pose proof ln2_pos as H2.
  assert (Hi : 0 < / ln 2) by (apply Rinv_0_lt_compat; exact H2).
  assert (Hcases : p = [] \/ p <> []) by (destruct p; [left; reflexivity| right; discriminate]).
  destruct Hcases as [-> |Hp].
  - unfold entropy_list, mass. simpl. rewrite Q2R_0. unfold Rdiv. lra.
  - pose proof (gibbs_core (fun x => Q2R (score theta x)) p Hp Hnn) as H.
    set (Zp := rsum (map (fun kv : outcome * Q => exp (Q2R (score theta (fst kv)) * ln 2)) p)) in *.
    assert (HZp : 0 < Zp) by (apply rsum_map_pos; [exact Hp| intros x; apply exp_pos]).
    assert (HZle : Zp <= Zr theta ss).
    { assert (E : Zp = rsum (map (fun x => exp (Q2R (score theta x) * ln 2)) (keys p)))
        by (unfold Zp, keys; rewrite map_map; reflexivity).
      rewrite E. unfold Zr. apply rsum_incl_le; [intros x; apply Rlt_le, exp_pos| exact Hnd| exact Hin]. }
    pose proof (ln_le_mono Zp (Zr theta ss) HZp HZle) as Hln.
    pose proof (nonneg_mass p Hnn) as HM.
    assert (Hl2 : log2 Zp <= log2 (Zr theta ss))
      by (unfold log2, Rdiv; apply Rmult_le_compat_r; lra).
    assert (Hm : Q2R (mass p) * log2 Zp <= Q2R (mass p) * log2 (Zr theta ss))
      by (apply Rmult_le_compat_l; assumption).
    lra.
Qed.

(* the uniform table is feasible without constraints and attains log2 |ss| *)
Lemma Q2R_unif_entry (n : nat) : (0 < n)%nat -> Q2R (1 / inject_Z (Z.of_nat n)) = / INR n.
Proof.
  intros Hn.
  assert (Hr : Q2R (inject_Z (Z.of_nat n)) = INR n).
  { rewrite INR_IZR_INZ. unfold Q2R, inject_Z. simpl. field. }
  assert (Hpos : 0 < INR n) by (apply lt_0_INR; exact Hn).
  assert (Hnz : ~ (inject_Z (Z.of_nat n) == 0)%Q).
  { intros E. apply Qeq_eqR in E. rewrite Hr, Q2R_0 in E. lra. }
  unfold Qdiv. rewrite Q2R_mult, (Q2R_inv _ Hnz), Hr, Q2R_1. ring.
Qed.

Lemma rsum_const {A : Type} (c : R) (l : list A) : rsum (map (fun _ => c) l) = INR (length l) * c.
Proof.
  induction l as [|a l IH]; [simpl; ring|].
  change (c + rsum (map (fun _ : A => c) l) = INR (S (length l)) * c). rewrite IH, S_INR. ring.
Qed.

Theorem uniform_attains (ss : list outcome) :
  ss <> [] ->
  keys (uniform_pd ss) = ss /\ nonneg_pd (uniform_pd ss) = true /\ (mass (uniform_pd ss) == 1)%Q /\
  entropy_list (map snd (uniform_pd ss)) = log2 (INR (length ss)).
Proof.
  intros Hne.
  assert (Hn : (0 < length ss)%nat) by (destruct ss; [congruence| simpl; apply Nat.lt_0_succ]).
  pose proof (Q2R_unif_entry (length ss) Hn) as Hq.
  assert (Hpos : 0 < INR (length ss)) by (apply lt_0_INR; exact Hn).
  assert (Hip : 0 < / INR (length ss)) by (apply Rinv_0_lt_compat; exact Hpos).
  set (q := (1 / inject_Z (Z.of_nat (length ss)))%Q) in *.
  assert (Hs : map snd (uniform_pd ss) = map (fun _ => q) ss)
    by (unfold uniform_pd; rewrite map_map; reflexivity).
  assert (Hq0 : Qle_bool q 0 = false).
  { destruct (Qle_bool q 0) eqn:E; [|reflexivity]. apply Qle_bool_iff, Qle_Rle in E.
    rewrite Q2R_0, Hq in E. lra. }
  repeat split.
  - unfold uniform_pd, keys. rewrite map_map. simpl. apply map_id.
  - unfold nonneg_pd, uniform_pd. rewrite forallb_forall. intros kv Hin.
    apply in_map_iff in Hin as (x & <- & _). simpl. fold q. apply Qle_bool_iff, Rle_Qle.
    rewrite Q2R_0, Hq. lra.
  - apply eqR_Qeq. unfold mass. rewrite Hs, Q2R_qsum, map_map, (rsum_const (Q2R q) ss), Hq, Q2R_1.
    field. lra.
  - rewrite Hs. unfold entropy_list. rewrite map_map, (rsum_const (plogp q) ss).
    unfold plogp. rewrite Hq0, Hq. unfold log2. rewrite ln_Rinv by exact Hpos.
    pose proof ln2_pos as H2. field. lra.
Qed.

Print Assumptions marg_match_spec.
Print Assumptions maxent_dual_bound_sparse.
Print Assumptions maxent_dual_bound_nonempty.
Print Assumptions uniform_attains.
Print Assumptions maxent_dual_bound.
