(* Proofs/C14_Product.v — singleton constraints: the entropy of a table is at most the sum of the
   entropies of its single-variable marginals (subadditivity), hence every table that is feasible for
   the singleton constraints of d has entropy at most sum_i H(d_i); the product of the marginals
   attains the bound.
   A. real products and sums; B. sums over a Cartesian product; C. pushforwards over the reals;
   D. the product of the marginals dominates and is sub-normalised; E. the main theorem;
   F. tables with equal lookups have equal entropies, the corollary; G. the entropy of the product;
   H. the product is feasible, hence the maximiser; I. bridge to support_in, non-vacuity. *)
From Verif Require Import Info.
From Verif Require Import Info_Proofs Measures C14_Model C14_Proofs.
From Coq Require Import Lra Permutation.
Import ListNotations.
Open Scope R_scope.

(* ------------------------------------------------------------------------------------------ *)
(* A. real products and sums *)

Fixpoint rprod (l : list R) : R := match l with [] => 1 | x :: t => x * rprod t end.

Lemma rprod_nonneg l : (forall x, In x l -> 0 <= x) -> 0 <= rprod l.
Proof.
  induction l as [|a l IH]; simpl; intros H; [lra|].
  apply Rmult_le_pos; [apply H; left; reflexivity| apply IH; intros x Hx; apply H; right; exact Hx].
Qed.

Lemma rprod_pos l : (forall x, In x l -> 0 < x) -> 0 < rprod l.
Proof.
  induction l as [|a l IH]; simpl; intros H; [lra|].
  apply Rmult_lt_0_compat; [apply H; left; reflexivity| apply IH; intros x Hx; apply H; right; exact Hx].
Qed.

Lemma ln_rprod l : (forall x, In x l -> 0 < x) -> ln (rprod l) = rsum (map ln l).
Proof.
  induction l as [|a l IH]; simpl; intros H; [apply ln_1|].
  assert (Hl : forall x, In x l -> 0 < x) by (intros x Hx; apply H; right; exact Hx).
  rewrite ln_mult; [rewrite (IH Hl); reflexivity| apply H; left; reflexivity| apply rprod_pos, Hl].
Qed.

Lemma rprod_ones {A : Type} (f : A -> R) (l : list A) :
  (forall x, In x l -> f x = 1) -> rprod (map f l) = 1.
Proof.
  induction l as [|a l IH]; simpl; intros H; [reflexivity|].
  rewrite (H a) by (left; reflexivity). rewrite IH by (intros x Hx; apply H; right; exact Hx). ring.
Qed.

Lemma rsum_map_ext_in {A : Type} (f g : A -> R) (l : list A) :
  (forall x, In x l -> f x = g x) -> rsum (map f l) = rsum (map g l).
Proof. intros H. f_equal. apply map_ext_in, H. Qed.

Lemma rsum_map_plus {A : Type} (f g : A -> R) (l : list A) :
  rsum (map (fun x => f x + g x) l) = rsum (map f l) + rsum (map g l).
Proof. induction l as [|a l IH]; simpl; [ring| rewrite IH; ring]. Qed.

Lemma rsum_map_minus {A : Type} (f g : A -> R) (l : list A) :
  rsum (map (fun x => f x - g x) l) = rsum (map f l) - rsum (map g l).
Proof. induction l as [|a l IH]; simpl; [ring| rewrite IH; ring]. Qed.

Lemma rsum_map_scale_l {A : Type} (f : A -> R) (c : R) (l : list A) :
  rsum (map (fun x => c * f x) l) = c * rsum (map f l).
Proof. induction l as [|a l IH]; simpl; [ring| rewrite IH; ring]. Qed.

Lemma rsum_flat_map {A B : Type} (g : B -> R) (h : A -> list B) (l : list A) :
  rsum (map g (flat_map h l)) = rsum (map (fun a => rsum (map g (h a))) l).
Proof.
  induction l as [|a l IH]; simpl; [reflexivity|]. rewrite map_app, rsum_app, IH. reflexivity.
Qed.

(* sum_a c(a) * sum_i G(i,a) = sum_i sum_a c(a) * G(i,a) *)
Lemma rsum_swap {A I : Type} (c : A -> R) (G : I -> A -> R) (la : list A) (li : list I) :
  rsum (map (fun a => c a * rsum (map (fun i => G i a) li)) la)
  = rsum (map (fun i => rsum (map (fun a => c a * G i a) la)) li).
Proof.
  induction li as [|i li IH]; simpl.
  - induction la as [|a la IHa]; simpl; [reflexivity| rewrite IHa; ring].
  - rewrite <- IH, <- rsum_map_plus. apply rsum_map_ext_in. intros a _. ring.
Qed.

Lemma seq_S_shift (n : nat) : seq 0 (S n) = 0%nat :: map S (seq 0 n).
Proof. simpl. rewrite seq_shift. reflexivity. Qed.

Lemma nth_map_seq {A : Type} (K : nat -> A) (n i : nat) (dflt : A) :
  (i < n)%nat -> nth i (map K (seq 0 n)) dflt = K i.
Proof.
  intros Hi. rewrite (nth_indep _ dflt (K 0%nat)) by (rewrite map_length, seq_length; exact Hi).
  rewrite map_nth, seq_nth by exact Hi. reflexivity.
Qed.

(* ------------------------------------------------------------------------------------------ *)
(* B. sums over a Cartesian product factorise *)

Lemma cart_sum (Ks : list (list nat)) : forall F : nat -> nat -> R,
  rsum (map (fun x => rprod (map (fun i => F i (nth i x 0%nat)) (seq 0 (length Ks)))) (cart Ks))
  = rprod (map (fun i => rsum (map (F i) (nth i Ks []))) (seq 0 (length Ks))).
Proof.
  induction Ks as [|K Rs IH]; intros F.
  - simpl. lra.
  - cbn [length]. rewrite seq_S_shift. cbn [cart].
    rewrite rsum_flat_map.
    transitivity (rsum (map (fun a => F 0%nat a *
                     rprod (map (fun i => rsum (map (F (S i)) (nth i Rs []))) (seq 0 (length Rs)))) K)).
    + apply rsum_map_ext_in. intros a _. rewrite map_map.
      rewrite <- (IH (fun i => F (S i))). rewrite <- rsum_map_scale_l.
      apply rsum_map_ext_in. intros x' _. cbn [map rprod]. rewrite map_map. reflexivity.
    + cbn [map rprod]. rewrite map_map. cbn [nth].
      rewrite (rsum_map_scale (F 0%nat)). reflexivity.
Qed.

Lemma cart_In (Ks : list (list nat)) : forall x : outcome,
  length x = length Ks ->
  (forall i, (i < length Ks)%nat -> In (nth i x 0%nat) (nth i Ks [])) -> In x (cart Ks).
Proof.
  induction Ks as [|K Rs IH]; intros [|a x'] Hl H; simpl in Hl; try discriminate.
  - left; reflexivity.
  - cbn [cart]. apply in_flat_map. exists a. split.
    + apply (H 0%nat). simpl. lia.
    + apply in_map. apply IH; [lia|]. intros i Hi. apply (H (S i)). simpl. lia.
Qed.

(* ------------------------------------------------------------------------------------------ *)
(* C. pushforwards: real-valued sums, signs, lower bounds *)

Lemma rsum_add_to (g : outcome -> R) k v acc :
  rsum (map (fun kv => Q2R (snd kv) * g (fst kv)) (add_to k v acc))
  = rsum (map (fun kv => Q2R (snd kv) * g (fst kv)) acc) + Q2R v * g k.
Proof.
  induction acc as [|[k' v'] t IH]; simpl; [lra|].
  destruct (oeqb_spec k' k) as [->|Hne]; simpl.
  - rewrite Q2R_plus. lra.
  - rewrite IH. lra.
Qed.

(* sum_x p(x) g(f x) = sum_k (f_* p)(k) g(k), for any real g *)
Lemma rsum_pushforward (g : outcome -> R) (f : outcome -> outcome) (p : pd) :
  rsum (map (fun kv => Q2R (snd kv) * g (fst kv)) (pushforward f p))
  = rsum (map (fun kv => Q2R (snd kv) * g (f (fst kv))) p).
Proof.
  unfold pushforward.
  assert (H : forall acc,
    rsum (map (fun kv => Q2R (snd kv) * g (fst kv))
              (fold_left (fun acc x => add_to (f (fst x)) (snd x) acc) p acc))
    = rsum (map (fun kv => Q2R (snd kv) * g (fst kv)) acc)
      + rsum (map (fun kv => Q2R (snd kv) * g (f (fst kv))) p)).
  { induction p as [|[x v] t IH]; intros acc; simpl; [lra|]. rewrite IH, rsum_add_to. simpl. lra. }
  rewrite H. simpl. lra.
Qed.

Lemma nonneg_pd_In p kv : nonneg_pd p = true -> In kv p -> (0 <= snd kv)%Q.
Proof.
  unfold nonneg_pd. rewrite forallb_forall. intros H Hin. apply Qle_bool_iff, H, Hin.
Qed.

Lemma nonneg_pd_cons_intro k v p : (0 <= v)%Q -> nonneg_pd p = true -> nonneg_pd ((k, v) :: p) = true.
Proof.
  intros Hv Hp. unfold nonneg_pd. simpl. apply andb_true_iff. split; [apply Qle_bool_iff, Hv| exact Hp].
Qed.

Lemma nonneg_add_to k v acc :
  (0 <= v)%Q -> nonneg_pd acc = true -> nonneg_pd (add_to k v acc) = true.
Proof.
  induction acc as [|[k' v'] t IH]; intros Hv Hn; cbn [add_to].
  - apply nonneg_pd_cons_intro; [exact Hv| reflexivity].
  - apply nonneg_pd_cons in Hn as [Hv' Ht]. destruct (oeqb k' k).
    + apply nonneg_pd_cons_intro; [Lqa.lra| exact Ht].
    + apply nonneg_pd_cons_intro; [exact Hv'| apply IH; assumption].
Qed.

Lemma nonneg_pushforward f p : nonneg_pd p = true -> nonneg_pd (pushforward f p) = true.
Proof.
  unfold pushforward.
  assert (H : forall acc, nonneg_pd acc = true -> nonneg_pd p = true ->
              nonneg_pd (fold_left (fun acc x => add_to (f (fst x)) (snd x) acc) p acc) = true).
  { induction p as [|[x v] t IH]; intros acc Ha Hp; simpl; [exact Ha|].
    apply nonneg_pd_cons in Hp as [Hv Ht]. apply IH; [apply nonneg_add_to; assumption| exact Ht]. }
  intros Hp. apply H; [reflexivity| exact Hp].
Qed.

Lemma get0_nonneg m k : nonneg_pd m = true -> (0 <= get0 k m)%Q.
Proof.
  unfold get0. induction m as [|[k' v] t IH]; intros Hn; simpl; [Lqa.lra|].
  apply nonneg_pd_cons in Hn as [Hv Ht]. destruct (oeqb k' k); [exact Hv| apply IH, Ht].
Qed.

Lemma get0_notin m k : ~ In k (keys m) -> get0 k m = 0%Q.
Proof. intros H. apply find_key_None in H. unfold get0. rewrite H. reflexivity. Qed.

Lemma fibre_sum_nonneg' f p o : nonneg_pd p = true -> (0 <= fibre_sum f p o)%Q.
Proof.
  intros H. apply fibre_sum_nonneg. apply Forall_forall. intros x Hx. exact (nonneg_pd_In p x H Hx).
Qed.

Lemma fibre_sum_cons f x v t o :
  (fibre_sum f ((x, v) :: t) o == (if oeqb (f x) o then v else 0) + fibre_sum f t o)%Q.
Proof. unfold fibre_sum; simpl. destruct (oeqb (f x) o); simpl; Lqa.lra. Qed.

Lemma fibre_sum_ge f p x v :
  nonneg_pd p = true -> In (x, v) p -> (v <= fibre_sum f p (f x))%Q.
Proof.
  induction p as [|[x' v'] t IH]; intros Hn Hin; [destruct Hin|].
  apply nonneg_pd_cons in Hn as [Hv' Ht].
  rewrite fibre_sum_cons. pose proof (fibre_sum_nonneg' f t (f x) Ht) as H0.
  destruct Hin as [Heq|Hin].
  - injection Heq as -> ->. rewrite oeqb_refl. Lqa.lra.
  - specialize (IH Ht Hin). destruct (oeqb (f x') (f x)); Lqa.lra.
Qed.

Lemma get0_pushforward_ge f p x v :
  nonneg_pd p = true -> In (x, v) p -> (v <= get0 (f x) (pushforward f p))%Q.
Proof.
  intros Hn Hin. rewrite (get0_prob_of _ _ (pushforward_nodup f p)), pushforward_prob.
  apply fibre_sum_ge; assumption.
Qed.

(* ------------------------------------------------------------------------------------------ *)
(* D. the product of the marginals *)

Definition W (p : pd) (i a : nat) : R := Q2R (get0 [a] (marg p [i])).
Definition rw (p : pd) (n : nat) (x : outcome) : R :=
  rprod (map (fun i => W p i (nth i x 0%nat)) (seq 0 n)).

Lemma W_nonneg p i a : nonneg_pd p = true -> 0 <= W p i a.
Proof. intros H. apply Q2R_nonneg, get0_nonneg, nonneg_pushforward, H. Qed.

Lemma rw_nonneg p n x : nonneg_pd p = true -> 0 <= rw p n x.
Proof.
  intros H. apply rprod_nonneg. intros y Hy. apply in_map_iff in Hy as (i & <- & _).
  apply W_nonneg, H.
Qed.

Lemma W_ge p i x v : nonneg_pd p = true -> In (x, v) p -> Q2R v <= W p i (nth i x 0%nat).
Proof.
  intros Hn Hin. unfold W. apply Qle_Rle.
  exact (get0_pushforward_ge (proj [i]) p x v Hn Hin).
Qed.

Lemma rw_pos p n x v : nonneg_pd p = true -> In (x, v) p -> 0 < Q2R v -> 0 < rw p n x.
Proof.
  intros Hn Hin Hv. apply rprod_pos. intros y Hy. apply in_map_iff in Hy as (i & <- & _).
  pose proof (W_ge p i x v Hn Hin). lra.
Qed.

(* the symbols of variable i that occur in p, and the mass of the marginal summed over them *)
Definition syms (p : pd) (i : nat) : list nat := map (hd 0%nat) (keys (marg p [i])).

Lemma marg_key_singleton p i k : In k (keys (marg p [i])) -> [hd 0%nat k] = k.
Proof.
  intros Hk. unfold marg in Hk. apply pushforward_keys in Hk as (x & _ & ->). reflexivity.
Qed.

Lemma syms_sum p i : rsum (map (W p i) (syms p i)) = Q2R (mass p).
Proof.
  unfold syms, keys. rewrite !map_map.
  rewrite <- (Qeq_eqR _ _ (pushforward_mass (proj [i]) p)). fold (marg p [i]). rewrite mass_rsum.
  apply rsum_map_ext_in. intros kv Hin.
  assert (Hk : In (fst kv) (keys (marg p [i]))) by (apply in_map, Hin).
  unfold W. rewrite (marg_key_singleton p i _ Hk).
  rewrite (get0_In (marg p [i]) kv (pushforward_nodup (proj [i]) p) Hin). reflexivity.
Qed.

Lemma syms_In p i x : In x (keys p) -> In (nth i x 0%nat) (syms p i).
Proof.
  intros Hx. unfold syms.
  assert (Hk : In (proj [i] x) (keys (marg p [i]))).
  { unfold marg. apply pushforward_keys. exists x. split; [exact Hx| reflexivity]. }
  apply (in_map (hd 0%nat)) in Hk. exact Hk.
Qed.

Lemma rw_sum_le (n : nat) (p : pd) :
  NoDup (keys p) -> nonneg_pd p = true -> (forall x, In x (keys p) -> length x = n) ->
  rsum (map (rw p n) (keys p)) <= rprod (map (fun _ : nat => Q2R (mass p)) (seq 0 n)).
Proof.
  intros Hnd Hnn Hlen.
  set (Ks := map (syms p) (seq 0 n)).
  assert (HKs : length Ks = n) by (unfold Ks; rewrite map_length, seq_length; reflexivity).
  apply Rle_trans with (rsum (map (rw p n) (cart Ks))).
  - apply rsum_incl_le; [intros x; apply rw_nonneg, Hnn| exact Hnd|].
    intros x Hx. apply cart_In.
    + rewrite HKs. apply Hlen, Hx.
    + rewrite HKs. intros i Hi. unfold Ks. rewrite (nth_map_seq (syms p) n i [] Hi).
      apply syms_In, Hx.
  - pose proof (cart_sum Ks (W p)) as E. rewrite HKs in E.
    right. etransitivity; [exact E|]. f_equal. apply map_ext_in. intros i Hi. apply in_seq in Hi.
    unfold Ks. rewrite (nth_map_seq (syms p) n i []) by lia. apply syms_sum.
Qed.

(* ------------------------------------------------------------------------------------------ *)
(* E. subadditivity *)

Lemma dom_map {A : Type} (f g : A -> R) (l : list A) :
  (forall a, In a l -> 0 <= f a /\ 0 <= g a /\ (0 < g a \/ f a = 0)) -> dom (map f l) (map g l).
Proof.
  induction l as [|a l IH]; intros H; simpl; [constructor|].
  destruct (H a (or_introl eq_refl)) as (H1 & H2 & H3).
  constructor; try assumption. apply IH. intros b Hb. apply H. right. exact Hb.
Qed.

Lemma kl_map {A : Type} (f g : A -> R) (l : list A) :
  kl (map f l) (map g l) = rsum (map (fun a => klterm (f a) (g a)) l).
Proof. induction l as [|a l IH]; simpl; [reflexivity| rewrite IH; reflexivity]. Qed.

Lemma plogp_ln w : (0 <= w)%Q -> Q2R w * ln (Q2R w) = ln 2 * plogp w.
Proof.
  intros Hw. unfold plogp. destruct (Qle_bool w 0) eqn:E.
  - rewrite (qle0_true_zero w Hw E). ring.
  - unfold log2. pose proof ln2_pos. field. lra.
Qed.

Lemma klterm_rw p n x v :
  nonneg_pd p = true -> In (x, v) p ->
  klterm (Q2R v) (rw p n x)
  = ln 2 * plogp v - Q2R v * rsum (map (fun i => ln (W p i (nth i x 0%nat))) (seq 0 n)).
Proof.
  intros Hn Hin. pose proof (nonneg_pd_In p (x, v) Hn Hin) as Hv. simpl in Hv.
  rewrite <- (plogp_ln v Hv). unfold klterm.
  destruct (Qle_bool v 0) eqn:E.
  - rewrite (qle0_true_zero v Hv E). ring.
  - pose proof (qle0_false_pos v E) as Hp. unfold rw. rewrite ln_rprod.
    + rewrite map_map. ring.
    + intros y Hy. apply in_map_iff in Hy as (i & <- & _).
      pose proof (W_ge p i x v Hn Hin). lra.
Qed.

Lemma marg_term p i :
  nonneg_pd p = true ->
  rsum (map (fun kv => Q2R (snd kv) * ln (W p i (nth i (fst kv) 0%nat))) p)
  = entropy_list (map snd (marg p [i])) * (- ln 2).
Proof.
  intros Hn.
  pose proof (rsum_pushforward (fun k => ln (Q2R (get0 k (marg p [i])))) (proj [i]) p) as E.
  change (rsum (map (fun kv => Q2R (snd kv) * ln (W p i (nth i (fst kv) 0%nat))) p))
    with (rsum (map (fun kv : outcome * Q =>
                       Q2R (snd kv) * ln (Q2R (get0 (proj [i] (fst kv)) (marg p [i])))) p)).
  rewrite <- E. fold (marg p [i]).
  unfold entropy_list. rewrite map_map.
  transitivity (rsum (map (fun kv : outcome * Q => ln 2 * plogp (snd kv)) (marg p [i]))).
  - apply rsum_map_ext_in. intros kv Hin.
    rewrite (get0_In (marg p [i]) kv (pushforward_nodup (proj [i]) p) Hin).
    apply plogp_ln. apply (nonneg_pd_In (marg p [i]) kv); [apply nonneg_pushforward, Hn| exact Hin].
  - rewrite rsum_map_scale_l. ring.
Qed.

Theorem entropy_le_sum_marginals (n : nat) (p : pd) :
  NoDup (keys p) -> nonneg_pd p = true -> (mass p == 1)%Q ->
  (forall x, In x (keys p) -> length x = n) ->
  entropy_list (map snd p) <= rsum (map (fun i => entropy_list (map snd (marg p [i]))) (range n)).
Proof.
  intros Hnd Hnn Hm Hlen.
  assert (HM : Q2R (mass p) = 1) by (rewrite (Qeq_eqR _ _ Hm); apply Q2R_1).
  assert (Hdom : dom (map (fun kv : outcome * Q => Q2R (snd kv)) p)
                     (map (fun kv : outcome * Q => rw p n (fst kv)) p)).
  { apply dom_map. intros [x v] Hin. simpl.
    pose proof (nonneg_pd_In p (x, v) Hnn Hin) as Hv. simpl in Hv. apply Q2R_nonneg in Hv.
    split; [exact Hv|]. split; [apply rw_nonneg, Hnn|].
    destruct (Req_dec (Q2R v) 0) as [E|E]; [right; exact E| left].
    apply (rw_pos p n x v Hnn Hin). lra. }
  pose proof (gibbs_aux _ _ Hdom) as Hg.
  rewrite kl_map, <- mass_rsum, HM in Hg.
  assert (Hr : rsum (map (fun kv : outcome * Q => rw p n (fst kv)) p) <= 1).
  { pose proof (rw_sum_le n p Hnd Hnn Hlen) as H. unfold keys in H. rewrite map_map in H.
    rewrite rprod_ones in H by (intros; exact HM). exact H. }
  rewrite (rsum_map_ext_in
             (fun kv : outcome * Q => klterm (Q2R (snd kv)) (rw p n (fst kv)))
             (fun kv : outcome * Q => ln 2 * plogp (snd kv)
                - Q2R (snd kv) * rsum (map (fun i => ln (W p i (nth i (fst kv) 0%nat))) (seq 0 n)))) in Hg
    by (intros [x v] Hin; apply (klterm_rw p n x v Hnn Hin)).
  rewrite rsum_map_minus, rsum_map_scale_l in Hg.
  rewrite (rsum_swap (fun kv : outcome * Q => Q2R (snd kv))
                     (fun i (kv : outcome * Q) => ln (W p i (nth i (fst kv) 0%nat)))) in Hg.
  rewrite (rsum_map_ext_in _ (fun i => entropy_list (map snd (marg p [i])) * (- ln 2))) in Hg
    by (intros i _; apply marg_term, Hnn).
  rewrite rsum_map_scale in Hg.
  unfold range. unfold entropy_list at 1.
  replace (rsum (map (fun kv : outcome * Q => plogp (snd kv)) p)) with (rsum (map plogp (map snd p))) in Hg
    by (rewrite map_map; reflexivity).
  set (S := rsum (map plogp (map snd p))) in *.
  set (T := rsum (map (fun i => entropy_list (map snd (marg p [i]))) (seq 0 n))) in *.
  pose proof ln2_pos as H2.
  replace (T * - ln 2) with (- (ln 2 * T)) in Hg by ring.
  apply Rmult_le_reg_l with (ln 2); [exact H2|].
  replace (ln 2 * - S) with (- (ln 2 * S)) by ring. lra.
Qed.

(* ------------------------------------------------------------------------------------------ *)
(* F. tables with the same lookups have the same entropy; the corollary for singleton constraints *)

Lemma plogp_Qeq a b : (a == b)%Q -> plogp a = plogp b.
Proof.
  intros E. unfold plogp. rewrite (Qeq_eqR _ _ E).
  replace (Qle_bool a 0) with (Qle_bool b 0); [reflexivity|].
  destruct (Qle_bool a 0) eqn:Ea, (Qle_bool b 0) eqn:Eb; try reflexivity.
  - apply Qle_bool_iff in Ea. rewrite E in Ea. apply Qle_bool_iff in Ea. congruence.
  - apply Qle_bool_iff in Eb. rewrite <- E in Eb. apply Qle_bool_iff in Eb. congruence.
Qed.

Lemma rsum_filter_zero {A : Type} (phi : A -> R) (b : A -> bool) (l : list A) :
  (forall x, In x l -> b x = false -> phi x = 0) -> rsum (map phi l) = rsum (map phi (filter b l)).
Proof.
  induction l as [|a l IH]; simpl; intros H; [reflexivity|].
  assert (Hl : forall x, In x l -> b x = false -> phi x = 0) by (intros x Hx; apply H; right; exact Hx).
  destruct (b a) eqn:E; simpl; rewrite (IH Hl); [reflexivity|].
  rewrite (H a (or_introl eq_refl) E). lra.
Qed.

Lemma omem_false o l : omem o l = false <-> ~ In o l.
Proof.
  split.
  - intros E Hin. apply omem_In in Hin. congruence.
  - intros H. destruct (omem o l) eqn:E; [|reflexivity]. apply omem_In in E. contradiction.
Qed.

(* a function vanishing outside the intersection of two duplicate-free lists has the same sum over both *)
Lemma rsum_same_support (phi : outcome -> R) (l1 l2 : list outcome) :
  NoDup l1 -> NoDup l2 ->
  (forall k, In k l1 -> ~ In k l2 -> phi k = 0) -> (forall k, In k l2 -> ~ In k l1 -> phi k = 0) ->
  rsum (map phi l1) = rsum (map phi l2).
Proof.
  intros H1 H2 Z1 Z2.
  rewrite (rsum_filter_zero phi (fun k => omem k l2) l1)
    by (intros k Hk E; apply Z1; [exact Hk| apply omem_false, E]).
  rewrite (rsum_filter_zero phi (fun k => omem k l1) l2)
    by (intros k Hk E; apply Z2; [exact Hk| apply omem_false, E]).
  apply rsum_perm, Permutation_map, NoDup_Permutation; try (apply NoDup_filter; assumption).
  intros k. rewrite !filter_In, !omem_In. tauto.
Qed.

Lemma entropy_by_keys (m : pd) :
  NoDup (keys m) -> entropy_list (map snd m) = - rsum (map (fun k => plogp (get0 k m)) (keys m)).
Proof.
  intros Hn. unfold entropy_list, keys. rewrite !map_map. f_equal.
  apply rsum_map_ext_in. intros kv Hin. rewrite (get0_In m kv Hn Hin). reflexivity.
Qed.

Theorem entropy_eq_of_get0 (m1 m2 : pd) :
  NoDup (keys m1) -> NoDup (keys m2) -> (forall k, (get0 k m1 == get0 k m2)%Q) ->
  entropy_list (map snd m1) = entropy_list (map snd m2).
Proof.
  intros H1 H2 H. rewrite (entropy_by_keys m1 H1), (entropy_by_keys m2 H2). f_equal.
  transitivity (rsum (map (fun k => plogp (get0 k m1)) (keys m2))).
  - apply rsum_same_support; try assumption.
    + intros k _ Hk. rewrite (plogp_Qeq _ _ (H k)), (get0_notin m2 k Hk). apply plogp_0.
    + intros k _ Hk. rewrite (get0_notin m1 k Hk). apply plogp_0.
  - apply rsum_map_ext_in. intros k _. apply plogp_Qeq, H.
Qed.

Corollary singleton_constraints_bound (n : nat) (d p : pd) :
  NoDup (keys p) -> nonneg_pd p = true -> (mass p == 1)%Q ->
  (forall x, In x (keys p) -> length x = n) ->
  (forall i k, (i < n)%nat -> (get0 k (marg p [i]) == get0 k (marg d [i]))%Q) ->
  entropy_list (map snd p) <= rsum (map (fun i => entropy_list (map snd (marg d [i]))) (range n)).
Proof.
  intros Hnd Hnn Hm Hlen Hmarg.
  pose proof (entropy_le_sum_marginals n p Hnd Hnn Hm Hlen) as H.
  rewrite (rsum_map_ext_in _ (fun i => entropy_list (map snd (marg d [i])))) in H; [exact H|].
  intros i Hi. unfold range in Hi. apply in_seq in Hi.
  apply entropy_eq_of_get0; try apply pushforward_nodup.
  intros k. apply Hmarg. lia.
Qed.

(* ------------------------------------------------------------------------------------------ *)
(* G. the product of the marginals attains the bound *)

Definition hh (t : R) : R := t * ln t.

Lemma hh_mult s t : 0 <= s -> 0 <= t -> hh (s * t) = s * hh t + t * hh s.
Proof.
  intros Hs Ht. unfold hh.
  destruct (Req_dec s 0) as [->|Hs0]; [ring|].
  destruct (Req_dec t 0) as [->|Ht0]; [ring|].
  rewrite ln_mult by lra. ring.
Qed.

Lemma cart_hsum (Ks : list (list nat)) : forall F : nat -> nat -> R,
  (forall i a, 0 <= F i a) ->
  (forall i, (i < length Ks)%nat -> rsum (map (F i) (nth i Ks [])) = 1) ->
  rsum (map (fun x => hh (rprod (map (fun i => F i (nth i x 0%nat)) (seq 0 (length Ks))))) (cart Ks))
  = rsum (map (fun i => rsum (map (fun a => hh (F i a)) (nth i Ks []))) (seq 0 (length Ks))).
Proof.
  induction Ks as [|K Rs IH]; intros F Hpos Hone.
  - simpl. unfold hh. rewrite ln_1. ring.
  - cbn [length]. rewrite seq_S_shift. cbn [cart]. rewrite rsum_flat_map.
    set (P := fun x' : outcome => rprod (map (fun i => F (S i) (nth i x' 0%nat)) (seq 0 (length Rs)))).
    assert (HP0 : forall x', 0 <= P x').
    { intros x'. apply rprod_nonneg. intros y Hy. apply in_map_iff in Hy as (i & <- & _). apply Hpos. }
    assert (HP1 : rsum (map P (cart Rs)) = 1).
    { etransitivity; [exact (cart_sum Rs (fun i => F (S i)))|]. apply rprod_ones.
      intros i Hi. apply in_seq in Hi. apply (Hone (S i)). simpl. lia. }
    assert (HIH : rsum (map (fun x' => hh (P x')) (cart Rs))
                  = rsum (map (fun i => rsum (map (fun a => hh (F (S i) a)) (nth i Rs []))) (seq 0 (length Rs)))).
    { apply (IH (fun i => F (S i))); [intros i a; apply Hpos|].
      intros i Hi. apply (Hone (S i)). simpl. lia. }
    transitivity (rsum (map (fun a => F 0%nat a * rsum (map (fun x' => hh (P x')) (cart Rs))
                                      + hh (F 0%nat a) * rsum (map P (cart Rs))) K)).
    + apply rsum_map_ext_in. intros a _. rewrite map_map.
      rewrite <- rsum_map_scale_l. rewrite <- (rsum_map_scale_l P). rewrite <- rsum_map_plus.
      apply rsum_map_ext_in. intros x' _. cbn [map rprod]. rewrite map_map.
      change (hh (F 0%nat a * P x') = F 0%nat a * hh (P x') + hh (F 0%nat a) * P x').
      rewrite hh_mult by (try apply Hpos; apply HP0). ring.
    + rewrite rsum_map_plus, HP1, HIH.
      rewrite (rsum_map_scale (F 0%nat)).
      pose proof (Hone 0%nat) as H0. cbn [nth length] in H0. rewrite H0 by lia.
      cbn [map rsum nth]. rewrite map_map. cbn [nth].
      rewrite (rsum_map_ext_in (fun a => hh (F 0%nat a) * 1) (fun a => hh (F 0%nat a))) by (intros; ring).
      ring.
Qed.

Lemma NoDup_map_singleton (A : list nat) : NoDup A -> NoDup (map (fun a => [a]) A).
Proof.
  induction 1 as [|a l Hn Hd IH]; simpl; constructor; [|exact IH].
  intros Hin. apply in_map_iff in Hin as (b & E & Hb). injection E as ->. contradiction.
Qed.

Lemma fibre_sum_zero f d o :
  (forall x v, In (x, v) d -> f x = o -> (v == 0)%Q) -> (fibre_sum f d o == 0)%Q.
Proof.
  induction d as [|[x v] t IH]; intros H; [reflexivity|].
  rewrite fibre_sum_cons. rewrite IH by (intros x' v' Hin; apply H; right; exact Hin).
  destruct (oeqb_spec (f x) o) as [E|_]; [rewrite (H x v (or_introl eq_refl) E)|]; Lqa.lra.
Qed.

Lemma marg_get0_zero d i b :
  (forall x v, In (x, v) d -> nth i x 0%nat = b -> (v == 0)%Q) -> (get0 [b] (marg d [i]) == 0)%Q.
Proof.
  intros H. unfold marg.
  rewrite (get0_prob_of _ _ (pushforward_nodup (proj [i]) d)), pushforward_prob.
  apply fibre_sum_zero. intros x v Hin E. apply (H x v Hin).
  unfold proj in E. simpl in E. injection E as E. exact E.
Qed.

(* sums over an alphabet that covers the support of the marginal = sums over the marginal's table *)
Lemma alph_transfer (phi : R -> R) d i A :
  phi 0 = 0 -> NoDup A ->
  (forall b, In [b] (keys (marg d [i])) -> ~ In b A -> (get0 [b] (marg d [i]) == 0)%Q) ->
  rsum (map (fun a => phi (W d i a)) A) = rsum (map (fun kv => phi (Q2R (snd kv))) (marg d [i])).
Proof.
  intros H0 HA Hz.
  transitivity (rsum (map (fun k => phi (Q2R (get0 k (marg d [i])))) (map (fun a => [a]) A))).
  { rewrite map_map. reflexivity. }
  transitivity (rsum (map (fun k => phi (Q2R (get0 k (marg d [i])))) (keys (marg d [i])))).
  - apply rsum_same_support.
    + apply NoDup_map_singleton, HA.
    + apply pushforward_nodup.
    + intros k _ Hk. rewrite (get0_notin _ k Hk), Q2R_0. exact H0.
    + intros k Hk Hn. pose proof (marg_key_singleton d i k Hk) as E.
      assert (Hb : ~ In (hd 0%nat k) A).
      { intros Hb. apply Hn. rewrite <- E. apply (in_map (fun a => [a])), Hb. }
      assert (Hk' : In [hd 0%nat k] (keys (marg d [i]))) by (rewrite E; exact Hk).
      rewrite <- E. rewrite (Qeq_eqR _ _ (Hz _ Hk' Hb)), Q2R_0. exact H0.
  - unfold keys. rewrite map_map. apply rsum_map_ext_in. intros kv Hin.
    rewrite (get0_In (marg d [i]) kv (pushforward_nodup _ _) Hin). reflexivity.
Qed.

Lemma alph_hsum d i A :
  nonneg_pd d = true -> NoDup A ->
  (forall b, In [b] (keys (marg d [i])) -> ~ In b A -> (get0 [b] (marg d [i]) == 0)%Q) ->
  rsum (map (fun a => hh (W d i a)) A) = entropy_list (map snd (marg d [i])) * (- ln 2).
Proof.
  intros Hn HA Hz. rewrite (alph_transfer hh d i A); [|unfold hh; ring| exact HA| exact Hz].
  unfold entropy_list. rewrite map_map.
  rewrite (rsum_map_ext_in _ (fun kv : outcome * Q => ln 2 * plogp (snd kv))).
  - rewrite rsum_map_scale_l. ring.
  - intros kv Hin. unfold hh. apply plogp_ln.
    apply (nonneg_pd_In (marg d [i]) kv); [apply nonneg_pushforward, Hn| exact Hin].
Qed.

Lemma alph_sum d i A :
  NoDup A ->
  (forall b, In [b] (keys (marg d [i])) -> ~ In b A -> (get0 [b] (marg d [i]) == 0)%Q) ->
  rsum (map (W d i) A) = Q2R (mass d).
Proof.
  intros HA Hz. etransitivity; [exact (alph_transfer (fun t => t) d i A eq_refl HA Hz)|].
  cbv beta. rewrite <- mass_rsum. apply Qeq_eqR. apply pushforward_mass.
Qed.

Lemma Q2R_qprod l : Q2R (fold_right Qmult 1%Q l) = rprod (map Q2R l).
Proof. induction l as [|a l IH]; simpl; [apply Q2R_1| rewrite Q2R_mult, IH; reflexivity]. Qed.

Definition prod_entry (n : nat) (d : pd) (x : outcome) : Q :=
  fold_right Qmult 1%Q (map (fun i => get0 [nth i x 0%nat] (marg d [i])) (range n)).

Lemma prod_entry_R n d x : Q2R (prod_entry n d x) = rw d n x.
Proof. unfold prod_entry. rewrite Q2R_qprod, map_map. reflexivity. Qed.

Lemma prod_entry_plogp n d x :
  nonneg_pd d = true -> ln 2 * plogp (Qred (prod_entry n d x)) = hh (rw d n x).
Proof.
  intros Hn. rewrite (plogp_Qeq _ _ (Qred_correct (prod_entry n d x))).
  rewrite <- plogp_ln.
  - unfold hh. rewrite prod_entry_R. reflexivity.
  - apply Rle_Qle. rewrite Q2R_0, prod_entry_R. apply rw_nonneg, Hn.
Qed.

Theorem entropy_product (n : nat) (alph : list (list nat)) (d : pd) :
  length alph = n -> (forall i, (i < n)%nat -> NoDup (nth i alph [])) ->
  nonneg_pd d = true -> (mass d == 1)%Q ->
  (forall x v, In (x, v) d ->
     (v == 0)%Q \/ forall i, (i < n)%nat -> In (nth i x 0%nat) (nth i alph [])) ->
  entropy_list (map snd (product_pd n (cart alph) d))
  = rsum (map (fun i => entropy_list (map snd (marg d [i]))) (range n)).
Proof.
  intros Hlen Hnd Hnn Hm Hsup.
  assert (HM : Q2R (mass d) = 1) by (rewrite (Qeq_eqR _ _ Hm); apply Q2R_1).
  assert (Hz : forall i b, (i < n)%nat -> In [b] (keys (marg d [i])) -> ~ In b (nth i alph []) ->
                           (get0 [b] (marg d [i]) == 0)%Q).
  { intros i b Hi _ Hb. apply marg_get0_zero. intros x v Hin E.
    destruct (Hsup x v Hin) as [Hv|Hall]; [exact Hv|]. exfalso. apply Hb. rewrite <- E. apply Hall, Hi. }
  pose proof (cart_hsum alph (W d) (fun i a => W_nonneg d i a Hnn)) as HC.
  rewrite Hlen in HC.
  assert (H1 : forall i, (i < n)%nat -> rsum (map (W d i) (nth i alph [])) = 1).
  { intros i Hi. rewrite (alph_sum d i _ (Hnd i Hi) (fun b => Hz i b Hi)). exact HM. }
  specialize (HC H1).
  rewrite (rsum_map_ext_in _ (fun i => entropy_list (map snd (marg d [i])) * (- ln 2))) in HC
    by (intros i Hi; apply in_seq in Hi; apply alph_hsum;
        [exact Hnn| apply Hnd; lia| intros b; apply Hz; lia]).
  rewrite rsum_map_scale in HC.
  assert (HL : ln 2 * rsum (map (fun x => plogp (Qred (prod_entry n d x))) (cart alph))
               = rsum (map (fun x => hh (rw d n x)) (cart alph))).
  { rewrite <- rsum_map_scale_l. apply rsum_map_ext_in. intros x _. apply prod_entry_plogp, Hnn. }
  unfold entropy_list at 1. unfold product_pd. rewrite !map_map. cbn [snd]. fold (range n) in HC.
  change (- rsum (map (fun x => plogp (Qred (prod_entry n d x))) (cart alph))
          = rsum (map (fun i => entropy_list (map snd (marg d [i]))) (range n))).
  change (rsum (map (fun x => hh (rw d n x)) (cart alph))
          = rsum (map (fun i => entropy_list (map snd (marg d [i]))) (range n)) * - ln 2) in HC.
  set (S := rsum (map (fun x => plogp (Qred (prod_entry n d x))) (cart alph))) in *.
  set (T := rsum (map (fun i => entropy_list (map snd (marg d [i]))) (range n))) in *.
  pose proof ln2_pos as H2. rewrite <- HL in HC.
  apply Rmult_eq_reg_l with (ln 2); [|lra]. rewrite Ropp_mult_distr_r_reverse. lra.
Qed.

(* ------------------------------------------------------------------------------------------ *)
(* H. the product of the marginals is feasible, hence it is the maximiser *)

Lemma keys_product n ss d : keys (product_pd n ss d) = ss.
Proof. unfold keys, product_pd. rewrite map_map. simpl. apply map_id. Qed.

Lemma nonneg_product n ss d : nonneg_pd d = true -> nonneg_pd (product_pd n ss d) = true.
Proof.
  intros Hn. unfold nonneg_pd, product_pd. rewrite forallb_forall. intros kv Hin.
  apply in_map_iff in Hin as (x & <- & _). cbn [snd]. apply Qle_bool_iff, Rle_Qle.
  change (Q2R 0 <= Q2R (Qred (prod_entry n d x))).
  rewrite Q2R_0, Q2R_Qred, prod_entry_R. apply rw_nonneg, Hn.
Qed.

Lemma cart_length (alph : list (list nat)) : forall x, In x (cart alph) -> length x = length alph.
Proof.
  induction alph as [|K Rs IH]; intros x Hx; simpl in Hx.
  - destruct Hx as [<-|[]]. reflexivity.
  - apply in_flat_map in Hx as (a & _ & Hx). apply in_map_iff in Hx as (x' & <- & Hx').
    simpl. rewrite (IH x' Hx'). reflexivity.
Qed.

Lemma nodup_app_intro {A : Type} (l1 l2 : list A) :
  NoDup l1 -> NoDup l2 -> (forall x, In x l1 -> ~ In x l2) -> NoDup (l1 ++ l2).
Proof.
  induction 1 as [|a l Ha Hl IH]; intros H2 Hd; simpl; [exact H2|].
  constructor.
  - intros Hin. apply in_app_or in Hin as [Hin|Hin]; [contradiction|].
    apply (Hd a (or_introl eq_refl) Hin).
  - apply IH; [exact H2|]. intros x Hx. apply Hd. right. exact Hx.
Qed.

Lemma NoDup_map_cons (a : nat) (L : list outcome) : NoDup L -> NoDup (map (cons a) L).
Proof.
  induction 1 as [|x l Hn Hd IH]; simpl; constructor; [|exact IH].
  intros Hin. apply in_map_iff in Hin as (y & E & Hy). injection E as ->. contradiction.
Qed.

Lemma cart_nodup (alph : list (list nat)) :
  (forall i, (i < length alph)%nat -> NoDup (nth i alph [])) -> NoDup (cart alph).
Proof.
  induction alph as [|K Rs IH]; intros H.
  - simpl. constructor; [intros []| constructor].
  - assert (HK : NoDup K) by (apply (H 0%nat); simpl; lia).
    assert (HR : NoDup (cart Rs)) by (apply IH; intros i Hi; apply (H (S i)); simpl; lia).
    cbn [cart]. clear H IH. induction HK as [|a K' Ha HK' IHK]; simpl; [constructor|].
    apply nodup_app_intro; [apply NoDup_map_cons, HR| exact IHK|].
    intros x Hx Hx'. apply in_map_iff in Hx as (x1 & <- & _).
    apply in_flat_map in Hx' as (a' & Ha' & Hx'). apply in_map_iff in Hx' as (x2 & E & _).
    injection E as -> _. contradiction.
Qed.

Lemma rprod_mult {A : Type} (f g : A -> R) (l : list A) :
  rprod (map (fun j => f j * g j) l) = rprod (map f l) * rprod (map g l).
Proof. induction l as [|a l IH]; simpl; [ring| rewrite IH; ring]. Qed.

Lemma rprod_pick (c : nat -> R) (i : nat) (l : list nat) :
  NoDup l -> In i l -> rprod (map (fun j => if Nat.eqb j i then c j else 1) l) = c i.
Proof.
  induction 1 as [|j l Hj Hl IH]; intros Hin; [destruct Hin|]. simpl.
  destruct (Nat.eqb_spec j i) as [->|Hne].
  - rewrite rprod_ones; [ring|]. intros x Hx.
    destruct (Nat.eqb_spec x i) as [->|_]; [contradiction| reflexivity].
  - destruct Hin as [E|Hin]; [contradiction|]. rewrite (IH Hin). ring.
Qed.

Lemma rsum_pick_in (f : nat -> R) (b : nat) (A : list nat) :
  NoDup A -> In b A -> rsum (map (fun a => f a * (if Nat.eqb a b then 1 else 0)) A) = f b.
Proof.
  induction 1 as [|a l Ha Hl IH]; intros Hin; [destruct Hin|]. simpl.
  assert (Hz : forall l', ~ In b l' -> rsum (map (fun a => f a * (if Nat.eqb a b then 1 else 0)) l') = 0).
  { induction l' as [|y l' IH']; simpl; intros Hn; [reflexivity|].
    destruct (Nat.eqb_spec y b) as [->|_]; [exfalso; apply Hn; left; reflexivity|].
    rewrite IH' by (intros Hc; apply Hn; right; exact Hc). ring. }
  destruct (Nat.eqb_spec a b) as [->|Hne].
  - rewrite (Hz l Ha). ring.
  - destruct Hin as [E|Hin]; [contradiction|]. rewrite (IH Hin). ring.
Qed.

Lemma rsum_pick_notin (f : nat -> R) (b : nat) (A : list nat) :
  ~ In b A -> rsum (map (fun a => f a * (if Nat.eqb a b then 1 else 0)) A) = 0.
Proof.
  induction A as [|y l IH]; simpl; intros Hn; [reflexivity|].
  destruct (Nat.eqb_spec y b) as [->|_]; [exfalso; apply Hn; left; reflexivity|].
  rewrite IH by (intros Hc; apply Hn; right; exact Hc). ring.
Qed.

Lemma Q2R_fibre_sum f p o :
  Q2R (fibre_sum f p o)
  = rsum (map (fun kv => Q2R (snd kv) * (if oeqb (f (fst kv)) o then 1 else 0)) p).
Proof.
  induction p as [|[x v] t IH]; [unfold fibre_sum; simpl; apply Q2R_0|].
  rewrite (Qeq_eqR _ _ (fibre_sum_cons f x v t o)), Q2R_plus, IH. simpl.
  destruct (oeqb (f x) o); [|rewrite Q2R_0]; ring.
Qed.

Section Product.
Variables (n : nat) (alph : list (list nat)) (d : pd).
Hypothesis Hlen : length alph = n.
Hypothesis Hnd : forall i, (i < n)%nat -> NoDup (nth i alph []).
Hypothesis Hnn : nonneg_pd d = true.
Hypothesis Hm : (mass d == 1)%Q.
Hypothesis Hsup : forall x v, In (x, v) d ->
  (v == 0)%Q \/ forall i, (i < n)%nat -> In (nth i x 0%nat) (nth i alph []).

Let HM : Q2R (mass d) = 1.
Proof. rewrite (Qeq_eqR _ _ Hm). apply Q2R_1. Qed.

Let Hz : forall i b, (i < n)%nat -> In [b] (keys (marg d [i])) -> ~ In b (nth i alph []) ->
                     (get0 [b] (marg d [i]) == 0)%Q.
Proof.
  intros i b Hi _ Hb. apply marg_get0_zero. intros x v Hin E.
  destruct (Hsup x v Hin) as [Hv|Hall]; [exact Hv|]. exfalso. apply Hb. rewrite <- E. apply Hall, Hi.
Qed.

Let H1 : forall i, (i < n)%nat -> rsum (map (W d i) (nth i alph [])) = 1.
Proof. intros i Hi. rewrite (alph_sum d i _ (Hnd i Hi) (fun b => Hz i b Hi)). exact HM. Qed.

Lemma W_off_alph i b : (i < n)%nat -> ~ In b (nth i alph []) -> W d i b = 0.
Proof.
  intros Hi Hb. unfold W. destruct (omem [b] (keys (marg d [i]))) eqn:E.
  - apply omem_In in E. rewrite (Qeq_eqR _ _ (Hz i b Hi E Hb)). apply Q2R_0.
  - apply omem_false in E. rewrite (get0_notin _ _ E). apply Q2R_0.
Qed.

Lemma product_mass : (mass (product_pd n (cart alph) d) == 1)%Q.
Proof.
  apply eqR_Qeq. rewrite mass_rsum, Q2R_1. unfold product_pd. rewrite map_map. cbn [snd].
  rewrite (rsum_map_ext_in _ (rw d n))
    by (intros x _; change (Q2R (Qred (prod_entry n d x)) = rw d n x);
        rewrite Q2R_Qred; apply prod_entry_R).
  pose proof (cart_sum alph (W d)) as E. rewrite Hlen in E.
  etransitivity; [exact E|]. apply rprod_ones. intros i Hi. apply in_seq in Hi. apply H1. lia.
Qed.

Lemma product_marginal i k :
  (i < n)%nat ->
  (get0 k (marg (product_pd n (cart alph) d) [i]) == get0 k (marg d [i]))%Q.
Proof.
  intros Hi. apply eqR_Qeq. unfold marg at 1.
  rewrite (Qeq_eqR _ _ (get0_prob_of _ k (pushforward_nodup (proj [i]) _))).
  rewrite (Qeq_eqR _ _ (pushforward_prob (proj [i]) _ k)).
  rewrite Q2R_fibre_sum. unfold product_pd. rewrite map_map. cbn [fst snd].
  destruct (oeqb_spec [hd 0%nat k] k) as [Ek|Ek].
  - (* k = [b] *)
    set (b := hd 0%nat k) in *. rewrite <- Ek. fold (W d i b).
    set (ind := fun j a : nat => if Nat.eqb j i then (if Nat.eqb a b then 1 else 0) else 1).
    rewrite (rsum_map_ext_in _
               (fun x => rprod (map (fun j => (W d j (nth j x 0%nat)) * ind j (nth j x 0%nat)) (seq 0 n)))).
    + pose proof (cart_sum alph (fun j a => W d j a * ind j a)) as E. rewrite Hlen in E.
      etransitivity; [exact E|].
      rewrite (map_ext_in _ (fun j => if Nat.eqb j i
                                      then rsum (map (fun a => W d j a * ind j a) (nth j alph []))
                                      else 1)).
      * rewrite (rprod_pick _ i) by (try apply seq_NoDup; apply in_seq; lia).
        unfold ind. rewrite Nat.eqb_refl.
        destruct (in_dec Nat.eq_dec b (nth i alph [])) as [Hb|Hb].
        -- apply rsum_pick_in; [apply Hnd, Hi| exact Hb].
        -- rewrite (rsum_pick_notin _ _ _ Hb). symmetry. apply W_off_alph; assumption.
      * intros j Hj. apply in_seq in Hj. destruct (Nat.eqb_spec j i) as [_|Hne]; [reflexivity|].
        rewrite <- (H1 j) by lia. apply rsum_map_ext_in. intros a _. unfold ind.
        destruct (Nat.eqb_spec j i) as [|_]; [contradiction| ring].
    + intros x _. change (Q2R (Qred (prod_entry n d x)) * (if oeqb (proj [i] x) [b] then 1 else 0)
                          = rprod (map (fun j => W d j (nth j x 0%nat) * ind j (nth j x 0%nat)) (seq 0 n))).
      rewrite Q2R_Qred, prod_entry_R, rprod_mult. fold (rw d n x). f_equal.
      unfold ind. rewrite (rprod_pick (fun j => if Nat.eqb (nth j x 0%nat) b then 1 else 0) i)
        by (try apply seq_NoDup; apply in_seq; lia).
      unfold proj. simpl. rewrite andb_true_r. reflexivity.
  - (* k is not a singleton: both sides vanish *)
    rewrite get0_notin by (intros Hk; apply Ek, (marg_key_singleton d i k Hk)).
    rewrite Q2R_0. rewrite (rsum_map_ext_in _ (fun _ => 0)).
    + clear. induction (cart alph) as [|x l IH]; simpl; [reflexivity| rewrite IH; ring].
    + intros x _. destruct (oeqb_spec (proj [i] x) k) as [E|_]; [|ring].
      exfalso. apply Ek. rewrite <- E. reflexivity.
Qed.

Theorem product_feasible :
  let P := product_pd n (cart alph) d in
  NoDup (keys P) /\ nonneg_pd P = true /\ (mass P == 1)%Q /\
  (forall x, In x (keys P) -> length x = n) /\
  (forall i k, (i < n)%nat -> (get0 k (marg P [i]) == get0 k (marg d [i]))%Q).
Proof.
  cbv zeta. rewrite keys_product. repeat split.
  - apply cart_nodup. rewrite Hlen. exact Hnd.
  - apply nonneg_product, Hnn.
  - exact product_mass.
  - intros x Hx. rewrite <- Hlen. apply cart_length, Hx.
  - intros i k Hi. apply product_marginal, Hi.
Qed.

(* the product of the marginals has the largest entropy among the tables with d's single-variable marginals *)
Theorem product_maximises (p : pd) :
  NoDup (keys p) -> nonneg_pd p = true -> (mass p == 1)%Q ->
  (forall x, In x (keys p) -> length x = n) ->
  (forall i k, (i < n)%nat -> (get0 k (marg p [i]) == get0 k (marg d [i]))%Q) ->
  entropy_list (map snd p) <= entropy_list (map snd (product_pd n (cart alph) d)).
Proof.
  intros Hp1 Hp2 Hp3 Hp4 Hp5.
  rewrite (entropy_product n alph d Hlen Hnd Hnn Hm Hsup).
  exact (singleton_constraints_bound n d p Hp1 Hp2 Hp3 Hp4 Hp5).
Qed.
End Product.

(* ------------------------------------------------------------------------------------------ *)
(* I. the boolean support check of the model gives the support hypothesis; non-vacuity *)

Lemma mem_cart_nth (alph : list (list nat)) : forall o : outcome,
  mem_cart o alph = true ->
  length o = length alph /\ forall i, (i < length alph)%nat -> In (nth i o 0%nat) (nth i alph []).
Proof.
  induction alph as [|K Rs IH]; intros [|a o] H; simpl in H; try discriminate.
  - split; [reflexivity| intros i Hi; simpl in Hi; lia].
  - apply andb_true_iff in H as [Ha Ho]. apply nat_mem_In in Ha. destruct (IH o Ho) as [Hl Hi].
    split; [simpl; rewrite Hl; reflexivity|].
    intros [|i] Hlt; simpl; [exact Ha| apply Hi; simpl in Hlt; lia].
Qed.

Lemma support_in_spec (alph : list (list nat)) (d : pd) :
  nonneg_pd d = true -> support_in alph d = true ->
  forall x v, In (x, v) d ->
    (v == 0)%Q \/ forall i, (i < length alph)%nat -> In (nth i x 0%nat) (nth i alph []).
Proof.
  intros Hn Hs x v Hin. unfold support_in in Hs. rewrite forallb_forall in Hs.
  specialize (Hs (x, v) Hin). simpl in Hs. apply orb_true_iff in Hs as [Hv|Hc].
  - left. apply Qle_bool_iff in Hv. pose proof (nonneg_pd_In d (x, v) Hn Hin) as H0. simpl in H0.
    Lqa.lra.
  - right. apply (mem_cart_nth alph x Hc).
Qed.

(* in the vocabulary of the model: alphabets without repetitions, pd_ok-style hypotheses on d *)
Corollary product_maximises_model (alph : list (list nat)) (d p : pd) :
  (forall i, (i < length alph)%nat -> NoDup (nth i alph [])) ->
  nonneg_pd d = true -> support_in alph d = true -> (mass d == 1)%Q ->
  NoDup (keys p) -> nonneg_pd p = true -> (mass p == 1)%Q ->
  (forall x, In x (keys p) -> length x = length alph) ->
  (forall i k, (i < length alph)%nat -> (get0 k (marg p [i]) == get0 k (marg d [i]))%Q) ->
  entropy_list (map snd p) <= entropy_list (map snd (product_pd (length alph) (cart alph) d)).
Proof.
  intros Hnd Hnn Hs Hm. apply (product_maximises (length alph) alph d eq_refl Hnd Hnn Hm).
  apply support_in_spec; assumption.
Qed.

Definition ex_alph : list (list nat) := [[0; 1]; [0; 1]]%nat.

Example ex_product_hypotheses :
  (forall i, (i < length ex_alph)%nat -> NoDup (nth i ex_alph [])) /\
  nonneg_pd ex_d = true /\ support_in ex_alph ex_d = true /\ (mass ex_d == 1)%Q /\
  NoDup (keys ex_d) /\ (forall x, In x (keys ex_d) -> length x = length ex_alph).
Proof.
  assert (H01 : NoDup [0%nat; 1%nat]).
  { constructor; [simpl; intros [E|[]]; discriminate|]. constructor; [intros []| constructor]. }
  repeat split; try reflexivity.
  - intros [|[|i]] Hi; simpl in *; try exact H01; lia.
  - apply onodup_NoDup. reflexivity.
  - intros x Hx. simpl in Hx. destruct Hx as [<-|[<-|[<-|[<-|[]]]]]; reflexivity.
Qed.

(* H(ex_d) = 1 <= 2 = H(product of the marginals of ex_d) *)
Example ex_product_bound :
  entropy_list (map snd ex_d) <= entropy_list (map snd (product_pd 2 (cart ex_alph) ex_d)).
Proof.
  destruct ex_product_hypotheses as (H1 & H2 & H3 & H4 & H5 & H6).
  apply (product_maximises_model ex_alph ex_d ex_d H1 H2 H3 H4 H5 H2 H4 H6).
  intros i k _. reflexivity.
Qed.

Print Assumptions singleton_constraints_bound.
Print Assumptions entropy_product.
Print Assumptions product_feasible.
Print Assumptions product_maximises_model.
Print Assumptions entropy_le_sum_marginals.
