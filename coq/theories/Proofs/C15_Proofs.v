(* Proofs/C15_Proofs.v — joints built by auxiliary-variable optimisers: the conditional tables are
   probability vectors, attaching an auxiliary variable multiplies by a table row selected by its
   parents only, and marginalising the auxiliaries away gives the input tensor back. Everything over Q. *)
From Verif Require Import Info.
From Verif Require Import Measures C15_Model.
From Verif Require Import Dist_Proofs.
Open Scope Q_scope.

(* ---------- generic sums ------------------------------------------------------------------ *)

Lemma qsum_map_const {A} (c : Q) (l : list A) :
  qsum (map (fun _ => c) l) == inject_Z (Z.of_nat (length l)) * c.
Proof.
  induction l as [|x l IH].
  - change (0 == 0 * c). Lqa.lra.
  - cbn [map qsum]. rewrite IH. cbn [length]. rewrite Nat2Z.inj_succ. unfold Z.succ.
    rewrite inject_Z_plus. change (inject_Z 1) with 1. ring.
Qed.

Lemma qsum_const_range (c : Q) (n : nat) :
  qsum (map (fun _ : nat => c) (range n)) == inject_Z (Z.of_nat n) * c.
Proof. rewrite qsum_map_const. unfold range. rewrite seq_length. reflexivity. Qed.

Lemma qsum_map_ext {A} (f g : A -> Q) (l : list A) :
  (forall x, In x l -> f x == g x) -> qsum (map f l) == qsum (map g l).
Proof.
  induction l as [|x l IH]; intros H; simpl; [reflexivity|].
  rewrite (H x) by (left; reflexivity). rewrite IH; [reflexivity|].
  intros y Hy. apply H. right. exact Hy.
Qed.

Lemma qsum_map_scale {A} (c : Q) (f : A -> Q) (l : list A) :
  qsum (map (fun x => c * f x) l) == c * qsum (map f l).
Proof. induction l as [|x l IH]; simpl; [Lqa.lra| rewrite IH; Lqa.lra]. Qed.

Lemma qsum_map_plus {A} (f g : A -> Q) (l : list A) :
  qsum (map (fun x => f x + g x) l) == qsum (map f l) + qsum (map g l).
Proof. induction l as [|x l IH]; simpl; [Lqa.lra| rewrite IH; Lqa.lra]. Qed.

Lemma qsum_map_zero {A} (l : list A) : qsum (map (fun _ => 0) l) == 0.
Proof. induction l as [|x l IH]; simpl; [reflexivity| rewrite IH; Lqa.lra]. Qed.

Lemma nth_nil_Q (a : nat) : nth a (@nil Q) 0 = 0.
Proof. destruct a; reflexivity. Qed.

Lemma qsum_nth_range (l : list Q) (n : nat) :
  (length l <= n)%nat -> qsum (map (fun a => nth a l 0) (range n)) == qsum l.
Proof.
  unfold range. revert n; induction l as [|x l IH]; intros n Hn.
  - rewrite (qsum_map_ext _ (fun _ => 0)) by (intros a _; rewrite nth_nil_Q; reflexivity).
    simpl. apply qsum_map_zero.
  - destruct n as [|n]; [simpl in Hn; lia|].
    cbn [seq map qsum]. rewrite <- seq_shift, map_map. cbn [nth].
    rewrite IH by (simpl in Hn; lia). reflexivity.
Qed.

(* ---------- 1. conditional tables --------------------------------------------------------- *)

Lemma chan_row_length av pshape pidx : (length (chan_row av pshape pidx) <= a_bound av)%nat.
Proof. unfold chan_row. apply firstn_le_length. Qed.

Lemma inject_nat_nonzero (n : nat) : n <> 0%nat -> ~ inject_Z (Z.of_nat n) == 0.
Proof.
  intros Hn H. unfold Qeq in H. simpl in H. lia.
Qed.

Theorem chan_val_sums av pshape pidx :
  a_bound av <> 0%nat -> qsum (map (chan_val av pshape pidx) (range (a_bound av))) == 1.
Proof.
  intros Hb. unfold chan_val. cbv zeta.
  destruct (Qeq_bool (qsum (chan_row av pshape pidx)) 0) eqn:E.
  - rewrite qsum_const_range. field. apply inject_nat_nonzero, Hb.
  - apply Qeq_bool_neq in E.
    rewrite (qsum_map_ext _ (fun a => / qsum (chan_row av pshape pidx) * nth a (chan_row av pshape pidx) 0)).
    + rewrite qsum_map_scale, qsum_nth_range by apply chan_row_length. field. exact E.
    + intros a _. field. exact E.
Qed.

Lemma In_firstn {A} n (l : list A) x : In x (firstn n l) -> In x l.
Proof.
  revert l; induction n as [|n IH]; intros [|y l]; simpl; try tauto.
  intros [H|H]; [left; exact H| right; apply IH, H].
Qed.

Lemma In_skipn {A} n (l : list A) x : In x (skipn n l) -> In x l.
Proof.
  revert l; induction n as [|n IH]; intros [|y l]; simpl; try tauto.
  intros H. right. apply IH, H.
Qed.

Lemma chan_row_nonneg av pshape pidx :
  Forall (fun q => 0 <= q) (a_params av) -> Forall (fun q => 0 <= q) (chan_row av pshape pidx).
Proof.
  intros H. rewrite Forall_forall in *. intros x Hx. apply H.
  unfold chan_row in Hx. apply In_firstn in Hx. apply In_skipn in Hx. exact Hx.
Qed.

Lemma nth_nonneg (l : list Q) a : Forall (fun q => 0 <= q) l -> 0 <= nth a l 0.
Proof.
  intros H. destruct (Nat.lt_ge_cases a (length l)) as [Hlt|Hge].
  - rewrite Forall_forall in H. apply H. apply nth_In, Hlt.
  - rewrite nth_overflow by exact Hge. Lqa.lra.
Qed.

Theorem chan_val_nonneg av pshape pidx a :
  Forall (fun q => 0 <= q) (a_params av) -> 0 <= chan_val av pshape pidx a.
Proof.
  intros Hp. unfold chan_val. cbv zeta.
  pose proof (chan_row_nonneg av pshape pidx Hp) as Hr.
  destruct (Qeq_bool (qsum (chan_row av pshape pidx)) 0) eqn:E.
  - unfold Qdiv. rewrite Qmult_1_l. apply Qinv_le_0_compat.
    unfold Qle. simpl. lia.
  - apply Qeq_bool_neq in E.
    pose proof (qsum_nonneg _ Hr) as Hs.
    unfold Qdiv. apply Qmult_le_0_compat; [apply nth_nonneg, Hr|].
    apply Qinv_le_0_compat, Hs.
Qed.

(* ---------- tables: sums over concatenations ------------------------------------------------ *)

Lemma mass_app (a b : pd) : mass (a ++ b) == mass a + mass b.
Proof. unfold mass. rewrite map_app. apply qsum_app. Qed.

Lemma fibre_sum_app f (a b : pd) o : fibre_sum f (a ++ b) o == fibre_sum f a o + fibre_sum f b o.
Proof. unfold fibre_sum. rewrite filter_app, map_app. apply qsum_app. Qed.

Lemma prob_of_app (a b : pd) o : prob_of (a ++ b) o == prob_of a o + prob_of b o.
Proof. unfold prob_of. rewrite filter_app, map_app. apply qsum_app. Qed.

Lemma prob_of_cons k v (d : pd) o : prob_of ((k, v) :: d) o == (if oeqb k o then v else 0) + prob_of d o.
Proof. unfold prob_of. simpl. destruct (oeqb k o); simpl; Lqa.lra. Qed.

Lemma fibre_sum_cons f k v (d : pd) o :
  fibre_sum f ((k, v) :: d) o == (if oeqb (f k) o then v else 0) + fibre_sum f d o.
Proof. unfold fibre_sum. simpl. destruct (oeqb (f k) o); simpl; Lqa.lra. Qed.

Lemma fibre_sum_id (d : pd) o : fibre_sum (fun x => x) d o == prob_of d o.
Proof. reflexivity. Qed.

Lemma nat_mem_range a n : nat_mem a (range n) = (a <? n)%nat.
Proof.
  destruct (a <? n)%nat eqn:E.
  - apply nat_mem_In. unfold range. apply in_seq. apply Nat.ltb_lt in E. lia.
  - destruct (nat_mem a (range n)) eqn:E2; [|reflexivity].
    apply nat_mem_In in E2. unfold range in E2. apply in_seq in E2. apply Nat.ltb_ge in E. lia.
Qed.

(* all the keys of the block lie over one key x: the block contributes its whole sum to x *)
Lemma fibre_sum_block f (h : nat -> outcome) (g : nat -> Q) (l : list nat) x o :
  (forall a, In a l -> f (h a) = x) ->
  fibre_sum f (map (fun a => (h a, g a)) l) o == if oeqb x o then qsum (map g l) else 0.
Proof.
  induction l as [|a l IH]; intros H.
  - unfold fibre_sum. simpl. destruct (oeqb x o); reflexivity.
  - cbn [map]. rewrite fibre_sum_cons, IH by (intros b Hb; apply H; right; exact Hb).
    rewrite (H a) by (left; reflexivity). destruct (oeqb x o); simpl; Lqa.lra.
Qed.

(* a block of keys k ++ [a'], a' ranging over a duplicate-free list *)
Lemma prob_of_block (k : outcome) (g : nat -> Q) (l : list nat) o a :
  NoDup l ->
  prob_of (map (fun a' => (k ++ [a'], g a')) l) (o ++ [a]) == if oeqb k o && nat_mem a l then g a else 0.
Proof.
  induction 1 as [|b l Hb Hl IH].
  - unfold prob_of. simpl. rewrite andb_false_r. reflexivity.
  - cbn [map]. rewrite prob_of_cons, IH. cbn [nat_mem].
    destruct (oeqb_spec (k ++ [b]) (o ++ [a])) as [E|Hne].
    + apply app_inj_tail in E as [-> ->]. rewrite oeqb_refl, Nat.eqb_refl. simpl.
      destruct (nat_mem a l) eqn:Em; [apply nat_mem_In in Em; contradiction| Lqa.lra].
    + destruct (oeqb_spec k o) as [->|Hko]; simpl; [|Lqa.lra].
      destruct (Nat.eqb_spec a b) as [->|Hab]; [exfalso; apply Hne; reflexivity|].
      simpl. Lqa.lra.
Qed.

(* ---------- 2. attaching one auxiliary variable ------------------------------------------------ *)

Definition par_shape (shape : list nat) (av : auxvar) : list nat := map (fun b => nth b shape 0%nat) (a_bases av).

Definition ext_row (shape : list nat) (av : auxvar) (ov : outcome * Q) : pd :=
  map (fun a => (fst ov ++ [a], Qred (snd ov * chan_val av (par_shape shape av) (proj (a_bases av) (fst ov)) a)))
      (range (a_bound av)).

Lemma extend_flat shape J av : extend shape J av = flat_map (ext_row shape av) J.
Proof. reflexivity. Qed.

Lemma extend_cons shape ov J av : extend shape (ov :: J) av = ext_row shape av ov ++ extend shape J av.
Proof. reflexivity. Qed.

Lemma ext_row_sum shape av k v :
  a_bound av <> 0%nat ->
  qsum (map (fun a => Qred (v * chan_val av (par_shape shape av) (proj (a_bases av) k) a)) (range (a_bound av))) == v.
Proof.
  intros Hb.
  rewrite (qsum_map_ext _ (fun a => v * chan_val av (par_shape shape av) (proj (a_bases av) k) a))
    by (intros a _; apply Qred_correct).
  rewrite qsum_map_scale, chan_val_sums by exact Hb. Lqa.lra.
Qed.

Lemma ext_row_mass shape av k v : a_bound av <> 0%nat -> mass (ext_row shape av (k, v)) == v.
Proof.
  intros Hb. unfold mass, ext_row. rewrite map_map. cbn [fst snd]. apply ext_row_sum, Hb.
Qed.

Theorem extend_mass shape J av : a_bound av <> 0%nat -> mass (extend shape J av) == mass J.
Proof.
  intros Hb. induction J as [|[k v] J IH].
  - reflexivity.
  - rewrite extend_cons, mass_app, IH, ext_row_mass by exact Hb. unfold mass. simpl. reflexivity.
Qed.

(* the general form: no hypothesis on J at all; outside the range of the new variable the value is 0 *)
Theorem extend_prob shape J av o a :
  prob_of (extend shape J av) (o ++ [a]) ==
  if (a <? a_bound av)%nat then prob_of J o * chan_val av (par_shape shape av) (proj (a_bases av) o) a else 0.
Proof.
  destruct (a <? a_bound av)%nat eqn:Ea; induction J as [|[k v] J IH];
    try (unfold prob_of; simpl; Lqa.lra);
    rewrite extend_cons, prob_of_app, IH; try rewrite prob_of_cons; unfold ext_row; cbn [fst snd];
    rewrite (prob_of_block k (fun a' => Qred (v * chan_val av (par_shape shape av) (proj (a_bases av) k) a')))
      by (apply seq_NoDup);
    rewrite nat_mem_range, Ea;
    destruct (oeqb_spec k o) as [->|Hne]; cbn [andb]; try rewrite Qred_correct; ring.
Qed.

Theorem extend_factor shape J av o a :
  NoDup (keys J) -> (forall k, In k (keys J) -> length k = length o) -> In o (keys J) -> (a < a_bound av)%nat ->
  prob_of (extend shape J av) (o ++ [a]) ==
  prob_of J o * chan_val av (map (fun b => nth b shape 0%nat) (a_bases av)) (proj (a_bases av) o) a.
Proof.
  intros _ _ _ Ha. rewrite extend_prob. apply Nat.ltb_lt in Ha. rewrite Ha. reflexivity.
Qed.

(* given its parents the new variable is independent of everything else, cross-multiplied *)
Theorem extend_cond_indep shape J av o o' a :
  In o (keys J) -> In o' (keys J) -> proj (a_bases av) o = proj (a_bases av) o' ->
  prob_of (extend shape J av) (o ++ [a]) * prob_of J o' == prob_of (extend shape J av) (o' ++ [a]) * prob_of J o.
Proof.
  intros _ _ Hp. rewrite !extend_prob, Hp. destruct (a <? a_bound av)%nat; ring.
Qed.

Lemma firstn_snoc_ge (k : nat) (x : outcome) (a : nat) : (k <= length x)%nat -> firstn k (x ++ [a]) = firstn k x.
Proof.
  intros H. rewrite firstn_app. replace (k - length x)%nat with 0%nat by lia. simpl. apply app_nil_r.
Qed.

(* summing the new variable out, at any prefix length not exceeding the key length *)
Lemma extend_fibre shape J av k o :
  a_bound av <> 0%nat -> (forall x, In x (keys J) -> (k <= length x)%nat) ->
  fibre_sum (firstn k) (extend shape J av) o == fibre_sum (firstn k) J o.
Proof.
  intros Hb. induction J as [|[x v] J IH]; intros Hlen.
  - reflexivity.
  - rewrite extend_cons, fibre_sum_app, fibre_sum_cons, IH by (intros y Hy; apply Hlen; right; exact Hy).
    unfold ext_row. cbn [fst snd].
    rewrite (fibre_sum_block (firstn k) (fun a => x ++ [a])
               (fun a => Qred (v * chan_val av (par_shape shape av) (proj (a_bases av) x) a)) _ (firstn k x)).
    + destruct (oeqb (firstn k x) o); [rewrite ext_row_sum by exact Hb|]; reflexivity.
    + intros a _. apply firstn_snoc_ge. apply Hlen. left. reflexivity.
Qed.

Lemma fibre_sum_firstn_all k (J : pd) o :
  (forall x, In x (keys J) -> length x = k) -> fibre_sum (firstn k) J o == prob_of J o.
Proof.
  intros H. rewrite <- fibre_sum_id. apply fibre_sum_ext. intros x Hx.
  apply firstn_all2. rewrite (H x Hx). lia.
Qed.

Theorem extend_marginal shape J av k o :
  a_bound av <> 0%nat -> (forall x, In x (keys J) -> length x = k) ->
  prob_of (drop_aux k (extend shape J av)) o == prob_of J o.
Proof.
  intros Hb Hlen. unfold drop_aux. rewrite pushforward_prob, extend_fibre.
  - apply fibre_sum_firstn_all, Hlen.
  - exact Hb.
  - intros x Hx. rewrite (Hlen x Hx). lia.
Qed.

Lemma extend_keys shape J av y :
  In y (keys (extend shape J av)) <-> exists x a, In x (keys J) /\ (a < a_bound av)%nat /\ y = x ++ [a].
Proof.
  unfold keys. rewrite extend_flat, flat_map_concat_map, concat_map, map_map, <- flat_map_concat_map.
  rewrite in_flat_map. split.
  - intros [[x v] [Hx Hy]]. unfold ext_row in Hy. rewrite map_map in Hy. cbn [fst snd] in Hy.
    apply in_map_iff in Hy as [a [<- Ha]]. exists x, a. split; [apply (in_map fst _ _ Hx)|].
    split; [unfold range in Ha; apply in_seq in Ha; lia| reflexivity].
  - intros [x [a [Hx [Ha ->]]]]. apply in_map_iff in Hx as [[x' v] [<- Hx]].
    exists (x', v). split; [exact Hx|]. unfold ext_row. rewrite map_map. cbn [fst snd].
    apply in_map_iff. exists a. split; [reflexivity| unfold range; apply in_seq; lia].
Qed.

Theorem extend_keys_length shape J av k :
  (forall x, In x (keys J) -> length x = k) -> forall y, In y (keys (extend shape J av)) -> length y = S k.
Proof.
  intros H y Hy. apply extend_keys in Hy as [x [a [Hx [_ ->]]]].
  rewrite app_length, (H x Hx). simpl. lia.
Qed.

Lemma keys_app (a b : pd) : keys (a ++ b) = keys a ++ keys b.
Proof. apply map_app. Qed.

Lemma keys_ext_row shape av ov : keys (ext_row shape av ov) = map (fun a => fst ov ++ [a]) (range (a_bound av)).
Proof. unfold keys, ext_row. rewrite map_map. reflexivity. Qed.

Theorem extend_nodup shape J av : NoDup (keys J) -> NoDup (keys (extend shape J av)).
Proof.
  induction J as [|[x v] J IH]; intros Hn.
  - constructor.
  - inversion Hn as [|? ? Hx Hn']; subst. rewrite extend_cons, keys_app.
    apply NoDup_app_disjoint.
    + rewrite keys_ext_row. cbn [fst]. apply FinFun.Injective_map_NoDup; [| apply seq_NoDup].
      intros a b E. apply app_inj_tail in E. tauto.
    + apply IH, Hn'.
    + intros y Hy1 Hy2. rewrite keys_ext_row in Hy1. cbn [fst] in Hy1.
      apply in_map_iff in Hy1 as [a [<- _]].
      apply extend_keys in Hy2 as [x' [a' [Hx' [_ E]]]]. apply app_inj_tail in E as [-> _].
      apply Hx. exact Hx'.
Qed.

Theorem extend_nonneg shape J av :
  Forall (fun kv => 0 <= snd kv) J -> Forall (fun q => 0 <= q) (a_params av) ->
  Forall (fun kv => 0 <= snd kv) (extend shape J av).
Proof.
  intros HJ Hp. rewrite extend_flat. rewrite Forall_forall in HJ |- *. intros [y w] Hy.
  apply in_flat_map in Hy as [[x v] [Hx Hy]]. unfold ext_row in Hy. cbn [fst snd] in Hy.
  apply in_map_iff in Hy as [a [E _]]. apply (f_equal snd) in E. cbn [snd] in E. rewrite <- E. cbn [snd].
  rewrite Qred_correct. apply Qmult_le_0_compat; [apply (HJ (x, v) Hx)| apply chan_val_nonneg, Hp].
Qed.

(* ---------- 3. attaching all of them ------------------------------------------------------------ *)

Theorem attach_mass shape J avs :
  Forall (fun av => a_bound av <> 0%nat) avs -> mass (attach shape J avs) == mass J.
Proof.
  intros H. revert shape J. induction H as [|av r Hb Hr IH]; intros shape J; simpl.
  - reflexivity.
  - rewrite IH. apply extend_mass, Hb.
Qed.

Lemma attach_fibre shape J avs k o :
  Forall (fun av => a_bound av <> 0%nat) avs -> (forall x, In x (keys J) -> (k <= length x)%nat) ->
  fibre_sum (firstn k) (attach shape J avs) o == fibre_sum (firstn k) J o.
Proof.
  intros H. revert shape J. induction H as [|av r Hb Hr IH]; intros shape J Hlen; simpl.
  - reflexivity.
  - rewrite IH.
    + apply extend_fibre; [exact Hb| exact Hlen].
    + intros y Hy. apply extend_keys in Hy as [x [a [Hx [_ ->]]]].
      rewrite app_length. specialize (Hlen x Hx). lia.
Qed.

Theorem attach_marginal shape J avs k o :
  Forall (fun av => a_bound av <> 0%nat) avs -> (forall x, In x (keys J) -> length x = k) ->
  prob_of (drop_aux k (attach shape J avs)) o == prob_of J o.
Proof.
  intros Hb Hlen. unfold drop_aux. rewrite pushforward_prob, attach_fibre.
  - apply fibre_sum_firstn_all, Hlen.
  - exact Hb.
  - intros x Hx. rewrite (Hlen x Hx). lia.
Qed.

Theorem attach_nonneg shape J avs :
  Forall (fun kv => 0 <= snd kv) J -> Forall (fun av => Forall (fun q => 0 <= q) (a_params av)) avs ->
  Forall (fun kv => 0 <= snd kv) (attach shape J avs).
Proof.
  intros HJ H. revert shape J HJ. induction H as [|av r Hp Hr IH]; intros shape J HJ; simpl.
  - exact HJ.
  - apply IH. apply extend_nonneg; assumption.
Qed.

Lemma prob_of_nonneg (d : pd) o : Forall (fun kv => 0 <= snd kv) d -> 0 <= prob_of d o.
Proof. intros H. rewrite <- fibre_sum_id. apply fibre_sum_nonneg, H. Qed.

Corollary attach_prob_nonneg shape J avs o :
  Forall (fun kv => 0 <= snd kv) J -> Forall (fun av => Forall (fun q => 0 <= q) (a_params av)) avs ->
  0 <= prob_of (attach shape J avs) o.
Proof. intros HJ H. apply prob_of_nonneg, attach_nonneg; assumption. Qed.

Theorem attach_keys_length shape J avs k :
  (forall x, In x (keys J) -> length x = k) ->
  forall y, In y (keys (attach shape J avs)) -> length y = (k + length avs)%nat.
Proof.
  revert shape J k. induction avs as [|av r IH]; intros shape J k H y Hy; simpl in *.
  - rewrite (H y Hy). lia.
  - rewrite (IH _ _ (S k) (extend_keys_length shape J av k H) y Hy). lia.
Qed.

Theorem attach_nodup shape J avs : NoDup (keys J) -> NoDup (keys (attach shape J avs)).
Proof.
  revert shape J. induction avs as [|av r IH]; intros shape J H; simpl; [exact H|].
  apply IH, extend_nodup, H.
Qed.

(* ---------- 4. the proxy tensor ------------------------------------------------------------------ *)

Lemma qsum_indicator (k : outcome) (v : Q) (L : list outcome) :
  NoDup L -> qsum (map (fun x => if oeqb k x then v else 0) L) == if omem k L then v else 0.
Proof.
  induction 1 as [|x L Hx HL IH].
  - reflexivity.
  - cbn [map qsum]. rewrite IH. unfold omem. cbn [existsb]. fold (omem k L).
    destruct (oeqb_spec k x) as [->|Hne]; cbn [orb].
    + destruct (omem x L) eqn:E; [apply omem_In in E; contradiction| Lqa.lra].
    + destruct (omem k L); Lqa.lra.
Qed.

(* summing the point masses over any duplicate-free list covering the keys gives the mass *)
Lemma mass_as_prob_sum (d : pd) (L : list outcome) :
  NoDup L -> (forall k, In k (keys d) -> In k L) -> qsum (map (prob_of d) L) == mass d.
Proof.
  intros HL. induction d as [|[k v] d IH]; intros Hk.
  - rewrite (qsum_map_ext _ (fun _ => 0)) by (intros x _; reflexivity). apply qsum_map_zero.
  - rewrite (qsum_map_ext _ (fun x => (if oeqb k x then v else 0) + prob_of d x))
      by (intros x _; apply prob_of_cons).
    rewrite qsum_map_plus, qsum_indicator, IH by (try exact HL; intros k' Hk'; apply Hk; right; exact Hk').
    assert (E : omem k L = true) by (apply omem_In, Hk; left; reflexivity).
    rewrite E. unfold mass. simpl. reflexivity.
Qed.

Lemma NoDup_cart_ranges (shape : list nat) : NoDup (cart (map range shape)).
Proof.
  apply NoDup_cart. rewrite Forall_forall. intros l Hl. apply in_map_iff in Hl as [n [<- _]].
  apply seq_NoDup.
Qed.

Lemma keys_dense_over shape (t : pd) : keys (dense_over shape t) = cart (map range shape).
Proof. unfold keys, dense_over. rewrite map_map. cbn [fst]. apply map_id. Qed.

Lemma dense_over_mass shape (t : pd) :
  NoDup (keys t) -> (forall k, In k (keys t) -> In k (cart (map range shape))) ->
  mass (dense_over shape t) == mass t.
Proof.
  intros Hn Hk. unfold mass at 1, dense_over. rewrite map_map. cbn [snd].
  rewrite (qsum_map_ext _ (prob_of t)).
  - apply mass_as_prob_sum; [apply NoDup_cart_ranges| exact Hk].
  - intros x _. rewrite Qred_correct. apply get0_prob_of, Hn.
Qed.

Lemma dense_over_prob shape (t : pd) o :
  NoDup (keys t) -> In o (cart (map range shape)) -> prob_of (dense_over shape t) o == prob_of t o.
Proof.
  intros Hn Ho. rewrite <- (get0_prob_of (dense_over shape t)) by (rewrite keys_dense_over; apply NoDup_cart_ranges).
  rewrite <- (get0_prob_of t) by exact Hn.
  unfold dense_over. induction (cart (map range shape)) as [|x L IH]; [destruct Ho|].
  unfold get0 at 1. cbn [map find_key].
  destruct (oeqb_spec x o) as [->|Hne].
  - apply Qred_correct.
  - destruct Ho as [E|Ho]; [contradiction|]. apply IH, Ho.
Qed.

Lemma oindex_lt (o : outcome) (l : list outcome) : In o l -> (oindex o l < length l)%nat.
Proof.
  induction l as [|x l IH]; simpl; [tauto|].
  destruct (oeqb_spec o x) as [->|Hne]; [lia|].
  intros [E|H]; [congruence| apply IH in H; lia].
Qed.

Lemma base_index_in_cart (t : pd) groups o :
  In o (keys t) -> In (base_index t groups o) (cart (map range (base_shape t groups))).
Proof.
  intros Ho. apply In_cart. unfold base_index, base_shape.
  induction groups as [|g r IH]; [reflexivity|].
  cbn [map mem_cart]. rewrite IH, andb_true_r, nat_mem_range. apply Nat.ltb_lt, oindex_lt.
  unfold group_values. apply In_odedup, in_map, Ho.
Qed.

Lemma base_keys_in_cart (t : pd) groups k :
  In k (keys (pushforward (base_index t groups) t)) -> In k (cart (map range (base_shape t groups))).
Proof.
  intros Hk. apply pushforward_keys in Hk as [o [Ho ->]]. apply base_index_in_cart, Ho.
Qed.

Theorem base_tensor_mass t groups : mass (base_tensor t groups) == mass t.
Proof.
  unfold base_tensor. rewrite dense_over_mass.
  - apply pushforward_mass.
  - apply pushforward_nodup.
  - apply base_keys_in_cart.
Qed.

Theorem model_joint_mass t groups avs :
  Forall (fun av => a_bound av <> 0%nat) avs -> mass (model_joint t groups avs) == mass t.
Proof.
  intros H. unfold model_joint. rewrite attach_mass by exact H. apply base_tensor_mass.
Qed.

Lemma cart_length o alphs : In o (cart alphs) -> length o = length alphs.
Proof.
  revert o; induction alphs as [|a r IH]; intros o; simpl.
  - intros [<-|[]]. reflexivity.
  - rewrite in_flat_map. intros [x [_ Hin]]. apply in_map_iff in Hin as [o' [<- Ho']].
    simpl. f_equal. apply IH, Ho'.
Qed.

Lemma base_tensor_keys_length t groups x : In x (keys (base_tensor t groups)) -> length x = length groups.
Proof.
  unfold base_tensor. rewrite keys_dense_over. intros H. apply cart_length in H.
  rewrite H. unfold base_shape. rewrite !map_length. reflexivity.
Qed.

Lemma base_tensor_nodup t groups : NoDup (keys (base_tensor t groups)).
Proof. unfold base_tensor. rewrite keys_dense_over. apply NoDup_cart_ranges. Qed.

(* the base tensor is the law of the proxy variables: on the product of the index ranges it is the pushforward *)
Theorem base_tensor_prob t groups o :
  In o (cart (map range (base_shape t groups))) ->
  prob_of (base_tensor t groups) o == fibre_sum (base_index t groups) t o.
Proof.
  intros Ho. unfold base_tensor. rewrite dense_over_prob; [apply pushforward_prob| apply pushforward_nodup| exact Ho].
Qed.

(* restricting the optimiser's joint to the proxy variables gives the base tensor, whatever the parameters *)
Theorem model_joint_marginal t groups avs o :
  Forall (fun av => a_bound av <> 0%nat) avs ->
  prob_of (drop_aux (length groups) (model_joint t groups avs)) o == prob_of (base_tensor t groups) o.
Proof.
  intros H. unfold model_joint. apply attach_marginal; [exact H| apply base_tensor_keys_length].
Qed.

Theorem model_joint_nonneg t groups avs :
  Forall (fun kv => 0 <= snd kv) t -> Forall (fun av => Forall (fun q => 0 <= q) (a_params av)) avs ->
  Forall (fun kv => 0 <= snd kv) (model_joint t groups avs).
Proof.
  intros Ht Hp. unfold model_joint. apply attach_nonneg; [|exact Hp].
  unfold base_tensor, dense_over. rewrite Forall_forall. intros kv Hkv.
  apply in_map_iff in Hkv as [idx [<- _]]. cbn [snd]. rewrite Qred_correct.
  rewrite get0_prob_of by apply pushforward_nodup. rewrite pushforward_prob.
  apply fibre_sum_nonneg, Ht.
Qed.

(* ---------- 5. non-vacuity ------------------------------------------------------------------------- *)

Definition ex_t : pd := [([0;0]%nat, 1#2); ([1;1]%nat, 1#4); ([1;0]%nat, 1#4)].
Definition ex_groups : list (list nat) := [[0]; [1]]%nat.
Definition ex_av : auxvar := mkAux [1%nat] 2 [1; 3; 0; 0].

Example ex_base_tensor :
  base_tensor ex_t ex_groups =
  [([0;0]%nat, 1#2); ([0;1]%nat, 0); ([1;0]%nat, 1#4); ([1;1]%nat, 1#4)].
Proof. vm_compute. reflexivity. Qed.

Example ex_model_joint :
  model_joint ex_t ex_groups [ex_av] =
  [([0;0;0]%nat, 1#8); ([0;0;1]%nat, 3#8); ([0;1;0]%nat, 0); ([0;1;1]%nat, 0);
   ([1;0;0]%nat, 1#16); ([1;0;1]%nat, 3#16); ([1;1;0]%nat, 1#8); ([1;1;1]%nat, 1#8)].
Proof. vm_compute. reflexivity. Qed.

Example ex_model_joint_mass : mass (model_joint ex_t ex_groups [ex_av]) == 1.
Proof. vm_compute. reflexivity. Qed.

Example ex_model_joint_mass_red : Qred (mass (model_joint ex_t ex_groups [ex_av])) = 1.
Proof. vm_compute. reflexivity. Qed.

Example ex_model_joint_marginal :
  same_table 0 (drop_aux 2 (model_joint ex_t ex_groups [ex_av])) (base_tensor ex_t ex_groups) = true.
Proof. vm_compute. reflexivity. Qed.

Example ex_model_joint_proper : proper_joint (model_joint ex_t ex_groups [ex_av]) = true.
Proof. vm_compute. reflexivity. Qed.

(* the all-zero row of the parameter array is replaced by the uniform row, the other is normalised *)
Example ex_chan_rows :
  map (fun p => map (fun a => Qred (chan_val ex_av [2%nat] [p] a)) (range 2)) (range 2) = [[1#4; 3#4]; [1#2; 1#2]].
Proof. vm_compute. reflexivity. Qed.

Print Assumptions attach_marginal.
Print Assumptions extend_factor.
Print Assumptions chan_val_sums.
Print Assumptions base_tensor_mass.
Print Assumptions model_joint_mass.
Print Assumptions model_joint_marginal.
