(* Proofs/CMI_Proofs.v — conditional mutual information is non-negative, for every finite table
   with strictly positive stored weights (total mass arbitrary, duplicate keys allowed, variables
   outside X, Y, Z allowed).

   Structure:
   1. a finite-sum toolkit (sumf);
   2. ln x <= x - 1;
   3. an abstract section over weighted entries and four boolean equivalence relations E1 E2 G F
      with E1 <= G, E2 <= G and E1 /\ E2 <= F:
        sum_a w(a) * cell E1 a * cell E2 a / (cell G a * cell F a)  <=  sum_a w(a)        (mass_le)
        0 <= sum_a w(a) * (ln cell G a + ln cell F a - ln cell E1 a - ln cell E2 a)       (gen_nonneg)
   4. the instance E_S a b := proj S (fst a) = proj S (fst b) with E1 = XZ, E2 = YZ, G = Z, F = XYZ;
   5. corollaries. *)
From Verif Require Import Info.
From Verif Require Import FDist.
From Coq Require Import Lra.
Open Scope R_scope.

(* ------------------------------------------------------------------------------------------ *)
(* 1. finite sums *)

Definition sumf {A} (l : list A) (f : A -> R) : R := rsum (map f l).
Definition ind (b : bool) : R := if b then 1 else 0.

Lemma sumf_nil {A} (f : A -> R) : sumf [] f = 0. Proof. reflexivity. Qed.
Lemma sumf_cons {A} a (l : list A) f : sumf (a :: l) f = f a + sumf l f. Proof. reflexivity. Qed.
Lemma sumf_ext {A} (l : list A) f g : (forall a, In a l -> f a = g a) -> sumf l f = sumf l g.
Proof.
  induction l as [|a l IH]; intros H; [reflexivity|].
  rewrite !sumf_cons, (H a), IH; auto using in_eq, in_cons.
Qed.
Lemma sumf_le {A} (l : list A) f g : (forall a, In a l -> f a <= g a) -> sumf l f <= sumf l g.
Proof.
  induction l as [|a l IH]; intros H; [unfold sumf; simpl; lra|]. rewrite !sumf_cons.
  assert (Ha : f a <= g a) by auto using in_eq.
  assert (Hl : sumf l f <= sumf l g) by auto using in_cons. lra.
Qed.
Lemma sumf_plus {A} (l : list A) f g : sumf l (fun a => f a + g a) = sumf l f + sumf l g.
Proof. induction l as [|a l IH]; [unfold sumf; simpl; lra|]. rewrite !sumf_cons, IH; lra. Qed.
Lemma sumf_scal {A} (l : list A) c f : sumf l (fun a => c * f a) = c * sumf l f.
Proof. induction l as [|a l IH]; [unfold sumf; simpl; lra|]. rewrite !sumf_cons, IH; lra. Qed.
Lemma sumf_zero {A} (l : list A) : sumf l (fun _ => 0) = 0.
Proof. induction l as [|a l IH]; [reflexivity|]. rewrite sumf_cons, IH; lra. Qed.
Lemma sumf_swap {A B} (l1 : list A) (l2 : list B) (F : A -> B -> R) :
  sumf l1 (fun a => sumf l2 (fun b => F a b)) = sumf l2 (fun b => sumf l1 (fun a => F a b)).
Proof.
  induction l1 as [|a l1 IH].
  - rewrite sumf_nil. symmetry. erewrite sumf_ext; [apply sumf_zero|]. intros; apply sumf_nil.
  - rewrite sumf_cons, IH, <- sumf_plus. apply sumf_ext; intros; rewrite sumf_cons; reflexivity.
Qed.
Lemma sumf_nonneg {A} (l : list A) f : (forall a, In a l -> 0 <= f a) -> 0 <= sumf l f.
Proof. intros H. rewrite <- (sumf_zero l). apply sumf_le; assumption. Qed.
Lemma sumf_minus {A} (l : list A) f g : sumf l (fun a => f a - g a) = sumf l f - sumf l g.
Proof. induction l as [|a l IH]; [unfold sumf; simpl; lra|]. rewrite !sumf_cons, IH; lra. Qed.

Lemma ind_andb a b : ind (a && b) = ind a * ind b.
Proof. destruct a, b; simpl; lra. Qed.

(* ------------------------------------------------------------------------------------------ *)
(* 2. ln x <= x - 1 *)

Lemma ln_le_sub1 x : 0 < x -> ln x <= x - 1.
Proof.
  intros Hx.
  destruct (Req_dec x 1) as [->|Hne].
  - rewrite ln_1; lra.
  - assert (H: 1 + ln x < exp (ln x)).
    { apply exp_ineq1. intro E. apply Hne.
      rewrite <- (exp_ln x Hx), E, exp_0; reflexivity. }
    rewrite exp_ln in H by assumption. lra.
Qed.

Lemma ln_le_mono x y : 0 < x -> x <= y -> ln x <= ln y.
Proof.
  intros Hx [Hlt| ->]; [left; apply ln_increasing; assumption| right; reflexivity].
Qed.

(* ------------------------------------------------------------------------------------------ *)
(* 3. the abstract inequality *)

Section GEN.
Variable A : Type.
Variable w : A -> R.
Variable l : list A.
Hypothesis wpos : forall a, In a l -> 0 < w a.

Record equiv (E : A -> A -> bool) : Prop := {
  e_refl : forall a, E a a = true;
  e_sym : forall a b, E a b = true -> E b a = true;
  e_trans : forall a b c, E a b = true -> E b c = true -> E a c = true }.

Definition cell (E : A -> A -> bool) (a : A) : R := sumf l (fun b => ind (E a b) * w b).

Lemma cell_equiv E a a' : equiv E -> E a a' = true -> cell E a = cell E a'.
Proof.
  intros HE H. apply sumf_ext; intros b _. f_equal. f_equal.
  destruct (E a b) eqn:E1, (E a' b) eqn:E2; try reflexivity.
  - rewrite (e_trans E HE a' a b) in E2; [discriminate| apply (e_sym E HE); assumption | assumption].
  - rewrite (e_trans E HE a a' b) in E1; [discriminate| assumption | assumption].
Qed.

Lemma cell_pos E a : equiv E -> In a l -> 0 < cell E a.
Proof.
  intros HE Hin. unfold cell.
  assert (G: forall l', (forall b, In b l' -> 0 < w b) -> In a l' -> 0 < sumf l' (fun b => ind (E a b) * w b)).
  { induction l' as [|b l' IH]; intros Hp Hin'; [destruct Hin'|]. destruct Hin' as [->|Hin']; rewrite sumf_cons.
    - rewrite (e_refl E HE). simpl.
      assert (H0 : 0 <= sumf l' (fun b => ind (E a b) * w b)).
      { apply sumf_nonneg. intros c Hc. assert (Hwc : 0 < w c) by auto using in_cons. destruct (E a c); simpl; lra. }
      assert (Hwa : 0 < w a) by auto using in_eq. lra.
    - assert (H0 : 0 < sumf l' (fun b => ind (E a b) * w b)) by (apply IH; auto using in_cons).
      assert (Hwb : 0 < w b) by auto using in_eq. destruct (E a b); simpl; lra. }
  apply G; assumption.
Qed.

(* a cell is at most the cell of a coarser relation *)
Lemma cell_mono E G a : (forall b, E a b = true -> G a b = true) -> cell E a <= cell G a.
Proof.
  intros Hsub. unfold cell. apply sumf_le. intros b Hb.
  assert (Hwb : 0 < w b) by auto.
  destruct (E a b) eqn:Eab; simpl.
  - rewrite (Hsub b Eab). simpl. lra.
  - destruct (G a b); simpl; lra.
Qed.

Lemma cell_le_total E a : cell E a <= sumf l w.
Proof.
  unfold cell. apply sumf_le. intros b Hb.
  assert (Hwb : 0 < w b) by auto. destruct (E a b); simpl; lra.
Qed.

(* the entries selected by P all lie in one F-class: their normalised weights sum to at most 1 *)
Lemma single_class F (P : A -> bool) : equiv F ->
  (forall a a', In a l -> In a' l -> P a = true -> P a' = true -> F a a' = true) ->
  sumf l (fun a => ind (P a) * (w a / cell F a)) <= 1.
Proof.
  intros HF Hone. destruct (existsb P l) eqn:Ex.
  - apply existsb_exists in Ex as [a0 [Hin0 HP0]].
    assert (Hc0 : 0 < cell F a0) by (apply cell_pos; assumption).
    assert (Hi0 : 0 < / cell F a0) by (apply Rinv_0_lt_compat; assumption).
    apply Rle_trans with (sumf l (fun a => / cell F a0 * (ind (F a0 a) * w a))).
    + apply sumf_le. intros a Ha. assert (Hwa : 0 < w a) by auto.
      destruct (P a) eqn:Pa; simpl.
      * assert (HFa : F a0 a = true) by (apply Hone; assumption).
        rewrite HFa, <- (cell_equiv F a0 a HF HFa). simpl. unfold Rdiv. lra.
      * assert (H0 : 0 <= / cell F a0 * (ind (F a0 a) * w a)).
        { apply Rmult_le_pos; [lra|]. destruct (F a0 a); simpl; lra. }
        lra.
    + rewrite sumf_scal. change (sumf l (fun a => ind (F a0 a) * w a)) with (cell F a0).
      right. field. lra.
  - assert (H0 : sumf l (fun a => ind (P a) * (w a / cell F a)) = 0).
    { rewrite <- (sumf_zero l). apply sumf_ext. intros a Ha.
      destruct (P a) eqn:Pa; simpl; [|lra].
      assert (Ht : existsb P l = true) by (apply existsb_exists; eauto).
      rewrite Ex in Ht. discriminate. }
    rewrite H0. lra.
Qed.

Variables E1 E2 G F : A -> A -> bool.
Hypothesis H1 : equiv E1.
Hypothesis H2 : equiv E2.
Hypothesis HG : equiv G.
Hypothesis HF : equiv F.
Hypothesis E1G : forall a b, E1 a b = true -> G a b = true.
Hypothesis E2G : forall a b, E2 a b = true -> G a b = true.
Hypothesis E12F : forall a b, E1 a b = true -> E2 a b = true -> F a b = true.

Definition ratio (a : A) : R := cell E1 a * cell E2 a / (cell G a * cell F a).

Lemma inner_le b : In b l ->
  sumf l (fun a => ind (E2 a b) * (w a / cell F a) * cell E1 a) <= cell G b.
Proof.
  intros Hb.
  rewrite (sumf_ext l _ (fun a => sumf l (fun c => ind (E2 a b) * (w a / cell F a) * (ind (E1 a c) * w c)))).
  2:{ intros a Ha. symmetry. exact (sumf_scal l _ (fun c => ind (E1 a c) * w c)). }
  rewrite sumf_swap.
  change (cell G b) with (sumf l (fun c => ind (G b c) * w c)).
  apply sumf_le; intros c Hc.
  rewrite (sumf_ext l _ (fun a => w c * (ind (E2 a b && E1 a c) * (w a / cell F a))))
    by (intros; rewrite ind_andb; ring).
  rewrite sumf_scal.
  assert (Hwc : 0 < w c) by auto.
  destruct (G b c) eqn:Gbc; simpl.
  - assert (Hs : sumf l (fun a => ind (E2 a b && E1 a c) * (w a / cell F a)) <= 1).
    { apply (single_class F (fun a => E2 a b && E1 a c) HF).
      intros a a' Ha Ha' Pa Pa'.
      apply andb_true_iff in Pa as [Pa2 Pa1]. apply andb_true_iff in Pa' as [Pa2' Pa1'].
      apply E12F.
      - apply (e_trans E1 H1 a c a'); [assumption| apply (e_sym E1 H1); assumption].
      - apply (e_trans E2 H2 a b a'); [assumption| apply (e_sym E2 H2); assumption]. }
    nra.
  - assert (Hs : sumf l (fun a => ind (E2 a b && E1 a c) * (w a / cell F a)) = 0).
    { rewrite <- (sumf_zero l). apply sumf_ext. intros a Ha.
      destruct (E2 a b) eqn:Eab; simpl; [|lra]. destruct (E1 a c) eqn:Eac; simpl; [|lra].
      exfalso.
      assert (Ht : G b c = true).
      { apply (e_trans G HG b a c); [apply (e_sym G HG); apply E2G; assumption| apply E1G; assumption]. }
      rewrite Gbc in Ht. discriminate. }
    rewrite Hs. lra.
Qed.

Theorem mass_le : sumf l (fun a => w a * ratio a) <= sumf l w.
Proof.
  rewrite (sumf_ext l _ (fun a => sumf l (fun b => (w a * cell E1 a / (cell G a * cell F a)) * (ind (E2 a b) * w b)))).
  2:{ intros a Ha. rewrite sumf_scal.
      change (sumf l (fun b => ind (E2 a b) * w b)) with (cell E2 a).
      unfold ratio, Rdiv; ring. }
  rewrite sumf_swap. apply sumf_le; intros b Hb.
  assert (HGb : 0 < cell G b) by (apply cell_pos; assumption).
  rewrite (sumf_ext l _ (fun a => (w b / cell G b) * (ind (E2 a b) * (w a / cell F a) * cell E1 a))).
  2:{ intros a Ha. destruct (E2 a b) eqn:Eab; simpl; [|unfold Rdiv; ring].
      rewrite (cell_equiv G a b HG (E2G _ _ Eab)).
      assert (HFa : 0 < cell F a) by (apply cell_pos; assumption).
      field. split; lra. }
  rewrite sumf_scal.
  pose proof (inner_le b Hb) as Hin.
  assert (Hwb : 0 < w b) by auto.
  assert (Hk : 0 <= w b / cell G b).
  { unfold Rdiv. apply Rmult_le_pos; [lra|]. left. apply Rinv_0_lt_compat. assumption. }
  apply Rle_trans with (w b / cell G b * cell G b).
  - apply Rmult_le_compat_l; assumption.
  - right. field. lra.
Qed.

Theorem gen_nonneg :
  0 <= sumf l (fun a => w a * (ln (cell G a) + ln (cell F a) - ln (cell E1 a) - ln (cell E2 a))).
Proof.
  apply Rle_trans with (sumf l (fun a => w a - w a * ratio a)).
  - rewrite sumf_minus. pose proof mass_le. lra.
  - apply sumf_le. intros a Ha.
    assert (Hwa : 0 < w a) by auto.
    assert (P1 : 0 < cell E1 a) by (apply cell_pos; assumption).
    assert (P2 : 0 < cell E2 a) by (apply cell_pos; assumption).
    assert (PG : 0 < cell G a) by (apply cell_pos; assumption).
    assert (PF : 0 < cell F a) by (apply cell_pos; assumption).
    assert (PGF : 0 < cell G a * cell F a) by (apply Rmult_lt_0_compat; assumption).
    assert (P12 : 0 < cell E1 a * cell E2 a) by (apply Rmult_lt_0_compat; assumption).
    assert (Pr : 0 < ratio a).
    { unfold ratio. apply Rdiv_lt_0_compat; assumption. }
    pose proof (ln_le_sub1 (ratio a) Pr) as Hln.
    assert (Heq : ln (ratio a) = ln (cell E1 a) + ln (cell E2 a) - (ln (cell G a) + ln (cell F a))).
    { unfold ratio, Rdiv.
      rewrite ln_mult by (try assumption; apply Rinv_0_lt_compat; assumption).
      rewrite ln_Rinv by assumption.
      rewrite !ln_mult by assumption. ring. }
    rewrite Heq in Hln. nra.
Qed.

End GEN.

(* ------------------------------------------------------------------------------------------ *)
(* 4. the instance on tables *)

(* mass of the cell of entry o under the projection on the variable list S *)
Definition cellmass (S : list nat) (t : pd) (o : outcome) : R :=
  rsum (map (fun kv => if oeqb (proj S (fst kv)) (proj S o) then Q2R (snd kv) else 0) t).
(* joint-table form of the entropy of the variables S *)
Definition Hs (S : list nat) (t : pd) : R :=
  - rsum (map (fun kv => Q2R (snd kv) * log2 (cellmass S t (fst kv))) t).
(* strictly positive stored weights *)
Definition table_ok (t : pd) : Prop := Forall (fun kv => (0 < snd kv)%Q) t.

Definition wt (kv : outcome * Q) : R := Q2R (snd kv).
Definition eS (S : list nat) (a b : outcome * Q) : bool := oeqb (proj S (fst a)) (proj S (fst b)).

Lemma eS_true S a b : eS S a b = true <-> proj S (fst a) = proj S (fst b).
Proof. unfold eS. apply oeqb_eq. Qed.

Lemma eS_equiv S : equiv (outcome * Q) (eS S).
Proof.
  split.
  - intros a. apply eS_true. reflexivity.
  - intros a b H. apply eS_true. apply eS_true in H. congruence.
  - intros a b c Hab Hbc. apply eS_true. apply eS_true in Hab. apply eS_true in Hbc. congruence.
Qed.

Lemma table_ok_pos t : table_ok t -> forall a, In a t -> 0 < wt a.
Proof.
  intros Hok a Ha. unfold table_ok in Hok. rewrite Forall_forall in Hok.
  specialize (Hok a Ha). simpl in Hok. apply Qlt_Rlt in Hok.
  rewrite RMicromega.Q2R_0 in Hok. exact Hok.
Qed.

Lemma cellmass_cell S t a : cellmass S t (fst a) = cell (outcome * Q) wt t (eS S) a.
Proof.
  unfold cellmass, cell. change (rsum (map ?f t)) with (sumf t f).
  apply sumf_ext. intros b _. unfold eS, wt. rewrite oeqb_sym.
  destruct (oeqb (proj S (fst a)) (proj S (fst b))); simpl; lra.
Qed.

Lemma Hs_cell S t : Hs S t = - sumf t (fun a => wt a * log2 (cell (outcome * Q) wt t (eS S) a)).
Proof.
  unfold Hs. change (rsum (map ?f t)) with (sumf t f). f_equal.
  apply sumf_ext. intros a _. rewrite cellmass_cell. reflexivity.
Qed.

Lemma sumf_log2 {B} (l : list B) (f g : B -> R) :
  sumf l (fun a => f a * log2 (g a)) = / ln 2 * sumf l (fun a => f a * ln (g a)).
Proof. rewrite <- sumf_scal. apply sumf_ext. intros a _. unfold log2, Rdiv. ring. Qed.

Lemma Hs_ln S t : Hs S t = - (/ ln 2 * sumf t (fun a => wt a * ln (cell (outcome * Q) wt t (eS S) a))).
Proof. rewrite Hs_cell, sumf_log2. reflexivity. Qed.

Lemma inv_ln2_pos : 0 < / ln 2.
Proof. apply Rinv_0_lt_compat. apply ln2_pos. Qed.

Lemma proj_app_eq X Z a b :
  proj (X ++ Z) a = proj (X ++ Z) b <-> proj X a = proj X b /\ proj Z a = proj Z b.
Proof.
  induction X as [|x X IH]; simpl.
  - split; [intros H; split; [reflexivity| exact H]| intros [_ H]; exact H].
  - split.
    + intros H. injection H as Hx Hr. apply IH in Hr as [Hr1 Hr2].
      split; [rewrite Hx; f_equal; exact Hr1| exact Hr2].
    + intros [H Hz]. injection H as Hx Hr. rewrite Hx. f_equal. apply IH. split; assumption.
Qed.

Theorem cmi_nonneg (X Y Z : list nat) (t : pd) : table_ok t ->
  0 <= Hs (X ++ Z) t + Hs (Y ++ Z) t - Hs (X ++ Y ++ Z) t - Hs Z t.
Proof.
  intros Hok.
  pose proof (gen_nonneg (outcome * Q) wt t (table_ok_pos t Hok)
                (eS (X ++ Z)) (eS (Y ++ Z)) (eS Z) (eS (X ++ Y ++ Z))
                (eS_equiv _) (eS_equiv _) (eS_equiv _) (eS_equiv _)) as Hgen.
  assert (Hmain : 0 <= sumf t (fun a => wt a *
            (ln (cell (outcome * Q) wt t (eS Z) a) + ln (cell (outcome * Q) wt t (eS (X ++ Y ++ Z)) a)
             - ln (cell (outcome * Q) wt t (eS (X ++ Z)) a) - ln (cell (outcome * Q) wt t (eS (Y ++ Z)) a)))).
  { apply Hgen.
    - intros a b H. apply eS_true. apply eS_true in H. apply proj_app_eq in H. tauto.
    - intros a b H. apply eS_true. apply eS_true in H. apply proj_app_eq in H. tauto.
    - intros a b Hx Hy. apply eS_true. apply eS_true in Hx. apply eS_true in Hy.
      apply proj_app_eq in Hx. apply proj_app_eq in Hy.
      apply proj_app_eq. split; [tauto|]. apply proj_app_eq. tauto. }
  rewrite !Hs_ln.
  set (SXZ := sumf t (fun a => wt a * ln (cell (outcome * Q) wt t (eS (X ++ Z)) a))).
  set (SYZ := sumf t (fun a => wt a * ln (cell (outcome * Q) wt t (eS (Y ++ Z)) a))).
  set (SXYZ := sumf t (fun a => wt a * ln (cell (outcome * Q) wt t (eS (X ++ Y ++ Z)) a))).
  set (SZ := sumf t (fun a => wt a * ln (cell (outcome * Q) wt t (eS Z) a))).
  assert (Hsplit : sumf t (fun a => wt a *
            (ln (cell (outcome * Q) wt t (eS Z) a) + ln (cell (outcome * Q) wt t (eS (X ++ Y ++ Z)) a)
             - ln (cell (outcome * Q) wt t (eS (X ++ Z)) a) - ln (cell (outcome * Q) wt t (eS (Y ++ Z)) a)))
          = SZ + SXYZ - SXZ - SYZ).
  { unfold SZ, SXYZ, SXZ, SYZ. rewrite <- sumf_plus, <- !sumf_minus.
    apply sumf_ext. intros a _. ring. }
  rewrite Hsplit in Hmain.
  pose proof inv_ln2_pos as Hl.
  replace (- (/ ln 2 * SXZ) + - (/ ln 2 * SYZ) - - (/ ln 2 * SXYZ) - - (/ ln 2 * SZ))
    with (/ ln 2 * (SZ + SXYZ - SXZ - SYZ)) by ring.
  apply Rmult_le_pos; lra.
Qed.

(* ------------------------------------------------------------------------------------------ *)
(* 5. corollaries *)

Definition total (t : pd) : R := rsum (map (fun kv => Q2R (snd kv)) t).

(* entropy depends only on the partition the variables induce *)
Theorem Hs_ext S S' t :
  (forall o o', In o (map fst t) -> In o' (map fst t) -> (proj S o = proj S o' <-> proj S' o = proj S' o')) ->
  Hs S t = Hs S' t.
Proof.
  intros Hiff. rewrite !Hs_cell. f_equal. apply sumf_ext. intros a Ha. f_equal. f_equal.
  unfold cell. apply sumf_ext. intros b Hb. f_equal. f_equal.
  assert (Hab := Hiff (fst a) (fst b) (in_map fst t a Ha) (in_map fst t b Hb)).
  destruct (eS S a b) eqn:E1, (eS S' a b) eqn:E2; try reflexivity.
  - apply eS_true in E1. apply Hab in E1. apply eS_true in E1. congruence.
  - apply eS_true in E2. apply Hab in E2. apply eS_true in E2. congruence.
Qed.

Theorem cond_entropy_nonneg X Z t : table_ok t -> 0 <= Hs (X ++ Z) t - Hs Z t.
Proof.
  intros Hok. pose proof (cmi_nonneg X X Z t Hok) as Hc.
  assert (He : Hs (X ++ X ++ Z) t = Hs (X ++ Z) t).
  { apply Hs_ext. intros o o' _ _. rewrite !proj_app_eq. tauto. }
  rewrite He in Hc. lra.
Qed.

Lemma Hs_nil t : Hs [] t = - (total t * log2 (total t)).
Proof.
  rewrite Hs_cell. f_equal.
  assert (Hc : forall a, cell (outcome * Q) wt t (eS []) a = total t).
  { intros a. unfold cell, total. change (rsum (map ?f t)) with (sumf t f).
    apply sumf_ext. intros b _. unfold eS, wt. simpl. lra. }
  rewrite (sumf_ext t _ (fun a => log2 (total t) * wt a)) by (intros a _; rewrite Hc; ring).
  rewrite sumf_scal. change (sumf t wt) with (total t). ring.
Qed.

(* the general (unnormalised) form: I(X:Y) = H(X) + H(Y) - H(XY) - H([]) *)
Theorem mi_nonneg_gen X Y t : table_ok t -> 0 <= Hs X t + Hs Y t - Hs (X ++ Y) t - Hs [] t.
Proof.
  intros Hok. pose proof (cmi_nonneg X Y [] t Hok) as Hc.
  rewrite !app_nil_r in Hc. exact Hc.
Qed.

Lemma Hs_nil_nonneg t : table_ok t -> total t <= 1 -> 0 <= Hs [] t.
Proof.
  intros Hok H1. rewrite Hs_nil.
  destruct t as [|a t'] eqn:Et.
  - unfold total. simpl. lra.
  - rewrite <- Et in *. assert (Hin : In a t) by (rewrite Et; apply in_eq).
    assert (Hpos : 0 < total t).
    { pose proof (cell_pos (outcome * Q) wt t (table_ok_pos t Hok) (eS []) a (eS_equiv _) Hin) as Hc.
      pose proof (cell_le_total (outcome * Q) wt t (table_ok_pos t Hok) (eS []) a) as Hle.
      unfold total. change (rsum (map ?f t)) with (sumf t f). unfold wt in *. lra. }
    assert (Hln : ln (total t) <= 0) by (rewrite <- ln_1; apply ln_le_mono; assumption).
    pose proof inv_ln2_pos as Hl. unfold log2, Rdiv.
    assert (Hprod : ln (total t) * / ln 2 <= 0) by nra. nra.
Qed.

(* NOTE: the hypothesis total <= 1 is necessary: for t = [([0],2)] every Hs S t = -2. *)
Theorem mi_nonneg X Y t : table_ok t -> rsum (map (fun kv => Q2R (snd kv)) t) <= 1 ->
  0 <= Hs X t + Hs Y t - Hs (X ++ Y) t.
Proof.
  intros Hok H1. pose proof (mi_nonneg_gen X Y t Hok) as Hm.
  pose proof (Hs_nil_nonneg t Hok H1) as Hn. lra.
Qed.

Theorem Hs_nonneg_normalised S t : table_ok t -> rsum (map (fun kv => Q2R (snd kv)) t) <= 1 -> 0 <= Hs S t.
Proof.
  intros Hok H1. rewrite Hs_cell.
  assert (Hs0 : sumf t (fun a => wt a * log2 (cell (outcome * Q) wt t (eS S) a)) <= 0).
  { rewrite <- (sumf_zero t). apply sumf_le. intros a Ha.
    pose proof (table_ok_pos t Hok a Ha) as Hwa.
    pose proof (cell_pos (outcome * Q) wt t (table_ok_pos t Hok) (eS S) a (eS_equiv _) Ha) as Hc.
    pose proof (cell_le_total (outcome * Q) wt t (table_ok_pos t Hok) (eS S) a) as Hle.
    assert (Hc1 : cell (outcome * Q) wt t (eS S) a <= 1).
    { apply Rle_trans with (sumf t wt); [exact Hle| exact H1]. }
    assert (Hln : ln (cell (outcome * Q) wt t (eS S) a) <= 0) by (rewrite <- ln_1; apply ln_le_mono; assumption).
    pose proof inv_ln2_pos as Hl. unfold log2, Rdiv.
    assert (Hprod : ln (cell (outcome * Q) wt t (eS S) a) * / ln 2 <= 0) by nra. nra. }
  lra.
Qed.

(* the counterexample showing that mi_nonneg needs total <= 1 *)
Example mi_unnormalised_negative : Hs [0%nat] [([0%nat], 2%Q)] = -2.
Proof.
  unfold Hs, cellmass. simpl.
  replace (Q2R 2 + 0) with 2 by (unfold Q2R; simpl; lra).
  replace (Q2R 2) with 2 by (unfold Q2R; simpl; lra).
  unfold log2. pose proof ln2_pos. field. lra.
Qed.

(* non-vacuity *)
Definition ex_t : pd := [([0;0]%nat, (1#2)%Q); ([0;1]%nat, (1#4)%Q); ([1;1]%nat, (1#4)%Q)].

Example ex_t_ok : table_ok ex_t.
Proof. unfold table_ok, ex_t. repeat constructor. Qed.

Example ex_cmi : 0 <= Hs ([0%nat] ++ []) ex_t + Hs ([1%nat] ++ []) ex_t - Hs ([0%nat] ++ [1%nat] ++ []) ex_t - Hs [] ex_t.
Proof. exact (cmi_nonneg [0%nat] [1%nat] [] ex_t ex_t_ok). Qed.

Print Assumptions Hs_ext.
Print Assumptions cmi_nonneg.
