(* Proofs/C02_Proofs.v — marginal / marginalize / coalesce are exact pushforwards. *)
From Verif Require Import Dist Dist_Proofs C02_Model.
From Coq Require Import Permutation.
Open Scope Q_scope.

Definition dist_ok (d : dist) : Prop :=
  ss_wf (d_ss d) /\ NoDup (keys (d_tbl d)) /\
  (forall o, In o (keys (d_tbl d)) -> ss_mem (d_ss d) o = true).

Lemma Qabs_le_compat x y t : x == y -> Qabs_le x t = Qabs_le y t.
Proof.
  intros E. unfold Qabs_le.
  assert (H1: Qle_bool x t = Qle_bool y t).
  { destruct (Qle_bool x t) eqn:A, (Qle_bool y t) eqn:B; try reflexivity.
    - apply Qle_bool_iff in A. rewrite E in A. apply Qle_bool_iff in A. congruence.
    - apply Qle_bool_iff in B. rewrite <- E in B. apply Qle_bool_iff in B. congruence. }
  assert (H2: Qle_bool (- t) x = Qle_bool (- t) y).
  { destruct (Qle_bool (-t) x) eqn:A, (Qle_bool (-t) y) eqn:B; try reflexivity.
    - apply Qle_bool_iff in A. rewrite E in A. apply Qle_bool_iff in A. congruence.
    - apply Qle_bool_iff in B. rewrite <- E in B. apply Qle_bool_iff in B. congruence. }
  rewrite H1, H2. reflexivity.
Qed.

Lemma is_null_compat b x y : x == y -> is_null b x = is_null b y.
Proof.
  intros E. destruct b; simpl; try (apply Qabs_le_compat; exact E);
  (destruct (Qeq_bool x 0) eqn:A, (Qeq_bool y 0) eqn:B; try reflexivity;
   [apply Qeq_bool_iff in A; rewrite E in A; apply Qeq_bool_iff in A; congruence
   |apply Qeq_bool_iff in B; rewrite <- E in B; apply Qeq_bool_iff in B; congruence]).
Qed.

(* ---------- lookups of a coalesced distribution are fibre sums ---------------------------- *)

Theorem coalesce_lookup idx d o v :
  dist_ok d ->
  lookup (coalesce_flat idx d) o = Some v ->
  v == fibre_sum (proj idx) (d_tbl d) o \/
  (d_sparse d = true /\ is_null (d_base d) (fibre_sum (proj idx) (d_tbl d) o) = true /\ v == 0).
Proof.
  intros [Hss [Hnd Hin]] Hl. unfold lookup, coalesce_flat in Hl. simpl in Hl.
  destruct (ss_mem (ss_coalesce idx (d_ss d)) o) eqn:Em; [| discriminate].
  inversion Hl as [Hv]; clear Hl.
  assert (Hnd': NoDup (ss_enum (ss_coalesce idx (d_ss d)))) by (apply ss_wf_NoDup, ss_coalesce_wf, Hss).
  assert (Hmem: omem o (ss_enum (ss_coalesce idx (d_ss d))) = true) by (apply omem_In, ss_mem_In, Em).
  assert (Hfs: get0 o (pushforward (proj idx) (d_tbl d)) == fibre_sum (proj idx) (d_tbl d) o).
  { rewrite get0_prob_of by apply pushforward_nodup. apply pushforward_prob. }
  destruct (get0_build (ss_coalesce idx (d_ss d)) (pushforward (proj idx) (d_tbl d))
                       (d_sparse d) (d_base d) o Hnd' Hmem) as [E|[E1 [E2 E3]]].
  - left. rewrite E. exact Hfs.
  - right. split; [exact E1|]. split.
    + rewrite <- (is_null_compat _ _ _ Hfs). exact E2.
    + rewrite E3. reflexivity.
Qed.

Theorem coalesce_lookup_outside idx d o :
  lookup (coalesce_flat idx d) o = None <-> ss_mem (d_ss (coalesce_flat idx d)) o = false.
Proof.
  unfold lookup. destruct (ss_mem (d_ss (coalesce_flat idx d)) o); split; intros; congruence.
Qed.

(* ---------- the result is a well-formed distribution --------------------------------------- *)

Theorem coalesce_WF idx d : ss_wf (d_ss d) -> WF (coalesce_flat idx d).
Proof.
  intros Hss.
  assert (Hnd: NoDup (ss_enum (ss_coalesce idx (d_ss d)))) by (apply ss_wf_NoDup, ss_coalesce_wf, Hss).
  constructor; unfold coalesce_flat; simpl.
  - apply NoDup_keys_build, Hnd.
  - intros o Ho. apply ss_mem_In. apply keys_build_sub in Ho. exact Ho.
  - apply keys_build_order, Hnd.
  - intros E. rewrite E. unfold build. apply keys_dense_of.
Qed.

(* ---------- sample space of the result contains the projection of the original one ---------- *)

Theorem coalesce_ss_projection idx d o :
  Forall (fun i => (i < d_nvars d)%nat) idx ->
  ss_mem (d_ss d) o = true -> ss_mem (d_ss (coalesce_flat idx d)) (proj idx o) = true.
Proof. intros Hidx Hm. unfold coalesce_flat; simpl. apply ss_coalesce_mem; assumption. Qed.

(* ---------- meta data ---------------------------------------------------------------------- *)

Theorem coalesce_meta idx d :
  d_base (coalesce_flat idx d) = d_base d /\ d_sparse (coalesce_flat idx d) = d_sparse d.
Proof. split; reflexivity. Qed.

Theorem marginal_meta s d m :
  marginal s d = Some m ->
  exists idx, parse_rvs d s true true = Some idx /\
    d_base m = d_base d /\ d_sparse m = d_sparse d /\ d_names m = select_names idx d /\
    d_tbl m = d_tbl (coalesce_flat idx d) /\ d_ss m = d_ss (coalesce_flat idx d).
Proof.
  unfold marginal. destruct (parse_rvs d s true true) as [idx|]; [| discriminate].
  intros H; inversion H; subst. exists idx. repeat split; reflexivity.
Qed.

Theorem marginalize_is_marginal_of_complement s d idx :
  parse_rvs d s true true = Some idx ->
  marginalize s d =
  Some (with_names (select_names (filter (fun i => negb (nat_mem i idx)) (range (d_nvars d))) d)
                   (coalesce_flat (filter (fun i => negb (nat_mem i idx)) (range (d_nvars d))) d)).
Proof. intros H. unfold marginalize. rewrite H. reflexivity. Qed.

(* selections that parse are valid positions; sorted selections are sorted permutations *)
Lemma ninsert_perm x l : Permutation (ninsert x l) (x :: l).
Proof.
  induction l as [|y t IH]; simpl; [apply Permutation_refl|].
  destruct (Nat.leb x y); [apply Permutation_refl|].
  apply perm_trans with (y :: x :: t); [apply perm_skip, IH| apply perm_swap].
Qed.

Lemma nsort_perm l : Permutation (nsort l) l.
Proof.
  induction l as [|x t IH]; simpl; [constructor|].
  apply perm_trans with (x :: nsort t); [apply ninsert_perm| apply perm_skip, IH].
Qed.

Theorem parse_rvs_valid d s u srt idx :
  parse_rvs d s u srt = Some idx -> Forall (fun i => (i < d_nvars d)%nat) idx.
Proof.
  unfold parse_rvs.
  destruct (match s with ByIdx l => l | ByName l => l end) as [|r0 raw]; [intros H; inversion H; constructor|].
  destruct (u && negb (nat_nodup (r0 :: raw))); [discriminate|].
  destruct (match s with ByIdx l => Some l | ByName l => _ end) as [idx0|]; [| discriminate].
  destruct (forallb (fun i => Nat.ltb i (d_nvars d)) idx0) eqn:E; [| discriminate].
  intros H; inversion H; subst; clear H.
  assert (H0: Forall (fun i => (i < d_nvars d)%nat) idx0).
  { apply Forall_forall. intros i Hi. rewrite forallb_forall in E. apply Nat.ltb_lt, E, Hi. }
  destruct srt; [| exact H0].
  apply Forall_forall. intros i Hi. rewrite Forall_forall in H0. apply H0.
  apply (Permutation_in _ (nsort_perm idx0)), Hi.
Qed.

Theorem marginal_lookup s d m o v :
  dist_ok d -> marginal s d = Some m -> lookup m o = Some v ->
  exists idx, parse_rvs d s true true = Some idx /\
   (v == fibre_sum (proj idx) (d_tbl d) o \/
    (d_sparse d = true /\ is_null (d_base d) (fibre_sum (proj idx) (d_tbl d) o) = true /\ v == 0)).
Proof.
  intros Hok Hm Hl. destruct (marginal_meta s d m Hm) as [idx [Hp [_ [_ [_ [Ht Hs]]]]]].
  exists idx. split; [exact Hp|].
  apply coalesce_lookup; [exact Hok|].
  unfold lookup in *. rewrite <- Ht, <- Hs. exact Hl.
Qed.

(* ---------- marginalising in stages equals marginalising at once (table level) -------------- *)

Theorem marginal_stages I J t o :
  Forall (fun j => (j < length I)%nat) J ->
  prob_of (pushforward (proj J) (pushforward (proj I) t)) o
  == prob_of (pushforward (proj (map (fun j => nth j I 0%nat) J)) t) o.
Proof.
  intros H. rewrite pushforward_compose. rewrite !pushforward_prob.
  apply fibre_sum_ext. intros k _. apply proj_proj, H.
Qed.

(* non-vacuity: a concrete named 3-variable distribution with an explicit zero meets dist_ok,
   and its marginal onto variables (2,0) given by name is what one expects *)
Definition ex_d : dist :=
  mkDist (Cart [[0;1];[0;1];[0;2]]%nat)
         [([0;0;0]%nat, 1#4); ([0;1;2]%nat, 1#4); ([1;0;2]%nat, 1#2); ([1;1;0]%nat, 0)]
         true Linear (Some [7;8;9]%nat).

Example ex_d_ok : dist_ok ex_d.
Proof.
  split; [|split].
  - simpl. repeat constructor; simpl; intuition discriminate.
  - simpl. repeat constructor; simpl; intuition discriminate.
  - intros o Ho. simpl in Ho. destruct Ho as [<-|[<-|[<-|[<-|[]]]]]; reflexivity.
Qed.

Example ex_marginal :
  option_map (fun m => (d_tbl m, d_names m)) (marginal (ByName [9;7]%nat) ex_d)
  = Some ([([0;0]%nat, 1#4); ([0;2]%nat, 1#4); ([1;2]%nat, 1#2)], Some [7;9]%nat).
Proof. vm_compute. reflexivity. Qed.
