(* Proofs/C13_Proofs.v — optimality certificates for Blahut-Arimoto results (model: Model/C13_Model.v).
   A. the dual (KKT) upper bound on channel capacity; B. closed forms; C. Berger's dual lower bound for
   rate-distortion; D. monotonicity along beta; E. non-vacuity. *)
From Verif Require Import Info.
From Verif Require Import Info_Proofs Measures C13_Model.
From Coq Require Import Lra Lia.
Import ListNotations.
Open Scope R_scope.

(* ------------------------------------------------------------------------------------------ *)
(* 0. small bridges *)

Lemma Q2R_Qred q : Q2R (Qred q) = Q2R q.
Proof. apply Qeq_eqR, Qred_correct. Qed.

Lemma nonneg_Forall l : nonneg_l l = true -> Forall (fun q => (0 <= q)%Q) l.
Proof.
  unfold nonneg_l. rewrite forallb_forall, Forall_forall. intros H q Hq.
  apply Qle_bool_iff, H, Hq.
Qed.

Lemma rden_r_sum l : rden (r_sum l) = rsum (map rden l).
Proof.
  induction l as [|x t IH]; [simpl; apply Q2R_0|].
  destruct t as [|y t'].
  - simpl. lra.
  - change (rden x + rden (r_sum (y :: t')) = rden x + rsum (map rden (y :: t'))).
    rewrite IH. reflexivity.
Qed.

Lemma rsum_map_lin (A : Type) (f g h : A -> R) (c : R) (L : list A) :
  (forall x, In x L -> f x - g x = c * h x) ->
  rsum (map f L) - rsum (map g L) = c * rsum (map h L).
Proof.
  induction L as [|x t IH]; intros H; simpl; [ring|].
  assert (Hx := H x (or_introl eq_refl)).
  assert (Ht := IH (fun y Hy => H y (or_intror Hy))). lra.
Qed.

Lemma rsum_weighted_le (A : Type) (w f : A -> R) (V : R) (L : list A) :
  (forall x, In x L -> 0 <= w x) -> (forall x, In x L -> f x <= V) ->
  rsum (map (fun x => w x * f x) L) <= V * rsum (map w L).
Proof.
  induction L as [|x t IH]; intros Hw Hf; simpl; [lra|].
  assert (Hwx := Hw x (or_introl eq_refl)). assert (Hfx := Hf x (or_introl eq_refl)).
  assert (Ht := IH (fun y Hy => Hw y (or_intror Hy)) (fun y Hy => Hf y (or_intror Hy))).
  assert (Hm : w x * f x <= w x * V) by (apply Rmult_le_compat_l; assumption).
  lra.
Qed.

Lemma map_snd_combine (A B : Type) (l : list A) : forall (l' : list B),
  length l' = length l -> map snd (combine l l') = l'.
Proof.
  induction l as [|a l IH]; intros [|b l'] Hl; simpl in *; try discriminate; [reflexivity|].
  injection Hl as Hl. rewrite (IH l' Hl). reflexivity.
Qed.

(* ------------------------------------------------------------------------------------------ *)
(* A. the dual upper bound on capacity *)

(* the weighted sum of rows that out_dist reduces *)
Definition wsum (m : nat) (L : list (list Q * Q)) : list Q :=
  fold_right (fun xr acc => vadd (vscale (snd xr) (fst xr)) acc) (zeros m) L.

Lemma out_dist_wsum m P r : out_dist m P r = map Qred (wsum m (combine P r)).
Proof. reflexivity. Qed.

Lemma vadd_length u : forall v, length u = length v -> length (vadd u v) = length u.
Proof.
  induction u as [|p u IH]; intros [|p' v] Hl; simpl in *; try discriminate; [reflexivity|].
  injection Hl as Hl. rewrite (IH v Hl). reflexivity.
Qed.

Lemma vscale_length c u : length (vscale c u) = length u.
Proof. unfold vscale. apply map_length. Qed.

Lemma zeros_length m : length (zeros m) = m.
Proof. unfold zeros. apply repeat_length. Qed.

Lemma wsum_length m L : (forall xr, In xr L -> length (fst xr) = m) -> length (wsum m L) = m.
Proof.
  induction L as [|xr t IH]; intros H; simpl; [apply zeros_length|].
  assert (Hx := H xr (or_introl eq_refl)).
  assert (Ht := IH (fun y Hy => H y (or_intror Hy))).
  rewrite vadd_length; rewrite vscale_length; congruence.
Qed.

(* sum_y row_y (ln a_y - ln b_y) *)
Fixpoint dlg (row : list Q) (a b : list R) : R :=
  match row, a, b with
  | p :: row', x :: a', y :: b' => Q2R p * (ln x - ln y) + dlg row' a' b'
  | _, _, _ => 0
  end.

Lemma dl_vadd u : forall v a b, length u = length v -> dlg (vadd u v) a b = dlg u a b + dlg v a b.
Proof.
  induction u as [|p u IH]; intros [|p' v] a b Hl; simpl in Hl; try discriminate; [simpl; lra|].
  injection Hl as Hl.
  destruct a as [|x a]; [simpl; lra|]. destruct b as [|y b]; [simpl; lra|].
  simpl. rewrite Q2R_plus, (IH v a b Hl). ring.
Qed.

Lemma dl_vscale c u : forall a b, dlg (vscale c u) a b = Q2R c * dlg u a b.
Proof.
  unfold vscale. induction u as [|p u IH]; intros a b; [simpl; ring|].
  destruct a as [|x a]; [simpl; ring|]. destruct b as [|y b]; [simpl; ring|].
  simpl. rewrite Q2R_mult. rewrite (IH a b). ring.
Qed.

Lemma dl_zeros m : forall a b, dlg (zeros m) a b = 0.
Proof.
  induction m as [|m IH]; intros a b; [reflexivity|].
  destruct a as [|x a]; [reflexivity|]. destruct b as [|y b]; [reflexivity|].
  unfold zeros in *. simpl. rewrite (IH a b), Q2R_0. ring.
Qed.

Lemma dl_Qred u : forall a b, dlg (map Qred u) a b = dlg u a b.
Proof.
  induction u as [|p u IH]; intros a b; [reflexivity|].
  destruct a as [|x a]; [reflexivity|]. destruct b as [|y b]; [reflexivity|].
  simpl. rewrite (IH a b), Q2R_Qred. reflexivity.
Qed.

Lemma kl_diff row : forall a b, length row = length a -> length row = length b ->
  kl (map Q2R row) b - kl (map Q2R row) a = dlg row a b.
Proof.
  induction row as [|p row IH]; intros [|x a] [|y b] Ha Hb; simpl in *; try discriminate; [lra|].
  injection Ha as Ha. injection Hb as Hb. rewrite <- (IH a b Ha Hb). unfold klterm. ring.
Qed.

Lemma dl_self u : forall b, length u = length b -> dlg u (map Q2R u) b = kl (map Q2R u) b.
Proof.
  induction u as [|p u IH]; intros [|y b] Hb; simpl in *; try discriminate; [reflexivity|].
  injection Hb as Hb. rewrite (IH b Hb). unfold klterm. ring.
Qed.

Lemma dl_wsum m a b L : (forall xr, In xr L -> length (fst xr) = m) ->
  rsum (map (fun xr => Q2R (snd xr) * dlg (fst xr) a b) L) = dlg (wsum m L) a b.
Proof.
  induction L as [|xr t IH]; intros H; simpl; [rewrite dl_zeros; reflexivity|].
  assert (Hx := H xr (or_introl eq_refl)).
  assert (Ht := fun y Hy => H y (or_intror Hy)).
  rewrite dl_vadd, dl_vscale, (IH Ht); [reflexivity|].
  rewrite vscale_length, (wsum_length m t Ht). exact Hx.
Qed.

(* domination, on rational vectors *)
Definition domQ (u q : list Q) : Prop :=
  Forall2 (fun p q => (0 <= p)%Q /\ (0 <= q)%Q /\ ((0 < q)%Q \/ (p == 0)%Q)) u q.

Lemma dom_b_domQ row : forall q,
  dom_b row q = true -> Forall (fun x => (0 <= x)%Q) row -> Forall (fun x => (0 <= x)%Q) q -> domQ row q.
Proof.
  induction row as [|p row IH]; intros [|y q] Hd Hr Hq; simpl in Hd; try discriminate; [constructor|].
  apply andb_true_iff in Hd. destruct Hd as [Hd1 Hd2].
  pose proof (Forall_inv Hr) as Hp. pose proof (Forall_inv Hq) as Hy.
  constructor.
  - split; [exact Hp|]. split; [exact Hy|].
    apply orb_true_iff in Hd1. destruct Hd1 as [Hd1|Hd1].
    + right. apply Qle_bool_iff in Hd1. apply Qle_antisym; assumption.
    + left. apply Qnot_le_lt. intros Hle. apply Qle_bool_iff in Hle. rewrite Hle in Hd1. discriminate.
  - apply IH; [exact Hd2| exact (Forall_inv_tail Hr)| exact (Forall_inv_tail Hq)].
Qed.

Lemma domQ_zeros q : forall m, length q = m -> Forall (fun x => (0 <= x)%Q) q -> domQ (zeros m) q.
Proof.
  induction q as [|y q IH]; intros m Hl Hq; simpl in Hl; subst m; [constructor|].
  unfold zeros. simpl. constructor.
  - split; [apply Qle_refl|]. split; [exact (Forall_inv Hq)|]. right. reflexivity.
  - apply (IH (length q) eq_refl (Forall_inv_tail Hq)).
Qed.

Lemma domQ_vadd u v q : domQ u q -> domQ v q -> domQ (vadd u v) q.
Proof.
  intros Hu. revert v. induction Hu as [|p y u q Hpy Hu IH]; intros v Hv.
  - inversion Hv. constructor.
  - inversion Hv as [|p' y' v' q' Hpy' Hv' E1 E2]. subst. simpl. constructor.
    + destruct Hpy as (Hp & Hy & Hd). destruct Hpy' as (Hp' & _ & Hd').
      split; [Lqa.lra|]. split; [exact Hy|].
      destruct Hd as [Hd|Hd]; [left; exact Hd|]. destruct Hd' as [Hd'|Hd']; [left; exact Hd'|].
      right. Lqa.lra.
    + apply IH. exact Hv'.
Qed.

Lemma domQ_vscale c u q : (0 <= c)%Q -> domQ u q -> domQ (vscale c u) q.
Proof.
  intros Hc Hu. induction Hu as [|p y u q Hpy Hu IH]; simpl; constructor.
  - destruct Hpy as (Hp & Hy & Hd). split; [apply Qmult_le_0_compat; assumption|]. split; [exact Hy|].
    destruct Hd as [Hd|Hd]; [left; exact Hd|]. right. rewrite Hd. Lqa.lra.
  - exact IH.
Qed.

Lemma domQ_Qred u q : domQ u q -> domQ (map Qred u) q.
Proof.
  intros Hu. induction Hu as [|p y u q Hpy Hu IH]; simpl; constructor.
  - rewrite (Qred_correct p). exact Hpy.
  - exact IH.
Qed.

Lemma domQ_dom u q : domQ u q -> dom (map Q2R u) (map Q2R q).
Proof.
  intros Hu. induction Hu as [|p y u q Hpy Hu IH]; simpl; constructor.
  - apply Q2R_nonneg, Hpy.
  - apply Q2R_nonneg, Hpy.
  - destruct Hpy as (_ & _ & [Hd|Hd]).
    + left. rewrite <- Q2R_0. apply Qlt_Rlt. exact Hd.
    + right. rewrite (Qeq_eqR _ _ Hd). apply Q2R_0.
  - exact IH.
Qed.

Lemma domQ_wsum m q L :
  length q = m -> Forall (fun x => (0 <= x)%Q) q ->
  (forall xr, In xr L -> domQ (fst xr) q /\ (0 <= snd xr)%Q) -> domQ (wsum m L) q.
Proof.
  intros Hl Hq. induction L as [|xr t IH]; intros H; simpl; [apply domQ_zeros; assumption|].
  destruct (H xr (or_introl eq_refl)) as [Hd Hc].
  apply domQ_vadd; [apply domQ_vscale; assumption|].
  apply IH. intros y Hy. apply H. right. exact Hy.
Qed.

Lemma chan_shape m (P : chan) :
  forallb (fun row => Nat.eqb (length row) m && nonneg_l row) P = true ->
  forall row, In row P -> length row = m /\ Forall (fun x => (0 <= x)%Q) row.
Proof.
  intros H row Hin. rewrite forallb_forall in H. specialize (H row Hin).
  apply andb_true_iff in H. destruct H as [H1 H2]. split; [apply Nat.eqb_eq, H1| apply nonneg_Forall, H2].
Qed.

Theorem capacity_upper_bound m (P : chan) (q r' : list Q) (V : R) :
  forallb (fun row => Nat.eqb (length row) m && nonneg_l row) P = true ->
  length q = m -> nonneg_l q = true -> all_dominated P q = true ->
  length r' = length P -> nonneg_l r' = true -> (qsum r' == 1)%Q ->
  (qsum q <= qsum (out_dist m P r'))%Q ->
  (forall row, In row P -> rden (letter_div_data row q) <= V) ->
  rden (mi_chan_data m P r') <= V.
Proof.
  intros HP Hlq Hnq Hdom Hlr Hnr Hsr Hsq HV.
  pose proof (chan_shape m P HP) as Hshape.
  apply nonneg_Forall in Hnq. apply nonneg_Forall in Hnr.
  set (L := combine P r').
  assert (HL : forall xr, In xr L -> In (fst xr) P /\ In (snd xr) r').
  { intros [row c] Hin. split; [exact (in_combine_l _ _ _ _ Hin)| exact (in_combine_r _ _ _ _ Hin)]. }
  assert (HLlen : forall xr, In xr L -> length (fst xr) = m).
  { intros xr Hin. apply Hshape, HL, Hin. }
  set (q' := out_dist m P r').
  assert (Hq'len : length q' = m).
  { unfold q'. rewrite out_dist_wsum, map_length. apply wsum_length. exact HLlen. }
  (* the two weighted sums *)
  set (f := fun xr : list Q * Q => Q2R (snd xr) * kl_list (fst xr) q).
  set (g := fun xr : list Q * Q => Q2R (snd xr) * kl_list (fst xr) q').
  set (h := fun xr : list Q * Q => Q2R (snd xr) * dlg (fst xr) (map Q2R q') (map Q2R q)).
  assert (Hmi : rden (mi_chan_data m P r') = rsum (map g L)).
  { unfold mi_chan_data. rewrite rden_r_sum, map_map. reflexivity. }
  assert (Hdiff : rsum (map f L) - rsum (map g L) = / ln 2 * rsum (map h L)).
  { apply rsum_map_lin. intros xr Hin. unfold f, g, h.
    destruct (Hshape _ (proj1 (HL xr Hin))) as [Hlen Hnn].
    rewrite (kl_list_eq (fst xr) q) by (try assumption; congruence).
    rewrite (kl_list_eq (fst xr) q') by (try assumption; congruence).
    rewrite <- (kl_diff (fst xr) (map Q2R q') (map Q2R q)) by (rewrite map_length; congruence).
    unfold Rdiv. ring. }
  assert (Hh : rsum (map h L) = kl (map Q2R q') (map Q2R q)).
  { unfold h. rewrite (dl_wsum m _ _ L HLlen).
    rewrite <- (dl_Qred (wsum m L)). change (map Qred (wsum m L)) with q'.
    apply dl_self. rewrite map_length. congruence. }
  assert (Hdq : dom (map Q2R q') (map Q2R q)).
  { apply domQ_dom. unfold q'. rewrite out_dist_wsum. apply domQ_Qred.
    apply domQ_wsum; [exact Hlq| exact Hnq|].
    intros xr Hin. destruct (HL xr Hin) as [Hin1 Hin2]. split.
    - apply dom_b_domQ; [| apply Hshape, Hin1| exact Hnq].
      unfold all_dominated in Hdom. rewrite forallb_forall in Hdom. apply Hdom, Hin1.
    - rewrite Forall_forall in Hnr. apply Hnr, Hin2. }
  pose proof (gibbs_aux _ _ Hdq) as Hg.
  rewrite <- !Q2R_qsum in Hg. apply Qle_Rle in Hsq. fold q' in Hsq.
  assert (Hf : rsum (map f L) <= V * rsum (map (fun xr : list Q * Q => Q2R (snd xr)) L)).
  { unfold f. apply rsum_weighted_le.
    - intros xr Hin. apply Q2R_nonneg. rewrite Forall_forall in Hnr. apply Hnr, HL, Hin.
    - intros xr Hin. apply (HV (fst xr)), HL, Hin. }
  assert (Hw : rsum (map (fun xr : list Q * Q => Q2R (snd xr)) L) = 1).
  { rewrite <- (map_map snd Q2R). unfold L. rewrite (map_snd_combine _ _ P r' Hlr).
    rewrite <- Q2R_qsum, (Qeq_eqR _ _ Hsr). apply Q2R_1. }
  rewrite Hw in Hf. rewrite Hmi.
  pose proof ln2_pos as H2.
  assert (Hi : 0 < / ln 2) by (apply Rinv_0_lt_compat; exact H2).
  assert (Hpos : 0 <= / ln 2 * rsum (map h L)).
  { apply Rmult_le_pos; [lra|]. rewrite Hh. lra. }
  lra.
Qed.

(* --- exactly stochastic data: the output of a pmf sums to one --- *)
Lemma qsum_vadd u : forall v, length u = length v -> (qsum (vadd u v) == qsum u + qsum v)%Q.
Proof.
  induction u as [|p u IH]; intros [|p' v] Hl; simpl in *; try discriminate; [Lqa.lra|].
  injection Hl as Hl. rewrite (IH v Hl). Lqa.lra.
Qed.

Lemma qsum_vscale c u : (qsum (vscale c u) == c * qsum u)%Q.
Proof.
  unfold vscale. induction u as [|p u IH]; simpl; [Lqa.lra|]. rewrite IH. Lqa.lra.
Qed.

Lemma qsum_zeros m : (qsum (zeros m) == 0)%Q.
Proof. unfold zeros. induction m as [|m IH]; simpl; [reflexivity|]. rewrite IH. Lqa.lra. Qed.

Lemma qsum_Qred u : (qsum (map Qred u) == qsum u)%Q.
Proof. induction u as [|p u IH]; simpl; [reflexivity|]. rewrite IH, (Qred_correct p). reflexivity. Qed.

Lemma qsum_wsum m (s : Q) L :
  (forall xr, In xr L -> length (fst xr) = m /\ (qsum (fst xr) == s)%Q) ->
  (qsum (wsum m L) == s * qsum (map snd L))%Q.
Proof.
  induction L as [|xr t IH]; intros H; simpl; [rewrite qsum_zeros; Lqa.lra|].
  destruct (H xr (or_introl eq_refl)) as [Hx Hs].
  assert (Ht := fun y Hy => H y (or_intror Hy)).
  rewrite qsum_vadd, qsum_vscale, (IH Ht), Hs; [Lqa.lra|].
  rewrite vscale_length, wsum_length; [exact Hx|]. intros y Hy. apply Ht, Hy.
Qed.

Lemma qsum_out_dist m (s : Q) (P : chan) r :
  length r = length P ->
  (forall row, In row P -> length row = m /\ (qsum row == s)%Q) ->
  (qsum (out_dist m P r) == s * qsum r)%Q.
Proof.
  intros Hl H. rewrite out_dist_wsum, qsum_Qred, (qsum_wsum m s).
  - rewrite (map_snd_combine _ _ P r Hl). reflexivity.
  - intros [row c] Hin. apply H. exact (in_combine_l _ _ _ _ Hin).
Qed.

Corollary capacity_upper_bound_stochastic m (P : chan) (q r' : list Q) (V : R) :
  forallb (fun row => Nat.eqb (length row) m && nonneg_l row) P = true ->
  length q = m -> nonneg_l q = true -> all_dominated P q = true ->
  length r' = length P -> nonneg_l r' = true ->
  (forall row, In row P -> (qsum row == 1)%Q) -> (qsum q <= 1)%Q -> (qsum r' == 1)%Q ->
  (forall row, In row P -> rden (letter_div_data row q) <= V) ->
  rden (mi_chan_data m P r') <= V.
Proof.
  intros HP Hlq Hnq Hdom Hlr Hnr Hrows Hsq Hsr HV.
  apply (capacity_upper_bound m P q r' V); try assumption.
  rewrite (qsum_out_dist m 1 P r' Hlr).
  - rewrite Hsr. Lqa.lra.
  - intros row Hin. split; [apply (chan_shape m P HP row Hin)| apply Hrows, Hin].
Qed.

(* ------------------------------------------------------------------------------------------ *)
(* D. monotonicity along beta *)

Theorem lagrangian_monotone (b1 b2 R1 D1 R2 D2 dl : Q) :
  (0 <= b1 -> b1 < b2 -> 0 <= dl ->
   R1 + b1 * D1 <= R2 + b1 * D2 + dl ->
   R2 + b2 * D2 <= R1 + b2 * D1 + dl ->
   (b2 - b1) * (D2 - D1) <= 2 * dl /\ (b2 - b1) * (R1 - R2) <= (b1 + b2) * dl)%Q.
Proof.
  intros Hb1 Hb12 Hdl H1 H2. split; [Lqa.lra|].
  assert (Hb2 : (0 <= b2)%Q) by Lqa.lra.
  assert (Ha : (0 <= b2 * ((R2 + b1 * D2 + dl) - (R1 + b1 * D1)))%Q)
    by (apply Qmult_le_0_compat; Lqa.lra).
  assert (Hb : (0 <= b1 * ((R1 + b2 * D1 + dl) - (R2 + b2 * D2)))%Q)
    by (apply Qmult_le_0_compat; Lqa.lra).
  Lqa.lra.
Qed.

(* ------------------------------------------------------------------------------------------ *)
(* B. closed forms *)

Lemma Qle_bool_pos_false q : (0 < q)%Q -> Qle_bool q 0 = false.
Proof.
  intros H. destruct (Qle_bool q 0) eqn:E; [|reflexivity].
  apply Qle_bool_iff in E. Lqa.lra.
Qed.

Lemma Qle_bool_nonneg_true q : (0 <= q)%Q -> Qle_bool 0 q = true.
Proof. intros H. apply Qle_bool_iff, H. Qed.

Lemma xent_list_ext ps : forall qs qs', map Q2R qs = map Q2R qs' -> xent_list ps qs = xent_list ps qs'.
Proof.
  induction ps as [|p ps IH]; intros [|y qs] [|y' qs'] H; simpl in *; try discriminate; try reflexivity.
  injection H as H1 H2. rewrite (IH qs qs' H2). unfold xlogy. rewrite H1. reflexivity.
Qed.

Lemma kl_list_ext ps qs qs' : map Q2R qs = map Q2R qs' -> kl_list ps qs = kl_list ps qs'.
Proof. intros H. unfold kl_list. rewrite (xent_list_ext ps qs qs' H). reflexivity. Qed.

Lemma Q2R_half : Q2R (1 # 2) = / 2.
Proof. unfold Q2R. simpl. lra. Qed.

Lemma log2_half : log2 (/ 2) = -1.
Proof. unfold log2. rewrite ln_Rinv by lra. pose proof ln2_pos as H2. field. lra. Qed.

(* B1. binary symmetric channel *)
Definition bsc (e : Q) : chan := [[1 - e; e]; [e; 1 - e]]%Q.

Lemma bsc_letter_div_1 e : (0 < e)%Q -> (e < 1)%Q ->
  rden (letter_div_data [1 - e; e]%Q [1 # 2; 1 # 2]) = 1 - rden (h2_data e).
Proof.
  intros H0 H1. unfold letter_div_data, h2_data. cbn [rden].
  unfold kl_list, lincomb, entropy_list. cbn [xent_list map rsum fst snd]. unfold xlogy, plogp.
  rewrite (Qle_bool_pos_false e H0).
  rewrite (Qle_bool_pos_false (1 - e)) by Lqa.lra.
  rewrite Q2R_half, log2_half, Q2R_minus, Q2R_1. ring.
Qed.

Lemma bsc_letter_div_2 e : (0 < e)%Q -> (e < 1)%Q ->
  rden (letter_div_data [e; 1 - e]%Q [1 # 2; 1 # 2]) = 1 - rden (h2_data e).
Proof.
  intros H0 H1. unfold letter_div_data, h2_data. cbn [rden].
  unfold kl_list, lincomb, entropy_list. cbn [xent_list map rsum fst snd]. unfold xlogy, plogp.
  rewrite (Qle_bool_pos_false e H0).
  rewrite (Qle_bool_pos_false (1 - e)) by Lqa.lra.
  rewrite Q2R_half, log2_half, Q2R_minus, Q2R_1. ring.
Qed.

Lemma bsc_out_uniform e : map Q2R (out_dist 2 (bsc e) [1 # 2; 1 # 2]) = map Q2R [1 # 2; 1 # 2].
Proof.
  unfold out_dist, bsc. cbn [combine fold_right fst snd vscale vadd map zeros repeat].
  rewrite !Q2R_Qred. f_equal; [|f_equal]; apply Qeq_eqR; Lqa.lra.
Qed.

Theorem bsc_uniform_rate e : (0 < e)%Q -> (e < 1)%Q ->
  rden (mi_chan_data 2 (bsc e) [1 # 2; 1 # 2]) = 1 - rden (h2_data e).
Proof.
  intros H0 H1. unfold mi_chan_data. rewrite rden_r_sum, map_map.
  pose proof (bsc_out_uniform e) as Hq. set (q' := out_dist 2 (bsc e) [1 # 2; 1 # 2]) in *.
  unfold bsc. cbn [combine map rsum fst snd rden].
  rewrite !(kl_list_ext _ q' _ Hq).
  pose proof (bsc_letter_div_1 e H0 H1) as E1. pose proof (bsc_letter_div_2 e H0 H1) as E2.
  unfold letter_div_data in E1, E2. cbn [rden] in E1, E2. rewrite E1, E2, Q2R_half. field.
Qed.

Theorem bsc_capacity e r' : (0 < e)%Q -> (e < 1)%Q ->
  length r' = 2%nat -> nonneg_l r' = true -> (qsum r' == 1)%Q ->
  rden (mi_chan_data 2 (bsc e) r') <= 1 - rden (h2_data e).
Proof.
  intros H0 H1 Hl Hn Hs.
  assert (T0 : Qle_bool 0 e = true) by (apply Qle_bool_nonneg_true; Lqa.lra).
  assert (T1 : Qle_bool 0 (1 - e) = true) by (apply Qle_bool_nonneg_true; Lqa.lra).
  assert (F0 : Qle_bool e 0 = false) by (apply Qle_bool_pos_false; Lqa.lra).
  assert (F1 : Qle_bool (1 - e) 0 = false) by (apply Qle_bool_pos_false; Lqa.lra).
  apply (capacity_upper_bound_stochastic 2 (bsc e) [1 # 2; 1 # 2]%Q r').
  - unfold bsc, nonneg_l. cbn [forallb length]. rewrite T0, T1. reflexivity.
  - reflexivity.
  - reflexivity.
  - unfold all_dominated, bsc. cbn [forallb dom_b]. rewrite F0, F1. reflexivity.
  - exact Hl.
  - exact Hn.
  - intros row [<-|[<-|[]]]; simpl; Lqa.lra.
  - simpl. Lqa.lra.
  - exact Hs.
  - intros row [<-|[<-|[]]]; right; [apply bsc_letter_div_1| apply bsc_letter_div_2]; assumption.
Qed.

(* B3. useless channel: all rows equal *)
Lemma useless_letter_div row : Forall (fun x => (0 <= x)%Q) row -> rden (letter_div_data row row) = 0.
Proof. intros H. unfold letter_div_data. cbn [rden]. apply kl_list_self, H. Qed.

Lemma dom_b_self row : dom_b row row = true.
Proof.
  induction row as [|p row IH]; simpl; [reflexivity|].
  rewrite IH. destruct (Qle_bool p 0); reflexivity.
Qed.

Theorem useless_capacity m (P : chan) (row r' : list Q) :
  (forall x, In x P -> x = row) ->
  forallb (fun row => Nat.eqb (length row) m && nonneg_l row) P = true ->
  length r' = length P -> nonneg_l r' = true -> (qsum r' == 1)%Q ->
  rden (mi_chan_data m P r') <= 0.
Proof.
  intros Hall HP Hlr Hnr Hsr.
  destruct P as [|x P0].
  { destruct r' as [|c r0]; [|discriminate]. simpl in Hsr. Lqa.lra. }
  assert (Hx : x = row) by (apply Hall; left; reflexivity).
  pose proof (chan_shape m _ HP x (or_introl eq_refl)) as [Hlen Hnn]. rewrite Hx in Hlen, Hnn.
  assert (Hnb : nonneg_l row = true).
  { unfold nonneg_l. rewrite forallb_forall. intros y Hy. apply Qle_bool_iff.
    rewrite Forall_forall in Hnn. apply Hnn, Hy. }
  apply (capacity_upper_bound m (x :: P0) row r' 0); try assumption.
  - unfold all_dominated. rewrite forallb_forall. intros y Hy. rewrite (Hall y Hy). apply dom_b_self.
  - rewrite (qsum_out_dist m (qsum row) (x :: P0) r' Hlr).
    + rewrite Hsr. Lqa.lra.
    + intros y Hy. rewrite (Hall y Hy). split; [exact Hlen| reflexivity].
  - intros y Hy. rewrite (Hall y Hy). right. apply useless_letter_div, Hnn.
Qed.

(* ------------------------------------------------------------------------------------------ *)
(* E. non-vacuity *)

Example out_dist_example :
  out_dist 2 [[3 # 4; 1 # 4]; [1 # 4; 3 # 4]] [1 # 2; 1 # 2] = [1 # 2; 1 # 2].
Proof. vm_compute. reflexivity. Qed.

Example bsc_quarter_ok : chan_ok 2 (bsc (1 # 4)) = true.
Proof. vm_compute. reflexivity. Qed.

Example bsc_quarter_input_ok : input_ok (bsc (1 # 4)) [1 # 2; 1 # 2] = true.
Proof. vm_compute. reflexivity. Qed.

Example bsc_quarter_dominated : all_dominated (bsc (1 # 4)) [1 # 2; 1 # 2] = true.
Proof. vm_compute. reflexivity. Qed.

Example chan_of_joint_example :
  chan_of_joint [([0; 0], 1 # 4); ([0; 1], 1 # 4); ([1; 1], 1 # 2)]%nat [0%nat] [1%nat]
  = [[1 # 2; 1 # 2]; [0; 1]]%Q.
Proof. vm_compute. reflexivity. Qed.

Example bsc_quarter_capacity r' :
  length r' = 2%nat -> nonneg_l r' = true -> (qsum r' == 1)%Q ->
  rden (mi_chan_data 2 (bsc (1 # 4)) r') <= 1 - rden (h2_data (1 # 4)).
Proof. apply bsc_capacity; reflexivity. Qed.

(* ------------------------------------------------------------------------------------------ *)
(* C. rate-distortion: Berger's dual lower bound *)

(* C.0 sums over lists / index ranges *)
Lemma rsum_map_lincomb (A : Type) (l : list A) (c1 c2 c3 : R) (f1 f2 f3 : A -> R) :
  rsum (map (fun i => c1 * f1 i + c2 * f2 i + c3 * f3 i) l)
  = c1 * rsum (map f1 l) + c2 * rsum (map f2 l) + c3 * rsum (map f3 l).
Proof. induction l as [|i l IH]; simpl; [ring|]. rewrite IH. ring. Qed.

Lemma rsum_map_le (A : Type) (l : list A) (f g : A -> R) :
  (forall i, In i l -> f i <= g i) -> rsum (map f l) <= rsum (map g l).
Proof.
  induction l as [|i l IH]; intros H; simpl; [lra|].
  assert (Hi := H i (or_introl eq_refl)). assert (Ht := IH (fun j Hj => H j (or_intror Hj))). lra.
Qed.

Lemma rsum_map_zero (A : Type) (l : list A) : rsum (map (fun _ => 0) l) = 0.
Proof. induction l as [|i l IH]; simpl; [reflexivity|]. rewrite IH. ring. Qed.

Lemma rsum_map_plus (A : Type) (l : list A) (f g : A -> R) :
  rsum (map (fun i => f i + g i) l) = rsum (map f l) + rsum (map g l).
Proof. induction l as [|i l IH]; simpl; [ring|]. rewrite IH. ring. Qed.

Lemma rsum_map_swap (A B : Type) (l1 : list A) (l2 : list B) (f : A -> B -> R) :
  rsum (map (fun x => rsum (map (fun y => f x y) l2)) l1)
  = rsum (map (fun y => rsum (map (fun x => f x y) l1)) l2).
Proof.
  induction l1 as [|x l1 IH]; simpl; [rewrite rsum_map_zero; reflexivity|].
  rewrite IH.
  rewrite (rsum_map_plus _ l2 (fun y => f x y) (fun y => rsum (map (fun x0 => f x0 y) l1))).
  reflexivity.
Qed.

Lemma rsum_map_term_le (A : Type) (l : list A) (f : A -> R) (x : A) :
  (forall i, In i l -> 0 <= f i) -> In x l -> f x <= rsum (map f l).
Proof.
  induction l as [|i l IH]; intros H Hin; simpl; [contradiction|].
  assert (Hi := H i (or_introl eq_refl)).
  assert (Hs : 0 <= rsum (map f l)).
  { rewrite <- (rsum_map_zero _ l). apply rsum_map_le. intros j Hj. apply H. right. exact Hj. }
  destruct Hin as [->|Hin]; [lra|].
  assert (Ht := IH (fun j Hj => H j (or_intror Hj)) Hin). lra.
Qed.

Lemma in_range i n : In i (range n) <-> (i < n)%nat.
Proof. unfold range. rewrite in_seq. lia. Qed.

Lemma rsumf_lincomb n (c1 c2 c3 : R) (f1 f2 f3 : nat -> R) :
  rsumf n (fun i => c1 * f1 i + c2 * f2 i + c3 * f3 i)
  = c1 * rsumf n f1 + c2 * rsumf n f2 + c3 * rsumf n f3.
Proof. apply rsum_map_lincomb. Qed.

Lemma rsumf_ext n f g : (forall i, (i < n)%nat -> f i = g i) -> rsumf n f = rsumf n g.
Proof.
  intros H. unfold rsumf. f_equal. apply map_ext_in. intros i Hi. apply H, in_range, Hi.
Qed.

Lemma rsumf_le n f g : (forall i, (i < n)%nat -> f i <= g i) -> rsumf n f <= rsumf n g.
Proof. intros H. apply rsum_map_le. intros i Hi. apply H, in_range, Hi. Qed.

Lemma rsumf_swap n m (f : nat -> nat -> R) :
  rsumf n (fun x => rsumf m (fun y => f x y)) = rsumf m (fun y => rsumf n (fun x => f x y)).
Proof. apply rsum_map_swap. Qed.

Lemma rsumf_nonneg n f : (forall i, (i < n)%nat -> 0 <= f i) -> 0 <= rsumf n f.
Proof.
  intros H. unfold rsumf. rewrite <- (rsum_map_zero _ (range n)). apply rsum_map_le.
  intros i Hi. apply H, in_range, Hi.
Qed.

Lemma rsumf_term_le n f x : (forall i, (i < n)%nat -> 0 <= f i) -> (x < n)%nat -> f x <= rsumf n f.
Proof.
  intros H Hx. apply rsum_map_term_le; [|apply in_range, Hx]. intros i Hi. apply H, in_range, Hi.
Qed.

Lemma rsumf_scal n c f : rsumf n (fun i => c * f i) = c * rsumf n f.
Proof.
  rewrite (rsumf_ext n _ (fun i => c * f i + 0 * f i + 0 * f i)) by (intros; ring).
  rewrite rsumf_lincomb. ring.
Qed.

Lemma rsumf_minus n f g : rsumf n (fun i => f i - g i) = rsumf n f - rsumf n g.
Proof.
  rewrite (rsumf_ext n _ (fun i => 1 * f i + (-1) * g i + 0 * f i)) by (intros; ring).
  rewrite rsumf_lincomb. ring.
Qed.

Lemma rsumf_S n f : rsumf (S n) f = f 0%nat + rsumf n (fun i => f (S i)).
Proof. unfold rsumf, range. simpl. rewrite <- seq_shift, map_map. reflexivity. Qed.

Lemma rsum_map_nth (A : Type) (F : A -> R) (dflt : A) (l : list A) :
  rsum (map F l) = rsumf (length l) (fun i => F (nth i l dflt)).
Proof.
  induction l as [|a l IH]; [reflexivity|].
  simpl length. rewrite rsumf_S. simpl. rewrite IH. reflexivity.
Qed.

(* C.1 readable forms of the reflected data *)
Lemma dual_value_form p lam : length lam = length p ->
  rden (dual_value_data p lam) = rsumf (length p) (fun x => pq p x * log2 (Q2R (nth x lam 0%Q))).
Proof.
  intros Hl. unfold dual_value_data. rewrite rden_r_sum, map_map.
  rewrite (rsum_map_nth _ _ (0%Q, 0%Q)), combine_length, Hl, Nat.min_id.
  apply rsumf_ext. intros x Hx. rewrite combine_nth by (symmetry; exact Hl). reflexivity.
Qed.

Lemma dual_feas_form p lam beta dcol : length lam = length p -> length dcol = length p ->
  rden (dual_feas_data p lam beta dcol)
  = rsumf (length p) (fun x => pq p x * Q2R (nth x lam 0%Q) * exp (- Q2R beta * Q2R (nth x dcol 0%Q) * ln 2)).
Proof.
  intros Hl Hd. unfold dual_feas_data. rewrite rden_r_sum, map_map.
  rewrite (rsum_map_nth _ _ (0%Q, 0%Q, 0%Q)), !combine_length, Hl, Hd, !Nat.min_id.
  apply rsumf_ext. intros x Hx.
  rewrite combine_nth by (rewrite combine_length, Hl, Hd, Nat.min_id; reflexivity).
  rewrite combine_nth by (symmetry; exact Hl).
  cbn [rden fst snd]. unfold bpow, lnb, pq. rewrite !Q2R_Qred, !Q2R_mult, Q2R_opp. reflexivity.
Qed.

Lemma column_nth (d : matrix) x y : (x < length d)%nat ->
  nth x (column y d) 0%Q = nth y (nth x d []) 0%Q.
Proof.
  intros H. unfold column.
  transitivity (nth x (map (fun r => nth y r 0%Q) d) ((fun r => nth y r 0%Q) [])).
  - apply nth_indep. rewrite map_length. exact H.
  - apply (map_nth (fun r : list Q => nth y r 0%Q)).
Qed.

Lemma column_length y (d : matrix) : length (column y d) = length d.
Proof. unfold column. apply map_length. Qed.

Lemma pq_nonneg p x : nonneg_l p = true -> 0 <= pq p x.
Proof.
  intros H. apply nonneg_Forall in H. unfold pq. apply Q2R_nonneg.
  destruct (lt_dec x (length p)) as [Hx|Hx].
  - rewrite Forall_forall in H. apply H, nth_In, Hx.
  - rewrite nth_overflow by lia. apply Qle_refl.
Qed.

Lemma all_pos_nth lam x : all_pos lam = true -> (x < length lam)%nat -> 0 < Q2R (nth x lam 0%Q).
Proof.
  intros H Hx. unfold all_pos in H. rewrite forallb_forall in H.
  apply qle0_false_pos. apply negb_true_iff, H, nth_In, Hx.
Qed.

(* C.2 the bound *)
Section RD.
Variables (p lam : list Q) (beta : Q) (d : matrix) (m : nat) (W : nat -> nat -> R).
Hypothesis Hlam : length lam = length p.
Hypothesis Hp : nonneg_l p = true.
Hypothesis Hpos : all_pos lam = true.
Hypothesis Hd : length d = length p.
Hypothesis Hfeas : forall y, (y < m)%nat -> rden (dual_feas_data p lam beta (column y d)) <= 1.
Hypothesis HW0 : forall x y, 0 <= W x y.
Hypothesis HW1 : forall x, (x < length p)%nat -> rsumf m (W x) = 1.

Let n := length p.
Let Pf (x : nat) : R := pq p x.
Let Lf (x : nat) : R := Q2R (nth x lam 0%Q).
Let Df (x y : nat) : R := Q2R (nth y (nth x d []) 0%Q).
Let Ef (x y : nat) : R := exp (- Q2R beta * Df x y * ln 2).
Let Qf (y : nat) : R := w_out p W y.
Let af (x y : nat) : R := Pf x * W x y.
Let bf (x y : nat) : R := Pf x * Qf y * Lf x * Ef x y.

Lemma rd_Pf_nonneg x : 0 <= Pf x.
Proof. apply pq_nonneg, Hp. Qed.

Lemma rd_Lf_pos x : (x < n)%nat -> 0 < Lf x.
Proof. intros Hx. apply all_pos_nth; [exact Hpos| rewrite Hlam; exact Hx]. Qed.

Lemma rd_Ef_pos x y : 0 < Ef x y.
Proof. apply exp_pos. Qed.

Lemma rd_af_nonneg x y : 0 <= af x y.
Proof. apply Rmult_le_pos; [apply rd_Pf_nonneg| apply HW0]. Qed.

Lemma rd_Qf_nonneg y : 0 <= Qf y.
Proof. apply rsumf_nonneg. intros x Hx. apply (rd_af_nonneg x y). Qed.

Lemma rd_Qf_ge x y : (x < n)%nat -> af x y <= Qf y.
Proof.
  intros Hx. apply (rsumf_term_le n (fun x0 => pq p x0 * W x0 y) x); [|exact Hx].
  intros i Hi. apply (rd_af_nonneg i y).
Qed.

Lemma rd_feas y : (y < m)%nat -> rsumf n (fun x => Pf x * Lf x * Ef x y) <= 1.
Proof.
  intros Hy. pose proof (Hfeas y Hy) as H.
  rewrite dual_feas_form in H by (try rewrite column_length; assumption).
  rewrite (rsumf_ext n _ (fun x => pq p x * Q2R (nth x lam 0%Q)
                                   * exp (- Q2R beta * Q2R (nth x (column y d) 0%Q) * ln 2))); [exact H|].
  intros x Hx. unfold Pf, Lf, Ef, Df. rewrite column_nth by (rewrite Hd; exact Hx). reflexivity.
Qed.

Lemma rd_term_eq x y : (x < n)%nat ->
  klterm (af x y) (bf x y)
  = ln 2 * (Pf x * rterm (W x y) (Qf y) + (Q2R beta * Pf x) * (W x y * Df x y)
            + (- (Pf x * log2 (Lf x))) * W x y).
Proof.
  intros Hx. pose proof ln2_pos as H2. unfold af, bf.
  destruct (Req_dec (Pf x) 0) as [E|HP0]; [rewrite E; unfold klterm, rterm; ring|].
  destruct (Req_dec (W x y) 0) as [E|HW].
  { rewrite E. unfold klterm, rterm, Rdiv. ring. }
  assert (HP : 0 < Pf x) by (pose proof (rd_Pf_nonneg x); lra).
  assert (Hw : 0 < W x y) by (pose proof (HW0 x y); lra).
  assert (Ha : 0 < Pf x * W x y) by (apply Rmult_lt_0_compat; assumption).
  assert (HQ : 0 < Qf y) by (pose proof (rd_Qf_ge x y Hx) as Hge; unfold af in Hge; lra).
  pose proof (rd_Lf_pos x Hx) as HL. pose proof (rd_Ef_pos x y) as HE.
  unfold klterm.
  rewrite (ln_mult (Pf x) (W x y)) by assumption.
  assert (HPQ : 0 < Pf x * Qf y) by (apply Rmult_lt_0_compat; assumption).
  assert (HPQL : 0 < Pf x * Qf y * Lf x) by (apply Rmult_lt_0_compat; assumption).
  rewrite (ln_mult (Pf x * Qf y * Lf x) (Ef x y)) by assumption.
  rewrite (ln_mult (Pf x * Qf y) (Lf x)) by assumption.
  rewrite (ln_mult (Pf x) (Qf y)) by assumption.
  unfold Ef at 1. rewrite ln_exp. unfold rterm, log2. field. lra.
Qed.

Lemma rd_term_ge x y : (x < n)%nat -> af x y - bf x y <= klterm (af x y) (bf x y).
Proof.
  intros Hx. pose proof (rd_af_nonneg x y) as Ha.
  pose proof (rd_Pf_nonneg x) as HP. pose proof (rd_Qf_nonneg y) as HQ.
  pose proof (rd_Lf_pos x Hx) as HL. pose proof (rd_Ef_pos x y) as HE.
  assert (Hb : 0 <= bf x y).
  { unfold bf. apply Rmult_le_pos; [apply Rmult_le_pos; [apply Rmult_le_pos|]|]; lra. }
  assert (Hd' : 0 < bf x y \/ af x y = 0).
  { destruct (Req_dec (af x y) 0) as [E|E]; [right; exact E|left].
    assert (Ha' : 0 < af x y) by lra.
    assert (HP' : 0 < Pf x).
    { destruct (Req_dec (Pf x) 0) as [E0|E0]; [|lra]. exfalso. apply E. unfold af. rewrite E0. ring. }
    pose proof (rd_Qf_ge x y Hx) as Hge.
    assert (HQ' : 0 < Qf y) by lra.
    unfold bf. apply Rmult_lt_0_compat; [apply Rmult_lt_0_compat; [apply Rmult_lt_0_compat|]|]; assumption. }
  destruct (klterm_ge _ _ Ha Hd') as [H|[H1 H3]]; lra.
Qed.

Lemma rd_sum_a : rsumf n (fun x => rsumf m (fun y => af x y)) = rsumf n (fun x => Pf x).
Proof.
  apply rsumf_ext. intros x Hx. unfold af. rewrite (rsumf_scal m (Pf x) (W x)), (HW1 x Hx). ring.
Qed.

Lemma rd_sum_b : rsumf n (fun x => rsumf m (fun y => bf x y)) <= rsumf n (fun x => Pf x).
Proof.
  rewrite (rsumf_swap n m bf).
  apply Rle_trans with (rsumf m (fun y => Qf y)).
  - apply rsumf_le. intros y Hy. unfold bf.
    rewrite (rsumf_ext n _ (fun x => Qf y * (Pf x * Lf x * Ef x y))) by (intros; ring).
    rewrite rsumf_scal. pose proof (rd_feas y Hy) as Hc. pose proof (rd_Qf_nonneg y) as HQ.
    rewrite <- (Rmult_1_r (Qf y)) at 2. apply Rmult_le_compat_l; assumption.
  - right. rewrite <- rd_sum_a. unfold Qf, w_out, af, Pf.
    apply (rsumf_swap m n (fun y x => pq p x * W x y)).
Qed.

Lemma rd_kl_sum :
  rsumf n (fun x => rsumf m (fun y => klterm (af x y) (bf x y)))
  = ln 2 * (w_rate p m W + Q2R beta * w_dist p m d W - rden (dual_value_data p lam)).
Proof.
  rewrite (dual_value_form p lam Hlam).
  rewrite (rsumf_ext n _ (fun x => ln 2 * (1 * (Pf x * rsumf m (fun y => rterm (W x y) (Qf y)))
                                          + Q2R beta * (Pf x * rsumf m (fun y => W x y * Df x y))
                                          + (-1) * (Pf x * log2 (Lf x))))).
  - rewrite rsumf_scal, rsumf_lincomb. unfold w_rate, w_dist, Pf, Qf, Df, Lf, n. ring.
  - intros x Hx.
    rewrite (rsumf_ext m _ (fun y => ln 2 * (Pf x * rterm (W x y) (Qf y) + (Q2R beta * Pf x) * (W x y * Df x y)
            + (- (Pf x * log2 (Lf x))) * W x y))) by (intros y Hy; apply rd_term_eq; exact Hx).
    rewrite rsumf_scal.
    rewrite (rsumf_lincomb m (Pf x) (Q2R beta * Pf x) (- (Pf x * log2 (Lf x)))
               (fun y => rterm (W x y) (Qf y)) (fun y => W x y * Df x y) (W x)).
    rewrite (HW1 x Hx). ring.
Qed.

Lemma rd_bound_section : rden (dual_value_data p lam) <= w_rate p m W + Q2R beta * w_dist p m d W.
Proof.
  pose proof rd_kl_sum as HA.
  assert (HB : rsumf n (fun x => rsumf m (fun y => af x y - bf x y))
               <= rsumf n (fun x => rsumf m (fun y => klterm (af x y) (bf x y)))).
  { apply rsumf_le. intros x Hx. apply rsumf_le. intros y Hy. apply rd_term_ge, Hx. }
  assert (HC : rsumf n (fun x => rsumf m (fun y => af x y - bf x y))
               = rsumf n (fun x => rsumf m (fun y => af x y)) - rsumf n (fun x => rsumf m (fun y => bf x y))).
  { rewrite <- rsumf_minus. apply rsumf_ext. intros x Hx. apply rsumf_minus. }
  pose proof rd_sum_a as Ha. pose proof rd_sum_b as Hb. pose proof ln2_pos as H2.
  set (X := w_rate p m W + Q2R beta * w_dist p m d W - rden (dual_value_data p lam)) in *.
  assert (HX : 0 <= ln 2 * X) by lra.
  assert (0 <= X); [|unfold X in *; lra].
  destruct (Rle_or_lt 0 X) as [Hok|Hneg]; [exact Hok|].
  assert (ln 2 * X < 0); [|lra].
  rewrite <- (Rmult_0_r (ln 2)). apply Rmult_lt_compat_l; assumption.
Qed.
End RD.

Theorem rd_dual_bound_gen (p lam : list Q) (beta : Q) (d : matrix) (m : nat) (W : nat -> nat -> R) :
  length lam = length p -> nonneg_l p = true -> all_pos lam = true ->
  length d = length p ->
  (forall y, (y < m)%nat -> rden (dual_feas_data p lam beta (column y d)) <= 1) ->
  (forall x y, 0 <= W x y) -> (forall x, (x < length p)%nat -> rsumf m (W x) = 1) ->
  rden (dual_value_data p lam) <= w_rate p m W + Q2R beta * w_dist p m d W.
Proof. intros. apply rd_bound_section; assumption. Qed.

Theorem rd_dual_bound (p lam : list Q) (beta : Q) (d : matrix) (m : nat) (W : nat -> nat -> R) :
  length lam = length p -> nonneg_l p = true -> all_pos lam = true -> (0 <= beta)%Q ->
  length d = length p ->
  (forall y, (y < m)%nat -> rden (dual_feas_data p lam beta (column y d)) <= 1) ->
  (forall x y, 0 <= W x y) -> (forall x, (x < length p)%nat -> rsumf m (W x) = 1) ->
  rden (dual_value_data p lam) <= w_rate p m W + Q2R beta * w_dist p m d W.
Proof. intros Hl Hp Hpos _ Hd Hf HW0 HW1. apply rd_dual_bound_gen; assumption. Qed.

(* ------------------------------------------------------------------------------------------ *)
(* B2. binary erasure channel *)
Definition bec (e : Q) : chan := [[1 - e; e; 0]; [0; e; 1 - e]]%Q.
Definition bec_out (e : Q) : list Q := [(1 - e) / 2; e; (1 - e) / 2]%Q.

Lemma Q2R_half_of q : Q2R (q / 2) = Q2R q / 2.
Proof.
  rewrite Q2R_div by (intros H; discriminate H).
  replace (Q2R 2) with 2 by (unfold Q2R; simpl; lra). reflexivity.
Qed.

Lemma log2_halve a : 0 < a -> log2 (a / 2) = log2 a - 1.
Proof.
  intros Ha. unfold log2, Rdiv. rewrite ln_mult by lra. rewrite ln_Rinv by lra.
  pose proof ln2_pos as H2. field. lra.
Qed.

Lemma bec_letter_div_1 e : (0 < e)%Q -> (e < 1)%Q ->
  rden (letter_div_data [1 - e; e; 0]%Q (bec_out e)) = Q2R (1 - e).
Proof.
  intros H0 H1. unfold letter_div_data, bec_out. cbn [rden].
  unfold kl_list, entropy_list. cbn [xent_list map rsum]. unfold xlogy, plogp.
  replace (Qle_bool 0 0) with true by reflexivity.
  rewrite (Qle_bool_pos_false e H0).
  rewrite (Qle_bool_pos_false (1 - e)) by Lqa.lra.
  assert (Hp : 0 < Q2R (1 - e)) by (rewrite <- Q2R_0; apply Qlt_Rlt; Lqa.lra).
  rewrite Q2R_half_of, (log2_halve _ Hp). ring.
Qed.

Lemma bec_letter_div_2 e : (0 < e)%Q -> (e < 1)%Q ->
  rden (letter_div_data [0; e; 1 - e]%Q (bec_out e)) = Q2R (1 - e).
Proof.
  intros H0 H1. unfold letter_div_data, bec_out. cbn [rden].
  unfold kl_list, entropy_list. cbn [xent_list map rsum]. unfold xlogy, plogp.
  replace (Qle_bool 0 0) with true by reflexivity.
  rewrite (Qle_bool_pos_false e H0).
  rewrite (Qle_bool_pos_false (1 - e)) by Lqa.lra.
  assert (Hp : 0 < Q2R (1 - e)) by (rewrite <- Q2R_0; apply Qlt_Rlt; Lqa.lra).
  rewrite Q2R_half_of, (log2_halve _ Hp). ring.
Qed.

Theorem bec_capacity e r' : (0 < e)%Q -> (e < 1)%Q ->
  length r' = 2%nat -> nonneg_l r' = true -> (qsum r' == 1)%Q ->
  rden (mi_chan_data 3 (bec e) r') <= Q2R (1 - e).
Proof.
  intros H0 H1 Hl Hn Hs.
  assert (Hh : (0 < (1 - e) / 2)%Q) by (apply Qlt_shift_div_l; Lqa.lra).
  assert (T0 : Qle_bool 0 e = true) by (apply Qle_bool_nonneg_true; Lqa.lra).
  assert (T1 : Qle_bool 0 (1 - e) = true) by (apply Qle_bool_nonneg_true; Lqa.lra).
  assert (T2 : Qle_bool 0 ((1 - e) / 2) = true) by (apply Qle_bool_nonneg_true; Lqa.lra).
  assert (F0 : Qle_bool e 0 = false) by (apply Qle_bool_pos_false; Lqa.lra).
  assert (F2 : Qle_bool ((1 - e) / 2) 0 = false) by (apply Qle_bool_pos_false; exact Hh).
  apply (capacity_upper_bound_stochastic 3 (bec e) (bec_out e) r').
  - unfold bec, nonneg_l. cbn [forallb length]. rewrite T0, T1. reflexivity.
  - reflexivity.
  - unfold bec_out, nonneg_l. cbn [forallb]. rewrite T0, T2. reflexivity.
  - unfold all_dominated, bec, bec_out. cbn [forallb dom_b]. rewrite F0, F2.
    rewrite !orb_true_r. reflexivity.
  - exact Hl.
  - exact Hn.
  - intros row [<-|[<-|[]]]; simpl; Lqa.lra.
  - unfold bec_out. simpl. apply Qle_lteq. right. field.
  - exact Hs.
  - intros row [<-|[<-|[]]]; right; [apply bec_letter_div_1| apply bec_letter_div_2]; assumption.
Qed.

(* B4. noiseless channels of size 2 and 3 *)
Lemma log2_1 : log2 1 = 0.
Proof. unfold log2. rewrite ln_1. unfold Rdiv. ring. Qed.

Lemma log2_inv a : 0 < a -> log2 (/ a) = - log2 a.
Proof. intros Ha. unfold log2. rewrite ln_Rinv by exact Ha. unfold Rdiv. ring. Qed.

Lemma Q2R_third : Q2R (1 # 3) = / 3.
Proof. unfold Q2R. simpl. lra. Qed.

Definition noiseless2 : chan := [[1; 0]; [0; 1]]%Q.
Definition noiseless3 : chan := [[1; 0; 0]; [0; 1; 0]; [0; 0; 1]]%Q.

Lemma noiseless2_letter_div row : In row noiseless2 ->
  rden (letter_div_data row [1 # 2; 1 # 2]) = log2 2.
Proof.
  intros [<-|[<-|[]]]; unfold letter_div_data; cbn [rden];
    unfold kl_list, entropy_list; cbn [xent_list map rsum]; unfold xlogy, plogp;
    replace (Qle_bool 0 0) with true by reflexivity;
    replace (Qle_bool 1 0) with false by reflexivity;
    rewrite Q2R_half, Q2R_1, log2_1, (log2_inv 2) by lra; ring.
Qed.

Lemma noiseless3_letter_div row : In row noiseless3 ->
  rden (letter_div_data row [1 # 3; 1 # 3; 1 # 3]) = log2 3.
Proof.
  intros [<-|[<-|[<-|[]]]]; unfold letter_div_data; cbn [rden];
    unfold kl_list, entropy_list; cbn [xent_list map rsum]; unfold xlogy, plogp;
    replace (Qle_bool 0 0) with true by reflexivity;
    replace (Qle_bool 1 0) with false by reflexivity;
    rewrite Q2R_third, Q2R_1, log2_1, (log2_inv 3) by lra; ring.
Qed.

Theorem noiseless2_capacity r' :
  length r' = 2%nat -> nonneg_l r' = true -> (qsum r' == 1)%Q ->
  rden (mi_chan_data 2 noiseless2 r') <= log2 2.
Proof.
  intros Hl Hn Hs.
  apply (capacity_upper_bound_stochastic 2 noiseless2 [1 # 2; 1 # 2]%Q r'); try assumption;
    try reflexivity.
  - intros row [<-|[<-|[]]]; reflexivity.
  - discriminate.
  - intros row Hin. right. apply noiseless2_letter_div, Hin.
Qed.

Theorem noiseless3_capacity r' :
  length r' = 3%nat -> nonneg_l r' = true -> (qsum r' == 1)%Q ->
  rden (mi_chan_data 3 noiseless3 r') <= log2 3.
Proof.
  intros Hl Hn Hs.
  apply (capacity_upper_bound_stochastic 3 noiseless3 [1 # 3; 1 # 3; 1 # 3]%Q r'); try assumption;
    try reflexivity.
  - intros row [<-|[<-|[<-|[]]]]; reflexivity.
  - discriminate.
  - intros row Hin. right. apply noiseless3_letter_div, Hin.
Qed.

(* non-vacuity of the dual bound: uniform binary source, Hamming distortion, beta = 1, lambda = 4/3 *)
Lemma exp_neg_ln2 : exp (-1 * ln 2) = / 2.
Proof. replace (-1 * ln 2) with (- ln 2) by ring. rewrite exp_Ropp, exp_ln by lra. reflexivity. Qed.

Example rd_dual_example (W : nat -> nat -> R) :
  (forall x y, 0 <= W x y) -> (forall x, (x < 2)%nat -> rsumf 2 (W x) = 1) ->
  log2 (4 / 3) <= w_rate [1 # 2; 1 # 2] 2 W + w_dist [1 # 2; 1 # 2] 2 (hamming 2) W.
Proof.
  intros HW0 HW1.
  pose proof (rd_dual_bound [1 # 2; 1 # 2] [4 # 3; 4 # 3] 1 (hamming 2) 2 W) as H.
  assert (E43 : Q2R (4 # 3) = 4 / 3) by (unfold Q2R; simpl; lra).
  assert (Ev : rden (dual_value_data [1 # 2; 1 # 2] [4 # 3; 4 # 3]) = log2 (4 / 3)).
  { unfold dual_value_data. cbn [combine map r_sum rden fst snd]. rewrite Q2R_half, E43. field. }
  rewrite Ev, Q2R_1, Rmult_1_l in H. apply H; try reflexivity; try assumption; [discriminate|].
  intros y Hy. unfold dual_feas_data.
  assert (E23 : Q2R ((1 # 2) * (4 # 3)) = 2 / 3) by (unfold Q2R; simpl; lra).
  destruct y as [|[|y]]; [| |lia].
  - replace (column 0 (hamming 2)) with [0; 1]%Q by reflexivity.
    cbn [combine map r_sum rden fst snd]. unfold bpow, lnb. rewrite !Q2R_Qred, E23.
    replace (Q2R (- (1) * 0)) with 0 by (unfold Q2R; simpl; lra).
    replace (Q2R (- (1) * 1)) with (-1) by (unfold Q2R; simpl; lra).
    rewrite Rmult_0_l, exp_0, exp_neg_ln2. lra.
  - replace (column 1 (hamming 2)) with [1; 0]%Q by reflexivity.
    cbn [combine map r_sum rden fst snd]. unfold bpow, lnb. rewrite !Q2R_Qred, E23.
    replace (Q2R (- (1) * 0)) with 0 by (unfold Q2R; simpl; lra).
    replace (Q2R (- (1) * 1)) with (-1) by (unfold Q2R; simpl; lra).
    rewrite Rmult_0_l, exp_0, exp_neg_ln2. lra.
Qed.


Print Assumptions capacity_upper_bound.
Print Assumptions rd_dual_bound.
Print Assumptions lagrangian_monotone.
Print Assumptions bsc_capacity.
