(* Proofs/C19_Proofs.v — inference from data (C19): windows, word counts, empirical frequencies,
   time-series regrouping, binning label ranges.  Everything here is rational-valued. *)
From Verif Require Import Info.
From Verif Require Import Dist Dist_Proofs C19_Model.
From Coq Require Import Lqa Permutation.
Open Scope Q_scope.

(* ---- 1-3. windows --------------------------------------------------------------------------- *)

Lemma windows_cons L x t :
  windows L (x :: t) = if Nat.leb L (S (length t)) then firstn L (x :: t) :: windows L t else [].
Proof. reflexivity. Qed.

Theorem windows_length L data : (1 <= L)%nat -> length (windows L data) = (length data + 1 - L)%nat.
Proof.
  intros HL. induction data as [|x t IH]; [cbn [windows length]; lia|].
  rewrite windows_cons. destruct (Nat.leb_spec L (S (length t))) as [Hle|Hgt].
  - cbn [length]. rewrite IH. lia.
  - cbn [length]. lia.
Qed.

Theorem windows_each L data w : In w (windows L data) -> length w = L.
Proof.
  induction data as [|x t IH]; [intros []|].
  rewrite windows_cons. destruct (Nat.leb_spec L (S (length t))) as [Hle|Hgt].
  - intros [Hw|Hw]; [|exact (IH Hw)].
    subst w. rewrite firstn_length. cbn [length]. lia.
  - intros [].
Qed.

Theorem windows_nth L data i :
  (i + L <= length data)%nat -> (1 <= L)%nat -> nth i (windows L data) [] = firstn L (skipn i data).
Proof.
  intros Hi HL. revert i Hi.
  induction data as [|x t IH]; intros i Hi; [simpl in Hi; lia|].
  cbn [length] in Hi.
  rewrite windows_cons. destruct (Nat.leb_spec L (S (length t))) as [Hle|Hgt]; [|lia].
  destruct i as [|i]; [reflexivity|].
  cbn [nth skipn]. apply IH. lia.
Qed.

(* ---- helpers on rational sums and tables ---------------------------------------------------- *)

Lemma inject_S n : inject_Z (Z.of_nat (S n)) == inject_Z (Z.of_nat n) + 1.
Proof. rewrite Nat2Z.inj_succ. unfold Z.succ. rewrite inject_Z_plus. reflexivity. Qed.

Lemma qsum_perm l1 l2 : Permutation l1 l2 -> qsum l1 == qsum l2.
Proof.
  induction 1 as [|x l l' HP IH|x y l|l l' l'' HP1 IH1 HP2 IH2]; simpl; Lqa.lra.
Qed.

(* reading a duplicate-free table back along its own keys returns its values *)
Lemma get0_keys_snd (d : pd) : NoDup (keys d) -> map (fun o => get0 o d) (keys d) = map snd d.
Proof.
  unfold keys. induction d as [|[k v] t IH]; intros Hn; [reflexivity|].
  simpl in Hn. inversion Hn as [|? ? Hnotin Hn']; subst.
  simpl. f_equal.
  - unfold get0. simpl. rewrite oeqb_refl. reflexivity.
  - rewrite <- (IH Hn'). apply map_ext_in. intros o Ho. unfold get0. simpl.
    destruct (oeqb_spec k o) as [->|Hne]; [contradiction|reflexivity].
Qed.

(* sorting the keys of a duplicate-free table does not change the total *)
Lemma mass_sorted_table (c : pd) :
  NoDup (keys c) -> mass (map (fun o => (o, get0 o c)) (osort (keys c))) == mass c.
Proof.
  intros Hn. unfold mass. rewrite map_map. cbn [snd].
  rewrite (qsum_perm _ _ (Permutation_map (fun o => get0 o c) (osort_perm (keys c)))).
  rewrite (get0_keys_snd c Hn). reflexivity.
Qed.

Lemma mass_ones {A} (f : A -> outcome) (ws : list A) :
  mass (map (fun w => (f w, 1)) ws) == inject_Z (Z.of_nat (length ws)).
Proof.
  unfold mass. induction ws as [|a t IH]; [reflexivity|].
  cbn [map snd qsum length]. rewrite inject_S, IH. Lqa.lra.
Qed.

Lemma find_key_tab (g : outcome -> Q) l w :
  In w l -> find_key w (map (fun o => (o, g o)) l) = Some (g w).
Proof.
  induction l as [|a t IH]; [intros []|].
  intros Hin. simpl. destruct (oeqb_spec a w) as [->|Hne]; [reflexivity|].
  destruct Hin as [E|Hin]; [contradiction|]. exact (IH Hin).
Qed.

Lemma keys_tab (g : outcome -> Q) l : keys (map (fun o => (o, g o)) l) = l.
Proof. unfold keys. rewrite map_map. cbn [fst]. apply map_id. Qed.

Lemma fibre_count {A} (f : A -> outcome) (ws : list A) w :
  fibre_sum (fun o => o) (map (fun a => (f a, 1)) ws) w
  == inject_Z (Z.of_nat (count_word w (map f ws))).
Proof.
  unfold fibre_sum, count_word. induction ws as [|a t IH]; [reflexivity|].
  cbn [map filter fst]. rewrite (oeqb_sym (f a) w).
  destruct (oeqb w (f a)); [|exact IH].
  cbn [map snd qsum length]. rewrite inject_S, IH. Lqa.lra.
Qed.

(* ---- 4-5. word counts ----------------------------------------------------------------------- *)

Lemma word_counts_keys L data :
  keys (word_counts L data)
  = osort (keys (pushforward (fun o => o) (map (fun w => (flatw w, 1)) (windows L data)))).
Proof. unfold word_counts. apply keys_tab. Qed.

Theorem word_counts_total L data :
  mass (word_counts L data) == inject_Z (Z.of_nat (length (windows L data))).
Proof.
  unfold word_counts.
  rewrite mass_sorted_table by apply pushforward_nodup.
  rewrite pushforward_mass. apply mass_ones.
Qed.

Theorem word_counts_value L data w :
  In w (keys (word_counts L data)) ->
  get0 w (word_counts L data) == inject_Z (Z.of_nat (count_word w (map flatw (windows L data)))).
Proof.
  intros Hin. rewrite word_counts_keys in Hin.
  unfold word_counts. unfold get0 at 1. rewrite (find_key_tab _ _ _ Hin).
  rewrite get0_prob_of by apply pushforward_nodup.
  rewrite pushforward_prob. apply fibre_count.
Qed.

(* ---- 6-8. distribution from data ------------------------------------------------------------ *)

Lemma keys_div t (d : pd) : keys (map (fun kv => (fst kv, snd kv / t)) d) = keys d.
Proof. unfold keys. rewrite map_map. reflexivity. Qed.

Lemma find_key_div t (d : pd) w :
  find_key w (map (fun kv => (fst kv, snd kv / t)) d) = option_map (fun v => v / t) (find_key w d).
Proof.
  induction d as [|[k v] r IH]; [reflexivity|].
  simpl. destruct (oeqb k w); [reflexivity|exact IH].
Qed.

Lemma mass_div t (d : pd) : mass (map (fun kv => (fst kv, snd kv / t)) d) == mass d / t.
Proof.
  unfold mass. induction d as [|[k v] r IH]; simpl.
  - unfold Qdiv. ring.
  - rewrite IH. unfold Qdiv. ring.
Qed.

Lemma dfd_keys_eq L data : keys (dfd L data) = keys (word_counts L data).
Proof. unfold dfd. apply keys_div. Qed.

Theorem dfd_frequency L data w :
  In w (keys (dfd L data)) -> (1 <= length (windows L data))%nat ->
  get0 w (dfd L data)
  == inject_Z (Z.of_nat (count_word w (map flatw (windows L data))))
     / inject_Z (Z.of_nat (length (windows L data))).
Proof.
  intros Hin Hlen. rewrite dfd_keys_eq in Hin.
  pose proof (word_counts_value L data w Hin) as Hv.
  unfold dfd. cbv zeta. unfold get0 at 1. rewrite find_key_div.
  unfold get0 in Hv.
  destruct (find_key w (word_counts L data)) as [v|] eqn:E.
  - cbn [option_map]. rewrite Hv, word_counts_total. reflexivity.
  - apply find_key_None in E. contradiction.
Qed.

Theorem dfd_keys L data w : In w (keys (dfd L data)) <-> In w (map flatw (windows L data)).
Proof.
  rewrite dfd_keys_eq, word_counts_keys, In_osort, pushforward_keys.
  unfold keys. rewrite map_map. cbn [fst]. split.
  - intros [k [Hk ->]]. exact Hk.
  - intros Hw. exists w. split; [exact Hw|reflexivity].
Qed.

Theorem dfd_nodup L data : NoDup (keys (dfd L data)).
Proof.
  rewrite dfd_keys_eq, word_counts_keys. apply NoDup_osort, pushforward_nodup.
Qed.

Theorem dfd_mass L data : (1 <= length (windows L data))%nat -> mass (dfd L data) == 1.
Proof.
  intros Hlen. unfold dfd. cbv zeta. rewrite mass_div.
  assert (Hnz : ~ mass (word_counts L data) == 0).
  { rewrite word_counts_total. unfold Qeq. simpl. lia. }
  unfold Qdiv. apply Qmult_inv_r. exact Hnz.
Qed.

(* ---- 9. time-series regrouping -------------------------------------------------------------- *)

Lemma concat_map_length {A B} (f : A -> list B) (l : list A) (h : nat) :
  (forall a, length (f a) = h) -> length (concat (map f l)) = (length l * h)%nat.
Proof.
  intros Hf. induction l as [|a t IH]; [reflexivity|].
  cbn [map concat length]. rewrite app_length, IH, Hf. lia.
Qed.

Theorem ts_outcome_length k h w :
  length w = S h -> Forall (fun ob => length ob = k) w -> length (ts_outcome k h w) = (k * h + k)%nat.
Proof.
  intros Hw Hall. unfold ts_outcome. rewrite app_length.
  rewrite (concat_map_length _ _ h).
  - unfold range. rewrite seq_length.
    rewrite Forall_forall in Hall.
    assert (Hk : length (nth h w []) = k) by (apply Hall, nth_In; lia).
    f_equal. exact Hk.
  - intros i. rewrite map_length, firstn_length.
    change (Nat.min h (length w) = h). rewrite Hw. lia.
Qed.

(* ---- 10. binning ---------------------------------------------------------------------------- *)

Theorem uniform_label_range bins lo hi x l : uniform_ok bins lo hi x l = true -> (0 <= l < Z.of_nat bins)%Z.
Proof.
  unfold uniform_ok. cbv zeta. intros H.
  apply andb_true_iff in H as [H _]. apply andb_true_iff in H as [H _].
  apply andb_true_iff in H as [H1 H2].
  apply Z.leb_le in H1. apply Z.ltb_lt in H2. lia.
Qed.

Theorem maxent_label_range bins s x l : maxent_ok bins s x l = true -> (0 <= l < Z.of_nat bins)%Z.
Proof.
  unfold maxent_ok. cbv zeta. intros H.
  apply andb_true_iff in H as [H _]. apply andb_true_iff in H as [H _].
  apply andb_true_iff in H as [H1 H2].
  apply Z.leb_le in H1. apply Z.ltb_lt in H2. lia.
Qed.

Lemma forallb_combine_snd {A B} (P : A * B -> bool) (R : B -> Prop) :
  (forall a b, P (a, b) = true -> R b) ->
  forall (xs : list A) (ls : list B),
    length xs = length ls -> forallb P (combine xs ls) = true -> Forall R ls.
Proof.
  intros HPR. induction xs as [|a xs IH]; intros [|b ls] Hlen Hall; try discriminate.
  - constructor.
  - cbn [combine forallb] in Hall. apply andb_true_iff in Hall as [Hab Hrest].
    constructor; [exact (HPR a b Hab)|]. apply IH; [simpl in Hlen; lia|exact Hrest].
Qed.

Theorem binning_all_assigned u bins xs labels :
  binning_check u bins xs labels = true ->
  length labels = length xs /\ Forall (fun l => (0 <= l < Z.of_nat bins)%Z) labels.
Proof.
  unfold binning_check. cbv zeta. intros H.
  apply andb_true_iff in H as [Hlen Hall]. apply Nat.eqb_eq in Hlen.
  split; [symmetry; exact Hlen|].
  revert Hall. apply forallb_combine_snd; [|exact Hlen].
  intros a b Hab. cbn [fst snd] in Hab. destruct u.
  - exact (uniform_label_range _ _ _ _ _ Hab).
  - exact (maxent_label_range _ _ _ _ Hab).
Qed.

(* ---- 11. non-vacuity ------------------------------------------------------------------------ *)

Definition data19 : list obsv := [[0]; [1]; [0]; [1]; [1]]%nat.

Example dfd_example :
  match dfd 2 data19 with
  | [(a, p); (b, q); (c, r)] =>
      oeqb a [0; 1]%nat && Qeq_bool p (1 # 2) &&
      oeqb b [1; 0]%nat && Qeq_bool q (1 # 4) &&
      oeqb c [1; 1]%nat && Qeq_bool r (1 # 4)
  | _ => false
  end = true.
Proof. vm_compute. reflexivity. Qed.

Example dfd_example_windows : length (windows 2 data19) = 4%nat.
Proof. reflexivity. Qed.

Print Assumptions dfd_frequency.
Print Assumptions word_counts_total.
