(* Proofs/C08_Proofs.v — invariance of information values under changes of representation:
   1. order of the stored entries;            2. padding with zero-weight entries;
   3. injective relabelling of the symbols;   4. permutation (or any re-indexing) of the variables;
   5. order of the groups in total correlation / dual total correlation / two-group co-information;
   6. joint reordering of the aligned (p, q) pairs in cross entropy / Kullback-Leibler divergence. *)
From Verif Require Import Info.
From Verif Require Import Measures CMI_Proofs C05_Algebra C05_Nonneg Info_Proofs C06_Model C06_Proofs.
From Coq Require Import Lra Permutation.
Open Scope R_scope.

(* ------------------------------------------------------------------------------------------ *)
(* 0. sums over permuted lists *)

Lemma rsum_map_perm {A} (f : A -> R) l l' : Permutation l l' -> rsum (map f l) = rsum (map f l').
Proof. intros Hp. apply rsum_perm, Permutation_map, Hp. Qed.

(* ------------------------------------------------------------------------------------------ *)
(* 1. order of the stored entries *)

Lemma cellmass_perm S t t' o : Permutation t t' -> cellmass S t o = cellmass S t' o.
Proof. intros Hp. unfold cellmass. apply rsum_map_perm, Hp. Qed.

Theorem Hs_perm S t t' : Permutation t t' -> Hs S t = Hs S t'.
Proof.
  intros Hp. unfold Hs. f_equal.
  rewrite (rsum_map_perm (fun kv => Q2R (snd kv) * log2 (cellmass S t (fst kv))) t t' Hp).
  f_equal. apply map_ext. intros kv. rewrite (cellmass_perm S t t' (fst kv) Hp). reflexivity.
Qed.

(* ------------------------------------------------------------------------------------------ *)
(* 2. zero padding *)

Lemma Q2R_Qeq0 q : (q == 0)%Q -> Q2R q = 0.
Proof. intros Hq. rewrite (Qeq_eqR q 0 Hq). apply RMicromega.Q2R_0. Qed.

Lemma cellmass_app S t t0 o : cellmass S (t ++ t0) o = cellmass S t o + cellmass S t0 o.
Proof. unfold cellmass. rewrite map_app, rsum_app. reflexivity. Qed.

Lemma cellmass_zero S t0 o : Forall (fun kv => (snd kv == 0)%Q) t0 -> cellmass S t0 o = 0.
Proof.
  intros Hz. unfold cellmass. induction Hz as [|kv t0 Hkv Hz IH]; [reflexivity|].
  cbn [map rsum]. rewrite IH, (Q2R_Qeq0 _ Hkv).
  destruct (oeqb (proj S (fst kv)) (proj S o)); lra.
Qed.

Theorem Hs_zero_padding_perm S t t0 :
  Forall (fun kv => (snd kv == 0)%Q) t0 -> Hs S (t ++ t0) = Hs S t.
Proof.
  intros Hz. unfold Hs. f_equal. rewrite map_app, rsum_app.
  assert (H0 : rsum (map (fun kv => Q2R (snd kv) * log2 (cellmass S (t ++ t0) (fst kv))) t0) = 0).
  { clear - Hz. generalize (t ++ t0) as u. intros u.
    induction Hz as [|kv t0 Hkv Hz IH]; [reflexivity|].
    cbn [map rsum]. rewrite IH, (Q2R_Qeq0 _ Hkv). lra. }
  rewrite H0, Rplus_0_r. f_equal. apply map_ext. intros kv.
  rewrite cellmass_app, (cellmass_zero S t0 (fst kv) Hz), Rplus_0_r. reflexivity.
Qed.

Theorem Hs_zero_padding S t o : Hs S (t ++ [(o, 0%Q)]) = Hs S t.
Proof.
  apply Hs_zero_padding_perm. constructor; [simpl; reflexivity| constructor].
Qed.

(* a zero-weight entry anywhere in the table *)
Corollary Hs_zero_padding_mid S t1 t2 o : Hs S (t1 ++ (o, 0%Q) :: t2) = Hs S (t1 ++ t2).
Proof.
  rewrite (Hs_perm S (t1 ++ (o, 0%Q) :: t2) ((t1 ++ t2) ++ [(o, 0%Q)])).
  - apply Hs_zero_padding.
  - rewrite <- app_assoc. apply Permutation_app_head.
    change ((o, 0%Q) :: t2) with ([(o, 0%Q)] ++ t2). apply Permutation_app_comm.
Qed.

(* ------------------------------------------------------------------------------------------ *)
(* a general transport lemma: re-keying the table by f, provided f preserves and reflects the
   partition induced on the stored keys *)

Theorem Hs_mapkeys (f : outcome -> outcome) S S' t :
  (forall o o', In o (map fst t) -> In o' (map fst t) ->
                (proj S (f o) = proj S (f o') <-> proj S' o = proj S' o')) ->
  Hs S (map (fun kv => (f (fst kv), snd kv)) t) = Hs S' t.
Proof.
  intros Hiff. unfold Hs. f_equal. rewrite map_map. f_equal.
  apply map_ext_in. intros kv Hkv. cbn [fst snd]. f_equal. f_equal.
  unfold cellmass. rewrite map_map. f_equal.
  apply map_ext_in. intros kv' Hkv'. cbn [fst snd].
  pose proof (Hiff (fst kv') (fst kv) (in_map fst t kv' Hkv') (in_map fst t kv Hkv)) as Hab.
  destruct (oeqb_spec (proj S (f (fst kv'))) (proj S (f (fst kv)))) as [E1|E1],
           (oeqb_spec (proj S' (fst kv')) (proj S' (fst kv))) as [E2|E2]; try reflexivity.
  - exfalso. apply E2, Hab, E1.
  - exfalso. apply E1, Hab, E2.
Qed.

(* ------------------------------------------------------------------------------------------ *)
(* 3. relabelling of the symbols *)

Definition relabel_o (phi : nat -> nat -> nat) (o : outcome) : outcome :=
  map (fun iv => phi (fst iv) (snd iv)) (combine (seq 0 (length o)) o).
Definition relabel_t phi (t : pd) : pd := map (fun kv => (relabel_o phi (fst kv), snd kv)) t.

Lemma relabel_o_length phi o : length (relabel_o phi o) = length o.
Proof. unfold relabel_o. rewrite map_length, combine_length, seq_length. apply Nat.min_id. Qed.

Lemma relabel_o_nth phi o i : (i < length o)%nat ->
  nth i (relabel_o phi o) 0%nat = phi i (nth i o 0%nat).
Proof.
  intros Hi. unfold relabel_o.
  set (g := fun iv : nat * nat => phi (fst iv) (snd iv)).
  rewrite (nth_indep _ 0%nat (g (0%nat, 0%nat))).
  2:{ rewrite map_length, combine_length, seq_length, Nat.min_id. exact Hi. }
  rewrite (map_nth g), combine_nth by (apply seq_length).
  unfold g. cbn [fst snd]. rewrite seq_nth by exact Hi. reflexivity.
Qed.

Theorem Hs_relabel phi S t n :
  (forall i a b, phi i a = phi i b -> a = b) ->
  (forall o, In o (map fst t) -> length o = n) ->
  Forall (fun i => (i < n)%nat) S ->
  Hs S (relabel_t phi t) = Hs S t.
Proof.
  intros Hinj Hlen HS. unfold relabel_t. apply Hs_mapkeys.
  intros o o' Ho Ho'. rewrite !proj_eq_iff. rewrite Forall_forall in HS.
  split; intros Hp i Hi.
  - apply (Hinj i). rewrite <- !relabel_o_nth.
    + apply Hp, Hi.
    + rewrite (Hlen o' Ho'). apply HS, Hi.
    + rewrite (Hlen o Ho). apply HS, Hi.
  - rewrite !relabel_o_nth.
    + f_equal. apply Hp, Hi.
    + rewrite (Hlen o' Ho'). apply HS, Hi.
    + rewrite (Hlen o Ho). apply HS, Hi.
Qed.

(* ------------------------------------------------------------------------------------------ *)
(* 4. permutation of the variables *)

Definition permute_o (perm : list nat) (o : outcome) : outcome := map (fun j => nth j o 0%nat) perm.

Lemma permute_o_proj perm o : permute_o perm o = proj perm o.
Proof. reflexivity. Qed.

Theorem Hs_permvars perm S t :
  Forall (fun i => (i < length perm)%nat) S ->
  Hs S (map (fun kv => (proj perm (fst kv), snd kv)) t) = Hs (map (fun i => nth i perm 0%nat) S) t.
Proof.
  intros HS. apply Hs_mapkeys. intros o o' _ _.
  rewrite !(proj_proj perm S) by exact HS. tauto.
Qed.

Corollary Hs_permute_o perm S t :
  Forall (fun i => (i < length perm)%nat) S ->
  Hs S (map (fun kv => (permute_o perm (fst kv), snd kv)) t) = Hs (map (fun i => nth i perm 0%nat) S) t.
Proof. apply Hs_permvars. Qed.

(* ------------------------------------------------------------------------------------------ *)
(* 5. symmetry in the groups *)

Lemma nunions_perm gs gs' : Permutation gs gs' -> nunions gs = nunions gs'.
Proof.
  intros Hp. unfold nunions. apply nset_canonical. intros x. rewrite !in_concat.
  split; intros (g & Hg & Hx); exists g; split; try exact Hx.
  - apply (Permutation_in g Hp Hg).
  - apply (Permutation_in g (Permutation_sym Hp) Hg).
Qed.

Theorem total_correlation_perm h n gs gs' cr t t' :
  Permutation gs gs' ->
  total_correlation n gs cr = Some t -> total_correlation n gs' cr = Some t' ->
  heval h t = heval h t'.
Proof.
  intros Hp Ht Ht'.
  rewrite (total_correlation_eval h n gs cr t Ht), (total_correlation_eval h n gs' cr t' Ht').
  rewrite (nunions_perm gs gs' Hp), (rsum_map_perm (fun g => ch h g cr) gs gs' Hp). reflexivity.
Qed.

Theorem dual_total_correlation_perm h n gs gs' cr t t' :
  Permutation gs gs' ->
  dual_total_correlation n gs cr = Some t -> dual_total_correlation n gs' cr = Some t' ->
  heval h t = heval h t'.
Proof.
  intros Hp Ht Ht'.
  rewrite (dual_total_correlation_eval h n gs cr t Ht), (dual_total_correlation_eval h n gs' cr t' Ht').
  rewrite (nunions_perm gs gs' Hp).
  rewrite (rsum_map_perm (fun g => ch h g (nunion (ndiff (nunions gs') g) cr)) gs gs' Hp). reflexivity.
Qed.

Lemma cmi_h_swap h X Y Z : cmi_h h X Y Z = cmi_h h Y X Z.
Proof. unfold cmi_h. rewrite (nunion_comm X Y). ring. Qed.

Theorem coinformation_swap2 h n X Y Z t t' :
  coinformation n [X;Y] Z = Some t -> coinformation n [Y;X] Z = Some t' -> heval h t = heval h t'.
Proof.
  intros Ht Ht'.
  rewrite (coinformation2_eval h n X Y Z t Ht), (coinformation2_eval h n Y X Z t' Ht').
  apply cmi_h_swap.
Qed.

(* ------------------------------------------------------------------------------------------ *)
(* 6. divergences under a joint reordering of the aligned pairs *)

Lemma xent_list_pairs l :
  xent_list (map fst l) (map snd l) = rsum (map (fun pq : Q * Q => - xlogy (fst pq) (snd pq)) l).
Proof. induction l as [|pq l IH]; [reflexivity|]. cbn [map xent_list rsum]. rewrite IH. reflexivity. Qed.

Theorem xent_pairs_perm l l' : Permutation l l' ->
  xent_list (map fst l) (map snd l) = xent_list (map fst l') (map snd l').
Proof. intros Hp. rewrite !xent_list_pairs. apply rsum_map_perm, Hp. Qed.

Theorem kl_pairs_perm l l' : Permutation l l' ->
  kl_list (map fst l) (map snd l) = kl_list (map fst l') (map snd l').
Proof.
  intros Hp. unfold kl_list. rewrite (xent_pairs_perm l l' Hp).
  rewrite (entropy_perm (map fst l) (map fst l') (Permutation_map fst Hp)). reflexivity.
Qed.

Theorem xent_inf_perm (l l' : list (Q * Q)) : Permutation l l' -> xent_inf l = xent_inf l'.
Proof.
  intros Hp. apply eq_true_iff_eq. unfold xent_inf. rewrite !existsb_exists.
  split; intros (pq & Hin & Hpq); exists pq; split; try exact Hpq.
  - apply (Permutation_in pq Hp Hin).
  - apply (Permutation_in pq (Permutation_sym Hp) Hin).
Qed.

(* ------------------------------------------------------------------------------------------ *)
(* 7. non-vacuity *)

Definition ex_phi (i a : nat) : nat := (a + i + 1)%nat.

Example ex_relabel_table :
  relabel_t ex_phi ex_t = [([1;2]%nat, (1#2)%Q); ([1;3]%nat, (1#4)%Q); ([2;3]%nat, (1#4)%Q)].
Proof. reflexivity. Qed.

Example ex_Hs_relabel S : Forall (fun i => (i < 2)%nat) S ->
  Hs S [([1;2]%nat, (1#2)%Q); ([1;3]%nat, (1#4)%Q); ([2;3]%nat, (1#4)%Q)] = Hs S ex_t.
Proof.
  intros HS. rewrite <- ex_relabel_table. apply (Hs_relabel ex_phi S ex_t 2).
  - intros i a b Hab. unfold ex_phi in Hab. lia.
  - intros o Ho. simpl in Ho. destruct Ho as [<-|[<-|[<-|[]]]]; reflexivity.
  - exact HS.
Qed.

Example ex_Hs_relabel_01 :
  Hs [0;1]%nat [([1;2]%nat, (1#2)%Q); ([1;3]%nat, (1#4)%Q); ([2;3]%nat, (1#4)%Q)] = Hs [0;1]%nat ex_t.
Proof. apply ex_Hs_relabel. repeat constructor. Qed.

Example ex_permvars_table :
  map (fun kv => (proj [1;0]%nat (fst kv), snd kv)) ex_t
  = [([0;0]%nat, (1#2)%Q); ([1;0]%nat, (1#4)%Q); ([1;1]%nat, (1#4)%Q)].
Proof. reflexivity. Qed.

(* the first variable of the swapped table is the second variable of the original one *)
Example ex_Hs_permvars :
  Hs [0%nat] [([0;0]%nat, (1#2)%Q); ([1;0]%nat, (1#4)%Q); ([1;1]%nat, (1#4)%Q)] = Hs [1%nat] ex_t.
Proof.
  rewrite <- ex_permvars_table.
  change [1%nat] with (map (fun i => nth i [1;0]%nat 0%nat) [0%nat]).
  apply Hs_permvars. repeat constructor.
Qed.

Example ex_tc_perm h t t' :
  total_correlation 3 [[0];[1];[2]]%nat [] = Some t -> total_correlation 3 [[2];[0];[1]]%nat [] = Some t' ->
  heval h t = heval h t'.
Proof.
  apply total_correlation_perm.
  change [[2]; [0]; [1]]%nat with ([[2]] ++ [[0];[1]])%nat%list.
  change [[0]; [1]; [2]]%nat with ([[0];[1]] ++ [[2]])%nat%list.
  apply Permutation_app_comm.
Qed.

Print Assumptions Hs_perm.
Print Assumptions Hs_zero_padding_perm.
Print Assumptions dual_total_correlation_perm.
Print Assumptions coinformation_swap2.
Print Assumptions kl_pairs_perm.
Print Assumptions xent_inf_perm.
Print Assumptions Hs_relabel.
Print Assumptions Hs_permvars.
Print Assumptions total_correlation_perm.
