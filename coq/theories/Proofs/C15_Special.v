(* Proofs/C15_Special.v — the two special initial parameter vectors of dit's auxiliary-variable optimisers
   (dit/algorithms/optimization.py: construct_constant_initial, construct_copy_initial):
   the constant vector makes every auxiliary variable the constant 0, the copy vector makes an auxiliary
   variable with a single parent a copy of that parent (rows beyond the bound are all zero and become uniform).
   Everything over Q. *)
From Verif Require Import Info.
From Verif Require Import Measures C15_Model Dist_Proofs C15_Proofs.
Open Scope Q_scope.

Definition const_params (rows bound : nat) : list Q := concat (repeat (1 :: repeat 0 (bound - 1)%nat) rows).
Definition eye_row (bound r : nat) : list Q :=
  map (fun a => if Nat.eqb a r then 1 / inject_Z (Z.of_nat bound) else 0) (range bound).
Definition copy_params (rows bound : nat) : list Q := concat (map (eye_row bound) (range rows)).
Definition nrows (pshape : list nat) : nat := fold_right Nat.mul 1%nat pshape.

(* ---------- 1. row extraction from a concatenation of equal-length blocks ------------------------- *)

Lemma skipn_blocks {A} (b k : nat) (rowsl : list (list A)) :
  Forall (fun r => length r = b) rowsl -> skipn (k * b) (concat rowsl) = concat (skipn k rowsl).
Proof.
  revert rowsl. induction k as [|k IH]; intros rowsl H.
  - reflexivity.
  - destruct H as [|r rs Hr Hrs].
    + simpl. apply skipn_nil.
    + cbn [concat]. rewrite skipn_app.
      rewrite skipn_all2 by (rewrite Hr; lia).
      rewrite Hr. replace (S k * b - b)%nat with (k * b)%nat by lia.
      cbn [app skipn]. apply IH, Hrs.
Qed.

Lemma skipn_nth_cons {A} (d : A) (k : nat) (l : list A) :
  (k < length l)%nat -> skipn k l = nth k l d :: skipn (S k) l.
Proof.
  revert l; induction k as [|k IH]; intros [|x l] H; simpl in H; try lia.
  - reflexivity.
  - change (skipn k l = nth k l d :: skipn (S k) l). apply IH. lia.
Qed.

Lemma firstn_app_exact {A} (b : nat) (r l : list A) : length r = b -> firstn b (r ++ l) = r.
Proof.
  intros <-. rewrite firstn_app, Nat.sub_diag, firstn_all. simpl. apply app_nil_r.
Qed.

Theorem chan_row_concat av pshape pidx (rowsl : list (list Q)) :
  a_params av = concat rowsl -> Forall (fun r => length r = a_bound av) rowsl ->
  (flat_index pshape pidx < length rowsl)%nat ->
  chan_row av pshape pidx = nth (flat_index pshape pidx) rowsl [].
Proof.
  intros Hp Hl Hk. unfold chan_row.
  rewrite Hp, (skipn_blocks _ _ _ Hl), (skipn_nth_cons [] _ _ Hk). cbn [concat].
  apply firstn_app_exact. rewrite Forall_forall in Hl. apply Hl, nth_In, Hk.
Qed.

(* a row summing to one is its own normalisation *)
Lemma chan_val_of_row av pshape pidx row a :
  chan_row av pshape pidx = row -> qsum row == 1 -> chan_val av pshape pidx a == nth a row 0.
Proof.
  intros Hr Hs. unfold chan_val. cbv zeta. rewrite Hr.
  destruct (Qeq_bool (qsum row) 0) eqn:E.
  - apply Qeq_bool_eq in E. exfalso. Lqa.lra.
  - rewrite Hs. field.
Qed.

(* ---------- 2. the constant vector ------------------------------------------------------------------ *)

Lemma nth_repeat0 (a n : nat) : nth a (repeat 0 n) 0 = 0.
Proof. revert a; induction n as [|n IH]; intros [|a]; simpl; auto. Qed.

Lemma qsum_repeat0 (n : nat) : qsum (repeat 0 n) == 0.
Proof. induction n as [|n IH]; simpl; [reflexivity| rewrite IH; Lqa.lra]. Qed.

Lemma nth_repeat_lt {A} (x d : A) (k n : nat) : (k < n)%nat -> nth k (repeat x n) d = x.
Proof.
  revert k; induction n as [|n IH]; intros [|k] H; simpl; try lia; auto. apply IH; lia.
Qed.

Theorem const_chan_row av rows pshape pidx :
  a_params av = const_params rows (a_bound av) -> a_bound av <> 0%nat ->
  (flat_index pshape pidx < rows)%nat ->
  chan_row av pshape pidx = 1 :: repeat 0 (a_bound av - 1)%nat.
Proof.
  intros Hp Hb Hk.
  rewrite (chan_row_concat av pshape pidx (repeat (1 :: repeat 0 (a_bound av - 1)%nat) rows)).
  - apply nth_repeat_lt, Hk.
  - exact Hp.
  - apply Forall_forall. intros r Hr. apply repeat_spec in Hr. subst r.
    simpl. rewrite repeat_length. lia.
  - rewrite repeat_length. exact Hk.
Qed.

(* holds for every a: beyond the bound both sides are 0 *)
Theorem const_chan_val av rows pshape pidx a :
  a_params av = const_params rows (a_bound av) -> a_bound av <> 0%nat ->
  (flat_index pshape pidx < rows)%nat ->
  chan_val av pshape pidx a == if Nat.eqb a 0 then 1 else 0.
Proof.
  intros Hp Hb Hk.
  rewrite (chan_val_of_row av pshape pidx _ a (const_chan_row av rows pshape pidx Hp Hb Hk)).
  - destruct a as [|a]; simpl; [reflexivity| rewrite nth_repeat0; reflexivity].
  - simpl. rewrite qsum_repeat0. Lqa.lra.
Qed.

Corollary const_chan_val_beyond av rows pshape pidx a :
  a_params av = const_params rows (a_bound av) -> a_bound av <> 0%nat ->
  (flat_index pshape pidx < rows)%nat -> (a_bound av <= a)%nat ->
  chan_val av pshape pidx a == 0.
Proof.
  intros Hp Hb Hk Ha. rewrite (const_chan_val av rows) by assumption.
  destruct a; [lia| reflexivity].
Qed.

(* the auxiliary variable is the constant 0 *)
Theorem const_extend_zero shape J av rows o :
  a_params av = const_params rows (a_bound av) -> a_bound av <> 0%nat ->
  (flat_index (par_shape shape av) (proj (a_bases av) o) < rows)%nat ->
  prob_of (extend shape J av) (o ++ [0%nat]) == prob_of J o.
Proof.
  intros Hp Hb Hk. rewrite extend_prob.
  destruct (Nat.ltb_spec 0 (a_bound av)); [|lia].
  rewrite (const_chan_val av rows) by assumption. simpl. ring.
Qed.

Theorem const_extend_succ shape J av rows o a :
  a_params av = const_params rows (a_bound av) -> a_bound av <> 0%nat ->
  (flat_index (par_shape shape av) (proj (a_bases av) o) < rows)%nat ->
  prob_of (extend shape J av) (o ++ [S a]) == 0.
Proof.
  intros Hp Hb Hk. rewrite extend_prob.
  destruct (S a <? a_bound av)%nat; [|reflexivity].
  rewrite (const_chan_val av rows) by assumption. simpl. ring.
Qed.

(* ---------- 3. the copy vector ---------------------------------------------------------------------- *)

Lemma nth_map_seq {A} (f : nat -> A) (d : A) (k n : nat) : (k < n)%nat -> nth k (map f (seq 0 n)) d = f k.
Proof.
  intros H. rewrite (nth_indep _ d (f 0%nat)) by (rewrite map_length, seq_length; exact H).
  rewrite map_nth, seq_nth by exact H. reflexivity.
Qed.

Lemma eye_row_length bound r : length (eye_row bound r) = bound.
Proof. unfold eye_row, range. rewrite map_length, seq_length. reflexivity. Qed.

Theorem copy_chan_row av rows pshape pidx :
  a_params av = copy_params rows (a_bound av) ->
  (flat_index pshape pidx < rows)%nat ->
  chan_row av pshape pidx = eye_row (a_bound av) (flat_index pshape pidx).
Proof.
  intros Hp Hk.
  rewrite (chan_row_concat av pshape pidx (map (eye_row (a_bound av)) (range rows))).
  - unfold range. apply nth_map_seq, Hk.
  - exact Hp.
  - apply Forall_forall. intros r Hr. apply in_map_iff in Hr as [x [<- _]]. apply eye_row_length.
  - unfold range. rewrite map_length, seq_length. exact Hk.
Qed.

Lemma qsum_ind_seq (c : Q) (r s n : nat) :
  qsum (map (fun a => if Nat.eqb a r then c else 0) (seq s n)) ==
  if ((s <=? r) && (r <? s + n))%nat then c else 0.
Proof.
  revert s. induction n as [|n IH]; intros s.
  - simpl. destruct (Nat.leb_spec s r); destruct (Nat.ltb_spec r (s + 0)); cbn [andb]; try lia; reflexivity.
  - cbn [seq map qsum]. rewrite IH.
    destruct (Nat.eqb_spec s r); destruct (Nat.leb_spec (S s) r); destruct (Nat.ltb_spec r (S s + n));
      destruct (Nat.leb_spec s r); destruct (Nat.ltb_spec r (s + S n)); cbn [andb]; try lia; Lqa.lra.
Qed.

Lemma qsum_eye_row_lt bound r :
  (r < bound)%nat -> qsum (eye_row bound r) == 1 / inject_Z (Z.of_nat bound).
Proof.
  intros H. unfold eye_row, range. rewrite qsum_ind_seq.
  destruct (Nat.leb_spec 0 r); destruct (Nat.ltb_spec r (0 + bound)); cbn [andb]; try lia; reflexivity.
Qed.

Lemma qsum_eye_row_ge bound r : (bound <= r)%nat -> qsum (eye_row bound r) == 0.
Proof.
  intros H. unfold eye_row, range. rewrite qsum_ind_seq.
  destruct (Nat.leb_spec 0 r); destruct (Nat.ltb_spec r (0 + bound)); cbn [andb]; try lia; reflexivity.
Qed.

Lemma nth_eye_row bound r a :
  nth a (eye_row bound r) 0 =
  if (a <? bound)%nat then (if Nat.eqb a r then 1 / inject_Z (Z.of_nat bound) else 0) else 0.
Proof.
  destruct (Nat.ltb_spec a bound) as [H|H].
  - unfold eye_row, range. rewrite nth_map_seq by exact H. reflexivity.
  - apply nth_overflow. rewrite eye_row_length. exact H.
Qed.

Lemma inv_nat_nonzero (n : nat) : n <> 0%nat -> ~ 1 / inject_Z (Z.of_nat n) == 0.
Proof.
  intros Hn Hc. pose proof (inject_nat_nonzero n Hn) as Hq.
  assert (E : inject_Z (Z.of_nat n) * (1 / inject_Z (Z.of_nat n)) == 1) by (field; exact Hq).
  rewrite Hc in E. Lqa.lra.
Qed.

(* in-range row: the indicator of the row number; holds for every a *)
Theorem copy_chan_val_lt av rows pshape pidx a :
  a_params av = copy_params rows (a_bound av) -> a_bound av <> 0%nat ->
  (flat_index pshape pidx < rows)%nat -> (flat_index pshape pidx < a_bound av)%nat ->
  chan_val av pshape pidx a == if Nat.eqb a (flat_index pshape pidx) then 1 else 0.
Proof.
  intros Hp Hb Hk Hr. unfold chan_val. cbv zeta. rewrite (copy_chan_row av rows pshape pidx Hp Hk).
  pose proof (inv_nat_nonzero _ Hb) as Hc. pose proof (inject_nat_nonzero _ Hb) as Hq.
  destruct (Qeq_bool (qsum (eye_row (a_bound av) (flat_index pshape pidx))) 0) eqn:E.
  - apply Qeq_bool_eq in E. rewrite qsum_eye_row_lt in E by exact Hr. contradiction.
  - rewrite qsum_eye_row_lt by exact Hr. rewrite nth_eye_row.
    destruct (Nat.ltb_spec a (a_bound av)) as [Ha|Ha].
    + destruct (Nat.eqb a (flat_index pshape pidx)); field; exact Hq.
    + destruct (Nat.eqb_spec a (flat_index pshape pidx)); [lia|]. field. exact Hq.
Qed.

(* a row beyond the bound is all zero, hence replaced by the uniform row *)
Theorem copy_chan_val_ge av rows pshape pidx a :
  a_params av = copy_params rows (a_bound av) ->
  (flat_index pshape pidx < rows)%nat -> (a_bound av <= flat_index pshape pidx)%nat ->
  chan_val av pshape pidx a == 1 / inject_Z (Z.of_nat (a_bound av)).
Proof.
  intros Hp Hk Hr. unfold chan_val. cbv zeta. rewrite (copy_chan_row av rows pshape pidx Hp Hk).
  destruct (Qeq_bool (qsum (eye_row (a_bound av) (flat_index pshape pidx))) 0) eqn:E.
  - reflexivity.
  - apply Qeq_bool_neq in E. exfalso. apply E. apply qsum_eye_row_ge, Hr.
Qed.

Lemma flat_index_single (sz v : nat) : flat_index [sz] [v] = v.
Proof. reflexivity. Qed.

(* single parent whose alphabet fits in the bound: the auxiliary variable is a copy of its parent *)
Theorem copy_extend shape J av z sz o a :
  a_params av = copy_params sz (a_bound av) ->
  a_bases av = [z] -> par_shape shape av = [sz] ->
  (nth z o 0 < sz)%nat -> (sz <= a_bound av)%nat -> (a < a_bound av)%nat ->
  prob_of (extend shape J av) (o ++ [a]) == if Nat.eqb a (nth z o 0%nat) then prob_of J o else 0.
Proof.
  intros Hp Hz Hs Hv Hsz Ha. rewrite extend_prob.
  destruct (Nat.ltb_spec a (a_bound av)); [|lia].
  rewrite Hz, Hs. unfold proj. cbn [map].
  rewrite (copy_chan_val_lt av sz [sz] [nth z o 0%nat] a)
    by (try rewrite flat_index_single; try assumption; lia).
  rewrite flat_index_single.
  destruct (Nat.eqb a (nth z o 0%nat)); ring.
Qed.

(* ---------- 4. the flat index of in-range parent indices is a valid row number -------------------------- *)

Lemma flat_fold_lt (pshape pidx : list nat) (acc : nat) :
  Forall2 (fun i s => (i < s)%nat) pidx pshape ->
  (fold_left (fun acc si => (acc * fst si + snd si)%nat) (combine pshape pidx) acc
   < (acc + 1) * nrows pshape)%nat.
Proof.
  intros H. revert acc. induction H as [|i s pidx pshape His H IH]; intros acc.
  - simpl. lia.
  - cbn [combine fold_left fst snd]. specialize (IH (acc * s + i)%nat).
    change (nrows (s :: pshape)) with (s * nrows pshape)%nat.
    eapply Nat.lt_le_trans; [exact IH|].
    rewrite Nat.mul_assoc. apply Nat.mul_le_mono_r. lia.
Qed.

Theorem flat_index_lt (pshape pidx : list nat) :
  length pidx = length pshape -> Forall2 (fun i s => (i < s)%nat) pidx pshape ->
  (flat_index pshape pidx < nrows pshape)%nat.
Proof.
  intros _ H. unfold flat_index. pose proof (flat_fold_lt pshape pidx 0 H) as E.
  simpl in E. rewrite Nat.add_0_r in E. exact E.
Qed.

(* with rows = the number of parent configurations, in-range parents need no side condition on the flat index *)
Corollary const_extend_zero_nrows shape J av o :
  a_params av = const_params (nrows (par_shape shape av)) (a_bound av) -> a_bound av <> 0%nat ->
  Forall2 (fun i s => (i < s)%nat) (proj (a_bases av) o) (par_shape shape av) ->
  prob_of (extend shape J av) (o ++ [0%nat]) == prob_of J o.
Proof.
  intros Hp Hb HF. apply (const_extend_zero shape J av _ o Hp Hb).
  apply flat_index_lt; [|exact HF]. unfold proj, par_shape. rewrite !map_length. reflexivity.
Qed.

Corollary const_extend_succ_nrows shape J av o a :
  a_params av = const_params (nrows (par_shape shape av)) (a_bound av) -> a_bound av <> 0%nat ->
  Forall2 (fun i s => (i < s)%nat) (proj (a_bases av) o) (par_shape shape av) ->
  prob_of (extend shape J av) (o ++ [S a]) == 0.
Proof.
  intros Hp Hb HF. apply (const_extend_succ shape J av _ o a Hp Hb).
  apply flat_index_lt; [|exact HF]. unfold proj, par_shape. rewrite !map_length. reflexivity.
Qed.

(* ---------- 5. non-vacuity ----------------------------------------------------------------------------- *)

Example ex_const_params : const_params 2 3 = [1; 0; 0; 1; 0; 0].
Proof. vm_compute. reflexivity. Qed.

Example ex_copy_params : copy_params 3 2 = [1#2; 0; 0; 1#2; 0; 0].
Proof. vm_compute. reflexivity. Qed.

Definition ex_copy_av : auxvar := mkAux [0%nat] 2 (copy_params 3 2).

(* the third row of the copy vector is all zero: it becomes the uniform row *)
Example ex_copy_third_row : chan_row ex_copy_av [3%nat] [2%nat] = [0; 0].
Proof. vm_compute. reflexivity. Qed.

Example ex_copy_third_row_val :
  map (fun a => chan_val ex_copy_av [3%nat] [2%nat] a) (range 2) = [1#2; 1#2].
Proof. vm_compute. reflexivity. Qed.

Example ex_copy_rows :
  map (fun p => map (fun a => Qred (chan_val ex_copy_av [3%nat] [p] a)) (range 2)) (range 3)
  = [[1; 0]; [0; 1]; [1#2; 1#2]].
Proof. vm_compute. reflexivity. Qed.

Example ex_const_rows :
  map (fun p => map (fun a => Qred (chan_val (mkAux [0%nat] 3 (const_params 2 3)) [2%nat] [p] a)) (range 3)) (range 2)
  = [[1; 0; 0]; [1; 0; 0]].
Proof. vm_compute. reflexivity. Qed.

Example ex_nrows : nrows [2; 3; 4]%nat = 24%nat /\ flat_index [2; 3; 4]%nat [1; 2; 3]%nat = 23%nat.
Proof. vm_compute. split; reflexivity. Qed.

Print Assumptions chan_row_concat.
Print Assumptions const_chan_val.
Print Assumptions const_extend_zero.
Print Assumptions const_extend_succ.
Print Assumptions copy_chan_val_lt.
Print Assumptions copy_chan_val_ge.
Print Assumptions copy_extend.
Print Assumptions flat_index_lt.
Print Assumptions const_extend_zero_nrows.
