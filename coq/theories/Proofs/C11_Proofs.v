(* Proofs/C11_Proofs.v — table operations of the constructors and the scalar algebra (C11):
   pushforward law, insert_rvf, products, mixtures, scalar operators, matmul, uniform tables,
   linearity of the mean.  Stdlib only. *)
From Verif Require Import Info.
From Verif Require Import C11_Model.
From Coq Require Import Lqa Permutation.
Import ListNotations.
Open Scope Q_scope.

(* ------------------------------------------------------------------------------------------ *)
(* 1. key equality *)

Lemma zeqb_eq a b : zeqb a b = true <-> a = b.
Proof.
  revert b; induction a as [|x a IH]; intros [|y b]; simpl; split; intros H;
    try congruence; try discriminate.
  - apply andb_true_iff in H as [H1 H2]. apply Z.eqb_eq in H1. apply IH in H2. congruence.
  - inversion H; subst. rewrite Z.eqb_refl. simpl. apply IH. reflexivity.
Qed.

Lemma zeqb_refl a : zeqb a a = true.
Proof. apply zeqb_eq; reflexivity. Qed.

Lemma zeqb_neq a b : zeqb a b = false <-> a <> b.
Proof.
  split.
  - intros H E. apply zeqb_eq in E. congruence.
  - intros H. destruct (zeqb a b) eqn:E; [apply zeqb_eq in E; contradiction | reflexivity].
Qed.

Lemma zeqb_sym a b : zeqb a b = zeqb b a.
Proof.
  destruct (zeqb a b) eqn:E1, (zeqb b a) eqn:E2; try reflexivity.
  - apply zeqb_eq in E1. subst. rewrite zeqb_refl in E2. discriminate.
  - apply zeqb_eq in E2. subst. rewrite zeqb_refl in E1. discriminate.
Qed.

Lemma zeqb_app k1 k2 o1 o2 :
  length k1 = length o1 -> zeqb (k1 ++ k2) (o1 ++ o2) = zeqb k1 o1 && zeqb k2 o2.
Proof.
  revert o1; induction k1 as [|x k1 IH]; intros [|y o1] HL; simpl in *; try discriminate.
  - reflexivity.
  - rewrite IH by (injection HL; auto). rewrite andb_assoc. reflexivity.
Qed.

Lemma zmem_In o l : zmem o l = true <-> In o l.
Proof.
  unfold zmem. rewrite existsb_exists. split.
  - intros [x [Hin Hx]]. apply zeqb_eq in Hx. subst. exact Hin.
  - intros Hin. exists o. split; [exact Hin | apply zeqb_refl].
Qed.

Lemma zmem_nIn o l : zmem o l = false <-> ~ In o l.
Proof.
  split.
  - intros H Hin. apply zmem_In in Hin. congruence.
  - intros H. destruct (zmem o l) eqn:E; [apply zmem_In in E; contradiction | reflexivity].
Qed.

(* ------------------------------------------------------------------------------------------ *)
(* 0. rational sums *)

Lemma qsum_map_ext {A} (f g : A -> Q) l :
  (forall x, In x l -> f x == g x) -> qsum (map f l) == qsum (map g l).
Proof.
  induction l as [|x l IH]; intros H; simpl; [reflexivity|].
  rewrite (H x (or_introl eq_refl)). rewrite IH; [reflexivity|].
  intros y Hy. apply H. right. exact Hy.
Qed.

Lemma qsum_map_scale_ext {A} (c : Q) (f g : A -> Q) l :
  (forall x, In x l -> f x == c * g x) -> qsum (map f l) == c * qsum (map g l).
Proof.
  induction l as [|x l IH]; intros H; simpl; [ring|].
  rewrite (H x (or_introl eq_refl)). rewrite IH; [ring|].
  intros y Hy. apply H. right. exact Hy.
Qed.

Lemma qsum_map_zero {A} (f : A -> Q) l :
  (forall x, In x l -> f x == 0) -> qsum (map f l) == 0.
Proof.
  intros H. rewrite (qsum_map_scale_ext 0 f f).
  - ring.
  - intros x Hx. rewrite (H x Hx). ring.
Qed.

Lemma qsum_map_add {A} (f g : A -> Q) l :
  qsum (map (fun x => f x + g x) l) == qsum (map f l) + qsum (map g l).
Proof. induction l as [|x l IH]; simpl; [ring | rewrite IH; ring]. Qed.

Lemma qsum_map_lin {A} (c d : Q) (f g : A -> Q) l :
  qsum (map (fun x => f x * c + g x * d) l) == qsum (map f l) * c + qsum (map g l) * d.
Proof. induction l as [|x l IH]; simpl; [ring | rewrite IH; ring]. Qed.

Lemma qsum_swap {A B} (G : A -> B -> Q) la lb :
  qsum (map (fun a => qsum (map (fun b => G a b) lb)) la)
  == qsum (map (fun b => qsum (map (fun a => G a b) la)) lb).
Proof.
  induction la as [|a la IH]; simpl.
  - symmetry. apply qsum_map_zero. intros; reflexivity.
  - rewrite IH.
    pose proof (qsum_map_add (fun b => G a b) (fun b => qsum (map (fun a' => G a' b) la)) lb) as H.
    cbv beta in H. rewrite H. reflexivity.
Qed.

Lemma qsum_const {A} (c : Q) (l : list A) :
  qsum (map (fun _ => c) l) == inject_Z (Z.of_nat (length l)) * c.
Proof.
  induction l as [|x l IH].
  - simpl. ring.
  - simpl length. rewrite Nat2Z.inj_succ. unfold Z.succ. rewrite inject_Z_plus.
    simpl map. simpl qsum. rewrite IH. ring.
Qed.

(* ------------------------------------------------------------------------------------------ *)
(* 2. weighted sums of a table, accumulation, pushforward *)

Definition zwsum (w : zout -> Q) (t : ztab) : Q := qsum (map (fun kv => w (fst kv) * snd kv) t).
Definition zsel (h : zout -> bool) (t : ztab) : Q :=
  qsum (map snd (filter (fun kv => h (fst kv)) t)).
Definition zind (h : zout -> bool) (k : zout) : Q := if h k then 1 else 0.

Lemma zsel_zwsum h t : zsel h t == zwsum (zind h) t.
Proof.
  unfold zsel, zwsum, zind. induction t as [|[k v] t IH]; simpl; [reflexivity|].
  destruct (h k); simpl; rewrite IH; ring.
Qed.

Lemma zget_zsel o t : zget o t = zsel (fun k => zeqb k o) t.
Proof.
  unfold zsel. induction t as [|[k v] t IH]; simpl; [reflexivity|].
  destruct (zeqb k o); simpl; rewrite IH; reflexivity.
Qed.

Lemma zmass_zwsum t : zmass t == zwsum (fun _ => 1) t.
Proof.
  unfold zmass, zwsum. induction t as [|[k v] t IH]; simpl; [reflexivity|]. rewrite IH. ring.
Qed.

Lemma zsel_ext h h' t : (forall k, In k (zkeys t) -> h k = h' k) -> zsel h t = zsel h' t.
Proof.
  unfold zsel. induction t as [|[k v] t IH]; intros H; simpl; [reflexivity|].
  rewrite (H k) by (left; reflexivity).
  destruct (h' k); simpl; rewrite IH; try reflexivity; intros k' Hk'; apply H; right; exact Hk'.
Qed.

Lemma zwsum_zadd w k v acc : zwsum w (zadd k v acc) == zwsum w acc + w k * v.
Proof.
  unfold zwsum. induction acc as [|[k' v'] r IH]; simpl.
  - ring.
  - destruct (zeqb k' k) eqn:E; simpl.
    + apply zeqb_eq in E. subst k'. rewrite (Qred_correct (v' + v)). ring.
    + rewrite IH. ring.
Qed.

Lemma zwsum_fold w f t acc :
  zwsum w (fold_left (fun acc kv => zadd (f (fst kv)) (snd kv) acc) t acc)
  == zwsum w acc + zwsum (fun k => w (f k)) t.
Proof.
  revert acc; induction t as [|[k v] t IH]; intros acc; simpl.
  - unfold zwsum at 3. simpl. ring.
  - rewrite IH. rewrite zwsum_zadd. unfold zwsum. simpl. ring.
Qed.

Lemma zwsum_zpush w f t : zwsum w (zpush f t) == zwsum (fun k => w (f k)) t.
Proof. unfold zpush. rewrite zwsum_fold. unfold zwsum at 1. simpl. ring. Qed.

Lemma zsel_zpush h f t : zsel h (zpush f t) == zsel (fun k => h (f k)) t.
Proof. rewrite !zsel_zwsum. rewrite zwsum_zpush. reflexivity. Qed.

Definition zfibre (f : zout -> zout) (t : ztab) (o : zout) : Q :=
  qsum (map snd (filter (fun kv => zeqb (f (fst kv)) o) t)).

Lemma zfibre_zsel f t o : zfibre f t o = zsel (fun k => zeqb (f k) o) t.
Proof. reflexivity. Qed.

Theorem zpush_get f t o : zget o (zpush f t) == zfibre f t o.
Proof. rewrite zget_zsel, zfibre_zsel. apply zsel_zpush. Qed.

Theorem zpush_mass f t : zmass (zpush f t) == zmass t.
Proof. rewrite !zmass_zwsum. apply zwsum_zpush. Qed.

Corollary modify_law m t o : zget o (modify m t) == zfibre (zlookup m) t o.
Proof. apply zpush_get. Qed.

Corollary modify_mass m t : zmass (modify m t) == zmass t.
Proof. apply zpush_mass. Qed.

(* ------------------------------------------------------------------------------------------ *)
(* 3. insert_rvf *)

Lemma zproj_prefix k x : zproj (seq 0 (length k)) (k ++ x) = k.
Proof.
  unfold zproj. induction k as [|a k IH]; simpl; [reflexivity|].
  f_equal. rewrite <- seq_shift, map_map. simpl. exact IH.
Qed.

Theorem insert_end_marginal_strong n m t o :
  (forall k, In k (zkeys t) -> length k = n) ->
  zget o (zmarginal (seq 0 n) (insert_rvf m None t)) == zget o t.
Proof.
  intros HL. unfold zmarginal, insert_rvf.
  rewrite zpush_get, zfibre_zsel, zsel_zpush, zget_zsel.
  rewrite (zsel_ext _ (fun k => zeqb k o)); [reflexivity|].
  intros k Hk. simpl. rewrite <- (HL k Hk). rewrite zproj_prefix. reflexivity.
Qed.

Theorem insert_end_marginal n m t o :
  (forall k, In k (zkeys t) -> length k = n) -> length o = n ->
  zget o (zmarginal (seq 0 n) (insert_rvf m None t)) == zget o t.
Proof. intros HL _. apply insert_end_marginal_strong. exact HL. Qed.

Theorem insert_mass m idx t : zmass (insert_rvf m idx t) == zmass t.
Proof. apply zpush_mass. Qed.

(* ------------------------------------------------------------------------------------------ *)
(* 4. pairings of two tables: products, matmul, the joint table of scalar_op *)

Definition zpair (K : zout -> zout -> zout) (c : Q -> Q -> Q) (a b : ztab) : ztab :=
  flat_map (fun xa => map (fun yb => (K (fst xa) (fst yb), c (snd xa) (snd yb))) b) a.

Lemma zpair_wsum K c w a b :
  (forall p q, c p q == p * q) ->
  zwsum w (zpair K c a b)
  == qsum (map (fun xa => qsum (map (fun yb => w (K (fst xa) (fst yb)) * (snd xa * snd yb)) b)) a).
Proof.
  intros Hc. unfold zpair, zwsum. induction a as [|xa a IH]; simpl; [reflexivity|].
  rewrite map_app, qsum_app, IH, map_map. simpl.
  rewrite (qsum_map_ext (fun yb => w (K (fst xa) (fst yb)) * c (snd xa) (snd yb))
                        (fun yb => w (K (fst xa) (fst yb)) * (snd xa * snd yb))).
  - reflexivity.
  - intros yb _. rewrite Hc. reflexivity.
Qed.

Lemma zpair_mass K c a b :
  (forall p q, c p q == p * q) -> zmass (zpair K c a b) == zmass a * zmass b.
Proof.
  intros Hc. rewrite zmass_zwsum, (zpair_wsum K c _ a b Hc).
  rewrite (qsum_map_ext _ (fun xa => snd xa * zmass b + 0 * 0)).
  - rewrite (qsum_map_lin (zmass b) 0 snd (fun _ => 0) a).
    unfold zmass. ring.
  - intros xa _.
    rewrite (qsum_map_scale_ext (snd xa) _ snd).
    + unfold zmass. ring.
    + intros yb _. ring.
Qed.

Lemma zget_zwsum o t : zget o t == zwsum (zind (fun k => zeqb k o)) t.
Proof. rewrite zget_zsel. apply zsel_zwsum. Qed.

Lemma zpair_app_get c m r o1 o2 :
  (forall p q, c p q == p * q) ->
  (forall k, In k (zkeys m) -> length k = length o1) ->
  zget (o1 ++ o2) (zpair (@app Z) c m r) == zget o1 m * zget o2 r.
Proof.
  intros Hc HL. rewrite !zget_zwsum. rewrite (zpair_wsum _ c _ m r Hc).
  rewrite (qsum_map_ext _
     (fun xa => (zind (fun k => zeqb k o1) (fst xa) * snd xa) * zwsum (zind (fun k => zeqb k o2)) r
                + 0 * 0)).
  - rewrite (qsum_map_lin (zwsum (zind (fun k => zeqb k o2)) r) 0
                          (fun xa => zind (fun k => zeqb k o1) (fst xa) * snd xa) (fun _ => 0) m).
    fold (zwsum (zind (fun k => zeqb k o1)) m). ring.
  - intros xa Hxa.
    assert (HLx : length (fst xa) = length o1) by (apply HL; unfold zkeys; apply in_map; exact Hxa).
    rewrite (qsum_map_scale_ext (zind (fun k => zeqb k o1) (fst xa) * snd xa) _
               (fun yb => zind (fun k => zeqb k o2) (fst yb) * snd yb)).
    + fold (zwsum (zind (fun k => zeqb k o2)) r). ring.
    + intros yb _. unfold zind. rewrite (zeqb_app _ _ _ _ HLx).
      destruct (zeqb (fst xa) o1), (zeqb (fst yb) o2); simpl; ring.
Qed.

Definition qredmul (p q : Q) : Q := Qred (p * q).
Lemma qredmul_ok p q : qredmul p q == p * q.
Proof. unfold qredmul. apply Qred_correct. Qed.

Lemma zproduct_cons m r : zproduct (m :: r) = zpair (@app Z) qredmul m (zproduct r).
Proof. reflexivity. Qed.

Lemma zproduct1_get m o : zget o (zproduct [m]) == zget o m.
Proof.
  rewrite !zget_zsel. unfold zsel. simpl zproduct.
  induction m as [|[k v] m IH]; simpl; [reflexivity|].
  rewrite app_nil_r. destruct (zeqb k o); simpl; rewrite IH; [|reflexivity].
  rewrite (Qred_correct (v * 1)). ring.
Qed.

Theorem zproduct2_get m1 m2 o1 o2 :
  (forall k, In k (zkeys m1) -> length k = length o1) ->
  zget (o1 ++ o2) (zproduct [m1; m2]) == zget o1 m1 * zget o2 m2.
Proof.
  intros HL. rewrite zproduct_cons. rewrite (zpair_app_get _ _ _ _ _ qredmul_ok HL).
  rewrite zproduct1_get. reflexivity.
Qed.

Theorem zproduct_mass ms : zmass (zproduct ms) == fold_right (fun m acc => zmass m * acc) 1 ms.
Proof.
  induction ms as [|m ms IH].
  - unfold zmass. simpl. ring.
  - rewrite zproduct_cons, (zpair_mass _ _ _ _ qredmul_ok). simpl. rewrite IH. reflexivity.
Qed.

(* ------------------------------------------------------------------------------------------ *)
(* 5. mixtures *)

Definition dd_step (acc : list zout) (k : zout) : list zout := if zmem k acc then acc else acc ++ [k].

Lemma dd_spec l : forall acc, NoDup acc ->
  NoDup (fold_left dd_step l acc) /\ (forall x, In x (fold_left dd_step l acc) <-> In x acc \/ In x l).
Proof.
  induction l as [|k l IH]; intros acc Hnd; simpl.
  - split; [exact Hnd | intros x; tauto].
  - unfold dd_step at 2 4. destruct (zmem k acc) eqn:E.
    + destruct (IH acc Hnd) as [H1 H2]. split; [exact H1|].
      intros x. rewrite H2. apply zmem_In in E. split; [tauto|].
      intros [Ha|[Hk|Hl]]; [tauto| subst; tauto | tauto].
    + apply zmem_nIn in E.
      assert (Hnd' : NoDup (acc ++ [k])).
      { apply (Permutation_NoDup (l := k :: acc)).
        - apply Permutation_cons_append.
        - constructor; assumption. }
      destruct (IH _ Hnd') as [H1 H2]. split; [exact H1|].
      intros x. rewrite H2, in_app_iff. simpl. tauto.
Qed.

Definition mix_keys (ts : list ztab) : list zout := fold_left dd_step (concat (map zkeys ts)) [].

Lemma mixture_unfold ts ws :
  mixture ts ws
  = map (fun k => (k, qsum (map (fun tw => snd tw * zget k (fst tw)) (combine ts ws)))) (mix_keys ts).
Proof. reflexivity. Qed.

Lemma mix_keys_nodup ts : NoDup (mix_keys ts).
Proof. apply (dd_spec _ []). constructor. Qed.

Lemma mix_keys_in ts t k : In t ts -> In k (zkeys t) -> In k (mix_keys ts).
Proof.
  intros Ht Hk. apply (dd_spec _ [] (NoDup_nil _)). right.
  apply in_concat. exists (zkeys t). split; [apply in_map; exact Ht | exact Hk].
Qed.

Lemma zget_notin o t : ~ In o (zkeys t) -> zget o t = 0.
Proof.
  induction t as [|[k v] t IH]; intros H; simpl in *; [reflexivity|].
  destruct (zeqb k o) eqn:E.
  - apply zeqb_eq in E. tauto.
  - apply IH. tauto.
Qed.

Lemma zget_map_notin (F : zout -> Q) ks o : ~ In o ks -> zget o (map (fun k => (k, F k)) ks) = 0.
Proof.
  intros H. apply zget_notin. unfold zkeys. rewrite map_map. simpl. rewrite map_id. exact H.
Qed.

Lemma zget_map_in (F : zout -> Q) ks o :
  NoDup ks -> In o ks -> zget o (map (fun k => (k, F k)) ks) == F o.
Proof.
  induction ks as [|k ks IH]; intros Hnd Hin; simpl in *; [contradiction|].
  inversion Hnd as [|k' ks' Hnk Hnd']; subst.
  destruct (zeqb k o) eqn:E.
  - apply zeqb_eq in E. subst k. rewrite (zget_map_notin F ks o Hnk). ring.
  - apply zeqb_neq in E. destruct Hin as [Hin|Hin]; [contradiction|]. apply IH; assumption.
Qed.

Theorem mixture_get ts ws o :
  zget o (mixture ts ws) == qsum (map (fun tw => snd tw * zget o (fst tw)) (combine ts ws)).
Proof.
  rewrite mixture_unfold. destruct (zmem o (mix_keys ts)) eqn:E.
  - apply zmem_In in E.
    apply (zget_map_in (fun k => qsum (map (fun tw => snd tw * zget k (fst tw)) (combine ts ws)))
             _ _ (mix_keys_nodup ts) E).
  - apply zmem_nIn in E. rewrite zget_map_notin by exact E.
    symmetry. apply qsum_map_zero. intros [t w] Htw. simpl.
    rewrite zget_notin; [ring|].
    intros Hk. apply E. apply (mix_keys_in ts t o); [|exact Hk].
    apply (in_combine_l _ _ _ _ Htw).
Qed.

Lemma qsum_ind_notin (v : Q) k ks :
  ~ In k ks -> qsum (map (fun k' => if zeqb k k' then v else 0) ks) == 0.
Proof.
  intros H. apply qsum_map_zero. intros k' Hk'.
  destruct (zeqb k k') eqn:E; [|reflexivity]. apply zeqb_eq in E. subst. contradiction.
Qed.

Lemma qsum_ind_in (v : Q) k ks :
  NoDup ks -> In k ks -> qsum (map (fun k' => if zeqb k k' then v else 0) ks) == v.
Proof.
  induction ks as [|a ks IH]; intros Hnd Hin; simpl in *; [contradiction|].
  inversion Hnd as [|a' ks' Hna Hnd']; subst.
  destruct (zeqb k a) eqn:E.
  - apply zeqb_eq in E. subst a. rewrite (qsum_ind_notin v k ks Hna). ring.
  - apply zeqb_neq in E. destruct Hin as [Hin|Hin]; [congruence|].
    rewrite (IH Hnd' Hin). ring.
Qed.

Lemma sum_zget_nodup ks t :
  NoDup ks -> (forall k, In k (zkeys t) -> In k ks) -> qsum (map (fun k => zget k t) ks) == zmass t.
Proof.
  intros Hnd. induction t as [|[k v] t IH]; intros Hin.
  - unfold zmass. simpl. apply qsum_map_zero. intros; reflexivity.
  - rewrite (qsum_map_ext _ (fun k' => (if zeqb k k' then v else 0) + zget k' t)).
    + rewrite (qsum_map_add (fun k' => if zeqb k k' then v else 0) (fun k' => zget k' t)).
      rewrite IH by (intros k' Hk'; apply Hin; right; exact Hk').
      rewrite (qsum_ind_in v k ks Hnd) by (apply Hin; left; reflexivity).
      unfold zmass. simpl. reflexivity.
    + intros k' _. simpl. destruct (zeqb k k'); ring.
Qed.

Theorem mixture_mass ts ws :
  zmass (mixture ts ws) == qsum (map (fun tw => snd tw * zmass (fst tw)) (combine ts ws)).
Proof.
  rewrite mixture_unfold. unfold zmass at 1. rewrite map_map. simpl.
  rewrite (qsum_swap (fun k tw => snd tw * zget k (fst tw)) (mix_keys ts) (combine ts ws)).
  apply qsum_map_ext. intros [t w] Htw. simpl.
  rewrite (qsum_map_scale_ext w _ (fun k => zget k t)) by (intros; reflexivity).
  rewrite (sum_zget_nodup _ t (mix_keys_nodup ts)); [reflexivity|].
  intros k Hk. apply (mix_keys_in ts t k); [|exact Hk]. apply (in_combine_l _ _ _ _ Htw).
Qed.

(* ------------------------------------------------------------------------------------------ *)
(* 6. scalar algebra, matmul *)

Definition sop_key (op : sop) (x y : zout) : zout := [apply_sop op (hd 0%Z x) (hd 0%Z y)].

Lemma scalar_op_unfold op a b : scalar_op op a b = zpush (fun k => k) (zpair (sop_key op) Qmult a b).
Proof. reflexivity. Qed.

Lemma flat_map_list_prod {A B C} (g : A -> B -> C) a b :
  flat_map (fun x => map (fun y => g x y) b) a = map (fun xy => g (fst xy) (snd xy)) (list_prod a b).
Proof.
  induction a as [|x a IH]; simpl; [reflexivity|].
  rewrite map_app, map_map, IH. reflexivity.
Qed.

Lemma filter_map_comm {A B} (p : B -> bool) (g : A -> B) l :
  filter p (map g l) = map g (filter (fun x => p (g x)) l).
Proof.
  induction l as [|x l IH]; simpl; [reflexivity|]. destruct (p (g x)); simpl; rewrite IH; reflexivity.
Qed.

Theorem scalar_op_law op a b z :
  zget [z] (scalar_op op a b)
  == qsum (map (fun xy => snd (fst xy) * snd (snd xy))
               (filter (fun xy => Z.eqb (apply_sop op (hd 0%Z (fst (fst xy))) (hd 0%Z (fst (snd xy)))) z)
                       (list_prod a b))).
Proof.
  rewrite scalar_op_unfold, zpush_get. unfold zfibre, zpair.
  rewrite (flat_map_list_prod (fun xa yb => (sop_key op (fst xa) (fst yb), snd xa * snd yb)) a b).
  rewrite filter_map_comm, map_map. simpl.
  rewrite (filter_ext _ (fun xy => Z.eqb (apply_sop op (hd 0%Z (fst (fst xy))) (hd 0%Z (fst (snd xy)))) z)).
  - reflexivity.
  - intros xy. apply andb_true_r.
Qed.

Theorem scalar_op_mass op a b : zmass (scalar_op op a b) == zmass a * zmass b.
Proof.
  rewrite scalar_op_unfold, zpush_mass. apply zpair_mass. intros; reflexivity.
Qed.

Lemma matmul_unfold a b : matmul a b = zpair (@app Z) Qmult a b.
Proof. reflexivity. Qed.

Theorem matmul_get a b x y :
  (forall k, In k (zkeys a) -> length k = length x) ->
  zget (x ++ y) (matmul a b) == zget x a * zget y b.
Proof. intros HL. rewrite matmul_unfold. apply zpair_app_get; [intros; reflexivity | exact HL]. Qed.

Theorem matmul_mass a b : zmass (matmul a b) == zmass a * zmass b.
Proof. rewrite matmul_unfold. apply zpair_mass. intros; reflexivity. Qed.

(* ------------------------------------------------------------------------------------------ *)
(* 7. uniform tables *)

Theorem uniform_on_mass os : os <> [] -> zmass (uniform_on os) == 1.
Proof.
  intros Hne. unfold zmass, uniform_on. rewrite map_map. simpl.
  rewrite (qsum_const (1 / inject_Z (Z.of_nat (length os))) os).
  field. destruct os as [|o os]; [congruence|].
  simpl length. unfold Qeq, inject_Z. simpl. lia.
Qed.

(* ------------------------------------------------------------------------------------------ *)
(* 8. linearity of the mean *)

Definition wv (k : zout) : Q := inject_Z (hd 0%Z k).

Lemma smean_eq t : smean t == zwsum wv t / zmass t.
Proof. unfold smean. rewrite (Qred_correct _). reflexivity. Qed.

Lemma wsum_add_inner x p b :
  qsum (map (fun yb => wv (sop_key OAdd x (fst yb)) * (p * snd yb)) b)
  == (wv x * p) * zmass b + p * zwsum wv b.
Proof.
  unfold zmass, zwsum, wv, sop_key. induction b as [|[k v] b IH]; simpl; [ring|].
  rewrite IH, inject_Z_plus. ring.
Qed.

Lemma wsum_scalar_add a b :
  zwsum wv (scalar_op OAdd a b) == zwsum wv a * zmass b + zmass a * zwsum wv b.
Proof.
  rewrite scalar_op_unfold, zwsum_zpush.
  rewrite (zpair_wsum (sop_key OAdd) Qmult (fun k => wv k) a b) by (intros; reflexivity).
  rewrite (qsum_map_ext _ (fun xa => (wv (fst xa) * snd xa) * zmass b + snd xa * zwsum wv b)).
  - rewrite (qsum_map_lin (zmass b) (zwsum wv b) (fun xa => wv (fst xa) * snd xa) (fun xa => snd xa) a).
    reflexivity.
  - intros xa _. apply wsum_add_inner.
Qed.

Theorem mean_add a b :
  zmass a == 1 -> zmass b == 1 -> smean (scalar_op OAdd a b) == smean a + smean b.
Proof.
  intros Ha Hb. rewrite !smean_eq, scalar_op_mass, wsum_scalar_add, Ha, Hb. field.
Qed.

(* ------------------------------------------------------------------------------------------ *)
(* 9. non-vacuity *)

Definition coin : ztab := [([0%Z], 1 # 2); ([1%Z], 1 # 2)].

Example coin_sum_table :
  tab_eq (scalar_op OAdd coin coin) [([0%Z], 1 # 4); ([1%Z], 1 # 2); ([2%Z], 1 # 4)] = true
  /\ keys_eq (scalar_op OAdd coin coin) [([0%Z], 1 # 4); ([1%Z], 1 # 2); ([2%Z], 1 # 4)] = true.
Proof. split; vm_compute; reflexivity. Qed.

Example coin_sum_exact :
  scalar_op OAdd coin coin = [([0%Z], 1 # 4); ([1%Z], 1 # 2); ([2%Z], 1 # 4)].
Proof. vm_compute. reflexivity. Qed.

Example coin_mean_add : smean (scalar_op OAdd coin coin) = 1 /\ smean coin = 1 # 2.
Proof. split; vm_compute; reflexivity. Qed.

Example giant_bit_3_2 :
  tab_eq (giant_bit 3 2) [([0; 0; 0]%Z, 1 # 2); ([1; 1; 1]%Z, 1 # 2)] = true
  /\ zkeys (giant_bit 3 2) = [[0; 0; 0]; [1; 1; 1]]%Z.
Proof. split; vm_compute; reflexivity. Qed.

Example n_mod_m_3_2_xor :
  tab_eq (n_mod_m 3 2) xor_gate = true
  /\ tab_eq (n_mod_m 3 2)
       [([0; 0; 0]%Z, 1 # 4); ([0; 1; 1]%Z, 1 # 4); ([1; 0; 1]%Z, 1 # 4); ([1; 1; 0]%Z, 1 # 4)] = true
  /\ zkeys (n_mod_m 3 2) = [[0; 0; 0]; [0; 1; 1]; [1; 0; 1]; [1; 1; 0]]%Z.
Proof. repeat split; vm_compute; reflexivity. Qed.

Example mixture_example :
  tab_eq (mixture [coin; [([1%Z], 1)]] [1 # 2; 1 # 2]) [([0%Z], 1 # 4); ([1%Z], 3 # 4)] = true.
Proof. vm_compute. reflexivity. Qed.

Print Assumptions zpush_get.
Print Assumptions scalar_op_law.
Print Assumptions mean_add.
