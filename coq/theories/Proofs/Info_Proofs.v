(* Proofs/Info_Proofs.v — analytic core: Gibbs' inequality and the entropy / KL lemmas over the
   denotations of Core/Info.v.  Stdlib (Reals) only. *)
From Verif Require Import Info.
From Coq Require Import Permutation.
Import ListNotations.
Open Scope R_scope.

(* ------------------------------------------------------------------------------------------ *)
(* 1. Gibbs' inequality over lists of reals (from design_prototypes/gibbs.v) *)

Lemma ln_le_sub1 x : 0 < x -> ln x <= x - 1.
Proof.
  intros Hx.
  destruct (Req_dec x 1) as [->|Hne].
  - rewrite ln_1; lra.
  - assert (H: 1 + ln x < exp (ln x)).
    { apply exp_ineq1. intro E. apply Hne.
      rewrite <- (exp_ln x Hx), E, exp_0; reflexivity. }
    rewrite exp_ln in H by assumption. lra.
Qed.

(* term: p * ln (p / q), with 0 ln 0 = 0 *)
Definition klterm (p q : R) : R := p * (ln p - ln q).

Fixpoint kl (ps qs : list R) : R :=
  match ps, qs with
  | p :: ps', q :: qs' => klterm p q + kl ps' qs'
  | _, _ => 0
  end.

Lemma klterm_ge p q : 0 <= p -> 0 < q \/ p = 0 -> p - q <= klterm p q \/ (p = 0 /\ klterm p q = 0).
Proof.
  intros Hp Hq. unfold klterm.
  destruct (Req_dec p 0) as [->|Hp0].
  - right. split; [reflexivity| ring].
  - left. destruct Hq as [Hq|Hq]; [|contradiction].
    assert (Hpp : 0 < p) by lra.
    assert (Hl := ln_le_sub1 (q / p)).
    assert (Hqp : 0 < q / p) by (apply Rdiv_lt_0_compat; assumption).
    specialize (Hl Hqp).
    unfold Rdiv in Hl. rewrite ln_mult in Hl by (try assumption; apply Rinv_0_lt_compat; assumption).
    rewrite ln_Rinv in Hl by assumption.
    assert (Hm : p * (ln q + - ln p) <= p * (q * / p - 1)) by (apply Rmult_le_compat_l; lra).
    replace (p * (q * / p - 1)) with (q - p) in Hm by (field; lra).
    lra.
Qed.

Inductive dom : list R -> list R -> Prop :=
| dom_nil : dom [] []
| dom_cons p q ps qs : 0 <= p -> 0 <= q -> (0 < q \/ p = 0) -> dom ps qs -> dom (p :: ps) (q :: qs).

Lemma gibbs_aux ps qs : dom ps qs -> rsum ps - rsum qs <= kl ps qs.
Proof.
  induction 1 as [|p q ps qs Hp Hq Hd _ IH]; simpl.
  - lra.
  - destruct (klterm_ge p q Hp Hd) as [H1|[-> H1]]; lra.
Qed.

Theorem gibbs ps qs : dom ps qs -> rsum ps = 1 -> rsum qs <= 1 -> 0 <= kl ps qs.
Proof. intros Hd Hp Hq. pose proof (gibbs_aux ps qs Hd) as Ha. lra. Qed.

(* ------------------------------------------------------------------------------------------ *)
(* Q / R bridges *)

Definition pmf_ok (l : list Q) : Prop := Forall (fun q => (0 <= q)%Q) l /\ (qsum l == 1)%Q.

Lemma Q2R_0 : Q2R 0 = 0.
Proof. exact RMicromega.Q2R_0. Qed.

Lemma Q2R_1 : Q2R 1 = 1.
Proof. exact RMicromega.Q2R_1. Qed.

Lemma Q2R_nonneg q : (0 <= q)%Q -> 0 <= Q2R q.
Proof. intros H. apply Qle_Rle in H. rewrite Q2R_0 in H. exact H. Qed.

Lemma qle0_false_pos q : Qle_bool q 0 = false -> 0 < Q2R q.
Proof.
  intros E. rewrite <- Q2R_0. apply Qlt_Rlt. apply Qnot_le_lt. intros H.
  apply Qle_bool_iff in H. congruence.
Qed.

Lemma qle0_true_zero q : (0 <= q)%Q -> Qle_bool q 0 = true -> Q2R q = 0.
Proof.
  intros H0 E. apply Qle_bool_iff in E. apply Qle_Rle in E. apply Q2R_nonneg in H0.
  rewrite Q2R_0 in E. lra.
Qed.

Lemma rsum_Q2R_nonneg l : Forall (fun q => (0 <= q)%Q) l -> 0 <= rsum (map Q2R l).
Proof.
  intros H. induction H as [|q t Hq Ht IH]; simpl; [lra|].
  apply Q2R_nonneg in Hq. lra.
Qed.

Lemma In_le_rsum l q : Forall (fun q => (0 <= q)%Q) l -> In q l -> Q2R q <= rsum (map Q2R l).
Proof.
  intros H. induction H as [|x t Hx Ht IH]; simpl; intros Hin; [contradiction|].
  apply Q2R_nonneg in Hx. pose proof (rsum_Q2R_nonneg t Ht) as Hs.
  destruct Hin as [->|Hin]; [lra|]. specialize (IH Hin). lra.
Qed.

Lemma pmf_rsum l : pmf_ok l -> rsum (map Q2R l) = 1.
Proof.
  intros [_ Hs]. rewrite <- Q2R_qsum. rewrite (Qeq_eqR _ _ Hs). exact Q2R_1.
Qed.

Lemma pmf_entries l : pmf_ok l -> Forall (fun q => (0 <= q)%Q /\ (q <= 1)%Q) l.
Proof.
  intros Hpmf. pose proof (pmf_rsum l Hpmf) as Hr. destruct Hpmf as [Hn Hs].
  apply Forall_forall. intros q Hin. split.
  - rewrite Forall_forall in Hn. exact (Hn q Hin).
  - apply Rle_Qle. rewrite Q2R_1. rewrite <- Hr. apply In_le_rsum; assumption.
Qed.

(* ------------------------------------------------------------------------------------------ *)
(* 2, 3. sign of plogp and of the entropy *)

Theorem plogp_nonpos q : (0 <= q)%Q -> (q <= 1)%Q -> plogp q <= 0.
Proof.
  intros H0 H1. unfold plogp. destruct (Qle_bool q 0) eqn:E; [lra|].
  pose proof (qle0_false_pos q E) as Hp.
  apply Qle_Rle in H1. rewrite Q2R_1 in H1.
  assert (Hl : ln (Q2R q) <= 0).
  { pose proof (ln_le_sub1 _ Hp) as Hs. lra. }
  pose proof ln2_pos as H2.
  assert (Hi : 0 < / ln 2) by (apply Rinv_0_lt_compat; exact H2).
  unfold log2, Rdiv.
  assert (Hm : ln (Q2R q) * / ln 2 <= 0).
  { replace 0 with (0 * / ln 2) by ring. apply Rmult_le_compat_r; lra. }
  replace 0 with (Q2R q * 0) by ring. apply Rmult_le_compat_l; lra.
Qed.

Theorem entropy_list_nonneg l :
  Forall (fun q => (0 <= q)%Q /\ (q <= 1)%Q) l -> 0 <= entropy_list l.
Proof.
  intros H. unfold entropy_list.
  assert (Hs : rsum (map plogp l) <= 0).
  { induction H as [|q t [Hq0 Hq1] Ht IH]; simpl; [lra|].
    pose proof (plogp_nonpos q Hq0 Hq1) as Hp. lra. }
  lra.
Qed.

Theorem entropy_nonneg_pmf l : pmf_ok l -> 0 <= entropy_list l.
Proof. intros H. apply entropy_list_nonneg, pmf_entries, H. Qed.

(* ------------------------------------------------------------------------------------------ *)
(* 4, 5. zero padding and permutation invariance *)

Lemma plogp_0 : plogp 0%Q = 0.
Proof. unfold plogp. replace (Qle_bool 0 0) with true by reflexivity. reflexivity. Qed.

Theorem entropy_zero_padding l1 l2 : entropy_list (l1 ++ 0%Q :: l2) = entropy_list (l1 ++ l2).
Proof.
  unfold entropy_list. rewrite !map_app, !rsum_app. simpl. rewrite plogp_0. f_equal. lra.
Qed.

Lemma rsum_perm l l' : Permutation l l' -> rsum l = rsum l'.
Proof.
  intros H. induction H as [|x l l' Hp IH|x y l|l l' l'' H1 IH1 H2 IH2]; simpl; lra.
Qed.

Theorem entropy_perm l l' : Permutation l l' -> entropy_list l = entropy_list l'.
Proof.
  intros H. unfold entropy_list. f_equal. apply rsum_perm. apply Permutation_map. exact H.
Qed.

(* ------------------------------------------------------------------------------------------ *)
(* 6. H <= log2 |support| : Gibbs against the uniform distribution on the support *)

Definition unif (c : R) (q : Q) : R := if Qle_bool q 0 then 0 else c.

Lemma support_size_cons q t :
  support_size (q :: t) = if Qle_bool q 0 then support_size t else S (support_size t).
Proof. unfold support_size. simpl. destruct (Qle_bool q 0); reflexivity. Qed.

Lemma rsum_unif c l : rsum (map (unif c) l) = INR (support_size l) * c.
Proof.
  induction l as [|q t IH].
  - unfold support_size. simpl. ring.
  - simpl map. simpl rsum. rewrite IH, support_size_cons. unfold unif at 1.
    destruct (Qle_bool q 0); [ring| rewrite S_INR; ring].
Qed.

Lemma support_zero_sum l :
  Forall (fun q => (0 <= q)%Q) l -> support_size l = 0%nat -> rsum (map Q2R l) = 0.
Proof.
  intros H. induction H as [|q t Hq Ht IH]; intros Hs; simpl; [reflexivity|].
  rewrite support_size_cons in Hs. destruct (Qle_bool q 0) eqn:E; [|discriminate].
  rewrite (qle0_true_zero q Hq E), (IH Hs). ring.
Qed.

Lemma support_pos l : pmf_ok l -> 0 < INR (support_size l).
Proof.
  intros Hpmf. pose proof (pmf_rsum l Hpmf) as Hr. destruct Hpmf as [Hn _].
  destruct (support_size l) as [|n] eqn:E.
  - rewrite (support_zero_sum l Hn E) in Hr. lra.
  - rewrite S_INR. pose proof (pos_INR n) as Hpos. lra.
Qed.

Lemma dom_unif c l :
  0 < c -> Forall (fun q => (0 <= q)%Q) l -> dom (map Q2R l) (map (unif c) l).
Proof.
  intros Hc H. induction H as [|q t Hq Ht IH]; simpl; constructor.
  - apply Q2R_nonneg, Hq.
  - unfold unif. destruct (Qle_bool q 0); lra.
  - unfold unif. destruct (Qle_bool q 0) eqn:E.
    + right. apply qle0_true_zero; assumption.
    + left. exact Hc.
  - exact IH.
Qed.

Lemma klterm_unif k q :
  0 < k -> (0 <= q)%Q ->
  klterm (Q2R q) (unif (/ k) q) = ln 2 * plogp q + ln k * Q2R q.
Proof.
  intros Hk Hq. unfold unif, plogp. destruct (Qle_bool q 0) eqn:E.
  - rewrite (qle0_true_zero q Hq E). unfold klterm. ring.
  - unfold klterm. rewrite ln_Rinv by exact Hk. unfold log2.
    pose proof ln2_pos as H2. field. lra.
Qed.

Lemma kl_unif k l :
  0 < k -> Forall (fun q => (0 <= q)%Q) l ->
  kl (map Q2R l) (map (unif (/ k)) l) = ln 2 * rsum (map plogp l) + ln k * rsum (map Q2R l).
Proof.
  intros Hk H. induction H as [|q t Hq Ht IH]; simpl; [ring|].
  rewrite IH, (klterm_unif k q Hk Hq). ring.
Qed.

Theorem entropy_le_log2_support l : pmf_ok l -> entropy_list l <= log2 (INR (support_size l)).
Proof.
  intros Hpmf. pose proof (support_pos l Hpmf) as Hk. pose proof (pmf_rsum l Hpmf) as Hr.
  destruct Hpmf as [Hn _].
  set (k := INR (support_size l)) in *.
  assert (Hik : 0 < / k) by (apply Rinv_0_lt_compat; exact Hk).
  assert (Hu : rsum (map (unif (/ k)) l) <= 1).
  { rewrite rsum_unif. fold k. right. field. lra. }
  pose proof (gibbs _ _ (dom_unif (/ k) l Hik Hn) Hr Hu) as Hg.
  rewrite (kl_unif k l Hk Hn), Hr in Hg.
  unfold entropy_list. set (S := rsum (map plogp l)) in *.
  pose proof ln2_pos as H2.
  assert (Hi : 0 < / ln 2) by (apply Rinv_0_lt_compat; exact H2).
  unfold log2, Rdiv.
  replace (- S) with ((- (ln 2 * S)) * / ln 2) by (field; lra).
  apply Rmult_le_compat_r; lra.
Qed.

(* ------------------------------------------------------------------------------------------ *)
(* 7. a deterministic distribution has zero entropy *)

Theorem entropy_deterministic l : pmf_ok l -> support_size l = 1%nat -> entropy_list l = 0.
Proof.
  intros Hpmf Hs.
  pose proof (entropy_nonneg_pmf l Hpmf) as H0.
  pose proof (entropy_le_log2_support l Hpmf) as H1.
  rewrite Hs in H1. simpl INR in H1. unfold log2 in H1. rewrite ln_1 in H1.
  unfold Rdiv in H1. rewrite Rmult_0_l in H1. lra.
Qed.

(* ------------------------------------------------------------------------------------------ *)
(* 8. Kullback-Leibler divergence on label-aligned rational lists *)

Definition kl_dom (ps qs : list Q) :=
  length ps = length qs /\ Forall (fun q => (0 <= q)%Q) ps /\ Forall (fun q => (0 <= q)%Q) qs /\
  (forall i, (0 < nth i ps 0)%Q -> (0 < nth i qs 0)%Q).

Lemma klterm_Q p q :
  (0 <= p)%Q -> - xlogy p q + plogp p = klterm (Q2R p) (Q2R q) / ln 2.
Proof.
  intros Hp. unfold xlogy, plogp. destruct (Qle_bool p 0) eqn:E.
  - rewrite (qle0_true_zero p Hp E). unfold klterm, Rdiv. ring.
  - unfold klterm, log2. pose proof ln2_pos as H2. field. lra.
Qed.

Lemma kl_list_eq ps : forall qs,
  length ps = length qs -> Forall (fun q => (0 <= q)%Q) ps ->
  kl_list ps qs = kl (map Q2R ps) (map Q2R qs) / ln 2.
Proof.
  unfold kl_list, entropy_list.
  induction ps as [|p ps IH]; intros [|q qs] Hlen Hn; simpl in *; try discriminate.
  - unfold Rdiv. ring.
  - injection Hlen as Hlen.
    pose proof (Forall_inv Hn) as Hp. pose proof (Forall_inv_tail Hn) as Ht.
    specialize (IH qs Hlen Ht). pose proof (klterm_Q p q Hp) as Hk.
    unfold Rdiv in *. rewrite Rmult_plus_distr_r. lra.
Qed.

Lemma kl_dom_dom ps : forall qs, kl_dom ps qs -> dom (map Q2R ps) (map Q2R qs).
Proof.
  induction ps as [|p ps IH]; intros [|q qs] (Hlen & Hp & Hq & Hpos); simpl in *;
    try discriminate; constructor.
  - apply Q2R_nonneg. exact (Forall_inv Hp).
  - apply Q2R_nonneg. exact (Forall_inv Hq).
  - destruct (Qlt_le_dec 0 p) as [Hlt|Hle].
    + left. rewrite <- Q2R_0. apply Qlt_Rlt. exact (Hpos 0%nat Hlt).
    + right. pose proof (Q2R_nonneg p (Forall_inv Hp)) as H0.
      apply Qle_Rle in Hle. rewrite Q2R_0 in Hle. lra.
  - apply IH. repeat split.
    + injection Hlen as Hlen. exact Hlen.
    + exact (Forall_inv_tail Hp).
    + exact (Forall_inv_tail Hq).
    + intros i Hi. exact (Hpos (S i) Hi).
Qed.

Theorem kl_list_nonneg ps qs :
  kl_dom ps qs -> (qsum ps == 1)%Q -> (qsum qs <= 1)%Q -> 0 <= kl_list ps qs.
Proof.
  intros Hd Hp Hq. pose proof (kl_dom_dom ps qs Hd) as Hdom.
  destruct Hd as (Hlen & Hnp & _ & _).
  rewrite (kl_list_eq ps qs Hlen Hnp).
  assert (Hrp : rsum (map Q2R ps) = 1).
  { rewrite <- Q2R_qsum, (Qeq_eqR _ _ Hp). exact Q2R_1. }
  assert (Hrq : rsum (map Q2R qs) <= 1).
  { rewrite <- Q2R_qsum, <- Q2R_1. apply Qle_Rle. exact Hq. }
  pose proof (gibbs _ _ Hdom Hrp Hrq) as Hg.
  pose proof ln2_pos as H2.
  assert (Hi : 0 < / ln 2) by (apply Rinv_0_lt_compat; exact H2).
  unfold Rdiv. replace 0 with (0 * / ln 2) by ring. apply Rmult_le_compat_r; lra.
Qed.

Lemma xent_list_self ps : xent_list ps ps = entropy_list ps.
Proof.
  unfold entropy_list. induction ps as [|p ps IH]; simpl; [lra|].
  rewrite IH. unfold xlogy, plogp. lra.
Qed.

Theorem kl_list_self ps : Forall (fun q => (0 <= q)%Q) ps -> kl_list ps ps = 0.
Proof. intros _. unfold kl_list. rewrite xent_list_self. lra. Qed.

(* ------------------------------------------------------------------------------------------ *)
(* 9. non-vacuity *)

Example pmf_ok_example : pmf_ok [1#2; 1#4; 1#4; 0%Q].
Proof.
  split.
  - repeat constructor; discriminate.
  - reflexivity.
Qed.

Lemma plogp_half : plogp (1#2) = - (1 / 2).
Proof.
  unfold plogp. replace (Qle_bool (1#2) 0) with false by reflexivity.
  replace (Q2R (1#2)) with (/ 2) by (unfold Q2R; simpl; lra).
  unfold log2. rewrite ln_Rinv by lra. pose proof ln2_pos as H2. field. lra.
Qed.

Example entropy_fair_coin : entropy_list [1#2; 1#2] = 1.
Proof. unfold entropy_list. simpl. rewrite plogp_half. lra. Qed.

Example entropy_example_bounds :
  0 <= entropy_list [1#2; 1#4; 1#4; 0%Q] <= log2 3.
Proof.
  split.
  - apply entropy_nonneg_pmf, pmf_ok_example.
  - pose proof (entropy_le_log2_support _ pmf_ok_example) as H.
    replace (INR (support_size [1#2; 1#4; 1#4; 0%Q])) with 3 in H; [exact H|].
    replace (support_size [1#2; 1#4; 1#4; 0%Q]) with 3%nat by reflexivity. simpl. lra.
Qed.

Print Assumptions gibbs.
Print Assumptions entropy_le_log2_support.
Print Assumptions kl_list_nonneg.
