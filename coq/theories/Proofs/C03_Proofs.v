(* Proofs/C03_Proofs.v — Distribution.condition_on factorises the (reduced, trimmed) joint. *)
From Verif Require Import Dist Dist_Proofs C01_Model C02_Model C02_Proofs C03_Model.
From Coq Require Import Lqa.
Open Scope Q_scope.

(* ---------- the pieces of a cond_result, named ---------------------------------------------- *)

(* the marginal on the kept positions (without its names) *)
Definition cr_rdist (cr : cond_result) : dist := coalesce_flat (cr_idx cr) (cr_joint cr).

(* the row handed to `build` for the stored conditioning entry (c, pc) *)
Definition cr_row (cr : cond_result) (c : outcome) (pc : Q) : pd :=
  map (fun r => (r, get0 (merge (cr_n cr) (cr_cidx cr) (cr_idx cr) c r) (d_tbl (cr_joint cr)) / pc))
      (keys (d_tbl (cr_rdist cr))).

Definition cr_cond (d : dist) (cr : cond_result) (cp : outcome * Q) : dist :=
  mkDist (d_ss (cr_rdist cr))
         (build (d_ss (cr_rdist cr)) (cr_row cr (fst cp) (snd cp)) (d_sparse d) (d_base d))
         (d_sparse d) (d_base d) (select_names (cr_idx cr) (cr_joint cr)).

Lemma condition_on_unfold cs rs d cr :
  condition_on cs rs d = Some cr ->
  d_base (cr_joint cr) = d_base d /\ d_sparse (cr_joint cr) = true /\
  cr_cdist cr = with_names (select_names (cr_cidx cr) (cr_joint cr))
                           (coalesce_flat (cr_cidx cr) (cr_joint cr)) /\
  cr_conds cr = map (cr_cond d cr) (d_tbl (cr_cdist cr)).
Proof.
  unfold condition_on.
  destruct (parse_rvs d cs true true) as [cidx|]; [| discriminate].
  destruct (match rs with
            | None => Some (filter (fun i => negb (nat_mem i cidx)) (range (d_nvars d)))
            | Some s => parse_rvs d s true true end) as [idx|]; [| discriminate].
  destruct (existsb (fun i => nat_mem i cidx) idx); [discriminate|].
  intros H. inversion H; subst; clear H. cbn [cr_joint cr_cdist cr_conds cr_cidx cr_idx cr_n].
  split; [| split; [| split]].
  - destruct (Nat.ltb (length (nsort (cidx ++ idx))) (d_nvars d)); reflexivity.
  - reflexivity.
  - reflexivity.
  - reflexivity.
Qed.

(* ---------- small table lemmas -------------------------------------------------------------- *)

Lemma find_key_map_keyed (g : outcome -> Q) (l : list outcome) o :
  find_key o (map (fun r => (r, g r)) l) = if omem o l then Some (g o) else None.
Proof.
  induction l as [|a l IH]; simpl; [reflexivity|].
  rewrite (oeqb_sym o a). destruct (oeqb_spec a o) as [->|Hne]; simpl; [reflexivity| exact IH].
Qed.

Lemma get0_cr_row_in cr c pc r :
  In r (keys (d_tbl (cr_rdist cr))) ->
  get0 r (cr_row cr c pc)
  = get0 (merge (cr_n cr) (cr_cidx cr) (cr_idx cr) c r) (d_tbl (cr_joint cr)) / pc.
Proof.
  intros Hin. unfold get0 at 1, cr_row. rewrite find_key_map_keyed.
  apply omem_In in Hin. rewrite Hin. reflexivity.
Qed.

Lemma get0_cr_row_notin cr c pc r :
  ~ In r (keys (d_tbl (cr_rdist cr))) -> get0 r (cr_row cr c pc) = 0.
Proof.
  intros Hn. unfold get0, cr_row. rewrite find_key_map_keyed.
  destruct (omem r (keys (d_tbl (cr_rdist cr)))) eqn:E; [| reflexivity].
  apply omem_In in E. contradiction.
Qed.

Lemma find_key_cr_row cr c pc r v :
  find_key r (cr_row cr c pc) = Some v ->
  In r (keys (d_tbl (cr_rdist cr))) /\
  v = get0 (merge (cr_n cr) (cr_cidx cr) (cr_idx cr) c r) (d_tbl (cr_joint cr)) / pc.
Proof.
  unfold cr_row. rewrite find_key_map_keyed.
  destruct (omem r (keys (d_tbl (cr_rdist cr)))) eqn:E; [| discriminate].
  intros H. inversion H. split; [apply omem_In, E| reflexivity].
Qed.

Lemma in_combine_map {A B} (f : A -> B) (l : list A) x y :
  In (x, y) (combine l (map f l)) -> In x l /\ y = f x.
Proof.
  induction l as [|a l IH]; simpl; [intros []|].
  intros [E|H]; [inversion E; subst; auto| destruct (IH H); auto].
Qed.

Lemma In_build ss t sparse b r v :
  In (r, v) (build ss t sparse b) ->
  (sparse = true /\ find_key r t = Some v) \/
  (sparse = false /\ v = get0 r t /\ In r (ss_enum ss)).
Proof.
  unfold build. destruct sparse; intros H.
  - left. split; [reflexivity|].
    unfold trim in H. apply filter_In in H as [H _].
    unfold reorder in H. apply in_flat_map in H as [o [_ H]].
    destruct (find_key o t) as [w|] eqn:E; [| destruct H].
    destruct H as [H|[]]. inversion H; subst. exact E.
  - right. split; [reflexivity|].
    unfold dense_of in H. apply in_map_iff in H as [o [E Ho]].
    inversion E; subst. auto.
Qed.

Lemma is_null_zero b x : x == 0 -> is_null b x = true.
Proof. intros E. rewrite (is_null_compat b x 0 E). destruct b; reflexivity. Qed.

(* ---------- 1. rejections and shape --------------------------------------------------------- *)

Theorem cond_overlap_rejected cs s d cidx idx :
  parse_rvs d cs true true = Some cidx -> parse_rvs d s true true = Some idx ->
  existsb (fun i => nat_mem i cidx) idx = true -> condition_on cs (Some s) d = None.
Proof. intros H1 H2 H3. unfold condition_on. rewrite H1, H2, H3. reflexivity. Qed.

Theorem cond_bad_selection_rejected cs rs d :
  parse_rvs d cs true true = None -> condition_on cs rs d = None.
Proof. intros H. unfold condition_on. rewrite H. reflexivity. Qed.

(* (extra) a kept selection that does not parse is rejected too *)
Theorem cond_bad_kept_selection_rejected cs s d :
  parse_rvs d s true true = None -> condition_on cs (Some s) d = None.
Proof.
  intros H. unfold condition_on. destruct (parse_rvs d cs true true); [| reflexivity].
  rewrite H. reflexivity.
Qed.

Theorem cond_one_row_per_stored_value cs rs d cr :
  condition_on cs rs d = Some cr -> length (cr_conds cr) = length (d_tbl (cr_cdist cr)).
Proof.
  intros H. destruct (condition_on_unfold _ _ _ _ H) as (_ & _ & _ & Hcs).
  rewrite Hcs. apply map_length.
Qed.

(* ---------- 2. meta data of the conditionals ------------------------------------------------- *)

Theorem cond_rows_meta cs rs d cr c :
  condition_on cs rs d = Some cr -> In c (cr_conds cr) ->
  d_base c = d_base d /\ d_sparse c = d_sparse d.
Proof.
  intros H Hin. destruct (condition_on_unfold _ _ _ _ H) as (_ & _ & _ & Hcs).
  rewrite Hcs in Hin. apply in_map_iff in Hin as [cp [<- _]]. split; reflexivity.
Qed.

(* (extra) every stored conditioning value is non-null, in particular non-zero: the reduced joint
   is sparse, so its marginal has been trimmed *)
Theorem cond_cdist_nonnull cs rs d cr c pc :
  condition_on cs rs d = Some cr -> In (c, pc) (d_tbl (cr_cdist cr)) ->
  is_null (d_base d) pc = false /\ ~ pc == 0.
Proof.
  intros H Hin. destruct (condition_on_unfold _ _ _ _ H) as (Hb & Hs & Hcd & _).
  rewrite Hcd in Hin. unfold with_names, coalesce_flat in Hin.
  cbn [d_tbl d_ss d_sparse d_base] in Hin. rewrite Hs, Hb in Hin.
  unfold build, trim in Hin. apply filter_In in Hin as [_ Hn]. cbn [snd] in Hn.
  apply negb_true_iff in Hn. split; [exact Hn|].
  intros E. rewrite (is_null_zero _ _ E) in Hn. discriminate.
Qed.

(* ---------- 3. chain rule -------------------------------------------------------------------- *)

Lemma cond_nth cs rs d cr k c pc cd :
  condition_on cs rs d = Some cr ->
  nth_error (d_tbl (cr_cdist cr)) k = Some (c, pc) -> nth_error (cr_conds cr) k = Some cd ->
  cd = cr_cond d cr (c, pc).
Proof.
  intros H Hk Hc. destruct (condition_on_unfold _ _ _ _ H) as (_ & _ & _ & Hcs).
  rewrite Hcs in Hc. rewrite (map_nth_error (cr_cond d cr) _ _ Hk) in Hc.
  inversion Hc. reflexivity.
Qed.

Theorem cond_chain cs rs d cr k c pc cd r v :
  condition_on cs rs d = Some cr ->
  nth_error (d_tbl (cr_cdist cr)) k = Some (c, pc) -> nth_error (cr_conds cr) k = Some cd ->
  NoDup (ss_enum (d_ss cd)) ->
  lookup cd r = Some v ->
  In r (keys (d_tbl (coalesce_flat (cr_idx cr) (cr_joint cr)))) ->
  ~ pc == 0 ->
  pc * v == get0 (merge (cr_n cr) (cr_cidx cr) (cr_idx cr) c r) (d_tbl (cr_joint cr)) \/
  (d_sparse d = true /\ v == 0 /\
   is_null (d_base d) (get0 (merge (cr_n cr) (cr_cidx cr) (cr_idx cr) c r) (d_tbl (cr_joint cr)) / pc) = true).
Proof.
  intros H Hk Hc Hnd Hl Hin Hpc.
  pose proof (cond_nth _ _ _ _ _ _ _ _ H Hk Hc) as Ecd. subst cd.
  unfold lookup, cr_cond in Hl, Hnd. cbn [d_ss d_tbl fst snd] in Hl, Hnd.
  destruct (ss_mem (d_ss (cr_rdist cr)) r) eqn:Em; [| discriminate].
  assert (Hv: get0 r (build (d_ss (cr_rdist cr)) (cr_row cr c pc) (d_sparse d) (d_base d)) = v) by (injection Hl as Hv; exact Hv). clear Hl. subst v.
  assert (Hmem: omem r (ss_enum (d_ss (cr_rdist cr))) = true) by (apply omem_In, ss_mem_In, Em).
  pose proof (get0_cr_row_in cr c pc r Hin) as Hrow.
  destruct (get0_build (d_ss (cr_rdist cr)) (cr_row cr c pc) (d_sparse d) (d_base d) r Hnd Hmem)
    as [E|(E1 & E2 & E3)].
  - left. rewrite E, Hrow. field. exact Hpc.
  - right. split; [exact E1|]. split.
    + rewrite E3. reflexivity.
    + rewrite <- Hrow. exact E2.
Qed.

(* the same without the side condition on pc, which cond_cdist_nonnull discharges *)
Corollary cond_chain' cs rs d cr k c pc cd r v :
  condition_on cs rs d = Some cr ->
  nth_error (d_tbl (cr_cdist cr)) k = Some (c, pc) -> nth_error (cr_conds cr) k = Some cd ->
  NoDup (ss_enum (d_ss cd)) ->
  lookup cd r = Some v ->
  In r (keys (d_tbl (coalesce_flat (cr_idx cr) (cr_joint cr)))) ->
  pc * v == get0 (merge (cr_n cr) (cr_cidx cr) (cr_idx cr) c r) (d_tbl (cr_joint cr)) \/
  (d_sparse d = true /\ v == 0 /\
   is_null (d_base d) (get0 (merge (cr_n cr) (cr_cidx cr) (cr_idx cr) c r) (d_tbl (cr_joint cr)) / pc) = true).
Proof.
  intros H Hk Hc Hnd Hl Hin.
  apply (cond_chain cs rs d cr k c pc cd r v H Hk Hc Hnd Hl Hin).
  apply (cond_cdist_nonnull cs rs d cr c pc H). apply (nth_error_In _ _ Hk).
Qed.

(* ---------- 4. outcomes of the kept marginal that are not stored read as 0 --------------------- *)

Theorem cond_unstored_zero cs rs d cr k c pc cd r v :
  condition_on cs rs d = Some cr ->
  nth_error (d_tbl (cr_cdist cr)) k = Some (c, pc) -> nth_error (cr_conds cr) k = Some cd ->
  NoDup (ss_enum (d_ss cd)) ->
  lookup cd r = Some v ->
  ~ In r (keys (d_tbl (coalesce_flat (cr_idx cr) (cr_joint cr)))) ->
  ss_mem (d_ss cd) r = true ->
  v == 0.
Proof.
  intros H Hk Hc Hnd Hl Hnin Em.
  pose proof (cond_nth _ _ _ _ _ _ _ _ H Hk Hc) as Ecd. subst cd.
  unfold lookup, cr_cond in Hl, Hnd, Em. cbn [d_ss d_tbl fst snd] in Hl, Hnd, Em.
  rewrite Em in Hl. assert (Hv: get0 r (build (d_ss (cr_rdist cr)) (cr_row cr c pc) (d_sparse d) (d_base d)) = v) by (injection Hl as Hv; exact Hv). clear Hl. subst v.
  assert (Hmem: omem r (ss_enum (d_ss (cr_rdist cr))) = true) by (apply omem_In, ss_mem_In, Em).
  pose proof (get0_cr_row_notin cr c pc r Hnin) as Hrow.
  destruct (get0_build (d_ss (cr_rdist cr)) (cr_row cr c pc) (d_sparse d) (d_base d) r Hnd Hmem)
    as [E|(_ & _ & E3)].
  - rewrite E, Hrow. reflexivity.
  - rewrite E3. reflexivity.
Qed.

(* ---------- 5. recombination at table level ---------------------------------------------------- *)

Definition jff_pairs (cr : cond_result) : pd :=
  flat_map (fun cd => map (fun rp => (merge (cr_n cr) (cr_cidx cr) (cr_idx cr) (fst (fst cd)) (fst rp),
                                      snd (fst cd) * snd rp)) (d_tbl (snd cd)))
           (combine (d_tbl (cr_cdist cr)) (cr_conds cr)).

(* jff_pairs is literally the `pairs` of jff *)
Lemma jff_uses_jff_pairs cr :
  jff cr =
  match construct (mkSpec true (map fst (jff_pairs cr)) (map snd (jff_pairs cr)) SSNone BNone true true false) with
  | Ok j => Ok (with_names (match cr_conds cr with
                            | [] => None
                            | c0 :: _ => merge_names (cr_n cr) (cr_cidx cr) (cr_idx cr) (d_names (cr_cdist cr)) (d_names c0)
                            end) j)
  | OkOrErr j e => OkOrErr (with_names (match cr_conds cr with
                            | [] => None
                            | c0 :: _ => merge_names (cr_n cr) (cr_cidx cr) (cr_idx cr) (d_names (cr_cdist cr)) (d_names c0)
                            end) j) e
  | Err e => Err e
  end.
Proof. reflexivity. Qed.

(* Every pair (o, p) of jff_pairs comes from a stored conditioning entry (c, pc) and a stored entry
   (r, v) of its conditional, with o = merge c r and p = pc * v, and
   - if the source is sparse, or r is a stored outcome of the kept marginal, p is exactly the value
     of the reduced joint at o;
   - otherwise (dense source, r completed by `build`) p is 0. *)
Theorem jff_pairs_chain cs rs d cr o p :
  condition_on cs rs d = Some cr -> In (o, p) (jff_pairs cr) ->
  exists c pc cd r v,
    In (c, pc) (d_tbl (cr_cdist cr)) /\ In cd (cr_conds cr) /\ In (r, v) (d_tbl cd) /\
    o = merge (cr_n cr) (cr_cidx cr) (cr_idx cr) c r /\ p = pc * v /\
    (d_sparse d = true \/ In r (keys (d_tbl (coalesce_flat (cr_idx cr) (cr_joint cr)))) ->
     p == get0 o (d_tbl (cr_joint cr))) /\
    (~ In r (keys (d_tbl (coalesce_flat (cr_idx cr) (cr_joint cr)))) -> p == 0).
Proof.
  intros H Hin.
  destruct (condition_on_unfold _ _ _ _ H) as (_ & _ & _ & Hcs).
  unfold jff_pairs in Hin. apply in_flat_map in Hin as [[[c pc] cd] [Hcomb Hin]].
  cbn [fst snd] in Hin. apply in_map_iff in Hin as [[r v] [E Hrv]]. cbn [fst snd] in E.
  inversion E; subst o p; clear E.
  pose proof (in_combine_r _ _ _ _ Hcomb) as Hcdin.
  rewrite Hcs in Hcomb. apply in_combine_map in Hcomb as [Hc Ecd].
  assert (Hpc: ~ pc == 0) by (apply (cond_cdist_nonnull cs rs d cr c pc H Hc)).
  exists c, pc, cd, r, v. repeat (split; [first [exact Hc | exact Hcdin | exact Hrv | reflexivity]|]).
  subst cd. unfold cr_cond in Hrv. cbn [d_tbl fst snd] in Hrv.
  apply In_build in Hrv as [[Hsp Hf]|[Hsp [Hv Hss]]].
  - apply find_key_cr_row in Hf as [Hr Hv]. split.
    + intros _. rewrite Hv. field. exact Hpc.
    + intros Hn. contradiction.
  - split.
    + intros [Hsp'|Hr]; [congruence|].
      rewrite Hv. rewrite (get0_cr_row_in cr c pc r Hr). field. exact Hpc.
    + intros Hn. rewrite Hv. rewrite (get0_cr_row_notin cr c pc r Hn). ring.
Qed.

(* ---------- 6. non-vacuity --------------------------------------------------------------------- *)

Fixpoint pd_eqb (a b : pd) : bool :=
  match a, b with
  | [], [] => true
  | (k, v) :: a', (k', v') :: b' => oeqb k k' && Qeq_bool v v' && pd_eqb a' b'
  | _, _ => false
  end.

Definition ex3_d : dist :=
  mkDist (Cart [[0;1];[0;1]]%nat) [([0;0]%nat,1#4);([0;1]%nat,1#4);([1;0]%nat,1#2)] true Linear (Some [7;8]%nat).

Example ex3_condition_on :
  match condition_on (ByName [8]%nat) None ex3_d with
  | Some cr =>
      pd_eqb (d_tbl (cr_cdist cr)) [([0]%nat, 3#4); ([1]%nat, 1#4)]
      && match cr_conds cr with
         | [c0; c1] => pd_eqb (d_tbl c0) [([0]%nat, 1#3); ([1]%nat, 2#3)]
                       && pd_eqb (d_tbl c1) [([0]%nat, 1#1)]
                       && onames_eqb (d_names c0) (Some [7]%nat)
                       && onames_eqb (d_names c1) (Some [7]%nat)
         | _ => false
         end
      && onames_eqb (d_names (cr_cdist cr)) (Some [8]%nat)
      && Nat.eqb (cr_n cr) 2 && oeqb (cr_cidx cr) [1]%nat && oeqb (cr_idx cr) [0]%nat
      && pd_eqb (d_tbl (cr_joint cr)) (d_tbl ex3_d)
  | None => false
  end = true.
Proof. vm_compute. reflexivity. Qed.

(* the hypotheses of cond_chain are satisfiable on this example, and its conclusion is the
   expected product 3/4 * 2/3 = 1/2 = joint(1, 0) *)
Example ex3_chain_instance :
  exists cr pc cd v,
    condition_on (ByName [8]%nat) None ex3_d = Some cr /\
    nth_error (d_tbl (cr_cdist cr)) 0 = Some ([0]%nat, pc) /\ pc == 3#4 /\
    nth_error (cr_conds cr) 0 = Some cd /\
    NoDup (ss_enum (d_ss cd)) /\
    lookup cd [1]%nat = Some v /\
    In [1]%nat (keys (d_tbl (coalesce_flat (cr_idx cr) (cr_joint cr)))) /\
    pc * v == 1#2 /\
    get0 (merge (cr_n cr) (cr_cidx cr) (cr_idx cr) [0]%nat [1]%nat) (d_tbl (cr_joint cr)) == 1#2.
Proof.
  destruct (condition_on (ByName [8]%nat) None ex3_d) as [cr|] eqn:E; [| vm_compute in E; discriminate].
  vm_compute in E. inversion E; subst cr; clear E.
  eexists. eexists. eexists. eexists.
  split; [reflexivity|]. split; [vm_compute; reflexivity|]. split; [vm_compute; reflexivity|].
  split; [vm_compute; reflexivity|].
  split; [vm_compute; repeat constructor; simpl; intuition discriminate|].
  split; [vm_compute; reflexivity|].
  split; [vm_compute; auto|].
  split; vm_compute; reflexivity.
Qed.

Print Assumptions cond_chain.
Print Assumptions cond_chain'.
Print Assumptions cond_unstored_zero.
Print Assumptions jff_pairs_chain.
Print Assumptions cond_cdist_nonnull.
