(* Proofs/Entropy_Bridge.v — the entropy of a marginal's pmf (what the model hands to `interval`)
   equals the joint-table entropy Hs of CMI_Proofs (what the inequalities are proved about).

   Part 1 (tables):  entropy_list (map snd (pushforward (proj S) t)) = Hs S t.
   Part 2 (distributions): for a clean sparse linear distribution the stored pmf of the coalesced
   distribution is a permutation of the pushforward's values, hence
   entropy_list (mpmf d S) = Hs S (d_tbl d)  and  hvalue d tm = heval (fun S => Hs S (d_tbl d)) tm. *)
From Verif Require Import Info.
From Verif Require Import Dist Dist_Proofs C02_Model C02_Proofs Measures Info_Proofs CMI_Proofs.
From Coq Require Import Lra Permutation.
Open Scope R_scope.

(* ------------------------------------------------------------------------------------------ *)
(* Part 1 — table level *)

(* weighted sum of g over the keys of a table *)
Definition wsum (g : outcome -> R) (t : pd) : R :=
  rsum (map (fun kv => Q2R (snd kv) * g (fst kv)) t).

Lemma wsum_add_to g k v acc : wsum g (add_to k v acc) = wsum g acc + Q2R v * g k.
Proof.
  unfold wsum. induction acc as [|[k' v'] r IH]; simpl.
  - ring.
  - destruct (oeqb_spec k' k) as [->|Hne]; simpl.
    + rewrite Q2R_plus. ring.
    + rewrite IH. ring.
Qed.

Lemma regroup_gen f g t : forall acc,
  wsum g (fold_left (fun acc x => add_to (f (fst x)) (snd x) acc) t acc)
  = wsum g acc + wsum (fun o => g (f o)) t.
Proof.
  induction t as [|[k v] r IH]; intros acc; simpl.
  - unfold wsum; simpl; ring.
  - rewrite IH, wsum_add_to. unfold wsum; simpl. ring.
Qed.

(* the regrouping lemma: summing over the entries = summing over the images *)
Theorem regroup f g t : wsum (fun o => g (f o)) t = wsum g (pushforward f t).
Proof. unfold pushforward. rewrite regroup_gen. unfold wsum at 2; simpl. ring. Qed.

Lemma wsum_ext_in g h t :
  (forall kv, In kv t -> Q2R (snd kv) * g (fst kv) = Q2R (snd kv) * h (fst kv)) -> wsum g t = wsum h t.
Proof.
  intros H. unfold wsum. f_equal. apply map_ext_in. exact H.
Qed.

Lemma cellmass_fibre S t o : cellmass S t o = Q2R (fibre_sum (proj S) t (proj S o)).
Proof.
  unfold cellmass, fibre_sum. induction t as [|[k v] r IH]; simpl.
  - symmetry. apply Q2R_0.
  - destruct (oeqb (proj S k) (proj S o)); simpl.
    + rewrite Q2R_plus, IH. reflexivity.
    + rewrite IH. ring.
Qed.

Lemma prob_of_In d k v : NoDup (keys d) -> In (k, v) d -> (prob_of d k == v)%Q.
Proof.
  unfold prob_of. induction d as [|[k' v'] r IH]; simpl; intros Hn Hin; [contradiction|].
  inversion Hn as [|? ? Hk Hr]; subst.
  destruct Hin as [E|Hin].
  - inversion E; subst. rewrite oeqb_refl. simpl.
    fold (prob_of r k). rewrite (prob_of_notin r k Hk). ring.
  - destruct (oeqb_spec k' k) as [->|Hne].
    + exfalso. apply Hk. unfold keys. apply (in_map fst) in Hin. exact Hin.
    + apply IH; assumption.
Qed.

(* every stored value of a pushforward is the sum over its fibre *)
Lemma pushforward_value f t k v :
  In (k, v) (pushforward f t) -> (v == fibre_sum f t k)%Q.
Proof.
  intros Hin. rewrite <- pushforward_prob. symmetry.
  apply prob_of_In; [apply pushforward_nodup| exact Hin].
Qed.

Lemma table_ok_nonneg t : table_ok t -> Forall (fun x => (0 <= snd x)%Q) t.
Proof.
  unfold table_ok. intros H. eapply Forall_impl; [| exact H]. intros a Ha. simpl in Ha.
  apply Qlt_le_weak, Ha.
Qed.

Lemma plogp_eq q : (0 <= q)%Q -> plogp q = Q2R q * log2 (Q2R q).
Proof.
  intros H. unfold plogp. destruct (Qle_bool q 0) eqn:E; [| reflexivity].
  rewrite (qle0_true_zero q H E). ring.
Qed.

Theorem entropy_pushforward_Hs (S : list nat) (t : pd) : table_ok t ->
  entropy_list (map snd (pushforward (proj S) t)) = Hs S t.
Proof.
  intros Hok. pose proof (table_ok_nonneg t Hok) as Hnn.
  unfold entropy_list, Hs. f_equal.
  transitivity (wsum (fun k => log2 (Q2R (fibre_sum (proj S) t k))) (pushforward (proj S) t)).
  - unfold wsum. rewrite map_map. f_equal. apply map_ext_in. intros [k v] Hin. simpl.
    pose proof (pushforward_value _ _ _ _ Hin) as Hv.
    assert (Hv0 : (0 <= v)%Q) by (rewrite Hv; apply fibre_sum_nonneg, Hnn).
    rewrite (plogp_eq v Hv0). rewrite (Qeq_eqR _ _ Hv). reflexivity.
  - rewrite <- (regroup (proj S) (fun k => log2 (Q2R (fibre_sum (proj S) t k))) t).
    unfold wsum. f_equal. apply map_ext. intros [k v]. simpl.
    rewrite cellmass_fibre. reflexivity.
Qed.

(* ------------------------------------------------------------------------------------------ *)
(* Part 2 — distribution level *)

Definition clean (d : Dist.dist) : Prop :=
  dist_ok d /\ d_sparse d = true /\ d_base d = Linear /\
  Forall (fun kv => (null_tol < snd kv)%Q) (d_tbl d).

Lemma null_tol_pos : (0 < null_tol)%Q.
Proof. reflexivity. Qed.

Lemma clean_table_ok d : clean d -> table_ok (d_tbl d).
Proof.
  intros (_ & _ & _ & Hpos). unfold table_ok. eapply Forall_impl; [| exact Hpos].
  intros a Ha. simpl in Ha. eapply Qlt_trans; [apply null_tol_pos| exact Ha].
Qed.

(* a fibre sum of non-negative values dominates each of its summands *)
Lemma fibre_sum_ge f t o p :
  Forall (fun x => (0 <= snd x)%Q) t -> In (o, p) t -> (p <= fibre_sum f t (f o))%Q.
Proof.
  unfold fibre_sum. induction t as [|[k v] r IH]; simpl; intros Hnn Hin; [contradiction|].
  inversion Hnn as [|? ? Hv Hr]; subst. simpl in Hv.
  destruct Hin as [E|Hin].
  - inversion E; subst. rewrite oeqb_refl. simpl.
    pose proof (fibre_sum_nonneg f r (f o) Hr) as H0. unfold fibre_sum in H0.
    Lqa.lra.
  - specialize (IH Hr Hin). destruct (oeqb (f k) (f o)); simpl; Lqa.lra.
Qed.

Lemma find_key_of_In d k v : NoDup (keys d) -> In (k, v) d -> find_key k d = Some v.
Proof.
  induction d as [|[k' v'] r IH]; simpl; intros Hn Hin; [contradiction|].
  inversion Hn as [|? ? Hk Hr]; subst.
  destruct Hin as [E|Hin].
  - inversion E; subst. rewrite oeqb_refl. reflexivity.
  - destruct (oeqb_spec k' k) as [->|Hne].
    + exfalso. apply Hk. apply (in_map fst) in Hin. exact Hin.
    + apply IH; assumption.
Qed.

Lemma NoDup_of_keys (t : pd) : NoDup (keys t) -> NoDup t.
Proof. unfold keys. apply NoDup_map_inv. Qed.

Lemma In_reorder ss t k v :
  NoDup (keys t) ->
  (In (k, v) (reorder ss t) <-> In (k, v) t /\ In k (ss_enum ss)).
Proof.
  intros Hn. unfold reorder. rewrite in_flat_map. split.
  - intros [o [Ho Hin]]. destruct (find_key o t) as [w|] eqn:E; [| contradiction].
    destruct Hin as [Heq|[]]. inversion Heq; subst. split; [apply find_key_In, E| exact Ho].
  - intros [Hin Hk]. exists k. split; [exact Hk|].
    rewrite (find_key_of_In t k v Hn Hin). left; reflexivity.
Qed.

(* reorder only changes the order when all keys lie in the sample space *)
Lemma reorder_perm ss t :
  NoDup (ss_enum ss) -> NoDup (keys t) -> (forall k, In k (keys t) -> In k (ss_enum ss)) ->
  Permutation (reorder ss t) t.
Proof.
  intros Hss Hn Hsub. apply NoDup_Permutation.
  - apply NoDup_of_keys, NoDup_keys_reorder, Hss.
  - apply NoDup_of_keys, Hn.
  - intros [k v]. rewrite (In_reorder ss t k v Hn). split; [tauto|].
    intros Hin. split; [exact Hin|]. apply Hsub. apply (in_map fst) in Hin. exact Hin.
Qed.

Lemma filter_all {A} (P : A -> bool) l : (forall x, In x l -> P x = true) -> filter P l = l.
Proof.
  induction l as [|x r IH]; simpl; intros H; [reflexivity|].
  rewrite (H x) by (left; reflexivity). f_equal. apply IH. intros y Hy. apply H. right; exact Hy.
Qed.

Lemma is_null_linear_false v : (null_tol < v)%Q -> is_null Linear v = false.
Proof.
  intros H. simpl. unfold Qabs_le. destruct (Qle_bool v null_tol) eqn:E; [| reflexivity].
  apply Qle_bool_iff in E. exfalso. exact (Qlt_not_le _ _ H E).
Qed.

(* every stored value of the pushforward of a table above the null tolerance is above it *)
Lemma pushforward_above f t k v :
  Forall (fun kv => (null_tol < snd kv)%Q) t -> In (k, v) (pushforward f t) -> (null_tol < v)%Q.
Proof.
  intros Hpos Hin.
  assert (Hnn : Forall (fun x => (0 <= snd x)%Q) t).
  { eapply Forall_impl; [| exact Hpos]. intros a Ha. simpl in Ha.
    apply Qlt_le_weak. eapply Qlt_trans; [apply null_tol_pos| exact Ha]. }
  pose proof (pushforward_value f t k v Hin) as Hv.
  assert (Hk : In k (keys (pushforward f t))) by (apply (in_map fst) in Hin; exact Hin).
  apply pushforward_keys in Hk as [o [Ho ->]].
  unfold keys in Ho. apply in_map_iff in Ho as [[o' p] [Eo Hop]]. simpl in Eo; subst o'.
  pose proof (fibre_sum_ge f t o p Hnn Hop) as Hge.
  rewrite Forall_forall in Hpos. specialize (Hpos (o, p) Hop). simpl in Hpos.
  rewrite Hv. eapply Qlt_le_trans; [exact Hpos| exact Hge].
Qed.

Theorem coalesce_tbl_perm (d : Dist.dist) (S : list nat) :
  clean d -> Forall (fun i => (i < d_nvars d)%nat) S ->
  Permutation (d_tbl (coalesce_flat S d)) (pushforward (proj S) (d_tbl d)).
Proof.
  intros (Hok & Hsp & Hb & Hpos) HS. destruct Hok as (Hss & Hnd & Hin).
  unfold coalesce_flat. simpl. rewrite Hsp, Hb. unfold build, trim.
  set (ss := ss_coalesce S (d_ss d)). set (pf := pushforward (proj S) (d_tbl d)).
  assert (Hssn : NoDup (ss_enum ss)) by (apply ss_wf_NoDup, ss_coalesce_wf, Hss).
  assert (Hpfn : NoDup (keys pf)) by apply pushforward_nodup.
  assert (Hsub : forall k, In k (keys pf) -> In k (ss_enum ss)).
  { intros k Hk. apply pushforward_keys in Hk as [o [Ho ->]].
    apply ss_mem_In. apply ss_coalesce_mem; [apply Hin, Ho| exact HS]. }
  pose proof (reorder_perm ss pf Hssn Hpfn Hsub) as Hperm.
  rewrite filter_all; [exact Hperm|].
  intros [k v] Hkv. cbn [snd].
  apply (Permutation_in _ Hperm) in Hkv.
  rewrite (is_null_linear_false v); [reflexivity|].
  apply (pushforward_above (proj S) (d_tbl d) k v Hpos Hkv).
Qed.

Theorem mpmf_perm (d : Dist.dist) (S : list nat) :
  clean d -> Forall (fun i => (i < d_nvars d)%nat) S ->
  Permutation (mpmf d S) (map snd (pushforward (proj S) (d_tbl d))).
Proof.
  intros Hc HS. unfold mpmf. apply Permutation_map. apply coalesce_tbl_perm; assumption.
Qed.

Theorem entropy_mpmf_Hs (d : Dist.dist) (S : list nat) :
  clean d -> Forall (fun i => (i < d_nvars d)%nat) S ->
  entropy_list (mpmf d S) = Hs S (d_tbl d).
Proof.
  intros Hc HS. rewrite (entropy_perm _ _ (mpmf_perm d S Hc HS)).
  apply entropy_pushforward_Hs, clean_table_ok, Hc.
Qed.

Theorem hvalue_Hs (d : Dist.dist) (tm : list hterm) :
  clean d -> Forall (fun x => Forall (fun i => (i < d_nvars d)%nat) (snd x)) tm ->
  hvalue d tm = heval (fun S => Hs S (d_tbl d)) tm.
Proof.
  intros Hc Htm. unfold hvalue, lincomb, hdata, heval. rewrite map_map. f_equal.
  apply map_ext_in. intros [c S] Hin. simpl.
  rewrite Forall_forall in Htm. specialize (Htm (c, S) Hin). simpl in Htm.
  rewrite (entropy_mpmf_Hs d S Hc Htm). reflexivity.
Qed.

(* non-vacuity: the example distribution of C02_Proofs without its explicit zero is clean *)
Definition ex_clean : Dist.dist :=
  mkDist (Cart [[0;1];[0;1];[0;2]]%nat)
         [([0;0;0]%nat, (1#4)%Q); ([0;1;2]%nat, (1#4)%Q); ([1;0;2]%nat, (1#2)%Q)]
         true Linear (Some [7;8;9]%nat).

Example ex_clean_ok : clean ex_clean.
Proof.
  split; [| split; [reflexivity| split; [reflexivity|]]].
  - split; [| split].
    + simpl. repeat constructor; simpl; intuition discriminate.
    + simpl. repeat constructor; simpl; intuition discriminate.
    + intros o Ho. simpl in Ho. destruct Ho as [<-|[<-|[<-|[]]]]; reflexivity.
  - simpl. repeat constructor.
Qed.

Example ex_clean_entropy :
  entropy_list (mpmf ex_clean [0;2]%nat) = Hs [0;2]%nat (d_tbl ex_clean).
Proof.
  apply entropy_mpmf_Hs; [apply ex_clean_ok|]. repeat constructor.
Qed.

Print Assumptions entropy_pushforward_Hs.
Print Assumptions mpmf_perm.
Print Assumptions entropy_mpmf_Hs.
Print Assumptions hvalue_Hs.
