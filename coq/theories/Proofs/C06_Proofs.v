(* Proofs/C06_Proofs.v — divergences: axioms of the models of C06 at the level of aligned pair lists.
   Kullback-Leibler (sign, self, finiteness), variational distance, Bhattacharyya coefficient /
   squared Hellinger distance, weak duality for the earth mover's distance.  Stdlib only. *)
From Verif Require Import Info.
From Verif Require Import Measures C06_Model Info_Proofs.
From Coq Require Import Lra Permutation.
Import ListNotations.
Open Scope R_scope.

(* ------------------------------------------------------------------------------------------ *)
(* 0. definitions *)

Definition pairs_ok (l : list (Q * Q)) : Prop :=
  Forall (fun pq => (0 <= fst pq)%Q /\ (0 <= snd pq)%Q) l.
Definition mass1 (l : list (Q * Q)) : Q := qsum (map fst l).
Definition mass2 (l : list (Q * Q)) : Q := qsum (map snd l).
Definition swap_pairs (l : list (Q * Q)) : list (Q * Q) := map (fun pq => (snd pq, fst pq)) l.
Definition vd_q (l : list (Q * Q)) : Q := (qsum (map (fun pq => qabs (fst pq - snd pq)) l) / 2)%Q.
Definition bc_r (l : list (Q * Q)) : R := rden (bc_data l).

(* ------------------------------------------------------------------------------------------ *)
(* 1. Kullback-Leibler divergence *)

Lemma pos_true q : pos q = true <-> (0 < q)%Q.
Proof.
  unfold pos. rewrite negb_true_iff. split; intros H.
  - apply Qnot_le_lt. intros H'. apply Qle_bool_iff in H'. congruence.
  - destruct (Qle_bool q 0) eqn:E; [|reflexivity]. apply Qle_bool_iff in E. Lqa.lra.
Qed.

Lemma pos_false q : pos q = false <-> (q <= 0)%Q.
Proof.
  unfold pos. rewrite negb_false_iff. apply Qle_bool_iff.
Qed.

Lemma inf_term_iff (pq : Q * Q) :
  pos (fst pq) && negb (pos (snd pq)) = true <-> (0 < fst pq)%Q /\ (snd pq <= 0)%Q.
Proof.
  rewrite andb_true_iff, negb_true_iff, pos_true, pos_false. tauto.
Qed.

Theorem xent_inf_iff l :
  xent_inf l = true <-> exists pq, In pq l /\ (0 < fst pq)%Q /\ (snd pq <= 0)%Q.
Proof.
  unfold xent_inf. rewrite existsb_exists. split; intros [pq [Hin H]]; exists pq; split; try exact Hin.
  - apply inf_term_iff. exact H.
  - apply inf_term_iff. exact H.
Qed.

Lemma pairs_ok_fst l : pairs_ok l -> Forall (fun q => (0 <= q)%Q) (map fst l).
Proof.
  intros H. induction H as [|pq t [Hp Hq] Ht IH]; simpl; constructor; assumption.
Qed.

Lemma pairs_ok_snd l : pairs_ok l -> Forall (fun q => (0 <= q)%Q) (map snd l).
Proof.
  intros H. induction H as [|pq t [Hp Hq] Ht IH]; simpl; constructor; assumption.
Qed.

Lemma xent_fin_support l :
  xent_inf l = false ->
  forall i, (0 < nth i (map fst l) 0)%Q -> (0 < nth i (map snd l) 0)%Q.
Proof.
  induction l as [|pq t IH]; intros Hx i Hi.
  - simpl in Hi. destruct i; simpl in Hi; Lqa.lra.
  - unfold xent_inf in Hx. simpl in Hx. apply orb_false_iff in Hx as [Hh Ht].
    destruct i as [|i]; simpl in *.
    + apply andb_false_iff in Hh as [Hh|Hh].
      * apply pos_false in Hh. Lqa.lra.
      * apply negb_false_iff in Hh. apply pos_true in Hh. exact Hh.
    + apply IH; assumption.
Qed.

Lemma pairs_kl_dom l : pairs_ok l -> xent_inf l = false -> kl_dom (map fst l) (map snd l).
Proof.
  intros Hok Hx. unfold kl_dom. split; [|split; [|split]].
  - rewrite !map_length. reflexivity.
  - apply pairs_ok_fst, Hok.
  - apply pairs_ok_snd, Hok.
  - apply xent_fin_support, Hx.
Qed.

Theorem kl_pairs_nonneg l :
  pairs_ok l -> xent_inf l = false -> (mass1 l == 1)%Q -> (mass2 l <= 1)%Q ->
  0 <= kl_list (map fst l) (map snd l).
Proof.
  intros Hok Hx H1 H2. apply kl_list_nonneg.
  - apply pairs_kl_dom; assumption.
  - exact H1.
  - exact H2.
Qed.

Theorem kl_pairs_self l :
  pairs_ok l -> (forall pq, In pq l -> fst pq = snd pq) -> kl_list (map fst l) (map snd l) = 0.
Proof.
  intros Hok Heq.
  replace (map snd l) with (map fst l).
  - apply kl_list_self. apply pairs_ok_fst, Hok.
  - apply map_ext_in. exact Heq.
Qed.

(* ------------------------------------------------------------------------------------------ *)
(* finite rational sums *)

Lemma qsum_map_ext {A} (f g : A -> Q) l :
  (forall x, In x l -> (f x == g x)%Q) -> (qsum (map f l) == qsum (map g l))%Q.
Proof.
  induction l as [|x t IH]; intros H; simpl; [reflexivity|].
  rewrite (H x (or_introl eq_refl)). rewrite IH; [reflexivity|].
  intros y Hy. apply H. right. exact Hy.
Qed.

Lemma qsum_map_le {A} (f g : A -> Q) l :
  (forall x, In x l -> (f x <= g x)%Q) -> (qsum (map f l) <= qsum (map g l))%Q.
Proof.
  induction l as [|x t IH]; intros H; simpl; [Lqa.lra|].
  pose proof (H x (or_introl eq_refl)) as Hx.
  assert (Ht : (qsum (map f t) <= qsum (map g t))%Q).
  { apply IH. intros y Hy. apply H. right. exact Hy. }
  Lqa.lra.
Qed.

Lemma qsum_map_add {A} (f g : A -> Q) l :
  (qsum (map (fun x => f x + g x) l) == qsum (map f l) + qsum (map g l))%Q.
Proof. induction l as [|x t IH]; simpl; Lqa.lra. Qed.

Lemma qsum_map_scal {A} (a : Q) (f : A -> Q) l :
  (qsum (map (fun x => a * f x) l) == a * qsum (map f l))%Q.
Proof.
  induction l as [|x t IH]; simpl; [Lqa.lra|]. rewrite IH. ring.
Qed.

Lemma qsum_map_zero {A} (l : list A) : (qsum (map (fun _ => 0) l) == 0)%Q.
Proof. induction l as [|x t IH]; simpl; Lqa.lra. Qed.

Lemma qsum_perm l l' : Permutation l l' -> (qsum l == qsum l')%Q.
Proof.
  intros H. induction H as [|x l l' Hp IH|x y l|l l' l'' H1 IH1 H2 IH2]; simpl; Lqa.lra.
Qed.

(* ------------------------------------------------------------------------------------------ *)
(* 2. variational distance *)

Lemma qabs_nonneg q : (0 <= qabs q)%Q.
Proof.
  unfold qabs. destruct (Qle_bool 0 q) eqn:E.
  - apply Qle_bool_iff. exact E.
  - assert (H : ~ (0 <= q)%Q) by (intros H; apply Qle_bool_iff in H; congruence). Lqa.lra.
Qed.

Lemma qabs_cases q : ((0 <= q)%Q /\ qabs q = q) \/ ((q < 0)%Q /\ qabs q = (- q)%Q).
Proof.
  unfold qabs. destruct (Qle_bool 0 q) eqn:E.
  - left. split; [apply Qle_bool_iff; exact E| reflexivity].
  - right. split; [|reflexivity]. apply Qnot_le_lt. intros H. apply Qle_bool_iff in H. congruence.
Qed.

Lemma qabs_opp a b : (qabs (a - b) == qabs (b - a))%Q.
Proof.
  destruct (qabs_cases (a - b)) as [[H1 ->]|[H1 ->]], (qabs_cases (b - a)) as [[H2 ->]|[H2 ->]]; Lqa.lra.
Qed.

Lemma qabs_le_sum a b : (0 <= a)%Q -> (0 <= b)%Q -> (qabs (a - b) <= a + b)%Q.
Proof.
  intros Ha Hb. destruct (qabs_cases (a - b)) as [[H1 ->]|[H1 ->]]; Lqa.lra.
Qed.

Lemma qabs_zero a b : (a == b)%Q -> (qabs (a - b) == 0)%Q.
Proof.
  intros Hab. destruct (qabs_cases (a - b)) as [[H1 ->]|[H1 ->]]; Lqa.lra.
Qed.

Theorem vd_q_sym l : (vd_q (swap_pairs l) == vd_q l)%Q.
Proof.
  unfold vd_q, swap_pairs. rewrite map_map. simpl.
  rewrite (qsum_map_ext (fun x : Q * Q => qabs (snd x - fst x)) (fun pq => qabs (fst pq - snd pq)) l).
  - reflexivity.
  - intros x _. apply qabs_opp.
Qed.

Lemma vd_sum_nonneg l : (0 <= qsum (map (fun pq : Q * Q => qabs (fst pq - snd pq)) l))%Q.
Proof.
  apply qsum_nonneg. apply Forall_forall. intros x Hx. apply in_map_iff in Hx as [pq [<- _]].
  apply qabs_nonneg.
Qed.

Theorem vd_q_nonneg l : (0 <= vd_q l)%Q.
Proof.
  unfold vd_q. pose proof (vd_sum_nonneg l) as H.
  apply Qle_shift_div_l; Lqa.lra.
Qed.

Lemma vd_sum_le_masses l :
  pairs_ok l -> (qsum (map (fun pq : Q * Q => qabs (fst pq - snd pq)) l) <= mass1 l + mass2 l)%Q.
Proof.
  unfold mass1, mass2. intros H. induction H as [|pq t [Hp Hq] Ht IH]; simpl; [Lqa.lra|].
  pose proof (qabs_le_sum _ _ Hp Hq) as Ha. Lqa.lra.
Qed.

Theorem vd_q_le_1 l : pairs_ok l -> (mass1 l <= 1)%Q -> (mass2 l <= 1)%Q -> (vd_q l <= 1)%Q.
Proof.
  intros Hok H1 H2. unfold vd_q. pose proof (vd_sum_le_masses l Hok) as H.
  apply Qle_shift_div_r; Lqa.lra.
Qed.

Theorem vd_q_self l : (forall pq, In pq l -> (fst pq == snd pq)%Q) -> (vd_q l == 0)%Q.
Proof.
  intros Heq. unfold vd_q.
  rewrite (qsum_map_ext (fun pq : Q * Q => qabs (fst pq - snd pq)) (fun _ => 0%Q) l).
  - rewrite qsum_map_zero. reflexivity.
  - intros pq Hin. apply qabs_zero. apply Heq. exact Hin.
Qed.

Theorem vd_q_perm l l' : Permutation l l' -> (vd_q l == vd_q l')%Q.
Proof.
  intros H. unfold vd_q.
  rewrite (qsum_perm _ _ (Permutation_map (fun pq : Q * Q => qabs (fst pq - snd pq)) H)).
  reflexivity.
Qed.

(* ------------------------------------------------------------------------------------------ *)
(* 3. Bhattacharyya coefficient and squared Hellinger distance *)

Lemma bc_r_nil : bc_r [] = 0.
Proof. unfold bc_r. simpl. exact Q2R_0. Qed.

Lemma bc_r_cons pq l : bc_r (pq :: l) = sqrt (Q2R (fst pq) * Q2R (snd pq)) + bc_r l.
Proof.
  unfold bc_r.
  change (rden (bc_data (pq :: l))) with (sqrt (Q2R (Qred (fst pq * snd pq))) + rden (bc_data l)).
  rewrite (Qeq_eqR _ _ (Qred_correct (fst pq * snd pq))), Q2R_mult. reflexivity.
Qed.

Theorem bc_r_sym l : bc_r (swap_pairs l) = bc_r l.
Proof.
  induction l as [|pq t IH]; [reflexivity|].
  unfold swap_pairs in *. simpl map. rewrite !bc_r_cons, IH. simpl fst. simpl snd.
  rewrite (Rmult_comm (Q2R (snd pq))). reflexivity.
Qed.

Theorem bc_r_nonneg l : pairs_ok l -> 0 <= bc_r l.
Proof.
  intros _. induction l as [|pq t IH].
  - rewrite bc_r_nil. lra.
  - rewrite bc_r_cons. pose proof (sqrt_pos (Q2R (fst pq) * Q2R (snd pq))) as Hs. lra.
Qed.

(* AM-GM *)
Lemma sqrt_am_gm a b : 0 <= a -> 0 <= b -> sqrt (a * b) <= (a + b) / 2.
Proof.
  intros Ha Hb.
  assert (Hm : 0 <= (a + b) / 2) by lra.
  rewrite <- (sqrt_square ((a + b) / 2) Hm).
  apply sqrt_le_1.
  - apply Rmult_le_pos; assumption.
  - apply Rmult_le_pos; assumption.
  - assert (Hsq : 0 <= ((a - b) / 2) * ((a - b) / 2)).
    { replace (((a - b) / 2) * ((a - b) / 2)) with (Rsqr ((a - b) / 2)) by reflexivity. apply Rle_0_sqr. }
    replace ((a + b) / 2 * ((a + b) / 2)) with (a * b + ((a - b) / 2) * ((a - b) / 2)) by field.
    lra.
Qed.

Lemma bc_r_le_masses l : pairs_ok l -> bc_r l <= (Q2R (mass1 l) + Q2R (mass2 l)) / 2.
Proof.
  unfold mass1, mass2. intros H. induction H as [|pq t [Hp Hq] Ht IH].
  - rewrite bc_r_nil. simpl. rewrite Q2R_0. lra.
  - rewrite bc_r_cons. simpl map. simpl qsum. rewrite !Q2R_plus.
    apply Q2R_nonneg in Hp, Hq.
    pose proof (sqrt_am_gm _ _ Hp Hq) as Ha. lra.
Qed.

Theorem bc_r_le_1 l : pairs_ok l -> (mass1 l <= 1)%Q -> (mass2 l <= 1)%Q -> bc_r l <= 1.
Proof.
  intros Hok H1 H2. pose proof (bc_r_le_masses l Hok) as H.
  apply Qle_Rle in H1, H2. rewrite Q2R_1 in H1, H2. lra.
Qed.

Theorem bc_r_perm l l' : Permutation l l' -> bc_r l = bc_r l'.
Proof.
  intros H. induction H as [|x l l' Hp IH|x y l|l l' l'' H1 IH1 H2 IH2].
  - reflexivity.
  - rewrite !bc_r_cons, IH. reflexivity.
  - rewrite !bc_r_cons. lra.
  - rewrite IH1. exact IH2.
Qed.

(* squared Hellinger distance 1 - BC *)
Theorem hellinger_sq_range l :
  pairs_ok l -> (mass1 l <= 1)%Q -> (mass2 l <= 1)%Q -> 0 <= 1 - bc_r l <= 1.
Proof.
  intros Hok H1 H2. pose proof (bc_r_nonneg l Hok) as Ha. pose proof (bc_r_le_1 l Hok H1 H2) as Hb. lra.
Qed.

(* the model value of hellinger_sq is 1 - bc_r on the union list *)
Lemma hellinger_sq_den l : rden (RAdd (RConst 1) (RNeg (bc_data l))) = 1 - bc_r l.
Proof. unfold bc_r. simpl. rewrite Q2R_1. lra. Qed.

(* ------------------------------------------------------------------------------------------ *)
(* 4. earth mover's distance: weak duality *)

Open Scope Q_scope.

Definition flow_ok (c : nat -> nat -> Q) (p q : list Q) (f : list (list Q)) : Prop :=
  length f = length p /\
  Forall (fun row => length row = length q) f /\
  Forall (fun row => Forall (fun x => 0 <= x) row) f /\
  (forall i, (i < length p)%nat -> qsum (nth i f []) == nth i p 0) /\
  (forall j, (j < length q)%nat -> qsum (map (fun row => nth j row 0) f) == nth j q 0).

Definition flow_cost (c : nat -> nat -> Q) (f : list (list Q)) : Q :=
  qsum (map (fun i => qsum (map (fun j => nth j (nth i f []) 0 * c i j) (range (length (nth i f [])))))
            (range (length f))).

(* lists as functions on range *)
Lemma map_nth_range {A} (l : list A) (d : A) : map (fun j => nth j l d) (range (length l)) = l.
Proof.
  unfold range. induction l as [|x t IH]; simpl; [reflexivity|].
  f_equal. rewrite <- seq_shift, map_map. exact IH.
Qed.

Lemma map_via_range {A B} (h : A -> B) (l : list A) (d : A) :
  map h l = map (fun i => h (nth i l d)) (range (length l)).
Proof.
  rewrite <- (map_map (fun i => nth i l d) h), map_nth_range. reflexivity.
Qed.

Lemma nth_map_range {A} (F : nat -> A) (n j : nat) (d : A) :
  (j < n)%nat -> nth j (map F (range n)) d = F j.
Proof.
  intros Hj. unfold range.
  rewrite (nth_indep _ d (F 0%nat)) by (rewrite map_length, seq_length; exact Hj).
  rewrite map_nth, seq_nth by exact Hj. reflexivity.
Qed.

Lemma in_range i n : In i (range n) <-> (i < n)%nat.
Proof. unfold range. rewrite in_seq. lia. Qed.

(* the finite-sum swap (Fubini) over arbitrary index lists, in particular over range *)
Lemma qsum_swap {A B} (g : A -> B -> Q) (la : list A) (lb : list B) :
  qsum (map (fun a => qsum (map (fun b => g a b) lb)) la) ==
  qsum (map (fun b => qsum (map (fun a => g a b) la)) lb).
Proof.
  induction la as [|a t IH]; simpl.
  - rewrite qsum_map_zero. reflexivity.
  - rewrite IH.
    rewrite (qsum_map_add (fun b => g a b) (fun b => qsum (map (fun a0 => g a0 b) t)) lb).
    reflexivity.
Qed.

Lemma qsum_swap_range (g : nat -> nat -> Q) n m :
  qsum (map (fun i => qsum (map (fun j => g i j) (range m))) (range n)) ==
  qsum (map (fun j => qsum (map (fun i => g i j) (range n))) (range m)).
Proof. apply qsum_swap. Qed.

Lemma qsum2_le {A B} (g h : A -> B -> Q) (la : list A) (lb : list B) :
  (forall a b, In a la -> In b lb -> g a b <= h a b) ->
  qsum (map (fun a => qsum (map (fun b => g a b) lb)) la) <=
  qsum (map (fun a => qsum (map (fun b => h a b) lb)) la).
Proof.
  intros H. apply qsum_map_le. intros a Ha. apply qsum_map_le. intros b Hb. apply H; assumption.
Qed.

Lemma qsum2_split {A B} (F : A -> B -> Q) (U : A -> Q) (V : B -> Q) (la : list A) (lb : list B) :
  qsum (map (fun a => qsum (map (fun b => F a b * (U a + V b)) lb)) la) ==
  qsum (map (fun a => U a * qsum (map (fun b => F a b) lb)) la) +
  qsum (map (fun b => V b * qsum (map (fun a => F a b) la)) lb).
Proof.
  transitivity (qsum (map (fun a => U a * qsum (map (fun b => F a b) lb)
                                    + qsum (map (fun b => V b * F a b) lb)) la)).
  - apply qsum_map_ext. intros a _.
    rewrite <- (qsum_map_scal (U a) (fun b => F a b) lb).
    rewrite <- (qsum_map_add (fun b => U a * F a b) (fun b => V b * F a b) lb).
    apply qsum_map_ext. intros b _. ring.
  - rewrite (qsum_map_add (fun a => U a * qsum (map (fun b => F a b) lb))
                          (fun a => qsum (map (fun b => V b * F a b) lb)) la).
    apply Qplus_comp; [reflexivity|].
    rewrite (qsum_swap (fun a b => V b * F a b) la lb).
    apply qsum_map_ext. intros b _.
    rewrite (qsum_map_scal (V b) (fun a => F a b) la). reflexivity.
Qed.

(* the running minimum of dual_bound is below each of its arguments *)
Lemma fold_min_le (g : nat -> Q) (init : Q) (l : list nat) (i : nat) :
  In i l ->
  fold_right (fun i m => let x := g i in if Qle_bool x m then x else m) init l <= g i.
Proof.
  induction l as [|a t IH]; intros Hin; [contradiction|].
  simpl. set (m := fold_right (fun i m => let x := g i in if Qle_bool x m then x else m) init t) in *.
  destruct (Qle_bool (g a) m) eqn:E.
  - apply Qle_bool_iff in E. destruct Hin as [->|Hin]; [Lqa.lra|]. specialize (IH Hin). Lqa.lra.
  - assert (Hlt : m < g a).
    { apply Qnot_le_lt. intros H. apply Qle_bool_iff in H. congruence. }
    destruct Hin as [->|Hin]; [Lqa.lra|]. exact (IH Hin).
Qed.

Definition dual_v (c : nat -> nat -> Q) (u : list Q) (n j : nat) : Q :=
  fold_right (fun i m => let x := c i j - nth i u 0 in if Qle_bool x m then x else m)
             (c 0%nat j - nth 0 u 0) (range n).

Lemma dual_v_feasible c u n i j : (i < n)%nat -> nth i u 0 + dual_v c u n j <= c i j.
Proof.
  intros Hi. unfold dual_v.
  pose proof (fold_min_le (fun i => c i j - nth i u 0) (c 0%nat j - nth 0 u 0) (range n) i
                          (proj2 (in_range i n) Hi)) as H.
  simpl in H. Lqa.lra.
Qed.

Lemma dual_bound_eq c p q u :
  dual_bound c p q u ==
  qsum (map (fun i => nth i u 0 * nth i p 0) (range (length p))) +
  qsum (map (fun j => dual_v c u (length p) j * nth j q 0) (range (length q))).
Proof.
  unfold dual_bound. cbv zeta. apply Qplus_comp; [reflexivity|].
  apply qsum_map_ext. intros j Hj. apply in_range in Hj.
  rewrite (nth_map_range _ (length q) j 0 Hj). unfold dual_v. reflexivity.
Qed.

Lemma flow_entry_nonneg c p q f i j :
  flow_ok c p q f -> (i < length p)%nat -> (j < length q)%nat -> 0 <= nth j (nth i f []) 0.
Proof.
  intros (Hlen & Hrows & Hnn & _ & _) Hi Hj.
  assert (Hin : In (nth i f []) f) by (apply nth_In; rewrite Hlen; exact Hi).
  rewrite Forall_forall in Hrows, Hnn.
  pose proof (Hrows _ Hin) as Hl. pose proof (Hnn _ Hin) as Hr.
  rewrite Forall_forall in Hr. apply Hr. apply nth_In. rewrite Hl. exact Hj.
Qed.

Lemma flow_row_length c p q f i :
  flow_ok c p q f -> (i < length p)%nat -> length (nth i f []) = length q.
Proof.
  intros (Hlen & Hrows & _) Hi. rewrite Forall_forall in Hrows. apply Hrows.
  apply nth_In. rewrite Hlen. exact Hi.
Qed.

Theorem emd_weak_duality c p q u f : flow_ok c p q f -> dual_bound c p q u <= flow_cost c f.
Proof.
  intros Hok.
  pose proof Hok as (Hlen & Hrows & Hnn & Hr & Hc).
  set (n := length p) in *. set (m := length q) in *.
  set (F := fun i j : nat => nth j (nth i f []) 0).
  set (U := fun i : nat => nth i u 0).
  set (V := fun j : nat => dual_v c u n j).
  (* the flow cost as a rectangular double sum *)
  assert (Hcost : flow_cost c f == qsum (map (fun i => qsum (map (fun j => F i j * c i j) (range m))) (range n))).
  { unfold flow_cost. rewrite Hlen. apply qsum_map_ext. intros i Hi. apply in_range in Hi.
    rewrite (flow_row_length c p q f i Hok Hi). reflexivity. }
  (* the dual value as the double sum of f_ij (u_i + v_j) *)
  assert (Hdual : dual_bound c p q u == qsum (map (fun i => qsum (map (fun j => F i j * (U i + V j)) (range m))) (range n))).
  { rewrite dual_bound_eq, (qsum2_split F U V (range n) (range m)).
    apply Qplus_comp.
    - apply qsum_map_ext. intros i Hi. apply in_range in Hi. unfold U.
      assert (Hrow : qsum (map (fun b => F i b) (range m)) == nth i p 0).
      { rewrite <- (Hr i Hi). unfold F, m.
        rewrite <- (flow_row_length c p q f i Hok Hi).
        rewrite (map_nth_range (nth i f []) 0). reflexivity. }
      rewrite Hrow. reflexivity.
    - apply qsum_map_ext. intros j Hj. apply in_range in Hj. unfold V.
      assert (Hcol : qsum (map (fun a => F a j) (range n)) == nth j q 0).
      { rewrite <- (Hc j Hj). unfold F. rewrite <- Hlen.
        rewrite (map_via_range (fun row => nth j row 0) f []). reflexivity. }
      rewrite Hcol. reflexivity. }
  rewrite Hdual, Hcost.
  apply qsum2_le. intros i j Hi Hj. apply in_range in Hi, Hj.
  pose proof (flow_entry_nonneg c p q f i j Hok Hi Hj) as Hf. fold (F i j) in Hf.
  pose proof (dual_v_feasible c u n i j Hi) as Hv. fold (U i) (V j) in Hv.
  assert (Hz : 0 <= F i j * (c i j - (U i + V j))) by (apply Qmult_le_0_compat; Lqa.lra).
  Lqa.lra.
Qed.

Open Scope R_scope.

(* ------------------------------------------------------------------------------------------ *)
(* 5. non-vacuity *)

Definition ex_pairs : list (Q * Q) := [(1#2, 1#4); (1#2, 3#4)]%Q.

Example ex_pairs_ok : pairs_ok ex_pairs.
Proof. unfold ex_pairs. repeat constructor; simpl; discriminate. Qed.

Example ex_pairs_finite : xent_inf ex_pairs = false.
Proof. reflexivity. Qed.

Example ex_pairs_masses : (mass1 ex_pairs == 1)%Q /\ (mass2 ex_pairs <= 1)%Q.
Proof. split; [reflexivity| discriminate]. Qed.

Example ex_pairs_kl_nonneg : 0 <= kl_list (map fst ex_pairs) (map snd ex_pairs).
Proof.
  apply kl_pairs_nonneg.
  - exact ex_pairs_ok.
  - exact ex_pairs_finite.
  - exact (proj1 ex_pairs_masses).
  - exact (proj2 ex_pairs_masses).
Qed.

Example ex_pairs_vd : (vd_q ex_pairs == 1#4)%Q.
Proof. reflexivity. Qed.

Example ex_pairs_bc : 0 <= bc_r ex_pairs <= 1.
Proof.
  split.
  - apply bc_r_nonneg, ex_pairs_ok.
  - apply bc_r_le_1; [exact ex_pairs_ok| discriminate| discriminate].
Qed.

(* the infinite case is reachable: a positive mass facing a zero *)
Example ex_pairs_infinite : xent_inf [(1#2, 0); (1#2, 1)]%Q = true.
Proof. reflexivity. Qed.

(* a feasible 2x2 flow between p = (1/2, 1/2) and q = (1/4, 3/4), with the 0/1 cost *)
Definition ex_cost (i j : nat) : Q := if Nat.eqb i j then 0%Q else 1%Q.
Definition ex_p : list Q := [1#2; 1#2]%Q.
Definition ex_q : list Q := [1#4; 3#4]%Q.
Definition ex_flow : list (list Q) := [[1#4; 1#4]; [0; 1#2]]%Q.

Example ex_flow_ok : flow_ok ex_cost ex_p ex_q ex_flow.
Proof.
  unfold flow_ok, ex_p, ex_q, ex_flow. split; [reflexivity|]. split; [|split; [|split]].
  - repeat constructor.
  - repeat constructor; discriminate.
  - intros [|[|i]] Hi; simpl in *; [reflexivity| reflexivity| lia].
  - intros [|[|j]] Hj; simpl in *; [reflexivity| reflexivity| lia].
Qed.

(* weak duality on the example, and a dual vector that makes it tight: both sides are 1/4 *)
Example ex_flow_duality u : (dual_bound ex_cost ex_p ex_q u <= flow_cost ex_cost ex_flow)%Q.
Proof. apply emd_weak_duality. exact ex_flow_ok. Qed.

Example ex_flow_tight :
  (dual_bound ex_cost ex_p ex_q [1; 0] == 1#4)%Q /\ (flow_cost ex_cost ex_flow == 1#4)%Q.
Proof. split; reflexivity. Qed.

Print Assumptions kl_pairs_nonneg.
Print Assumptions bc_r_le_1.
Print Assumptions emd_weak_duality.
